/-
C13 — notes round-trip with ABI encoding; out-of-range indices are refused.

Statements use: the model (`Note.process/get/add`, built from the generated expressions of
Gen/SitesC13.lean), the reference encoding `Spec.encodeNote(s)`, and explicit size bounds.
-/
import ElfioVerif.Lemmas.Note
import ElfioVerif.Props.C07
namespace ElfioVerif
open Gen

namespace C13
open Note

/-- The only thing the accessor needs of its section / segment: when there is a data pointer, the
    size getter does not exceed the allocation behind it. -/
def SrcOk (src : NoteSrc) : Prop := ∀ a, src.data = some a → src.size.toNat ≤ a.length

/-- the bytes the accessor may look at: `[0, size)` of the data -/
def NoteSrc.view (src : NoteSrc) : Bytes := (src.data.getD []).take src.size.toNat

/-- the 32-bit word of the file at offset `off` -/
def fieldAt (e : Enc) (a : Bytes) (off : Nat) : BitVec 32 := BitVec.ofNat 32 (rdField e (slice a off 4))

theorem rd32_ok (site : String) (e : Enc) (a : Bytes) (off : Nat) (h : off + 4 ≤ a.length) :
    rd32 site e (some a) off = .ok (fieldAt e a off) := by
  simp [rd32, rdRange_some_ok h, fieldAt, bind, Except.bind, pure, Except.pure]

/-- what the walker has checked about a position it records -/
structure Good (e : Enc) (a : Bytes) (size p : Nat) : Prop where
  hdr : p + 12 ≤ size
  nlt : (fieldAt e a p).toNat < size
  dlt : (fieldAt e a (p + 4)).toNat < size
  fit : p + 12 + r4 (fieldAt e a p).toNat + r4 (fieldAt e a (p + 4)).toNat ≤ size

/-- the loop of `process_section` neither leaves the buffer nor runs out of fuel, and records only
    checked positions -/
theorem walk_good (e : Enc) (a : Bytes) (size : BitVec 64) (hsz : size.toNat ≤ a.length)
    (hb : size.toNat < 9223372036854775808) :
    ∀ (fuel : Nat) (cur : BitVec 64), cur.toNat ≤ size.toNat → (size.toNat - cur.toNat) / 12 < fuel →
      ∃ l, walk e ⟨some a, size⟩ fuel cur = .ok l ∧ l.length ≤ fuel ∧
        ∀ p ∈ l, Good e a size.toNat p.toNat := by
  intro fuel
  induction fuel with
  | zero => intro cur _ h; omega
  | succ fuel ih =>
    intro cur hc hf
    unfold walk
    simp only [walk_align_eq]
    rw [walk_cond_eq _ _ (by omega)]
    by_cases h12 : cur.toNat + 12 ≤ size.toNat
    · simp only [h12, decide_true, if_true]
      have r1 := rd32_ok "process_section/namesz" e a (note_walk_namesz_off cur).toNat
        (by show cur.toNat + 4 ≤ a.length; omega)
      have hoff : (note_walk_descsz_off cur).toNat = cur.toNat + 4 := by
        unfold note_walk_descsz_off
        rw [BitVec.toNat_add]; simp only [BitVec.toNat_ofNat, Nat.reducePow, Nat.reduceMod]; omega
      have r2 := rd32_ok "process_section/descsz" e a (note_walk_descsz_off cur).toNat
        (by rw [hoff]; omega)
      simp only [r1, r2, bind, Except.bind]
      rw [hoff]
      have hn : (note_walk_namesz_off cur).toNat = cur.toNat := rfl
      rw [hn]
      generalize hnv : fieldAt e a cur.toNat = n
      generalize hdv : fieldAt e a (cur.toNat + 4) = d
      have hadv := walk_advance_toNat n d
      have := r4_lt n.toNat; have := r4_lt d.toNat
      rw [walk_accept_eq _ _ _ _ _ (by omega)]
      by_cases hacc : n.toNat < size.toNat ∧ d.toNat < size.toNat ∧
          cur.toNat + (note_walk_advance n 4#32 d).toNat ≤ size.toNat
      · simp only [hacc, and_self, decide_true, if_true]
        have hnx := walk_next_toNat cur (note_walk_advance n 4#32 d) (by omega)
        obtain ⟨l, hl, hlen, hg⟩ := ih (note_walk_next cur (note_walk_advance n 4#32 d))
          (by rw [hnx]; exact hacc.2.2) (by rw [hnx]; omega)
        simp only [hl, pure, Except.pure]
        refine ⟨_, rfl, by simp; omega, ?_⟩
        intro p hp
        rcases List.mem_cons.mp hp with rfl | hp
        · exact ⟨h12, by rw [hnv]; exact hacc.1, by rw [hdv]; exact hacc.2.1, by rw [hnv, hdv]; omega⟩
        · exact hg p hp
      · simp only [hacc, decide_false, Bool.false_eq_true, if_false, pure, Except.pure]
        exact ⟨[], rfl, by simp, by simp⟩
    · simp only [h12, decide_false, Bool.false_eq_true, if_false, pure, Except.pure]
      exact ⟨[], rfl, by simp, by simp⟩


/-- **walk_fuel** : the fuel `size/12 + 1` given to the walker never runs out and the walker never
    leaves the buffer — for every content, any source whose size does not exceed its allocation
    (the 64-bit `advance` of fix 04 is at least 12 for every input). -/
theorem walk_fuel (e : Enc) (a : Bytes) (size : BitVec 64) (hsz : size.toNat ≤ a.length)
    (hb : size.toNat < 9223372036854775808) :
    ∃ l, walk e ⟨some a, size⟩ (walkFuel ⟨some a, size⟩) 0 = .ok l ∧ l.length ≤ size.toNat / 12 + 1 ∧
      ∀ p ∈ l, Good e a size.toNat p.toNat :=
  walk_good e a size hsz hb _ 0 (by simp) (by simp [walkFuel])

/-- **process_total** : the constructor never faults (no out-of-bounds read, no missing return) on
    any source whose size does not exceed its allocation; every position it records was checked. -/
theorem process_total (e : Enc) (src : NoteSrc) (h : SrcOk src) (hb : src.size.toNat < 9223372036854775808) :
    ∃ pos, process e src = .ok pos ∧ pos.length ≤ src.size.toNat / 12 + 1 ∧
      ∀ p ∈ pos, ∃ a, src.data = some a ∧ Good e a src.size.toNat p.toNat := by
  obtain ⟨data, size⟩ := src
  unfold process
  rw [walk_empty_eq, NoteTie.walk_start]
  cases data with
  | none => exact ⟨[], by simp [pure, Except.pure], by simp, by simp⟩
  | some a =>
    by_cases h0 : size.toNat = 0
    · exact ⟨[], by simp [h0, pure, Except.pure], by simp, by simp⟩
    · simp only [Option.isNone_some, h0, decide_false, Bool.or_self, Bool.false_eq_true, if_false]
      obtain ⟨l, hl, hlen, hg⟩ := walk_fuel e a size (h a rfl) hb
      exact ⟨l, hl, hlen, fun p hp => ⟨a, rfl, hg p hp⟩⟩

theorem vecIdx_ok {α : Type} (site : String) (v : List α) (i : Nat) (h : i < v.length) :
    vecIdx site v i = .ok v[i] := by
  simp [vecIdx, List.getElem?_eq_getElem h, pure, Except.pure]

/-- `get_note` behind its gate, at a position the walker checked, stays inside `[0, size)` -/
theorem getBody_good (e : Enc) (a : Bytes) (size : BitVec 64) (hsz : size.toNat ≤ a.length)
    (hs : size.toNat ≤ 4294967293) (pos : List (BitVec 64)) (index : BitVec 32)
    (hi : index.toNat < pos.length) (hg : Good e a size.toNat (pos[index.toNat]).toNat) :
    ∃ r, getBody e ⟨some a, size⟩ pos index = .ok r := by
  unfold getBody
  simp only [vecIdx_ok _ pos _ hi, bind, Except.bind, get_align_eq, pdata_off_eq, get_type_off_eq,
    get_namesz_off_eq, get_descsz_off_eq, get_name_off_eq, Nat.add_zero]
  generalize pos[index.toNat] = p at hg
  obtain ⟨h1, h2, h3, h4⟩ := hg
  rw [rd32_ok _ e a (p.toNat + 8) (by omega), rd32_ok _ e a p.toNat (by omega),
    rd32_ok _ e a (p.toNat + 4) (by omega)]
  simp only []
  generalize fieldAt e a p.toNat = n at *
  generalize fieldAt e a (p.toNat + 4) = d at *
  rw [get_reject_eq, get_max_toNat _ _ (by omega)]
  by_cases hr : n.toNat < 1 ∨ size.toNat - p.toNat < n.toNat ∨ size.toNat - p.toNat < n.toNat + d.toNat
  · simp only [hr, decide_true, if_true, pure, Except.pure]; exact ⟨_, rfl⟩
  · simp only [hr, decide_false, Bool.false_eq_true, if_false]
    have hn1 : 1 ≤ n.toNat := by omega
    have hrn : r4 n.toNat = Spec.up4 n.toNat := r4_eq_up4 (by omega)
    have hrd : r4 d.toNat = Spec.up4 d.toNat := r4_eq_up4 (by omega)
    have := le_up4 n.toNat; have := le_up4 d.toNat
    rw [get_name_len_toNat _ hn1, rdRange_some_ok (by omega)]
    simp only [get_desc_null_eq]
    by_cases hd0 : d.toNat = 0
    · simp only [hd0, decide_true, if_true, pure, Except.pure]; exact ⟨_, rfl⟩
    · simp only [hd0, decide_false, Bool.false_eq_true, if_false]
      rw [get_desc_off_toNat, rdRange_some_ok (by omega)]
      exact ⟨_, rfl⟩

/-- **get_note_absent** : for EVERY 32-bit index that is not below the number of notes, `get_note`
    returns false and touches nothing — whatever the source and the positions are. -/
theorem get_note_absent (e : Enc) (src : NoteSrc) (pos : List (BitVec 64)) (index : BitVec 32)
    (h : pos.length ≤ index.toNat) : Note.get e src pos index = .ok none := by
  have := index.isLt
  unfold Note.get
  rw [get_gate_eq _ _ (by omega)]
  simp [h, pure, Except.pure]

/-- **get_note_total** : on ANY source whose size does not exceed its allocation (arbitrary content —
    malformed, truncated, hostile), with size ≤ 2^32-3, the constructor succeeds and `get_note` with
    ANY 32-bit index returns (true or false) without a fault: no vector access out of range, no read
    outside `[0, size)`, including the caller's read of `descSize` bytes at the returned pointer. -/
theorem get_note_total (e : Enc) (src : NoteSrc) (h : SrcOk src) (hs : src.size.toNat ≤ 4294967293) :
    ∃ pos, process e src = .ok pos ∧ ∀ index : BitVec 32, ∃ r, Note.get e src pos index = .ok r := by
  obtain ⟨pos, hp, hlen, hg⟩ := process_total e src h (by omega)
  refine ⟨pos, hp, fun index => ?_⟩
  by_cases hi : pos.length ≤ index.toNat
  · exact ⟨none, get_note_absent e src pos index hi⟩
  · have hi' : index.toNat < pos.length := by omega
    have := index.isLt
    unfold Note.get
    rw [get_gate_eq _ _ (by omega)]
    simp only [hi, decide_false, Bool.false_eq_true, if_false]
    obtain ⟨a, ha, hgood⟩ := hg pos[index.toNat] (List.getElem_mem hi')
    obtain ⟨data, size⟩ := src
    simp only at ha; subst ha
    exact getBody_good e a size (h a rfl) hs pos index hi' hgood


/-! ### the encoder -/

theorem ofNat32_toNat {x : Nat} (h : x < 4294967296) : (BitVec.ofNat 32 x).toNat = x := by
  simp only [BitVec.toNat_ofNat, Nat.reducePow]; omega

theorem padTo4_eq (bs : Bytes) :
    Spec.padTo4 bs = bs ++ (if bs.length % 4 ≠ 0 then List.replicate (4 - bs.length % 4) 0 else []) := by
  unfold Spec.padTo4 Spec.pad4
  split
  · congr 2; omega
  · have : (4 - bs.length % 4) % 4 = 0 := by omega
    rw [this]; rfl

/-- **encodeBuf_spec** : the buffer `add_note` appends is the ABI encoding of the note: namesz
    (name length + terminator), descsz, type as 4-byte words in file order, the name with its
    terminator padded to 4, the descriptor padded to 4.  A null descriptor pointer is allowed when
    the descriptor is empty. -/
theorem encodeBuf_spec (e : Enc) (n : Spec.Note) (hf : n.Fits) (dp : Option Bytes)
    (hd : dp = some n.desc ∨ (dp = none ∧ n.desc = [])) :
    encodeBuf e (BitVec.ofNat 32 n.type) n.name dp (BitVec.ofNat 32 n.desc.length)
      = .ok (Spec.encodeNote e n) := by
  obtain ⟨h1, h2, h3⟩ := hf
  have hnl : (note_add_namelen (BitVec.ofNat 64 n.name.length)).toNat = n.name.length + 1 :=
    add_namelen_toNat _ h2
  -- name padding
  have hnp : padIf "add_note/name-pad"
        (note_add_name_unaligned (note_add_namelen (BitVec.ofNat 64 n.name.length)) note_add_align)
        (note_add_name_pad note_add_align (note_add_namelen (BitVec.ofNat 64 n.name.length)))
      = .ok (if (n.name.length + 1) % 4 ≠ 0 then List.replicate (4 - (n.name.length + 1) % 4) 0 else []) := by
    unfold padIf
    rw [add_align_eq, add_name_unaligned_eq, hnl]
    by_cases hu : (n.name.length + 1) % 4 ≠ 0
    · rw [if_pos (by simpa using hu), if_pos hu]
      rw [padBytes_ok _ _ (by rw [add_name_pad_toNat]; omega), add_name_pad_toNat, hnl]
    · have hz : (n.name.length + 1) % 4 = 0 := by omega
      simp [hz, pure, Except.pure]
  -- descriptor and its padding
  have hdp : descPart dp (BitVec.ofNat 32 n.desc.length) = .ok (Spec.padTo4 n.desc) := by
    unfold descPart
    rw [NoteTie.desc_len, add_has_desc_eq, ofNat32_toNat h3, padTo4_eq]
    by_cases hd0 : n.desc.length = 0
    · have hnil : n.desc = [] := List.eq_nil_of_length_eq_zero hd0
      simp [hnil, pure, Except.pure]
    · have hdp : dp = some n.desc := by
        rcases hd with h | ⟨_, h⟩
        · exact h
        · rw [h] at hd0; simp at hd0
      subst hdp
      simp only [Option.isNone_some, Bool.not_false, Bool.true_and, ne_eq, hd0, not_false_eq_true,
        decide_true, if_true]
      rw [rdRange_some_ok (by omega)]
      have hpad : padIf "add_note/desc-pad"
            (note_add_desc_unaligned (BitVec.ofNat 32 n.desc.length) note_add_align)
            (note_add_desc_pad note_add_align (BitVec.ofNat 32 n.desc.length))
          = .ok (if n.desc.length % 4 ≠ 0 then List.replicate (4 - n.desc.length % 4) 0 else []) := by
        unfold padIf
        rw [add_align_eq, add_desc_unaligned_eq, ofNat32_toNat h3]
        by_cases hu : n.desc.length % 4 ≠ 0
        · rw [if_pos (by simpa using hu), if_pos hu]
          rw [padBytes_ok _ _ (by rw [add_desc_pad_toNat]; omega), add_desc_pad_toNat, ofNat32_toNat h3]
        · have hz : n.desc.length % 4 = 0 := by omega
          simp [hz, pure, Except.pure]
      simp only [hpad, slice_self, bind, Except.bind, pure, Except.pure, ne_eq]
  unfold encodeBuf Spec.encodeNote
  simp only [NoteTie.descsz_len, NoteTie.type_len, NoteTie.nul_bytes, hnp, hdp, hnl, bind, Except.bind, pure, Except.pure, ofNat32_toNat h1, ofNat32_toNat h3,
    wrField_eq e 4 _ (Or.inr (Or.inr (Or.inl rfl)))]
  rw [padTo4_eq (n.name ++ [0])]
  simp only [List.length_append, List.length_cons, List.length_nil, Nat.zero_add, List.append_assoc]


/-! ### reading a note back -/

/-- the bytes of `a` at offset `p` are the ABI encoding of `n` -/
def HasNote (e : Enc) (a : Bytes) (p : Nat) (n : Spec.Note) : Prop :=
  slice a p (Spec.encodeNote e n).length = Spec.encodeNote e n

theorem fieldAt_of_slice (e : Enc) (a : Bytes) (off x : Nat) (h : slice a off 4 = encodeInt e 4 x) :
    fieldAt e a off = BitVec.ofNat 32 x := by
  unfold fieldAt
  rw [h, rdField_eq e _ (by simp), decode_encodeInt]
  apply BitVec.eq_of_toNat_eq
  simp

theorem encodeNote_assoc (e : Enc) (n : Spec.Note) :
    Spec.encodeNote e n = encodeInt e 4 (n.name.length + 1) ++ (encodeInt e 4 n.desc.length ++
      (encodeInt e 4 n.type ++ (Spec.padTo4 (n.name ++ [0]) ++ Spec.padTo4 n.desc))) := by
  simp [Spec.encodeNote, List.append_assoc]

/-- the five fields of a note found at `p` -/
theorem hasNote_fields {e : Enc} {a : Bytes} {p : Nat} {n : Spec.Note} (h : HasNote e a p n) :
    fieldAt e a p = BitVec.ofNat 32 (n.name.length + 1) ∧
    fieldAt e a (p + 4) = BitVec.ofNat 32 n.desc.length ∧
    fieldAt e a (p + 8) = BitVec.ofNat 32 n.type ∧
    slice a (p + 12) n.name.length = n.name ∧
    slice a (p + 12 + Spec.up4 (n.name.length + 1)) n.desc.length = n.desc := by
  have hL := Spec.encodeNote_length e n
  have l4 : ∀ x, (encodeInt e 4 x).length = 4 := fun x => by simp
  have hu1 := le_up4 (n.name.length + 1); have hu2 := le_up4 n.desc.length
  have hN : (Spec.padTo4 (n.name ++ [0])).length = Spec.up4 (n.name.length + 1) := by simp
  refine ⟨?_, ?_, ?_, ?_, ?_⟩
  · apply fieldAt_of_slice
    have := slice_slice_note h (off := 0) (len := 4) (by omega)
    rw [Nat.add_zero] at this
    rw [this, encodeNote_assoc, slice_prefix (l4 _)]
  · apply fieldAt_of_slice
    rw [slice_slice_note h (off := 4) (len := 4) (by omega), encodeNote_assoc,
      slice_append_right' (l4 _) _ 0 4, slice_prefix (l4 _)]
  · apply fieldAt_of_slice
    rw [slice_slice_note h (off := 8) (len := 4) (by omega), encodeNote_assoc,
      slice_append_right' (l4 _) _ 4 4, slice_append_right' (l4 _) _ 0 4, slice_prefix (l4 _)]
  · rw [slice_slice_note h (off := 12) (len := n.name.length) (by omega), encodeNote_assoc,
      slice_append_right' (l4 _) _ 8 _, slice_append_right' (l4 _) _ 4 _,
      slice_append_right' (l4 _) _ 0 _]
    unfold Spec.padTo4
    rw [List.append_assoc, List.append_assoc, slice_prefix rfl]
  · have e12 : 12 + Spec.up4 (n.name.length + 1) = 4 + (4 + (4 + (Spec.up4 (n.name.length + 1) + 0))) := by
      omega
    rw [Nat.add_assoc, slice_slice_note h (off := 12 + Spec.up4 (n.name.length + 1)) (len := n.desc.length)
        (by omega), encodeNote_assoc, e12, slice_append_right' (l4 _), slice_append_right' (l4 _),
      slice_append_right' (l4 _), slice_append_right' hN]
    unfold Spec.padTo4
    rw [slice_prefix rfl]

/-- what `get_note` hands back for a note (`desc` null for an empty descriptor) -/
def outOf (n : Spec.Note) : NoteOut :=
  ⟨BitVec.ofNat 32 n.type, n.name, if n.desc.length = 0 then none else some n.desc,
    BitVec.ofNat 32 n.desc.length⟩

/-- `get_note` behind its gate, at a position holding the encoding of `n`, returns `n` -/
theorem getBody_hasNote (e : Enc) (a : Bytes) (size : BitVec 64) (hsz : size.toNat ≤ a.length)
    (hs : size.toNat ≤ 4294967293) (pos : List (BitVec 64)) (index : BitVec 32)
    (hi : index.toNat < pos.length) (n : Spec.Note) (hf : n.Fits)
    (hn : HasNote e a (pos[index.toNat]).toNat n)
    (hfit : (pos[index.toNat]).toNat + (Spec.encodeNote e n).length ≤ size.toNat) :
    getBody e ⟨some a, size⟩ pos index = .ok (some (outOf n)) := by
  obtain ⟨f1, f2, f3, f4, f5⟩ := hasNote_fields hn
  obtain ⟨t1, t2, t3⟩ := hf
  have hL := Spec.encodeNote_length e n
  have hu1 := le_up4 (n.name.length + 1); have hu2 := le_up4 n.desc.length
  unfold getBody
  simp only [vecIdx_ok _ pos _ hi, bind, Except.bind, get_align_eq, pdata_off_eq, get_type_off_eq,
    get_namesz_off_eq, get_descsz_off_eq, get_name_off_eq, Nat.add_zero]
  generalize pos[index.toNat] = p at *
  rw [rd32_ok _ e a (p.toNat + 8) (by omega), rd32_ok _ e a p.toNat (by omega),
    rd32_ok _ e a (p.toNat + 4) (by omega), f1, f2, f3]
  simp only []
  rw [get_reject_eq, get_max_toNat _ _ (by omega), ofNat32_toNat t2, ofNat32_toNat t3]
  have hr : ¬ (n.name.length + 1 < 1 ∨ size.toNat - p.toNat < n.name.length + 1 ∨
      size.toNat - p.toNat < n.name.length + 1 + n.desc.length) := by omega
  simp only [hr, decide_false, Bool.false_eq_true, if_false]
  rw [get_name_len_toNat _ (by rw [ofNat32_toNat t2]; omega), ofNat32_toNat t2,
    rdRange_some_ok (by omega), Nat.add_sub_cancel, f4]
  simp only [get_desc_null_eq, ofNat32_toNat t3, outOf]
  by_cases hd0 : n.desc.length = 0
  · simp only [hd0, decide_true, if_true, pure, Except.pure]
  · simp only [hd0, decide_false, Bool.false_eq_true, if_false]
    rw [get_desc_off_toNat, ofNat32_toNat t2, r4_eq_up4 (by omega), rdRange_some_ok (by omega),
      ← Nat.add_assoc, f5]
    rfl


/-! ### the walker on well-formed content -/

theorem split_note {a : Bytes} {size base : Nat} {X rest : Bytes} (hsz : size ≤ a.length)
    (hbase : base ≤ size) (h : (a.take size).drop base = X ++ rest) :
    slice a base X.length = X ∧ base + X.length ≤ size ∧
      (a.take size).drop (base + X.length) = rest := by
  have hlen := congrArg List.length h
  simp only [List.length_drop, List.length_take, List.length_append] at hlen
  have hle : base + X.length ≤ size := by omega
  refine ⟨?_, hle, ?_⟩
  · have h2 := congrArg (List.take X.length) h
    rw [List.drop_take, List.take_take, List.take_left' rfl] at h2
    have hmin : min X.length (size - base) = X.length := by omega
    rw [hmin] at h2
    exact h2
  · have h2 := congrArg (List.drop X.length) h
    rw [List.drop_drop, List.drop_left' rfl] at h2
    exact h2

theorem encodeNote_length_pos (e : Enc) (n : Spec.Note) : 12 ≤ (Spec.encodeNote e n).length := by
  rw [Spec.encodeNote_length]; omega

/-- on a buffer whose bytes from `cur` to `size` are the encodings of `ns`, the loop records exactly
    the starts of these notes -/
theorem walk_notes (e : Enc) (a : Bytes) (size : BitVec 64) (hsz : size.toNat ≤ a.length)
    (hs : size.toNat ≤ 4294967293) :
    ∀ (ns : List Spec.Note) (fuel : Nat) (cur : BitVec 64), (∀ n ∈ ns, n.Fits) → cur.toNat ≤ size.toNat →
      (a.take size.toNat).drop cur.toNat = Spec.encodeNotes e ns → ns.length < fuel →
      ∃ l, walk e ⟨some a, size⟩ fuel cur = .ok l ∧ l.map BitVec.toNat = Spec.noteStarts e cur.toNat ns := by
  intro ns
  induction ns with
  | nil =>
    intro fuel cur _ hc hd hfu
    have hlen := congrArg List.length hd
    simp only [List.length_drop, List.length_take, Spec.encodeNotes, List.length_nil] at hlen
    obtain ⟨f, rfl⟩ : ∃ f, fuel = f + 1 := ⟨fuel - 1, by simp at hfu; omega⟩
    unfold walk
    simp only [walk_align_eq]
    rw [walk_cond_eq _ _ (by omega)]
    have : ¬ (cur.toNat + 12 ≤ size.toNat) := by omega
    simp only [this, decide_false, Bool.false_eq_true, if_false, pure, Except.pure]
    exact ⟨[], rfl, rfl⟩
  | cons n ns ih =>
    intro fuel cur hfits hc hd hfu
    obtain ⟨f, rfl⟩ : ∃ f, fuel = f + 1 := ⟨fuel - 1, by simp at hfu; omega⟩
    have hfn : n.Fits := hfits n (List.mem_cons_self)
    obtain ⟨t1, t2, t3⟩ := hfn
    obtain ⟨hX, hle, hrest⟩ := split_note hsz hc (by simpa [Spec.encodeNotes] using hd)
    have hL := Spec.encodeNote_length e n
    have hu1 := le_up4 (n.name.length + 1); have hu2 := le_up4 n.desc.length
    obtain ⟨f1, f2, _, _, _⟩ := hasNote_fields (show HasNote e a cur.toNat n from hX)
    unfold walk
    simp only [walk_align_eq]
    rw [walk_cond_eq _ _ (by omega)]
    have h12 : cur.toNat + 12 ≤ size.toNat := by omega
    simp only [h12, decide_true, if_true]
    have hoff : (note_walk_descsz_off cur).toNat = cur.toNat + 4 := by
      unfold note_walk_descsz_off
      rw [BitVec.toNat_add]; simp only [BitVec.toNat_ofNat, Nat.reducePow, Nat.reduceMod]; omega
    have hn0 : (note_walk_namesz_off cur).toNat = cur.toNat := rfl
    rw [hn0, hoff, rd32_ok _ e a cur.toNat (by omega), rd32_ok _ e a (cur.toNat + 4) (by omega), f1, f2]
    simp only [bind, Except.bind]
    have hadv : (note_walk_advance (BitVec.ofNat 32 (n.name.length + 1)) 4#32
        (BitVec.ofNat 32 n.desc.length)).toNat = (Spec.encodeNote e n).length := by
      rw [walk_advance_toNat, ofNat32_toNat t2, ofNat32_toNat t3, r4_eq_up4 (by omega),
        r4_eq_up4 (by omega), hL]
    generalize note_walk_advance (BitVec.ofNat 32 (n.name.length + 1)) 4#32
      (BitVec.ofNat 32 n.desc.length) = adv at hadv
    rw [walk_accept_eq _ _ _ _ _ (by omega), ofNat32_toNat t2, ofNat32_toNat t3]
    have hacc : n.name.length + 1 < size.toNat ∧ n.desc.length < size.toNat ∧
        cur.toNat + adv.toNat ≤ size.toNat := by omega
    simp only [hacc, and_self, decide_true, if_true]
    have hnx := walk_next_toNat cur adv (by omega)
    obtain ⟨l, hl, hm⟩ := ih f (note_walk_next cur adv) (fun m hm => hfits m (List.mem_cons_of_mem _ hm))
      (by rw [hnx]; omega) (by rw [hnx, hadv]; exact hrest) (by simp at hfu; omega)
    simp only [hl, pure, Except.pure]
    refine ⟨_, rfl, ?_⟩
    simp only [List.map_cons, Spec.noteStarts, hm, hnx, hadv]

/-- every note of well-formed content sits at its start position -/
theorem starts_hasNote (e : Enc) (a : Bytes) (size : Nat) (hsz : size ≤ a.length) :
    ∀ (ns : List Spec.Note) (base : Nat), base ≤ size →
      (a.take size).drop base = Spec.encodeNotes e ns →
      (Spec.noteStarts e base ns).length = ns.length ∧
      ∀ (k : Nat) (hk : k < ns.length), ∃ p, (Spec.noteStarts e base ns)[k]? = some p ∧
        HasNote e a p ns[k] ∧ p + (Spec.encodeNote e ns[k]).length ≤ size := by
  intro ns
  induction ns with
  | nil => intro base _ _; exact ⟨rfl, fun k hk => absurd hk (by simp)⟩
  | cons n ns ih =>
    intro base hb hd
    obtain ⟨hX, hle, hrest⟩ := split_note hsz hb (by simpa [Spec.encodeNotes] using hd)
    obtain ⟨il, ik⟩ := ih (base + (Spec.encodeNote e n).length) hle hrest
    refine ⟨by simp [Spec.noteStarts, il], fun k hk => ?_⟩
    cases k with
    | zero => exact ⟨base, by simp [Spec.noteStarts], hX, hle⟩
    | succ k =>
      obtain ⟨p, hp, h1, h2⟩ := ik k (by simpa using hk)
      exact ⟨p, by simpa [Spec.noteStarts] using hp, by simpa using h1, by simpa using h2⟩


theorem encodeNotes_length_ge (e : Enc) (ns : List Spec.Note) :
    12 * ns.length ≤ (Spec.encodeNotes e ns).length := by
  induction ns with
  | nil => simp
  | cons n ns ih =>
    have := encodeNote_length_pos e n
    simp only [Spec.encodeNotes, List.length_cons, List.length_append]; omega

theorem view_some {a : Bytes} {size : BitVec 64} : NoteSrc.view ⟨some a, size⟩ = a.take size.toNat := rfl

/-- **walker_positions** : on a source whose visible bytes are the ABI encodings of the notes `ns`,
    the constructor succeeds (fuel suffices, no read outside the buffer) and `note_start_positions`
    is exactly the list of the notes' start offsets.  Size hypothesis: `size ≤ 2^32 - 3`, the bound
    under which the 32-bit `namesz + align - 1` that fix 04 leaves in place cannot wrap. -/
theorem walker_positions (e : Enc) (src : NoteSrc) (h : SrcOk src) (hs : src.size.toNat ≤ 4294967293)
    (ns : List Spec.Note) (hf : ∀ n ∈ ns, n.Fits) (hv : NoteSrc.view src = Spec.encodeNotes e ns) :
    ∃ pos, process e src = .ok pos ∧ pos.map BitVec.toNat = Spec.noteStarts e 0 ns := by
  obtain ⟨data, size⟩ := src
  have hge := encodeNotes_length_ge e ns
  have hlen := congrArg List.length hv
  unfold process
  rw [walk_empty_eq, NoteTie.walk_start]
  cases data with
  | none =>
    simp only [NoteSrc.view, Option.getD_none, List.take_nil, List.length_nil] at hlen
    have : ns = [] := List.eq_nil_of_length_eq_zero (by omega)
    subst this
    exact ⟨[], by simp [pure, Except.pure], rfl⟩
  | some a =>
    have hsz : size.toNat ≤ a.length := h a rfl
    rw [view_some] at hv hlen
    simp only [List.length_take] at hlen
    by_cases h0 : size.toNat = 0
    · have : ns = [] := List.eq_nil_of_length_eq_zero (by omega)
      subst this
      exact ⟨[], by simp [h0, pure, Except.pure], rfl⟩
    · simp only [Option.isNone_some, h0, decide_false, Bool.or_self, Bool.false_eq_true, if_false]
      exact walk_notes e a size hsz hs ns _ 0 hf (by simp) (by simpa using hv)
        (by simp only [walkFuel]; omega)

/-- an accessor whose positions are the starts of the notes `ns` answers every valid index with the
    corresponding note (whether the positions came from the walker or from `add_note`) -/
theorem get_of_starts (e : Enc) (src : NoteSrc) (h : SrcOk src) (hs : src.size.toNat ≤ 4294967293)
    (ns : List Spec.Note) (hf : ∀ n ∈ ns, n.Fits) (hv : NoteSrc.view src = Spec.encodeNotes e ns)
    (pos : List (BitVec 64)) (hm : pos.map BitVec.toNat = Spec.noteStarts e 0 ns) :
    (Note.num pos).toNat = ns.length ∧
      ∀ (k : Nat) (hk : k < ns.length),
        Note.get e src pos (BitVec.ofNat 32 k) = .ok (some (outOf ns[k])) := by
  have hge := encodeNotes_length_ge e ns
  have hlen := congrArg List.length hv
  obtain ⟨data, size⟩ := src
  cases data with
  | none =>
    simp only [NoteSrc.view, Option.getD_none, List.take_nil, List.length_nil] at hlen
    have : ns = [] := List.eq_nil_of_length_eq_zero (by omega)
    subst this
    have : pos = [] := by simpa [Spec.noteStarts] using hm
    subst this
    exact ⟨rfl, fun k hk => absurd hk (by simp)⟩
  | some a =>
    have hsz : size.toNat ≤ a.length := h a rfl
    rw [view_some] at hv hlen
    simp only [List.length_take] at hlen
    obtain ⟨sl, sk⟩ := starts_hasNote e a size.toNat hsz ns 0 (Nat.zero_le _) (by simpa using hv)
    have hpl : pos.length = ns.length := by
      have := congrArg List.length hm; simpa [sl] using this
    have hnl : ns.length < 4294967296 := by simp only at hs; omega
    refine ⟨?_, fun k hk => ?_⟩
    · unfold Note.num note_num
      simp only [BitVec.toNat_setWidth, BitVec.toNat_ofNat, Nat.reducePow, hpl]; omega
    · have hk32 : (BitVec.ofNat 32 k).toNat = k := ofNat32_toNat (by omega)
      obtain ⟨p, hp1, hp2, hp3⟩ := sk k hk
      have hkp : k < pos.length := by omega
      have hpk : (pos[(BitVec.ofNat 32 k).toNat]'(by rw [hk32]; exact hkp)).toNat = p := by
        have e1 : (pos.map BitVec.toNat)[k]? = some p := by rw [hm]; exact hp1
        simp only [List.getElem?_map, List.getElem?_eq_getElem hkp, Option.map_some,
          Option.some.injEq] at e1
        simp only [hk32]; exact e1
      unfold Note.get
      rw [get_gate_eq _ _ (by omega), hk32]
      have : ¬ (pos.length ≤ k) := by omega
      simp only [this, decide_false, Bool.false_eq_true, if_false]
      exact getBody_hasNote e a size hsz hs pos (BitVec.ofNat 32 k) (by rw [hk32]; exact hkp) ns[k]
        (hf _ (List.getElem_mem hk)) (by rw [hpk]; exact hp2) (by rw [hpk]; exact hp3)

/-- **note_roundtrip** : on a source whose visible bytes are the ABI encodings of `ns`, a freshly
    constructed accessor reports `ns.length` notes and `get_note(k)` returns type, name (without the
    terminator) and descriptor of the `k`-th note, for every `k` below the count — names of any
    length (including empty), descriptors of any length and residue mod 4 (an empty descriptor comes
    back as the null pointer with size 0).  The same theorem serves the section accessor and the
    segment accessor (`src` is either). -/
theorem note_roundtrip (e : Enc) (src : NoteSrc) (h : SrcOk src) (hs : src.size.toNat ≤ 4294967293)
    (ns : List Spec.Note) (hf : ∀ n ∈ ns, n.Fits) (hv : NoteSrc.view src = Spec.encodeNotes e ns) :
    ∃ pos, process e src = .ok pos ∧ (Note.num pos).toNat = ns.length ∧
      ∀ (k : Nat) (hk : k < ns.length),
        Note.get e src pos (BitVec.ofNat 32 k) = .ok (some (outOf ns[k])) := by
  obtain ⟨pos, hp, hm⟩ := walker_positions e src h hs ns hf hv
  obtain ⟨g1, g2⟩ := get_of_starts e src h hs ns hf hv pos hm
  exact ⟨pos, hp, g1, g2⟩

/-! ### sections and segments as sources -/

theorem getData_cls (b : SecBuf) : b.getData.cls = b.cls := by
  unfold SecBuf.getData SecBuf.loadData
  split
  · cases b.fileData with
    | none => rfl
    | some d => dsimp only; split <;> (try split) <;> (try split) <;> rfl
  · rfl

open SecBuf C07 in
/-- `get_data()` on a reachable section leaves a resident section standing for the same bytes -/
theorem getData_inv (b : SecBuf) (hI : b.Inv) :
    b.getData.Resident ∧ b.getData.content = b.content := by
  rcases hI with r | ⟨d, pd⟩
  · cases hd : b.data with
    | some a =>
      obtain ⟨g1, g2, g3, g4, g5, _, _⟩ := getData_some hd
      have r' : b.getData.Resident := by
        refine ⟨by rw [g5]; exact r.notNobits, by rw [g1]; simp, ?_, by rw [g2, g3]; exact r.cap⟩
        rcases r.buf with ⟨e, _, _⟩ | ⟨a', e, e1, e2⟩
        · rw [hd] at e; simp at e
        · rw [hd] at e; cases e
          exact Or.inr ⟨a, g1, by rw [g2, g3]; exact e1, by rw [g3]; exact e2⟩
      refine ⟨r', ?_⟩
      rw [content_resident r', content_resident r]
      simp [SecBuf.view, g1, g2, hd]
    | none =>
      have hsz : b.size = 0 ∧ b.dataSize = 0 := by
        rcases r.buf with ⟨_, e1, e2⟩ | ⟨a', e, _, _⟩
        · exact ⟨e1, e2⟩
        · rw [hd] at e; simp at e
      have hp := r.pend hd
      have hv : b.view = [] := by simp [SecBuf.view, hd]
      have rb : b.content = [] := by rw [content_resident r, hv]
      -- every branch of get_data()/load_data() keeps size 0 and an empty view
      have key : ∀ b' : SecBuf, b'.stype = b.stype → b'.size = 0 → b'.dataSize = 0 →
          (b'.data = none → (b'.isLazy && !b'.isLoaded) = false) →
          (b'.data = none ∨ ∃ a, b'.data = some a) →
          b'.Resident ∧ b'.content = b.content := by
        intro b' h1 h2 h3 h4 h5
        have r' : b'.Resident := by
          refine ⟨by rw [h1]; exact r.notNobits, h4, ?_, by rw [h2, h3]; simp⟩
          rcases h5 with e | ⟨a, e⟩
          · exact Or.inl ⟨e, h2, h3⟩
          · exact Or.inr ⟨a, e, by rw [h2, h3]; simp, by rw [h3]; simp⟩
        refine ⟨r', ?_⟩
        rw [content_resident r', rb]
        simp [SecBuf.view, h2]
      unfold SecBuf.getData SecBuf.loadData
      by_cases hc : (!b.isLoaded && b.canLoad) = true
      · simp only [hc, if_true]
        cases hf : b.fileData with
        | none => exact key _ rfl hsz.1 hsz.2 (fun _ => hp) (Or.inl hd)
        | some d =>
          by_cases hn : b.isNullOrNobits = true
          · simp only [hd, hn, Option.isNone_none, Bool.not_true, Bool.and_false, Bool.false_eq_true,
              if_false, Option.isSome_none, Bool.false_or, if_true]
            exact key _ rfl hsz.1 hsz.2 (by simp) (Or.inl rfl)
          · simp only [hd, hn, Option.isNone_none, Bool.not_false, Bool.and_self, if_true, hsz.1]
            exact key _ rfl rfl rfl (by simp) (Or.inr ⟨_, rfl⟩)
      · rw [if_neg hc]
        exact key b rfl hsz.1 hsz.2 (fun _ => hp) (Or.inl hd)
  · obtain ⟨r, v, c1, _, _⟩ := C07.getData_pending pd
    exact ⟨r, by rw [C07.content_resident r, v, C07.content_pending pd]⟩

open SecBuf C07 in
/-- **secbuf_src_ok** : every reachable section (`SecBuf.Inv`: fresh, loaded eagerly or lazily,
    edited) presents, after the accessor's `get_data()`, a source whose size does not exceed its
    allocation and whose visible bytes are the section's content — so `get_note_total`,
    `walker_positions` and `note_roundtrip` apply to it. -/
theorem secbuf_src_ok (b : SecBuf) (hI : b.Inv) :
    SrcOk b.getData.noteSrc ∧ NoteSrc.view b.getData.noteSrc = b.content := by
  obtain ⟨r, hc⟩ := getData_inv b hI
  refine ⟨?_, ?_⟩
  · intro a ha
    rcases r.buf with ⟨e, _, _⟩ | ⟨a', e, e1, e2⟩
    · simp only [SecBuf.noteSrc] at ha; rw [e] at ha; simp at ha
    · simp only [SecBuf.noteSrc] at ha ⊢; rw [e] at ha; cases ha; omega
  · rw [← hc, content_resident r]; rfl

/-- **segSrc_ok** : a loaded `PT_NOTE` segment (filesz+1 bytes, NUL terminated; nothing when empty)
    is such a source, and its visible bytes are the segment's file bytes. -/
theorem segSrc_ok (content : Bytes) (hl : content.length < 18446744073709551616) :
    SrcOk (segSrc content) ∧ NoteSrc.view (segSrc content) = content := by
  have hn : (BitVec.ofNat 64 content.length).toNat = content.length := by
    simp only [BitVec.toNat_ofNat, Nat.reducePow]; omega
  unfold segSrc
  cases content with
  | nil => exact ⟨fun a ha => by simp at ha, by simp [NoteSrc.view]⟩
  | cons c cs =>
    simp only [List.isEmpty_cons, Bool.false_eq_true, if_false]
    refine ⟨fun a ha => ?_, ?_⟩
    · simp only [Option.some.injEq] at ha; subst ha; rw [hn]; simp
    · simp only [NoteSrc.view, Option.getD_some, hn]; simp


/-! ### add_note -/

theorem encodeNotes_append (e : Enc) (ns : List Spec.Note) (n : Spec.Note) :
    Spec.encodeNotes e (ns ++ [n]) = Spec.encodeNotes e ns ++ Spec.encodeNote e n := by
  induction ns with
  | nil => simp [Spec.encodeNotes]
  | cons m ns ih => simp [Spec.encodeNotes, ih]

theorem encodeNotes_append' (e : Enc) (ns ms : List Spec.Note) :
    Spec.encodeNotes e (ns ++ ms) = Spec.encodeNotes e ns ++ Spec.encodeNotes e ms := by
  induction ns with
  | nil => simp [Spec.encodeNotes]
  | cons m ns ih => simp [Spec.encodeNotes, ih]

theorem noteStarts_append (e : Enc) (ns : List Spec.Note) (n : Spec.Note) (base : Nat) :
    Spec.noteStarts e base (ns ++ [n]) =
      Spec.noteStarts e base ns ++ [base + (Spec.encodeNotes e ns).length] := by
  induction ns generalizing base with
  | nil => simp [Spec.noteStarts, Spec.encodeNotes]
  | cons m ns ih => simp [Spec.noteStarts, Spec.encodeNotes, ih, Nat.add_assoc]

/-- The accessor is consistent with its section: the section is reachable, stands for the
    encodings of `ns`, and `note_start_positions` holds the starts of these notes. -/
def AccOk (e : Enc) (b : SecBuf) (pos : List (BitVec 64)) (ns : List Spec.Note) : Prop :=
  b.Inv ∧ b.content = Spec.encodeNotes e ns ∧ pos.map BitVec.toNat = Spec.noteStarts e 0 ns

/-- a sequence of `add_note` calls (descriptor pointers non-null) -/
def addAll (e : Enc) : SecBuf → List (BitVec 64) → List Spec.Note → M (SecBuf × List (BitVec 64))
  | b, pos, [] => pure (b, pos)
  | b, pos, n :: ns =>
    match Note.add e b pos (BitVec.ofNat 32 n.type) n.name (some n.desc) (BitVec.ofNat 32 n.desc.length) with
    | .ok (b', pos') => addAll e b' pos' ns
    | .error f => .error f

open SecBuf C07 in
/-- one `add_note`: the section grows by exactly the ABI encoding of the note and the accessor
    stays consistent (the new note's position is the old size) -/
theorem add_step (e : Enc) (b : SecBuf) (pos : List (BitVec 64)) (ns : List Spec.Note) (n : Spec.Note)
    (hA : AccOk e b pos ns) (hf : n.Fits) (dp : Option Bytes)
    (hd : dp = some n.desc ∨ (dp = none ∧ n.desc = []))
    (hsz : (Spec.encodeNotes e (ns ++ [n])).length ≤ 4294967293) :
    ∃ b' pos', Note.add e b pos (BitVec.ofNat 32 n.type) n.name dp (BitVec.ofNat 32 n.desc.length)
        = .ok (b', pos') ∧ AccOk e b' pos' (ns ++ [n]) ∧ b'.cls = b.cls := by
  obtain ⟨hI, hc, hm⟩ := hA
  rw [encodeNotes_append, List.length_append] at hsz
  have hbnd : Bound b.cls (b.content.length + (Spec.encodeNote e n).length) := by
    rw [hc]; cases b.cls <;> simp only [Bound] <;> omega
  obtain ⟨b', e1, r, c, v⟩ := append_refines b hI (Spec.encodeNote e n) hbnd
  have hstr : appendStr b (Spec.encodeNote e n) = .ok b' := by
    unfold appendStr
    rw [str_len32_eq, ite_self]
    simp only [str_len_eq (Spec.encodeNote e n).length (by omega), List.take_length]
    exact e1
  unfold Note.add
  rw [encodeBuf_spec e n hf dp hd, NoteTie.add_start]
  simp only [bind, Except.bind, hstr, pure, Except.pure]
  refine ⟨b', pos ++ [b.size], rfl, ⟨Or.inl r, ?_, ?_⟩, c⟩
  · rw [v, hc, encodeNotes_append]
  · rw [List.map_append, hm, noteStarts_append, List.map_cons, List.map_nil, Nat.zero_add,
      ← content_length hI, hc]

/-- **note_bytes** : after ANY sequence of `add_note` calls (any number of notes, names and
    descriptors of any length) on a reachable non-NOBITS section holding the encodings of `ns0`,
    no access left the buffers, the section content is the concatenation of the ABI encodings
    `Spec.encodeNote` of all notes in order — namesz including the terminator, descsz, type, name
    and descriptor each padded to four bytes — and the accessor's positions are the note starts. -/
theorem note_bytes (e : Enc) (ns : List Spec.Note) :
    ∀ (b : SecBuf) (pos : List (BitVec 64)) (ns0 : List Spec.Note), AccOk e b pos ns0 →
      (∀ n ∈ ns, n.Fits) → (Spec.encodeNotes e (ns0 ++ ns)).length ≤ 4294967293 →
      ∃ b' pos', addAll e b pos ns = .ok (b', pos') ∧ AccOk e b' pos' (ns0 ++ ns) := by
  induction ns with
  | nil => intro b pos ns0 hA _ _; exact ⟨b, pos, rfl, by simpa using hA⟩
  | cons n ns ih =>
    intro b pos ns0 hA hf hsz
    have hsz1 : (Spec.encodeNotes e (ns0 ++ [n])).length ≤ 4294967293 := by
      have : ns0 ++ n :: ns = (ns0 ++ [n]) ++ ns := by simp
      rw [this, encodeNotes_append', List.length_append] at hsz; omega
    obtain ⟨b1, p1, e1, a1, _⟩ := add_step e b pos ns0 n hA (hf n List.mem_cons_self) (some n.desc)
      (Or.inl rfl) hsz1
    obtain ⟨b2, p2, e2, a2⟩ := ih b1 p1 (ns0 ++ [n]) a1 (fun m hm => hf m (List.mem_cons_of_mem _ hm))
      (by simpa using hsz)
    refine ⟨b2, p2, ?_, by simpa using a2⟩
    simp only [addAll, e1]
    exact e2

/-- **add_roundtrip** : an accessor that is consistent with its section (in particular: after any
    sequence of `add_note` calls, `note_bytes`) returns every note by its index — through the
    positions recorded by `add_note`, without re-walking the section. -/
theorem add_roundtrip (e : Enc) (b : SecBuf) (pos : List (BitVec 64)) (ns : List Spec.Note)
    (hA : AccOk e b pos ns) (hf : ∀ n ∈ ns, n.Fits)
    (hsz : (Spec.encodeNotes e ns).length ≤ 4294967293) :
    (Note.num pos).toNat = ns.length ∧
    (∀ (k : Nat) (hk : k < ns.length),
      Note.get e b.getData.noteSrc pos (BitVec.ofNat 32 k) = .ok (some (outOf ns[k]))) ∧
    (∀ index : BitVec 32, ns.length ≤ index.toNat →
      Note.get e b.getData.noteSrc pos index = .ok none) := by
  obtain ⟨hI, hc, hm⟩ := hA
  obtain ⟨s1, s2⟩ := secbuf_src_ok b hI
  obtain ⟨r, hgc⟩ := getData_inv b hI
  have hsize : b.getData.noteSrc.size.toNat ≤ 4294967293 := by
    show b.getData.size.toNat ≤ _
    rw [← C07.content_length (Or.inl r), hgc, hc]; exact hsz
  obtain ⟨g1, g2⟩ := get_of_starts e b.getData.noteSrc s1 hsize ns hf (by rw [s2, hc]) pos hm
  refine ⟨g1, g2, fun index hi => get_note_absent e _ pos index ?_⟩
  have hl : pos.length = ns.length := by
    have := congrArg List.length hm
    have hsl : ∀ (ns : List Spec.Note) (base : Nat), (Spec.noteStarts e base ns).length = ns.length := by
      intro ns; induction ns with
      | nil => intro _; rfl
      | cons m ns ih => intro base; simp [Spec.noteStarts, ih]
    simpa [hsl] using this
  omega

/-- a freshly created `SHT_NOTE` section with a freshly constructed accessor is consistent -/
theorem fresh_accOk (e : Enc) (cls : Cls) :
    let c := Note.construct e (SecBuf.fresh cls (BitVec.ofNat 32 SHT_NOTE))
    ∃ pos, c.2 = .ok pos ∧ AccOk e c.1 pos [] := by
  have hI := (C07.fresh_inv cls (BitVec.ofNat 32 SHT_NOTE) (by decide)).1
  have hcn := (C07.fresh_inv cls (BitVec.ofNat 32 SHT_NOTE) (by decide)).2
  obtain ⟨r, hc⟩ := getData_inv _ hI
  obtain ⟨s1, s2⟩ := secbuf_src_ok _ hI
  simp only [Note.construct]
  have hsize : (SecBuf.fresh cls (BitVec.ofNat 32 SHT_NOTE)).getData.noteSrc.size.toNat = 0 := by
    show (SecBuf.fresh cls (BitVec.ofNat 32 SHT_NOTE)).getData.size.toNat = 0
    rw [← C07.content_length (Or.inl r), hc, hcn]; rfl
  obtain ⟨pos, hp, hm⟩ := walker_positions e _ s1 (by rw [hsize]; omega) [] (by simp)
    (by rw [s2, hcn]; rfl)
  exact ⟨pos, hp, Or.inl r, by rw [hc, hcn]; rfl, hm⟩

/-! ### the two defects, machine-checked on the unfixed expressions -/

/-- `advance` as declared before fix 04 (`Elf_Word advance = …`): the same 64-bit expression
    truncated to 32 bits.  (Kept for documentation; the model uses the generated, fixed site.) -/
def advanceUnfixed (namesz descsz : BitVec 32) : BitVec 32 :=
  BitVec.setWidth 32 (note_walk_advance namesz note_walk_align descsz)

/-- **advance_wrap_witness** (F12) : with namesz = 0x7FFFFFF8 and descsz = 0x7FFFFFFC the unfixed
    `advance` is 0 — on a section larger than both the walker accepts the note and never moves —
    while the fixed 64-bit value is 2^32. -/
theorem advance_wrap_witness :
    advanceUnfixed 0x7FFFFFF8#32 0x7FFFFFFC#32 = 0#32 ∧
    note_walk_advance 0x7FFFFFF8#32 note_walk_align 0x7FFFFFFC#32 = 0x100000000#64 := by
  constructor <;> decide

/-- the index gate before fix 03: `index >= (notes->*F_get_size)()` -/
def gateUnfixed (index : BitVec 32) (size : BitVec 64) : Bool := BitVec.ule size (BitVec.setWidth 64 index)

/-- **note_index_witness** (F3) : a section with one 20-byte note; index 1 passes the unfixed gate
    (1 < 20) and `note_start_positions[1]` is read out of the vector's bounds.  The fixed gate
    refuses it. -/
theorem note_index_witness :
    let src : NoteSrc := ⟨some ([4, 0, 0, 0, 4, 0, 0, 0, 1, 0, 0, 0, 71, 78, 85, 0, 1, 2, 3, 4] ++ [0]), 20#64⟩
    gateUnfixed 1#32 src.size = false ∧
    getBody .lsb src [0#64] 1#32 = .error (.vecOob "get_note/note_start_positions") ∧
    Note.get .lsb src [0#64] 1#32 = .ok none := by
  refine ⟨by decide, rfl, ?_⟩
  exact get_note_absent _ _ _ _ (by decide)

/-- **namesz_round_wrap_witness** : why `size ≤ 2^32-3` is a hypothesis after fix 04: the 32-bit
    `namesz + align - 1` still wraps for namesz ≥ 0xFFFFFFFD, so such a name is rounded to 0 bytes
    (a section of at least 4 GiB − 2 bytes is needed for the walker to accept it). -/
theorem namesz_round_wrap_witness :
    note_walk_advance 0xFFFFFFFD#32 note_walk_align 0#32 = 12#64 := by decide

/-! ### non-vacuity: concrete states meet the hypotheses -/

example : SrcOk ⟨some [1, 2, 3, 4, 5], 4#64⟩ := fun a ha => by cases ha; decide
example : (⟨7, [71, 78, 85], [1, 2, 3]⟩ : Spec.Note).Fits := by decide
example : Spec.encodeNote .msb ⟨1, [71], [9]⟩ = [0, 0, 0, 2, 0, 0, 0, 1, 0, 0, 0, 1, 71, 0, 0, 0, 9, 0, 0, 0] := by
  decide
example : Spec.noteStarts .lsb 0 [⟨1, [71], [9]⟩, ⟨2, [], []⟩, ⟨3, [1, 2, 3, 4], [1, 2, 3, 4, 5]⟩] = [0, 20, 36] := by
  decide
example : ∃ pos, AccOk .lsb (Note.construct .lsb (SecBuf.fresh .c64 (BitVec.ofNat 32 SHT_NOTE))).1 pos [] := by
  obtain ⟨pos, _, h⟩ := fresh_accOk .lsb .c64; exact ⟨pos, h⟩

end C13
end ElfioVerif
