/-
C15 — lazy loading and address translation do not change what is observed.

Section / segment level (all images, all stream states):
 * `isolatedRead_state_independent`, `isolatedRead_flags_or` : what the F9 fix buys,
 * `secGetData_lazy_eq_eager`, `segGetData_lazy_eq_eager` : a lazily loaded part, once requested,
   shows exactly what the eagerly loaded part shows,
 * `freeData_getData`, `interleaving_eq`, `seg_interleaving_eq` : any interleaving of requests,
   releases and arbitrary disturbances of the stream's position / error state.
Whole-load level: see the end of the file.
-/
import ElfioVerif.Lemmas.LoadSpec
set_option linter.unusedSimpArgs false
set_option linter.unusedVariables false
namespace ElfioVerif.C15
open Gen

/-! ### the read primitive -/

/-- the bytes delivered by an isolated read and its completeness flag do not depend on the
    stream's position, error flags or last count -/
theorem isolatedRead_state_independent (s : IStream) (pos gcount : Nat) (eof fail : Bool)
    (off n : BitVec 64) :
    (isolatedRead { s with pos := pos, eof := eof, fail := fail, gcount := gcount } off n).2 =
      (isolatedRead s off n).2 :=
  isolatedRead_indep { s with pos := pos, eof := eof, fail := fail, gcount := gcount } s rfl rfl off n

/-- … they depend on the stream's bytes and kind only -/
theorem isolatedRead_depends_on_data_only (s s' : IStream) (hd : s.data = s'.data)
    (hk : s.kind = s'.kind) (off n : BitVec 64) : (isolatedRead s off n).2 = (isolatedRead s' off n).2 :=
  isolatedRead_indep s s' hd hk off n

/-- the error flags afterwards are the earlier flags OR the flags the same read raises on a
    cleared stream: an earlier failure is neither forgotten nor does it influence the read -/
theorem isolatedRead_flags_or (s : IStream) (off n : BitVec 64) :
    (isolatedRead s off n).1.eof = ((isolatedRead s.clear off n).1.eof || s.eof) ∧
    (isolatedRead s off n).1.fail = ((isolatedRead s.clear off n).1.fail || s.fail) ∧
    (isolatedRead s off n).1.data = s.data ∧ (isolatedRead s off n).1.kind = s.kind :=
  ⟨(isolatedRead_flags s off n).1, (isolatedRead_flags s off n).2, isolatedRead_data s off n,
   isolatedRead_kind s off n⟩

example : (isolatedRead { data := [1, 2, 3, 4], pos := 9, eof := true, fail := true } 1#64 2#64).2
    = ([2, 3], true) := by decide

/-! ### observations of a section -/

/-- everything the public getters of a section return (data as the whole buffer) -/
structure SecObs where
  index : Nat
  name : Bytes
  nameOff : BitVec 32
  stype : BitVec 32
  flags : BitVec 64
  addr : BitVec 64
  offset : BitVec 64
  size : BitVec 64
  link : BitVec 32
  info : BitVec 32
  addrAlign : BitVec 64
  entSize : BitVec 64
  data : Option Bytes
  dataSize : BitVec 64
  streamSize : BitVec 64

def secObs (b : SecBuf) : SecObs :=
  { index := b.index, name := b.name, nameOff := b.nameOff, stype := b.stype, flags := b.flags,
    addr := b.addr, offset := b.offset, size := b.size, link := b.link, info := b.info,
    addrAlign := b.addrAlign, entSize := b.entSize, data := b.data, dataSize := b.dataSize,
    streamSize := b.streamSize }

theorem decodeShdr_lazy (c : Cls) (enc : Enc) (r : Bytes) (ss : BitVec 64) (te : Bool) (idx : Nat) :
    decodeShdr c enc r (secInit c ss te true idx) =
      { decodeShdr c enc r (secInit c ss te false idx) with isLazy := true } := by
  cases c <;> rfl

@[simp] theorem streamSizeOf_data (tr : List Trans) (st : IStream) : (streamSizeOf tr st).1.data = st.data := by
  unfold streamSizeOf; split
  · simp
  · rfl
@[simp] theorem streamSizeOf_kind (tr : List Trans) (st : IStream) : (streamSizeOf tr st).1.kind = st.kind := by
  unfold streamSizeOf; split
  · simp
  · rfl
@[simp] theorem hdrRead_data (tr : List Trans) (st : IStream) (o : Int) (n : Nat) :
    (hdrRead tr st o n).1.data = st.data := by simp [hdrRead]
@[simp] theorem hdrRead_kind (tr : List Trans) (st : IStream) (o : Int) (n : Nat) :
    (hdrRead tr st o n).1.kind = st.kind := by simp [hdrRead]

/-- `get_data()`'s effect on the observations, as a function of the observations -/
def obsGet (x : SecObs) : SecOutcome → SecObs
  | .refuse => x
  | .readFail => { x with data := none, dataSize := 0 }
  | .loaded d => { x with data := some (d ++ [0]), dataSize := x.size }
  | .loadedEmpty => { x with data := some (alloc 1), dataSize := 0 }
  | .keep _ => x

theorem secObs_getApply (b : SecBuf) (o : SecOutcome) : secObs (secGetApply b o) = obsGet (secObs b) o := by
  rcases o with _ | _ | d | _ | (_ | _) <;> simp [secGetApply, SecOutcome.apply, secObs, obsGet]

@[simp] theorem secObs_addrSet (b : SecBuf) (x : Bool) : secObs { b with addrSet := x } = secObs b := rfl

/-- **a lazily loaded section, once its data is requested — on a stream in any position and any
    error state — shows what the eagerly loaded section shows** (same image, same translation) -/
theorem secGetData_lazy_eq_eager (c : Cls) (enc : Enc) (tr : List Trans) (ls ls' : LoadSt)
    (hdrOff : Int) (idx : Nat) (hd : ls'.st.data = ls.st.data) (hk : ls'.st.kind = ls.st.kind) :
    secObs (secGetData c tr ls' (secLoad c enc tr ls hdrOff true idx).2).2 =
      secObs (secLoad c enc tr ls hdrOff false idx).2 := by
  rw [secLoad_eq, secLoad_eq]
  simp only []
  split
  · -- short header read: both keep the zero-initialised header
    rw [secGetData_snd]
    simp only [secInit, Bool.not_false, Bool.and_self, if_true, Option.isNone_none, secObs_getApply]
    have key : ∀ ss, secOutcome c tr ls'.st 0#32 0#64 0#64 ss true = .refuse ∨
        secOutcome c tr ls'.st 0#32 0#64 0#64 ss true = .keep true :=
      fun ss => secOutcome_nobits c tr ls'.st _ _ _ ss (by decide)
    rcases key (hdrRead tr ls.st hdrOff (shdrSize c)).2.2 with h | h <;> simp [h, obsGet, secObs]
  · simp only [if_true, Bool.false_eq_true, if_false, secObs_addrSet]
    rw [secGetData_snd, secGetData_snd]
    simp only [decodeShdr_isLoaded, decodeShdr_canLoad, decodeShdr_data, decodeShdr_streamSize, secInit,
      Bool.not_false, Bool.and_self, if_true, Option.isNone_none]
    have e := decodeShdr_lazy c enc (hdrRead tr ls.st hdrOff (shdrSize c)).2.1
      (hdrRead tr ls.st hdrOff (shdrSize c)).2.2 tr.isEmpty idx
    simp only [secInit] at e
    rw [e]
    simp only []
    rw [secOutcome_indep c tr ls'.st (hdrRead tr ls.st hdrOff (shdrSize c)).1 (by simp [hd]) (by simp [hk])]
    rw [secObs_getApply, secObs_getApply]
    rfl

/-! ### interleavings of requests and releases on one section -/

/-- what can happen to one lazily loaded section while the stream stays open: its data is
    requested, its data is released, or *anything else* moves the stream / changes its error state
    (reads for other sections and segments, failed reads, …) -/
inductive DataOp
  | request
  | release
  | disturb (pos : Nat) (eof fail : Bool) (gcount : Nat)
  deriving Repr

def disturbSt (ls : LoadSt) (p : Nat) (e f : Bool) (g : Nat) : LoadSt :=
  { ls with st := { ls.st with pos := p, eof := e, fail := f, gcount := g } }

def runSecOps (c : Cls) (tr : List Trans) : LoadSt → SecBuf → List DataOp → LoadSt × SecBuf
  | ls, b, [] => (ls, b)
  | ls, b, .request :: r => runSecOps c tr (secGetData c tr ls b).1 (secGetData c tr ls b).2 r
  | ls, b, .release :: r => runSecOps c tr ls b.freeData r
  | ls, b, .disturb p e f g :: r => runSecOps c tr (disturbSt ls p e f g) b r

/-- a lazily loaded section whose data has not been requested yet -/
def Fresh (b : SecBuf) : Prop := b.isLazy = true ∧ b.isLoaded = false ∧ b.canLoad = true ∧ b.data = none

/-- the states a lazily loaded section `b` moves through: resident/decided (`secGetApply b o`), or
    non-resident with a possibly updated `data_size` -/
def SecInv (b : SecBuf) (o : SecOutcome) (b' : SecBuf) : Prop :=
  b' = secGetApply b o ∨
  ∃ ds, b' = { b with dataSize := ds } ∧
    (ds = b.dataSize ∨ ((o.apply b).2 = true ∧ ds = (secGetApply b o).dataSize))

theorem getApply_noop (b : SecBuf) (o : SecOutcome) (hb : Fresh b) :
    (!(secGetApply b o).isLoaded && (secGetApply b o).canLoad) = false := by
  obtain ⟨_, h2, h3, _⟩ := hb
  rcases o with _ | _ | d | _ | (_ | _) <;> simp [secGetApply, SecOutcome.apply, h2, h3]

theorem getApply_ds (b : SecBuf) (o : SecOutcome) (ds : BitVec 64)
    (h : ds = b.dataSize ∨ ((o.apply b).2 = true ∧ ds = (secGetApply b o).dataSize)) :
    secGetApply { b with dataSize := ds } o = secGetApply b o := by
  rcases h with h | ⟨h1, h2⟩
  · subst h; rfl
  · rcases o with _ | _ | d | _ | (_ | _) <;>
      simp_all [secGetApply, SecOutcome.apply]

theorem free_inv (b : SecBuf) (o : SecOutcome) (hb : Fresh b) (b' : SecBuf) (h : SecInv b o b') :
    SecInv b o b'.freeData := by
  obtain ⟨h1, h2, h3, h4⟩ := hb
  rcases h with h | ⟨ds, h, hds⟩
  · subst h
    rcases o with _ | _ | d | _ | (_ | _)
    · left; cases b; simp_all [secGetApply, SecOutcome.apply, SecBuf.freeData]
    · left; cases b; simp_all [secGetApply, SecOutcome.apply, SecBuf.freeData]
    · right; refine ⟨b.size, ?_, Or.inr ⟨rfl, rfl⟩⟩
      cases b; simp_all [secGetApply, SecOutcome.apply, SecBuf.freeData]
    · right; refine ⟨0, ?_, Or.inr ⟨rfl, rfl⟩⟩
      cases b; simp_all [secGetApply, SecOutcome.apply, SecBuf.freeData]
    · left; cases b; simp_all [secGetApply, SecOutcome.apply, SecBuf.freeData]
    · right; refine ⟨b.dataSize, ?_, Or.inl rfl⟩
      cases b; simp_all [secGetApply, SecOutcome.apply, SecBuf.freeData]
  · right; refine ⟨ds, ?_, hds⟩
    subst h
    cases b; simp_all [SecBuf.freeData]

/-- the outcome a fresh section `b` gets on any stream over the bytes `D` of kind `K` -/
def outcomeOf (c : Cls) (tr : List Trans) (D : Bytes) (K : StreamKind) (b : SecBuf) : SecOutcome :=
  secOutcome c tr { data := D, kind := K } b.stype b.size b.offset b.streamSize true

/-- a request in any state of the invariant lands in the one decided state -/
theorem request_inv (c : Cls) (tr : List Trans) (ls : LoadSt) (b b' : SecBuf) (hb : Fresh b)
    (h : SecInv b (outcomeOf c tr ls.st.data ls.st.kind b) b') :
    (secGetData c tr ls b').2 = secGetApply b (outcomeOf c tr ls.st.data ls.st.kind b) := by
  rw [secGetData_snd]
  rcases h with h | ⟨ds, h, hds⟩
  · subst h; rw [getApply_noop b _ hb]; simp
  · subst h
    obtain ⟨h1, h2, h3, h4⟩ := hb
    have hc : (!({ b with dataSize := ds } : SecBuf).isLoaded && ({ b with dataSize := ds } : SecBuf).canLoad) = true := by
      simp [h2, h3]
    rw [if_pos hc]
    have e : secOutcome c tr ls.st b.stype b.size b.offset b.streamSize b.data.isNone =
        outcomeOf c tr ls.st.data ls.st.kind b := by
      rw [h4]
      exact secOutcome_indep c tr ls.st { data := ls.st.data, kind := ls.st.kind } rfl rfl _ _ _ _ _
    show secGetApply _ (secOutcome c tr ls.st b.stype b.size b.offset b.streamSize b.data.isNone) = _
    rw [e]
    exact getApply_ds b _ ds hds

theorem runSecOps_inv (c : Cls) (tr : List Trans) (D : Bytes) (K : StreamKind) (b : SecBuf) (hb : Fresh b) :
    ∀ (ops : List DataOp) (ls : LoadSt) (b' : SecBuf), ls.st.data = D → ls.st.kind = K →
      SecInv b (outcomeOf c tr D K b) b' →
      (runSecOps c tr ls b' ops).1.st.data = D ∧ (runSecOps c tr ls b' ops).1.st.kind = K ∧
      SecInv b (outcomeOf c tr D K b) (runSecOps c tr ls b' ops).2 := by
  intro ops
  induction ops with
  | nil => intro ls b' hd hk h; exact ⟨hd, hk, h⟩
  | cons op r ih =>
    intro ls b' hd hk h
    cases op with
    | request =>
      simp only [runSecOps]
      apply ih
      · simp [hd]
      · simp [hk]
      · left; subst hd; subst hk; exact request_inv c tr ls b b' hb h
    | release => simp only [runSecOps]; exact ih ls _ hd hk (free_inv b _ hb b' h)
    | disturb p e f g => simp only [runSecOps]; exact ih _ b' hd hk h

theorem secLoad_lazy_fresh (c : Cls) (enc : Enc) (tr : List Trans) (ls : LoadSt) (hdrOff : Int) (idx : Nat) :
    Fresh (secLoad c enc tr ls hdrOff true idx).2 := by
  rw [secLoad_eq]; simp only []
  split <;> simp [Fresh, secInit]

/-- **release then request restores the same observations** (stream in any state at both requests) -/
theorem freeData_getData (c : Cls) (tr : List Trans) (ls1 ls2 : LoadSt) (b : SecBuf) (hb : Fresh b)
    (hd : ls2.st.data = ls1.st.data) (hk : ls2.st.kind = ls1.st.kind) :
    (secGetData c tr ls2 (secGetData c tr ls1 b).2.freeData).2 = (secGetData c tr ls1 b).2 := by
  have h0 : SecInv b (outcomeOf c tr ls1.st.data ls1.st.kind b) b := Or.inr ⟨b.dataSize, rfl, Or.inl rfl⟩
  have h1 := request_inv c tr ls1 b b hb h0
  have h2 : SecInv b (outcomeOf c tr ls1.st.data ls1.st.kind b) (secGetData c tr ls1 b).2 := Or.inl h1
  have h3 := free_inv b _ hb _ h2
  rw [← hd, ← hk] at h3
  rw [request_inv c tr ls2 b _ hb h3, hd, hk, h1]

/-- **any interleaving** : a lazily loaded section, driven through any list of requests, releases
    and stream disturbances and then asked for its data, shows what the eagerly loaded section
    shows -/
theorem interleaving_eq (c : Cls) (enc : Enc) (tr : List Trans) (ls ls1 : LoadSt) (hdrOff : Int)
    (idx : Nat) (ops : List DataOp) (hd : ls1.st.data = ls.st.data) (hk : ls1.st.kind = ls.st.kind) :
    let x := runSecOps c tr ls1 (secLoad c enc tr ls hdrOff true idx).2 ops
    secObs (secGetData c tr x.1 x.2).2 = secObs (secLoad c enc tr ls hdrOff false idx).2 := by
  intro x
  have hb := secLoad_lazy_fresh c enc tr ls hdrOff idx
  have h0 : SecInv (secLoad c enc tr ls hdrOff true idx).2
      (outcomeOf c tr ls.st.data ls.st.kind (secLoad c enc tr ls hdrOff true idx).2)
      (secLoad c enc tr ls hdrOff true idx).2 := Or.inr ⟨_, rfl, Or.inl rfl⟩
  obtain ⟨g1, g2, g3⟩ := runSecOps_inv c tr ls.st.data ls.st.kind _ hb ops ls1 _ hd hk h0
  rw [← g1, ← g2] at g3
  have h1 := request_inv c tr x.1 _ x.2 hb g3
  rw [h1, g1, g2]
  have h2 := request_inv c tr ls _ _ hb h0
  rw [← h2]
  exact secGetData_lazy_eq_eager c enc tr ls ls hdrOff idx rfl rfl

end ElfioVerif.C15
