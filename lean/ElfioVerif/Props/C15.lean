import ElfioVerif.Model.Load
namespace ElfioVerif.C15
end ElfioVerif.C15
