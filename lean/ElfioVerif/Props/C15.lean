/-
C15 — lazy loading and address translation do not change what is observed.

Section / segment level (all images, all stream states):
 * `isolatedRead_state_independent`, `isolatedRead_flags_or` : what the F9 fix buys,
 * `secGetData_lazy_eq_eager`, `segGetData_lazy_eq_eager` : a lazily loaded part, once requested,
   shows exactly what the eagerly loaded part shows,
 * `freeData_getData`, `interleaving_eq`, `seg_interleaving_eq` : any interleaving of requests,
   releases and arbitrary disturbances of the stream's position / error state.
Whole-load level: see the end of the file.
-/
import ElfioVerif.Lemmas.LoadSpec
import ElfioVerif.Lemmas.LoadSafety
import ElfioVerif.Props.C02
set_option linter.unusedSimpArgs false
set_option linter.unusedVariables false
namespace ElfioVerif.C15
open Gen C02

/-! ### the read primitive -/

/-- the bytes delivered by an isolated read and its completeness flag do not depend on the
    stream's position, error flags or last count -/
theorem isolatedRead_state_independent (s : IStream) (pos gcount : Nat) (eof fail : Bool)
    (off n : BitVec 64) :
    (isolatedRead { s with pos := pos, eof := eof, fail := fail, gcount := gcount } off n).2 =
      (isolatedRead s off n).2 :=
  isolatedRead_indep { s with pos := pos, eof := eof, fail := fail, gcount := gcount } s rfl rfl off n

/-- … they depend on the stream's bytes and kind only -/
theorem isolatedRead_depends_on_data_only (s s' : IStream) (hd : s.data = s'.data)
    (hk : s.kind = s'.kind) (off n : BitVec 64) : (isolatedRead s off n).2 = (isolatedRead s' off n).2 :=
  isolatedRead_indep s s' hd hk off n

/-- the error flags afterwards are the earlier flags OR the flags the same read raises on a
    cleared stream: an earlier failure is neither forgotten nor does it influence the read -/
theorem isolatedRead_flags_or (s : IStream) (off n : BitVec 64) :
    (isolatedRead s off n).1.eof = ((isolatedRead s.clear off n).1.eof || s.eof) ∧
    (isolatedRead s off n).1.fail = ((isolatedRead s.clear off n).1.fail || s.fail) ∧
    (isolatedRead s off n).1.data = s.data ∧ (isolatedRead s off n).1.kind = s.kind :=
  ⟨(isolatedRead_flags s off n).1, (isolatedRead_flags s off n).2, isolatedRead_data_ls s off n,
   isolatedRead_kind_ls s off n⟩

example : (isolatedRead { data := [1, 2, 3, 4], pos := 9, eof := true, fail := true } 1#64 2#64).2
    = ([2, 3], true) := by decide

/-! ### observations of a section -/

/-- everything the public getters of a section return (data as the whole buffer) -/
structure SecObs where
  index : Nat
  name : Bytes
  nameOff : BitVec 32
  stype : BitVec 32
  flags : BitVec 64
  addr : BitVec 64
  offset : BitVec 64
  size : BitVec 64
  link : BitVec 32
  info : BitVec 32
  addrAlign : BitVec 64
  entSize : BitVec 64
  data : Option Bytes
  dataSize : BitVec 64
  streamSize : BitVec 64

def secObs (b : SecBuf) : SecObs :=
  { index := b.index, name := b.name, nameOff := b.nameOff, stype := b.stype, flags := b.flags,
    addr := b.addr, offset := b.offset, size := b.size, link := b.link, info := b.info,
    addrAlign := b.addrAlign, entSize := b.entSize, data := b.data, dataSize := b.dataSize,
    streamSize := b.streamSize }

theorem decodeShdr_lazy (c : Cls) (enc : Enc) (r : Bytes) (ss : BitVec 64) (te : Bool) (idx : Nat) :
    decodeShdr c enc r (secInit c ss te true idx) =
      { decodeShdr c enc r (secInit c ss te false idx) with isLazy := true } := by
  cases c <;> rfl

@[simp] theorem streamSizeOf_data (tr : List Trans) (st : IStream) : (streamSizeOf tr st).1.data = st.data := by
  rw [streamSizeOf_val_ls]; split <;> rfl
@[simp] theorem streamSizeOf_kind (tr : List Trans) (st : IStream) : (streamSizeOf tr st).1.kind = st.kind := by
  rw [streamSizeOf_val_ls]; split <;> rfl
@[simp] theorem hdrRead_data (tr : List Trans) (st : IStream) (o : Int) (n : Nat) :
    (hdrRead_ls tr st o n).1.data = st.data := by simp [hdrRead_ls]
@[simp] theorem hdrRead_kind (tr : List Trans) (st : IStream) (o : Int) (n : Nat) :
    (hdrRead_ls tr st o n).1.kind = st.kind := by simp [hdrRead_ls]

/-- `get_data()`'s effect on the observations, as a function of the observations -/
def obsGet (x : SecObs) : SecOutcome → SecObs
  | .refuse => x
  | .readFail => { x with data := none, dataSize := 0 }
  | .loaded d => { x with data := some (d ++ [0]), dataSize := x.size }
  | .loadedEmpty => { x with data := some (alloc 1), dataSize := 0 }
  | .keep _ => x

theorem secObs_getApply (b : SecBuf) (o : SecOutcome) : secObs (secGetApply b o) = obsGet (secObs b) o := by
  rcases o with _ | _ | d | _ | (_ | _) <;> simp [secGetApply, SecOutcome.apply, secObs, obsGet]

@[simp] theorem secObs_addrSet (b : SecBuf) (x : Bool) : secObs { b with addrSet := x } = secObs b := rfl

/-- **a lazily loaded section, once its data is requested — on a stream in any position and any
    error state — shows what the eagerly loaded section shows** (same image, same translation) -/
theorem secGetData_lazy_eq_eager (c : Cls) (enc : Enc) (tr : List Trans) (ls ls' : LoadSt)
    (hdrOff : Int) (idx : Nat) (hd : ls'.st.data = ls.st.data) (hk : ls'.st.kind = ls.st.kind) :
    secObs (secGetData c tr ls' (secLoad c enc tr ls hdrOff true idx).2).2 =
      secObs (secLoad c enc tr ls hdrOff false idx).2 := by
  rw [secLoad_eq_ls, secLoad_eq_ls]
  simp only []
  split
  · -- short header read: both keep the zero-initialised header
    rw [secGetData_snd]
    simp only [secInit, Bool.not_false, Bool.and_self, if_true, Option.isNone_none, secObs_getApply]
    have key : ∀ ss, secOutcome c tr ls'.st 0#32 0#64 0#64 ss true = .refuse ∨
        secOutcome c tr ls'.st 0#32 0#64 0#64 ss true = .keep true :=
      fun ss => secOutcome_nobits c tr ls'.st _ _ _ ss (by decide)
    rcases key (hdrRead_ls tr ls.st hdrOff (shdrSize c)).2.2 with h | h <;> simp [h, obsGet, secObs]
  · simp only [if_true, Bool.false_eq_true, if_false, secObs_addrSet]
    rw [secGetData_snd, secGetData_snd]
    simp only [decodeShdr_isLoaded_ls, decodeShdr_canLoad_ls, decodeShdr_data_ls, decodeShdr_streamSize_ls, secInit,
      Bool.not_false, Bool.and_self, if_true, Option.isNone_none]
    have e := decodeShdr_lazy c enc (hdrRead_ls tr ls.st hdrOff (shdrSize c)).2.1
      (hdrRead_ls tr ls.st hdrOff (shdrSize c)).2.2 tr.isEmpty idx
    simp only [secInit] at e
    rw [e]
    simp only []
    rw [secOutcome_indep c tr ls'.st (hdrRead_ls tr ls.st hdrOff (shdrSize c)).1 (by simp [hd]) (by simp [hk])]
    rw [secObs_getApply, secObs_getApply]
    rfl

/-! ### interleavings of requests and releases on one section -/

/-- what can happen to one lazily loaded section while the stream stays open: its data is
    requested, its data is released, or *anything else* moves the stream / changes its error state
    (reads for other sections and segments, failed reads, …) -/
inductive DataOp
  | request
  | release
  | disturb (pos : Nat) (eof fail : Bool) (gcount : Nat)
  deriving Repr

def disturbSt (ls : LoadSt) (p : Nat) (e f : Bool) (g : Nat) : LoadSt :=
  { ls with st := { ls.st with pos := p, eof := e, fail := f, gcount := g } }

def runSecOps (c : Cls) (tr : List Trans) : LoadSt → SecBuf → List DataOp → LoadSt × SecBuf
  | ls, b, [] => (ls, b)
  | ls, b, .request :: r => runSecOps c tr (secGetData c tr ls b).1 (secGetData c tr ls b).2 r
  | ls, b, .release :: r => runSecOps c tr ls b.freeData r
  | ls, b, .disturb p e f g :: r => runSecOps c tr (disturbSt ls p e f g) b r

/-- a lazily loaded section whose data has not been requested yet -/
def Fresh (b : SecBuf) : Prop := b.isLazy = true ∧ b.isLoaded = false ∧ b.canLoad = true ∧ b.data = none

/-- the states a lazily loaded section `b` moves through: resident/decided (`secGetApply b o`), or
    non-resident with a possibly updated `data_size` -/
def SecInv (b : SecBuf) (o : SecOutcome) (b' : SecBuf) : Prop :=
  b' = secGetApply b o ∨
  ∃ ds, b' = { b with dataSize := ds } ∧
    (ds = b.dataSize ∨ ((o.apply b).2 = true ∧ ds = (secGetApply b o).dataSize))

theorem getApply_noop (b : SecBuf) (o : SecOutcome) (hb : Fresh b) :
    (!(secGetApply b o).isLoaded && (secGetApply b o).canLoad) = false := by
  obtain ⟨_, h2, h3, _⟩ := hb
  rcases o with _ | _ | d | _ | (_ | _) <;> simp [secGetApply, SecOutcome.apply, h2, h3]

theorem getApply_ds (b : SecBuf) (o : SecOutcome) (ds : BitVec 64)
    (h : ds = b.dataSize ∨ ((o.apply b).2 = true ∧ ds = (secGetApply b o).dataSize)) :
    secGetApply { b with dataSize := ds } o = secGetApply b o := by
  rcases h with h | ⟨h1, h2⟩
  · subst h; rfl
  · rcases o with _ | _ | d | _ | (_ | _) <;>
      simp_all [secGetApply, SecOutcome.apply]

theorem free_inv (b : SecBuf) (o : SecOutcome) (hb : Fresh b) (b' : SecBuf) (h : SecInv b o b') :
    SecInv b o b'.freeData := by
  obtain ⟨h1, h2, h3, h4⟩ := hb
  rcases h with h | ⟨ds, h, hds⟩
  · subst h
    rcases o with _ | _ | d | _ | (_ | _)
    · left; cases b; simp_all [secGetApply, SecOutcome.apply, SecBuf.freeData]
    · left; cases b; simp_all [secGetApply, SecOutcome.apply, SecBuf.freeData]
    · right; refine ⟨b.size, ?_, Or.inr ⟨rfl, rfl⟩⟩
      cases b; simp_all [secGetApply, SecOutcome.apply, SecBuf.freeData]
    · right; refine ⟨0, ?_, Or.inr ⟨rfl, rfl⟩⟩
      cases b; simp_all [secGetApply, SecOutcome.apply, SecBuf.freeData]
    · left; cases b; simp_all [secGetApply, SecOutcome.apply, SecBuf.freeData]
    · right; refine ⟨b.dataSize, ?_, Or.inl rfl⟩
      cases b; simp_all [secGetApply, SecOutcome.apply, SecBuf.freeData]
  · right; refine ⟨ds, ?_, hds⟩
    subst h
    cases b; simp_all [SecBuf.freeData]

/-- the outcome a fresh section `b` gets on any stream over the bytes `D` of kind `K` -/
def outcomeOf (c : Cls) (tr : List Trans) (D : Bytes) (K : StreamKind) (b : SecBuf) : SecOutcome :=
  secOutcome c tr { data := D, kind := K } b.stype b.size b.offset b.streamSize true

/-- a request in any state of the invariant lands in the one decided state -/
theorem request_inv (c : Cls) (tr : List Trans) (ls : LoadSt) (b b' : SecBuf) (hb : Fresh b)
    (h : SecInv b (outcomeOf c tr ls.st.data ls.st.kind b) b') :
    (secGetData c tr ls b').2 = secGetApply b (outcomeOf c tr ls.st.data ls.st.kind b) := by
  rw [secGetData_snd]
  rcases h with h | ⟨ds, h, hds⟩
  · subst h; rw [getApply_noop b _ hb]; simp
  · subst h
    obtain ⟨h1, h2, h3, h4⟩ := hb
    have hc : (!({ b with dataSize := ds } : SecBuf).isLoaded && ({ b with dataSize := ds } : SecBuf).canLoad) = true := by
      simp [h2, h3]
    rw [if_pos hc]
    have e : secOutcome c tr ls.st b.stype b.size b.offset b.streamSize b.data.isNone =
        outcomeOf c tr ls.st.data ls.st.kind b := by
      rw [h4]
      exact secOutcome_indep c tr ls.st { data := ls.st.data, kind := ls.st.kind } rfl rfl _ _ _ _ _
    show secGetApply _ (secOutcome c tr ls.st b.stype b.size b.offset b.streamSize b.data.isNone) = _
    rw [e]
    exact getApply_ds b _ ds hds

theorem runSecOps_inv (c : Cls) (tr : List Trans) (D : Bytes) (K : StreamKind) (b : SecBuf) (hb : Fresh b) :
    ∀ (ops : List DataOp) (ls : LoadSt) (b' : SecBuf), ls.st.data = D → ls.st.kind = K →
      SecInv b (outcomeOf c tr D K b) b' →
      (runSecOps c tr ls b' ops).1.st.data = D ∧ (runSecOps c tr ls b' ops).1.st.kind = K ∧
      SecInv b (outcomeOf c tr D K b) (runSecOps c tr ls b' ops).2 := by
  intro ops
  induction ops with
  | nil => intro ls b' hd hk h; exact ⟨hd, hk, h⟩
  | cons op r ih =>
    intro ls b' hd hk h
    cases op with
    | request =>
      simp only [runSecOps]
      apply ih
      · simp [hd]
      · simp [hk]
      · left; subst hd; subst hk; exact request_inv c tr ls b b' hb h
    | release => simp only [runSecOps]; exact ih ls _ hd hk (free_inv b _ hb b' h)
    | disturb p e f g => simp only [runSecOps]; exact ih _ b' hd hk h

theorem secLoad_lazy_fresh (c : Cls) (enc : Enc) (tr : List Trans) (ls : LoadSt) (hdrOff : Int) (idx : Nat) :
    Fresh (secLoad c enc tr ls hdrOff true idx).2 := by
  rw [secLoad_eq_ls]; simp only []
  split <;> simp [Fresh, secInit]

/-- **release then request restores the same observations** (stream in any state at both requests) -/
theorem freeData_getData (c : Cls) (tr : List Trans) (ls1 ls2 : LoadSt) (b : SecBuf) (hb : Fresh b)
    (hd : ls2.st.data = ls1.st.data) (hk : ls2.st.kind = ls1.st.kind) :
    (secGetData c tr ls2 (secGetData c tr ls1 b).2.freeData).2 = (secGetData c tr ls1 b).2 := by
  have h0 : SecInv b (outcomeOf c tr ls1.st.data ls1.st.kind b) b := Or.inr ⟨b.dataSize, rfl, Or.inl rfl⟩
  have h1 := request_inv c tr ls1 b b hb h0
  have h2 : SecInv b (outcomeOf c tr ls1.st.data ls1.st.kind b) (secGetData c tr ls1 b).2 := Or.inl h1
  have h3 := free_inv b _ hb _ h2
  rw [← hd, ← hk] at h3
  rw [request_inv c tr ls2 b _ hb h3, hd, hk, h1]

/-- **any interleaving** : a lazily loaded section, driven through any list of requests, releases
    and stream disturbances and then asked for its data, shows what the eagerly loaded section
    shows -/
theorem interleaving_eq (c : Cls) (enc : Enc) (tr : List Trans) (ls ls1 : LoadSt) (hdrOff : Int)
    (idx : Nat) (ops : List DataOp) (hd : ls1.st.data = ls.st.data) (hk : ls1.st.kind = ls.st.kind) :
    let x := runSecOps c tr ls1 (secLoad c enc tr ls hdrOff true idx).2 ops
    secObs (secGetData c tr x.1 x.2).2 = secObs (secLoad c enc tr ls hdrOff false idx).2 := by
  intro x
  have hb := secLoad_lazy_fresh c enc tr ls hdrOff idx
  have h0 : SecInv (secLoad c enc tr ls hdrOff true idx).2
      (outcomeOf c tr ls.st.data ls.st.kind (secLoad c enc tr ls hdrOff true idx).2)
      (secLoad c enc tr ls hdrOff true idx).2 := Or.inr ⟨_, rfl, Or.inl rfl⟩
  obtain ⟨g1, g2, g3⟩ := runSecOps_inv c tr ls.st.data ls.st.kind _ hb ops ls1 _ hd hk h0
  rw [← g1, ← g2] at g3
  have h1 := request_inv c tr x.1 _ x.2 hb g3
  rw [h1, g1, g2]
  have h2 := request_inv c tr ls _ _ hb h0
  rw [← h2]
  exact secGetData_lazy_eq_eager c enc tr ls ls hdrOff idx rfl rfl

/-! ### segments -/

structure SegObs where
  index : Nat
  stype : BitVec 32
  flags : BitVec 32
  offset : BitVec 64
  vaddr : BitVec 64
  paddr : BitVec 64
  filesz : BitVec 64
  memsz : BitVec 64
  align : BitVec 64
  secs : List (BitVec 16)
  data : Option Bytes

def segObs (g : Seg) : SegObs :=
  { index := g.index, stype := g.stype, flags := g.flags, offset := g.offset, vaddr := g.vaddr,
    paddr := g.paddr, filesz := g.filesz, memsz := g.memsz, align := g.align, secs := g.secs, data := g.data }

/-- `segment_impl::free_data()` (as in Driver/Load.lean `segfree`) -/
def segFreeData (g : Seg) : Seg := if g.isLazy then { g with data := none, isLoaded := false } else g

theorem decodePhdr_lazy (c : Cls) (enc : Enc) (r : Bytes) (ss : BitVec 64) :
    decodePhdr c enc r (segInit_ls ss true) = { decodePhdr c enc r (segInit_ls ss false) with isLazy := true } := by
  cases c <;> rfl

/-- **a lazily loaded segment, once its data is requested on a stream in any state, shows what
    the eagerly loaded segment shows** (also when the eager data read fails: both show no data) -/
theorem segGetData_lazy_eq_eager (c : Cls) (enc : Enc) (tr : List Trans) (ls ls' : LoadSt)
    (hdrOff : Int) (hd : ls'.st.data = ls.st.data) (hk : ls'.st.kind = ls.st.kind) :
    segObs (segGetData c tr ls' (segLoad c enc tr ls hdrOff true).2.1).2 =
      segObs (segLoad c enc tr ls hdrOff false).2.1 := by
  rw [segLoad_eq_ls, segLoad_eq_ls]
  simp only [if_true, Bool.false_eq_true, if_false]
  rw [segGetData_eq_ls]
  simp only [decodePhdr_isLoaded_ls, segInit_ls, Bool.not_false, if_true]
  rw [segLoadData_snd, segLoadData_snd]
  have e := decodePhdr_lazy c enc (wr (List.replicate (phdrSize c) 0) 0 (hdrRead_ls tr ls.st hdrOff (phdrSize c)).2.1)
    (hdrRead_ls tr ls.st hdrOff (phdrSize c)).2.2
  simp only [segInit_ls] at e
  rw [e]
  simp only []
  rw [segOutcome_indep c tr ls'.st (hdrRead_ls tr ls.st hdrOff (phdrSize c)).1 (by simp [hd]) (by simp [hk])]
  generalize segOutcome c tr _ _ _ _ _ = o
  rcases o with _ | _ | d <;> simp [segApply, segObs]

def runSegOps (c : Cls) (tr : List Trans) : LoadSt → Seg → List DataOp → LoadSt × Seg
  | ls, g, [] => (ls, g)
  | ls, g, .request :: r => runSegOps c tr (segGetData c tr ls g).1 (segGetData c tr ls g).2 r
  | ls, g, .release :: r => runSegOps c tr ls (segFreeData g) r
  | ls, g, .disturb p e f k :: r => runSegOps c tr (disturbSt ls p e f k) g r

def SegFresh (g : Seg) : Prop := g.isLazy = true ∧ g.isLoaded = false ∧ g.data = none

def segOutcomeOf (c : Cls) (tr : List Trans) (D : Bytes) (K : StreamKind) (g : Seg) : Option (Option Bytes) :=
  segOutcome c tr { data := D, kind := K } g.stype g.filesz g.offset g.streamSize

theorem seg_request_inv (c : Cls) (tr : List Trans) (ls : LoadSt) (g g' : Seg) (hg : SegFresh g)
    (h : g' = g ∨ g' = (segApply g (segOutcomeOf c tr ls.st.data ls.st.kind g)).1) :
    (segGetData c tr ls g').2 = (segApply g (segOutcomeOf c tr ls.st.data ls.st.kind g)).1 := by
  obtain ⟨h1, h2, h3⟩ := hg
  have e : segOutcome c tr ls.st g.stype g.filesz g.offset g.streamSize =
      segOutcomeOf c tr ls.st.data ls.st.kind g :=
    segOutcome_indep c tr ls.st { data := ls.st.data, kind := ls.st.kind } rfl rfl _ _ _ _
  rw [segGetData_eq_ls]
  rcases h with h | h
  · subst h
    simp only [h2, Bool.not_false, if_true]
    rw [segLoadData_snd, e]
  · subst h
    generalize ho : segOutcomeOf c tr ls.st.data ls.st.kind g = o at *
    rcases o with _ | _ | d
    · simp only [segApply, h2, Bool.not_false, if_true]
      rw [segLoadData_snd, e]; rfl
    · simp only [segApply, h2, Bool.not_false, if_true]
      rw [segLoadData_snd]
      simp only [e, segApply]
    · simp [segApply]

theorem seg_free_inv (g : Seg) (o : Option (Option Bytes)) (hg : SegFresh g) (g' : Seg)
    (h : g' = g ∨ g' = (segApply g o).1) : segFreeData g' = g ∨ segFreeData g' = (segApply g o).1 := by
  obtain ⟨h1, h2, h3⟩ := hg
  left
  rcases h with h | h
  · rw [h]; cases g; simp_all [segFreeData]
  · rw [h]
    rcases o with _ | _ | d <;> (cases g; simp_all [segFreeData, segApply])

theorem runSegOps_inv (c : Cls) (tr : List Trans) (D : Bytes) (K : StreamKind) (g : Seg) (hg : SegFresh g) :
    ∀ (ops : List DataOp) (ls : LoadSt) (g' : Seg), ls.st.data = D → ls.st.kind = K →
      (g' = g ∨ g' = (segApply g (segOutcomeOf c tr D K g)).1) →
      (runSegOps c tr ls g' ops).1.st.data = D ∧ (runSegOps c tr ls g' ops).1.st.kind = K ∧
      ((runSegOps c tr ls g' ops).2 = g ∨
       (runSegOps c tr ls g' ops).2 = (segApply g (segOutcomeOf c tr D K g)).1) := by
  intro ops
  induction ops with
  | nil => intro ls g' hd hk h; exact ⟨hd, hk, h⟩
  | cons op r ih =>
    intro ls g' hd hk h
    cases op with
    | request =>
      simp only [runSegOps]
      apply ih
      · rw [segGetData_eq_ls]; split <;> simp [hd]
      · rw [segGetData_eq_ls]; split <;> simp [hk]
      · right; subst hd; subst hk; exact seg_request_inv c tr ls g g' hg h
    | release => simp only [runSegOps]; exact ih ls _ hd hk (seg_free_inv g _ hg g' h)
    | disturb p e f k => simp only [runSegOps]; exact ih _ g' hd hk h

theorem segLoad_lazy_fresh (c : Cls) (enc : Enc) (tr : List Trans) (ls : LoadSt) (hdrOff : Int) :
    SegFresh (segLoad c enc tr ls hdrOff true).2.1 := by
  rw [segLoad_eq_ls]; simp [SegFresh, segInit_ls]

/-- **any interleaving, segments** -/
theorem seg_interleaving_eq (c : Cls) (enc : Enc) (tr : List Trans) (ls ls1 : LoadSt) (hdrOff : Int)
    (ops : List DataOp) (hd : ls1.st.data = ls.st.data) (hk : ls1.st.kind = ls.st.kind) :
    let x := runSegOps c tr ls1 (segLoad c enc tr ls hdrOff true).2.1 ops
    segObs (segGetData c tr x.1 x.2).2 = segObs (segLoad c enc tr ls hdrOff false).2.1 := by
  intro x
  have hg := segLoad_lazy_fresh c enc tr ls hdrOff
  obtain ⟨g1, g2, g3⟩ := runSegOps_inv c tr ls.st.data ls.st.kind _ hg ops ls1 _ hd hk (Or.inl rfl)
  rw [← g1, ← g2] at g3
  have h1 := seg_request_inv c tr x.1 _ x.2 hg g3
  rw [h1, g1, g2]
  have h2 := seg_request_inv c tr ls _ _ hg (Or.inl rfl)
  rw [← h2]
  exact segGetData_lazy_eq_eager c enc tr ls ls hdrOff rfl rfl

/-! ### address translation: read level -/

/-- a range that lies inside one table entry whose image in the container equals the plain bytes
    is represented (this is how `Represents` is established for a concrete container) -/
theorem rangeRep_of_entry (cont : Bytes) (table : List Trans) (img : Bytes) (e : Trans) (off n : Nat)
    (hne : table ≠ [])
    (hfind : table.find? (fun e => decide (e.start ≤ Int.ofNat off) && decide (Int.ofNat off - e.start < e.size)) = some e)
    (hs : 0 ≤ e.start) (hm : 0 ≤ e.mappedTo)
    (hin : Int.ofNat off + Int.ofNat n ≤ e.start + e.size)
    (hc : e.mappedTo.toNat + e.size.toNat ≤ cont.length) (hi : e.start.toNat + e.size.toNat ≤ img.length)
    (heq : slice cont e.mappedTo.toNat e.size.toNat = slice img e.start.toNat e.size.toNat) :
    RangeRep cont table img off n := by
  have hp := List.find?_some hfind
  simp only [Bool.and_eq_true, decide_eq_true_eq] at hp
  obtain ⟨hp1, hp2⟩ := hp
  have ht : trApply table (Int.ofNat off) = Int.ofNat off - e.start + e.mappedTo := by
    unfold trApply
    cases table with
    | nil => exact absurd rfl hne
    | cons a l => simp only [hfind]
  rw [RangeRep, ht]
  simp only [Int.ofNat_eq_natCast] at *
  have hsz : 0 ≤ e.size := by omega
  have e1 : ((off : Int) - e.start + e.mappedTo).toNat = e.mappedTo.toNat + (off - e.start.toNat) := by omega
  have hoff : e.start.toNat ≤ off := by omega
  refine ⟨by omega, by omega, by omega, ?_⟩
  rw [e1]
  have h1 : slice cont (e.mappedTo.toNat + (off - e.start.toNat)) n =
      slice (slice cont e.mappedTo.toNat e.size.toNat) (off - e.start.toNat) n :=
    (C02.slice_slice cont _ _ _ _ (by omega)).symm
  have h2 : slice img off n = slice (slice img e.start.toNat e.size.toNat) (off - e.start.toNat) n := by
    rw [C02.slice_slice img _ _ _ _ (by omega)]
    congr 1; omega
  rw [h1, h2, heq]

/-- **translated read = plain read** : the loader's data read on the container, at the translated
    position, delivers exactly the bytes (and the completeness flag) the plain read delivers on the
    plain image — for streams in any position / error state -/
theorem translated_read_eq (cont img : Bytes) (table : List Trans) (sc si : IStream)
    (hsc : sc.data = cont) (hsi : si.data = img) (offset n : BitVec 64)
    (hc63 : cont.length < 9223372036854775808) (hi63 : img.length < 9223372036854775808)
    (hrep : RangeRep cont table img offset.toNat n.toNat) :
    (isolatedRead sc (secOff table offset) n).2 = (isolatedRead si offset n).2 ∧
    (isolatedRead si offset n).2 = (slice img offset.toNat n.toNat, true) := by
  obtain ⟨h0, h1, h2, h3⟩ := hrep
  have hto := secOff_toNat table offset (by omega) h0 (by omega)
  subst hsc; subst hsi
  rw [isolatedRead_ok sc (secOff table offset) n (by rw [hto]; exact h1) hc63,
    isolatedRead_ok si offset n h2 hi63]
  simp only [hto, h3, and_self]

/-- the same for the header-record reads (`seekg(translate(pos)); read`) on a good stream -/
theorem translated_hdrRead_eq (cont img : Bytes) (table : List Trans) (sc si : IStream)
    (hsc : sc.data = cont) (hsi : si.data = img) (hce : sc.eof = false) (hcf : sc.fail = false)
    (hie : si.eof = false) (hif : si.fail = false) (k n : Nat)
    (hrep : RangeRep cont table img k n) :
    (hdrRead_ls table sc (Int.ofNat k) n).2.1 = (hdrRead_ls [] si (Int.ofNat k) n).2.1 ∧
    (hdrRead_ls table sc (Int.ofNat k) n).1.gcount = n ∧ (hdrRead_ls [] si (Int.ofNat k) n).1.gcount = n ∧
    (hdrRead_ls table sc (Int.ofNat k) n).1.eof = false ∧ (hdrRead_ls table sc (Int.ofNat k) n).1.fail = false := by
  obtain ⟨h0, h1, h2, h3⟩ := hrep
  subst hsc; subst hsi
  rw [hdrRead_inside si hie hif k n h2]
  unfold hdrRead_ls
  rw [streamSizeOf_good_ls table sc hce hcf]
  simp only []
  rw [IStream.seekg_ok_ls { sc with pos := sc.data.length } hcf _ h0
      (by show (trApply table (Int.ofNat k)).toNat ≤ sc.data.length; omega),
    IStream.read_ok_ls { sc with pos := (trApply table (Int.ofNat k)).toNat, eof := false } rfl hcf n h1]
  simp only [Int.ofNat_eq_natCast] at *
  simp [h3, hcf]


/-! ### whole load: the former finding F15 (repaired by `fixes/22-lazy-segment-range-check.patch`) -/

def loadOk (r : M LoadRes) : Option Bool :=
  match r with
  | .ok r => some r.ok
  | .error _ => none

/-- ELF32/LSB, no sections, one PT_LOAD whose file range `[1000, 1004)` is beyond the 84-byte file -/
def f15Image : Bytes := 
  [127, 69, 76, 70, 1, 1, 1, 0, 0, 0, 0, 0, 0, 0, 0, 0, 2, 0, 3, 0, 1, 0, 0, 0, 0, 0, 0, 0, 52, 0, 0, 0, 0, 0, 0, 0, 0, 0, 0, 0, 52, 0, 32, 0, 1, 0, 40, 0, 0, 0, 0, 0, 1, 0, 0, 0, 232, 3, 0, 0, 0, 0, 0, 0, 0, 0, 0, 0, 4, 0, 0, 0, 4, 0, 0, 0, 4, 0, 0, 0, 1, 0, 0, 0]

/-- **F15 (repaired)** : on the former witness — where the eager `load()` returned `false` (the segment's
    data cannot be read) and the lazy `load()` returned `true` (the data was neither read nor
    bounds-checked) — both modes now answer `false`: the lazy path of `segment_impl::load` asks the range
    test `load_data()` asks.  The general statement is `lazy_eq_eager` / `lazy_eq_eager_result` below. -/
theorem lazy_load_unreadable_segment_agree :
    loadOk (load {} { data := f15Image } false) = some false ∧
    loadOk (load {} { data := f15Image } true) = some false := by
  decide +kernel

/-! ### whole load, well-formed images -/

/-- header fields and name of a section as the getters return them -/
def secFields (b : SecBuf) :=
  (b.index, b.name, b.nameOff, b.stype, b.flags, b.addr, b.offset, b.size, b.link, b.info, b.addrAlign, b.entSize)
def segFields (g : Seg) :=
  (g.index, g.stype, g.flags, g.offset, g.vaddr, g.paddr, g.filesz, g.memsz, g.align, g.secs)
/-- the bytes `get_data()` exposes in `[0, get_size())` when asked on stream `ls` -/
def secView (c : Cls) (tr : List Trans) (ls : LoadSt) (b : SecBuf) : Bytes :=
  ((secGetData c tr ls b).2.data.getD []).take (secGetData c tr ls b).2.size.toNat
def segView (c : Cls) (tr : List Trans) (ls : LoadSt) (g : Seg) : Bytes :=
  ((segGetData c tr ls g).2.data.getD []).take g.filesz.toNat

/-- two loaded objects show the same things (data requested on any streams over the same image) -/
def ViewEq (img : Bytes) (a b : Obj) : Prop :=
  a.cls = b.cls ∧ a.enc = b.enc ∧ a.hdr = b.hdr ∧
  a.secs.length = b.secs.length ∧ a.segs.length = b.segs.length ∧
  (∀ i (h1 : i < a.secs.length) (h2 : i < b.secs.length),
    secFields a.secs[i] = secFields b.secs[i] ∧
    ∀ ls1 ls2 : LoadSt, ls1.st.data = img → ls2.st.data = img →
      secView a.cls [] ls1 a.secs[i] = secView b.cls [] ls2 b.secs[i]) ∧
  (∀ j (h1 : j < a.segs.length) (h2 : j < b.segs.length),
    segFields a.segs[j] = segFields b.segs[j] ∧
    ∀ ls1 ls2 : LoadSt, ls1.st.data = img → ls2.st.data = img →
      segView a.cls [] ls1 a.segs[j] = segView b.cls [] ls2 b.segs[j])

theorem bv_eq {n} {x y : BitVec n} {k : Nat} (h1 : x.toNat = k) (h2 : y.toNat = k) : x = y :=
  BitVec.eq_of_toNat_eq (h1.trans h2.symm)

theorem map_toNat_inj : ∀ (l1 l2 : List (BitVec 16)), l1.map (·.toNat) = l2.map (·.toNat) → l1 = l2
  | [], [], _ => rfl
  | [], _ :: _, h => by simp at h
  | _ :: _, [], h => by simp at h
  | a :: l1, b :: l2, h => by
    simp only [List.map_cons, List.cons.injEq] at h
    rw [BitVec.eq_of_toNat_eq h.1, map_toNat_inj l1 l2 h.2]

/-- two objects that both show what the specification says show the same -/
theorem viewEq_of_spec (img : Bytes) (ra rb : LoadRes) (ha : C02.LoadSpec img ra) (hb : C02.LoadSpec img rb) :
    ra.ok = rb.ok ∧ ViewEq img ra.obj rb.obj := by
  obtain ⟨a1, a2, a3, ⟨ah, a4, a5⟩, _, _, _, a6, a7, a8, a9⟩ := ha
  obtain ⟨b1, b2, b3, ⟨bh, b4, b5⟩, _, _, _, b6, b7, b8, b9⟩ := hb
  refine ⟨by rw [a1, b1], by rw [a2, b2], by rw [a3, b3], by rw [a4, b4, a5.1, b5.1], by rw [a6, b6],
    by rw [a8, b8], ?_, ?_⟩
  · intro i h1 h2
    obtain ⟨x0, x1, x2, x3, x4, x5, x6, x7, x8, x9, x10, x11, x12⟩ := a7 i h1
    obtain ⟨y0, y1, y2, y3, y4, y5, y6, y7, y8, y9, y10, y11, y12⟩ := b7 i h2
    refine ⟨?_, ?_⟩
    · simp only [secFields, Prod.mk.injEq]
      exact ⟨by rw [x0, y0], by rw [x11, y11], bv_eq x1 y1, bv_eq x2 y2, bv_eq x3 y3, bv_eq x4 y4, bv_eq x5 y5,
        bv_eq x6 y6, bv_eq x7 y7, bv_eq x8 y8, bv_eq x9 y9, bv_eq x10 y10⟩
    · intro ls1 ls2 h1 h2
      unfold secView
      rw [a2, b2, x12 ls1 h1, y12 ls2 h2]
  · intro j h1 h2
    obtain ⟨x0, x1, x2, x3, x4, x5, x6, x7, x8, x9, x10⟩ := a9 j h1
    obtain ⟨y0, y1, y2, y3, y4, y5, y6, y7, y8, y9, y10⟩ := b9 j h2
    refine ⟨?_, ?_⟩
    · simp only [segFields, Prod.mk.injEq]
      refine ⟨by rw [x0, y0], bv_eq x1 y1, bv_eq x2 y2, bv_eq x3 y3, bv_eq x4 y4, bv_eq x5 y5, bv_eq x6 y6,
        bv_eq x7 y7, bv_eq x8 y8, ?_⟩
      have := x9.trans y9.symm
      exact map_toNat_inj _ _ this
    · intro ls1 ls2 h1 h2
      unfold segView
      rw [a2, b2, x10 ls1 h1, y10 ls2 h2]

/-- **lazy = eager, well-formed images** : both loads succeed and show the same header, the same
    section / segment fields, names and members, and the same data whenever and on whatever stream
    state the data is requested (composition of C02 `load_eq_spec` for both modes) -/
theorem lazy_eq_eager_wf (img : Bytes) (o : Obj) (k : StreamKind) (htr : o.trans = [])
    (hwf : C02.WellFormedImage img) :
    ∃ rl re : LoadRes, load o { data := img, kind := k } true = .ok rl ∧
      load o { data := img, kind := k } false = .ok re ∧ rl.ok = re.ok ∧ ViewEq img rl.obj re.obj := by
  obtain ⟨rl, h1, s1⟩ := C02.load_eq_spec img o k true htr hwf
  obtain ⟨re, h2, s2⟩ := C02.load_eq_spec img o k false htr hwf
  exact ⟨rl, re, h1, h2, viewEq_of_spec img rl re s1 s2⟩

example : ∃ rl re : LoadRes, load {} { data := C02.wfImage } true = .ok rl ∧
    load {} { data := C02.wfImage } false = .ok re ∧ rl.ok = re.ok ∧ ViewEq C02.wfImage rl.obj re.obj :=
  lazy_eq_eager_wf C02.wfImage {} .str rfl (by decide +kernel)

/-! ### whole load, every image (no address translation) -/

/-- two streams over the same bytes whose `failbit`s agree (positions, `eofbit`, last count may differ) -/
def FlagEq (s s' : IStream) : Prop := s.data = s'.data ∧ s.kind = s'.kind ∧ s.fail = s'.fail

theorem FlagEq.refl (s : IStream) : FlagEq s s := ⟨rfl, rfl, rfl⟩
theorem FlagEq.symm {s s' : IStream} (h : FlagEq s s') : FlagEq s' s := ⟨h.1.symm, h.2.1.symm, h.2.2.symm⟩
theorem FlagEq.trans {a b c : IStream} (h : FlagEq a b) (h' : FlagEq b c) : FlagEq a c :=
  ⟨h.1.trans h'.1, h.2.1.trans h'.2.1, h.2.2.trans h'.2.2⟩

/-- the record read (size probe, seek, read) sees only the bytes, the kind and the failbit -/
theorem hdrRead_flagEq (tr : List Trans) (s s' : IStream) (h : FlagEq s s') (off : Int) (n : Nat) :
    (hdrRead_ls tr s off n).2 = (hdrRead_ls tr s' off n).2 ∧
    (hdrRead_ls tr s off n).1.gcount = (hdrRead_ls tr s' off n).1.gcount ∧
    FlagEq (hdrRead_ls tr s off n).1 (hdrRead_ls tr s' off n).1 := by
  obtain ⟨hd, hk, hf⟩ := h
  cases s with
  | mk d p e f g k =>
  cases s' with
  | mk d' p' e' f' g' k' =>
    simp only at hd hk hf
    subst hd; subst hk; subst hf
    unfold hdrRead_ls FlagEq
    simp only [streamSizeOf_val_ls]
    cases f
    · simp [IStream.good, IStream.seekg, IStream.read]
      repeat' split
      all_goals simp_all
    · simp [IStream.good, IStream.seekg, IStream.read]

/-- a record read that leaves the stream unfailed was made on an unfailed stream, so the size
    probe saw the real length -/
theorem hdrRead_ss (tr : List Trans) (s : IStream) (off : Int) (n : Nat) (h : (hdrRead_ls tr s off n).1.fail = false) :
    (hdrRead_ls tr s off n).2.2 = BitVec.ofNat 64 s.data.length := by
  cases s with
  | mk d p e f g k =>
    unfold hdrRead_ls at h ⊢
    simp only [streamSizeOf_val_ls] at h ⊢
    cases f
    · simp
    · simp [IStream.good, IStream.seekg, IStream.read] at h

theorem isolatedRead_fail_of_fail (s : IStream) (off n : BitVec 64) (h : s.fail = true) :
    (isolatedRead s off n).1.fail = true := by
  rw [(isolatedRead_flags s off n).2, h]; simp

/-- with the real length as `stream_size`, `load_data` reads only ranges inside the stream (the
    range starts at the *translated* offset: a position in the stream) -/
theorem secOutcome_reads_inrange (c : Cls) (tr : List Trans) (st : IStream) (stype : BitVec 32) (size offset0 : BitVec 64)
    (len : Nat) (nd : Bool) (hl : len < 18446744073709551616)
    (h : (secOutcome c tr st stype size offset0 (BitVec.ofNat 64 len) nd).reads = true) :
    (secOff tr offset0).toNat + size.toNat ≤ len := by
  unfold secOutcome at h
  generalize secOff tr offset0 = offset at h ⊢
  have ho := offset.isLt; have hs := size.isLt
  by_cases g1 : BitVec.ult (BitVec.ofNat 64 len) offset = true
  · cases c <;> simp [sec32_load_data_off_gt, sec64_load_data_off_gt, g1, SecOutcome.reads] at h
  · by_cases g2 : (BitVec.ult (BitVec.ofNat 64 len) size || BitVec.ult (BitVec.ofNat 64 len - offset) size) = true
    · cases c <;> simp [sec32_load_data_off_gt, sec64_load_data_off_gt, sec32_load_data_size_gt,
        sec64_load_data_size_gt, g1, g2, SecOutcome.reads] at h
    · simp only [BitVec.ult, BitVec.toNat_sub, BitVec.toNat_ofNat, Nat.reducePow, Bool.or_eq_true,
        decide_eq_true_eq, not_or, Nat.not_lt] at g1 g2
      omega

theorem secGetData_fail_preserved (c : Cls) (tr : List Trans) (ls : LoadSt) (b : SecBuf)
    (h63 : ls.st.data.length < 9223372036854775808)
    (hss : ls.st.fail = false → b.streamSize = BitVec.ofNat 64 ls.st.data.length) :
    (secGetData c tr ls b).1.st.fail = ls.st.fail := by
  rw [secGetData_st]
  split
  · rename_i hr
    simp only [Bool.and_eq_true] at hr
    cases hf : ls.st.fail
    · rw [hss hf] at hr
      have := secOutcome_reads_inrange c tr ls.st b.stype b.size b.offset _ _ (by omega) hr.2
      rw [isolatedRead_ok ls.st (secOff tr b.offset) b.size this h63]
      exact hf
    · exact isolatedRead_fail_of_fail _ _ _ hf
  · rfl

theorem fileDataOf_indep (c : Cls) (tr : List Trans) (s s' : IStream) (hd : s.data = s'.data)
    (hk : s.kind = s'.kind) (b : SecBuf) : fileDataOf c tr s b = fileDataOf c tr s' b := by
  unfold fileDataOf
  simp only [secLoadData_snd]
  rw [secOutcome_indep c tr s s' hd hk]

/-- the section object `section_impl::load` produces depends on the stream only through its bytes,
    kind and failbit — in either mode -/
theorem secLoad_snd_flagEq (c : Cls) (enc : Enc) (tr : List Trans) (ls ls' : LoadSt)
    (h : FlagEq ls.st ls'.st) (off : Int) (isLazy : Bool) (idx : Nat) :
    (secLoad c enc tr ls off isLazy idx).2 = (secLoad c enc tr ls' off isLazy idx).2 := by
  obtain ⟨h1, h2, h3⟩ := hdrRead_flagEq tr ls.st ls'.st h off (shdrSize c)
  rw [secLoad_eq_ls, secLoad_eq_ls]
  simp only []
  rw [h2]
  have e1 : (hdrRead_ls tr ls.st off (shdrSize c)).2.1 = (hdrRead_ls tr ls'.st off (shdrSize c)).2.1 := by rw [h1]
  have e2 : (hdrRead_ls tr ls.st off (shdrSize c)).2.2 = (hdrRead_ls tr ls'.st off (shdrSize c)).2.2 := by rw [h1]
  rw [e1, e2]
  split
  · rfl
  · rw [fileDataOf_indep c tr _ _ h3.1 h3.2.1]
    cases isLazy
    · simp only [Bool.false_eq_true, if_false]
      rw [secGetData_snd, secGetData_snd]
      simp only []
      rw [secOutcome_indep c tr _ _ h3.1 h3.2.1]
    · rfl

theorem secLoad_st_flagEq (c : Cls) (enc : Enc) (tr : List Trans) (lsL lsE : LoadSt) (h : FlagEq lsL.st lsE.st)
    (h63 : lsE.st.data.length < 9223372036854775808) (off : Int) (idx : Nat) :
    FlagEq (secLoad c enc tr lsL off true idx).1.st (secLoad c enc tr lsE off false idx).1.st := by
  obtain ⟨h1, h2, h3⟩ := hdrRead_flagEq tr lsL.st lsE.st h off (shdrSize c)
  rw [secLoad_eq_ls, secLoad_eq_ls]
  simp only []
  rw [h2]
  split
  · exact h3
  · simp only [if_true, Bool.false_eq_true, if_false]
    refine ⟨by simp [h.1], by simp [h.2.1], ?_⟩
    rw [secGetData_fail_preserved c tr _ _ (by simpa using h63)
      (by intro hf; simp only [decodeShdr_streamSize_ls, secInit]; simpa using hdrRead_ss tr lsE.st off (shdrSize c) hf)]
    exact h3.2.2

/-! #### pairs of a lazily and an eagerly loaded section -/

def Over (D : Bytes) (K : StreamKind) (ls : LoadSt) : Prop := ls.st.data = D ∧ ls.st.kind = K

/-- a settled section: requesting its data changes nothing observable and is idempotent -/
def Stable (c : Cls) (tr : List Trans) (D : Bytes) (K : StreamKind) (be : SecBuf) : Prop :=
  ∀ ls, Over D K ls → secObs (secGetData c tr ls be).2 = secObs be ∧
    (!(secGetData c tr ls be).2.isLoaded && (secGetData c tr ls be).2.canLoad) = false

/-- `bl` is some state of a lazily loaded section whose eventual data is what `be` already shows -/
def SecPair (c : Cls) (tr : List Trans) (D : Bytes) (K : StreamKind) (bl be : SecBuf) : Prop :=
  ∃ b0, Fresh b0 ∧ SecInv b0 (outcomeOf c tr D K b0) bl ∧
    secObs (secGetApply b0 (outcomeOf c tr D K b0)) = secObs be ∧ Stable c tr D K be

theorem getApply_settled (b : SecBuf) (o : SecOutcome) :
    (!(secGetApply b o).isLoaded && (secGetApply b o).canLoad) = false := by
  rcases o with _ | _ | d | _ | (_ | _) <;> simp [secGetApply, SecOutcome.apply]

theorem stable_of_settled (c : Cls) (tr : List Trans) (D : Bytes) (K : StreamKind) (b : SecBuf)
    (h : (!b.isLoaded && b.canLoad) = false) : Stable c tr D K b := by
  intro ls _
  have : secGetData c tr ls b = (ls, b) := by rw [secGetData_eq_ls, h]; simp
  rw [this]; exact ⟨rfl, h⟩

/-- the conclusion one wants from a pair: any interleaving on the lazy side, then a request,
    shows what a request on the eager side shows -/
theorem SecPair.obs {c : Cls} {tr : List Trans} {D : Bytes} {K : StreamKind} {bl be : SecBuf} (h : SecPair c tr D K bl be)
    (ops : List DataOp) (ls1 ls2 : LoadSt) (h1 : Over D K ls1) (h2 : Over D K ls2) :
    secObs (secGetData c tr (runSecOps c tr ls1 bl ops).1 (runSecOps c tr ls1 bl ops).2).2 =
      secObs (secGetData c tr ls2 be).2 := by
  obtain ⟨b0, hf, hinv, hobs, hst⟩ := h
  obtain ⟨g1, g2, g3⟩ := runSecOps_inv c tr D K b0 hf ops ls1 bl h1.1 h1.2 hinv
  rw [← g1, ← g2] at g3
  rw [request_inv c tr _ b0 _ hf g3, g1, g2, hobs, (hst ls2 h2).1]

theorem SecPair.get {c : Cls} {tr : List Trans} {D : Bytes} {K : StreamKind} {bl be : SecBuf} (h : SecPair c tr D K bl be)
    (ls1 ls2 : LoadSt) (h1 : Over D K ls1) (h2 : Over D K ls2) :
    SecPair c tr D K (secGetData c tr ls1 bl).2 (secGetData c tr ls2 be).2 ∧
    secObs (secGetData c tr ls1 bl).2 = secObs (secGetData c tr ls2 be).2 := by
  obtain ⟨b0, hf, hinv, hobs, hst⟩ := h
  have hi : SecInv b0 (outcomeOf c tr ls1.st.data ls1.st.kind b0) bl := by rw [h1.1, h1.2]; exact hinv
  have hr := request_inv c tr ls1 b0 bl hf hi
  rw [h1.1, h1.2] at hr
  refine ⟨⟨b0, hf, Or.inl hr, by rw [hobs, (hst ls2 h2).1], stable_of_settled c tr D K _ (hst ls2 h2).2⟩, ?_⟩
  rw [hr, hobs, (hst ls2 h2).1]

theorem eager_stable (c : Cls) (enc : Enc) (tr : List Trans) (D : Bytes) (K : StreamKind) (ls : LoadSt) (off : Int) (idx : Nat) :
    Stable c tr D K (secLoad c enc tr ls off false idx).2 := by
  rw [secLoad_eq_ls]
  simp only []
  split
  · intro ls' _
    rw [secGetData_snd]
    simp only [secInit, Bool.not_false, Bool.and_self, if_true, Option.isNone_none]
    have key : ∀ ss, secOutcome c tr ls'.st 0#32 0#64 0#64 ss true = .refuse ∨
        secOutcome c tr ls'.st 0#32 0#64 0#64 ss true = .keep true :=
      fun ss => secOutcome_nobits c tr ls'.st _ _ _ ss (by decide)
    rcases key (hdrRead_ls tr ls.st off (shdrSize c)).2.2 with h | h <;>
      simp [h, secGetApply, SecOutcome.apply, secObs]
  · simp only [Bool.false_eq_true, if_false]
    apply stable_of_settled
    rw [secGetData_snd]
    simp only [decodeShdr_isLoaded_ls, decodeShdr_canLoad_ls, secInit, Bool.not_false, Bool.and_self, if_true]
    exact getApply_settled _ _

theorem secPair_of_load (c : Cls) (enc : Enc) (tr : List Trans) (D : Bytes) (K : StreamKind) (lsL lsE : LoadSt)
    (h : FlagEq lsL.st lsE.st) (hE : Over D K lsE) (off : Int) (idx : Nat) :
    SecPair c tr D K (secLoad c enc tr lsL off true idx).2 (secLoad c enc tr lsE off false idx).2 := by
  rw [secLoad_snd_flagEq c enc tr lsL lsE h off true idx]
  have hf := secLoad_lazy_fresh c enc tr lsE off idx
  have h0 : SecInv (secLoad c enc tr lsE off true idx).2
      (outcomeOf c tr lsE.st.data lsE.st.kind (secLoad c enc tr lsE off true idx).2)
      (secLoad c enc tr lsE off true idx).2 := Or.inr ⟨_, rfl, Or.inl rfl⟩
  have hr := request_inv c tr lsE _ _ hf h0
  have he := secGetData_lazy_eq_eager c enc tr lsE lsE off idx rfl rfl
  rw [hr, hE.1, hE.2] at he
  rw [hE.1, hE.2] at h0
  exact ⟨_, hf, h0, he, eager_stable c enc tr D K lsE off idx⟩

theorem getApply_name (b : SecBuf) (o : SecOutcome) (s : Bytes) :
    secGetApply { b with name := s } o = { secGetApply b o with name := s } := by
  rcases o with _ | _ | d | _ | (_ | _) <;> simp [secGetApply, SecOutcome.apply]

theorem secGetData_name (c : Cls) (tr : List Trans) (ls : LoadSt) (b : SecBuf) (s : Bytes) :
    (secGetData c tr ls { b with name := s }).2 = { (secGetData c tr ls b).2 with name := s } := by
  rw [secGetData_snd, secGetData_snd]
  simp only []
  split
  · exact getApply_name _ _ _
  · rfl

theorem secObs_name (b : SecBuf) (s : Bytes) : secObs { b with name := s } = { secObs b with name := s } := rfl

/-- setting the same name on both sides keeps a pair a pair -/
theorem SecPair.name {c : Cls} {tr : List Trans} {D : Bytes} {K : StreamKind} {bl be : SecBuf} (h : SecPair c tr D K bl be)
    (s : Bytes) : SecPair c tr D K { bl with name := s } { be with name := s } := by
  obtain ⟨b0, hf, hinv, hobs, hst⟩ := h
  have ho : outcomeOf c tr D K { b0 with name := s } = outcomeOf c tr D K b0 := rfl
  have hga := getApply_name b0 (outcomeOf c tr D K b0) s
  refine ⟨{ b0 with name := s }, hf, ?_, ?_, ?_⟩
  · rw [ho]
    rcases hinv with h | ⟨ds, h, hds⟩
    · left; rw [h]; exact hga.symm
    · right
      refine ⟨ds, by rw [h], ?_⟩
      rcases hds with h' | ⟨h1, h2⟩
      · left; exact h'
      · right
        refine ⟨?_, by rw [hga]; exact h2⟩
        generalize outcomeOf c tr D K b0 = o at h1
        rcases o with _ | _ | d | _ | (_ | _) <;> simp_all [SecOutcome.apply]
  · rw [ho, hga]
    show ({ secObs (secGetApply b0 (outcomeOf c tr D K b0)) with name := s } : SecObs) = { secObs be with name := s }
    rw [hobs]
  · intro ls hls
    rw [secGetData_name]
    refine ⟨?_, (hst ls hls).2⟩
    show ({ secObs (secGetData c tr ls be).2 with name := s } : SecObs) = { secObs be with name := s }
    rw [(hst ls hls).1]

/-- header fields (everything but data / data size) agree in a pair -/
def hdrFields (b : SecBuf) :=
  (b.index, b.name, b.nameOff, b.stype, b.flags, b.addr, b.offset, b.size, b.link, b.info, b.addrAlign, b.entSize)

theorem getApply_hdrFields (b : SecBuf) (o : SecOutcome) : hdrFields (secGetApply b o) = hdrFields b := by
  rcases o with _ | _ | d | _ | (_ | _) <;> simp [secGetApply, SecOutcome.apply, hdrFields]

theorem SecPair.fields {c : Cls} {tr : List Trans} {D : Bytes} {K : StreamKind} {bl be : SecBuf} (h : SecPair c tr D K bl be) :
    hdrFields bl = hdrFields be := by
  obtain ⟨b0, hf, hinv, hobs, hst⟩ := h
  have h1 : hdrFields bl = hdrFields b0 := by
    rcases hinv with h | ⟨ds, h, _⟩
    · rw [h, getApply_hdrFields]
    · rw [h]; rfl
  have h2 : hdrFields (secGetApply b0 (outcomeOf c tr D K b0)) = hdrFields be := by
    simp only [secObs, SecObs.mk.injEq] at hobs
    simp only [hdrFields, Prod.mk.injEq]
    exact ⟨hobs.1, hobs.2.1, hobs.2.2.1, hobs.2.2.2.1, hobs.2.2.2.2.1, hobs.2.2.2.2.2.1, hobs.2.2.2.2.2.2.1,
      hobs.2.2.2.2.2.2.2.1, hobs.2.2.2.2.2.2.2.2.1, hobs.2.2.2.2.2.2.2.2.2.1, hobs.2.2.2.2.2.2.2.2.2.2.1,
      hobs.2.2.2.2.2.2.2.2.2.2.2.1⟩
  rw [h1, ← getApply_hdrFields b0 (outcomeOf c tr D K b0), h2]

theorem getString_obs (b b' : SecBuf) (h : secObs b = secObs b') (x : BitVec 32) : getString b x = getString b' x := by
  simp only [secObs, SecObs.mk.injEq] at h
  rw [LoadTie.getString_hand, LoadTie.getString_hand]
  rw [h.2.2.2.2.2.2.2.2.2.2.2.2.1, h.2.2.2.2.2.2.2.1]

/-! #### pairwise-related lists -/

inductive Forall2 {α β} (R : α → β → Prop) : List α → List β → Prop
  | nil : Forall2 R [] []
  | cons {a b l m} : R a b → Forall2 R l m → Forall2 R (a :: l) (b :: m)

theorem forall2_append {α β} {R : α → β → Prop} {l1 l2 : List α} {m1 m2 : List β}
    (h1 : Forall2 R l1 m1) (h2 : Forall2 R l2 m2) : Forall2 R (l1 ++ l2) (m1 ++ m2) := by
  induction h1 with
  | nil => exact h2
  | cons h _ ih => exact Forall2.cons h ih

theorem forall2_reverse {α β} {R : α → β → Prop} {l : List α} {m : List β}
    (h : Forall2 R l m) : Forall2 R l.reverse m.reverse := by
  induction h with
  | nil => exact Forall2.nil
  | cons h _ ih =>
    simp only [List.reverse_cons]
    exact forall2_append ih (Forall2.cons h Forall2.nil)

theorem forall2_length {α β} {R : α → β → Prop} {l : List α} {m : List β}
    (h : Forall2 R l m) : l.length = m.length := by
  induction h with
  | nil => rfl
  | cons _ _ ih => simp [ih]

theorem forall2_get {α β} {R : α → β → Prop} {l : List α} {m : List β}
    (h : Forall2 R l m) : ∀ i (h1 : i < l.length) (h2 : i < m.length), R l[i] m[i] := by
  induction h with
  | nil => intro i h1; exact absurd h1 (by simp)
  | cons h _ ih =>
    intro i h1 h2
    cases i with
    | zero => exact h
    | succ i => exact ih i (by simpa using h1) (by simpa using h2)

theorem forall2_set {α β} {R : α → β → Prop} {l : List α} {m : List β}
    (h : Forall2 R l m) (i : Nat) (x : α) (y : β) (hxy : R x y) : Forall2 R (l.set i x) (m.set i y) := by
  induction h generalizing i with
  | nil => exact Forall2.nil
  | cons h ht ih =>
    cases i with
    | zero => exact Forall2.cons hxy ht
    | succ i => exact Forall2.cons h (ih i)

theorem forall2_of_get {α β} {R : α → β → Prop} : ∀ (l : List α) (m : List β), l.length = m.length →
    (∀ i (h1 : i < l.length) (h2 : i < m.length), R l[i] m[i]) → Forall2 R l m
  | [], [], _, _ => Forall2.nil
  | [], _ :: _, h, _ => by simp at h
  | _ :: _, [], h, _ => by simp at h
  | a :: l, b :: m, hl, h =>
    Forall2.cons (h 0 (by simp) (by simp))
      (forall2_of_get l m (by simpa using hl)
        (fun i h1 h2 => h (i + 1) (by simpa using h1) (by simpa using h2)))

/-! #### the section loop, lazy run against eager run -/

theorem hdrRead_fail_mono (tr : List Trans) (s : IStream) (off : Int) (n : Nat) (h : s.fail = true) :
    (hdrRead_ls tr s off n).1.fail = true := by
  cases s with
  | mk d p e f g k =>
    simp only at h; subst h
    unfold hdrRead_ls
    simp [streamSizeOf_val_ls, IStream.good, IStream.seekg, IStream.read]

theorem secGetData_fail_mono (c : Cls) (tr : List Trans) (ls : LoadSt) (b : SecBuf) (h : ls.st.fail = true) :
    (secGetData c tr ls b).1.st.fail = true := by
  rw [secGetData_st]; split
  · exact isolatedRead_fail_of_fail _ _ _ h
  · exact h

theorem secLoad_fail_mono (c : Cls) (enc : Enc) (tr : List Trans) (ls : LoadSt) (off : Int) (isLazy : Bool)
    (idx : Nat) (h : ls.st.fail = true) : (secLoad c enc tr ls off isLazy idx).1.st.fail = true := by
  have hh := hdrRead_fail_mono tr ls.st off (shdrSize c) h
  rw [secLoad_eq_ls]; simp only []
  split
  · exact hh
  · cases isLazy
    · simp only [Bool.false_eq_true, if_false]; exact secGetData_fail_mono _ _ _ _ hh
    · exact hh

theorem secLoad_over (c : Cls) (enc : Enc) (tr : List Trans) (ls : LoadSt) (off : Int) (isLazy : Bool) (idx : Nat) :
    (secLoad c enc tr ls off isLazy idx).1.st.data = ls.st.data ∧
    (secLoad c enc tr ls off isLazy idx).1.st.kind = ls.st.kind := by
  rw [secLoad_eq_ls]; simp only []
  split
  · simp
  · cases isLazy <;> simp

/-- `stream_size` recorded in a section is the real length unless the stream is (and stays) failed -/
def SsOk (len : Nat) (ls : LoadSt) (b : SecBuf) : Prop := ls.st.fail = false → b.streamSize = BitVec.ofNat 64 len

theorem secLoad_ssOk (c : Cls) (enc : Enc) (tr : List Trans) (ls : LoadSt) (off : Int) (idx : Nat) :
    SsOk ls.st.data.length (secLoad c enc tr ls off true idx).1 (secLoad c enc tr ls off true idx).2 := by
  rw [secLoad_eq_ls]; simp only [if_true]
  intro hf
  split at hf <;> split
  · simp only [secInit]; exact hdrRead_ss tr ls.st off (shdrSize c) hf
  · rename_i a b; exact absurd a b
  · rename_i a b; exact absurd b a
  · simp only [decodeShdr_streamSize_ls, secInit]; exact hdrRead_ss tr ls.st off (shdrSize c) hf

theorem loadSectionsLoop_sim (c : Cls) (enc : Enc) (tr : List Trans) (D : Bytes) (K : StreamKind)
    (h63 : D.length < 9223372036854775808) (shoff : Int) (entsize : Nat) :
    ∀ (n i : Nat) (lsL lsE : LoadSt) (accL accE : List SecBuf),
      FlagEq lsL.st lsE.st → Over D K lsE →
      Forall2 (SecPair c tr D K) accL accE → (∀ b, b ∈ accL → SsOk D.length lsL b) →
      Forall2 (SecPair c tr D K) (loadSectionsLoop c enc tr true shoff entsize n i lsL accL).2
        (loadSectionsLoop c enc tr false shoff entsize n i lsE accE).2 ∧
      FlagEq (loadSectionsLoop c enc tr true shoff entsize n i lsL accL).1.st
        (loadSectionsLoop c enc tr false shoff entsize n i lsE accE).1.st ∧
      Over D K (loadSectionsLoop c enc tr false shoff entsize n i lsE accE).1 ∧
      (∀ b, b ∈ (loadSectionsLoop c enc tr true shoff entsize n i lsL accL).2 →
        SsOk D.length (loadSectionsLoop c enc tr true shoff entsize n i lsL accL).1 b) := by
  intro n
  induction n with
  | zero =>
    intro i lsL lsE accL accE hF hO hA hS
    simp only [loadSectionsLoop]
    exact ⟨forall2_reverse hA, hF, hO, fun b hb => hS b (by simpa using hb)⟩
  | succ n ih =>
    intro i lsL lsE accL accE hF hO hA hS
    simp only [loadSectionsLoop]
    have hp := secPair_of_load c enc tr D K lsL lsE hF hO (shoff + Int.ofNat i * Int.ofNat entsize) i
    have hf' := secLoad_st_flagEq c enc tr lsL lsE hF (by rw [hO.1]; exact h63) (shoff + Int.ofNat i * Int.ofNat entsize) i
    have ho' := secLoad_over c enc tr lsE (shoff + Int.ofNat i * Int.ofNat entsize) false i
    have hdL : lsL.st.data = D := by rw [hF.1, hO.1]
    apply ih (i + 1) _ _ _ _ hf' ⟨by rw [ho'.1, hO.1], by rw [ho'.2, hO.2]⟩ (Forall2.cons hp hA)
    intro b hb
    simp only [List.mem_cons] at hb
    rcases hb with hb | hb
    · rw [hb]
      have := secLoad_ssOk c enc tr lsL (shoff + Int.ofNat i * Int.ofNat entsize) i
      rw [hdL] at this; exact this
    · intro hf
      apply hS b hb
      cases hq : lsL.st.fail
      · rfl
      · rw [secLoad_fail_mono c enc tr lsL _ true i hq] at hf; exact absurd hf (by simp)

/-! #### the names step -/

theorem getApply_streamSize (b : SecBuf) (o : SecOutcome) : (secGetApply b o).streamSize = b.streamSize := by
  rcases o with _ | _ | d | _ | (_ | _) <;> simp [secGetApply, SecOutcome.apply]

theorem SecPair.streamSize {c : Cls} {tr : List Trans} {D : Bytes} {K : StreamKind} {bl be : SecBuf} (h : SecPair c tr D K bl be) :
    bl.streamSize = be.streamSize := by
  obtain ⟨b0, hf, hinv, hobs, hst⟩ := h
  have h1 : bl.streamSize = b0.streamSize := by
    rcases hinv with h | ⟨ds, h, _⟩
    · rw [h, getApply_streamSize]
    · rw [h]
  have h2 : (secGetApply b0 (outcomeOf c tr D K b0)).streamSize = be.streamSize := by
    simp only [secObs, SecObs.mk.injEq] at hobs
    exact hobs.2.2.2.2.2.2.2.2.2.2.2.2.2.2
  rw [h1, ← getApply_streamSize b0 (outcomeOf c tr D K b0), h2]

theorem resolveNames_sim (c : Cls) (tr : List Trans) (D : Bytes) (K : StreamKind) (sL sE : SecBuf)
    (hs : ∀ x, getString sL x = getString sE x) :
    ∀ (l m : List SecBuf), Forall2 (SecPair c tr D K) l m → ∀ r, resolveNames sE m = .ok r →
      ∃ r', resolveNames sL l = .ok r' ∧ Forall2 (SecPair c tr D K) r' r := by
  intro l m h
  induction h with
  | nil => intro r hr; simp only [resolveNames] at hr; exact ⟨[], rfl, by cases hr; exact Forall2.nil⟩
  | @cons a b l m hab _ ih =>
    intro r hr
    have hn : a.nameOff = b.nameOff := by
      have := hab.fields
      simp only [hdrFields, Prod.mk.injEq] at this
      exact this.2.2.1
    have hga : getString sL a.nameOff = getString sE b.nameOff := by rw [hs, hn]
    simp only [resolveNames, bind, Except.bind] at hr ⊢
    rw [hga]
    cases hg : getString sE b.nameOff with
    | error f => rw [hg] at hr; exact absurd hr (by simp)
    | ok x =>
      rw [hg] at hr
      simp only at hr ⊢
      cases hrest : resolveNames sE m with
      | error f => rw [hrest] at hr; exact absurd hr (by simp)
      | ok rest =>
        rw [hrest] at hr
        obtain ⟨rest', h1, h2⟩ := ih rest hrest
        rw [h1]
        simp only [pure, Except.pure, Except.ok.injEq] at hr ⊢
        refine ⟨_, rfl, ?_⟩
        rw [← hr]
        apply Forall2.cons _ h2
        cases x with
        | none => exact hab
        | some s => exact hab.name s

theorem loadNames_sim (c : Cls) (enc : Enc) (tr : List Trans) (hdr : Bytes) (D : Bytes) (K : StreamKind)
    (h63 : D.length < 9223372036854775808) (lsL lsE : LoadSt) (secsL secsE : List SecBuf)
    (hF : FlagEq lsL.st lsE.st) (hO : Over D K lsE) (hP : Forall2 (SecPair c tr D K) secsL secsE)
    (hS : ∀ b, b ∈ secsL → SsOk D.length lsL b) :
    ∀ rE, loadNames c enc tr hdr lsE secsE = .ok rE →
      ∃ rL, loadNames c enc tr hdr lsL secsL = .ok rL ∧ Forall2 (SecPair c tr D K) rL.2 rE.2 ∧
        FlagEq rL.1.st rE.1.st ∧ Over D K rE.1 := by
  intro rE hE
  have hOL : Over D K lsL := ⟨by rw [hF.1, hO.1], by rw [hF.2.1, hO.2]⟩
  unfold loadNames at hE ⊢
  split at hE
  · rename_i hb; simp only [hb, if_true]
    cases hE; exact ⟨_, rfl, hP, hF, hO⟩
  · rename_i hb; simp only [hb, Bool.false_eq_true, if_false]
    split at hE
    · rename_i hu; simp only [hu, if_true]
      cases hE; exact ⟨_, rfl, hP, hF, hO⟩
    · rename_i hu; simp only [hu, Bool.false_eq_true, if_false]
      have hlen := forall2_length hP
      by_cases hlt : (Hdr.e_shstrndx c enc hdr).toNat < secsE.length
      · have hltL : (Hdr.e_shstrndx c enc hdr).toNat < secsL.length := by rw [hlen]; exact hlt
        rw [List.getElem?_eq_getElem hlt] at hE
        rw [List.getElem?_eq_getElem hltL]
        simp only at hE ⊢
        have hpair := forall2_get hP _ hltL hlt
        obtain ⟨hp', hobs⟩ := hpair.get lsL lsE hOL hO
        have hs := fun x => getString_obs _ _ hobs x
        have hset := forall2_set hP (Hdr.e_shstrndx c enc hdr).toNat _ _ hp'
        simp only [bind, Except.bind] at hE ⊢
        cases hr : resolveNames (secGetData c tr lsE secsE[(Hdr.e_shstrndx c enc hdr).toNat]).2
            (secsE.set (Hdr.e_shstrndx c enc hdr).toNat
              (secGetData c tr lsE secsE[(Hdr.e_shstrndx c enc hdr).toNat]).2) with
        | error f => rw [hr] at hE; exact absurd hE (by simp)
        | ok r =>
          rw [hr] at hE
          obtain ⟨r', h1, h2⟩ := resolveNames_sim c tr D K _ _ hs _ _ hset r hr
          rw [h1]
          simp only [pure, Except.pure, Except.ok.injEq] at hE ⊢
          refine ⟨_, rfl, ?_⟩
          rw [← hE]
          refine ⟨h2, ⟨by simp [hF.1], by simp [hF.2.1], ?_⟩, ⟨by simp [hO.1], by simp [hO.2]⟩⟩
          have hmem : secsL[(Hdr.e_shstrndx c enc hdr).toNat] ∈ secsL := List.getElem_mem hltL
          have hssL := hS _ hmem
          rw [secGetData_fail_preserved c tr lsL _ (by rw [hOL.1]; exact h63) (by rw [hOL.1]; exact hssL)]
          rw [secGetData_fail_preserved c tr lsE _ (by rw [hO.1]; exact h63)
            (by rw [hO.1, ← hpair.streamSize, ← hF.2.2]; exact hssL)]
          exact hF.2.2
      · have hnE : secsE[(Hdr.e_shstrndx c enc hdr).toNat]? = none := List.getElem?_eq_none (by omega)
        have hnL : secsL[(Hdr.e_shstrndx c enc hdr).toNat]? = none := List.getElem?_eq_none (by omega)
        rw [hnE] at hE; rw [hnL]
        cases hE; exact ⟨_, rfl, hP, hF, hO⟩

/-! #### segments, lazy run against eager run -/

theorem segLoad_snd_flagEq (c : Cls) (enc : Enc) (tr : List Trans) (ls ls' : LoadSt)
    (h : FlagEq ls.st ls'.st) (off : Int) (isLazy : Bool) :
    (segLoad c enc tr ls off isLazy).2 = (segLoad c enc tr ls' off isLazy).2 := by
  obtain ⟨h1, h2, h3⟩ := hdrRead_flagEq tr ls.st ls'.st h off (phdrSize c)
  rw [segLoad_eq_ls, segLoad_eq_ls]
  simp only []
  have e1 : (hdrRead_ls tr ls.st off (phdrSize c)).2.1 = (hdrRead_ls tr ls'.st off (phdrSize c)).2.1 := by rw [h1]
  have e2 : (hdrRead_ls tr ls.st off (phdrSize c)).2.2 = (hdrRead_ls tr ls'.st off (phdrSize c)).2.2 := by rw [h1]
  rw [e1, e2]
  cases isLazy
  · simp only [Bool.false_eq_true, if_false]
    rw [segLoadData_snd, segLoadData_snd]
    simp only []
    rw [segOutcome_indep c tr _ _ h3.1 h3.2.1]
  · rfl

theorem seg_read_fail (ls : LoadSt) (g : Seg) (off : BitVec 64) (h63 : ls.st.data.length < 9223372036854775808)
    (hss : ls.st.fail = false → g.streamSize = BitVec.ofNat 64 ls.st.data.length)
    (g1 : ¬ BitVec.ult g.streamSize off = true)
    (g2 : ¬ (BitVec.ult g.streamSize g.filesz || BitVec.ult (g.streamSize - off) g.filesz) = true) :
    (mergeFlags_ls ls.st (segReadSt ls.st off g.filesz).1).fail = ls.st.fail := by
  have hm : ∀ (r : IStream), (mergeFlags_ls ls.st r).fail = (r.fail || ls.st.fail) := fun r => rfl
  cases hf : ls.st.fail
  · have hs := hss hf
    rw [hs] at g1 g2
    have ho := off.isLt; have hz := g.filesz.isLt
    have hin : off.toNat + g.filesz.toNat ≤ ls.st.data.length := by
      simp only [BitVec.ult, BitVec.toNat_sub, BitVec.toNat_ofNat, Nat.reducePow,
        Bool.or_eq_true, decide_eq_true_eq, not_or, Nat.not_lt] at g1 g2
      omega
    rw [segReadSt_inside ls.st off g.filesz hin h63]
    simp [mergeFlags_ls, IStream.clear, hf]
  · simp [hm, hf]

theorem segLoadData_fail_preserved (c : Cls) (tr : List Trans) (ls : LoadSt) (g : Seg)
    (h63 : ls.st.data.length < 9223372036854775808)
    (hss : ls.st.fail = false → g.streamSize = BitVec.ofNat 64 ls.st.data.length) :
    (segLoadData c tr ls g).1.st.fail = ls.st.fail := by
  rw [segLoadData_eq_ls]
  cases c <;> simp only [] <;>
   (split
    · rfl
    · split
      · rfl
      · split
        · rfl
        · split
          · rfl
          · rename_i g1 g2 g3
            split <;> exact seg_read_fail ls g (secOff tr g.offset) h63 hss g1 g2)

theorem segLoad_st_flagEq (c : Cls) (enc : Enc) (tr : List Trans) (lsL lsE : LoadSt) (h : FlagEq lsL.st lsE.st)
    (h63 : lsE.st.data.length < 9223372036854775808) (off : Int) :
    FlagEq (segLoad c enc tr lsL off true).1.st (segLoad c enc tr lsE off false).1.st := by
  obtain ⟨h1, h2, h3⟩ := hdrRead_flagEq tr lsL.st lsE.st h off (phdrSize c)
  rw [segLoad_eq_ls, segLoad_eq_ls]
  simp only [if_true, Bool.false_eq_true, if_false]
  refine ⟨by simp [h.1], by simp [h.2.1], ?_⟩
  rw [segLoadData_fail_preserved c tr _ _ (by simpa using h63)
    (by intro hf; simp only [decodePhdr_streamSize_ls, segInit_ls]; simpa using hdrRead_ss tr lsE.st off (phdrSize c) hf)]
  exact h3.2.2

def StableS (c : Cls) (tr : List Trans) (D : Bytes) (K : StreamKind) (ge : Seg) : Prop :=
  ∀ ls, Over D K ls → segObs (segGetData c tr ls ge).2 = segObs ge

def SegPair (c : Cls) (tr : List Trans) (D : Bytes) (K : StreamKind) (gl ge : Seg) : Prop :=
  ∃ g0, SegFresh g0 ∧ (gl = g0 ∨ gl = (segApply g0 (segOutcomeOf c tr D K g0)).1) ∧
    segObs (segApply g0 (segOutcomeOf c tr D K g0)).1 = segObs ge ∧ StableS c tr D K ge

theorem SegPair.obs {c : Cls} {tr : List Trans} {D : Bytes} {K : StreamKind} {gl ge : Seg} (h : SegPair c tr D K gl ge)
    (ops : List DataOp) (ls1 ls2 : LoadSt) (h1 : Over D K ls1) (h2 : Over D K ls2) :
    segObs (segGetData c tr (runSegOps c tr ls1 gl ops).1 (runSegOps c tr ls1 gl ops).2).2 =
      segObs (segGetData c tr ls2 ge).2 := by
  obtain ⟨g0, hf, hinv, hobs, hst⟩ := h
  obtain ⟨g1, g2, g3⟩ := runSegOps_inv c tr D K g0 hf ops ls1 gl h1.1 h1.2 hinv
  rw [← g1, ← g2] at g3
  rw [seg_request_inv c tr _ g0 _ hf g3, g1, g2, hobs, hst ls2 h2]

theorem segGetData_snd (c : Cls) (tr : List Trans) (ls : LoadSt) (g : Seg) :
    (segGetData c tr ls g).2 =
      if !g.isLoaded then (segApply g (segOutcome c tr ls.st g.stype g.filesz g.offset g.streamSize)).1 else g := by
  rw [segGetData_eq_ls]; split
  · rw [segLoadData_snd]
  · rfl

theorem segOutcome_over (c : Cls) (tr : List Trans) (D : Bytes) (K : StreamKind) (s : IStream) (hd : s.data = D) (hk : s.kind = K)
    (g : Seg) : segOutcome c tr s g.stype g.filesz g.offset g.streamSize = segOutcomeOf c tr D K g :=
  segOutcome_indep c tr s { data := D, kind := K } hd hk _ _ _ _

theorem stableS_apply (c : Cls) (tr : List Trans) (D : Bytes) (K : StreamKind) (g : Seg) (hl : g.isLoaded = false) :
    StableS c tr D K (segApply g (segOutcomeOf c tr D K g)).1 := by
  intro ls' hO'
  rw [segGetData_snd]
  have ho := segOutcome_over c tr D K ls'.st hO'.1 hO'.2
  cases hq : segOutcomeOf c tr D K g with
  | none =>
    simp only [segApply, hl, Bool.not_false, if_true]
    rw [ho g, hq]
  | some x =>
    cases x with
    | none =>
      simp only [segApply, hl, Bool.not_false, if_true]
      have := ho { g with data := none }
      simp only [] at this
      rw [this]
      have e : segOutcomeOf c tr D K { g with data := none } = segOutcomeOf c tr D K g := rfl
      rw [e, hq]
    | some d => simp [segApply]

theorem eager_stableS (c : Cls) (enc : Enc) (tr : List Trans) (D : Bytes) (K : StreamKind) (ls : LoadSt) (hO : Over D K ls)
    (off : Int) : StableS c tr D K (segLoad c enc tr ls off false).2.1 := by
  rw [segLoad_eq_ls]
  simp only [Bool.false_eq_true, if_false]
  rw [segLoadData_snd]
  simp only []
  rw [segOutcome_over c tr D K _ (by simp [hO.1]) (by simp [hO.2])]
  apply stableS_apply
  simp [segInit_ls]

theorem segPair_of_load (c : Cls) (enc : Enc) (tr : List Trans) (D : Bytes) (K : StreamKind) (lsL lsE : LoadSt)
    (h : FlagEq lsL.st lsE.st) (hE : Over D K lsE) (off : Int) :
    SegPair c tr D K (segLoad c enc tr lsL off true).2.1 (segLoad c enc tr lsE off false).2.1 := by
  rw [segLoad_snd_flagEq c enc tr lsL lsE h off true]
  have hf := segLoad_lazy_fresh c enc tr lsE off
  have hr := seg_request_inv c tr lsE _ _ hf (Or.inl rfl)
  have he := segGetData_lazy_eq_eager c enc tr lsE lsE off rfl rfl
  rw [hr, hE.1, hE.2] at he
  exact ⟨_, hf, Or.inl rfl, he, eager_stableS c enc tr D K lsE hE off⟩

theorem segApply_upd (g : Seg) (o : Option (Option Bytes)) (i : Nat) (m : List (BitVec 16)) :
    (segApply { g with index := i, secs := m } o).1 = { (segApply g o).1 with index := i, secs := m } := by
  rcases o with _ | _ | d <;> rfl

/-- recording index and members (the same on both sides) keeps a pair a pair -/
theorem SegPair.upd {c : Cls} {tr : List Trans} {D : Bytes} {K : StreamKind} {gl ge : Seg} (h : SegPair c tr D K gl ge)
    (i : Nat) (m : List (BitVec 16)) :
    SegPair c tr D K { gl with index := i, secs := m } { ge with index := i, secs := m } := by
  obtain ⟨g0, hf, hinv, hobs, hst⟩ := h
  have ho : ∀ g : Seg, segOutcomeOf c tr D K { g with index := i, secs := m } = segOutcomeOf c tr D K g := fun _ => rfl
  have hap := segApply_upd g0 (segOutcomeOf c tr D K g0) i m
  refine ⟨{ g0 with index := i, secs := m }, hf, ?_, ?_, ?_⟩
  · rw [ho]
    rcases hinv with h | h
    · left; rw [h]
    · right; rw [h]; exact hap.symm
  · rw [ho, hap]
    show ({ segObs (segApply g0 (segOutcomeOf c tr D K g0)).1 with index := i, secs := m } : SegObs) =
      { segObs ge with index := i, secs := m }
    rw [hobs]
  · intro ls hls
    have h1 := hst ls hls
    rw [segGetData_snd] at h1 ⊢
    simp only []
    have e : segOutcome c tr ls.st ge.stype ge.filesz ge.offset ge.streamSize = segOutcome c tr ls.st ge.stype ge.filesz ge.offset ge.streamSize := rfl
    split
    · rename_i hl
      simp only [hl, if_true] at h1
      have := segApply_upd ge (segOutcome c tr ls.st ge.stype ge.filesz ge.offset ge.streamSize) i m
      rw [this]
      show ({ segObs (segApply ge _).1 with index := i, secs := m } : SegObs) = { segObs ge with index := i, secs := m }
      rw [h1]
    · rfl

theorem memberOf_congr (g g' : Seg) (b b' : SecBuf)
    (hg : (g.stype, g.offset, g.filesz, g.vaddr, g.memsz) = (g'.stype, g'.offset, g'.filesz, g'.vaddr, g'.memsz))
    (hb : (b.flags, b.addr, b.size, b.offset) = (b'.flags, b'.addr, b'.size, b'.offset)) :
    memberOf g b = memberOf g' b' := by
  simp only [Prod.mk.injEq] at hg hb
  unfold memberOf
  rw [hg.1, hg.2.1, hg.2.2.1, hg.2.2.2.1, hg.2.2.2.2, hb.1, hb.2.1, hb.2.2.1, hb.2.2.2]

theorem segApply_hdr (g : Seg) (o : Option (Option Bytes)) :
    ((segApply g o).1.stype, (segApply g o).1.offset, (segApply g o).1.filesz, (segApply g o).1.vaddr,
      (segApply g o).1.memsz) = (g.stype, g.offset, g.filesz, g.vaddr, g.memsz) := by
  rcases o with _ | _ | d <;> rfl

theorem SegPair.hdr {c : Cls} {tr : List Trans} {D : Bytes} {K : StreamKind} {gl ge : Seg} (h : SegPair c tr D K gl ge) :
    (gl.stype, gl.offset, gl.filesz, gl.vaddr, gl.memsz) = (ge.stype, ge.offset, ge.filesz, ge.vaddr, ge.memsz) := by
  obtain ⟨g0, hf, hinv, hobs, hst⟩ := h
  have h1 : (gl.stype, gl.offset, gl.filesz, gl.vaddr, gl.memsz) = (g0.stype, g0.offset, g0.filesz, g0.vaddr, g0.memsz) := by
    rcases hinv with h | h
    · rw [h]
    · rw [h]; exact segApply_hdr _ _
  rw [h1, ← segApply_hdr g0 (segOutcomeOf c tr D K g0)]
  simp only [segObs, SegObs.mk.injEq] at hobs
  simp only [Prod.mk.injEq]
  exact ⟨hobs.2.1, hobs.2.2.2.1, hobs.2.2.2.2.2.2.1, hobs.2.2.2.2.1, hobs.2.2.2.2.2.2.2.1⟩

theorem members_sim (c : Cls) (tr : List Trans) (D : Bytes) (K : StreamKind) (gl ge : Seg)
    (hg : (gl.stype, gl.offset, gl.filesz, gl.vaddr, gl.memsz) = (ge.stype, ge.offset, ge.filesz, ge.vaddr, ge.memsz)) :
    ∀ (l m : List SecBuf), Forall2 (SecPair c tr D K) l m →
      (l.filter (memberOf gl)).map (fun b => BitVec.ofNat 16 b.index) =
      (m.filter (memberOf ge)).map (fun b => BitVec.ofNat 16 b.index) := by
  intro l m h
  induction h with
  | nil => rfl
  | @cons a b l m hab _ ih =>
    have hf := hab.fields
    simp only [hdrFields, Prod.mk.injEq] at hf
    have hm : memberOf gl a = memberOf ge b :=
      memberOf_congr gl ge a b hg (by simp only [Prod.mk.injEq]; exact ⟨hf.2.2.2.2.1, hf.2.2.2.2.2.1, hf.2.2.2.2.2.2.2.1, hf.2.2.2.2.2.2.1⟩)
    simp only [List.filter_cons, hm]
    split
    · simp only [List.map_cons, ih, hf.1]
    · exact ih

theorem segLoad_over (c : Cls) (enc : Enc) (tr : List Trans) (ls : LoadSt) (off : Int) (isLazy : Bool) :
    (segLoad c enc tr ls off isLazy).1.st.data = ls.st.data ∧
    (segLoad c enc tr ls off isLazy).1.st.kind = ls.st.kind := by
  rw [segLoad_eq_ls]; simp only []
  cases isLazy <;> simp

/-- **the lazy load of a program header answers what the eager load answers** (streams that agree in
    bytes, kind and failbit; any table; the repaired F15: `Lemmas/LoadSafety.segLoad_ok_lazy_eq_eager`) -/
theorem segLoad_ok_sim (c : Cls) (enc : Enc) (tr : List Trans) (lsL lsE : LoadSt) (h : FlagEq lsL.st lsE.st)
    (h63 : lsE.st.data.length < 9223372036854775808) (off : Int) :
    (segLoad c enc tr lsL off true).2.2 = (segLoad c enc tr lsE off false).2.2 := by
  rw [segLoad_snd_flagEq c enc tr lsL lsE h off true]
  exact segLoad_ok_lazy_eq_eager c enc tr lsE off h63

theorem loadSegmentsLoop_sim (c : Cls) (enc : Enc) (tr : List Trans) (D : Bytes) (K : StreamKind)
    (h63 : D.length < 9223372036854775808) (phoff : Int) (entsize : Nat) (secsL secsE : List SecBuf)
    (hsec : Forall2 (SecPair c tr D K) secsL secsE) :
    ∀ (n i : Nat) (lsL lsE : LoadSt) (accL accE : List Seg),
      FlagEq lsL.st lsE.st → Over D K lsE → Forall2 (SegPair c tr D K) accL accE →
      (loadSegmentsLoop c enc tr true phoff entsize secsL n i lsL accL).2.2 =
        (loadSegmentsLoop c enc tr false phoff entsize secsE n i lsE accE).2.2 ∧
      Forall2 (SegPair c tr D K) (loadSegmentsLoop c enc tr true phoff entsize secsL n i lsL accL).2.1
        (loadSegmentsLoop c enc tr false phoff entsize secsE n i lsE accE).2.1 := by
  intro n
  induction n with
  | zero =>
    intro i lsL lsE accL accE hF hO hA
    simp only [loadSegmentsLoop]
    exact ⟨trivial, forall2_reverse hA⟩
  | succ n ih =>
    intro i lsL lsE accL accE hF hO hA
    have hp := segPair_of_load c enc tr D K lsL lsE hF hO (phoff + Int.ofNat i * Int.ofNat entsize)
    have hf' := segLoad_st_flagEq c enc tr lsL lsE hF (by rw [hO.1]; exact h63) (phoff + Int.ofNat i * Int.ofNat entsize)
    have ho' := segLoad_over c enc tr lsE (phoff + Int.ofNat i * Int.ofNat entsize) false
    have hlok := segLoad_ok_sim c enc tr lsL lsE hF (by rw [hO.1]; exact h63) (phoff + Int.ofNat i * Int.ofNat entsize)
    simp only [loadSegmentsLoop]
    generalize segLoad c enc tr lsE (phoff + Int.ofNat i * Int.ofNat entsize) false = xE at *
    generalize segLoad c enc tr lsL (phoff + Int.ofNat i * Int.ofNat entsize) true = xL at *
    obtain ⟨lsE', gE, okE⟩ := xE
    obtain ⟨lsL', gL, okL⟩ := xL
    simp only at hp hf' ho' hlok ⊢
    -- both runs test the same result and the same failbit: they stop, or go on, together
    have hfl : lsL'.st.fail = lsE'.st.fail := hf'.2.2
    rw [hlok, hfl]
    by_cases hcond : (!okE || lsE'.st.fail) = true
    · simp only [hcond, if_true]
      exact ⟨trivial, forall2_reverse hA⟩
    · simp only [hcond, Bool.false_eq_true, if_false]
      have hm := members_sim c tr D K gL gE hp.hdr secsL secsE hsec
      rw [hm]
      exact ih (i + 1) lsL' lsE' _ _ hf' ⟨by rw [ho'.1, hO.1], by rw [ho'.2, hO.2]⟩
        (Forall2.cons (hp.upd i _) hA)

/-! #### assembly -/

theorem loadSections_sim (c : Cls) (enc : Enc) (tr : List Trans) (hdr : Bytes) (st : IStream)
    (h63 : st.data.length < 9223372036854775808) :
    Forall2 (SecPair c tr st.data st.kind) (loadSections c enc tr true hdr st).2 (loadSections c enc tr false hdr st).2 ∧
    FlagEq (loadSections c enc tr true hdr st).1.st (loadSections c enc tr false hdr st).1.st ∧
    Over st.data st.kind (loadSections c enc tr false hdr st).1 ∧
    (∀ b, b ∈ (loadSections c enc tr true hdr st).2 →
      SsOk st.data.length (loadSections c enc tr true hdr st).1 b) := by
  unfold loadSections
  split
  · exact ⟨Forall2.nil, FlagEq.refl _, ⟨rfl, rfl⟩, fun b hb => absurd hb (by simp)⟩
  · exact loadSectionsLoop_sim c enc tr st.data st.kind h63 _ _ _ 0 { st := st } { st := st } [] []
      (FlagEq.refl _) ⟨rfl, rfl⟩ Forall2.nil (fun b hb => absurd hb (by simp))

/-- everything after the gate: the lazy run returns what the eager run returns, with pairwise
    equivalent sections and segments (also when a program header is refused: both runs stop at the same
    one) -/
theorem loadBody_sim (o : Obj) (c : Cls) (enc : Enc) (hdr : Bytes) (st : IStream)
    (h63 : st.data.length < 9223372036854775808) (hsegs : o.segs = []) (re : LoadRes)
    (he : loadBody o c enc hdr st false = .ok re) :
    ∃ rl, loadBody o c enc hdr st true = .ok rl ∧ rl.ok = re.ok ∧
      rl.obj.cls = re.obj.cls ∧ rl.obj.enc = re.obj.enc ∧ rl.obj.hdr = re.obj.hdr ∧
      Forall2 (SecPair c o.trans st.data st.kind) rl.obj.secs re.obj.secs ∧
      Forall2 (SegPair c o.trans st.data st.kind) rl.obj.segs re.obj.segs := by
  obtain ⟨s1, s2, s3, s4⟩ := loadSections_sim c enc o.trans hdr st h63
  unfold loadBody at he ⊢
  simp only [bind, Except.bind] at he ⊢
  cases hn : loadNames c enc o.trans hdr (loadSections c enc o.trans false hdr st).1 (loadSections c enc o.trans false hdr st).2 with
  | error f => rw [hn] at he; exact absurd he (by simp)
  | ok pE =>
    rw [hn] at he
    obtain ⟨pL, n1, n2, n3, n4⟩ := loadNames_sim c enc o.trans hdr st.data st.kind h63 _ _ _ _ s2 s3 s1 s4 pE hn
    rw [n1]
    simp only [pure, Except.pure, Except.ok.injEq] at he ⊢
    refine ⟨_, rfl, ?_⟩
    subst he
    unfold loadSegs
    split
    · -- `load_segments` refuses the entry size in both modes
      refine ⟨rfl, rfl, rfl, rfl, n2, ?_⟩
      simp only [hsegs]
      exact Forall2.nil
    · obtain ⟨g1, g2⟩ := loadSegmentsLoop_sim c enc o.trans st.data st.kind h63
        (Hdr.e_phoff c enc hdr).toInt (Hdr.e_phentsize c enc hdr).toNat pL.2 pE.2 n2
        (Hdr.e_phnum c enc hdr).toNat 0 pL.1 pE.1 [] [] n3 n4 Forall2.nil
      exact ⟨g1, rfl, rfl, rfl, n2, g2⟩

theorem loadBody_cls (o : Obj) (c : Cls) (enc : Enc) (hdr : Bytes) (st : IStream) (isLazy : Bool) (r : LoadRes)
    (h : loadBody o c enc hdr st isLazy = .ok r) : r.obj.cls = o.cls := by
  unfold loadBody at h
  simp only [bind, Except.bind] at h
  split at h
  · exact absurd h (by simp)
  · simp only [pure, Except.pure, Except.ok.injEq] at h
    rw [← h]
    unfold loadSegs
    split <;> rfl

/-- **lazy = eager, every image, every translation table** (stream shorter than 2^63 bytes; `st` is the
    stream that is read — the container when a table is set, and nothing is assumed about the table) : the
    lazy `load` returns exactly what the eager `load` returns (`rl.ok = re.ok` : both succeed or both
    refuse), with the same header, and every section and segment pairwise equivalent (`SecPair` /
    `SegPair`: see `lazy_eq_eager_obs`).  No hypothesis on the eager result any more: the former
    hypothesis `re.ok = true` excluded exactly finding F15 (a program header whose file range lies
    outside the stream was refused by the eager load only), repaired by
    `fixes/22-lazy-segment-range-check.patch`. -/
theorem lazy_eq_eager (o : Obj) (st : IStream)
    (h63 : st.data.length < 9223372036854775808) (re : LoadRes)
    (he : load o st false = .ok re) :
    ∃ rl, load o st true = .ok rl ∧ rl.ok = re.ok ∧
      rl.obj.cls = re.obj.cls ∧ rl.obj.enc = re.obj.enc ∧ rl.obj.hdr = re.obj.hdr ∧
      Forall2 (SecPair re.obj.cls o.trans st.data st.kind) rl.obj.secs re.obj.secs ∧
      Forall2 (SegPair re.obj.cls o.trans st.data st.kind) rl.obj.segs re.obj.segs := by
  rw [load_eq_ls] at he ⊢
  simp only [] at he ⊢
  -- a refusal at the gate does not depend on the mode: the lazy run is the same computation
  have hfail : ∀ (o' : Obj) (s : IStream), o'.secs = [] → o'.segs = [] → loadFail o' s = .ok re →
      ∃ rl, loadFail o' s = .ok rl ∧ rl.ok = re.ok ∧
        rl.obj.cls = re.obj.cls ∧ rl.obj.enc = re.obj.enc ∧ rl.obj.hdr = re.obj.hdr ∧
        Forall2 (SecPair re.obj.cls o.trans st.data st.kind) rl.obj.secs re.obj.secs ∧
        Forall2 (SegPair re.obj.cls o.trans st.data st.kind) rl.obj.segs re.obj.segs := by
    intro o' s h1 h2 h
    refine ⟨re, h, rfl, rfl, rfl, rfl, ?_, ?_⟩
    all_goals
      simp only [loadFail, pure, Except.pure, Except.ok.injEq] at h
      rw [← h]
      simp only [h1, h2]
      exact Forall2.nil
  split at he
  · rename_i h1
    simp only [h1, if_true]
    exact hfail _ _ rfl rfl he
  · split at he
    · rename_i h1 h2
      simp only [h1, h2, Bool.false_eq_true, if_false, if_true]
      exact hfail _ _ rfl rfl he
    · rename_i h1 h2
      simp only [h1, h2, Bool.false_eq_true, if_false]
      generalize clsOfByte _ = x at he ⊢
      generalize encOfByte _ = y at he ⊢
      cases x with
      | none => simp only [] at he ⊢; exact hfail _ _ rfl rfl he
      | some c =>
        cases y with
        | none => simp only [] at he ⊢; exact hfail _ _ rfl rfl he
        | some enc =>
          simp only [] at he ⊢
          split at he
          · rename_i h3
            simp only [h3, if_true]
            exact hfail _ _ rfl rfl he
          · rename_i h3
            simp only [h3, Bool.false_eq_true, if_false]
            have hd : ((( st.seekg (trApply o.trans 0)).read 16).1.seekg (trApply o.trans 0) |>.read (ehdrSize c)).1.data = st.data := by simp
            have hk : ((( st.seekg (trApply o.trans 0)).read 16).1.seekg (trApply o.trans 0) |>.read (ehdrSize c)).1.kind = st.kind := by simp
            have hb := loadBody_sim (c := c) (enc := enc) (re := re) (he := he)
              (h63 := by rw [hd]; exact h63) (hsegs := rfl)
            rw [hd, hk] at hb
            have hcls : re.obj.cls = c := loadBody_cls _ c enc _ _ false re he
            rw [hcls]
            rw [hcls] at hb
            exact hb

/-- **C15, lazy part, in observations** : for every stream shorter than 2^63 bytes, under every address
    translation table (faithful or not; intact, truncated or corrupted container), the lazy load returns what the
    eager load returns (success or refusal — no hypothesis on the result since the F15 repair) and — for every
    section and every segment the loads produced, after
    ANY interleaving of data requests, data releases and arbitrary stream movements / error states
    on the lazily loaded object — a data request shows exactly what the eagerly loaded object shows
    (all header fields, name, data buffer, data size; members of segments). -/
theorem lazy_eq_eager_obs (o : Obj) (st : IStream)
    (h63 : st.data.length < 9223372036854775808) (re : LoadRes)
    (he : load o st false = .ok re) :
    ∃ rl, load o st true = .ok rl ∧ rl.ok = re.ok ∧ rl.obj.cls = re.obj.cls ∧ rl.obj.enc = re.obj.enc ∧
      rl.obj.hdr = re.obj.hdr ∧
      rl.obj.secs.length = re.obj.secs.length ∧ rl.obj.segs.length = re.obj.segs.length ∧
      (∀ i (h1 : i < rl.obj.secs.length) (h2 : i < re.obj.secs.length) (ops : List DataOp) (ls1 ls2 : LoadSt),
        Over st.data st.kind ls1 → Over st.data st.kind ls2 →
        secObs (secGetData re.obj.cls o.trans (runSecOps re.obj.cls o.trans ls1 rl.obj.secs[i] ops).1
                  (runSecOps re.obj.cls o.trans ls1 rl.obj.secs[i] ops).2).2 =
          secObs (secGetData re.obj.cls o.trans ls2 re.obj.secs[i]).2) ∧
      (∀ j (h1 : j < rl.obj.segs.length) (h2 : j < re.obj.segs.length) (ops : List DataOp) (ls1 ls2 : LoadSt),
        Over st.data st.kind ls1 → Over st.data st.kind ls2 →
        segObs (segGetData re.obj.cls o.trans (runSegOps re.obj.cls o.trans ls1 rl.obj.segs[j] ops).1
                  (runSegOps re.obj.cls o.trans ls1 rl.obj.segs[j] ops).2).2 =
          segObs (segGetData re.obj.cls o.trans ls2 re.obj.segs[j]).2) := by
  obtain ⟨rl, a1, a2, a3, a4, a5, a6, a7⟩ := lazy_eq_eager o st h63 re he
  refine ⟨rl, a1, a2, a3, a4, a5, forall2_length a6, forall2_length a7, ?_, ?_⟩
  · intro i h1 h2 ops ls1 ls2 o1 o2
    exact (forall2_get a6 i h1 h2).obs ops ls1 ls2 o1 o2
  · intro j h1 h2 ops ls1 ls2 o1 o2
    exact (forall2_get a7 j h1 h2).obs ops ls1 ls2 o1 o2

/-- non-vacuity beyond well-formed images: `.text` claims 0x1004 bytes in a 228-byte file — not
    well-formed, yet the eager load succeeds, so `lazy_eq_eager` applies -/
def truncImage : Bytes :=
  [127, 69, 76, 70, 1, 1, 1, 0, 0, 0, 0, 0, 0, 0, 0, 0, 2, 0, 3, 0, 1, 0, 0, 0, 0, 16, 0, 0, 52, 0, 0, 0, 108, 0, 0, 0, 0, 0, 0, 0, 52, 0, 32, 0, 1, 0, 40, 0, 3, 0, 2, 0, 1, 0, 0, 0, 84, 0, 0, 0, 0, 16, 0, 0, 0, 16, 0, 0, 4, 0, 0, 0, 4, 0, 0, 0, 5, 0, 0, 0, 4, 0, 0, 0, 1, 2, 3, 4, 0, 46, 116, 101, 120, 116, 0, 46, 115, 104, 115, 116, 114, 116, 97, 98, 0, 0, 0, 0, 0, 0, 0, 0, 0, 0, 0, 0, 0, 0, 0, 0, 0, 0, 0, 0, 0, 0, 0, 0, 0, 0, 0, 0, 0, 0, 0, 0, 0, 0, 0, 0, 0, 0, 0, 0, 0, 0, 0, 0, 1, 0, 0, 0, 1, 0, 0, 0, 6, 0, 0, 0, 0, 16, 0, 0, 84, 0, 0, 0, 4, 16, 0, 0, 0, 0, 0, 0, 0, 0, 0, 0, 4, 0, 0, 0, 0, 0, 0, 0, 7, 0, 0, 0, 3, 0, 0, 0, 0, 0, 0, 0, 0, 0, 0, 0, 88, 0, 0, 0, 17, 0, 0, 0, 0, 0, 0, 0, 0, 0, 0, 0, 1, 0, 0, 0, 0, 0, 0, 0]

example : ¬ C02.WellFormedImage truncImage ∧ loadOk (load {} { data := truncImage } false) = some true := by
  decide +kernel

/-- **the result of `load()` does not depend on the mode** : the statement that was refuted on the
    unrepaired tree (`lazy_eq_eager_needs_ok`, finding F15), now for every object, every translation
    table and every stream shorter than 2^63 bytes -/
theorem lazy_eq_eager_result (o : Obj) (st : IStream) (re : LoadRes)
    (h63 : st.data.length < 9223372036854775808) (he : load o st false = .ok re) :
    ∃ rl, load o st true = .ok rl ∧ rl.ok = re.ok := by
  obtain ⟨rl, h1, h2, -⟩ := lazy_eq_eager o st h63 re he
  exact ⟨rl, h1, h2⟩

/-- … as an equation between the two results (`loadOk`: the returned flag, `none` for a fault — and the
    loader never faults, C01) -/
theorem loadOk_lazy_eq_eager (o : Obj) (st : IStream) (h63 : st.data.length < 9223372036854775808)
    (re : LoadRes) (he : load o st false = .ok re) :
    loadOk (load o st true) = loadOk (load o st false) := by
  obtain ⟨rl, h1, h2⟩ := lazy_eq_eager_result o st re h63 he
  rw [h1, he]
  simp only [loadOk, h2]

/-- non-vacuity on a refusing input: the former F15 witness meets the hypotheses and the eager load
    refuses it -/
example : ∃ re, load {} { data := f15Image } false = .ok re ∧ re.ok = false := by
  cases h : load {} { data := f15Image } false with
  | error f =>
    have w := lazy_load_unreadable_segment_agree.1
    rw [h] at w; exact absurd w (by simp [loadOk])
  | ok re =>
    have w := lazy_load_unreadable_segment_agree.1
    rw [h] at w
    exact ⟨re, rfl, by simpa [loadOk] using w⟩

/-! ### address translation: whole load -/

/-- **the container represents the image through the table** : every contiguous range the loader
    reads on the plain image (ELF header, every section-header and program-header record, every
    file-occupying section's and every non-empty non-null segment's file range) is represented
    (`RangeRep`: sits, translated, at a position of the container holding the same bytes;
    `rangeRep_of_entry` derives this from a table entry that covers the range) -/
def Represents (cont : Bytes) (tr : List Trans) (img : Bytes) : Prop :=
  cont.length < 9223372036854775808 ∧
  RangeRep cont tr img 0 (Spec.ehdrSize (clsOf img)) ∧
  (∀ i, i < eh img "e_shnum" →
    RangeRep cont tr img (shBase img i) (Spec.shdrSize (clsOf img)) ∧
    (occupiesFile (sh img i "sh_type") = true →
      RangeRep cont tr img (sh img i "sh_offset") (sh img i "sh_size"))) ∧
  (∀ j, j < eh img "e_phnum" →
    RangeRep cont tr img (phBase img j) (Spec.phdrSize (clsOf img)) ∧
    (segHasData img j = true → RangeRep cont tr img (ph img j "p_offset") (ph img j "p_filesz")))

/-- a well-formed image represents itself through the empty table -/
theorem represents_plain (img : Bytes) (hwf : WellFormedImage img) : Represents img [] img := by
  obtain ⟨_, _, _, hehs, h63, _, _, hS, hP, _⟩ := hwf
  refine ⟨h63, rangeRep_nil img 0 _ (by omega), ?_, ?_⟩
  · intro i hi
    obtain ⟨a, b, _⟩ := hS i hi
    exact ⟨rangeRep_nil img _ _ a, fun h => rangeRep_nil img _ _ (b h)⟩
  · intro j hj
    obtain ⟨a, b, _⟩ := hP j hj
    exact ⟨rangeRep_nil img _ _ a, fun h => rangeRep_nil img _ _ (b h)⟩

/-- section `i` as seen through a loader that used table `tr` on container `cont` -/
def SectionSpecT (img : Bytes) (tr : List Trans) (cont : Bytes) (i : Nat) (b : SecBuf) : Prop :=
  b.index = i ∧
  b.nameOff.toNat = sh img i "sh_name" ∧ b.stype.toNat = sh img i "sh_type" ∧
  b.flags.toNat = sh img i "sh_flags" ∧ b.addr.toNat = sh img i "sh_addr" ∧
  b.offset.toNat = sh img i "sh_offset" ∧ b.size.toNat = sh img i "sh_size" ∧
  b.link.toNat = sh img i "sh_link" ∧ b.info.toNat = sh img i "sh_info" ∧
  b.addrAlign.toNat = sh img i "sh_addralign" ∧ b.entSize.toNat = sh img i "sh_entsize" ∧
  b.name = secName img i ∧
  ∀ ls : LoadSt, ls.st.data = cont → secView (clsOf img) tr ls b = secFileBytes img i

def SegmentSpecT (img : Bytes) (tr : List Trans) (cont : Bytes) (j : Nat) (g : Seg) : Prop :=
  g.index = j ∧
  g.stype.toNat = ph img j "p_type" ∧ g.flags.toNat = ph img j "p_flags" ∧
  g.offset.toNat = ph img j "p_offset" ∧ g.vaddr.toNat = ph img j "p_vaddr" ∧
  g.paddr.toNat = ph img j "p_paddr" ∧ g.filesz.toNat = ph img j "p_filesz" ∧
  g.memsz.toNat = ph img j "p_memsz" ∧ g.align.toNat = ph img j "p_align" ∧
  g.secs.map (·.toNat) = members img j ∧
  ∀ ls : LoadSt, ls.st.data = cont → segView (clsOf img) tr ls g = segFileBytes img j

def LoadSpecT (img : Bytes) (tr : List Trans) (cont : Bytes) (r : LoadRes) : Prop :=
  r.ok = true ∧ r.obj.cls = clsOf img ∧ r.obj.enc = encOf img ∧
  (∃ h, r.obj.hdr = some h ∧ HeaderSpec img h) ∧
  r.obj.stream.data = cont ∧ r.obj.stream.eof = false ∧ r.obj.stream.fail = false ∧
  r.obj.secs.length = eh img "e_shnum" ∧
  (∀ i (hi : i < r.obj.secs.length), SectionSpecT img tr cont i r.obj.secs[i]) ∧
  r.obj.segs.length = eh img "e_phnum" ∧
  (∀ j (hj : j < r.obj.segs.length), SegmentSpecT img tr cont j r.obj.segs[j])

/-- the plain specification is the instance `tr = []`, `cont = img` -/
theorem loadSpecT_of_plain (img : Bytes) (r : LoadRes) (h : LoadSpec img r) : LoadSpecT img [] img r := by
  obtain ⟨a1, a2, a3, a4, a5, a6, a7, a8, a9, a10, a11⟩ := h
  refine ⟨a1, a2, a3, a4, a5, a6, a7, a8, ?_, a10, ?_⟩
  · intro i hi
    obtain ⟨x0, x1, x2, x3, x4, x5, x6, x7, x8, x9, x10, x11, x12⟩ := a9 i hi
    exact ⟨x0, x1, x2, x3, x4, x5, x6, x7, x8, x9, x10, x11, x12⟩
  · intro j hj
    obtain ⟨x0, x1, x2, x3, x4, x5, x6, x7, x8, x9, x10⟩ := a11 j hj
    exact ⟨x0, x1, x2, x3, x4, x5, x6, x7, x8, x9, x10⟩

theorem SectionSpecT_of_SecStT (img : Bytes) (tr : List Trans) (cont : Bytes) (isLazy : Bool) (i : Nat)
    (res : Bool) (b : SecBuf)
    (h63c : cont.length < 9223372036854775808) (h63i : img.length < 9223372036854775808)
    (hk : shBase img i + shdrSize (clsOf img) ≤ img.length)
    (hin : SecRep cont tr img (secHdr (clsOf img) (encOf img) img (shBase img i) isLazy i))
    (hb : SecStT (clsOf img) (encOf img) tr cont.length img (shBase img i) isLazy i res (secName img i) b) :
    SectionSpecT img tr cont i b := by
  obtain ⟨f1, f2, f3, f4, f5, f6, f7, f8, f9, f10⟩ :=
    secHdr_bridge img (clsOf img) (encOf img) (shBase img i) isLazy i hk
  have hidx : (secHdr (clsOf img) (encOf img) img (shBase img i) isLazy i).index = i := by
    simp [secHdr, secInit]
  obtain ⟨fd, L, hbe, hL⟩ := id hb
  refine ⟨by rw [hbe]; exact hidx, by rw [hbe]; exact f1, by rw [hbe]; exact f2, by rw [hbe]; exact f3,
    by rw [hbe]; exact f4, by rw [hbe]; exact f5, by rw [hbe]; exact f6, by rw [hbe]; exact f7,
    by rw [hbe]; exact f8, by rw [hbe]; exact f9, by rw [hbe]; exact f10, by rw [hbe], ?_⟩
  intro ls hd
  obtain ⟨⟨fd', L', hg, _⟩, _⟩ := secGetData_SecStT _ _ tr cont img _ isLazy i res _ b ls hd h63c h63i hin hb
  unfold secView
  rw [hg]
  simp only [if_true]
  have hin' : isNullOrNobitsTy (secHdr (clsOf img) (encOf img) img (shBase img i) isLazy i).stype = false →
      (secHdr (clsOf img) (encOf img) img (shBase img i) isLazy i).offset.toNat +
      (secHdr (clsOf img) (encOf img) img (shBase img i) isLazy i).size.toNat ≤ img.length :=
    fun h => (hin h).2.2.1
  show List.take (secHdr (clsOf img) (encOf img) img (shBase img i) isLazy i).size.toNat _ = _
  rw [secData_take img _ hin', secBytes_bridge img isLazy i hk]

theorem SegmentSpecT_of_segFinalT (img : Bytes) (tr : List Trans) (cont : Bytes) (isLazy : Bool) (j : Nat)
    (secs : List SecBuf)
    (h63c : cont.length < 9223372036854775808) (h63i : img.length < 9223372036854775808)
    (hk : phBase img j + phdrSize (clsOf img) ≤ img.length)
    (hin : SegRep cont tr img (segHdr_ls (clsOf img) (encOf img) img (phBase img j) isLazy))
    (hw1 : ph img j "p_vaddr" + ph img j "p_memsz" < 18446744073709551616)
    (hw2 : ph img j "p_offset" + ph img j "p_filesz" < 18446744073709551616)
    (hlen : secs.length = eh img "e_shnum") (hn : eh img "e_shnum" < 65536)
    (hsecs : ∀ i (h : i < secs.length), SectionSpecT img tr cont i secs[i] ∧
      sh img i "sh_addr" + sh img i "sh_size" < 18446744073709551616 ∧
      sh img i "sh_offset" + sh img i "sh_size" < 18446744073709551616) :
    SegmentSpecT img tr cont j (segFinalT (clsOf img) (encOf img) tr cont.length img (phBase img j) isLazy j secs) := by
  obtain ⟨g1, g2, g3, g4, g5, g6, g7, g8⟩ := segHdr_bridge img (clsOf img) (encOf img) (phBase img j) isLazy hk
  refine ⟨rfl, g1, g2, g3, g4, g5, g6, g7, g8, ?_, ?_⟩
  · show ((secs.filter (memberOf (segHdr_ls (clsOf img) (encOf img) img (phBase img j) isLazy))).map
        (fun b => BitVec.ofNat 16 b.index)).map (·.toNat) = members img j
    rw [List.map_map]
    unfold members
    rw [← hlen]
    apply filter_index_range
    · intro i h
      have := (hsecs i h).1.1
      simp only [Function.comp, this, BitVec.toNat_ofNat, Nat.reducePow]
      omega
    · intro i h
      obtain ⟨⟨_, _, _, s3, s4, s5, s6, _⟩, w1, w2⟩ := hsecs i h
      rw [member_eq_spec _ secs[i] (by rw [s4, s6]; exact w1) (by rw [s5, s6]; exact w2)
        (by rw [g4, g7]; exact hw1) (by rw [g3, g6]; exact hw2)]
      rw [s3, s4, s5, s6, g1, g3, g4, g6, g7]
      rfl
  · intro ls hd
    have h := segGetData_segFinalT (clsOf img) (encOf img) tr cont img (phBase img j) isLazy j secs ls hd h63c h63i hin
    unfold segView
    rw [h.1]
    have hin' : SegInside img.length (segHdr_ls (clsOf img) (encOf img) img (phBase img j) isLazy) :=
      fun hs => (hin hs).2.2.1
    exact segData_take img j isLazy hk hin'

/-- **C02 through a translation table** : a well-formed image, loaded from a container that
    represents it through the table, shows exactly what the specification says is in the image -/
theorem load_eq_spec_tr (img cont : Bytes) (tr : List Trans) (o : Obj) (k : StreamKind) (isLazy : Bool)
    (htr : o.trans = tr) (hwf : WellFormedImage img) (hrep : Represents cont tr img) :
    ∃ r : LoadRes, load o { data := cont, kind := k } isLazy = .ok r ∧ LoadSpecT img tr cont r := by
  obtain ⟨hmag, hcls, hdat, hehs, h63, hshent, hphent, hS, hP, hndx, hnames⟩ := hwf
  obtain ⟨h63c, rE, rS, rP⟩ := hrep
  have hsz := sizes_eq (clsOf img)
  rw [← hsz.1] at hehs rE
  rw [← hsz.2.1] at hshent hS rS
  rw [← hsz.2.2] at hphent hP rP
  obtain ⟨m0, m1, m2, m3⟩ := magic_gate img hmag
  subst htr
  have hgate := load_gate_rep o { data := cont, kind := k } isLazy (clsOf img) (encOf img) img rfl rfl
    m0 m1 m2 m3 (cls_gate img hcls) (enc_gate img hdat) rE
  simp only [] at hgate
  obtain ⟨e1, e2, e3, e4, e5, e6, e7, e8, e9, e10, e11, e12, e13⟩ := ehdr_bridge img (clsOf img) (encOf img) hehs
  have E : ∀ f, Spec.get (Spec.ehdrL (clsOf img)) (encOf img) img 0 f = eh img f := fun _ => rfl
  rw [E] at e1 e2 e3 e4 e5 e6 e7 e8 e9 e10 e11 e12 e13
  have hshnum : (Hdr.e_shnum (clsOf img) (encOf img) (slice img 0 (ehdrSize (clsOf img)))).toNat = eh img "e_shnum" := e12
  have hphnum : (Hdr.e_phnum (clsOf img) (encOf img) (slice img 0 (ehdrSize (clsOf img)))).toNat = eh img "e_phnum" := e10
  have hshb : ∀ j, (Hdr.e_shoff (clsOf img) (encOf img) (slice img 0 (ehdrSize (clsOf img)))).toNat +
      j * (Hdr.e_shentsize (clsOf img) (encOf img) (slice img 0 (ehdrSize (clsOf img)))).toNat = shBase img j := by
    intro j; rw [e6, e11]; rfl
  have hphb : ∀ j, (Hdr.e_phoff (clsOf img) (encOf img) (slice img 0 (ehdrSize (clsOf img)))).toNat +
      j * (Hdr.e_phentsize (clsOf img) (encOf img) (slice img 0 (ehdrSize (clsOf img)))).toNat = phBase img j := by
    intro j; rw [e5, e9]; rfl
  have hcb := identB img (clsOf img) hehs
  have hc1 : BitVec.ofNat 8 (identByte img Spec.EI_CLASS) = 1#8 → clsOf img = .c32 := by
    intro h
    rcases hcls with h' | h'
    · simp [clsOf, h']; decide
    · rw [h'] at h; exact absurd h (by decide)
  have hc2 : BitVec.ofNat 8 (identByte img Spec.EI_CLASS) = 2#8 → clsOf img = .c64 := by
    intro h
    rcases hcls with h' | h'
    · rw [h'] at h; exact absurd h (by decide)
    · simp [clsOf, h']
  have hbadS : load_sections_entsize_bad (Hdr.e_shnum (clsOf img) (encOf img) (slice img 0 (ehdrSize (clsOf img))))
      (Hdr.ident (slice img 0 (ehdrSize (clsOf img))) Gen.EI_CLASS)
      (Hdr.e_shentsize (clsOf img) (encOf img) (slice img 0 (ehdrSize (clsOf img)))) = false := by
    unfold load_sections_entsize_bad
    apply entsize_ok _ _ _ sizeof_Elf32_Shdr sizeof_Elf64_Shdr (by decide) (by decide)
    intro hn
    rw [hshnum] at hn
    have := hshent hn
    rw [← e11] at this
    rw [hcb]
    constructor
    · intro h; have hcl := hc1 h; rw [hcl] at this ⊢; exact this
    · intro h; have hcl := hc2 h; rw [hcl] at this ⊢; exact this
  have hbadP : load_segments_entsize_bad (Hdr.e_phnum (clsOf img) (encOf img) (slice img 0 (ehdrSize (clsOf img))))
      (Hdr.ident (slice img 0 (ehdrSize (clsOf img))) Gen.EI_CLASS)
      (Hdr.e_phentsize (clsOf img) (encOf img) (slice img 0 (ehdrSize (clsOf img)))) = false := by
    unfold load_segments_entsize_bad
    apply entsize_ok _ _ _ sizeof_Elf32_Phdr sizeof_Elf64_Phdr (by decide) (by decide)
    intro hn
    rw [hphnum] at hn
    have := hphent hn
    rw [← e9] at this
    rw [hcb]
    constructor
    · intro h; have hcl := hc1 h; rw [hcl] at this ⊢; exact this
    · intro h; have hcl := hc2 h; rw [hcl] at this ⊢; exact this
  have hinS : ∀ j, j < eh img "e_shnum" →
      SecRep cont o.trans img (secHdr (clsOf img) (encOf img) img (shBase img j) isLazy j) := by
    intro j hj hty
    obtain ⟨hk, _, _, _⟩ := hS j hj
    obtain ⟨_, b2, _, _, b5, b6, _⟩ := secHdr_bridge img (clsOf img) (encOf img) (shBase img j) isLazy j hk
    rw [isNullOrNobits_eq, b2] at hty
    rw [b5, b6]
    have : occupiesFile (sh img j "sh_type") = true := by unfold sh; simpa using hty
    exact (rS j hj).2 this
  have hinP : ∀ j, j < eh img "e_phnum" →
      SegRep cont o.trans img (segHdr_ls (clsOf img) (encOf img) img (phBase img j) isLazy) := by
    intro j hj hsk
    obtain ⟨hk, _, _, _⟩ := hP j hj
    obtain ⟨b1, _, b3, _, _, b6, _, _⟩ := segHdr_bridge img (clsOf img) (encOf img) (phBase img j) isLazy hk
    rw [segSkip_eq, b1, b6] at hsk
    rw [b3, b6]
    apply (rP j hj).2
    unfold segHasData ph
    simp only [bne, ← Bool.not_or, hsk, Bool.not_false]
  have hbody := loadBody_rep
    { o with secs := [], segs := [], cls := clsOf img, enc := encOf img,
             hdr := some (slice img 0 (ehdrSize (clsOf img))) }
    (clsOf img) (encOf img) isLazy (slice img 0 (ehdrSize (clsOf img))) cont img
    { data := cont, pos := (trApply o.trans 0).toNat + ehdrSize (clsOf img), gcount := ehdrSize (clsOf img), kind := k }
    rfl rfl rfl h63c h63 hbadS hbadP
    (fun j hj => by rw [hshnum] at hj; rw [hshb]; exact ⟨(rS j hj).1, hinS j hj⟩)
    (fun j hj => by rw [hphnum] at hj; rw [hphb]; exact ⟨(rP j hj).1, hinP j hj⟩)
    (by rw [e13, hshnum]; exact hndx)
  obtain ⟨r, hr, r1, r2, r3, r4, r5, r6, r7, r8, r9, r10, r11, r12, r13⟩ := hbody
  have hsecAll : ∀ i (hi : i < r.obj.secs.length), SectionSpecT img o.trans cont i r.obj.secs[i] := by
    intro i hi
    have hi' : i < eh img "e_shnum" := by rw [r10, hshnum] at hi; exact hi
    obtain ⟨res, hst, _⟩ := r11 i hi
    rw [hshb] at hst
    apply SectionSpecT_of_SecStT img o.trans cont isLazy i res _ h63c h63 (hS i hi').1 (hinS i hi')
    have hname : nameOf (strtabOf (clsOf img) (encOf img) img
          (Hdr.e_shoff (clsOf img) (encOf img) (slice img 0 (ehdrSize (clsOf img)))).toNat
          (Hdr.e_shentsize (clsOf img) (encOf img) (slice img 0 (ehdrSize (clsOf img)))).toNat isLazy
          (Hdr.e_shstrndx (clsOf img) (encOf img) (slice img 0 (ehdrSize (clsOf img)))).toNat)
        (secHdr (clsOf img) (encOf img) img (shBase img i) isLazy i).nameOff.toNat = secName img i := by
      have b1 := (secHdr_bridge img (clsOf img) (encOf img) (shBase img i) isLazy i (hS i hi').1).1
      unfold nameOf strtabOf secName shstrtab
      rw [e13, b1]
      by_cases hz : eh img "e_shstrndx" = 0
      · rw [hz]; rfl
      · have hz' : ¬ eh img "e_shstrndx" = Spec.SHN_UNDEF := hz
        have hlt : eh img "e_shstrndx" < eh img "e_shnum" := by
          rcases hndx with h | h
          · exact absurd h hz'
          · exact h
        simp only [hz, hz', if_false]
        rw [hshb, secBytes_bridge img isLazy _ (hS _ hlt).1]
        rfl
    rw [hname] at hst
    exact hst
  refine ⟨r, by rw [hgate]; exact hr, r1, r2, r3, ⟨_, r4, ?_⟩, r6, r7, r8, by rw [r10, hshnum], hsecAll,
    by rw [r12, hphnum], ?_⟩
  · exact ⟨by rw [hsz.1], e1, e2, e3, e4, e5, e6, e7, e8, e9, e10, e11, e12, e13⟩
  · intro j hj
    have hj' : j < eh img "e_phnum" := by rw [r12, hphnum] at hj; exact hj
    rw [r13 j hj, hphb]
    have hn16 : eh img "e_shnum" < 65536 := by
      rw [← hshnum]; exact (Hdr.e_shnum _ _ _).isLt
    apply SegmentSpecT_of_segFinalT img o.trans cont isLazy j r.obj.secs h63c h63 (hP j hj').1 (hinP j hj')
      (hP j hj').2.2.1 (hP j hj').2.2.2 (by rw [r10, hshnum]) hn16
    intro i hi
    have hi' : i < eh img "e_shnum" := by rw [r10, hshnum] at hi; exact hi
    exact ⟨hsecAll i hi, (hS i hi').2.2.1, (hS i hi').2.2.2⟩

/-- a plainly loaded object `a` (image `img`) and an object `b` loaded through table `tr` from
    container `cont` show the same things -/
def ViewEqT (img cont : Bytes) (tr : List Trans) (a b : Obj) : Prop :=
  a.cls = b.cls ∧ a.enc = b.enc ∧ a.hdr = b.hdr ∧
  a.secs.length = b.secs.length ∧ a.segs.length = b.segs.length ∧
  (∀ i (h1 : i < a.secs.length) (h2 : i < b.secs.length),
    secFields a.secs[i] = secFields b.secs[i] ∧
    ∀ ls1 ls2 : LoadSt, ls1.st.data = img → ls2.st.data = cont →
      secView a.cls [] ls1 a.secs[i] = secView b.cls tr ls2 b.secs[i]) ∧
  (∀ j (h1 : j < a.segs.length) (h2 : j < b.segs.length),
    segFields a.segs[j] = segFields b.segs[j] ∧
    ∀ ls1 ls2 : LoadSt, ls1.st.data = img → ls2.st.data = cont →
      segView a.cls [] ls1 a.segs[j] = segView b.cls tr ls2 b.segs[j])

theorem viewEqT_of_spec (img cont : Bytes) (tr : List Trans) (ra rb : LoadRes)
    (ha : LoadSpecT img [] img ra) (hb : LoadSpecT img tr cont rb) :
    ra.ok = rb.ok ∧ ViewEqT img cont tr ra.obj rb.obj := by
  obtain ⟨a1, a2, a3, ⟨ah, a4, a5⟩, _, _, _, a6, a7, a8, a9⟩ := ha
  obtain ⟨b1, b2, b3, ⟨bh, b4, b5⟩, _, _, _, b6, b7, b8, b9⟩ := hb
  refine ⟨by rw [a1, b1], by rw [a2, b2], by rw [a3, b3], by rw [a4, b4, a5.1, b5.1], by rw [a6, b6],
    by rw [a8, b8], ?_, ?_⟩
  · intro i h1 h2
    obtain ⟨x0, x1, x2, x3, x4, x5, x6, x7, x8, x9, x10, x11, x12⟩ := a7 i h1
    obtain ⟨y0, y1, y2, y3, y4, y5, y6, y7, y8, y9, y10, y11, y12⟩ := b7 i h2
    refine ⟨?_, ?_⟩
    · simp only [secFields, Prod.mk.injEq]
      exact ⟨by rw [x0, y0], by rw [x11, y11], bv_eq x1 y1, bv_eq x2 y2, bv_eq x3 y3, bv_eq x4 y4, bv_eq x5 y5,
        bv_eq x6 y6, bv_eq x7 y7, bv_eq x8 y8, bv_eq x9 y9, bv_eq x10 y10⟩
    · intro ls1 ls2 h1 h2
      rw [a2, b2, x12 ls1 h1, y12 ls2 h2]
  · intro j h1 h2
    obtain ⟨x0, x1, x2, x3, x4, x5, x6, x7, x8, x9, x10⟩ := a9 j h1
    obtain ⟨y0, y1, y2, y3, y4, y5, y6, y7, y8, y9, y10⟩ := b9 j h2
    refine ⟨?_, ?_⟩
    · simp only [segFields, Prod.mk.injEq]
      refine ⟨by rw [x0, y0], bv_eq x1 y1, bv_eq x2 y2, bv_eq x3 y3, bv_eq x4 y4, bv_eq x5 y5, bv_eq x6 y6,
        bv_eq x7 y7, bv_eq x8 y8, ?_⟩
      exact map_toNat_inj _ _ (x9.trans y9.symm)
    · intro ls1 ls2 h1 h2
      rw [a2, b2, x10 ls1 h1, y10 ls2 h2]

/-- **C15, translation part** : an object loaded from a container stream in which the image's
    pieces sit at displaced positions, with a table mapping original offsets to those positions,
    shows the same as one loaded from the plain image — every header getter, every section and
    segment field, names, members, and the data delivered by requests on streams in any state;
    eager or lazy, string- or file-backed, independently on both sides. -/
theorem translated_eq_plain (img cont : Bytes) (tr : List Trans) (o ot : Obj) (k k' : StreamKind)
    (isLazy isLazy' : Bool) (h1 : o.trans = []) (h2 : ot.trans = tr)
    (hwf : WellFormedImage img) (hrep : Represents cont tr img) :
    ∃ rp rt : LoadRes, load o { data := img, kind := k } isLazy = .ok rp ∧
      load ot { data := cont, kind := k' } isLazy' = .ok rt ∧
      rp.ok = rt.ok ∧ ViewEqT img cont tr rp.obj rt.obj := by
  obtain ⟨rp, hp, sp⟩ := load_eq_spec img o k isLazy h1 hwf
  obtain ⟨rt, ht, st⟩ := load_eq_spec_tr img cont tr ot k' isLazy' h2 hwf hrep
  exact ⟨rp, rt, hp, ht, viewEqT_of_spec img cont tr rp rt (loadSpecT_of_plain img rp sp) st⟩

/-! non-vacuity: the well-formed image of C02, displaced by 7 bytes inside a container -/

instance (cont : Bytes) (tr : List Trans) (img : Bytes) (off n : Nat) : Decidable (RangeRep cont tr img off n) := by
  unfold RangeRep; infer_instance
instance (cont : Bytes) (tr : List Trans) (img : Bytes) : Decidable (Represents cont tr img) := by
  unfold Represents; infer_instance

def contImage : Bytes :=
  [170, 170, 170, 170, 170, 170, 170, 127, 69, 76, 70, 1, 1, 1, 0, 0, 0, 0, 0, 0, 0, 0, 0, 2, 0, 3, 0, 1, 0, 0, 0, 0, 16, 0, 0, 52, 0, 0, 0, 108, 0, 0, 0, 0, 0, 0, 0, 52, 0, 32, 0, 1, 0, 40, 0, 3, 0, 2, 0, 1, 0, 0, 0, 84, 0, 0, 0, 0, 16, 0, 0, 0, 16, 0, 0, 4, 0, 0, 0, 4, 0, 0, 0, 5, 0, 0, 0, 4, 0, 0, 0, 1, 2, 3, 4, 0, 46, 116, 101, 120, 116, 0, 46, 115, 104, 115, 116, 114, 116, 97, 98, 0, 0, 0, 0, 0, 0, 0, 0, 0, 0, 0, 0, 0, 0, 0, 0, 0, 0, 0, 0, 0, 0, 0, 0, 0, 0, 0, 0, 0, 0, 0, 0, 0, 0, 0, 0, 0, 0, 0, 0, 0, 0, 0, 0, 1, 0, 0, 0, 1, 0, 0, 0, 6, 0, 0, 0, 0, 16, 0, 0, 84, 0, 0, 0, 4, 0, 0, 0, 0, 0, 0, 0, 0, 0, 0, 0, 4, 0, 0, 0, 0, 0, 0, 0, 7, 0, 0, 0, 3, 0, 0, 0, 0, 0, 0, 0, 0, 0, 0, 0, 88, 0, 0, 0, 17, 0, 0, 0, 0, 0, 0, 0, 0, 0, 0, 0, 1, 0, 0, 0, 0, 0, 0, 0, 85, 85, 85]
def contTable : List Trans := [{ start := 0, size := 228, mappedTo := 7 }]

example : Represents contImage contTable wfImage := by decide +kernel

example : ∃ rp rt : LoadRes, load {} { data := wfImage } false = .ok rp ∧
    load { trans := contTable } { data := contImage } true = .ok rt ∧
    rp.ok = rt.ok ∧ ViewEqT wfImage contImage contTable rp.obj rt.obj :=
  translated_eq_plain wfImage contImage contTable {} { trans := contTable } .str .str false true rfl rfl
    (by decide +kernel) (by decide +kernel)


/-! ### translation table + truncated container (former finding F16, repaired)

Before the repair a non-empty table made `stream_size = SIZE_MAX`, so no bound protected the eager data
read; on a container that is too short the read came up short, `setstate(earlier)` kept the new failbit,
and every *later* section header was unreadable in the eager load while the lazy load read them all
(both loads returned true).  `section_impl::load` / `segment_impl::load` now record the real stream size
with a table too: the out-of-range data read is refused in both modes and the stream stays usable.
`lazy_eq_eager` / `lazy_eq_eager_obs` above therefore hold for EVERY translation table (no hypothesis on
`o.trans`, none on the container); the concrete instance below is the former witness. -/

/-- C02's example image with `e_phnum = 0`, cut into `[108,228)` and `[0,108)`, the second piece
    truncated to 86 bytes (the `.text` data at 84..88 is incomplete) -/
def truncContainer : Bytes :=
  [0, 0, 0, 0, 0, 0, 0, 0, 0, 0, 0, 0, 0, 0, 0, 0, 0, 0, 0, 0, 0, 0, 0, 0, 0, 0, 0, 0, 0, 0, 0, 0, 0, 0, 0, 0, 0, 0, 0, 0, 1, 0, 0, 0, 1, 0, 0, 0, 6, 0, 0, 0, 0, 16, 0, 0, 84, 0, 0, 0, 4, 0, 0, 0, 0, 0, 0, 0, 0, 0, 0, 0, 4, 0, 0, 0, 0, 0, 0, 0, 7, 0, 0, 0, 3, 0, 0, 0, 0, 0, 0, 0, 0, 0, 0, 0, 88, 0, 0, 0, 17, 0, 0, 0, 0, 0, 0, 0, 0, 0, 0, 0, 1, 0, 0, 0, 0, 0, 0, 0, 127, 69, 76, 70, 1, 1, 1, 0, 0, 0, 0, 0, 0, 0, 0, 0, 2, 0, 3, 0, 1, 0, 0, 0, 0, 16, 0, 0, 52, 0, 0, 0, 108, 0, 0, 0, 0, 0, 0, 0, 52, 0, 32, 0, 0, 0, 40, 0, 3, 0, 2, 0, 1, 0, 0, 0, 84, 0, 0, 0, 0, 16, 0, 0, 0, 16, 0, 0, 4, 0, 0, 0, 4, 0, 0, 0, 5, 0, 0, 0, 4, 0, 0, 0, 1, 2]
def truncTable : List Trans := [{ start := 0, size := 108, mappedTo := 120 }, { start := 108, size := 120, mappedTo := 0 }]

def secTypes (r : M LoadRes) : Option (Bool × List Nat) :=
  match r with
  | .ok r => some (r.ok, r.obj.secs.map (·.stype.toNat))
  | .error _ => none

/-- on the former F16 witness the eager and the lazy load now show the same sections (all three
    headers read; the `.text` data, cut off in the container, is refused by both) -/
theorem lazy_eager_translated_truncated_agree :
    secTypes (load { trans := truncTable } { data := truncContainer } false) = some (true, [0, 1, 3]) ∧
    secTypes (load { trans := truncTable } { data := truncContainer } true) = some (true, [0, 1, 3]) := by
  decide +kernel

end ElfioVerif.C15
