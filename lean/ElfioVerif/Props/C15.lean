/-
C15 — lazy loading and address translation do not change what is observed.

Section / segment level (all images, all stream states):
 * `isolatedRead_state_independent`, `isolatedRead_flags_or` : what the F9 fix buys,
 * `secGetData_lazy_eq_eager`, `segGetData_lazy_eq_eager` : a lazily loaded part, once requested,
   shows exactly what the eagerly loaded part shows,
 * `freeData_getData`, `interleaving_eq`, `seg_interleaving_eq` : any interleaving of requests,
   releases and arbitrary disturbances of the stream's position / error state.
Whole-load level: see the end of the file.
-/
import ElfioVerif.Lemmas.LoadSpec
import ElfioVerif.Props.C02
set_option linter.unusedSimpArgs false
set_option linter.unusedVariables false
namespace ElfioVerif.C15
open Gen

/-! ### the read primitive -/

/-- the bytes delivered by an isolated read and its completeness flag do not depend on the
    stream's position, error flags or last count -/
theorem isolatedRead_state_independent (s : IStream) (pos gcount : Nat) (eof fail : Bool)
    (off n : BitVec 64) :
    (isolatedRead { s with pos := pos, eof := eof, fail := fail, gcount := gcount } off n).2 =
      (isolatedRead s off n).2 :=
  isolatedRead_indep { s with pos := pos, eof := eof, fail := fail, gcount := gcount } s rfl rfl off n

/-- … they depend on the stream's bytes and kind only -/
theorem isolatedRead_depends_on_data_only (s s' : IStream) (hd : s.data = s'.data)
    (hk : s.kind = s'.kind) (off n : BitVec 64) : (isolatedRead s off n).2 = (isolatedRead s' off n).2 :=
  isolatedRead_indep s s' hd hk off n

/-- the error flags afterwards are the earlier flags OR the flags the same read raises on a
    cleared stream: an earlier failure is neither forgotten nor does it influence the read -/
theorem isolatedRead_flags_or (s : IStream) (off n : BitVec 64) :
    (isolatedRead s off n).1.eof = ((isolatedRead s.clear off n).1.eof || s.eof) ∧
    (isolatedRead s off n).1.fail = ((isolatedRead s.clear off n).1.fail || s.fail) ∧
    (isolatedRead s off n).1.data = s.data ∧ (isolatedRead s off n).1.kind = s.kind :=
  ⟨(isolatedRead_flags s off n).1, (isolatedRead_flags s off n).2, isolatedRead_data s off n,
   isolatedRead_kind s off n⟩

example : (isolatedRead { data := [1, 2, 3, 4], pos := 9, eof := true, fail := true } 1#64 2#64).2
    = ([2, 3], true) := by decide

/-! ### observations of a section -/

/-- everything the public getters of a section return (data as the whole buffer) -/
structure SecObs where
  index : Nat
  name : Bytes
  nameOff : BitVec 32
  stype : BitVec 32
  flags : BitVec 64
  addr : BitVec 64
  offset : BitVec 64
  size : BitVec 64
  link : BitVec 32
  info : BitVec 32
  addrAlign : BitVec 64
  entSize : BitVec 64
  data : Option Bytes
  dataSize : BitVec 64
  streamSize : BitVec 64

def secObs (b : SecBuf) : SecObs :=
  { index := b.index, name := b.name, nameOff := b.nameOff, stype := b.stype, flags := b.flags,
    addr := b.addr, offset := b.offset, size := b.size, link := b.link, info := b.info,
    addrAlign := b.addrAlign, entSize := b.entSize, data := b.data, dataSize := b.dataSize,
    streamSize := b.streamSize }

theorem decodeShdr_lazy (c : Cls) (enc : Enc) (r : Bytes) (ss : BitVec 64) (te : Bool) (idx : Nat) :
    decodeShdr c enc r (secInit c ss te true idx) =
      { decodeShdr c enc r (secInit c ss te false idx) with isLazy := true } := by
  cases c <;> rfl

@[simp] theorem streamSizeOf_data (tr : List Trans) (st : IStream) : (streamSizeOf tr st).1.data = st.data := by
  unfold streamSizeOf; split
  · simp
  · rfl
@[simp] theorem streamSizeOf_kind (tr : List Trans) (st : IStream) : (streamSizeOf tr st).1.kind = st.kind := by
  unfold streamSizeOf; split
  · simp
  · rfl
@[simp] theorem hdrRead_data (tr : List Trans) (st : IStream) (o : Int) (n : Nat) :
    (hdrRead tr st o n).1.data = st.data := by simp [hdrRead]
@[simp] theorem hdrRead_kind (tr : List Trans) (st : IStream) (o : Int) (n : Nat) :
    (hdrRead tr st o n).1.kind = st.kind := by simp [hdrRead]

/-- `get_data()`'s effect on the observations, as a function of the observations -/
def obsGet (x : SecObs) : SecOutcome → SecObs
  | .refuse => x
  | .readFail => { x with data := none, dataSize := 0 }
  | .loaded d => { x with data := some (d ++ [0]), dataSize := x.size }
  | .loadedEmpty => { x with data := some (alloc 1), dataSize := 0 }
  | .keep _ => x

theorem secObs_getApply (b : SecBuf) (o : SecOutcome) : secObs (secGetApply b o) = obsGet (secObs b) o := by
  rcases o with _ | _ | d | _ | (_ | _) <;> simp [secGetApply, SecOutcome.apply, secObs, obsGet]

@[simp] theorem secObs_addrSet (b : SecBuf) (x : Bool) : secObs { b with addrSet := x } = secObs b := rfl

/-- **a lazily loaded section, once its data is requested — on a stream in any position and any
    error state — shows what the eagerly loaded section shows** (same image, same translation) -/
theorem secGetData_lazy_eq_eager (c : Cls) (enc : Enc) (tr : List Trans) (ls ls' : LoadSt)
    (hdrOff : Int) (idx : Nat) (hd : ls'.st.data = ls.st.data) (hk : ls'.st.kind = ls.st.kind) :
    secObs (secGetData c tr ls' (secLoad c enc tr ls hdrOff true idx).2).2 =
      secObs (secLoad c enc tr ls hdrOff false idx).2 := by
  rw [secLoad_eq, secLoad_eq]
  simp only []
  split
  · -- short header read: both keep the zero-initialised header
    rw [secGetData_snd]
    simp only [secInit, Bool.not_false, Bool.and_self, if_true, Option.isNone_none, secObs_getApply]
    have key : ∀ ss, secOutcome c tr ls'.st 0#32 0#64 0#64 ss true = .refuse ∨
        secOutcome c tr ls'.st 0#32 0#64 0#64 ss true = .keep true :=
      fun ss => secOutcome_nobits c tr ls'.st _ _ _ ss (by decide)
    rcases key (hdrRead tr ls.st hdrOff (shdrSize c)).2.2 with h | h <;> simp [h, obsGet, secObs]
  · simp only [if_true, Bool.false_eq_true, if_false, secObs_addrSet]
    rw [secGetData_snd, secGetData_snd]
    simp only [decodeShdr_isLoaded, decodeShdr_canLoad, decodeShdr_data, decodeShdr_streamSize, secInit,
      Bool.not_false, Bool.and_self, if_true, Option.isNone_none]
    have e := decodeShdr_lazy c enc (hdrRead tr ls.st hdrOff (shdrSize c)).2.1
      (hdrRead tr ls.st hdrOff (shdrSize c)).2.2 tr.isEmpty idx
    simp only [secInit] at e
    rw [e]
    simp only []
    rw [secOutcome_indep c tr ls'.st (hdrRead tr ls.st hdrOff (shdrSize c)).1 (by simp [hd]) (by simp [hk])]
    rw [secObs_getApply, secObs_getApply]
    rfl

/-! ### interleavings of requests and releases on one section -/

/-- what can happen to one lazily loaded section while the stream stays open: its data is
    requested, its data is released, or *anything else* moves the stream / changes its error state
    (reads for other sections and segments, failed reads, …) -/
inductive DataOp
  | request
  | release
  | disturb (pos : Nat) (eof fail : Bool) (gcount : Nat)
  deriving Repr

def disturbSt (ls : LoadSt) (p : Nat) (e f : Bool) (g : Nat) : LoadSt :=
  { ls with st := { ls.st with pos := p, eof := e, fail := f, gcount := g } }

def runSecOps (c : Cls) (tr : List Trans) : LoadSt → SecBuf → List DataOp → LoadSt × SecBuf
  | ls, b, [] => (ls, b)
  | ls, b, .request :: r => runSecOps c tr (secGetData c tr ls b).1 (secGetData c tr ls b).2 r
  | ls, b, .release :: r => runSecOps c tr ls b.freeData r
  | ls, b, .disturb p e f g :: r => runSecOps c tr (disturbSt ls p e f g) b r

/-- a lazily loaded section whose data has not been requested yet -/
def Fresh (b : SecBuf) : Prop := b.isLazy = true ∧ b.isLoaded = false ∧ b.canLoad = true ∧ b.data = none

/-- the states a lazily loaded section `b` moves through: resident/decided (`secGetApply b o`), or
    non-resident with a possibly updated `data_size` -/
def SecInv (b : SecBuf) (o : SecOutcome) (b' : SecBuf) : Prop :=
  b' = secGetApply b o ∨
  ∃ ds, b' = { b with dataSize := ds } ∧
    (ds = b.dataSize ∨ ((o.apply b).2 = true ∧ ds = (secGetApply b o).dataSize))

theorem getApply_noop (b : SecBuf) (o : SecOutcome) (hb : Fresh b) :
    (!(secGetApply b o).isLoaded && (secGetApply b o).canLoad) = false := by
  obtain ⟨_, h2, h3, _⟩ := hb
  rcases o with _ | _ | d | _ | (_ | _) <;> simp [secGetApply, SecOutcome.apply, h2, h3]

theorem getApply_ds (b : SecBuf) (o : SecOutcome) (ds : BitVec 64)
    (h : ds = b.dataSize ∨ ((o.apply b).2 = true ∧ ds = (secGetApply b o).dataSize)) :
    secGetApply { b with dataSize := ds } o = secGetApply b o := by
  rcases h with h | ⟨h1, h2⟩
  · subst h; rfl
  · rcases o with _ | _ | d | _ | (_ | _) <;>
      simp_all [secGetApply, SecOutcome.apply]

theorem free_inv (b : SecBuf) (o : SecOutcome) (hb : Fresh b) (b' : SecBuf) (h : SecInv b o b') :
    SecInv b o b'.freeData := by
  obtain ⟨h1, h2, h3, h4⟩ := hb
  rcases h with h | ⟨ds, h, hds⟩
  · subst h
    rcases o with _ | _ | d | _ | (_ | _)
    · left; cases b; simp_all [secGetApply, SecOutcome.apply, SecBuf.freeData]
    · left; cases b; simp_all [secGetApply, SecOutcome.apply, SecBuf.freeData]
    · right; refine ⟨b.size, ?_, Or.inr ⟨rfl, rfl⟩⟩
      cases b; simp_all [secGetApply, SecOutcome.apply, SecBuf.freeData]
    · right; refine ⟨0, ?_, Or.inr ⟨rfl, rfl⟩⟩
      cases b; simp_all [secGetApply, SecOutcome.apply, SecBuf.freeData]
    · left; cases b; simp_all [secGetApply, SecOutcome.apply, SecBuf.freeData]
    · right; refine ⟨b.dataSize, ?_, Or.inl rfl⟩
      cases b; simp_all [secGetApply, SecOutcome.apply, SecBuf.freeData]
  · right; refine ⟨ds, ?_, hds⟩
    subst h
    cases b; simp_all [SecBuf.freeData]

/-- the outcome a fresh section `b` gets on any stream over the bytes `D` of kind `K` -/
def outcomeOf (c : Cls) (tr : List Trans) (D : Bytes) (K : StreamKind) (b : SecBuf) : SecOutcome :=
  secOutcome c tr { data := D, kind := K } b.stype b.size b.offset b.streamSize true

/-- a request in any state of the invariant lands in the one decided state -/
theorem request_inv (c : Cls) (tr : List Trans) (ls : LoadSt) (b b' : SecBuf) (hb : Fresh b)
    (h : SecInv b (outcomeOf c tr ls.st.data ls.st.kind b) b') :
    (secGetData c tr ls b').2 = secGetApply b (outcomeOf c tr ls.st.data ls.st.kind b) := by
  rw [secGetData_snd]
  rcases h with h | ⟨ds, h, hds⟩
  · subst h; rw [getApply_noop b _ hb]; simp
  · subst h
    obtain ⟨h1, h2, h3, h4⟩ := hb
    have hc : (!({ b with dataSize := ds } : SecBuf).isLoaded && ({ b with dataSize := ds } : SecBuf).canLoad) = true := by
      simp [h2, h3]
    rw [if_pos hc]
    have e : secOutcome c tr ls.st b.stype b.size b.offset b.streamSize b.data.isNone =
        outcomeOf c tr ls.st.data ls.st.kind b := by
      rw [h4]
      exact secOutcome_indep c tr ls.st { data := ls.st.data, kind := ls.st.kind } rfl rfl _ _ _ _ _
    show secGetApply _ (secOutcome c tr ls.st b.stype b.size b.offset b.streamSize b.data.isNone) = _
    rw [e]
    exact getApply_ds b _ ds hds

theorem runSecOps_inv (c : Cls) (tr : List Trans) (D : Bytes) (K : StreamKind) (b : SecBuf) (hb : Fresh b) :
    ∀ (ops : List DataOp) (ls : LoadSt) (b' : SecBuf), ls.st.data = D → ls.st.kind = K →
      SecInv b (outcomeOf c tr D K b) b' →
      (runSecOps c tr ls b' ops).1.st.data = D ∧ (runSecOps c tr ls b' ops).1.st.kind = K ∧
      SecInv b (outcomeOf c tr D K b) (runSecOps c tr ls b' ops).2 := by
  intro ops
  induction ops with
  | nil => intro ls b' hd hk h; exact ⟨hd, hk, h⟩
  | cons op r ih =>
    intro ls b' hd hk h
    cases op with
    | request =>
      simp only [runSecOps]
      apply ih
      · simp [hd]
      · simp [hk]
      · left; subst hd; subst hk; exact request_inv c tr ls b b' hb h
    | release => simp only [runSecOps]; exact ih ls _ hd hk (free_inv b _ hb b' h)
    | disturb p e f g => simp only [runSecOps]; exact ih _ b' hd hk h

theorem secLoad_lazy_fresh (c : Cls) (enc : Enc) (tr : List Trans) (ls : LoadSt) (hdrOff : Int) (idx : Nat) :
    Fresh (secLoad c enc tr ls hdrOff true idx).2 := by
  rw [secLoad_eq]; simp only []
  split <;> simp [Fresh, secInit]

/-- **release then request restores the same observations** (stream in any state at both requests) -/
theorem freeData_getData (c : Cls) (tr : List Trans) (ls1 ls2 : LoadSt) (b : SecBuf) (hb : Fresh b)
    (hd : ls2.st.data = ls1.st.data) (hk : ls2.st.kind = ls1.st.kind) :
    (secGetData c tr ls2 (secGetData c tr ls1 b).2.freeData).2 = (secGetData c tr ls1 b).2 := by
  have h0 : SecInv b (outcomeOf c tr ls1.st.data ls1.st.kind b) b := Or.inr ⟨b.dataSize, rfl, Or.inl rfl⟩
  have h1 := request_inv c tr ls1 b b hb h0
  have h2 : SecInv b (outcomeOf c tr ls1.st.data ls1.st.kind b) (secGetData c tr ls1 b).2 := Or.inl h1
  have h3 := free_inv b _ hb _ h2
  rw [← hd, ← hk] at h3
  rw [request_inv c tr ls2 b _ hb h3, hd, hk, h1]

/-- **any interleaving** : a lazily loaded section, driven through any list of requests, releases
    and stream disturbances and then asked for its data, shows what the eagerly loaded section
    shows -/
theorem interleaving_eq (c : Cls) (enc : Enc) (tr : List Trans) (ls ls1 : LoadSt) (hdrOff : Int)
    (idx : Nat) (ops : List DataOp) (hd : ls1.st.data = ls.st.data) (hk : ls1.st.kind = ls.st.kind) :
    let x := runSecOps c tr ls1 (secLoad c enc tr ls hdrOff true idx).2 ops
    secObs (secGetData c tr x.1 x.2).2 = secObs (secLoad c enc tr ls hdrOff false idx).2 := by
  intro x
  have hb := secLoad_lazy_fresh c enc tr ls hdrOff idx
  have h0 : SecInv (secLoad c enc tr ls hdrOff true idx).2
      (outcomeOf c tr ls.st.data ls.st.kind (secLoad c enc tr ls hdrOff true idx).2)
      (secLoad c enc tr ls hdrOff true idx).2 := Or.inr ⟨_, rfl, Or.inl rfl⟩
  obtain ⟨g1, g2, g3⟩ := runSecOps_inv c tr ls.st.data ls.st.kind _ hb ops ls1 _ hd hk h0
  rw [← g1, ← g2] at g3
  have h1 := request_inv c tr x.1 _ x.2 hb g3
  rw [h1, g1, g2]
  have h2 := request_inv c tr ls _ _ hb h0
  rw [← h2]
  exact secGetData_lazy_eq_eager c enc tr ls ls hdrOff idx rfl rfl

/-! ### segments -/

structure SegObs where
  index : Nat
  stype : BitVec 32
  flags : BitVec 32
  offset : BitVec 64
  vaddr : BitVec 64
  paddr : BitVec 64
  filesz : BitVec 64
  memsz : BitVec 64
  align : BitVec 64
  secs : List (BitVec 16)
  data : Option Bytes

def segObs (g : Seg) : SegObs :=
  { index := g.index, stype := g.stype, flags := g.flags, offset := g.offset, vaddr := g.vaddr,
    paddr := g.paddr, filesz := g.filesz, memsz := g.memsz, align := g.align, secs := g.secs, data := g.data }

/-- `segment_impl::free_data()` (as in Driver/Load.lean `segfree`) -/
def segFreeData (g : Seg) : Seg := if g.isLazy then { g with data := none, isLoaded := false } else g

theorem decodePhdr_lazy (c : Cls) (enc : Enc) (r : Bytes) (ss : BitVec 64) :
    decodePhdr c enc r (segInit ss true) = { decodePhdr c enc r (segInit ss false) with isLazy := true } := by
  cases c <;> rfl

/-- **a lazily loaded segment, once its data is requested on a stream in any state, shows what
    the eagerly loaded segment shows** (also when the eager data read fails: both show no data) -/
theorem segGetData_lazy_eq_eager (c : Cls) (enc : Enc) (tr : List Trans) (ls ls' : LoadSt)
    (hdrOff : Int) (hd : ls'.st.data = ls.st.data) (hk : ls'.st.kind = ls.st.kind) :
    segObs (segGetData c tr ls' (segLoad c enc tr ls hdrOff true).2.1).2 =
      segObs (segLoad c enc tr ls hdrOff false).2.1 := by
  rw [segLoad_eq, segLoad_eq]
  simp only [if_true, Bool.false_eq_true, if_false]
  rw [segGetData_eq]
  simp only [decodePhdr_isLoaded, segInit, Bool.not_false, if_true]
  rw [segLoadData_snd, segLoadData_snd]
  have e := decodePhdr_lazy c enc (wr (List.replicate (phdrSize c) 0) 0 (hdrRead tr ls.st hdrOff (phdrSize c)).2.1)
    (hdrRead tr ls.st hdrOff (phdrSize c)).2.2
  simp only [segInit] at e
  rw [e]
  simp only []
  rw [segOutcome_indep c tr ls'.st (hdrRead tr ls.st hdrOff (phdrSize c)).1 (by simp [hd]) (by simp [hk])]
  generalize segOutcome c tr _ _ _ _ _ = o
  rcases o with _ | _ | d <;> simp [segApply, segObs]

def runSegOps (c : Cls) (tr : List Trans) : LoadSt → Seg → List DataOp → LoadSt × Seg
  | ls, g, [] => (ls, g)
  | ls, g, .request :: r => runSegOps c tr (segGetData c tr ls g).1 (segGetData c tr ls g).2 r
  | ls, g, .release :: r => runSegOps c tr ls (segFreeData g) r
  | ls, g, .disturb p e f k :: r => runSegOps c tr (disturbSt ls p e f k) g r

def SegFresh (g : Seg) : Prop := g.isLazy = true ∧ g.isLoaded = false ∧ g.data = none

def segOutcomeOf (c : Cls) (tr : List Trans) (D : Bytes) (K : StreamKind) (g : Seg) : Option (Option Bytes) :=
  segOutcome c tr { data := D, kind := K } g.stype g.filesz g.offset g.streamSize

theorem seg_request_inv (c : Cls) (tr : List Trans) (ls : LoadSt) (g g' : Seg) (hg : SegFresh g)
    (h : g' = g ∨ g' = (segApply g (segOutcomeOf c tr ls.st.data ls.st.kind g)).1) :
    (segGetData c tr ls g').2 = (segApply g (segOutcomeOf c tr ls.st.data ls.st.kind g)).1 := by
  obtain ⟨h1, h2, h3⟩ := hg
  have e : segOutcome c tr ls.st g.stype g.filesz g.offset g.streamSize =
      segOutcomeOf c tr ls.st.data ls.st.kind g :=
    segOutcome_indep c tr ls.st { data := ls.st.data, kind := ls.st.kind } rfl rfl _ _ _ _
  rw [segGetData_eq]
  rcases h with h | h
  · subst h
    simp only [h2, Bool.not_false, if_true]
    rw [segLoadData_snd, e]
  · subst h
    generalize ho : segOutcomeOf c tr ls.st.data ls.st.kind g = o at *
    rcases o with _ | _ | d
    · simp only [segApply, h2, Bool.not_false, if_true]
      rw [segLoadData_snd, e]; rfl
    · simp only [segApply, h2, Bool.not_false, if_true]
      rw [segLoadData_snd]
      simp only [e, segApply]
    · simp [segApply]

theorem seg_free_inv (g : Seg) (o : Option (Option Bytes)) (hg : SegFresh g) (g' : Seg)
    (h : g' = g ∨ g' = (segApply g o).1) : segFreeData g' = g ∨ segFreeData g' = (segApply g o).1 := by
  obtain ⟨h1, h2, h3⟩ := hg
  left
  rcases h with h | h
  · rw [h]; cases g; simp_all [segFreeData]
  · rw [h]
    rcases o with _ | _ | d <;> (cases g; simp_all [segFreeData, segApply])

theorem runSegOps_inv (c : Cls) (tr : List Trans) (D : Bytes) (K : StreamKind) (g : Seg) (hg : SegFresh g) :
    ∀ (ops : List DataOp) (ls : LoadSt) (g' : Seg), ls.st.data = D → ls.st.kind = K →
      (g' = g ∨ g' = (segApply g (segOutcomeOf c tr D K g)).1) →
      (runSegOps c tr ls g' ops).1.st.data = D ∧ (runSegOps c tr ls g' ops).1.st.kind = K ∧
      ((runSegOps c tr ls g' ops).2 = g ∨
       (runSegOps c tr ls g' ops).2 = (segApply g (segOutcomeOf c tr D K g)).1) := by
  intro ops
  induction ops with
  | nil => intro ls g' hd hk h; exact ⟨hd, hk, h⟩
  | cons op r ih =>
    intro ls g' hd hk h
    cases op with
    | request =>
      simp only [runSegOps]
      apply ih
      · rw [segGetData_eq]; split <;> simp [hd]
      · rw [segGetData_eq]; split <;> simp [hk]
      · right; subst hd; subst hk; exact seg_request_inv c tr ls g g' hg h
    | release => simp only [runSegOps]; exact ih ls _ hd hk (seg_free_inv g _ hg g' h)
    | disturb p e f k => simp only [runSegOps]; exact ih _ g' hd hk h

theorem segLoad_lazy_fresh (c : Cls) (enc : Enc) (tr : List Trans) (ls : LoadSt) (hdrOff : Int) :
    SegFresh (segLoad c enc tr ls hdrOff true).2.1 := by
  rw [segLoad_eq]; simp [SegFresh, segInit]

/-- **any interleaving, segments** -/
theorem seg_interleaving_eq (c : Cls) (enc : Enc) (tr : List Trans) (ls ls1 : LoadSt) (hdrOff : Int)
    (ops : List DataOp) (hd : ls1.st.data = ls.st.data) (hk : ls1.st.kind = ls.st.kind) :
    let x := runSegOps c tr ls1 (segLoad c enc tr ls hdrOff true).2.1 ops
    segObs (segGetData c tr x.1 x.2).2 = segObs (segLoad c enc tr ls hdrOff false).2.1 := by
  intro x
  have hg := segLoad_lazy_fresh c enc tr ls hdrOff
  obtain ⟨g1, g2, g3⟩ := runSegOps_inv c tr ls.st.data ls.st.kind _ hg ops ls1 _ hd hk (Or.inl rfl)
  rw [← g1, ← g2] at g3
  have h1 := seg_request_inv c tr x.1 _ x.2 hg g3
  rw [h1, g1, g2]
  have h2 := seg_request_inv c tr ls _ _ hg (Or.inl rfl)
  rw [← h2]
  exact segGetData_lazy_eq_eager c enc tr ls ls hdrOff rfl rfl

/-! ### address translation: read level -/

/-- the byte range `[off, off+n)` of the plain image is *represented* in the container: the
    translation of `off` is a position of the container at which the same `n` bytes sit -/
def RangeRep (cont : Bytes) (table : List Trans) (img : Bytes) (off n : Nat) : Prop :=
  0 ≤ trApply table (Int.ofNat off) ∧
  (trApply table (Int.ofNat off)).toNat + n ≤ cont.length ∧
  off + n ≤ img.length ∧
  slice cont (trApply table (Int.ofNat off)).toNat n = slice img off n

/-- a range that lies inside one table entry whose image in the container equals the plain bytes
    is represented (this is how `Represents` is established for a concrete container) -/
theorem rangeRep_of_entry (cont : Bytes) (table : List Trans) (img : Bytes) (e : Trans) (off n : Nat)
    (hne : table ≠ [])
    (hfind : table.find? (fun e => decide (e.start ≤ Int.ofNat off) && decide (Int.ofNat off - e.start < e.size)) = some e)
    (hs : 0 ≤ e.start) (hm : 0 ≤ e.mappedTo)
    (hin : Int.ofNat off + Int.ofNat n ≤ e.start + e.size)
    (hc : e.mappedTo.toNat + e.size.toNat ≤ cont.length) (hi : e.start.toNat + e.size.toNat ≤ img.length)
    (heq : slice cont e.mappedTo.toNat e.size.toNat = slice img e.start.toNat e.size.toNat) :
    RangeRep cont table img off n := by
  have hp := List.find?_some hfind
  simp only [Bool.and_eq_true, decide_eq_true_eq] at hp
  obtain ⟨hp1, hp2⟩ := hp
  have ht : trApply table (Int.ofNat off) = Int.ofNat off - e.start + e.mappedTo := by
    unfold trApply
    cases table with
    | nil => exact absurd rfl hne
    | cons a l => simp only [hfind]
  rw [RangeRep, ht]
  simp only [Int.ofNat_eq_natCast] at *
  have hsz : 0 ≤ e.size := by omega
  have e1 : ((off : Int) - e.start + e.mappedTo).toNat = e.mappedTo.toNat + (off - e.start.toNat) := by omega
  have hoff : e.start.toNat ≤ off := by omega
  refine ⟨by omega, by omega, by omega, ?_⟩
  rw [e1]
  have h1 : slice cont (e.mappedTo.toNat + (off - e.start.toNat)) n =
      slice (slice cont e.mappedTo.toNat e.size.toNat) (off - e.start.toNat) n :=
    (C02.slice_slice cont _ _ _ _ (by omega)).symm
  have h2 : slice img off n = slice (slice img e.start.toNat e.size.toNat) (off - e.start.toNat) n := by
    rw [C02.slice_slice img _ _ _ _ (by omega)]
    congr 1; omega
  rw [h1, h2, heq]

/-- with an empty table every range of the image represents itself -/
theorem rangeRep_nil (img : Bytes) (off n : Nat) (h : off + n ≤ img.length) : RangeRep img [] img off n := by
  refine ⟨by simp [trApply], by simpa [trApply] using h, h, by simp [trApply]⟩

theorem secOff_toNat (table : List Trans) (offset : BitVec 64) (h63 : offset.toNat < 9223372036854775808)
    (h0 : 0 ≤ trApply table (Int.ofNat offset.toNat))
    (hlt : (trApply table (Int.ofNat offset.toNat)).toNat < 9223372036854775808) :
    (secOff table offset).toNat = (trApply table (Int.ofNat offset.toNat)).toNat := by
  unfold secOff
  rw [toInt_of_lt offset h63, BitVec.toNat_ofInt]
  simp only [Nat.reducePow, Int.ofNat_eq_natCast] at *
  omega

/-- **translated read = plain read** : the loader's data read on the container, at the translated
    position, delivers exactly the bytes (and the completeness flag) the plain read delivers on the
    plain image — for streams in any position / error state -/
theorem translated_read_eq (cont img : Bytes) (table : List Trans) (sc si : IStream)
    (hsc : sc.data = cont) (hsi : si.data = img) (offset n : BitVec 64)
    (hc63 : cont.length < 9223372036854775808) (hi63 : img.length < 9223372036854775808)
    (hrep : RangeRep cont table img offset.toNat n.toNat) :
    (isolatedRead sc (secOff table offset) n).2 = (isolatedRead si offset n).2 ∧
    (isolatedRead si offset n).2 = (slice img offset.toNat n.toNat, true) := by
  obtain ⟨h0, h1, h2, h3⟩ := hrep
  have hto := secOff_toNat table offset (by omega) h0 (by omega)
  subst hsc; subst hsi
  rw [isolatedRead_ok sc (secOff table offset) n (by rw [hto]; exact h1) hc63,
    isolatedRead_ok si offset n h2 hi63]
  simp only [hto, h3, and_self]

/-- the same for the header-record reads (`seekg(translate(pos)); read`) on a good stream -/
theorem translated_hdrRead_eq (cont img : Bytes) (table : List Trans) (sc si : IStream)
    (hne : table ≠ [])
    (hsc : sc.data = cont) (hsi : si.data = img) (hce : sc.eof = false) (hcf : sc.fail = false)
    (hie : si.eof = false) (hif : si.fail = false) (k n : Nat)
    (hrep : RangeRep cont table img k n) :
    (hdrRead table sc (Int.ofNat k) n).2.1 = (hdrRead [] si (Int.ofNat k) n).2.1 ∧
    (hdrRead table sc (Int.ofNat k) n).1.gcount = n ∧ (hdrRead [] si (Int.ofNat k) n).1.gcount = n ∧
    (hdrRead table sc (Int.ofNat k) n).1.eof = false ∧ (hdrRead table sc (Int.ofNat k) n).1.fail = false := by
  obtain ⟨h0, h1, h2, h3⟩ := hrep
  subst hsc; subst hsi
  rw [hdrRead_inside si hie hif k n h2]
  have hss : streamSizeOf table sc = (sc, u64max) := by
    unfold streamSizeOf
    cases table with
    | nil => exact absurd rfl hne
    | cons a l => rfl
  unfold hdrRead
  rw [hss]
  simp only []
  rw [IStream.seekg_ok sc hcf _ h0 (by omega),
    IStream.read_ok { sc with pos := (trApply table (Int.ofNat k)).toNat, eof := false } rfl hcf n h1]
  simp only [Int.ofNat_eq_natCast] at *
  simp [h3, hcf]


/-! ### whole load: the open finding F15 -/

def loadOk (r : M LoadRes) : Option Bool :=
  match r with
  | .ok r => some r.ok
  | .error _ => none

/-- ELF32/LSB, no sections, one PT_LOAD whose file range `[1000, 1004)` is beyond the 84-byte file -/
def f15Image : Bytes := 
  [127, 69, 76, 70, 1, 1, 1, 0, 0, 0, 0, 0, 0, 0, 0, 0, 2, 0, 3, 0, 1, 0, 0, 0, 0, 0, 0, 0, 52, 0, 0, 0, 0, 0, 0, 0, 0, 0, 0, 0, 52, 0, 32, 0, 1, 0, 40, 0, 0, 0, 0, 0, 1, 0, 0, 0, 232, 3, 0, 0, 0, 0, 0, 0, 0, 0, 0, 0, 4, 0, 0, 0, 4, 0, 0, 0, 4, 0, 0, 0, 1, 0, 0, 0]

/-- **F15 (open)** : `load()` answers differently for the same image — eagerly `false` (the segment's
    data cannot be read), lazily `true` (the data is neither read nor bounds-checked) -/
theorem lazy_load_unreadable_segment_witness :
    loadOk (load {} { data := f15Image } false) = some false ∧
    loadOk (load {} { data := f15Image } true) = some true := by
  decide +kernel

/-! ### whole load, well-formed images -/

/-- header fields and name of a section as the getters return them -/
def secFields (b : SecBuf) :=
  (b.index, b.name, b.nameOff, b.stype, b.flags, b.addr, b.offset, b.size, b.link, b.info, b.addrAlign, b.entSize)
def segFields (g : Seg) :=
  (g.index, g.stype, g.flags, g.offset, g.vaddr, g.paddr, g.filesz, g.memsz, g.align, g.secs)
/-- the bytes `get_data()` exposes in `[0, get_size())` when asked on stream `ls` -/
def secView (c : Cls) (tr : List Trans) (ls : LoadSt) (b : SecBuf) : Bytes :=
  ((secGetData c tr ls b).2.data.getD []).take (secGetData c tr ls b).2.size.toNat
def segView (c : Cls) (tr : List Trans) (ls : LoadSt) (g : Seg) : Bytes :=
  ((segGetData c tr ls g).2.data.getD []).take g.filesz.toNat

/-- two loaded objects show the same things (data requested on any streams over the same image) -/
def ViewEq (img : Bytes) (a b : Obj) : Prop :=
  a.cls = b.cls ∧ a.enc = b.enc ∧ a.hdr = b.hdr ∧
  a.secs.length = b.secs.length ∧ a.segs.length = b.segs.length ∧
  (∀ i (h1 : i < a.secs.length) (h2 : i < b.secs.length),
    secFields a.secs[i] = secFields b.secs[i] ∧
    ∀ ls1 ls2 : LoadSt, ls1.st.data = img → ls2.st.data = img →
      secView a.cls [] ls1 a.secs[i] = secView b.cls [] ls2 b.secs[i]) ∧
  (∀ j (h1 : j < a.segs.length) (h2 : j < b.segs.length),
    segFields a.segs[j] = segFields b.segs[j] ∧
    ∀ ls1 ls2 : LoadSt, ls1.st.data = img → ls2.st.data = img →
      segView a.cls [] ls1 a.segs[j] = segView b.cls [] ls2 b.segs[j])

theorem bv_eq {n} {x y : BitVec n} {k : Nat} (h1 : x.toNat = k) (h2 : y.toNat = k) : x = y :=
  BitVec.eq_of_toNat_eq (h1.trans h2.symm)

theorem map_toNat_inj : ∀ (l1 l2 : List (BitVec 16)), l1.map (·.toNat) = l2.map (·.toNat) → l1 = l2
  | [], [], _ => rfl
  | [], _ :: _, h => by simp at h
  | _ :: _, [], h => by simp at h
  | a :: l1, b :: l2, h => by
    simp only [List.map_cons, List.cons.injEq] at h
    rw [BitVec.eq_of_toNat_eq h.1, map_toNat_inj l1 l2 h.2]

/-- two objects that both show what the specification says show the same -/
theorem viewEq_of_spec (img : Bytes) (ra rb : LoadRes) (ha : C02.LoadSpec img ra) (hb : C02.LoadSpec img rb) :
    ra.ok = rb.ok ∧ ViewEq img ra.obj rb.obj := by
  obtain ⟨a1, a2, a3, ⟨ah, a4, a5⟩, _, _, _, a6, a7, a8, a9⟩ := ha
  obtain ⟨b1, b2, b3, ⟨bh, b4, b5⟩, _, _, _, b6, b7, b8, b9⟩ := hb
  refine ⟨by rw [a1, b1], by rw [a2, b2], by rw [a3, b3], by rw [a4, b4, a5.1, b5.1], by rw [a6, b6],
    by rw [a8, b8], ?_, ?_⟩
  · intro i h1 h2
    obtain ⟨x0, x1, x2, x3, x4, x5, x6, x7, x8, x9, x10, x11, x12⟩ := a7 i h1
    obtain ⟨y0, y1, y2, y3, y4, y5, y6, y7, y8, y9, y10, y11, y12⟩ := b7 i h2
    refine ⟨?_, ?_⟩
    · simp only [secFields, Prod.mk.injEq]
      exact ⟨by rw [x0, y0], by rw [x11, y11], bv_eq x1 y1, bv_eq x2 y2, bv_eq x3 y3, bv_eq x4 y4, bv_eq x5 y5,
        bv_eq x6 y6, bv_eq x7 y7, bv_eq x8 y8, bv_eq x9 y9, bv_eq x10 y10⟩
    · intro ls1 ls2 h1 h2
      unfold secView
      rw [a2, b2, x12 ls1 h1, y12 ls2 h2]
  · intro j h1 h2
    obtain ⟨x0, x1, x2, x3, x4, x5, x6, x7, x8, x9, x10⟩ := a9 j h1
    obtain ⟨y0, y1, y2, y3, y4, y5, y6, y7, y8, y9, y10⟩ := b9 j h2
    refine ⟨?_, ?_⟩
    · simp only [segFields, Prod.mk.injEq]
      refine ⟨by rw [x0, y0], bv_eq x1 y1, bv_eq x2 y2, bv_eq x3 y3, bv_eq x4 y4, bv_eq x5 y5, bv_eq x6 y6,
        bv_eq x7 y7, bv_eq x8 y8, ?_⟩
      have := x9.trans y9.symm
      exact map_toNat_inj _ _ this
    · intro ls1 ls2 h1 h2
      unfold segView
      rw [a2, b2, x10 ls1 h1, y10 ls2 h2]

/-- **lazy = eager, well-formed images** : both loads succeed and show the same header, the same
    section / segment fields, names and members, and the same data whenever and on whatever stream
    state the data is requested (composition of C02 `load_eq_spec` for both modes) -/
theorem lazy_eq_eager_wf (img : Bytes) (o : Obj) (k : StreamKind) (htr : o.trans = [])
    (hwf : C02.WellFormedImage img) :
    ∃ rl re : LoadRes, load o { data := img, kind := k } true = .ok rl ∧
      load o { data := img, kind := k } false = .ok re ∧ rl.ok = re.ok ∧ ViewEq img rl.obj re.obj := by
  obtain ⟨rl, h1, s1⟩ := C02.load_eq_spec img o k true htr hwf
  obtain ⟨re, h2, s2⟩ := C02.load_eq_spec img o k false htr hwf
  exact ⟨rl, re, h1, h2, viewEq_of_spec img rl re s1 s2⟩

example : ∃ rl re : LoadRes, load {} { data := C02.wfImage } true = .ok rl ∧
    load {} { data := C02.wfImage } false = .ok re ∧ rl.ok = re.ok ∧ ViewEq C02.wfImage rl.obj re.obj :=
  lazy_eq_eager_wf C02.wfImage {} .str rfl (by decide +kernel)

end ElfioVerif.C15
