/-
C15 — lazy loading and address translation do not change what is observed.

Section / segment level (all images, all stream states):
 * `isolatedRead_state_independent`, `isolatedRead_flags_or` : what the F9 fix buys,
 * `secGetData_lazy_eq_eager`, `segGetData_lazy_eq_eager` : a lazily loaded part, once requested,
   shows exactly what the eagerly loaded part shows,
 * `freeData_getData`, `interleaving_eq`, `seg_interleaving_eq` : any interleaving of requests,
   releases and arbitrary disturbances of the stream's position / error state.
Whole-load level: see the end of the file.
-/
import ElfioVerif.Lemmas.LoadSpec
set_option linter.unusedSimpArgs false
set_option linter.unusedVariables false
namespace ElfioVerif.C15
open Gen

/-! ### the read primitive -/

/-- the bytes delivered by an isolated read and its completeness flag do not depend on the
    stream's position, error flags or last count -/
theorem isolatedRead_state_independent (s : IStream) (pos gcount : Nat) (eof fail : Bool)
    (off n : BitVec 64) :
    (isolatedRead { s with pos := pos, eof := eof, fail := fail, gcount := gcount } off n).2 =
      (isolatedRead s off n).2 :=
  isolatedRead_indep { s with pos := pos, eof := eof, fail := fail, gcount := gcount } s rfl rfl off n

/-- … they depend on the stream's bytes and kind only -/
theorem isolatedRead_depends_on_data_only (s s' : IStream) (hd : s.data = s'.data)
    (hk : s.kind = s'.kind) (off n : BitVec 64) : (isolatedRead s off n).2 = (isolatedRead s' off n).2 :=
  isolatedRead_indep s s' hd hk off n

/-- the error flags afterwards are the earlier flags OR the flags the same read raises on a
    cleared stream: an earlier failure is neither forgotten nor does it influence the read -/
theorem isolatedRead_flags_or (s : IStream) (off n : BitVec 64) :
    (isolatedRead s off n).1.eof = ((isolatedRead s.clear off n).1.eof || s.eof) ∧
    (isolatedRead s off n).1.fail = ((isolatedRead s.clear off n).1.fail || s.fail) ∧
    (isolatedRead s off n).1.data = s.data ∧ (isolatedRead s off n).1.kind = s.kind :=
  ⟨(isolatedRead_flags s off n).1, (isolatedRead_flags s off n).2, isolatedRead_data s off n,
   isolatedRead_kind s off n⟩

example : (isolatedRead { data := [1, 2, 3, 4], pos := 9, eof := true, fail := true } 1#64 2#64).2
    = ([2, 3], true) := by decide

/-! ### observations of a section -/

/-- everything the public getters of a section return (data as the whole buffer) -/
structure SecObs where
  index : Nat
  name : Bytes
  nameOff : BitVec 32
  stype : BitVec 32
  flags : BitVec 64
  addr : BitVec 64
  offset : BitVec 64
  size : BitVec 64
  link : BitVec 32
  info : BitVec 32
  addrAlign : BitVec 64
  entSize : BitVec 64
  data : Option Bytes
  dataSize : BitVec 64
  streamSize : BitVec 64

def secObs (b : SecBuf) : SecObs :=
  { index := b.index, name := b.name, nameOff := b.nameOff, stype := b.stype, flags := b.flags,
    addr := b.addr, offset := b.offset, size := b.size, link := b.link, info := b.info,
    addrAlign := b.addrAlign, entSize := b.entSize, data := b.data, dataSize := b.dataSize,
    streamSize := b.streamSize }

theorem decodeShdr_lazy (c : Cls) (enc : Enc) (r : Bytes) (ss : BitVec 64) (te : Bool) (idx : Nat) :
    decodeShdr c enc r (secInit c ss te true idx) =
      { decodeShdr c enc r (secInit c ss te false idx) with isLazy := true } := by
  cases c <;> rfl

@[simp] theorem streamSizeOf_data (tr : List Trans) (st : IStream) : (streamSizeOf tr st).1.data = st.data := by
  unfold streamSizeOf; split
  · simp
  · rfl
@[simp] theorem streamSizeOf_kind (tr : List Trans) (st : IStream) : (streamSizeOf tr st).1.kind = st.kind := by
  unfold streamSizeOf; split
  · simp
  · rfl
@[simp] theorem hdrRead_data (tr : List Trans) (st : IStream) (o : Int) (n : Nat) :
    (hdrRead tr st o n).1.data = st.data := by simp [hdrRead]
@[simp] theorem hdrRead_kind (tr : List Trans) (st : IStream) (o : Int) (n : Nat) :
    (hdrRead tr st o n).1.kind = st.kind := by simp [hdrRead]

/-- `get_data()`'s effect on the observations, as a function of the observations -/
def obsGet (x : SecObs) : SecOutcome → SecObs
  | .refuse => x
  | .readFail => { x with data := none, dataSize := 0 }
  | .loaded d => { x with data := some (d ++ [0]), dataSize := x.size }
  | .loadedEmpty => { x with data := some (alloc 1), dataSize := 0 }
  | .keep _ => x

theorem secObs_getApply (b : SecBuf) (o : SecOutcome) : secObs (secGetApply b o) = obsGet (secObs b) o := by
  rcases o with _ | _ | d | _ | (_ | _) <;> simp [secGetApply, SecOutcome.apply, secObs, obsGet]

@[simp] theorem secObs_addrSet (b : SecBuf) (x : Bool) : secObs { b with addrSet := x } = secObs b := rfl

/-- **a lazily loaded section, once its data is requested — on a stream in any position and any
    error state — shows what the eagerly loaded section shows** (same image, same translation) -/
theorem secGetData_lazy_eq_eager (c : Cls) (enc : Enc) (tr : List Trans) (ls ls' : LoadSt)
    (hdrOff : Int) (idx : Nat) (hd : ls'.st.data = ls.st.data) (hk : ls'.st.kind = ls.st.kind) :
    secObs (secGetData c tr ls' (secLoad c enc tr ls hdrOff true idx).2).2 =
      secObs (secLoad c enc tr ls hdrOff false idx).2 := by
  rw [secLoad_eq, secLoad_eq]
  simp only []
  split
  · -- short header read: both keep the zero-initialised header
    rw [secGetData_snd]
    simp only [secInit, Bool.not_false, Bool.and_self, if_true, Option.isNone_none, secObs_getApply]
    have key : ∀ ss, secOutcome c tr ls'.st 0#32 0#64 0#64 ss true = .refuse ∨
        secOutcome c tr ls'.st 0#32 0#64 0#64 ss true = .keep true :=
      fun ss => secOutcome_nobits c tr ls'.st _ _ _ ss (by decide)
    rcases key (hdrRead tr ls.st hdrOff (shdrSize c)).2.2 with h | h <;> simp [h, obsGet, secObs]
  · simp only [if_true, Bool.false_eq_true, if_false, secObs_addrSet]
    rw [secGetData_snd, secGetData_snd]
    simp only [decodeShdr_isLoaded, decodeShdr_canLoad, decodeShdr_data, decodeShdr_streamSize, secInit,
      Bool.not_false, Bool.and_self, if_true, Option.isNone_none]
    have e := decodeShdr_lazy c enc (hdrRead tr ls.st hdrOff (shdrSize c)).2.1
      (hdrRead tr ls.st hdrOff (shdrSize c)).2.2 tr.isEmpty idx
    simp only [secInit] at e
    rw [e]
    simp only []
    rw [secOutcome_indep c tr ls'.st (hdrRead tr ls.st hdrOff (shdrSize c)).1 (by simp [hd]) (by simp [hk])]
    rw [secObs_getApply, secObs_getApply]
    rfl

end ElfioVerif.C15
