/-
C02 — the reader reports what the ELF specification says is in the file.
Record level: layouts, field decoders, membership rule.
-/
import ElfioVerif.Lemmas.Records
import ElfioVerif.Lemmas.LoadSpec
set_option linter.unusedSimpArgs false
set_option linter.unusedVariables false
namespace ElfioVerif.C02
open Gen

/-- the struct layouts and constants the implementation was compiled with are the gABI's -/
theorem layouts_eq_spec :
    layout_Elf32_Ehdr = Spec.ehdr32 ∧ layout_Elf64_Ehdr = Spec.ehdr64 ∧
    layout_Elf32_Shdr = Spec.shdr32 ∧ layout_Elf64_Shdr = Spec.shdr64 ∧
    layout_Elf32_Phdr = Spec.phdr32 ∧ layout_Elf64_Phdr = Spec.phdr64 ∧
    (∀ c, ehdrSize c = Spec.ehdrSize c ∧ shdrSize c = Spec.shdrSize c ∧ phdrSize c = Spec.phdrSize c) :=
  ⟨layout_Ehdr32, layout_Ehdr64, layout_Shdr32, layout_Shdr64, layout_Phdr32, layout_Phdr64, sizes_eq⟩

private theorem toNat_sw32 (x : BitVec 64) (h : x.toNat < 4294967296) : (x.setWidth 32).toNat = x.toNat := by
  simp only [BitVec.toNat_setWidth, Nat.reducePow]; omega
private theorem toNat_sw16 (x : BitVec 64) (h : x.toNat < 65536) : (x.setWidth 16).toNat = x.toNat := by
  simp only [BitVec.toNat_setWidth, Nat.reducePow]; omega

private theorem dec_lt (enc : Enc) (bs : Bytes) : decodeInt enc bs < 2 ^ (8 * bs.length) := by
  cases enc
  · exact leDecode_lt bs
  · have := leDecode_lt bs.reverse; simpa [decodeInt, beDecode] using this

theorem get_of_field {l : Spec.Layout} {e : Enc} {img : Bytes} {base : Nat} {name : String} {o w : Nat}
    (h : Spec.field l name = (o, w)) : Spec.get l e img base name = decodeInt e (slice img (base + o) w) := by
  simp [Spec.get, h]

/-- one field: model getter on the record = specification decoder at the specification offset -/
theorem fld64 (l : Spec.Layout) (enc : Enc) (r : Bytes) (name : String) (o w : Nat)
    (hf : Spec.field l name = (o, w)) (hw : w = 1 ∨ w = 2 ∨ w = 4 ∨ w = 8) (hr : o + w ≤ r.length) :
    (fld enc r o w).toNat = Spec.get l enc r 0 name := by
  rw [get_of_field hf, Nat.zero_add]; exact fld_eq_spec enc r o w hw hr

theorem fld32 (l : Spec.Layout) (enc : Enc) (r : Bytes) (name : String) (o : Nat)
    (hf : Spec.field l name = (o, 4)) (hr : o + 4 ≤ r.length) :
    ((fld enc r o 4).setWidth 32).toNat = Spec.get l enc r 0 name := by
  rw [← fld64 l enc r name o 4 hf (by decide) hr]
  apply toNat_sw32
  rw [fld_eq_spec enc r o 4 (by decide) hr]
  have := dec_lt enc (slice r o 4)
  rw [slice_length_of_le hr] at this; simpa using this

theorem fld16 (l : Spec.Layout) (enc : Enc) (r : Bytes) (name : String) (o : Nat)
    (hf : Spec.field l name = (o, 2)) (hr : o + 2 ≤ r.length) :
    ((fld enc r o 2).setWidth 16).toNat = Spec.get l enc r 0 name := by
  rw [← fld64 l enc r name o 2 hf (by decide) hr]
  apply toNat_sw16
  rw [fld_eq_spec enc r o 2 (by decide) hr]
  have := dec_lt enc (slice r o 2)
  rw [slice_length_of_le hr] at this; simpa using this

/-- every section-header field reported by the model's decoder is the specification codec applied
    at the specification's offset -/
theorem shdr_fields_eq_spec (c : Cls) (enc : Enc) (r : Bytes) (b : SecBuf) (h : shdrSize c ≤ r.length) :
    let s := decodeShdr c enc r b
    s.nameOff.toNat = Spec.get (Spec.shdrL c) enc r 0 "sh_name" ∧
    s.stype.toNat = Spec.get (Spec.shdrL c) enc r 0 "sh_type" ∧
    s.flags.toNat = Spec.get (Spec.shdrL c) enc r 0 "sh_flags" ∧
    s.addr.toNat = Spec.get (Spec.shdrL c) enc r 0 "sh_addr" ∧
    s.offset.toNat = Spec.get (Spec.shdrL c) enc r 0 "sh_offset" ∧
    s.size.toNat = Spec.get (Spec.shdrL c) enc r 0 "sh_size" ∧
    s.link.toNat = Spec.get (Spec.shdrL c) enc r 0 "sh_link" ∧
    s.info.toNat = Spec.get (Spec.shdrL c) enc r 0 "sh_info" ∧
    s.addrAlign.toNat = Spec.get (Spec.shdrL c) enc r 0 "sh_addralign" ∧
    s.entSize.toNat = Spec.get (Spec.shdrL c) enc r 0 "sh_entsize" := by
  cases c
  · have h' : 40 ≤ r.length := h
    exact ⟨fld32 _ enc r _ _ (by decide) (Nat.le_trans (by decide) h'), fld32 _ enc r _ _ (by decide) (Nat.le_trans (by decide) h'),
      fld64 _ enc r _ _ _ (by decide) (by decide) (Nat.le_trans (by decide) h'), fld64 _ enc r _ _ _ (by decide) (by decide) (Nat.le_trans (by decide) h'),
      fld64 _ enc r _ _ _ (by decide) (by decide) (Nat.le_trans (by decide) h'), fld64 _ enc r _ _ _ (by decide) (by decide) (Nat.le_trans (by decide) h'),
      fld32 _ enc r _ _ (by decide) (Nat.le_trans (by decide) h'), fld32 _ enc r _ _ (by decide) (Nat.le_trans (by decide) h'),
      fld64 _ enc r _ _ _ (by decide) (by decide) (Nat.le_trans (by decide) h'), fld64 _ enc r _ _ _ (by decide) (by decide) (Nat.le_trans (by decide) h')⟩
  · have h' : 64 ≤ r.length := h
    exact ⟨fld32 _ enc r _ _ (by decide) (Nat.le_trans (by decide) h'), fld32 _ enc r _ _ (by decide) (Nat.le_trans (by decide) h'),
      fld64 _ enc r _ _ _ (by decide) (by decide) (Nat.le_trans (by decide) h'), fld64 _ enc r _ _ _ (by decide) (by decide) (Nat.le_trans (by decide) h'),
      fld64 _ enc r _ _ _ (by decide) (by decide) (Nat.le_trans (by decide) h'), fld64 _ enc r _ _ _ (by decide) (by decide) (Nat.le_trans (by decide) h'),
      fld32 _ enc r _ _ (by decide) (Nat.le_trans (by decide) h'), fld32 _ enc r _ _ (by decide) (Nat.le_trans (by decide) h'),
      fld64 _ enc r _ _ _ (by decide) (by decide) (Nat.le_trans (by decide) h'), fld64 _ enc r _ _ _ (by decide) (by decide) (Nat.le_trans (by decide) h')⟩

/-- every program-header field -/
theorem phdr_fields_eq_spec (c : Cls) (enc : Enc) (r : Bytes) (g0 : Seg) (h : phdrSize c ≤ r.length) :
    let g := decodePhdr c enc r g0
    g.stype.toNat = Spec.get (Spec.phdrL c) enc r 0 "p_type" ∧
    g.flags.toNat = Spec.get (Spec.phdrL c) enc r 0 "p_flags" ∧
    g.offset.toNat = Spec.get (Spec.phdrL c) enc r 0 "p_offset" ∧
    g.vaddr.toNat = Spec.get (Spec.phdrL c) enc r 0 "p_vaddr" ∧
    g.paddr.toNat = Spec.get (Spec.phdrL c) enc r 0 "p_paddr" ∧
    g.filesz.toNat = Spec.get (Spec.phdrL c) enc r 0 "p_filesz" ∧
    g.memsz.toNat = Spec.get (Spec.phdrL c) enc r 0 "p_memsz" ∧
    g.align.toNat = Spec.get (Spec.phdrL c) enc r 0 "p_align" := by
  cases c
  · have h' : 32 ≤ r.length := h
    exact ⟨fld32 _ enc r _ _ (by decide) (Nat.le_trans (by decide) h'), fld32 _ enc r _ _ (by decide) (Nat.le_trans (by decide) h'),
      fld64 _ enc r _ _ _ (by decide) (by decide) (Nat.le_trans (by decide) h'), fld64 _ enc r _ _ _ (by decide) (by decide) (Nat.le_trans (by decide) h'),
      fld64 _ enc r _ _ _ (by decide) (by decide) (Nat.le_trans (by decide) h'), fld64 _ enc r _ _ _ (by decide) (by decide) (Nat.le_trans (by decide) h'),
      fld64 _ enc r _ _ _ (by decide) (by decide) (Nat.le_trans (by decide) h'), fld64 _ enc r _ _ _ (by decide) (by decide) (Nat.le_trans (by decide) h')⟩
  · have h' : 56 ≤ r.length := h
    exact ⟨fld32 _ enc r _ _ (by decide) (Nat.le_trans (by decide) h'), fld32 _ enc r _ _ (by decide) (Nat.le_trans (by decide) h'),
      fld64 _ enc r _ _ _ (by decide) (by decide) (Nat.le_trans (by decide) h'), fld64 _ enc r _ _ _ (by decide) (by decide) (Nat.le_trans (by decide) h'),
      fld64 _ enc r _ _ _ (by decide) (by decide) (Nat.le_trans (by decide) h'), fld64 _ enc r _ _ _ (by decide) (by decide) (Nat.le_trans (by decide) h'),
      fld64 _ enc r _ _ _ (by decide) (by decide) (Nat.le_trans (by decide) h'), fld64 _ enc r _ _ _ (by decide) (by decide) (Nat.le_trans (by decide) h')⟩

/-- every ELF-header field (the raw header struct `h` is the first `ehdrSize c` bytes of the file) -/
theorem ehdr_fields_eq_spec (c : Cls) (enc : Enc) (h : Bytes) (hl : ehdrSize c ≤ h.length) :
    (Hdr.e_type c enc h).toNat = Spec.get (Spec.ehdrL c) enc h 0 "e_type" ∧
    (Hdr.e_machine c enc h).toNat = Spec.get (Spec.ehdrL c) enc h 0 "e_machine" ∧
    (Hdr.e_version c enc h).toNat = Spec.get (Spec.ehdrL c) enc h 0 "e_version" ∧
    (Hdr.e_entry c enc h).toNat = Spec.get (Spec.ehdrL c) enc h 0 "e_entry" ∧
    (Hdr.e_phoff c enc h).toNat = Spec.get (Spec.ehdrL c) enc h 0 "e_phoff" ∧
    (Hdr.e_shoff c enc h).toNat = Spec.get (Spec.ehdrL c) enc h 0 "e_shoff" ∧
    (Hdr.e_flags c enc h).toNat = Spec.get (Spec.ehdrL c) enc h 0 "e_flags" ∧
    (Hdr.e_ehsize c enc h).toNat = Spec.get (Spec.ehdrL c) enc h 0 "e_ehsize" ∧
    (Hdr.e_phentsize c enc h).toNat = Spec.get (Spec.ehdrL c) enc h 0 "e_phentsize" ∧
    (Hdr.e_phnum c enc h).toNat = Spec.get (Spec.ehdrL c) enc h 0 "e_phnum" ∧
    (Hdr.e_shentsize c enc h).toNat = Spec.get (Spec.ehdrL c) enc h 0 "e_shentsize" ∧
    (Hdr.e_shnum c enc h).toNat = Spec.get (Spec.ehdrL c) enc h 0 "e_shnum" ∧
    (Hdr.e_shstrndx c enc h).toNat = Spec.get (Spec.ehdrL c) enc h 0 "e_shstrndx" := by
  cases c
  · have h' : 52 ≤ h.length := hl
    exact ⟨fld16 _ enc h _ _ (by decide) (Nat.le_trans (by decide) h'), fld16 _ enc h _ _ (by decide) (Nat.le_trans (by decide) h'),
      fld32 _ enc h _ _ (by decide) (Nat.le_trans (by decide) h'), fld64 _ enc h _ _ _ (by decide) (by decide) (Nat.le_trans (by decide) h'),
      fld64 _ enc h _ _ _ (by decide) (by decide) (Nat.le_trans (by decide) h'), fld64 _ enc h _ _ _ (by decide) (by decide) (Nat.le_trans (by decide) h'),
      fld32 _ enc h _ _ (by decide) (Nat.le_trans (by decide) h'), fld16 _ enc h _ _ (by decide) (Nat.le_trans (by decide) h'),
      fld16 _ enc h _ _ (by decide) (Nat.le_trans (by decide) h'), fld16 _ enc h _ _ (by decide) (Nat.le_trans (by decide) h'),
      fld16 _ enc h _ _ (by decide) (Nat.le_trans (by decide) h'), fld16 _ enc h _ _ (by decide) (Nat.le_trans (by decide) h'),
      fld16 _ enc h _ _ (by decide) (Nat.le_trans (by decide) h')⟩
  · have h' : 64 ≤ h.length := hl
    exact ⟨fld16 _ enc h _ _ (by decide) (Nat.le_trans (by decide) h'), fld16 _ enc h _ _ (by decide) (Nat.le_trans (by decide) h'),
      fld32 _ enc h _ _ (by decide) (Nat.le_trans (by decide) h'), fld64 _ enc h _ _ _ (by decide) (by decide) (Nat.le_trans (by decide) h'),
      fld64 _ enc h _ _ _ (by decide) (by decide) (Nat.le_trans (by decide) h'), fld64 _ enc h _ _ _ (by decide) (by decide) (Nat.le_trans (by decide) h'),
      fld32 _ enc h _ _ (by decide) (Nat.le_trans (by decide) h'), fld16 _ enc h _ _ (by decide) (Nat.le_trans (by decide) h'),
      fld16 _ enc h _ _ (by decide) (Nat.le_trans (by decide) h'), fld16 _ enc h _ _ (by decide) (Nat.le_trans (by decide) h'),
      fld16 _ enc h _ _ (by decide) (Nat.le_trans (by decide) h'), fld16 _ enc h _ _ (by decide) (Nat.le_trans (by decide) h'),
      fld16 _ enc h _ _ (by decide) (Nat.le_trans (by decide) h')⟩

private theorem bit_div (x : BitVec 64) (i : Nat) : x.getLsbD i = (x.toNat / 2 ^ i % 2 == 1) := by
  simp only [BitVec.getLsbD, Nat.testBit_eq_decide_div_mod_eq]
  rw [Bool.eq_iff_iff]; simp

/-- **membership** : the generated test (`is_sect_in_seg` on addresses or offsets, with the TLS
    exclusion) is the specification's section-in-segment rule whenever none of the four range ends
    wraps around 2^64 -/
theorem member_eq_spec (g : Seg) (b : SecBuf)
    (h1 : b.addr.toNat + b.size.toNat < 18446744073709551616)
    (h2 : b.offset.toNat + b.size.toNat < 18446744073709551616)
    (h3 : g.vaddr.toNat + g.memsz.toNat < 18446744073709551616)
    (h4 : g.offset.toNat + g.filesz.toNat < 18446744073709551616) :
    memberOf g b = Spec.inSegment b.flags.toNat b.addr.toNat b.offset.toNat b.size.toNat
      g.stype.toNat g.offset.toNat g.vaddr.toNat g.filesz.toNat g.memsz.toNat := by
  have ha := b.addr.isLt; have ho := b.offset.isLt; have hs := b.size.isLt
  have hv := g.vaddr.isLt; have hgo := g.offset.isLt
  simp only [Nat.reducePow] at ha ho hs hv hgo
  unfold memberOf load_segments_member load_segments_tls_skip is_sect_in_seg
    load_segments_seg_end_off load_segments_seg_end_addr Spec.inSegment
  have c1 : BitVec.ofNat 64 SHF_ALLOC = 2#64 := rfl
  have c2 : BitVec.ofNat 64 SHF_TLS = 1024#64 := rfl
  have c3 : BitVec.ofNat 32 PT_TLS = 7#32 := rfl
  rw [c1, c2, c3]
  simp only [and_eq_bit1, and_eq_bit10, and_ne_bit10, bit_div, Spec.SHF_ALLOC, Spec.SHF_TLS, Spec.PT_TLS]
  have e1 : (b.addr + b.size).toNat = b.addr.toNat + b.size.toNat := by
    rw [BitVec.toNat_add]; simp only [Nat.reducePow]; omega
  have e2 : (b.offset + b.size).toNat = b.offset.toNat + b.size.toNat := by
    rw [BitVec.toNat_add]; simp only [Nat.reducePow]; omega
  have e3 : (g.vaddr + g.memsz).toNat = g.vaddr.toNat + g.memsz.toNat := by
    rw [BitVec.toNat_add]; simp only [Nat.reducePow]; omega
  have e4 : (g.offset + g.filesz).toNat = g.offset.toNat + g.filesz.toNat := by
    rw [BitVec.toNat_add]; simp only [Nat.reducePow]; omega
  have t : (g.stype == 7#32) = (g.stype.toNat == 7) := by
    rw [Bool.eq_iff_iff]; simp [BitVec.toNat_eq]
  have t' : (g.stype != 7#32) = !(g.stype.toNat == 7) := by
    simp [bne, t]
  simp only [BitVec.ule, BitVec.ult, e1, e2, e3, e4, t, t', Nat.reducePow]
  rcases Bool.eq_false_or_eq_true (b.flags.toNat / 2 % 2 == 1) with hA | hA <;>
  rcases Bool.eq_false_or_eq_true (b.flags.toNat / 1024 % 2 == 1) with hT | hT <;>
  rcases Bool.eq_false_or_eq_true (g.stype.toNat == 7) with hG | hG <;>
  simp [hA, hT, hG]

/-! ## Whole-load theorems

Specification side first (written against Spec/Records.lean only), then the bridge from the
specification-level well-formedness to the numeric hypotheses of Lemmas/LoadSpec.lean, then
`load_eq_spec`. -/

/-! ### the specification's view of an image -/

def identByte (img : Bytes) (i : Nat) : Nat := (img.getD i 0).toNat
def clsOf (img : Bytes) : Cls := if identByte img Spec.EI_CLASS = Spec.ELFCLASS64 then .c64 else .c32
def encOf (img : Bytes) : Enc := if identByte img Spec.EI_DATA = Spec.ELFDATA2MSB then .msb else .lsb
/-- ELF-header field by name -/
def eh (img : Bytes) (f : String) : Nat := Spec.get (Spec.ehdrL (clsOf img)) (encOf img) img 0 f
def shBase (img : Bytes) (i : Nat) : Nat := eh img "e_shoff" + i * eh img "e_shentsize"
def phBase (img : Bytes) (j : Nat) : Nat := eh img "e_phoff" + j * eh img "e_phentsize"
/-- field of section header `i` / program header `j` by name -/
def sh (img : Bytes) (i : Nat) (f : String) : Nat := Spec.get (Spec.shdrL (clsOf img)) (encOf img) img (shBase img i) f
def ph (img : Bytes) (j : Nat) (f : String) : Nat := Spec.get (Spec.phdrL (clsOf img)) (encOf img) img (phBase img j) f
def occupiesFile (ty : Nat) : Bool := ty != Spec.SHT_NULL && ty != Spec.SHT_NOBITS
def segHasData (img : Bytes) (j : Nat) : Bool := ph img j "p_type" != Spec.PT_NULL && ph img j "p_filesz" != 0
/-- the file bytes of section `i` / segment `j` -/
def secFileBytes (img : Bytes) (i : Nat) : Bytes :=
  if occupiesFile (sh img i "sh_type") then slice img (sh img i "sh_offset") (sh img i "sh_size") else []
def segFileBytes (img : Bytes) (j : Nat) : Bytes :=
  if segHasData img j then slice img (ph img j "p_offset") (ph img j "p_filesz") else []
/-- the section-name string table -/
def shstrtab (img : Bytes) : Option Bytes :=
  if eh img "e_shstrndx" = Spec.SHN_UNDEF then none else some (secFileBytes img (eh img "e_shstrndx"))
def secName (img : Bytes) (i : Nat) : Bytes :=
  match shstrtab img with
  | none => []
  | some T => (Spec.cstrAt T (sh img i "sh_name")).getD []
/-- the specification's members of segment `j` -/
def members (img : Bytes) (j : Nat) : List Nat :=
  (List.range (eh img "e_shnum")).filter (fun i =>
    Spec.inSegment (sh img i "sh_flags") (sh img i "sh_addr") (sh img i "sh_offset") (sh img i "sh_size")
      (ph img j "p_type") (ph img j "p_offset") (ph img j "p_vaddr") (ph img j "p_filesz") (ph img j "p_memsz"))

/-- **well-formed ELF image** (decidable; specification vocabulary only) -/
def WellFormedImage (img : Bytes) : Prop :=
  img.take 4 = Spec.ELFMAG ∧
  (identByte img Spec.EI_CLASS = Spec.ELFCLASS32 ∨ identByte img Spec.EI_CLASS = Spec.ELFCLASS64) ∧
  (identByte img Spec.EI_DATA = Spec.ELFDATA2LSB ∨ identByte img Spec.EI_DATA = Spec.ELFDATA2MSB) ∧
  Spec.ehdrSize (clsOf img) ≤ img.length ∧ img.length < 9223372036854775808 ∧
  (eh img "e_shnum" ≠ 0 → Spec.shdrSize (clsOf img) ≤ eh img "e_shentsize") ∧
  (eh img "e_phnum" ≠ 0 → Spec.phdrSize (clsOf img) ≤ eh img "e_phentsize") ∧
  (∀ i, i < eh img "e_shnum" →
    shBase img i + Spec.shdrSize (clsOf img) ≤ img.length ∧
    (occupiesFile (sh img i "sh_type") = true → sh img i "sh_offset" + sh img i "sh_size" ≤ img.length) ∧
    sh img i "sh_addr" + sh img i "sh_size" < 18446744073709551616 ∧
    sh img i "sh_offset" + sh img i "sh_size" < 18446744073709551616) ∧
  (∀ j, j < eh img "e_phnum" →
    phBase img j + Spec.phdrSize (clsOf img) ≤ img.length ∧
    (segHasData img j = true → ph img j "p_offset" + ph img j "p_filesz" ≤ img.length) ∧
    ph img j "p_vaddr" + ph img j "p_memsz" < 18446744073709551616 ∧
    ph img j "p_offset" + ph img j "p_filesz" < 18446744073709551616) ∧
  (eh img "e_shstrndx" = Spec.SHN_UNDEF ∨ eh img "e_shstrndx" < eh img "e_shnum") ∧
  (eh img "e_shstrndx" ≠ Spec.SHN_UNDEF → ∀ i, i < eh img "e_shnum" →
    (Spec.cstrAt (secFileBytes img (eh img "e_shstrndx")) (sh img i "sh_name")).isSome = true)

instance (img : Bytes) : Decidable (WellFormedImage img) := by
  unfold WellFormedImage; infer_instance

/-! ### bridge: specification fields of the image = model fields of the decoded records -/

theorem slice_slice (b : Bytes) (a n o w : Nat) (h : o + w ≤ n) :
    slice (slice b a n) o w = slice b (a + o) w := by
  unfold slice
  apply List.ext_getElem?
  intro i
  simp only [List.getElem?_take, List.getElem?_drop]
  repeat' split
  all_goals first | rfl | omega | (exfalso; omega) | (congr 1; omega) | (simp_all; try omega)

theorem get_slice (L : Spec.Layout) (enc : Enc) (img : Bytes) (base n : Nat) (name : String)
    (h : (Spec.field L name).1 + (Spec.field L name).2 ≤ n) :
    Spec.get L enc (slice img base n) 0 name = Spec.get L enc img base name := by
  unfold Spec.get
  simp only [Nat.zero_add]
  rw [slice_slice _ _ _ _ _ h]

theorem ehdr_bridge (img : Bytes) (c : Cls) (enc : Enc) (hl : ehdrSize c ≤ img.length) :
    (Hdr.e_type c enc (slice img 0 (ehdrSize c))).toNat = Spec.get (Spec.ehdrL c) enc img 0 "e_type" ∧
    (Hdr.e_machine c enc (slice img 0 (ehdrSize c))).toNat = Spec.get (Spec.ehdrL c) enc img 0 "e_machine" ∧
    (Hdr.e_version c enc (slice img 0 (ehdrSize c))).toNat = Spec.get (Spec.ehdrL c) enc img 0 "e_version" ∧
    (Hdr.e_entry c enc (slice img 0 (ehdrSize c))).toNat = Spec.get (Spec.ehdrL c) enc img 0 "e_entry" ∧
    (Hdr.e_phoff c enc (slice img 0 (ehdrSize c))).toNat = Spec.get (Spec.ehdrL c) enc img 0 "e_phoff" ∧
    (Hdr.e_shoff c enc (slice img 0 (ehdrSize c))).toNat = Spec.get (Spec.ehdrL c) enc img 0 "e_shoff" ∧
    (Hdr.e_flags c enc (slice img 0 (ehdrSize c))).toNat = Spec.get (Spec.ehdrL c) enc img 0 "e_flags" ∧
    (Hdr.e_ehsize c enc (slice img 0 (ehdrSize c))).toNat = Spec.get (Spec.ehdrL c) enc img 0 "e_ehsize" ∧
    (Hdr.e_phentsize c enc (slice img 0 (ehdrSize c))).toNat = Spec.get (Spec.ehdrL c) enc img 0 "e_phentsize" ∧
    (Hdr.e_phnum c enc (slice img 0 (ehdrSize c))).toNat = Spec.get (Spec.ehdrL c) enc img 0 "e_phnum" ∧
    (Hdr.e_shentsize c enc (slice img 0 (ehdrSize c))).toNat = Spec.get (Spec.ehdrL c) enc img 0 "e_shentsize" ∧
    (Hdr.e_shnum c enc (slice img 0 (ehdrSize c))).toNat = Spec.get (Spec.ehdrL c) enc img 0 "e_shnum" ∧
    (Hdr.e_shstrndx c enc (slice img 0 (ehdrSize c))).toNat = Spec.get (Spec.ehdrL c) enc img 0 "e_shstrndx" := by
  have hlen : ehdrSize c ≤ (slice img 0 (ehdrSize c)).length := by
    rw [slice_length_of_le (by omega)]; exact Nat.le_refl _
  have h := ehdr_fields_eq_spec c enc (slice img 0 (ehdrSize c)) hlen
  have g := fun name hh => get_slice (Spec.ehdrL c) enc img 0 (ehdrSize c) name hh
  rw [g "e_type" (by cases c <;> decide), g "e_machine" (by cases c <;> decide),
    g "e_version" (by cases c <;> decide), g "e_entry" (by cases c <;> decide),
    g "e_phoff" (by cases c <;> decide), g "e_shoff" (by cases c <;> decide),
    g "e_flags" (by cases c <;> decide), g "e_ehsize" (by cases c <;> decide),
    g "e_phentsize" (by cases c <;> decide), g "e_phnum" (by cases c <;> decide),
    g "e_shentsize" (by cases c <;> decide), g "e_shnum" (by cases c <;> decide),
    g "e_shstrndx" (by cases c <;> decide)] at h
  exact h

theorem secHdr_bridge (img : Bytes) (c : Cls) (enc : Enc) (k : Nat) (isLazy : Bool) (idx : Nat)
    (hk : k + shdrSize c ≤ img.length) :
    (secHdr c enc img k isLazy idx).nameOff.toNat = Spec.get (Spec.shdrL c) enc img k "sh_name" ∧
    (secHdr c enc img k isLazy idx).stype.toNat = Spec.get (Spec.shdrL c) enc img k "sh_type" ∧
    (secHdr c enc img k isLazy idx).flags.toNat = Spec.get (Spec.shdrL c) enc img k "sh_flags" ∧
    (secHdr c enc img k isLazy idx).addr.toNat = Spec.get (Spec.shdrL c) enc img k "sh_addr" ∧
    (secHdr c enc img k isLazy idx).offset.toNat = Spec.get (Spec.shdrL c) enc img k "sh_offset" ∧
    (secHdr c enc img k isLazy idx).size.toNat = Spec.get (Spec.shdrL c) enc img k "sh_size" ∧
    (secHdr c enc img k isLazy idx).link.toNat = Spec.get (Spec.shdrL c) enc img k "sh_link" ∧
    (secHdr c enc img k isLazy idx).info.toNat = Spec.get (Spec.shdrL c) enc img k "sh_info" ∧
    (secHdr c enc img k isLazy idx).addrAlign.toNat = Spec.get (Spec.shdrL c) enc img k "sh_addralign" ∧
    (secHdr c enc img k isLazy idx).entSize.toNat = Spec.get (Spec.shdrL c) enc img k "sh_entsize" := by
  have hlen : shdrSize c ≤ (slice img k (shdrSize c)).length := by
    rw [slice_length_of_le hk]; exact Nat.le_refl _
  have h := shdr_fields_eq_spec c enc (slice img k (shdrSize c))
    (secInit c (BitVec.ofNat 64 img.length) true isLazy idx) hlen
  have g := fun name hh => get_slice (Spec.shdrL c) enc img k (shdrSize c) name hh
  simp only [] at h
  rw [g "sh_name" (by cases c <;> decide), g "sh_type" (by cases c <;> decide),
    g "sh_flags" (by cases c <;> decide), g "sh_addr" (by cases c <;> decide),
    g "sh_offset" (by cases c <;> decide), g "sh_size" (by cases c <;> decide),
    g "sh_link" (by cases c <;> decide), g "sh_info" (by cases c <;> decide),
    g "sh_addralign" (by cases c <;> decide), g "sh_entsize" (by cases c <;> decide)] at h
  exact h

theorem segHdr_bridge (img : Bytes) (c : Cls) (enc : Enc) (k : Nat) (isLazy : Bool)
    (hk : k + phdrSize c ≤ img.length) :
    (segHdr_ls c enc img k isLazy).stype.toNat = Spec.get (Spec.phdrL c) enc img k "p_type" ∧
    (segHdr_ls c enc img k isLazy).flags.toNat = Spec.get (Spec.phdrL c) enc img k "p_flags" ∧
    (segHdr_ls c enc img k isLazy).offset.toNat = Spec.get (Spec.phdrL c) enc img k "p_offset" ∧
    (segHdr_ls c enc img k isLazy).vaddr.toNat = Spec.get (Spec.phdrL c) enc img k "p_vaddr" ∧
    (segHdr_ls c enc img k isLazy).paddr.toNat = Spec.get (Spec.phdrL c) enc img k "p_paddr" ∧
    (segHdr_ls c enc img k isLazy).filesz.toNat = Spec.get (Spec.phdrL c) enc img k "p_filesz" ∧
    (segHdr_ls c enc img k isLazy).memsz.toNat = Spec.get (Spec.phdrL c) enc img k "p_memsz" ∧
    (segHdr_ls c enc img k isLazy).align.toNat = Spec.get (Spec.phdrL c) enc img k "p_align" := by
  have hlen : phdrSize c ≤ (slice img k (phdrSize c)).length := by
    rw [slice_length_of_le hk]; exact Nat.le_refl _
  have h := phdr_fields_eq_spec c enc (slice img k (phdrSize c))
    (segInit_ls (BitVec.ofNat 64 img.length) isLazy) hlen
  have g := fun name hh => get_slice (Spec.phdrL c) enc img k (phdrSize c) name hh
  simp only [] at h
  rw [g "p_type" (by cases c <;> decide), g "p_flags" (by cases c <;> decide),
    g "p_offset" (by cases c <;> decide), g "p_vaddr" (by cases c <;> decide),
    g "p_paddr" (by cases c <;> decide), g "p_filesz" (by cases c <;> decide),
    g "p_memsz" (by cases c <;> decide), g "p_align" (by cases c <;> decide)] at h
  exact h

theorem beq32 (t : BitVec 32) (k : Nat) (hk : k < 4294967296) : (t == BitVec.ofNat 32 k) = (t.toNat == k) := by
  rw [Bool.eq_iff_iff]
  simp only [beq_iff_eq]
  constructor
  · intro h; rw [h]; simp only [BitVec.toNat_ofNat, Nat.reducePow]; omega
  · intro h; apply BitVec.eq_of_toNat_eq; simp only [BitVec.toNat_ofNat, Nat.reducePow]; omega

theorem isNullOrNobits_eq (t : BitVec 32) : isNullOrNobitsTy t = !occupiesFile t.toNat := by
  unfold isNullOrNobitsTy occupiesFile
  rw [beq32 t SHT_NULL (by decide), beq32 t SHT_NOBITS (by decide)]
  have e1 : SHT_NULL = Spec.SHT_NULL := rfl
  have e2 : SHT_NOBITS = Spec.SHT_NOBITS := rfl
  rw [e1, e2]
  simp only [bne]
  generalize (t.toNat == Spec.SHT_NULL) = a
  generalize (t.toNat == Spec.SHT_NOBITS) = b
  cases a <;> cases b <;> rfl

theorem segSkip_eq (g : Seg) : segSkip g = (g.stype.toNat == Spec.PT_NULL || g.filesz.toNat == 0) := by
  unfold segSkip seg64_load_data_skip
  have e1 : BitVec.signExtend 64 0#32 = 0#64 := by decide
  rw [e1, Bool.eq_iff_iff]
  simp only [Bool.or_eq_true, beq_iff_eq]
  have e2 : PT_NULL = Spec.PT_NULL := rfl
  constructor
  · rintro (h | h)
    · left; rw [← h]; simp only [BitVec.toNat_ofNat, Nat.reducePow, ← e2]; decide
    · right; rw [← h]; rfl
  · rintro (h | h)
    · left; apply BitVec.eq_of_toNat_eq; rw [h]; decide
    · right; apply BitVec.eq_of_toNat_eq; rw [h]; rfl

theorem filter_index_range' {α} (p : α → Bool) (idx : α → Nat) (q : Nat → Bool) :
    ∀ (l : List α) (s : Nat), (∀ i (h : i < l.length), idx l[i] = s + i) →
      (∀ i (h : i < l.length), p l[i] = q (s + i)) →
      (l.filter p).map idx = (List.range' s l.length).filter q := by
  intro l
  induction l with
  | nil => intro s _ _; rfl
  | cons a l ih =>
    intro s h1 h2
    have ha1 := h1 0 (by simp)
    have ha2 := h2 0 (by simp)
    simp only [List.getElem_cons_zero, Nat.add_zero] at ha1 ha2
    have ih' := ih (s + 1)
      (fun i h => by have := h1 (i + 1) (by simp; omega); simp only [List.getElem_cons_succ] at this; omega)
      (fun i h => by have := h2 (i + 1) (by simp; omega); simp only [List.getElem_cons_succ] at this
                     rw [this]; congr 1; omega)
    simp only [List.length_cons, List.range'_succ, List.filter_cons, ha2]
    cases q s
    · simpa using ih'
    · simp [ha1, ih']

theorem filter_index_range {α} (p : α → Bool) (idx : α → Nat) (q : Nat → Bool) (l : List α)
    (h1 : ∀ i (h : i < l.length), idx l[i] = i) (h2 : ∀ i (h : i < l.length), p l[i] = q i) :
    (l.filter p).map idx = (List.range l.length).filter q := by
  rw [List.range_eq_range']
  exact filter_index_range' p idx q l 0 (by simpa using h1) (by simpa using h2)

theorem entsize_ok (num : BitVec 16) (clsB : BitVec 8) (ent : BitVec 16) (sz32 sz64 : Nat)
    (h32 : sz32 < 65536) (h64 : sz64 < 65536)
    (h : num.toNat ≠ 0 → (clsB = 1#8 → sz32 ≤ ent.toNat) ∧ (clsB = 2#8 → sz64 ≤ ent.toNat)) :
    (((((BitVec.setWidth 32 num) != 0#32) && ((BitVec.setWidth 32 clsB) == (BitVec.setWidth 32 (BitVec.ofNat 8 Gen.ELFCLASS64)))) && (BitVec.ult (BitVec.setWidth 64 ent) (BitVec.ofNat 64 sz64))) || ((((BitVec.setWidth 32 num) != 0#32) && ((BitVec.setWidth 32 clsB) == (BitVec.setWidth 32 (BitVec.ofNat 8 Gen.ELFCLASS32)))) && (BitVec.ult (BitVec.setWidth 64 ent) (BitVec.ofNat 64 sz32)))) = false := by
  by_cases hn : num.toNat = 0
  · have : num = 0#16 := BitVec.eq_of_toNat_eq (by simpa using hn)
    subst this; simp
  · obtain ⟨a, b⟩ := h hn
    have hne : (BitVec.setWidth 32 num != 0#32) = true := by
      simp only [bne_iff_ne, ne_eq]
      intro hh
      have := congrArg BitVec.toNat hh
      simp only [BitVec.toNat_setWidth, BitVec.toNat_ofNat, Nat.reducePow] at this
      have := num.isLt
      omega
    have c64 : BitVec.setWidth 32 (BitVec.ofNat 8 Gen.ELFCLASS64) = 2#32 := by decide
    have c32 : BitVec.setWidth 32 (BitVec.ofNat 8 Gen.ELFCLASS32) = 1#32 := by decide
    rw [hne, c64, c32]
    simp only [Bool.true_and, Bool.or_eq_false_iff, Bool.and_eq_false_iff]
    have he := ent.isLt
    constructor
    · by_cases hc : clsB = 2#8
      · right
        have := b hc
        simp only [BitVec.ult, BitVec.toNat_setWidth, BitVec.toNat_ofNat, Nat.reducePow, decide_eq_false_iff_not]
        omega
      · left
        simp only [beq_eq_false_iff_ne, ne_eq]
        intro hh; apply hc
        apply BitVec.eq_of_toNat_eq
        have := congrArg BitVec.toNat hh
        simp only [BitVec.toNat_setWidth, BitVec.toNat_ofNat, Nat.reducePow] at this
        have := clsB.isLt
        simp only [BitVec.toNat_ofNat, Nat.reducePow]
        omega
    · by_cases hc : clsB = 1#8
      · right
        have := a hc
        simp only [BitVec.ult, BitVec.toNat_setWidth, BitVec.toNat_ofNat, Nat.reducePow, decide_eq_false_iff_not]
        omega
      · left
        simp only [beq_eq_false_iff_ne, ne_eq]
        intro hh; apply hc
        apply BitVec.eq_of_toNat_eq
        have := congrArg BitVec.toNat hh
        simp only [BitVec.toNat_setWidth, BitVec.toNat_ofNat, Nat.reducePow] at this
        have := clsB.isLt
        simp only [BitVec.toNat_ofNat, Nat.reducePow]
        omega


/-! ### small spec-to-model facts -/

theorem cls_gate (img : Bytes)
    (h : identByte img Spec.EI_CLASS = Spec.ELFCLASS32 ∨ identByte img Spec.EI_CLASS = Spec.ELFCLASS64) :
    clsOfByte (img.getD Gen.EI_CLASS 0).toNat = some (clsOf img) := by
  have e : (img.getD Gen.EI_CLASS 0).toNat = identByte img Spec.EI_CLASS := rfl
  rw [e]
  rcases h with h | h <;> rw [clsOf, h] <;> decide

theorem enc_gate (img : Bytes)
    (h : identByte img Spec.EI_DATA = Spec.ELFDATA2LSB ∨ identByte img Spec.EI_DATA = Spec.ELFDATA2MSB) :
    encOfByte (img.getD Gen.EI_DATA 0).toNat = some (encOf img) := by
  have e : (img.getD Gen.EI_DATA 0).toNat = identByte img Spec.EI_DATA := rfl
  rw [e]
  rcases h with h | h <;> rw [encOf, h] <;> decide

theorem magic_gate (img : Bytes) (h : img.take 4 = Spec.ELFMAG) :
    (img.getD 0 0).toNat = ELFMAG0 ∧ (img.getD 1 0).toNat = ELFMAG1 ∧
    (img.getD 2 0).toNat = ELFMAG2 ∧ (img.getD 3 0).toNat = ELFMAG3 := by
  have g : ∀ i, i < 4 → img.getD i 0 = (img.take 4).getD i 0 := by
    intro i hi
    simp [List.getD_eq_getElem?_getD, List.getElem?_take, hi]
  rw [g 0 (by decide), g 1 (by decide), g 2 (by decide), g 3 (by decide), h]
  decide

theorem secData_take (img : Bytes) (b : SecBuf)
    (hin : isNullOrNobitsTy b.stype = false → b.offset.toNat + b.size.toNat ≤ img.length) :
    ((secData_ls img b).1.getD []).take b.size.toNat = secBytes img b := by
  unfold secData_ls secBytes
  cases hty : isNullOrNobitsTy b.stype
  · have hi := hin hty
    by_cases hz : b.size = 0
    · simp [hz, slice]
    · simp only [Bool.false_eq_true, if_false, hz, Option.getD_some]
      have hl : (slice img b.offset.toNat b.size.toNat).length = b.size.toNat := slice_length_of_le hi
      rw [List.take_append_of_le_length (by omega), List.take_of_length_le (by omega)]
  · simp

theorem secBytes_bridge (img : Bytes) (isLazy : Bool) (i : Nat)
    (hk : shBase img i + shdrSize (clsOf img) ≤ img.length) :
    secBytes img (secHdr (clsOf img) (encOf img) img (shBase img i) isLazy i) = secFileBytes img i := by
  obtain ⟨_, h2, _, _, h5, h6, _⟩ := secHdr_bridge img (clsOf img) (encOf img) (shBase img i) isLazy i hk
  unfold secBytes secFileBytes sh
  rw [isNullOrNobits_eq, h2, h5, h6]
  cases occupiesFile (Spec.get (Spec.shdrL (clsOf img)) (encOf img) img (shBase img i) "sh_type") <;> rfl


/-! ### what the loaded object must show -/

/-- the raw header struct is the file's first bytes and every getter returns the specification's
    field -/
def HeaderSpec (img : Bytes) (h : Bytes) : Prop :=
  h = slice img 0 (Spec.ehdrSize (clsOf img)) ∧
  (Hdr.e_type (clsOf img) (encOf img) h).toNat = eh img "e_type" ∧
  (Hdr.e_machine (clsOf img) (encOf img) h).toNat = eh img "e_machine" ∧
  (Hdr.e_version (clsOf img) (encOf img) h).toNat = eh img "e_version" ∧
  (Hdr.e_entry (clsOf img) (encOf img) h).toNat = eh img "e_entry" ∧
  (Hdr.e_phoff (clsOf img) (encOf img) h).toNat = eh img "e_phoff" ∧
  (Hdr.e_shoff (clsOf img) (encOf img) h).toNat = eh img "e_shoff" ∧
  (Hdr.e_flags (clsOf img) (encOf img) h).toNat = eh img "e_flags" ∧
  (Hdr.e_ehsize (clsOf img) (encOf img) h).toNat = eh img "e_ehsize" ∧
  (Hdr.e_phentsize (clsOf img) (encOf img) h).toNat = eh img "e_phentsize" ∧
  (Hdr.e_phnum (clsOf img) (encOf img) h).toNat = eh img "e_phnum" ∧
  (Hdr.e_shentsize (clsOf img) (encOf img) h).toNat = eh img "e_shentsize" ∧
  (Hdr.e_shnum (clsOf img) (encOf img) h).toNat = eh img "e_shnum" ∧
  (Hdr.e_shstrndx (clsOf img) (encOf img) h).toNat = eh img "e_shstrndx"

/-- section `i` : every header field, the name, and the data a request delivers on any stream
    over the image (whatever its position / error state) -/
def SectionSpec (img : Bytes) (i : Nat) (b : SecBuf) : Prop :=
  b.index = i ∧
  b.nameOff.toNat = sh img i "sh_name" ∧ b.stype.toNat = sh img i "sh_type" ∧
  b.flags.toNat = sh img i "sh_flags" ∧ b.addr.toNat = sh img i "sh_addr" ∧
  b.offset.toNat = sh img i "sh_offset" ∧ b.size.toNat = sh img i "sh_size" ∧
  b.link.toNat = sh img i "sh_link" ∧ b.info.toNat = sh img i "sh_info" ∧
  b.addrAlign.toNat = sh img i "sh_addralign" ∧ b.entSize.toNat = sh img i "sh_entsize" ∧
  b.name = secName img i ∧
  ∀ ls : LoadSt, ls.st.data = img →
    (((secGetData (clsOf img) [] ls b).2.data.getD []).take (secGetData (clsOf img) [] ls b).2.size.toNat
      = secFileBytes img i)

def SegmentSpec (img : Bytes) (j : Nat) (g : Seg) : Prop :=
  g.index = j ∧
  g.stype.toNat = ph img j "p_type" ∧ g.flags.toNat = ph img j "p_flags" ∧
  g.offset.toNat = ph img j "p_offset" ∧ g.vaddr.toNat = ph img j "p_vaddr" ∧
  g.paddr.toNat = ph img j "p_paddr" ∧ g.filesz.toNat = ph img j "p_filesz" ∧
  g.memsz.toNat = ph img j "p_memsz" ∧ g.align.toNat = ph img j "p_align" ∧
  g.secs.map (·.toNat) = members img j ∧
  ∀ ls : LoadSt, ls.st.data = img →
    (((segGetData (clsOf img) [] ls g).2.data.getD []).take g.filesz.toNat = segFileBytes img j)

/-- section rung, per section: a section in the state the loader leaves it shows the specification's
    values -/
theorem SectionSpec_of_SecSt (img : Bytes) (isLazy : Bool) (i : Nat) (res : Bool) (b : SecBuf)
    (h63 : img.length < 9223372036854775808)
    (hk : shBase img i + shdrSize (clsOf img) ≤ img.length)
    (hin : SecInside img.length (secHdr (clsOf img) (encOf img) img (shBase img i) isLazy i))
    (hb : SecSt (clsOf img) (encOf img) img (shBase img i) isLazy i res (secName img i) b) :
    SectionSpec img i b := by
  obtain ⟨f1, f2, f3, f4, f5, f6, f7, f8, f9, f10⟩ :=
    secHdr_bridge img (clsOf img) (encOf img) (shBase img i) isLazy i hk
  have hidx : (secHdr (clsOf img) (encOf img) img (shBase img i) isLazy i).index = i := by
    simp [secHdr, secInit]
  obtain ⟨fd, L, hbe, hL⟩ := id hb
  refine ⟨by rw [hbe]; exact hidx, by rw [hbe]; exact f1, by rw [hbe]; exact f2, by rw [hbe]; exact f3,
    by rw [hbe]; exact f4, by rw [hbe]; exact f5, by rw [hbe]; exact f6, by rw [hbe]; exact f7,
    by rw [hbe]; exact f8, by rw [hbe]; exact f9, by rw [hbe]; exact f10, by rw [hbe], ?_⟩
  intro ls hd
  obtain ⟨⟨fd', L', hg, _⟩, _⟩ := secGetData_SecSt _ _ img _ isLazy i res _ b ls hd h63 hin hb
  rw [hg]
  simp only [if_true]
  rw [secData_take img _ hin, secBytes_bridge img isLazy i hk]


theorem segData_take (img : Bytes) (j : Nat) (isLazy : Bool)
    (hk : phBase img j + phdrSize (clsOf img) ≤ img.length)
    (hin : SegInside img.length (segHdr_ls (clsOf img) (encOf img) img (phBase img j) isLazy)) :
    ((segData img (segHdr_ls (clsOf img) (encOf img) img (phBase img j) isLazy)).getD []).take
        (segHdr_ls (clsOf img) (encOf img) img (phBase img j) isLazy).filesz.toNat = segFileBytes img j := by
  obtain ⟨g1, _, g3, _, _, g6, _, _⟩ := segHdr_bridge img (clsOf img) (encOf img) (phBase img j) isLazy hk
  unfold segData segFileBytes segHasData ph
  have hs := segSkip_eq (segHdr_ls (clsOf img) (encOf img) img (phBase img j) isLazy)
  rw [g1, g6] at hs
  cases hsk : segSkip (segHdr_ls (clsOf img) (encOf img) img (phBase img j) isLazy)
  · have hi := hin hsk
    rw [hsk] at hs
    have hs' : (Spec.get (Spec.phdrL (clsOf img)) (encOf img) img (phBase img j) "p_type" != Spec.PT_NULL &&
        Spec.get (Spec.phdrL (clsOf img)) (encOf img) img (phBase img j) "p_filesz" != 0) = true := by
      simp only [bne, ← Bool.not_or, ← hs, Bool.not_false]
    simp only [hs', if_true, Bool.false_eq_true, if_false, Option.getD_some]
    have hl : (slice img (segHdr_ls (clsOf img) (encOf img) img (phBase img j) isLazy).offset.toNat
        (segHdr_ls (clsOf img) (encOf img) img (phBase img j) isLazy).filesz.toNat).length =
        (segHdr_ls (clsOf img) (encOf img) img (phBase img j) isLazy).filesz.toNat := slice_length_of_le hi
    rw [List.take_append_of_le_length (by omega), List.take_of_length_le (by omega), g3, g6]
  · rw [hsk] at hs
    have hs' : (Spec.get (Spec.phdrL (clsOf img)) (encOf img) img (phBase img j) "p_type" != Spec.PT_NULL &&
        Spec.get (Spec.phdrL (clsOf img)) (encOf img) img (phBase img j) "p_filesz" != 0) = false := by
      simp only [bne, ← Bool.not_or, ← hs, Bool.not_true]
    simp [hs']

/-- segment rung, per segment (including membership) -/
theorem SegmentSpec_of_segFinal (img : Bytes) (isLazy : Bool) (j : Nat) (secs : List SecBuf)
    (h63 : img.length < 9223372036854775808)
    (hk : phBase img j + phdrSize (clsOf img) ≤ img.length)
    (hin : SegInside img.length (segHdr_ls (clsOf img) (encOf img) img (phBase img j) isLazy))
    (hw1 : ph img j "p_vaddr" + ph img j "p_memsz" < 18446744073709551616)
    (hw2 : ph img j "p_offset" + ph img j "p_filesz" < 18446744073709551616)
    (hlen : secs.length = eh img "e_shnum") (hn : eh img "e_shnum" < 65536)
    (hsecs : ∀ i (h : i < secs.length), SectionSpec img i secs[i] ∧
      sh img i "sh_addr" + sh img i "sh_size" < 18446744073709551616 ∧
      sh img i "sh_offset" + sh img i "sh_size" < 18446744073709551616) :
    SegmentSpec img j (segFinal (clsOf img) (encOf img) img (phBase img j) isLazy j secs) := by
  obtain ⟨g1, g2, g3, g4, g5, g6, g7, g8⟩ := segHdr_bridge img (clsOf img) (encOf img) (phBase img j) isLazy hk
  refine ⟨rfl, g1, g2, g3, g4, g5, g6, g7, g8, ?_, ?_⟩
  · show ((secs.filter (memberOf (segHdr_ls (clsOf img) (encOf img) img (phBase img j) isLazy))).map
        (fun b => BitVec.ofNat 16 b.index)).map (·.toNat) = members img j
    rw [List.map_map]
    unfold members
    rw [← hlen]
    apply filter_index_range
    · intro i h
      have := (hsecs i h).1.1
      simp only [Function.comp, this, BitVec.toNat_ofNat, Nat.reducePow]
      omega
    · intro i h
      obtain ⟨⟨_, _, _, s3, s4, s5, s6, _⟩, w1, w2⟩ := hsecs i h
      rw [member_eq_spec _ secs[i] (by rw [s4, s6]; exact w1) (by rw [s5, s6]; exact w2)
        (by rw [g4, g7]; exact hw1) (by rw [g3, g6]; exact hw2)]
      rw [s3, s4, s5, s6, g1, g3, g4, g6, g7]
      rfl
  · intro ls hd
    have h := segGetData_segFinal (clsOf img) (encOf img) img (phBase img j) isLazy j secs ls hd h63 hin
    rw [h.1]
    exact segData_take img j isLazy hk hin


/-! ### per-record rungs at specification level -/

/-- `section_impl::load` for section `i` of a well-formed image, on any good stream over it -/
theorem secLoad_wf (img : Bytes) (hwf : WellFormedImage img) (i : Nat) (hi : i < eh img "e_shnum")
    (ls : LoadSt) (isLazy : Bool) (hd : ls.st.data = img) (he : ls.st.eof = false) (hf : ls.st.fail = false) :
    SecSt (clsOf img) (encOf img) img (shBase img i) isLazy i (!isLazy) []
      (secLoad (clsOf img) (encOf img) [] ls (Int.ofNat (shBase img i)) isLazy i).2 ∧
    (secLoad (clsOf img) (encOf img) [] ls (Int.ofNat (shBase img i)) isLazy i).2.size.toNat = sh img i "sh_size" ∧
    (secLoad (clsOf img) (encOf img) [] ls (Int.ofNat (shBase img i)) isLazy i).2.offset.toNat = sh img i "sh_offset" ∧
    (secLoad (clsOf img) (encOf img) [] ls (Int.ofNat (shBase img i)) isLazy i).2.stype.toNat = sh img i "sh_type" ∧
    (isLazy = false → occupiesFile (sh img i "sh_type") = true → sh img i "sh_size" ≠ 0 →
      (secLoad (clsOf img) (encOf img) [] ls (Int.ofNat (shBase img i)) isLazy i).2.data =
        some (slice img (sh img i "sh_offset") (sh img i "sh_size") ++ [0])) ∧
    (secLoad (clsOf img) (encOf img) [] ls (Int.ofNat (shBase img i)) isLazy i).1.st.data = img ∧
    (secLoad (clsOf img) (encOf img) [] ls (Int.ofNat (shBase img i)) isLazy i).1.st.eof = false ∧
    (secLoad (clsOf img) (encOf img) [] ls (Int.ofNat (shBase img i)) isLazy i).1.st.fail = false := by
  obtain ⟨_, _, _, _, h63, _, _, hS, _⟩ := hwf
  have hsz := sizes_eq (clsOf img)
  rw [← hsz.2.1] at hS
  obtain ⟨hk, hocc, _, _⟩ := hS i hi
  obtain ⟨_, b2, _, _, b5, b6, _⟩ := secHdr_bridge img (clsOf img) (encOf img) (shBase img i) isLazy i hk
  have hin : SecInside img.length (secHdr (clsOf img) (encOf img) img (shBase img i) isLazy i) := by
    intro hty
    rw [isNullOrNobits_eq, b2] at hty
    rw [b5, b6]
    have : occupiesFile (sh img i "sh_type") = true := by unfold sh; simpa using hty
    exact hocc this
  have hh := secLoad_inside' (clsOf img) (encOf img) ls (shBase img i) isLazy i he hf (by rw [hd]; exact h63)
    (by rw [hd]; exact hk) (by rw [hd]; exact hin)
  rw [hd] at hh
  obtain ⟨hst, e1, e2, e3, _⟩ := hh
  refine ⟨hst, ?_, ?_, ?_, ?_, e3, e1, e2⟩
  · obtain ⟨fd, L, hb, _⟩ := hst; rw [hb]; exact b6
  · obtain ⟨fd, L, hb, _⟩ := hst; rw [hb]; exact b5
  · obtain ⟨fd, L, hb, _⟩ := hst; rw [hb]; exact b2
  · intro hl ho hz
    obtain ⟨fd, L, hb, _⟩ := hst
    rw [hb, hl]
    have hty : isNullOrNobitsTy (secHdr (clsOf img) (encOf img) img (shBase img i) false i).stype = false := by
      rw [isNullOrNobits_eq]
      have b2' := (secHdr_bridge img (clsOf img) (encOf img) (shBase img i) false i hk).2.1
      rw [b2']; unfold sh at ho; simp [ho]
    have b5' := (secHdr_bridge img (clsOf img) (encOf img) (shBase img i) false i hk).2.2.2.2.1
    have b6' := (secHdr_bridge img (clsOf img) (encOf img) (shBase img i) false i hk).2.2.2.2.2.1
    have hz' : ¬ (secHdr (clsOf img) (encOf img) img (shBase img i) false i).size = 0#64 := by
      intro h
      apply hz
      unfold sh
      rw [← b6', h]; rfl
    simp [secData_ls, hty, b5', b6', sh]
    rw [if_neg hz']

/-- `segment_impl::load` for segment `j` of a well-formed image, on any good stream over it -/
theorem segLoad_wf (img : Bytes) (hwf : WellFormedImage img) (j : Nat) (hj : j < eh img "e_phnum")
    (ls : LoadSt) (isLazy : Bool) (hd : ls.st.data = img) (he : ls.st.eof = false) (hf : ls.st.fail = false) :
    (segLoad (clsOf img) (encOf img) [] ls (Int.ofNat (phBase img j)) isLazy).2 =
      ({ segHdr_ls (clsOf img) (encOf img) img (phBase img j) isLazy with
           data := if isLazy then none else segData img (segHdr_ls (clsOf img) (encOf img) img (phBase img j) isLazy),
           isLoaded := !isLazy && !segSkip (segHdr_ls (clsOf img) (encOf img) img (phBase img j) isLazy) }, true) ∧
    (isLazy = false →
      (((segLoad (clsOf img) (encOf img) [] ls (Int.ofNat (phBase img j)) isLazy).2.1.data.getD []).take
        (ph img j "p_filesz") = segFileBytes img j)) ∧
    (segLoad (clsOf img) (encOf img) [] ls (Int.ofNat (phBase img j)) isLazy).1.st.data = img ∧
    (segLoad (clsOf img) (encOf img) [] ls (Int.ofNat (phBase img j)) isLazy).1.st.eof = false ∧
    (segLoad (clsOf img) (encOf img) [] ls (Int.ofNat (phBase img j)) isLazy).1.st.fail = false := by
  obtain ⟨_, _, _, _, h63, _, _, _, hP, _⟩ := hwf
  have hsz := sizes_eq (clsOf img)
  rw [← hsz.2.2] at hP
  obtain ⟨hk, hhas, _, _⟩ := hP j hj
  obtain ⟨b1, _, b3, _, _, b6, _, _⟩ := segHdr_bridge img (clsOf img) (encOf img) (phBase img j) isLazy hk
  have hin : SegInside img.length (segHdr_ls (clsOf img) (encOf img) img (phBase img j) isLazy) := by
    intro hsk
    rw [segSkip_eq, b1, b6] at hsk
    rw [b3, b6]
    apply hhas
    unfold segHasData ph
    simp only [bne, ← Bool.not_or, hsk, Bool.not_false]
  have hh := segLoad_inside (clsOf img) (encOf img) ls (phBase img j) isLazy he hf (by rw [hd]; exact h63)
    (by rw [hd]; exact hk) (by rw [hd]; exact hin)
  rw [hd] at hh
  obtain ⟨e0, e1, e2, e3, _⟩ := hh
  refine ⟨e0, ?_, e3, e1, e2⟩
  intro hl
  rw [e0]
  subst hl
  simp only [Bool.false_eq_true, if_false]
  have := segData_take img j false hk hin
  rw [b6] at this
  exact this


/-- what `load` must produce for image `img` -/
def LoadSpec (img : Bytes) (r : LoadRes) : Prop :=
  r.ok = true ∧ r.obj.cls = clsOf img ∧ r.obj.enc = encOf img ∧
  (∃ h, r.obj.hdr = some h ∧ HeaderSpec img h) ∧
  r.obj.stream.data = img ∧ r.obj.stream.eof = false ∧ r.obj.stream.fail = false ∧
  r.obj.secs.length = eh img "e_shnum" ∧
  (∀ i (hi : i < r.obj.secs.length), SectionSpec img i r.obj.secs[i]) ∧
  r.obj.segs.length = eh img "e_phnum" ∧
  (∀ j (hj : j < r.obj.segs.length), SegmentSpec img j r.obj.segs[j])

theorem identB (img : Bytes) (c : Cls) (hl : ehdrSize c ≤ img.length) :
    Hdr.ident (slice img 0 (ehdrSize c)) Gen.EI_CLASS = BitVec.ofNat 8 (identByte img Spec.EI_CLASS) := by
  unfold Hdr.ident identByte
  have : Gen.EI_CLASS < ehdrSize c := by cases c <;> decide
  rw [getD_slice0 img (ehdrSize c) Gen.EI_CLASS this]
  rfl

/-- **C02, whole load** : for every well-formed image of either class and byte order, loaded
    eagerly or lazily from a string- or file-backed stream (no address translation), `load`
    succeeds and the object shows exactly what the specification says is in the file -/
theorem load_eq_spec (img : Bytes) (o : Obj) (k : StreamKind) (isLazy : Bool) (htr : o.trans = [])
    (hwf : WellFormedImage img) :
    ∃ r : LoadRes, load o { data := img, kind := k } isLazy = .ok r ∧ LoadSpec img r := by
  obtain ⟨hmag, hcls, hdat, hehs, h63, hshent, hphent, hS, hP, hndx, hnames⟩ := hwf
  have hsz := sizes_eq (clsOf img)
  rw [← hsz.1] at hehs
  rw [← hsz.2.1] at hshent hS
  rw [← hsz.2.2] at hphent hP
  obtain ⟨m0, m1, m2, m3⟩ := magic_gate img hmag
  have hgate := load_gate o { data := img, kind := k } isLazy (clsOf img) (encOf img) htr rfl rfl m0 m1 m2 m3
    (cls_gate img hcls) (enc_gate img hdat) hehs
  simp only [] at hgate
  obtain ⟨e1, e2, e3, e4, e5, e6, e7, e8, e9, e10, e11, e12, e13⟩ := ehdr_bridge img (clsOf img) (encOf img) hehs
  have E : ∀ f, Spec.get (Spec.ehdrL (clsOf img)) (encOf img) img 0 f = eh img f := fun _ => rfl
  rw [E] at e1 e2 e3 e4 e5 e6 e7 e8 e9 e10 e11 e12 e13
  have hshnum : (Hdr.e_shnum (clsOf img) (encOf img) (slice img 0 (ehdrSize (clsOf img)))).toNat = eh img "e_shnum" := e12
  have hphnum : (Hdr.e_phnum (clsOf img) (encOf img) (slice img 0 (ehdrSize (clsOf img)))).toNat = eh img "e_phnum" := e10
  have hshb : ∀ j, (Hdr.e_shoff (clsOf img) (encOf img) (slice img 0 (ehdrSize (clsOf img)))).toNat +
      j * (Hdr.e_shentsize (clsOf img) (encOf img) (slice img 0 (ehdrSize (clsOf img)))).toNat = shBase img j := by
    intro j; rw [e6, e11]; rfl
  have hphb : ∀ j, (Hdr.e_phoff (clsOf img) (encOf img) (slice img 0 (ehdrSize (clsOf img)))).toNat +
      j * (Hdr.e_phentsize (clsOf img) (encOf img) (slice img 0 (ehdrSize (clsOf img)))).toNat = phBase img j := by
    intro j; rw [e5, e9]; rfl
  have hcb := identB img (clsOf img) hehs
  have hc1 : BitVec.ofNat 8 (identByte img Spec.EI_CLASS) = 1#8 → clsOf img = .c32 := by
    intro h
    rcases hcls with h' | h'
    · simp [clsOf, h']; decide
    · rw [h'] at h; exact absurd h (by decide)
  have hc2 : BitVec.ofNat 8 (identByte img Spec.EI_CLASS) = 2#8 → clsOf img = .c64 := by
    intro h
    rcases hcls with h' | h'
    · rw [h'] at h; exact absurd h (by decide)
    · simp [clsOf, h']
  -- entry sizes
  have hbadS : load_sections_entsize_bad (Hdr.e_shnum (clsOf img) (encOf img) (slice img 0 (ehdrSize (clsOf img))))
      (Hdr.ident (slice img 0 (ehdrSize (clsOf img))) Gen.EI_CLASS)
      (Hdr.e_shentsize (clsOf img) (encOf img) (slice img 0 (ehdrSize (clsOf img)))) = false := by
    unfold load_sections_entsize_bad
    apply entsize_ok _ _ _ sizeof_Elf32_Shdr sizeof_Elf64_Shdr (by decide) (by decide)
    intro hn
    rw [hshnum] at hn
    have := hshent hn
    rw [← e11] at this
    rw [hcb]
    constructor
    · intro h; have hcl := hc1 h; rw [hcl] at this ⊢; exact this
    · intro h; have hcl := hc2 h; rw [hcl] at this ⊢; exact this
  have hbadP : load_segments_entsize_bad (Hdr.e_phnum (clsOf img) (encOf img) (slice img 0 (ehdrSize (clsOf img))))
      (Hdr.ident (slice img 0 (ehdrSize (clsOf img))) Gen.EI_CLASS)
      (Hdr.e_phentsize (clsOf img) (encOf img) (slice img 0 (ehdrSize (clsOf img)))) = false := by
    unfold load_segments_entsize_bad
    apply entsize_ok _ _ _ sizeof_Elf32_Phdr sizeof_Elf64_Phdr (by decide) (by decide)
    intro hn
    rw [hphnum] at hn
    have := hphent hn
    rw [← e9] at this
    rw [hcb]
    constructor
    · intro h; have hcl := hc1 h; rw [hcl] at this ⊢; exact this
    · intro h; have hcl := hc2 h; rw [hcl] at this ⊢; exact this
  -- every record and every range inside
  have hinS : ∀ j, j < eh img "e_shnum" →
      SecInside img.length (secHdr (clsOf img) (encOf img) img (shBase img j) isLazy j) := by
    intro j hj hty
    obtain ⟨hk, hocc, _, _⟩ := hS j hj
    obtain ⟨_, b2, _, _, b5, b6, _⟩ := secHdr_bridge img (clsOf img) (encOf img) (shBase img j) isLazy j hk
    rw [isNullOrNobits_eq, b2] at hty
    rw [b5, b6]
    have : occupiesFile (sh img j "sh_type") = true := by unfold sh; simpa using hty
    exact hocc this
  have hinP : ∀ j, j < eh img "e_phnum" →
      SegInside img.length (segHdr_ls (clsOf img) (encOf img) img (phBase img j) isLazy) := by
    intro j hj hsk
    obtain ⟨hk, hhas, _, _⟩ := hP j hj
    obtain ⟨b1, _, b3, _, _, b6, _, _⟩ := segHdr_bridge img (clsOf img) (encOf img) (phBase img j) isLazy hk
    rw [segSkip_eq, b1, b6] at hsk
    rw [b3, b6]
    apply hhas
    unfold segHasData ph
    simp only [bne, ← Bool.not_or, hsk, Bool.not_false]
  have hbody := loadBody_inside
    { o with secs := [], segs := [], cls := clsOf img, enc := encOf img,
             hdr := some (slice img 0 (ehdrSize (clsOf img))) }
    (clsOf img) (encOf img) isLazy (slice img 0 (ehdrSize (clsOf img))) img
    { data := img, pos := ehdrSize (clsOf img), gcount := ehdrSize (clsOf img), kind := k }
    htr rfl rfl rfl h63 hbadS hbadP
    (fun j hj => by rw [hshnum] at hj; rw [hshb]; exact ⟨(hS j hj).1, hinS j hj⟩)
    (fun j hj => by rw [hphnum] at hj; rw [hphb]; exact ⟨(hP j hj).1, hinP j hj⟩)
    (by rw [e13, hshnum]; exact hndx)
  obtain ⟨r, hr, r1, r2, r3, r4, r5, r6, r7, r8, r9, r10, r11, r12, r13⟩ := hbody
  have hsecAll : ∀ i (hi : i < r.obj.secs.length), SectionSpec img i r.obj.secs[i] := by
    intro i hi
    have hi' : i < eh img "e_shnum" := by rw [r10, hshnum] at hi; exact hi
    obtain ⟨res, hst, _⟩ := r11 i hi
    rw [hshb] at hst
    apply SectionSpec_of_SecSt img isLazy i res _ h63 (hS i hi').1 (hinS i hi')
    -- the resolved name is the specification's
    have hname : nameOf (strtabOf (clsOf img) (encOf img) img
          (Hdr.e_shoff (clsOf img) (encOf img) (slice img 0 (ehdrSize (clsOf img)))).toNat
          (Hdr.e_shentsize (clsOf img) (encOf img) (slice img 0 (ehdrSize (clsOf img)))).toNat isLazy
          (Hdr.e_shstrndx (clsOf img) (encOf img) (slice img 0 (ehdrSize (clsOf img)))).toNat)
        (secHdr (clsOf img) (encOf img) img (shBase img i) isLazy i).nameOff.toNat = secName img i := by
      have b1 := (secHdr_bridge img (clsOf img) (encOf img) (shBase img i) isLazy i (hS i hi').1).1
      unfold nameOf strtabOf secName shstrtab
      rw [e13, b1]
      by_cases hz : eh img "e_shstrndx" = 0
      · rw [hz]; rfl
      · have hz' : ¬ eh img "e_shstrndx" = Spec.SHN_UNDEF := hz
        have hlt : eh img "e_shstrndx" < eh img "e_shnum" := by
          rcases hndx with h | h
          · exact absurd h hz'
          · exact h
        simp only [hz, hz', if_false]
        rw [hshb, secBytes_bridge img isLazy _ (hS _ hlt).1]
        rfl
    rw [hname] at hst
    exact hst
  refine ⟨r, by rw [hgate]; exact hr, r1, r2, r3, ⟨_, r4, ?_⟩, r6, r7, r8, by rw [r10, hshnum], hsecAll,
    by rw [r12, hphnum], ?_⟩
  · exact ⟨by rw [hsz.1], e1, e2, e3, e4, e5, e6, e7, e8, e9, e10, e11, e12, e13⟩
  · -- segments
    intro j hj
    have hj' : j < eh img "e_phnum" := by rw [r12, hphnum] at hj; exact hj
    rw [r13 j hj, hphb]
    have hn16 : eh img "e_shnum" < 65536 := by
      rw [← hshnum]; exact (Hdr.e_shnum _ _ _).isLt
    apply SegmentSpec_of_segFinal img isLazy j r.obj.secs h63 (hP j hj').1 (hinP j hj') (hP j hj').2.2.1
      (hP j hj').2.2.2 (by rw [r10, hshnum]) hn16
    intro i hi
    have hi' : i < eh img "e_shnum" := by rw [r10, hshnum] at hi; exact hi
    exact ⟨hsecAll i hi, (hS i hi').2.2.1, (hS i hi').2.2.2⟩

/-- with terminated names the reported name *is* the specification's C string -/
theorem name_eq_cstr (img : Bytes) (hwf : WellFormedImage img) (i : Nat) (hi : i < eh img "e_shnum")
    (hndx : eh img "e_shstrndx" ≠ Spec.SHN_UNDEF) :
    Spec.cstrAt (secFileBytes img (eh img "e_shstrndx")) (sh img i "sh_name") = some (secName img i) := by
  have h := hwf.2.2.2.2.2.2.2.2.2.2 hndx i hi
  unfold secName shstrtab
  simp only [hndx, if_false]
  cases hc : Spec.cstrAt (secFileBytes img (eh img "e_shstrndx")) (sh img i "sh_name") with
  | none => rw [hc] at h; exact absurd h (by simp)
  | some s => rfl

/-! ### non-vacuity : a concrete well-formed image (ELF32/LSB, one PT_LOAD, `.text`, `.shstrtab`) -/

def wfImage : Bytes :=
  [127, 69, 76, 70, 1, 1, 1, 0, 0, 0, 0, 0, 0, 0, 0, 0, 2, 0, 3, 0, 1, 0, 0, 0, 0, 16, 0, 0, 52, 0, 0, 0, 108, 0, 0, 0, 0, 0, 0, 0, 52, 0, 32, 0, 1, 0, 40, 0, 3, 0, 2, 0, 1, 0, 0, 0, 84, 0, 0, 0, 0, 16, 0, 0, 0, 16, 0, 0, 4, 0, 0, 0, 4, 0, 0, 0, 5, 0, 0, 0, 4, 0, 0, 0, 1, 2, 3, 4, 0, 46, 116, 101, 120, 116, 0, 46, 115, 104, 115, 116, 114, 116, 97, 98, 0, 0, 0, 0, 0, 0, 0, 0, 0, 0, 0, 0, 0, 0, 0, 0, 0, 0, 0, 0, 0, 0, 0, 0, 0, 0, 0, 0, 0, 0, 0, 0, 0, 0, 0, 0, 0, 0, 0, 0, 0, 0, 0, 0, 1, 0, 0, 0, 1, 0, 0, 0, 6, 0, 0, 0, 0, 16, 0, 0, 84, 0, 0, 0, 4, 0, 0, 0, 0, 0, 0, 0, 0, 0, 0, 0, 4, 0, 0, 0, 0, 0, 0, 0, 7, 0, 0, 0, 3, 0, 0, 0, 0, 0, 0, 0, 0, 0, 0, 0, 88, 0, 0, 0, 17, 0, 0, 0, 0, 0, 0, 0, 0, 0, 0, 0, 1, 0, 0, 0, 0, 0, 0, 0]

example : WellFormedImage wfImage := by decide +kernel
example : eh wfImage "e_shnum" = 3 ∧ eh wfImage "e_phnum" = 1 ∧ secName wfImage 1 = [0x2e, 0x74, 0x65, 0x78, 0x74] ∧
    secFileBytes wfImage 1 = [1, 2, 3, 4] ∧ members wfImage 0 = [1] := by decide +kernel
/-- the theorem applies to it (both modes, both stream kinds) -/
example (k : StreamKind) (isLazy : Bool) :
    ∃ r, load {} { data := wfImage, kind := k } isLazy = .ok r ∧ LoadSpec wfImage r :=
  load_eq_spec wfImage {} k isLazy rfl (by decide +kernel)

end ElfioVerif.C02
