/-
C02 — the reader reports what the ELF specification says is in the file.
Record level: layouts, field decoders, membership rule.
-/
import ElfioVerif.Lemmas.Records
import ElfioVerif.Lemmas.LoadSpec
set_option linter.unusedSimpArgs false
set_option linter.unusedVariables false
namespace ElfioVerif.C02
open Gen

/-- the struct layouts and constants the implementation was compiled with are the gABI's -/
theorem layouts_eq_spec :
    layout_Elf32_Ehdr = Spec.ehdr32 ∧ layout_Elf64_Ehdr = Spec.ehdr64 ∧
    layout_Elf32_Shdr = Spec.shdr32 ∧ layout_Elf64_Shdr = Spec.shdr64 ∧
    layout_Elf32_Phdr = Spec.phdr32 ∧ layout_Elf64_Phdr = Spec.phdr64 ∧
    (∀ c, ehdrSize c = Spec.ehdrSize c ∧ shdrSize c = Spec.shdrSize c ∧ phdrSize c = Spec.phdrSize c) :=
  ⟨layout_Ehdr32, layout_Ehdr64, layout_Shdr32, layout_Shdr64, layout_Phdr32, layout_Phdr64, sizes_eq⟩

private theorem toNat_sw32 (x : BitVec 64) (h : x.toNat < 4294967296) : (x.setWidth 32).toNat = x.toNat := by
  simp only [BitVec.toNat_setWidth, Nat.reducePow]; omega
private theorem toNat_sw16 (x : BitVec 64) (h : x.toNat < 65536) : (x.setWidth 16).toNat = x.toNat := by
  simp only [BitVec.toNat_setWidth, Nat.reducePow]; omega

private theorem dec_lt (enc : Enc) (bs : Bytes) : decodeInt enc bs < 2 ^ (8 * bs.length) := by
  cases enc
  · exact leDecode_lt bs
  · have := leDecode_lt bs.reverse; simpa [decodeInt, beDecode] using this

theorem get_of_field {l : Spec.Layout} {e : Enc} {img : Bytes} {base : Nat} {name : String} {o w : Nat}
    (h : Spec.field l name = (o, w)) : Spec.get l e img base name = decodeInt e (slice img (base + o) w) := by
  simp [Spec.get, h]

/-- one field: model getter on the record = specification decoder at the specification offset -/
theorem fld64 (l : Spec.Layout) (enc : Enc) (r : Bytes) (name : String) (o w : Nat)
    (hf : Spec.field l name = (o, w)) (hw : w = 1 ∨ w = 2 ∨ w = 4 ∨ w = 8) (hr : o + w ≤ r.length) :
    (fld enc r o w).toNat = Spec.get l enc r 0 name := by
  rw [get_of_field hf, Nat.zero_add]; exact fld_eq_spec enc r o w hw hr

theorem fld32 (l : Spec.Layout) (enc : Enc) (r : Bytes) (name : String) (o : Nat)
    (hf : Spec.field l name = (o, 4)) (hr : o + 4 ≤ r.length) :
    ((fld enc r o 4).setWidth 32).toNat = Spec.get l enc r 0 name := by
  rw [← fld64 l enc r name o 4 hf (by decide) hr]
  apply toNat_sw32
  rw [fld_eq_spec enc r o 4 (by decide) hr]
  have := dec_lt enc (slice r o 4)
  rw [slice_length_of_le hr] at this; simpa using this

theorem fld16 (l : Spec.Layout) (enc : Enc) (r : Bytes) (name : String) (o : Nat)
    (hf : Spec.field l name = (o, 2)) (hr : o + 2 ≤ r.length) :
    ((fld enc r o 2).setWidth 16).toNat = Spec.get l enc r 0 name := by
  rw [← fld64 l enc r name o 2 hf (by decide) hr]
  apply toNat_sw16
  rw [fld_eq_spec enc r o 2 (by decide) hr]
  have := dec_lt enc (slice r o 2)
  rw [slice_length_of_le hr] at this; simpa using this

/-- every section-header field reported by the model's decoder is the specification codec applied
    at the specification's offset -/
theorem shdr_fields_eq_spec (c : Cls) (enc : Enc) (r : Bytes) (b : SecBuf) (h : shdrSize c ≤ r.length) :
    let s := decodeShdr c enc r b
    s.nameOff.toNat = Spec.get (Spec.shdrL c) enc r 0 "sh_name" ∧
    s.stype.toNat = Spec.get (Spec.shdrL c) enc r 0 "sh_type" ∧
    s.flags.toNat = Spec.get (Spec.shdrL c) enc r 0 "sh_flags" ∧
    s.addr.toNat = Spec.get (Spec.shdrL c) enc r 0 "sh_addr" ∧
    s.offset.toNat = Spec.get (Spec.shdrL c) enc r 0 "sh_offset" ∧
    s.size.toNat = Spec.get (Spec.shdrL c) enc r 0 "sh_size" ∧
    s.link.toNat = Spec.get (Spec.shdrL c) enc r 0 "sh_link" ∧
    s.info.toNat = Spec.get (Spec.shdrL c) enc r 0 "sh_info" ∧
    s.addrAlign.toNat = Spec.get (Spec.shdrL c) enc r 0 "sh_addralign" ∧
    s.entSize.toNat = Spec.get (Spec.shdrL c) enc r 0 "sh_entsize" := by
  cases c
  · have h' : 40 ≤ r.length := h
    exact ⟨fld32 _ enc r _ _ (by decide) (Nat.le_trans (by decide) h'), fld32 _ enc r _ _ (by decide) (Nat.le_trans (by decide) h'),
      fld64 _ enc r _ _ _ (by decide) (by decide) (Nat.le_trans (by decide) h'), fld64 _ enc r _ _ _ (by decide) (by decide) (Nat.le_trans (by decide) h'),
      fld64 _ enc r _ _ _ (by decide) (by decide) (Nat.le_trans (by decide) h'), fld64 _ enc r _ _ _ (by decide) (by decide) (Nat.le_trans (by decide) h'),
      fld32 _ enc r _ _ (by decide) (Nat.le_trans (by decide) h'), fld32 _ enc r _ _ (by decide) (Nat.le_trans (by decide) h'),
      fld64 _ enc r _ _ _ (by decide) (by decide) (Nat.le_trans (by decide) h'), fld64 _ enc r _ _ _ (by decide) (by decide) (Nat.le_trans (by decide) h')⟩
  · have h' : 64 ≤ r.length := h
    exact ⟨fld32 _ enc r _ _ (by decide) (Nat.le_trans (by decide) h'), fld32 _ enc r _ _ (by decide) (Nat.le_trans (by decide) h'),
      fld64 _ enc r _ _ _ (by decide) (by decide) (Nat.le_trans (by decide) h'), fld64 _ enc r _ _ _ (by decide) (by decide) (Nat.le_trans (by decide) h'),
      fld64 _ enc r _ _ _ (by decide) (by decide) (Nat.le_trans (by decide) h'), fld64 _ enc r _ _ _ (by decide) (by decide) (Nat.le_trans (by decide) h'),
      fld32 _ enc r _ _ (by decide) (Nat.le_trans (by decide) h'), fld32 _ enc r _ _ (by decide) (Nat.le_trans (by decide) h'),
      fld64 _ enc r _ _ _ (by decide) (by decide) (Nat.le_trans (by decide) h'), fld64 _ enc r _ _ _ (by decide) (by decide) (Nat.le_trans (by decide) h')⟩

/-- every program-header field -/
theorem phdr_fields_eq_spec (c : Cls) (enc : Enc) (r : Bytes) (g0 : Seg) (h : phdrSize c ≤ r.length) :
    let g := decodePhdr c enc r g0
    g.stype.toNat = Spec.get (Spec.phdrL c) enc r 0 "p_type" ∧
    g.flags.toNat = Spec.get (Spec.phdrL c) enc r 0 "p_flags" ∧
    g.offset.toNat = Spec.get (Spec.phdrL c) enc r 0 "p_offset" ∧
    g.vaddr.toNat = Spec.get (Spec.phdrL c) enc r 0 "p_vaddr" ∧
    g.paddr.toNat = Spec.get (Spec.phdrL c) enc r 0 "p_paddr" ∧
    g.filesz.toNat = Spec.get (Spec.phdrL c) enc r 0 "p_filesz" ∧
    g.memsz.toNat = Spec.get (Spec.phdrL c) enc r 0 "p_memsz" ∧
    g.align.toNat = Spec.get (Spec.phdrL c) enc r 0 "p_align" := by
  cases c
  · have h' : 32 ≤ r.length := h
    exact ⟨fld32 _ enc r _ _ (by decide) (Nat.le_trans (by decide) h'), fld32 _ enc r _ _ (by decide) (Nat.le_trans (by decide) h'),
      fld64 _ enc r _ _ _ (by decide) (by decide) (Nat.le_trans (by decide) h'), fld64 _ enc r _ _ _ (by decide) (by decide) (Nat.le_trans (by decide) h'),
      fld64 _ enc r _ _ _ (by decide) (by decide) (Nat.le_trans (by decide) h'), fld64 _ enc r _ _ _ (by decide) (by decide) (Nat.le_trans (by decide) h'),
      fld64 _ enc r _ _ _ (by decide) (by decide) (Nat.le_trans (by decide) h'), fld64 _ enc r _ _ _ (by decide) (by decide) (Nat.le_trans (by decide) h')⟩
  · have h' : 56 ≤ r.length := h
    exact ⟨fld32 _ enc r _ _ (by decide) (Nat.le_trans (by decide) h'), fld32 _ enc r _ _ (by decide) (Nat.le_trans (by decide) h'),
      fld64 _ enc r _ _ _ (by decide) (by decide) (Nat.le_trans (by decide) h'), fld64 _ enc r _ _ _ (by decide) (by decide) (Nat.le_trans (by decide) h'),
      fld64 _ enc r _ _ _ (by decide) (by decide) (Nat.le_trans (by decide) h'), fld64 _ enc r _ _ _ (by decide) (by decide) (Nat.le_trans (by decide) h'),
      fld64 _ enc r _ _ _ (by decide) (by decide) (Nat.le_trans (by decide) h'), fld64 _ enc r _ _ _ (by decide) (by decide) (Nat.le_trans (by decide) h')⟩

/-- every ELF-header field (the raw header struct `h` is the first `ehdrSize c` bytes of the file) -/
theorem ehdr_fields_eq_spec (c : Cls) (enc : Enc) (h : Bytes) (hl : ehdrSize c ≤ h.length) :
    (Hdr.e_type c enc h).toNat = Spec.get (Spec.ehdrL c) enc h 0 "e_type" ∧
    (Hdr.e_machine c enc h).toNat = Spec.get (Spec.ehdrL c) enc h 0 "e_machine" ∧
    (Hdr.e_version c enc h).toNat = Spec.get (Spec.ehdrL c) enc h 0 "e_version" ∧
    (Hdr.e_entry c enc h).toNat = Spec.get (Spec.ehdrL c) enc h 0 "e_entry" ∧
    (Hdr.e_phoff c enc h).toNat = Spec.get (Spec.ehdrL c) enc h 0 "e_phoff" ∧
    (Hdr.e_shoff c enc h).toNat = Spec.get (Spec.ehdrL c) enc h 0 "e_shoff" ∧
    (Hdr.e_flags c enc h).toNat = Spec.get (Spec.ehdrL c) enc h 0 "e_flags" ∧
    (Hdr.e_ehsize c enc h).toNat = Spec.get (Spec.ehdrL c) enc h 0 "e_ehsize" ∧
    (Hdr.e_phentsize c enc h).toNat = Spec.get (Spec.ehdrL c) enc h 0 "e_phentsize" ∧
    (Hdr.e_phnum c enc h).toNat = Spec.get (Spec.ehdrL c) enc h 0 "e_phnum" ∧
    (Hdr.e_shentsize c enc h).toNat = Spec.get (Spec.ehdrL c) enc h 0 "e_shentsize" ∧
    (Hdr.e_shnum c enc h).toNat = Spec.get (Spec.ehdrL c) enc h 0 "e_shnum" ∧
    (Hdr.e_shstrndx c enc h).toNat = Spec.get (Spec.ehdrL c) enc h 0 "e_shstrndx" := by
  cases c
  · have h' : 52 ≤ h.length := hl
    exact ⟨fld16 _ enc h _ _ (by decide) (Nat.le_trans (by decide) h'), fld16 _ enc h _ _ (by decide) (Nat.le_trans (by decide) h'),
      fld32 _ enc h _ _ (by decide) (Nat.le_trans (by decide) h'), fld64 _ enc h _ _ _ (by decide) (by decide) (Nat.le_trans (by decide) h'),
      fld64 _ enc h _ _ _ (by decide) (by decide) (Nat.le_trans (by decide) h'), fld64 _ enc h _ _ _ (by decide) (by decide) (Nat.le_trans (by decide) h'),
      fld32 _ enc h _ _ (by decide) (Nat.le_trans (by decide) h'), fld16 _ enc h _ _ (by decide) (Nat.le_trans (by decide) h'),
      fld16 _ enc h _ _ (by decide) (Nat.le_trans (by decide) h'), fld16 _ enc h _ _ (by decide) (Nat.le_trans (by decide) h'),
      fld16 _ enc h _ _ (by decide) (Nat.le_trans (by decide) h'), fld16 _ enc h _ _ (by decide) (Nat.le_trans (by decide) h'),
      fld16 _ enc h _ _ (by decide) (Nat.le_trans (by decide) h')⟩
  · have h' : 64 ≤ h.length := hl
    exact ⟨fld16 _ enc h _ _ (by decide) (Nat.le_trans (by decide) h'), fld16 _ enc h _ _ (by decide) (Nat.le_trans (by decide) h'),
      fld32 _ enc h _ _ (by decide) (Nat.le_trans (by decide) h'), fld64 _ enc h _ _ _ (by decide) (by decide) (Nat.le_trans (by decide) h'),
      fld64 _ enc h _ _ _ (by decide) (by decide) (Nat.le_trans (by decide) h'), fld64 _ enc h _ _ _ (by decide) (by decide) (Nat.le_trans (by decide) h'),
      fld32 _ enc h _ _ (by decide) (Nat.le_trans (by decide) h'), fld16 _ enc h _ _ (by decide) (Nat.le_trans (by decide) h'),
      fld16 _ enc h _ _ (by decide) (Nat.le_trans (by decide) h'), fld16 _ enc h _ _ (by decide) (Nat.le_trans (by decide) h'),
      fld16 _ enc h _ _ (by decide) (Nat.le_trans (by decide) h'), fld16 _ enc h _ _ (by decide) (Nat.le_trans (by decide) h'),
      fld16 _ enc h _ _ (by decide) (Nat.le_trans (by decide) h')⟩

private theorem bit_div (x : BitVec 64) (i : Nat) : x.getLsbD i = (x.toNat / 2 ^ i % 2 == 1) := by
  simp only [BitVec.getLsbD, Nat.testBit_eq_decide_div_mod_eq]
  rw [Bool.eq_iff_iff]; simp

/-- **membership** : the generated test (`is_sect_in_seg` on addresses or offsets, with the TLS
    exclusion) is the specification's section-in-segment rule whenever none of the four range ends
    wraps around 2^64 -/
theorem member_eq_spec (g : Seg) (b : SecBuf)
    (h1 : b.addr.toNat + b.size.toNat < 18446744073709551616)
    (h2 : b.offset.toNat + b.size.toNat < 18446744073709551616)
    (h3 : g.vaddr.toNat + g.memsz.toNat < 18446744073709551616)
    (h4 : g.offset.toNat + g.filesz.toNat < 18446744073709551616) :
    memberOf g b = Spec.inSegment b.flags.toNat b.addr.toNat b.offset.toNat b.size.toNat
      g.stype.toNat g.offset.toNat g.vaddr.toNat g.filesz.toNat g.memsz.toNat := by
  have ha := b.addr.isLt; have ho := b.offset.isLt; have hs := b.size.isLt
  have hv := g.vaddr.isLt; have hgo := g.offset.isLt
  simp only [Nat.reducePow] at ha ho hs hv hgo
  unfold memberOf load_segments_member load_segments_tls_skip is_sect_in_seg
    load_segments_seg_end_off load_segments_seg_end_addr Spec.inSegment
  have c1 : BitVec.ofNat 64 SHF_ALLOC = 2#64 := rfl
  have c2 : BitVec.ofNat 64 SHF_TLS = 1024#64 := rfl
  have c3 : BitVec.ofNat 32 PT_TLS = 7#32 := rfl
  rw [c1, c2, c3]
  simp only [and_eq_bit1, and_eq_bit10, and_ne_bit10, bit_div, Spec.SHF_ALLOC, Spec.SHF_TLS, Spec.PT_TLS]
  have e1 : (b.addr + b.size).toNat = b.addr.toNat + b.size.toNat := by
    rw [BitVec.toNat_add]; simp only [Nat.reducePow]; omega
  have e2 : (b.offset + b.size).toNat = b.offset.toNat + b.size.toNat := by
    rw [BitVec.toNat_add]; simp only [Nat.reducePow]; omega
  have e3 : (g.vaddr + g.memsz).toNat = g.vaddr.toNat + g.memsz.toNat := by
    rw [BitVec.toNat_add]; simp only [Nat.reducePow]; omega
  have e4 : (g.offset + g.filesz).toNat = g.offset.toNat + g.filesz.toNat := by
    rw [BitVec.toNat_add]; simp only [Nat.reducePow]; omega
  have t : (g.stype == 7#32) = (g.stype.toNat == 7) := by
    rw [Bool.eq_iff_iff]; simp [BitVec.toNat_eq]
  have t' : (g.stype != 7#32) = !(g.stype.toNat == 7) := by
    simp [bne, t]
  simp only [BitVec.ule, BitVec.ult, e1, e2, e3, e4, t, t', Nat.reducePow]
  rcases Bool.eq_false_or_eq_true (b.flags.toNat / 2 % 2 == 1) with hA | hA <;>
  rcases Bool.eq_false_or_eq_true (b.flags.toNat / 1024 % 2 == 1) with hT | hT <;>
  rcases Bool.eq_false_or_eq_true (g.stype.toNat == 7) with hG | hG <;>
  simp [hA, hT, hG]

/-! ## Whole-load theorems

Specification side first (written against Spec/Records.lean only), then the bridge from the
specification-level well-formedness to the numeric hypotheses of Lemmas/LoadSpec.lean, then
`load_eq_spec`. -/

/-! ### the specification's view of an image -/

def identByte (img : Bytes) (i : Nat) : Nat := (img.getD i 0).toNat
def clsOf (img : Bytes) : Cls := if identByte img Spec.EI_CLASS = Spec.ELFCLASS64 then .c64 else .c32
def encOf (img : Bytes) : Enc := if identByte img Spec.EI_DATA = Spec.ELFDATA2MSB then .msb else .lsb
/-- ELF-header field by name -/
def eh (img : Bytes) (f : String) : Nat := Spec.get (Spec.ehdrL (clsOf img)) (encOf img) img 0 f
def shBase (img : Bytes) (i : Nat) : Nat := eh img "e_shoff" + i * eh img "e_shentsize"
def phBase (img : Bytes) (j : Nat) : Nat := eh img "e_phoff" + j * eh img "e_phentsize"
/-- field of section header `i` / program header `j` by name -/
def sh (img : Bytes) (i : Nat) (f : String) : Nat := Spec.get (Spec.shdrL (clsOf img)) (encOf img) img (shBase img i) f
def ph (img : Bytes) (j : Nat) (f : String) : Nat := Spec.get (Spec.phdrL (clsOf img)) (encOf img) img (phBase img j) f
def occupiesFile (ty : Nat) : Bool := ty != Spec.SHT_NULL && ty != Spec.SHT_NOBITS
def segHasData (img : Bytes) (j : Nat) : Bool := ph img j "p_type" != Spec.PT_NULL && ph img j "p_filesz" != 0
/-- the file bytes of section `i` / segment `j` -/
def secFileBytes (img : Bytes) (i : Nat) : Bytes :=
  if occupiesFile (sh img i "sh_type") then slice img (sh img i "sh_offset") (sh img i "sh_size") else []
def segFileBytes (img : Bytes) (j : Nat) : Bytes :=
  if segHasData img j then slice img (ph img j "p_offset") (ph img j "p_filesz") else []
/-- the section-name string table -/
def shstrtab (img : Bytes) : Option Bytes :=
  if eh img "e_shstrndx" = Spec.SHN_UNDEF then none else some (secFileBytes img (eh img "e_shstrndx"))
def secName (img : Bytes) (i : Nat) : Bytes :=
  match shstrtab img with
  | none => []
  | some T => (Spec.cstrAt T (sh img i "sh_name")).getD []
/-- the specification's members of segment `j` -/
def members (img : Bytes) (j : Nat) : List Nat :=
  (List.range (eh img "e_shnum")).filter (fun i =>
    Spec.inSegment (sh img i "sh_flags") (sh img i "sh_addr") (sh img i "sh_offset") (sh img i "sh_size")
      (ph img j "p_type") (ph img j "p_offset") (ph img j "p_vaddr") (ph img j "p_filesz") (ph img j "p_memsz"))

/-- **well-formed ELF image** (decidable; specification vocabulary only) -/
def WellFormedImage (img : Bytes) : Prop :=
  img.take 4 = Spec.ELFMAG ∧
  (identByte img Spec.EI_CLASS = Spec.ELFCLASS32 ∨ identByte img Spec.EI_CLASS = Spec.ELFCLASS64) ∧
  (identByte img Spec.EI_DATA = Spec.ELFDATA2LSB ∨ identByte img Spec.EI_DATA = Spec.ELFDATA2MSB) ∧
  Spec.ehdrSize (clsOf img) ≤ img.length ∧ img.length < 9223372036854775808 ∧
  (eh img "e_shnum" ≠ 0 → Spec.shdrSize (clsOf img) ≤ eh img "e_shentsize") ∧
  (eh img "e_phnum" ≠ 0 → Spec.phdrSize (clsOf img) ≤ eh img "e_phentsize") ∧
  (∀ i, i < eh img "e_shnum" →
    shBase img i + Spec.shdrSize (clsOf img) ≤ img.length ∧
    (occupiesFile (sh img i "sh_type") = true → sh img i "sh_offset" + sh img i "sh_size" ≤ img.length) ∧
    sh img i "sh_addr" + sh img i "sh_size" < 18446744073709551616 ∧
    sh img i "sh_offset" + sh img i "sh_size" < 18446744073709551616) ∧
  (∀ j, j < eh img "e_phnum" →
    phBase img j + Spec.phdrSize (clsOf img) ≤ img.length ∧
    (segHasData img j = true → ph img j "p_offset" + ph img j "p_filesz" ≤ img.length) ∧
    ph img j "p_vaddr" + ph img j "p_memsz" < 18446744073709551616 ∧
    ph img j "p_offset" + ph img j "p_filesz" < 18446744073709551616) ∧
  (eh img "e_shstrndx" = Spec.SHN_UNDEF ∨ eh img "e_shstrndx" < eh img "e_shnum") ∧
  (eh img "e_shstrndx" ≠ Spec.SHN_UNDEF → ∀ i, i < eh img "e_shnum" →
    (Spec.cstrAt (secFileBytes img (eh img "e_shstrndx")) (sh img i "sh_name")).isSome = true)

instance (img : Bytes) : Decidable (WellFormedImage img) := by
  unfold WellFormedImage; infer_instance

/-! ### bridge: specification fields of the image = model fields of the decoded records -/

theorem slice_slice (b : Bytes) (a n o w : Nat) (h : o + w ≤ n) :
    slice (slice b a n) o w = slice b (a + o) w := by
  unfold slice
  apply List.ext_getElem?
  intro i
  simp only [List.getElem?_take, List.getElem?_drop]
  repeat' split
  all_goals first | rfl | omega | (exfalso; omega) | (congr 1; omega) | (simp_all; try omega)

theorem get_slice (L : Spec.Layout) (enc : Enc) (img : Bytes) (base n : Nat) (name : String)
    (h : (Spec.field L name).1 + (Spec.field L name).2 ≤ n) :
    Spec.get L enc (slice img base n) 0 name = Spec.get L enc img base name := by
  unfold Spec.get
  simp only [Nat.zero_add]
  rw [slice_slice _ _ _ _ _ h]

theorem ehdr_bridge (img : Bytes) (c : Cls) (enc : Enc) (hl : ehdrSize c ≤ img.length) :
    (Hdr.e_type c enc (slice img 0 (ehdrSize c))).toNat = Spec.get (Spec.ehdrL c) enc img 0 "e_type" ∧
    (Hdr.e_machine c enc (slice img 0 (ehdrSize c))).toNat = Spec.get (Spec.ehdrL c) enc img 0 "e_machine" ∧
    (Hdr.e_version c enc (slice img 0 (ehdrSize c))).toNat = Spec.get (Spec.ehdrL c) enc img 0 "e_version" ∧
    (Hdr.e_entry c enc (slice img 0 (ehdrSize c))).toNat = Spec.get (Spec.ehdrL c) enc img 0 "e_entry" ∧
    (Hdr.e_phoff c enc (slice img 0 (ehdrSize c))).toNat = Spec.get (Spec.ehdrL c) enc img 0 "e_phoff" ∧
    (Hdr.e_shoff c enc (slice img 0 (ehdrSize c))).toNat = Spec.get (Spec.ehdrL c) enc img 0 "e_shoff" ∧
    (Hdr.e_flags c enc (slice img 0 (ehdrSize c))).toNat = Spec.get (Spec.ehdrL c) enc img 0 "e_flags" ∧
    (Hdr.e_ehsize c enc (slice img 0 (ehdrSize c))).toNat = Spec.get (Spec.ehdrL c) enc img 0 "e_ehsize" ∧
    (Hdr.e_phentsize c enc (slice img 0 (ehdrSize c))).toNat = Spec.get (Spec.ehdrL c) enc img 0 "e_phentsize" ∧
    (Hdr.e_phnum c enc (slice img 0 (ehdrSize c))).toNat = Spec.get (Spec.ehdrL c) enc img 0 "e_phnum" ∧
    (Hdr.e_shentsize c enc (slice img 0 (ehdrSize c))).toNat = Spec.get (Spec.ehdrL c) enc img 0 "e_shentsize" ∧
    (Hdr.e_shnum c enc (slice img 0 (ehdrSize c))).toNat = Spec.get (Spec.ehdrL c) enc img 0 "e_shnum" ∧
    (Hdr.e_shstrndx c enc (slice img 0 (ehdrSize c))).toNat = Spec.get (Spec.ehdrL c) enc img 0 "e_shstrndx" := by
  have hlen : ehdrSize c ≤ (slice img 0 (ehdrSize c)).length := by
    rw [slice_length_of_le (by omega)]; exact Nat.le_refl _
  have h := ehdr_fields_eq_spec c enc (slice img 0 (ehdrSize c)) hlen
  have g := fun name hh => get_slice (Spec.ehdrL c) enc img 0 (ehdrSize c) name hh
  rw [g "e_type" (by cases c <;> decide), g "e_machine" (by cases c <;> decide),
    g "e_version" (by cases c <;> decide), g "e_entry" (by cases c <;> decide),
    g "e_phoff" (by cases c <;> decide), g "e_shoff" (by cases c <;> decide),
    g "e_flags" (by cases c <;> decide), g "e_ehsize" (by cases c <;> decide),
    g "e_phentsize" (by cases c <;> decide), g "e_phnum" (by cases c <;> decide),
    g "e_shentsize" (by cases c <;> decide), g "e_shnum" (by cases c <;> decide),
    g "e_shstrndx" (by cases c <;> decide)] at h
  exact h

theorem secHdr_bridge (img : Bytes) (c : Cls) (enc : Enc) (k : Nat) (isLazy : Bool) (idx : Nat)
    (hk : k + shdrSize c ≤ img.length) :
    (secHdr c enc img k isLazy idx).nameOff.toNat = Spec.get (Spec.shdrL c) enc img k "sh_name" ∧
    (secHdr c enc img k isLazy idx).stype.toNat = Spec.get (Spec.shdrL c) enc img k "sh_type" ∧
    (secHdr c enc img k isLazy idx).flags.toNat = Spec.get (Spec.shdrL c) enc img k "sh_flags" ∧
    (secHdr c enc img k isLazy idx).addr.toNat = Spec.get (Spec.shdrL c) enc img k "sh_addr" ∧
    (secHdr c enc img k isLazy idx).offset.toNat = Spec.get (Spec.shdrL c) enc img k "sh_offset" ∧
    (secHdr c enc img k isLazy idx).size.toNat = Spec.get (Spec.shdrL c) enc img k "sh_size" ∧
    (secHdr c enc img k isLazy idx).link.toNat = Spec.get (Spec.shdrL c) enc img k "sh_link" ∧
    (secHdr c enc img k isLazy idx).info.toNat = Spec.get (Spec.shdrL c) enc img k "sh_info" ∧
    (secHdr c enc img k isLazy idx).addrAlign.toNat = Spec.get (Spec.shdrL c) enc img k "sh_addralign" ∧
    (secHdr c enc img k isLazy idx).entSize.toNat = Spec.get (Spec.shdrL c) enc img k "sh_entsize" := by
  have hlen : shdrSize c ≤ (slice img k (shdrSize c)).length := by
    rw [slice_length_of_le hk]; exact Nat.le_refl _
  have h := shdr_fields_eq_spec c enc (slice img k (shdrSize c))
    (secInit c (BitVec.ofNat 64 img.length) true isLazy idx) hlen
  have g := fun name hh => get_slice (Spec.shdrL c) enc img k (shdrSize c) name hh
  simp only [] at h
  rw [g "sh_name" (by cases c <;> decide), g "sh_type" (by cases c <;> decide),
    g "sh_flags" (by cases c <;> decide), g "sh_addr" (by cases c <;> decide),
    g "sh_offset" (by cases c <;> decide), g "sh_size" (by cases c <;> decide),
    g "sh_link" (by cases c <;> decide), g "sh_info" (by cases c <;> decide),
    g "sh_addralign" (by cases c <;> decide), g "sh_entsize" (by cases c <;> decide)] at h
  exact h

theorem segHdr_bridge (img : Bytes) (c : Cls) (enc : Enc) (k : Nat) (isLazy : Bool)
    (hk : k + phdrSize c ≤ img.length) :
    (segHdr c enc img k isLazy).stype.toNat = Spec.get (Spec.phdrL c) enc img k "p_type" ∧
    (segHdr c enc img k isLazy).flags.toNat = Spec.get (Spec.phdrL c) enc img k "p_flags" ∧
    (segHdr c enc img k isLazy).offset.toNat = Spec.get (Spec.phdrL c) enc img k "p_offset" ∧
    (segHdr c enc img k isLazy).vaddr.toNat = Spec.get (Spec.phdrL c) enc img k "p_vaddr" ∧
    (segHdr c enc img k isLazy).paddr.toNat = Spec.get (Spec.phdrL c) enc img k "p_paddr" ∧
    (segHdr c enc img k isLazy).filesz.toNat = Spec.get (Spec.phdrL c) enc img k "p_filesz" ∧
    (segHdr c enc img k isLazy).memsz.toNat = Spec.get (Spec.phdrL c) enc img k "p_memsz" ∧
    (segHdr c enc img k isLazy).align.toNat = Spec.get (Spec.phdrL c) enc img k "p_align" := by
  have hlen : phdrSize c ≤ (slice img k (phdrSize c)).length := by
    rw [slice_length_of_le hk]; exact Nat.le_refl _
  have h := phdr_fields_eq_spec c enc (slice img k (phdrSize c))
    (segInit (BitVec.ofNat 64 img.length) isLazy) hlen
  have g := fun name hh => get_slice (Spec.phdrL c) enc img k (phdrSize c) name hh
  simp only [] at h
  rw [g "p_type" (by cases c <;> decide), g "p_flags" (by cases c <;> decide),
    g "p_offset" (by cases c <;> decide), g "p_vaddr" (by cases c <;> decide),
    g "p_paddr" (by cases c <;> decide), g "p_filesz" (by cases c <;> decide),
    g "p_memsz" (by cases c <;> decide), g "p_align" (by cases c <;> decide)] at h
  exact h

theorem beq32 (t : BitVec 32) (k : Nat) (hk : k < 4294967296) : (t == BitVec.ofNat 32 k) = (t.toNat == k) := by
  rw [Bool.eq_iff_iff]
  simp only [beq_iff_eq]
  constructor
  · intro h; rw [h]; simp only [BitVec.toNat_ofNat, Nat.reducePow]; omega
  · intro h; apply BitVec.eq_of_toNat_eq; simp only [BitVec.toNat_ofNat, Nat.reducePow]; omega

theorem isNullOrNobits_eq (t : BitVec 32) : isNullOrNobitsTy t = !occupiesFile t.toNat := by
  unfold isNullOrNobitsTy occupiesFile
  rw [beq32 t SHT_NULL (by decide), beq32 t SHT_NOBITS (by decide)]
  have e1 : SHT_NULL = Spec.SHT_NULL := rfl
  have e2 : SHT_NOBITS = Spec.SHT_NOBITS := rfl
  rw [e1, e2]
  simp only [bne]
  generalize (t.toNat == Spec.SHT_NULL) = a
  generalize (t.toNat == Spec.SHT_NOBITS) = b
  cases a <;> cases b <;> rfl

theorem segSkip_eq (g : Seg) : segSkip g = (g.stype.toNat == Spec.PT_NULL || g.filesz.toNat == 0) := by
  unfold segSkip seg64_load_data_skip
  have e1 : BitVec.signExtend 64 0#32 = 0#64 := by decide
  rw [e1, Bool.eq_iff_iff]
  simp only [Bool.or_eq_true, beq_iff_eq]
  have e2 : PT_NULL = Spec.PT_NULL := rfl
  constructor
  · rintro (h | h)
    · left; rw [← h]; simp only [BitVec.toNat_ofNat, Nat.reducePow, ← e2]; decide
    · right; rw [← h]; rfl
  · rintro (h | h)
    · left; apply BitVec.eq_of_toNat_eq; rw [h]; decide
    · right; apply BitVec.eq_of_toNat_eq; rw [h]; rfl

end ElfioVerif.C02
