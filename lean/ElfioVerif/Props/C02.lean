/-
C02 — the reader reports what the ELF specification says is in the file.
Record level: layouts, field decoders, membership rule.
-/
import ElfioVerif.Lemmas.Records
import ElfioVerif.Model.Load
namespace ElfioVerif.C02
open Gen

/-- the struct layouts and constants the implementation was compiled with are the gABI's -/
theorem layouts_eq_spec :
    layout_Elf32_Ehdr = Spec.ehdr32 ∧ layout_Elf64_Ehdr = Spec.ehdr64 ∧
    layout_Elf32_Shdr = Spec.shdr32 ∧ layout_Elf64_Shdr = Spec.shdr64 ∧
    layout_Elf32_Phdr = Spec.phdr32 ∧ layout_Elf64_Phdr = Spec.phdr64 ∧
    (∀ c, ehdrSize c = Spec.ehdrSize c ∧ shdrSize c = Spec.shdrSize c ∧ phdrSize c = Spec.phdrSize c) :=
  ⟨layout_Ehdr32, layout_Ehdr64, layout_Shdr32, layout_Shdr64, layout_Phdr32, layout_Phdr64, sizes_eq⟩

private theorem toNat_sw32 (x : BitVec 64) (h : x.toNat < 4294967296) : (x.setWidth 32).toNat = x.toNat := by
  simp only [BitVec.toNat_setWidth, Nat.reducePow]; omega
private theorem toNat_sw16 (x : BitVec 64) (h : x.toNat < 65536) : (x.setWidth 16).toNat = x.toNat := by
  simp only [BitVec.toNat_setWidth, Nat.reducePow]; omega

private theorem dec_lt (enc : Enc) (bs : Bytes) : decodeInt enc bs < 2 ^ (8 * bs.length) := by
  cases enc
  · exact leDecode_lt bs
  · have := leDecode_lt bs.reverse; simpa [decodeInt, beDecode] using this

theorem get_of_field {l : Spec.Layout} {e : Enc} {img : Bytes} {base : Nat} {name : String} {o w : Nat}
    (h : Spec.field l name = (o, w)) : Spec.get l e img base name = decodeInt e (slice img (base + o) w) := by
  simp [Spec.get, h]

/-- one field: model getter on the record = specification decoder at the specification offset -/
theorem fld64 (l : Spec.Layout) (enc : Enc) (r : Bytes) (name : String) (o w : Nat)
    (hf : Spec.field l name = (o, w)) (hw : w = 1 ∨ w = 2 ∨ w = 4 ∨ w = 8) (hr : o + w ≤ r.length) :
    (fld enc r o w).toNat = Spec.get l enc r 0 name := by
  rw [get_of_field hf, Nat.zero_add]; exact fld_eq_spec enc r o w hw hr

theorem fld32 (l : Spec.Layout) (enc : Enc) (r : Bytes) (name : String) (o : Nat)
    (hf : Spec.field l name = (o, 4)) (hr : o + 4 ≤ r.length) :
    ((fld enc r o 4).setWidth 32).toNat = Spec.get l enc r 0 name := by
  rw [← fld64 l enc r name o 4 hf (by decide) hr]
  apply toNat_sw32
  rw [fld_eq_spec enc r o 4 (by decide) hr]
  have := dec_lt enc (slice r o 4)
  rw [slice_length_of_le hr] at this; simpa using this

theorem fld16 (l : Spec.Layout) (enc : Enc) (r : Bytes) (name : String) (o : Nat)
    (hf : Spec.field l name = (o, 2)) (hr : o + 2 ≤ r.length) :
    ((fld enc r o 2).setWidth 16).toNat = Spec.get l enc r 0 name := by
  rw [← fld64 l enc r name o 2 hf (by decide) hr]
  apply toNat_sw16
  rw [fld_eq_spec enc r o 2 (by decide) hr]
  have := dec_lt enc (slice r o 2)
  rw [slice_length_of_le hr] at this; simpa using this

/-- every section-header field reported by the model's decoder is the specification codec applied
    at the specification's offset -/
theorem shdr_fields_eq_spec (c : Cls) (enc : Enc) (r : Bytes) (b : SecBuf) (h : shdrSize c ≤ r.length) :
    let s := decodeShdr c enc r b
    s.nameOff.toNat = Spec.get (Spec.shdrL c) enc r 0 "sh_name" ∧
    s.stype.toNat = Spec.get (Spec.shdrL c) enc r 0 "sh_type" ∧
    s.flags.toNat = Spec.get (Spec.shdrL c) enc r 0 "sh_flags" ∧
    s.addr.toNat = Spec.get (Spec.shdrL c) enc r 0 "sh_addr" ∧
    s.offset.toNat = Spec.get (Spec.shdrL c) enc r 0 "sh_offset" ∧
    s.size.toNat = Spec.get (Spec.shdrL c) enc r 0 "sh_size" ∧
    s.link.toNat = Spec.get (Spec.shdrL c) enc r 0 "sh_link" ∧
    s.info.toNat = Spec.get (Spec.shdrL c) enc r 0 "sh_info" ∧
    s.addrAlign.toNat = Spec.get (Spec.shdrL c) enc r 0 "sh_addralign" ∧
    s.entSize.toNat = Spec.get (Spec.shdrL c) enc r 0 "sh_entsize" := by
  cases c
  · have h' : 40 ≤ r.length := h
    exact ⟨fld32 _ enc r _ _ (by decide) (Nat.le_trans (by decide) h'), fld32 _ enc r _ _ (by decide) (Nat.le_trans (by decide) h'),
      fld64 _ enc r _ _ _ (by decide) (by decide) (Nat.le_trans (by decide) h'), fld64 _ enc r _ _ _ (by decide) (by decide) (Nat.le_trans (by decide) h'),
      fld64 _ enc r _ _ _ (by decide) (by decide) (Nat.le_trans (by decide) h'), fld64 _ enc r _ _ _ (by decide) (by decide) (Nat.le_trans (by decide) h'),
      fld32 _ enc r _ _ (by decide) (Nat.le_trans (by decide) h'), fld32 _ enc r _ _ (by decide) (Nat.le_trans (by decide) h'),
      fld64 _ enc r _ _ _ (by decide) (by decide) (Nat.le_trans (by decide) h'), fld64 _ enc r _ _ _ (by decide) (by decide) (Nat.le_trans (by decide) h')⟩
  · have h' : 64 ≤ r.length := h
    exact ⟨fld32 _ enc r _ _ (by decide) (Nat.le_trans (by decide) h'), fld32 _ enc r _ _ (by decide) (Nat.le_trans (by decide) h'),
      fld64 _ enc r _ _ _ (by decide) (by decide) (Nat.le_trans (by decide) h'), fld64 _ enc r _ _ _ (by decide) (by decide) (Nat.le_trans (by decide) h'),
      fld64 _ enc r _ _ _ (by decide) (by decide) (Nat.le_trans (by decide) h'), fld64 _ enc r _ _ _ (by decide) (by decide) (Nat.le_trans (by decide) h'),
      fld32 _ enc r _ _ (by decide) (Nat.le_trans (by decide) h'), fld32 _ enc r _ _ (by decide) (Nat.le_trans (by decide) h'),
      fld64 _ enc r _ _ _ (by decide) (by decide) (Nat.le_trans (by decide) h'), fld64 _ enc r _ _ _ (by decide) (by decide) (Nat.le_trans (by decide) h')⟩

/-- every program-header field -/
theorem phdr_fields_eq_spec (c : Cls) (enc : Enc) (r : Bytes) (g0 : Seg) (h : phdrSize c ≤ r.length) :
    let g := decodePhdr c enc r g0
    g.stype.toNat = Spec.get (Spec.phdrL c) enc r 0 "p_type" ∧
    g.flags.toNat = Spec.get (Spec.phdrL c) enc r 0 "p_flags" ∧
    g.offset.toNat = Spec.get (Spec.phdrL c) enc r 0 "p_offset" ∧
    g.vaddr.toNat = Spec.get (Spec.phdrL c) enc r 0 "p_vaddr" ∧
    g.paddr.toNat = Spec.get (Spec.phdrL c) enc r 0 "p_paddr" ∧
    g.filesz.toNat = Spec.get (Spec.phdrL c) enc r 0 "p_filesz" ∧
    g.memsz.toNat = Spec.get (Spec.phdrL c) enc r 0 "p_memsz" ∧
    g.align.toNat = Spec.get (Spec.phdrL c) enc r 0 "p_align" := by
  cases c
  · have h' : 32 ≤ r.length := h
    exact ⟨fld32 _ enc r _ _ (by decide) (Nat.le_trans (by decide) h'), fld32 _ enc r _ _ (by decide) (Nat.le_trans (by decide) h'),
      fld64 _ enc r _ _ _ (by decide) (by decide) (Nat.le_trans (by decide) h'), fld64 _ enc r _ _ _ (by decide) (by decide) (Nat.le_trans (by decide) h'),
      fld64 _ enc r _ _ _ (by decide) (by decide) (Nat.le_trans (by decide) h'), fld64 _ enc r _ _ _ (by decide) (by decide) (Nat.le_trans (by decide) h'),
      fld64 _ enc r _ _ _ (by decide) (by decide) (Nat.le_trans (by decide) h'), fld64 _ enc r _ _ _ (by decide) (by decide) (Nat.le_trans (by decide) h')⟩
  · have h' : 56 ≤ r.length := h
    exact ⟨fld32 _ enc r _ _ (by decide) (Nat.le_trans (by decide) h'), fld32 _ enc r _ _ (by decide) (Nat.le_trans (by decide) h'),
      fld64 _ enc r _ _ _ (by decide) (by decide) (Nat.le_trans (by decide) h'), fld64 _ enc r _ _ _ (by decide) (by decide) (Nat.le_trans (by decide) h'),
      fld64 _ enc r _ _ _ (by decide) (by decide) (Nat.le_trans (by decide) h'), fld64 _ enc r _ _ _ (by decide) (by decide) (Nat.le_trans (by decide) h'),
      fld64 _ enc r _ _ _ (by decide) (by decide) (Nat.le_trans (by decide) h'), fld64 _ enc r _ _ _ (by decide) (by decide) (Nat.le_trans (by decide) h')⟩

/-- every ELF-header field (the raw header struct `h` is the first `ehdrSize c` bytes of the file) -/
theorem ehdr_fields_eq_spec (c : Cls) (enc : Enc) (h : Bytes) (hl : ehdrSize c ≤ h.length) :
    (Hdr.e_type c enc h).toNat = Spec.get (Spec.ehdrL c) enc h 0 "e_type" ∧
    (Hdr.e_machine c enc h).toNat = Spec.get (Spec.ehdrL c) enc h 0 "e_machine" ∧
    (Hdr.e_version c enc h).toNat = Spec.get (Spec.ehdrL c) enc h 0 "e_version" ∧
    (Hdr.e_entry c enc h).toNat = Spec.get (Spec.ehdrL c) enc h 0 "e_entry" ∧
    (Hdr.e_phoff c enc h).toNat = Spec.get (Spec.ehdrL c) enc h 0 "e_phoff" ∧
    (Hdr.e_shoff c enc h).toNat = Spec.get (Spec.ehdrL c) enc h 0 "e_shoff" ∧
    (Hdr.e_flags c enc h).toNat = Spec.get (Spec.ehdrL c) enc h 0 "e_flags" ∧
    (Hdr.e_ehsize c enc h).toNat = Spec.get (Spec.ehdrL c) enc h 0 "e_ehsize" ∧
    (Hdr.e_phentsize c enc h).toNat = Spec.get (Spec.ehdrL c) enc h 0 "e_phentsize" ∧
    (Hdr.e_phnum c enc h).toNat = Spec.get (Spec.ehdrL c) enc h 0 "e_phnum" ∧
    (Hdr.e_shentsize c enc h).toNat = Spec.get (Spec.ehdrL c) enc h 0 "e_shentsize" ∧
    (Hdr.e_shnum c enc h).toNat = Spec.get (Spec.ehdrL c) enc h 0 "e_shnum" ∧
    (Hdr.e_shstrndx c enc h).toNat = Spec.get (Spec.ehdrL c) enc h 0 "e_shstrndx" := by
  cases c
  · have h' : 52 ≤ h.length := hl
    exact ⟨fld16 _ enc h _ _ (by decide) (Nat.le_trans (by decide) h'), fld16 _ enc h _ _ (by decide) (Nat.le_trans (by decide) h'),
      fld32 _ enc h _ _ (by decide) (Nat.le_trans (by decide) h'), fld64 _ enc h _ _ _ (by decide) (by decide) (Nat.le_trans (by decide) h'),
      fld64 _ enc h _ _ _ (by decide) (by decide) (Nat.le_trans (by decide) h'), fld64 _ enc h _ _ _ (by decide) (by decide) (Nat.le_trans (by decide) h'),
      fld32 _ enc h _ _ (by decide) (Nat.le_trans (by decide) h'), fld16 _ enc h _ _ (by decide) (Nat.le_trans (by decide) h'),
      fld16 _ enc h _ _ (by decide) (Nat.le_trans (by decide) h'), fld16 _ enc h _ _ (by decide) (Nat.le_trans (by decide) h'),
      fld16 _ enc h _ _ (by decide) (Nat.le_trans (by decide) h'), fld16 _ enc h _ _ (by decide) (Nat.le_trans (by decide) h'),
      fld16 _ enc h _ _ (by decide) (Nat.le_trans (by decide) h')⟩
  · have h' : 64 ≤ h.length := hl
    exact ⟨fld16 _ enc h _ _ (by decide) (Nat.le_trans (by decide) h'), fld16 _ enc h _ _ (by decide) (Nat.le_trans (by decide) h'),
      fld32 _ enc h _ _ (by decide) (Nat.le_trans (by decide) h'), fld64 _ enc h _ _ _ (by decide) (by decide) (Nat.le_trans (by decide) h'),
      fld64 _ enc h _ _ _ (by decide) (by decide) (Nat.le_trans (by decide) h'), fld64 _ enc h _ _ _ (by decide) (by decide) (Nat.le_trans (by decide) h'),
      fld32 _ enc h _ _ (by decide) (Nat.le_trans (by decide) h'), fld16 _ enc h _ _ (by decide) (Nat.le_trans (by decide) h'),
      fld16 _ enc h _ _ (by decide) (Nat.le_trans (by decide) h'), fld16 _ enc h _ _ (by decide) (Nat.le_trans (by decide) h'),
      fld16 _ enc h _ _ (by decide) (Nat.le_trans (by decide) h'), fld16 _ enc h _ _ (by decide) (Nat.le_trans (by decide) h'),
      fld16 _ enc h _ _ (by decide) (Nat.le_trans (by decide) h')⟩

private theorem bit_div (x : BitVec 64) (i : Nat) : x.getLsbD i = (x.toNat / 2 ^ i % 2 == 1) := by
  simp only [BitVec.getLsbD, Nat.testBit_eq_decide_div_mod_eq]
  rw [Bool.eq_iff_iff]; simp

/-- **membership** : the generated test (`is_sect_in_seg` on addresses or offsets, with the TLS
    exclusion) is the specification's section-in-segment rule whenever none of the four range ends
    wraps around 2^64 -/
theorem member_eq_spec (g : Seg) (b : SecBuf)
    (h1 : b.addr.toNat + b.size.toNat < 18446744073709551616)
    (h2 : b.offset.toNat + b.size.toNat < 18446744073709551616)
    (h3 : g.vaddr.toNat + g.memsz.toNat < 18446744073709551616)
    (h4 : g.offset.toNat + g.filesz.toNat < 18446744073709551616) :
    memberOf g b = Spec.inSegment b.flags.toNat b.addr.toNat b.offset.toNat b.size.toNat
      g.stype.toNat g.offset.toNat g.vaddr.toNat g.filesz.toNat g.memsz.toNat := by
  have ha := b.addr.isLt; have ho := b.offset.isLt; have hs := b.size.isLt
  have hv := g.vaddr.isLt; have hgo := g.offset.isLt
  simp only [Nat.reducePow] at ha ho hs hv hgo
  unfold memberOf load_segments_member load_segments_tls_skip is_sect_in_seg
    load_segments_seg_end_off load_segments_seg_end_addr Spec.inSegment
  have c1 : BitVec.ofNat 64 SHF_ALLOC = 2#64 := rfl
  have c2 : BitVec.ofNat 64 SHF_TLS = 1024#64 := rfl
  have c3 : BitVec.ofNat 32 PT_TLS = 7#32 := rfl
  rw [c1, c2, c3]
  simp only [and_eq_bit1, and_eq_bit10, and_ne_bit10, bit_div, Spec.SHF_ALLOC, Spec.SHF_TLS, Spec.PT_TLS]
  have e1 : (b.addr + b.size).toNat = b.addr.toNat + b.size.toNat := by
    rw [BitVec.toNat_add]; simp only [Nat.reducePow]; omega
  have e2 : (b.offset + b.size).toNat = b.offset.toNat + b.size.toNat := by
    rw [BitVec.toNat_add]; simp only [Nat.reducePow]; omega
  have e3 : (g.vaddr + g.memsz).toNat = g.vaddr.toNat + g.memsz.toNat := by
    rw [BitVec.toNat_add]; simp only [Nat.reducePow]; omega
  have e4 : (g.offset + g.filesz).toNat = g.offset.toNat + g.filesz.toNat := by
    rw [BitVec.toNat_add]; simp only [Nat.reducePow]; omega
  have t : (g.stype == 7#32) = (g.stype.toNat == 7) := by
    rw [Bool.eq_iff_iff]; simp [BitVec.toNat_eq]
  have t' : (g.stype != 7#32) = !(g.stype.toNat == 7) := by
    simp [bne, t]
  simp only [BitVec.ule, BitVec.ult, e1, e2, e3, e4, t, t', Nat.reducePow]
  rcases Bool.eq_false_or_eq_true (b.flags.toNat / 2 % 2 == 1) with hA | hA <;>
  rcases Bool.eq_false_or_eq_true (b.flags.toNat / 1024 % 2 == 1) with hT | hT <;>
  rcases Bool.eq_false_or_eq_true (g.stype.toNat == 7) with hG | hG <;>
  simp [hA, hT, hG]

end ElfioVerif.C02
