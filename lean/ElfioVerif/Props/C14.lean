/-
C14 — array, module-info and symbol-version tables round-trip.

Statements use: the models (Model/Array.lean, Model/Modinfo.lean, Model/Versym.lean — built from the
generated sites of Gen/SitesC14.lean), the reference semantics Spec/Tables.lean, C07's section
invariant (`SecBuf.Inv`, `content`: every section that was created, edited, loaded eagerly or
loaded lazily) and explicit, decidable size bounds (`Bound`: < 4 GiB in ELF32, < 2 EiB in ELF64).

Proved for all sequences / inputs:
* arrays, both entry widths, all 4 configurations: `array_add`, `array_adds` (content = old content ++
  table in declared order), `array_get` (k-th entry truncated to the width; `false` for every 64-bit
  index beyond the end; never leaves the buffer), `array_roundtrip`, `array_bytes`, `array_get_reloaded`.
* modinfo: `modinfo_add`, `modinfo_adds`, `modinfo_parse` (the constructor's parser inverts the
  encoding for fields without `=`/NUL and values without NUL, reading only inside the section),
  `modinfo_roundtrip`, `modinfo_by_name` (= `Spec.lookupFirst`), `modinfo_parse_reloaded`;
  `modinfo_no_eq_quirk` records the `npos+1` behaviour for records without `=` (outside the property).
* versym table: `versym_add`, `versym_adds`, `versym_get`, `versym_roundtrip`, `versym_get_reloaded`
  hold in all configurations (the accessor is symmetric).  The property's byte-order clause is
  FALSE on the tree (finding F4, open): `VersymBytesDeclaredOrder` is stated, refuted by
  `versym_order_witness` / `versym_bytes_declared_order_false`, `versym_read_witness` shows the
  read side, and `versym_bytes_partial` proves the clause for exactly the complement of the trigger
  (declared order = host order, `needConv e = false`).
* verneed / verdef (after fixes/05): `verneed_get_eq_spec`, `verdef_get_eq_spec` — whenever the
  GNU-ABI reference reader of Spec/Tables.lean succeeds, `get_entry` reports the same values without
  a fault, in either byte order; `*_get_absent` for indices ≥ the cached count.

Not proved here (correspondence + oracle only): that `save` writes `content` and `load` reads it back
(the `*_reloaded` theorems start from `SecBuf.loadedEager/loadedLazy`); that the cached count of the
verneed/verdef accessors is DT_VERNEEDNUM/DT_VERDEFNUM (dynamic accessor, C12); `strLookup` is a local
model of `string_section_accessor::get_string` (C08).  Only the *first* auxiliary record of each
requirement/definition is reported by the API; the others are not observable.
Behaviour on malformed chains (offsets outside the section) is C18's business: the model faults there.
-/
import ElfioVerif.Lemmas.Tables
namespace ElfioVerif
open Gen

namespace Arr

/-- a sequence of `add_entry` calls -/
def addAll (w : W) (e : Enc) (b : SecBuf) : List (BitVec 64) → M SecBuf
  | [] => pure b
  | a :: as => do let b' ← addEntry w e b a; addAll w e b' as

end Arr

namespace Versym

/-- a sequence of `add_entry` calls on one accessor (cached count threaded through) -/
def addAll (b : SecBuf) (num : BitVec 32) : List (BitVec 16) → M (SecBuf × BitVec 32)
  | [] => pure (b, num)
  | v :: vs => do let r ← addEntry b num v; addAll r.1 r.2 vs

end Versym

namespace Modinfo

/-- a sequence of `add_attribute` calls on one accessor (section state and cached vector) -/
def addAll (b : SecBuf) (c : List Attr) : List Attr → M (SecBuf × List Attr)
  | [] => pure (b, c)
  | a :: as => do let r ← addAttribute b c a.1 a.2; addAll r.2.1 r.2.2 as

end Modinfo

namespace C14
open SecBuf C07

theorem bound_mono {c : Cls} {k k' : Nat} (h : Bound c k) (hk : k' ≤ k) : Bound c k' := by
  cases c <;> simp only [Bound] at h ⊢ <;> omega

/-! ## arrays -/

/-- the bytes `add_entry` appends are the entry in the file's declared byte order -/
theorem entryBytes_eq (w : Arr.W) (e : Enc) (a : BitVec 64) :
    Arr.entryBytes w e a = encodeInt e w.bytes a.toNat := by
  cases w
  · have h4 : arr32_add_len.toNat = 4 := rfl
    show _ = encodeInt e 4 a.toNat
    rw [← wrField_eq e 4 a.toNat (by omega)]
    simp only [Arr.entryBytes, h4, wrField, conv, arr32_add_conv, cv32, Arr.W.bytes]
    congr 3
    apply BitVec.eq_of_toNat_eq
    simp
  · have h8 : arr64_add_len.toNat = 8 := rfl
    show _ = encodeInt e 8 a.toNat
    rw [← wrField_eq e 8 a.toNat (by omega)]
    simp only [Arr.entryBytes, h8, wrField, conv, arr64_add_conv, cv64, Arr.W.bytes]
    have : a.toNat % 2 ^ (8 * 8) = a.toNat := Nat.mod_eq_of_lt a.isLt
    simp [this]

/-- **add_entry** : on every reachable section, `add_entry(a)` succeeds without leaving the
    section's buffers and appends `a`, truncated to the entry width, in the declared byte order -/
theorem array_add (w : Arr.W) (e : Enc) (b : SecBuf) (hI : b.Inv) (a : BitVec 64)
    (hb : Bound b.cls (b.content.length + w.bytes)) :
    ∃ b', Arr.addEntry w e b a = .ok b' ∧ b'.Inv ∧ b'.cls = b.cls ∧
      b'.content = b.content ++ encodeInt e w.bytes a.toNat := by
  have hl : (Arr.entryBytes w e a).length = w.bytes := by rw [entryBytes_eq]; simp
  obtain ⟨b', h1, h2, h3, h4⟩ := append_refines b hI (Arr.entryBytes w e a) (by rw [hl]; exact hb)
  exact ⟨b', h1, Or.inl h2, h3, by rw [h4, entryBytes_eq]⟩

/-- **array_bytes, any sequence** : after any sequence of `add_entry` the section content is the
    old content followed by the table of the added values in declared order -/
theorem array_adds (w : Arr.W) (e : Enc) (b : SecBuf) (hI : b.Inv) (as : List (BitVec 64))
    (hb : Bound b.cls (b.content.length + w.bytes * as.length)) :
    ∃ b', Arr.addAll w e b as = .ok b' ∧ b'.Inv ∧ b'.cls = b.cls ∧
      b'.content = b.content ++ Spec.encodeArrTable e w.bytes (as.map (·.toNat)) := by
  induction as generalizing b with
  | nil => exact ⟨b, rfl, hI, rfl, by simp [Spec.encodeArrTable]⟩
  | cons a as ih =>
    simp only [List.length_cons, Nat.mul_add, Nat.mul_one] at hb
    obtain ⟨b1, e1, i1, c1, v1⟩ := array_add w e b hI a (bound_mono hb (by omega))
    obtain ⟨b2, e2, i2, c2, v2⟩ := ih b1 i1 (by
      rw [c1, v1]; simp only [List.length_append, encodeInt_length]; exact bound_mono hb (by omega))
    refine ⟨b2, ?_, i2, by rw [c2, c1], ?_⟩
    · simp only [Arr.addAll, e1, bind, Except.bind]; exact e2
    · rw [v2, v1]; simp [Spec.encodeArrTable]

theorem entriesNum_toNat (w : Arr.W) (b : SecBuf) :
    (Arr.entriesNum w b).toNat = b.size.toNat / w.bytes := by
  cases w <;> simp [Arr.entriesNum, arr32_entries_num, arr64_entries_num, Arr.W.bytes, BitVec.toNat_udiv]

/-- **get_entry** : on every reachable section (fresh and edited, loaded eagerly, loaded lazily)
    whose content is a table of `w`-byte entries in declared order, `get_entry(k)` is the `k`-th
    entry truncated to the entry width, and `false` for every 64-bit index beyond the end -/
theorem array_get (w : Arr.W) (e : Enc) (b : SecBuf) (hI : b.Inv) (vs : List Nat)
    (hc : b.content = Spec.encodeArrTable e w.bytes vs) (index : BitVec 64) :
    Arr.getEntry w e b index =
      .ok (if h : index.toNat < vs.length then some (BitVec.ofNat 64 (vs[index.toNat] % 2 ^ (8 * w.bytes)))
           else none) := by
  have hl := content_length hI
  rw [hc, Spec.encodeTable_length] at hl
  have hsz := b.size.isLt
  have hn := entriesNum_toNat w b
  have hw : w.bytes = 4 ∨ w.bytes = 8 := by cases w <;> simp [Arr.W.bytes]
  have hnum : (Arr.entriesNum w b).toNat = vs.length := by
    rw [hn, ← hl]; rcases hw with h | h <;> rw [h] <;> omega
  by_cases hk : index.toNat < vs.length
  · rw [dif_pos hk]
    have hoff : index.toNat * w.bytes + w.bytes ≤ b.content.length := by
      rw [hc, Spec.encodeTable_length]
      calc index.toNat * w.bytes + w.bytes = w.bytes * (index.toNat + 1) := by
            rw [Nat.mul_add, Nat.mul_comm]; omega
        _ ≤ w.bytes * vs.length := Nat.mul_le_mul_left _ hk
    have hlt : index.toNat * w.bytes < 18446744073709551616 := by
      have : b.content.length = b.size.toNat := content_length hI
      simp only [Nat.reducePow] at hsz; omega
    have hrd := getData_read hI "array/get_entry" (index.toNat * w.bytes) w.bytes hoff (by omega)
    rw [hc, slice_encodeTable e w.bytes vs _ hk] at hrd
    cases w
    · simp only [Arr.W.bytes] at hrd hlt hnum ⊢
      have hg : arr32_get_guard index (Arr.entriesNum .w4 b) = false := by
        simp only [arr32_get_guard, BitVec.ule, hnum, decide_eq_false_iff_not]; omega
      have ho : (arr32_get_off index).toNat = index.toNat * 4 := by
        simp only [arr32_get_off, BitVec.toNat_mul, BitVec.toNat_ofNat, Nat.reducePow, Nat.reduceMod]
        omega
      simp only [Arr.getEntry, hg, Bool.false_eq_true, if_false, ho, hrd, bind, Except.bind, pure,
        Except.pure]
      congr 2
      apply BitVec.eq_of_toNat_eq
      have hc32 := cv32_toNat e (encodeInt e 4 vs[index.toNat]) (by simp)
      rw [decode_encodeInt] at hc32
      simp only [arr32_get_conv, BitVec.toNat_setWidth, hc32, BitVec.toNat_ofNat, Nat.reducePow]
    · simp only [Arr.W.bytes] at hrd hlt hnum ⊢
      have hg : arr64_get_guard index (Arr.entriesNum .w8 b) = false := by
        simp only [arr64_get_guard, BitVec.ule, hnum, decide_eq_false_iff_not]; omega
      have ho : (arr64_get_off index).toNat = index.toNat * 8 := by
        simp only [arr64_get_off, BitVec.toNat_mul, BitVec.toNat_ofNat, Nat.reducePow, Nat.reduceMod]
        omega
      simp only [Arr.getEntry, hg, Bool.false_eq_true, if_false, ho, hrd, bind, Except.bind, pure,
        Except.pure]
      congr 2
      apply BitVec.eq_of_toNat_eq
      have hc64 := cv64_toNat e (encodeInt e 8 vs[index.toNat]) (by simp)
      rw [decode_encodeInt] at hc64
      simp only [arr64_get_conv, hc64, BitVec.toNat_ofNat, Nat.reducePow]
      omega
  · rw [dif_neg hk]
    cases w
    · have hg : arr32_get_guard index (Arr.entriesNum .w4 b) = true := by
        simp only [arr32_get_guard, BitVec.ule, hnum, decide_eq_true_eq]; omega
      simp [Arr.getEntry, hg, pure, Except.pure]
    · have hg : arr64_get_guard index (Arr.entriesNum .w8 b) = true := by
        simp only [arr64_get_guard, BitVec.ule, hnum, decide_eq_true_eq]; omega
      simp [Arr.getEntry, hg, pure, Except.pure]

/-- **array_roundtrip** : every address added to a freshly created array section is returned
    unchanged (up to the entry width) by index, for both entry widths and all 4 configurations -/
theorem array_roundtrip (w : Arr.W) (cls : Cls) (e : Enc) (ty : BitVec 32)
    (hty : ty ≠ BitVec.ofNat 32 SHT_NOBITS) (as : List (BitVec 64))
    (hb : Bound cls (w.bytes * as.length)) :
    ∃ b', Arr.addAll w e (SecBuf.fresh cls ty) as = .ok b' ∧
      ∀ (k : BitVec 64), Arr.getEntry w e b' k =
        .ok (if h : k.toNat < as.length then some (BitVec.ofNat 64 (as[k.toNat].toNat % 2 ^ (8 * w.bytes)))
             else none) := by
  obtain ⟨hI, hc⟩ := fresh_inv cls ty hty
  obtain ⟨b', e1, i1, _, v1⟩ := array_adds w e (SecBuf.fresh cls ty) hI as (by
    rw [hc]; simpa [SecBuf.fresh] using hb)
  refine ⟨b', e1, fun k => ?_⟩
  rw [hc, List.nil_append] at v1
  rw [array_get w e b' i1 _ v1 k]
  simp

/-- **array_bytes** : … and is stored in the file's declared byte order -/
theorem array_bytes (w : Arr.W) (cls : Cls) (e : Enc) (ty : BitVec 32)
    (hty : ty ≠ BitVec.ofNat 32 SHT_NOBITS) (as : List (BitVec 64))
    (hb : Bound cls (w.bytes * as.length)) :
    ∃ b', Arr.addAll w e (SecBuf.fresh cls ty) as = .ok b' ∧
      b'.content = Spec.encodeArrTable e w.bytes (as.map (·.toNat)) := by
  obtain ⟨hI, hc⟩ := fresh_inv cls ty hty
  obtain ⟨b', e1, _, _, v1⟩ := array_adds w e (SecBuf.fresh cls ty) hI as (by
    rw [hc]; simpa [SecBuf.fresh] using hb)
  exact ⟨b', e1, by rw [v1, hc, List.nil_append]⟩

/-- … after save and reload: a section loaded (eagerly or lazily) with the bytes of a table reads
    back the same entries.  (That `save` writes the content and `load` reads it is correspondence.) -/
theorem array_get_reloaded (w : Arr.W) (cls : Cls) (e : Enc) (ty : BitVec 32) (lazy : Bool) (ss : BitVec 64)
    (hty : ty ≠ BitVec.ofNat 32 SHT_NOBITS) (hty0 : ty ≠ BitVec.ofNat 32 SHT_NULL) (vs : List Nat)
    (hlen : w.bytes * vs.length < 18446744073709551616) (k : BitVec 64) :
    Arr.getEntry w e
      (if lazy then SecBuf.loadedLazy cls ty (Spec.encodeArrTable e w.bytes vs) ss
       else SecBuf.loadedEager cls ty (Spec.encodeArrTable e w.bytes vs) ss) k =
      .ok (if h : k.toNat < vs.length then some (BitVec.ofNat 64 (vs[k.toNat] % 2 ^ (8 * w.bytes))) else none) := by
  cases lazy
  · obtain ⟨hI, hc⟩ := loaded_inv cls ty (Spec.encodeArrTable e w.bytes vs) ss hty (by simpa using hlen)
    exact array_get w e _ hI vs hc k
  · obtain ⟨hI, hc⟩ := lazy_inv cls ty (Spec.encodeArrTable e w.bytes vs) ss hty hty0 (by simpa using hlen)
    exact array_get w e _ hI vs hc k

/-! ## symbol-version table (`.gnu.version`) -/

/-- **add_entry** : appends the index in *host* byte order (the accessor has no convertor) and
    counts it -/
theorem versym_add (b : SecBuf) (hI : b.Inv) (num : BitVec 32) (v : BitVec 16)
    (hb : Bound b.cls (b.content.length + 2)) :
    ∃ b', Versym.addEntry b num v = .ok (b', num + 1) ∧ b'.Inv ∧ b'.cls = b.cls ∧
      b'.content = b.content ++ encodeInt hostEnc 2 v.toNat := by
  have h2 : vs_add_len.toNat = 2 := rfl
  have hg : vs_add_guard true = false := rfl
  obtain ⟨b', h1, r, c, w⟩ := append_refines b hI (encodeInt hostEnc 2 v.toNat) (by simpa using hb)
  refine ⟨b', ?_, Or.inl r, c, w⟩
  simp only [Versym.addEntry, hg, Bool.false_eq_true, if_false, h2, hostEncode_eq, h1, bind, Except.bind,
    pure, Except.pure]

theorem versym_adds (b : SecBuf) (hI : b.Inv) (num : BitVec 32) (vs : List (BitVec 16))
    (hb : Bound b.cls (b.content.length + 2 * vs.length)) :
    ∃ b', Versym.addAll b num vs = .ok (b', num + BitVec.ofNat 32 vs.length) ∧ b'.Inv ∧ b'.cls = b.cls ∧
      b'.content = b.content ++ Spec.encodeArrTable hostEnc 2 (vs.map (·.toNat)) := by
  induction vs generalizing b num with
  | nil => exact ⟨b, by simp [Versym.addAll, pure, Except.pure], hI, rfl, by simp [Spec.encodeArrTable]⟩
  | cons v vs ih =>
    simp only [List.length_cons, Nat.mul_add, Nat.mul_one] at hb
    obtain ⟨b1, e1, i1, c1, v1⟩ := versym_add b hI num v (bound_mono hb (by omega))
    obtain ⟨b2, e2, i2, c2, v2⟩ := ih b1 i1 (num + 1) (by
      rw [c1, v1]; simp only [List.length_append, encodeInt_length]; exact bound_mono hb (by omega))
    refine ⟨b2, ?_, i2, by rw [c2, c1], ?_⟩
    · simp only [Versym.addAll, e1, bind, Except.bind]
      rw [e2]
      congr 2
      apply BitVec.eq_of_toNat_eq
      have h1 : (1 : BitVec 32).toNat = 1 := rfl
      simp only [BitVec.toNat_add, BitVec.toNat_ofNat, List.length_cons, Nat.reducePow, h1]
      omega
    · rw [v2, v1]; simp [Spec.encodeArrTable]

/-- **get_entry** : on every reachable section whose content is a table of host-order Halfs and
    whose accessor counts them, `get_entry(k)` is the `k`-th entry; `false` beyond the end -/
theorem versym_get (b : SecBuf) (hI : b.Inv) (num : BitVec 32) (vs : List Nat)
    (hc : b.content = Spec.encodeArrTable hostEnc 2 vs) (hnum : num.toNat = vs.length) (no : BitVec 32) :
    Versym.getEntry b num no =
      .ok (if h : no.toNat < vs.length then some (BitVec.ofNat 16 (vs[no.toNat] % 65536)) else none) := by
  have hn := no.isLt
  simp only [Nat.reducePow] at hn
  by_cases hk : no.toNat < vs.length
  · rw [dif_pos hk]
    have hg : vs_get_guard true no (Versym.entriesNum num) = true := by
      simp only [vs_get_guard, Versym.entriesNum, vs_num_guard, if_true, Bool.true_and, BitVec.ult, hnum,
        decide_eq_true_eq]
      exact hk
    have ho : (vs_get_off no).toNat = no.toNat * 2 := by
      simp only [vs_get_off, BitVec.toNat_mul, BitVec.toNat_setWidth, BitVec.toNat_ofNat, Nat.reducePow,
        Nat.reduceMod]
      omega
    have hoff : no.toNat * 2 + 2 ≤ b.content.length := by
      rw [hc, Spec.encodeTable_length]; omega
    have hrd := getData_read hI "versym/get_entry" (no.toNat * 2) 2 hoff (by omega)
    rw [hc, slice_encodeTable hostEnc 2 vs _ hk] at hrd
    simp only [Versym.getEntry, hg, if_true, ho, hrd, bind, Except.bind, pure, Except.pure,
      hostDecode_eq, decode_encodeInt]
  · rw [dif_neg hk]
    have hg : vs_get_guard true no (Versym.entriesNum num) = false := by
      simp only [vs_get_guard, Versym.entriesNum, vs_num_guard, if_true, Bool.true_and, BitVec.ult, hnum,
        decide_eq_false_iff_not]
      exact hk
    simp [Versym.getEntry, hg, pure, Except.pure]

/-- **versym_roundtrip** (library-symmetric; holds in all 4 configurations — the declared byte
    order does not even occur): every version index added through an accessor on a fresh section is
    returned unchanged by index -/
theorem versym_roundtrip (cls : Cls) (ty : BitVec 32) (hty : ty ≠ BitVec.ofNat 32 SHT_NOBITS)
    (vs : List (BitVec 16)) (hb : Bound cls (2 * vs.length)) (h32 : vs.length < 4294967296) :
    ∃ b' n', Versym.addAll (SecBuf.fresh cls ty) (Versym.mk (SecBuf.fresh cls ty)) vs = .ok (b', n') ∧
      ∀ (k : BitVec 32), Versym.getEntry b' n' k =
        .ok (if h : k.toNat < vs.length then some vs[k.toNat] else none) := by
  obtain ⟨hI, hc⟩ := fresh_inv cls ty hty
  have hmk : Versym.mk (SecBuf.fresh cls ty) = 0 := by
    simp [Versym.mk, vs_ctor_guard, vs_count, SecBuf.fresh]
  obtain ⟨b', e1, i1, _, v1⟩ := versym_adds (SecBuf.fresh cls ty) hI 0 vs (by
    rw [hc]; simpa [SecBuf.fresh] using hb)
  refine ⟨b', _, by rw [hmk]; exact e1, fun k => ?_⟩
  rw [hc, List.nil_append] at v1
  rw [versym_get b' i1 _ _ v1 (by
    simp only [BitVec.toNat_add, BitVec.toNat_ofNat, List.length_map, Nat.reducePow]; simp; omega) k]
  simp only [List.length_map, List.getElem_map]
  split
  · congr 2
    apply BitVec.eq_of_toNat_eq
    have := (vs[k.toNat]).isLt
    simp only [BitVec.toNat_ofNat, Nat.reducePow] at *
    omega
  · rfl

/-- … also for a section that was loaded (eagerly or lazily) with a table of host-order Halfs -/
theorem versym_get_reloaded (cls : Cls) (ty : BitVec 32) (lazy : Bool) (ss : BitVec 64)
    (hty : ty ≠ BitVec.ofNat 32 SHT_NOBITS) (hty0 : ty ≠ BitVec.ofNat 32 SHT_NULL) (vs : List Nat)
    (hlen : vs.length < 4294967296) (k : BitVec 32) :
    let b := if lazy then SecBuf.loadedLazy cls ty (Spec.encodeArrTable hostEnc 2 vs) ss
             else SecBuf.loadedEager cls ty (Spec.encodeArrTable hostEnc 2 vs) ss
    Versym.getEntry b (Versym.mk b) k =
      .ok (if h : k.toNat < vs.length then some (BitVec.ofNat 16 (vs[k.toNat] % 65536)) else none) := by
  have hl : (Spec.encodeArrTable hostEnc 2 vs).length = 2 * vs.length := Spec.encodeTable_length _ _ _
  have hmk : ∀ b : SecBuf, b.size = BitVec.ofNat 64 (2 * vs.length) → (Versym.mk b).toNat = vs.length := by
    intro b hs
    simp only [Versym.mk, vs_ctor_guard, if_true, vs_count, hs, BitVec.toNat_setWidth, BitVec.toNat_udiv,
      BitVec.toNat_ofNat, Nat.reducePow, Nat.reduceMod]
    omega
  cases lazy
  · obtain ⟨hI, hc⟩ := loaded_inv cls ty (Spec.encodeArrTable hostEnc 2 vs) ss hty (by rw [hl]; omega)
    exact versym_get _ hI _ vs hc (hmk _ (by simp [SecBuf.loadedEager, hl])) k
  · obtain ⟨hI, hc⟩ := lazy_inv cls ty (Spec.encodeArrTable hostEnc 2 vs) ss hty hty0 (by rw [hl]; omega)
    exact versym_get _ hI _ vs hc (hmk _ (by simp [SecBuf.loadedLazy, hl])) k

/-- The full statement the property asks for — *false on the tree* (F4):
    the table is stored in the file's declared byte order. -/
def VersymBytesDeclaredOrder : Prop :=
  ∀ (cls : Cls) (e : Enc) (ty : BitVec 32) (vs : List (BitVec 16)) b' n',
    Versym.addAll (SecBuf.fresh cls ty) 0 vs = .ok (b', n') →
    b'.content = Spec.encodeArrTable e 2 (vs.map (·.toNat))

/-- **versym_bytes_partial** : the stored bytes are in the declared byte order *when the declared
    order is the host's* (no conversion needed) — exactly the complement of F4's trigger -/
theorem versym_bytes_partial (cls : Cls) (e : Enc) (he : needConv e = false) (ty : BitVec 32)
    (hty : ty ≠ BitVec.ofNat 32 SHT_NOBITS) (vs : List (BitVec 16)) (hb : Bound cls (2 * vs.length)) :
    ∃ b' n', Versym.addAll (SecBuf.fresh cls ty) 0 vs = .ok (b', n') ∧
      b'.content = Spec.encodeArrTable e 2 (vs.map (·.toNat)) := by
  obtain ⟨hI, hc⟩ := fresh_inv cls ty hty
  obtain ⟨b', e1, _, _, v1⟩ := versym_adds (SecBuf.fresh cls ty) hI 0 vs (by
    rw [hc]; simpa [SecBuf.fresh] using hb)
  rw [(needConv_false_iff e).1 he]
  exact ⟨b', _, e1, by rw [v1, hc, List.nil_append]⟩

/-- **versym_order_witness** (F4, write side): in an ELFCLASS32/ELFDATA2MSB file on this host,
    `add_entry(0x0102)` on a fresh `.gnu.version` section stores `02 01`; the declared byte order
    demands `01 02`.  Hence `VersymBytesDeclaredOrder` is false. -/
theorem versym_order_witness :
    ∃ b', Versym.addEntry (SecBuf.fresh .c32 (BitVec.ofNat 32 SHT_GNU_versym)) 0 0x0102#16 = .ok (b', 1) ∧
      b'.content = [2, 1] ∧ Spec.encodeArrTable .msb 2 [0x0102] = [1, 2] := by
  obtain ⟨hI, hc⟩ := fresh_inv .c32 (BitVec.ofNat 32 SHT_GNU_versym) (by decide)
  obtain ⟨b', e1, _, _, v1⟩ := versym_add _ hI 0 0x0102#16 (by rw [hc]; simp [Bound, SecBuf.fresh])
  refine ⟨b', e1, ?_, by decide⟩
  rw [v1, hc]; decide

theorem versym_bytes_declared_order_false : ¬ VersymBytesDeclaredOrder := by
  intro h
  obtain ⟨b', e1, c1, c2⟩ := versym_order_witness
  have := h .c32 .msb (BitVec.ofNat 32 SHT_GNU_versym) [0x0102#16] b' 1 (by
    simp only [Versym.addAll, e1, bind, Except.bind, pure, Except.pure])
  rw [c1] at this
  revert this; decide

/-- **versym_read_witness** (F4, read side): the well-formed big-endian table `00 05` (one entry,
    value 5 — e.g. entry 12 of `.gnu.version` of tests/elf_examples/test_ppc) is reported as 0x0500. -/
theorem versym_read_witness :
    let b := SecBuf.loadedEager .c32 (BitVec.ofNat 32 SHT_GNU_versym) [0, 5] 4096
    Spec.tableEntry .msb 2 [0, 5] 0 = some 5 ∧
    Versym.getEntry b (Versym.mk b) 0 = .ok (some 0x0500#16) := by
  refine ⟨by decide, ?_⟩
  obtain ⟨hI, hc⟩ := loaded_inv .c32 (BitVec.ofNat 32 SHT_GNU_versym) [0, 5] 4096 (by decide) (by decide)
  have := versym_get _ hI (Versym.mk (SecBuf.loadedEager .c32 (BitVec.ofNat 32 SHT_GNU_versym) [0, 5] 4096))
    [0x0500] (by rw [hc]; decide) (by decide) 0
  rw [this]; rfl

example : needConv .lsb = false := rfl
example : Bound .c64 (2 * [1#16, 2#16].length) := by simp [Bound]

/-! ## module information -/

theorem encodeModinfo_append (xs ys : List Modinfo.Attr) :
    Spec.encodeModinfo (xs ++ ys) = Spec.encodeModinfo xs ++ Spec.encodeModinfo ys := by
  induction xs with
  | nil => simp [Spec.encodeModinfo]
  | cons x xs ih => simp [Spec.encodeModinfo, ih]

/-- **add_attribute** : appends the record `field=value\0` to the section, remembers the pair and
    returns the (32-bit) position of the record -/
theorem modinfo_add (b : SecBuf) (hI : b.Inv) (c : List Modinfo.Attr) (f v : Bytes)
    (hb : Bound b.cls (b.content.length + (Spec.encodeAttr (f, v)).length)) :
    ∃ b', Modinfo.addAttribute b c f v = .ok (BitVec.setWidth 32 b.size, b', c ++ [(f, v)]) ∧ b'.Inv ∧
      b'.cls = b.cls ∧ b'.content = b.content ++ Spec.encodeAttr (f, v) := by
  obtain ⟨b', h1, r, cl, w⟩ := append_refines b hI (Spec.encodeAttr (f, v)) hb
  refine ⟨b', ?_, Or.inl r, cl, w⟩
  have : f ++ 61 :: (v ++ [0]) = Spec.encodeAttr (f, v) := rfl
  simp only [Modinfo.addAttribute, mod_add_guard, if_true, this, h1, bind, Except.bind, pure, Except.pure,
    mod_add_pos]

theorem modinfo_adds (b : SecBuf) (hI : b.Inv) (c as : List Modinfo.Attr)
    (hb : Bound b.cls (b.content.length + (Spec.encodeModinfo as).length)) :
    ∃ b', Modinfo.addAll b c as = .ok (b', c ++ as) ∧ b'.Inv ∧ b'.cls = b.cls ∧
      b'.content = b.content ++ Spec.encodeModinfo as := by
  induction as generalizing b c with
  | nil => exact ⟨b, by simp [Modinfo.addAll, pure, Except.pure], hI, rfl, by simp [Spec.encodeModinfo]⟩
  | cons a as ih =>
    obtain ⟨f, v⟩ := a
    simp only [Spec.encodeModinfo, List.length_append] at hb
    obtain ⟨b1, e1, i1, c1, v1⟩ := modinfo_add b hI c f v (bound_mono hb (by omega))
    obtain ⟨b2, e2, i2, c2, v2⟩ := ih b1 i1 (c ++ [(f, v)]) (by
      rw [c1, v1]; simp only [List.length_append]; exact bound_mono hb (by omega))
    refine ⟨b2, ?_, i2, by rw [c2, c1], ?_⟩
    · simp only [Modinfo.addAll, e1, bind, Except.bind]
      rw [e2]; simp
    · rw [v2, v1]; simp [Spec.encodeModinfo]

/-- **modinfo_parse** : the constructor's parser, run on any reachable section (edited, loaded
    eagerly, loaded lazily) whose content is the concatenation of `field=value\0` records with
    fields free of `=`/NUL and values free of NUL, yields exactly those attributes in order —
    without reading outside the section -/
theorem modinfo_parse (b : SecBuf) (hI : b.Inv) (as : List Modinfo.Attr)
    (hc : b.content = Spec.encodeModinfo as) (hok : ∀ a ∈ as, Spec.AttrOk a) :
    Modinfo.parse b = .ok as := by
  have hl := content_length hI
  obtain ⟨_, ⟨h1, h2⟩ | ⟨a, hd, h2, h3⟩⟩ := getData_content hI
  · have : as = [] := by
      have := encodeModinfo_length_ge as
      rw [← hc, h2] at this
      exact List.eq_nil_of_length_eq_zero (by simpa using this)
    simp [ModTie.parse_eq, h1, this, pure, Except.pure]
  · have hsplit : a = [] ++ (List.replicate 0 0 ++ (Spec.encodeModinfo as ++ a.drop b.size.toNat)) := by
      rw [← hc, ← h3]; simp
    have := parseLoop_spec as [] (a.drop b.size.toNat) 0 b.size 0 [] (b.size.toNat + 2)
      (by rw [← hc, hl]; simp) rfl hok (by
        have := encodeModinfo_length_ge as
        rw [← hc, hl] at this; omega)
    rw [← hsplit] at this
    simp only [ModTie.parse_eq, hd, this, List.nil_append]

/-- the reference reader inverts the reference encoder -/
theorem spec_parse_encode (as : List (Bytes × Bytes)) (hok : ∀ a ∈ as, Spec.AttrOk a) :
    Spec.parseModinfo (Spec.encodeModinfo as) = as := by
  induction as with
  | nil => simp [Spec.parseModinfo, Spec.splitNul, Spec.encodeModinfo, Spec.splitNulAux]
  | cons a as ih =>
    obtain ⟨f, v⟩ := a
    obtain ⟨hf, hv⟩ := hok (f, v) (by simp)
    have hrec : ∀ c ∈ f ++ Spec.eqSign :: v, c ≠ 0 := by
      intro c hc
      simp only [List.mem_append, List.mem_cons] at hc
      rcases hc with h | rfl | h
      · exact (hf c h).2
      · decide
      · exact hv c h
    have hbuf : Spec.encodeModinfo ((f, v) :: as) = (f ++ Spec.eqSign :: v) ++ 0 :: Spec.encodeModinfo as := by
      simp [Spec.encodeModinfo, Spec.encodeAttr]
    have ih' := ih (fun a ha => hok a (by simp [ha]))
    simp only [Spec.parseModinfo, Spec.splitNul] at ih' ⊢
    rw [hbuf, splitNulAux_record _ _ [] hrec (Or.inr (by simp))]
    simp only [List.reverse_nil, List.nil_append, List.map_cons, ih']
    congr 1
    simp only [Spec.splitFirstEq, takeWhile_stop Spec.eqSign f v (fun c hc => (hf c hc).1),
      dropWhile_stop Spec.eqSign f v (fun c hc => (hf c hc).1), List.drop_one, List.tail_cons]

/-- hence the accessor's parser agrees with the reference reader on every well-formed section -/
theorem modinfo_parse_eq_spec (b : SecBuf) (hI : b.Inv) (as : List Modinfo.Attr)
    (hc : b.content = Spec.encodeModinfo as) (hok : ∀ a ∈ as, Spec.AttrOk a) :
    Modinfo.parse b = .ok (Spec.parseModinfo b.content) := by
  rw [hc, spec_parse_encode as hok]; exact modinfo_parse b hI as hc hok

theorem getByName_eq_lookupFirst (as : List Modinfo.Attr) (f : Bytes) :
    Modinfo.getByName as f = Spec.lookupFirst as f := by
  induction as with
  | nil => rfl
  | cons a as ih =>
    simp only [Modinfo.getByName, Spec.lookupFirst, ih]
    by_cases h : f = a.1
    · simp [h]
    · have : ¬ a.1 = f := fun e => h e.symm
      simp [h, this]

theorem getByIndex_eq (as : List Modinfo.Attr) (hl : as.length < 18446744073709551616) (no : BitVec 32) :
    Modinfo.getByIndex as no = as[no.toNat]? := by
  have hn := no.isLt
  simp only [Nat.reducePow] at hn
  unfold Modinfo.getByIndex
  by_cases h : no.toNat < as.length
  · have : mod_get_guard no (BitVec.ofNat 64 as.length) = true := by
      simp only [mod_get_guard, BitVec.ult, BitVec.toNat_setWidth, BitVec.toNat_ofNat, Nat.reducePow,
        decide_eq_true_eq]
      omega
    simp [this]
  · have : mod_get_guard no (BitVec.ofNat 64 as.length) = false := by
      simp only [mod_get_guard, BitVec.ult, BitVec.toNat_setWidth, BitVec.toNat_ofNat, Nat.reducePow,
        decide_eq_false_iff_not]
      omega
    simp only [this, Bool.false_eq_true, if_false]
    exact (List.getElem?_eq_none (by omega)).symm

/-- **modinfo_roundtrip** : every `field=value` attribute added to a fresh module-info section is
    returned unchanged by index — by the accessor that added it *and* by a new accessor that parses
    the section bytes again — in all 4 configurations (the byte order plays no role) -/
theorem modinfo_roundtrip (cls : Cls) (ty : BitVec 32) (hty : ty ≠ BitVec.ofNat 32 SHT_NOBITS)
    (as : List Modinfo.Attr) (hok : ∀ a ∈ as, Spec.AttrOk a)
    (hb : Bound cls (Spec.encodeModinfo as).length) :
    ∃ b', Modinfo.addAll (SecBuf.fresh cls ty) [] as = .ok (b', as) ∧
      b'.content = Spec.encodeModinfo as ∧
      Modinfo.parse b' = .ok as ∧
      ∀ (k : BitVec 32), Modinfo.getByIndex as k = as[k.toNat]? := by
  obtain ⟨hI, hc⟩ := fresh_inv cls ty hty
  obtain ⟨b', e1, i1, _, v1⟩ := modinfo_adds (SecBuf.fresh cls ty) hI [] as (by
    rw [hc]; simpa [SecBuf.fresh] using hb)
  rw [hc, List.nil_append] at v1
  have hlen : as.length < 18446744073709551616 := by
    have h1 := encodeModinfo_length_ge as
    have h2 := bound_lt hb
    omega
  exact ⟨b', by simpa using e1, v1, modinfo_parse b' i1 as v1 hok, getByIndex_eq as hlen⟩

/-- **modinfo_by_name** : lookup by field name returns the value of the first attribute with that
    name (reference semantics `Spec.lookupFirst`), for the adding accessor and for a re-parsing one -/
theorem modinfo_by_name (b : SecBuf) (hI : b.Inv) (as : List Modinfo.Attr)
    (hc : b.content = Spec.encodeModinfo as) (hok : ∀ a ∈ as, Spec.AttrOk a) (f : Bytes) :
    ∃ c, Modinfo.parse b = .ok c ∧ Modinfo.getByName c f = Spec.lookupFirst as f := by
  exact ⟨as, modinfo_parse b hI as hc hok, getByName_eq_lookupFirst as f⟩

/-- … after save and reload -/
theorem modinfo_parse_reloaded (cls : Cls) (ty : BitVec 32) (lazy : Bool) (ss : BitVec 64)
    (hty : ty ≠ BitVec.ofNat 32 SHT_NOBITS) (hty0 : ty ≠ BitVec.ofNat 32 SHT_NULL)
    (as : List Modinfo.Attr) (hok : ∀ a ∈ as, Spec.AttrOk a)
    (hlen : (Spec.encodeModinfo as).length < 18446744073709551616) :
    Modinfo.parse (if lazy then SecBuf.loadedLazy cls ty (Spec.encodeModinfo as) ss
                   else SecBuf.loadedEager cls ty (Spec.encodeModinfo as) ss) = .ok as := by
  cases lazy
  · obtain ⟨hI, hc⟩ := loaded_inv cls ty (Spec.encodeModinfo as) ss hty hlen
    exact modinfo_parse _ hI as hc hok
  · obtain ⟨hI, hc⟩ := lazy_inv cls ty (Spec.encodeModinfo as) ss hty hty0 hlen
    exact modinfo_parse _ hI as hc hok

/-- the parser's quirk for a record without `=` (outside the property: `npos + 1` wraps to 0) -/
theorem modinfo_no_eq_quirk : Modinfo.splitRecord [97, 98] = ([97, 98], [97, 98]) := by decide

example : Spec.AttrOk ([108, 105], [71, 61, 80]) := by
  constructor <;> intro c hc <;> simp at hc <;> rcases hc with rfl | rfl | rfl <;> decide

/-! ## version requirements and definitions (`.gnu.version_r`, `.gnu.version_d`) -/

/-- **verneed_get_eq_spec** : on every image on which the GNU-ABI reference reader succeeds for
    entry `no` (follow `vn_next` `no` times from the section start, decode the record and its first
    auxiliary record, resolve both names in the linked string table — Spec/Tables.lean), in either
    byte order, `get_entry(no, …)` stays inside the section and reports exactly those values.
    (`num` = DT_VERNEEDNUM as cached by the constructor.) -/
theorem verneed_get_eq_spec (e : Enc) (b s : SecBuf) (hI : b.Inv) (hS : s.Inv) (num no : BitVec 32)
    (hno : no.toNat < num.toNat) (v : Spec.NeedView)
    (hv : Spec.needView e b.content s.content no.toNat = some v) :
    Verneed.getEntry e b (some s) num no =
      .ok (some { version := BitVec.ofNat 16 v.version, file := v.file, hash := BitVec.ofNat 32 v.hash,
                  flags := BitVec.ofNat 16 v.flags, other := BitVec.ofNat 16 v.other, name := v.name }) := by
  simp only [Spec.needView, bind, Option.bind_eq_some_iff, pure, Option.some.injEq] at hv
  obtain ⟨off, hoff, r, hr, a, ha, file, hfile, name, hname, rfl⟩ := hv
  obtain ⟨r0, hr0⟩ := verneedOff_start hoff hr
  have hg : vr_guard true no num = false := by
    simp only [vr_guard, Bool.not_true, Bool.false_or, BitVec.ule, decide_eq_false_iff_not]; omega
  obtain ⟨_, _, haux0, _⟩ := decodeVerneed_fields hr0
  obtain ⟨hver, hfidx, _, _⟩ := decodeVerneed_fields hr
  obtain ⟨hhash, hflags, hother, hnidx⟩ := decodeVernaux_fields ha
  obtain ⟨ax, hax, haxv⟩ := rd32_spec hI e "verneed/vn_aux" (0 + 8) r0.aux haux0
  have hloop := verneed_loop_spec hI e no off r hr no.toNat 0 0 r0 (no.toNat + 1) hr0 hoff (by simp) (by omega)
  obtain ⟨x1, hx1, hx1v⟩ := rd16_spec hI e "verneed/vn_version" off r.version hver
  obtain ⟨x2, hx2, hx2v⟩ := rd32_spec hI e "verneed/vn_file" (off + 4) r.file hfidx
  obtain ⟨x3, hx3, hx3v⟩ := rd32_spec hI e "verneed/vna_hash" (off + r.aux) a.hash hhash
  obtain ⟨x4, hx4, hx4v⟩ := rd16_spec hI e "verneed/vna_flags" (off + r.aux + 4) a.flags hflags
  obtain ⟨x5, hx5, hx5v⟩ := rd16_spec hI e "verneed/vna_other" (off + r.aux + 6) a.other hother
  obtain ⟨x6, hx6, hx6v⟩ := rd32_spec hI e "verneed/vna_name" (off + r.aux + 8) a.name hnidx
  have hs1 : strAssign "verneed/file_name" (some s) (vr_file_idx (cv32 e) x2) = .ok file := by
    simp only [strAssign, strLookup_eq hS, vr_file_idx, hx2v, hfile, pure, Except.pure]
  have hs2 : strAssign "verneed/dep_name" (some s) (vr_name_idx (cv32 e) x6) = .ok name := by
    simp only [strAssign, strLookup_eq hS, vr_name_idx, hx6v, hname, pure, Except.pure]
  have o1 : Elfxx_Verneed.vn_aux_off = 8 := rfl
  have o2 : Elfxx_Verneed.vn_version_off = 0 := rfl
  have o3 : Elfxx_Verneed.vn_file_off = 4 := rfl
  have o4 : Elfxx_Vernaux.vna_hash_off = 0 := rfl
  have o5 : Elfxx_Vernaux.vna_flags_off = 4 := rfl
  have o6 : Elfxx_Vernaux.vna_other_off = 6 := rfl
  have o7 : Elfxx_Vernaux.vna_name_off = 8 := rfl
  simp only [Nat.zero_add] at hax hloop
  simp only [Verneed.getEntry, VerTie.vr_i_init_eq, hg, Bool.false_eq_true, if_false, o1, o2, o3, o4, o5, o6, o7, hax, vr_aux_off0,
    cv32_off, haxv, hloop, Nat.add_zero, hx1, hx2, hs1, hx3, hx4, hx5, hx6, hs2, bind, Except.bind, pure,
    Except.pure, vr_version, vr_hash, vr_flags, vr_other]
  rw [eq_ofNat_of_toNat _ _ hx1v, eq_ofNat_of_toNat _ _ hx3v, eq_ofNat_of_toNat _ _ hx4v,
    eq_ofNat_of_toNat _ _ hx5v]



theorem verneed_get_absent (e : Enc) (b : SecBuf) (str : Option SecBuf) (num no : BitVec 32)
    (h : num.toNat ≤ no.toNat) : Verneed.getEntry e b str num no = .ok none := by
  have hg : vr_guard true no num = true := by
    simp only [vr_guard, Bool.not_true, Bool.false_or, BitVec.ule, decide_eq_true_eq]; exact h
  simp [Verneed.getEntry, hg, pure, Except.pure]

/-- **verdef_get_eq_spec** : the same for version definitions (`vd_next` chain, first `Verdaux`). -/
theorem verdef_get_eq_spec (e : Enc) (b s : SecBuf) (hI : b.Inv) (hS : s.Inv) (num no : BitVec 32)
    (hno : no.toNat < num.toNat) (v : Spec.DefView)
    (hv : Spec.defView e b.content s.content no.toNat = some v) :
    Verdef.getEntry e b (some s) num no =
      .ok (some { flags := BitVec.ofNat 16 v.flags, ndx := BitVec.ofNat 16 v.ndx,
                  hash := BitVec.ofNat 32 v.hash, name := v.name }) := by
  simp only [Spec.defView, bind, Option.bind_eq_some_iff, pure, Option.some.injEq] at hv
  obtain ⟨off, hoff, r, hr, a, ha, name, hname, rfl⟩ := hv
  obtain ⟨r0, hr0⟩ := verdefOff_start hoff hr
  have hg : vd_guard true no num = false := by
    simp only [vd_guard, Bool.not_true, Bool.false_or, BitVec.ule, decide_eq_false_iff_not]; omega
  obtain ⟨_, _, _, haux0, _⟩ := decodeVerdef_fields hr0
  obtain ⟨hflags, hndx, hhash, _, _⟩ := decodeVerdef_fields hr
  have hnidx := decodeVerdaux_fields ha
  obtain ⟨ax, hax, haxv⟩ := rd32_spec hI e "verdef/vd_aux" (0 + 12) r0.aux haux0
  have hloop := verdef_loop_spec hI e no off r hr no.toNat 0 0 r0 (no.toNat + 1) hr0 hoff (by simp) (by omega)
  obtain ⟨x1, hx1, hx1v⟩ := rd16_spec hI e "verdef/vd_flags" (off + 2) r.flags hflags
  obtain ⟨x2, hx2, hx2v⟩ := rd16_spec hI e "verdef/vd_ndx" (off + 4) r.ndx hndx
  obtain ⟨x3, hx3, hx3v⟩ := rd32_spec hI e "verdef/vd_hash" (off + 8) r.hash hhash
  obtain ⟨x4, hx4, hx4v⟩ := rd32_spec hI e "verdef/vda_name" (off + r.aux) a.name hnidx
  have hs1 : strAssign "verdef/dep_name" (some s) (vd_name_idx (cv32 e) x4) = .ok name := by
    simp only [strAssign, strLookup_eq hS, vd_name_idx, hx4v, hname, pure, Except.pure]
  have o1 : Elfxx_Verdef.vd_aux_off = 12 := rfl
  have o2 : Elfxx_Verdef.vd_flags_off = 2 := rfl
  have o3 : Elfxx_Verdef.vd_ndx_off = 4 := rfl
  have o4 : Elfxx_Verdef.vd_hash_off = 8 := rfl
  have o5 : Elfxx_Verdaux.vda_name_off = 0 := rfl
  simp only [Nat.zero_add] at hax hloop
  simp only [Verdef.getEntry, VerTie.vd_i_init_eq, hg, Bool.false_eq_true, if_false, o1, o2, o3, o4, o5, hax, vd_aux_off0,
    cv32_off, haxv, hloop, Nat.add_zero, hx1, hx2, hx3, hx4, hs1, bind, Except.bind, pure,
    Except.pure, vd_flags, vd_ndx, vd_hash]
  rw [eq_ofNat_of_toNat _ _ hx1v, eq_ofNat_of_toNat _ _ hx2v, eq_ofNat_of_toNat _ _ hx3v]


theorem verdef_get_absent (e : Enc) (b : SecBuf) (str : Option SecBuf) (num no : BitVec 32)
    (h : num.toNat ≤ no.toNat) : Verdef.getEntry e b str num no = .ok none := by
  have hg : vd_guard true no num = true := by
    simp only [vd_guard, Bool.not_true, Bool.false_or, BitVec.ule, decide_eq_true_eq]; exact h
  simp [Verdef.getEntry, hg, pure, Except.pure]

/-! non-vacuity: a big-endian two-entry requirement chain (3 auxiliary records) and a two-entry
    definition chain built by the independent Python encoder decode under the reference reader -/
def exNeed : Bytes := [0, 1, 0, 2, 0, 0, 0, 1, 0, 0, 0, 16, 0, 0, 0, 48, 13, 105, 105, 16, 0, 0, 0, 2, 0, 0, 0, 11, 0, 0, 0, 16, 9, 105, 31, 115, 0, 0, 0, 3, 0, 0, 0, 21, 0, 0, 0, 0, 0, 1, 0, 1, 0, 0, 0, 33, 0, 0, 0, 16, 0, 0, 0, 0, 13, 105, 105, 17, 0, 2, 0, 4, 0, 0, 0, 43, 0, 0, 0, 0]
def exNeedStr : Bytes := [0, 108, 105, 98, 99, 46, 115, 111, 46, 54, 0, 71, 76, 73, 66, 67, 95, 50, 46, 48, 0, 71, 76, 73, 66, 67, 95, 50, 46, 49, 46, 51, 0, 108, 105, 98, 109, 46, 115, 111, 46, 54, 0, 71, 76, 73, 66, 67, 95, 50, 46, 49, 0]
example : Spec.needView .msb exNeed exNeedStr 1 =
    some { version := 1, file := [108, 105, 98, 109, 46, 115, 111, 46, 54], hash := 0x0d696911, flags := 2,
           other := 4, name := [71, 76, 73, 66, 67, 95, 50, 46, 49] } := by decide
def exDef : Bytes := [0, 1, 0, 1, 0, 1, 0, 1, 14, 9, 168, 207, 0, 0, 0, 20, 0, 0, 0, 28, 0, 0, 0, 1, 0, 0, 0, 0, 0, 1, 0, 0, 0, 2, 0, 2, 1, 21, 112, 176, 0, 0, 0, 20, 0, 0, 0, 0, 0, 0, 0, 9, 0, 0, 0, 8, 0, 0, 0, 1, 0, 0, 0, 0]
def exDefStr : Bytes := [0, 108, 105, 98, 120, 46, 115, 111, 0, 72, 69, 76, 76, 79, 95, 49, 46, 48, 0]
example : Spec.defView .msb exDef exDefStr 1 =
    some { flags := 0, ndx := 2, hash := 0x011570b0, name := [72, 69, 76, 76, 79, 95, 49, 46, 48] } := by decide

/-! non-vacuity -/
example : Bound .c32 (Arr.W.w8.bytes * [1#64, 2#64, 0xffffffffffffffff#64].length) := by
  simp [Bound, Arr.W.bytes]
example : (SecBuf.fresh .c32 14).Inv := (fresh_inv .c32 14 (by decide)).1

end C14
end ElfioVerif
