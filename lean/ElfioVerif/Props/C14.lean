import ElfioVerif.Model.Array
import ElfioVerif.Model.Modinfo
import ElfioVerif.Model.Versym
import ElfioVerif.Spec.Tables
