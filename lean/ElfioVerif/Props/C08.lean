/-
C08 — string tables: every added string stays retrievable at its returned index; any lookup
returns null or a NUL-terminated string lying wholly inside the section.

Statements use: the model (`StrSec.getString/addString`, Model/Strings.lean, built from the
generated expressions of Gen/SitesC08.lean over the section model `SecBuf`), the reference
semantics `Spec.strAt/addStr/addAll` (Spec/StrTab.lean), C07's invariant `SecBuf.Inv` and content
function `SecBuf.content`, and explicit size bounds (`< 2^32`: positions are `Elf_Word`).

Proved in full (no `_partial` statements in this family):
  `get_total`, `get_total_wf`, `get_refines`, `get_sound`, `get_unterminated_none`,
  `get_beyond_none`, `add_refines`, `add_get`, `get_stable`, `add_all_refines`, `add_all_get`,
  `index0_empty`, `add_null_noop`.
"After save and reload": by `get_refines` the answer is a function of the content bytes alone;
that the content survives save+load is C03/C05 and is observed by this family's correspondence run.
Not covered by theorems: tables of 4 GiB and more (`add_string` then truncates the position or
returns 0 — outside the stated bound); callers that break `size ≤ allocation` through the public
`set_size` (outside `Inv`/`Fits`).
-/
import ElfioVerif.Props.C07
import ElfioVerif.Lemmas.StrTab
import ElfioVerif.Model.Strings
namespace ElfioVerif
open Gen

namespace C08
open SecBuf StrSec

/-! ### the generated expressions as arithmetic -/

theorem searchByte_eq : searchByte = 0 := by decide

theorem w64_of_32 (i : BitVec 32) : (BitVec.setWidth 64 i).toNat = i.toNat := by
  have := i.isLt
  simp only [BitVec.toNat_setWidth, Nat.reducePow] at *
  omega

theorem g_idx_ge (i : BitVec 32) (sz : BitVec 64) :
    str_get_idx_ge_size i sz = decide (sz.toNat ≤ i.toNat) := by
  simp only [str_get_idx_ge_size, BitVec.ule, w64_of_32]

theorem g_remaining (sz : BitVec 64) (i : BitVec 32) (h : i.toNat < sz.toNat) :
    (str_get_remaining sz i).toNat = sz.toNat - i.toNat := by
  have h1 := sz.isLt
  simp only [str_get_remaining, BitVec.toNat_sub, w64_of_32, Nat.reducePow] at *
  omega

theorem g_underflow (r sz : BitVec 64) : str_get_underflow r sz = decide (sz.toNat < r.toNat) := by
  simp only [str_get_underflow, BitVec.ult]

/-- the bounded `memchr` for NUL stays inside a window that lies inside the allocation -/
theorem memchr_in (site : String) (a : Bytes) (off n : Nat) (h : off + n ≤ a.length) :
    memchr site (some a) off 0 n =
      .ok (if (Spec.cstr (slice a off n)).length < (slice a off n).length
           then some (Spec.cstr (slice a off n)).length else none) := by
  by_cases hc : ((slice a off n).takeWhile (· != 0)).length < (slice a off n).length
  · simp only [memchr, Spec.cstr, hc, if_true]; rfl
  · simp only [memchr, Spec.cstr, hc, if_false, h, if_true]; rfl

/-- allocation covers the section size -/
def Fits (b : SecBuf) : Prop := ∀ a, b.data = some a → b.size.toNat ≤ a.length

/-- `get_string` proper (after `get_data()`): never faults on a buffer whose allocation covers
    `size`, and answers with the reference lookup on the visible bytes -/
theorem getStringCore_eq (g : SecBuf) (idx : BitVec 32) (hf : Fits g) :
    getStringCore g idx = .ok (g, Spec.strAt g.view idx.toNat) := by
  unfold getStringCore
  simp only [str_get_section_size, str_get_memchr_n, g_idx_ge, g_underflow, searchByte_eq]
  cases hd : g.data with
  | none =>
    have hv : g.view = [] := by simp [SecBuf.view, hd]
    simp [hv, Spec.strAt, Spec.cstr_nil, pure, Except.pure]
  | some a =>
    have hs := hf a hd
    have hv : g.view = a.take g.size.toNat := by simp [SecBuf.view, hd]
    have hvl : g.view.length = g.size.toNat := by rw [hv]; simp; omega
    by_cases hi : g.size.toNat ≤ idx.toNat
    · simp only [hi, decide_true, Bool.true_or, if_true]
      rw [Spec.strAt_beyond _ _ (by omega)]; rfl
    · have hi' : idx.toNat < g.size.toNat := by omega
      have hr := g_remaining g.size idx hi'
      simp only [hi, decide_false, Option.isNone_some, Bool.or_self, Bool.false_eq_true, if_false, hr]
      have hnu : ¬ (g.size.toNat < g.size.toNat - idx.toNat) := by omega
      simp only [hnu, decide_false, Bool.false_eq_true, if_false]
      rw [memchr_in _ a _ _ (by omega)]
      have hsl : slice a idx.toNat (g.size.toNat - idx.toNat) = g.view.drop idx.toNat := by
        rw [hv, List.drop_take]; rfl
      have hdl : (g.view.drop idx.toNat).length = g.size.toNat - idx.toNat := by simp [hvl]
      simp only [hsl, pure, Except.pure, Spec.strAt]
      split
      · rename_i hlt
        simp only [getFinish, hdl] at hlt ⊢
        rw [if_pos hlt, hd]
        congr 3
        simp only [Option.getD_some]
        have e := Spec.cstr_eq_take (g.view.drop idx.toNat)
        generalize (Spec.cstr (g.view.drop idx.toNat)).length = k at hlt e ⊢
        rw [e, hv, List.drop_take, List.take_take, Nat.min_eq_left (by omega)]
        rfl
      · rfl

/-! ### `get_data()` keeps the invariant and the content -/

theorem resident_fits {b : SecBuf} (h : b.Resident) : Fits b := by
  intro a ha
  rcases h.buf with ⟨e, _, _⟩ | ⟨a', e, h1, h2⟩
  · rw [ha] at e; cases e
  · rw [ha] at e; cases e; omega

/-- `get_data()` on a resident buffer: at most an empty allocation appears and flags change -/
theorem getData_resident {b : SecBuf} (h : b.Resident) :
    b.getData.Resident ∧ b.getData.view = b.view ∧ b.getData.cls = b.cls ∧ b.getData.size = b.size := by
  unfold SecBuf.getData
  by_cases hc : (!b.isLoaded && b.canLoad) = true
  · simp only [hc, if_true]
    unfold SecBuf.loadData
    cases hf : b.fileData with
    | none =>
      exact ⟨⟨h.notNobits, h.pend, h.buf, h.cap⟩, rfl, rfl, rfl⟩
    | some d =>
      cases hd : b.data with
      | some a =>
        simp only [Option.isNone_some, Bool.false_and, Bool.false_eq_true, if_false, Option.isSome_some,
          Bool.true_or, if_true]
        refine ⟨⟨h.notNobits, ?_, ?_, h.cap⟩, ?_, ?_, ?_⟩
        · intro e; simp at e
        · simpa [hd] using h.buf
        · simp [SecBuf.view, hd]
        all_goals first | rfl | trivial
      | none =>
        have hs : b.size = 0 ∧ b.dataSize = 0 := by
          rcases h.buf with ⟨_, e1, e2⟩ | ⟨a, e, _, _⟩
          · exact ⟨e1, e2⟩
          · rw [hd] at e; cases e
        by_cases hn : b.isNullOrNobits = true
        · simp only [hn, Option.isNone_none, Bool.not_true, Bool.and_false, Bool.false_eq_true, if_false,
            Option.isSome_none, Bool.or_true, if_true]
          refine ⟨⟨h.notNobits, ?_, ?_, h.cap⟩, ?_, ?_, ?_⟩
          · intro _; simp
          · exact Or.inl ⟨rfl, hs.1, hs.2⟩
          · simp [SecBuf.view, hd]
          all_goals first | rfl | trivial
        · simp only [hn, Option.isNone_none, Bool.not_false, Bool.and_self, if_true, hs.1]
          refine ⟨⟨h.notNobits, ?_, ?_, ?_⟩, ?_, ?_, ?_⟩
          · intro e; simp at e
          · exact Or.inr ⟨alloc 1, rfl, by simp, by simp⟩
          · simp
          · simp [SecBuf.view, hd]
          all_goals first | rfl | trivial
  · simp only [hc]
    exact ⟨h, rfl, rfl, rfl⟩

/-- `get_data()` on any reachable section: invariant, class, size and content are kept, and the
    result is resident -/
theorem getData_inv {b : SecBuf} (hI : b.Inv) :
    b.getData.Resident ∧ b.getData.content = b.content ∧ b.getData.cls = b.cls ∧
      b.getData.size = b.size := by
  rcases hI with h | ⟨d, h⟩
  · obtain ⟨r, v, c, s⟩ := getData_resident h
    exact ⟨r, by rw [C07.content_resident r, C07.content_resident h, v], c, s⟩
  · obtain ⟨r, v, c, s, _⟩ := C07.getData_pending h
    exact ⟨r, by rw [C07.content_resident r, C07.content_pending h, v], c, s⟩

/-! ### lookups -/

/-- **get_refines** : on every reachable section (created, loaded eagerly or lazily, edited) and for
    every 32-bit index, `get_string` completes and returns exactly the reference lookup on the
    section's content — a function of the content bytes only.  The section keeps its invariant,
    class and content. -/
theorem get_refines (b : SecBuf) (hI : b.Inv) (idx : BitVec 32) :
    ∃ b', getString b idx = .ok (b', Spec.strAt b.content idx.toNat) ∧
      b'.Inv ∧ b'.content = b.content ∧ b'.cls = b.cls := by
  obtain ⟨r, c, k, _⟩ := getData_inv hI
  refine ⟨b.getData, ?_, Or.inl r, c, k⟩
  unfold getString
  rw [getStringCore_eq _ _ (resident_fits r), ← c, C07.content_resident r]

/-- **get_total** (memory safety): `get_string` never leaves the section's buffer, for any index
    on any section satisfying C07's invariant. -/
theorem get_total (b : SecBuf) (hI : b.Inv) (idx : BitVec 32) :
    ∃ b' r, getString b idx = .ok (b', r) ∧ b'.Inv ∧ b'.content = b.content := by
  obtain ⟨b', e, i, c, _⟩ := get_refines b hI idx
  exact ⟨b', _, e, i, c⟩

/-- what `load()` guarantees even when the data could not be read: an allocation, if any, covers
    `size`, and `load_data` would deliver `size` bytes -/
structure WF (b : SecBuf) : Prop where
  fits : Fits b
  file : ∀ d, b.fileData = some d → d.length = b.size.toNat

theorem getData_fits {b : SecBuf} (h : WF b) : Fits b.getData := by
  unfold SecBuf.getData
  by_cases hc : (!b.isLoaded && b.canLoad) = true
  · simp only [hc, if_true]
    unfold SecBuf.loadData
    cases hf : b.fileData with
    | none => exact h.fits
    | some d =>
      have hl := h.file d hf
      by_cases hn : (b.data.isNone && !b.isNullOrNobits) = true
      · simp only [hn, if_true]
        by_cases hs : b.size = 0
        · simp only [hs, if_true]; intro a ha; cases ha; simp
        · simp only [hs, if_false]; intro a ha; cases ha; simp; omega
      · simp only [hn, Bool.false_eq_true, if_false]
        split <;> exact h.fits
  · simp only [hc]; exact h.fits

/-- **get_total_wf** : memory safety under the weaker well-formedness (no assumption on the
    lazy/loaded flags; covers sections whose data failed to load: null data, null result).
    The answer is the reference lookup on what `get_data()` exposes. -/
theorem get_total_wf (b : SecBuf) (h : WF b) (idx : BitVec 32) :
    getString b idx = .ok (b.getData, Spec.strAt b.getData.view idx.toNat) := by
  unfold getString
  exact getStringCore_eq _ _ (getData_fits h)

/-- **get_sound** : a returned string lies wholly inside the section *including its terminator*,
    is exactly the bytes stored there, and contains no NUL — for every index and every reachable
    section. -/
theorem get_sound (b : SecBuf) (hI : b.Inv) (idx : BitVec 32) (b' : SecBuf) (s : Bytes)
    (h : getString b idx = .ok (b', some s)) :
    idx.toNat + s.length + 1 ≤ b.size.toNat ∧ slice b.content idx.toNat s.length = s ∧
      b.content[idx.toNat + s.length]? = some 0 ∧ (0 : UInt8) ∉ s := by
  obtain ⟨b2, e, _, _, _⟩ := get_refines b hI idx
  rw [e] at h
  have hs : Spec.strAt b.content idx.toNat = some s := by
    injection h with h; exact (Prod.mk.inj h).2
  have := Spec.strAt_sound _ _ _ hs
  rw [C07.content_length hI] at this
  exact this

/-- an unterminated last string is not returned -/
theorem get_unterminated_none (b : SecBuf) (hI : b.Inv) (idx : BitVec 32)
    (h : (0 : UInt8) ∉ b.content.drop idx.toNat) :
    ∃ b', getString b idx = .ok (b', none) := by
  obtain ⟨b', e, _⟩ := get_refines b hI idx
  rw [Spec.strAt_unterminated _ _ h] at e
  exact ⟨b', e⟩

/-- an index at or beyond the size is not returned (in particular `size`, `size+1`, `2^32-1`) -/
theorem get_beyond_none (b : SecBuf) (hI : b.Inv) (idx : BitVec 32) (h : b.size.toNat ≤ idx.toNat) :
    ∃ b', getString b idx = .ok (b', none) := by
  obtain ⟨b', e, _⟩ := get_refines b hI idx
  rw [Spec.strAt_beyond _ _ (by rw [C07.content_length hI]; exact h)] at e
  exact ⟨b', e⟩

/-! ### additions -/

theorem bound_of_lt32 (c : Cls) (k : Nat) (h : k < 4294967296) : Bound c k := by
  cases c <;> simp only [Bound] <;> omega

theorem k_max_m1 : BitVec.setWidth 64 (4294967295#32 - 1#32) = 4294967294#64 := by decide

theorem k_one : BitVec.signExtend 64 1#32 = 1#64 := by
  apply BitVec.eq_of_toNat_eq
  simp only [BitVec.signExtend, BitVec.toInt, BitVec.toNat_ofNat, Nat.reducePow, Nat.reduceMod]
  simp

theorem g_too_long_false (n : Nat) (h : n < 4294967295) :
    str_add_too_long (BitVec.ofNat 64 n) = false := by
  simp only [str_add_too_long, k_max_m1, BitVec.ult, BitVec.toNat_ofNat, Nat.reducePow, Nat.reduceMod,
    decide_eq_false_iff_not]
  omega

theorem g_append_size (n : Nat) (h : n < 4294967295) :
    (str_add_append_size (BitVec.ofNat 64 n)).toNat = n + 1 := by
  simp only [str_add_append_size, k_one, BitVec.toNat_setWidth, BitVec.toNat_add, BitVec.toNat_ofNat,
    Nat.reducePow, Nat.reduceMod]
  omega

theorem g_ovf_false (a cur : BitVec 32) (h : cur.toNat + a.toNat < 4294967296) :
    str_add_ovf a cur = false := by
  have h1 : cur.toNat < 4294967296 := cur.isLt
  have h2 : a.toNat < 4294967296 := a.isLt
  unfold str_add_ovf
  rw [BitVec.ult, BitVec.toNat_sub]
  simp only [BitVec.toNat_ofNat, Nat.reducePow, Nat.reduceMod, decide_eq_false_iff_not]
  omega

theorem g_append_arg (a : BitVec 32) : (str_add_append_arg a).toNat = a.toNat := w64_of_32 a

/-- `add_string` from `strlen` on: appends the C string and its terminator, returns `cur` -/
theorem addTail_refines (b : SecBuf) (hI : b.Inv) (cur : BitVec 32) (cs : Bytes)
    (hc : cur.toNat ≤ b.content.length) (hb : b.content.length + cs.length + 1 < 4294967296) :
    ∃ b', addTail b cur cs = .ok (b', cur) ∧ b'.Resident ∧ b'.cls = b.cls ∧
      b'.content = b.content ++ cs ++ [0] := by
  obtain ⟨b', e, r, c, v⟩ := C07.append_refines b hI (cs ++ [0])
    (bound_of_lt32 _ _ (by simp; omega))
  refine ⟨b', ?_, r, c, by rw [v, List.append_assoc]⟩
  unfold addTail
  have h1 := g_too_long_false cs.length (by omega)
  have h2 := g_append_size cs.length (by omega)
  have h3 := g_ovf_false (str_add_append_size (BitVec.ofNat 64 cs.length)) cur (by rw [h2]; omega)
  have h4 : rdRange "add_string/str" (some (cs ++ [0])) 0
      (str_add_append_arg (str_add_append_size (BitVec.ofNat 64 cs.length))).toNat = .ok (cs ++ [0]) := by
    rw [g_append_arg, h2, rdRange_some_ok (by simp)]
    simp only [slice, List.drop_zero]
    rw [List.take_of_length_le (by simp)]
  simp only [h1, h3, h4, e, Bool.false_eq_true, if_false, str_add_ret, pure, Except.pure]

theorem cstrOf_eq (raw : Bytes) : cstrOf raw = Spec.cstr raw := rfl

theorem seed_ok : rdRange "add_string/seed" (some [UInt8.ofNat str_add_seed_byte.toNat]) 0
    str_add_seed_size.toNat = .ok [0] := by
  simp only [str_add_seed_size, k_one]
  rfl

theorem g_cur (sz : BitVec 64) (h : sz.toNat < 4294967296) : (str_add_cur sz).toNat = sz.toNat := by
  simp only [str_add_cur, BitVec.toNat_setWidth, Nat.reducePow]
  omega

theorem g_is_empty (c : BitVec 32) : str_add_is_empty c = decide (c.toNat = 0) := by
  simp only [str_add_is_empty]
  by_cases h : c = 0#32
  · simp [h]
  · have : c.toNat ≠ 0 := fun e => h (BitVec.eq_of_toNat_eq (by simpa using e))
    simp [h, this]

/-- **add_refines** : on every reachable non-NOBITS section, `add_string(str)` completes inside its
    buffers and is the reference addition on the content: an empty table first receives the
    leading NUL, the C string and its terminator are appended, the returned index is where the
    string starts.  Hypothesis: the resulting table is smaller than 4 GiB (`Elf_Word` positions). -/
theorem add_refines (b : SecBuf) (hI : b.Inv) (raw : Bytes)
    (hb : (Spec.addStr b.content raw).1.length < 4294967296) :
    ∃ b' i, addString b (some raw) = .ok (b', i) ∧ b'.Inv ∧ b'.cls = b.cls ∧
      b'.content = (Spec.addStr b.content raw).1 ∧ i.toNat = (Spec.addStr b.content raw).2 := by
  have hl := C07.content_length hI
  rw [Spec.addStr_length] at hb
  have hsz : b.size.toNat < 4294967296 := by rw [← hl]; split at hb <;> omega
  have hcur := g_cur b.size hsz
  unfold addString
  simp only [g_is_empty, hcur, cstrOf_eq]
  by_cases h0 : b.content.length = 0
  · have hs0 : b.size.toNat = 0 := by rw [← hl]; exact h0
    have hnil : b.content = [] := List.eq_nil_of_length_eq_zero h0
    simp only [hs0, decide_true, if_true, seed_ok]
    obtain ⟨b1, e1, r1, c1, v1⟩ := C07.append_refines b hI [0] (bound_of_lt32 _ _ (by simp [h0]))
    simp only [e1]
    have hci : (str_add_cur_incr (str_add_cur b.size)).toNat = 1 := by
      simp only [str_add_cur_incr, BitVec.toNat_add, hcur, hs0, BitVec.toNat_ofNat, Nat.reducePow, Nat.reduceMod]
    rw [hnil, List.nil_append] at v1
    obtain ⟨b', e2, r2, c2, v2⟩ := addTail_refines b1 (Or.inl r1) (str_add_cur_incr (str_add_cur b.size))
      (Spec.cstr raw) (by rw [hci, v1]; simp) (by rw [v1]; simp only [h0, if_true] at hb; simp; omega)
    refine ⟨b', _, e2, Or.inl r2, by rw [c2, c1], ?_, ?_⟩
    · rw [v2, v1, Spec.addStr_fst, if_pos h0]
    · rw [hci, Spec.addStr_snd, if_pos h0]; rfl
  · have hs0 : ¬ b.size.toNat = 0 := by rw [← hl]; exact h0
    simp only [hs0, decide_false, Bool.false_eq_true, if_false]
    simp only [h0, if_false] at hb
    obtain ⟨b', e2, r2, c2, v2⟩ := addTail_refines b hI (str_add_cur b.size) (Spec.cstr raw)
      (by rw [hcur, hl]; exact Nat.le_refl _) (by omega)
    refine ⟨b', _, e2, Or.inl r2, c2, ?_, ?_⟩
    · rw [v2, Spec.addStr_fst, if_neg h0]
    · rw [hcur, Spec.addStr_snd, if_neg h0, hl]

/-- a null `str` returns index 0 and leaves the section alone -/
theorem add_null_noop (b : SecBuf) : addString b none = .ok (b, 0) := rfl

/-- **add_get** : the index returned by `add_string` retrieves exactly the added C string
    (`str` up to its first NUL). -/
theorem add_get (b : SecBuf) (hI : b.Inv) (raw : Bytes)
    (hb : (Spec.addStr b.content raw).1.length < 4294967296) :
    ∃ b' i b'', addString b (some raw) = .ok (b', i) ∧ b'.Inv ∧
      getString b' i = .ok (b'', some (Spec.cstr raw)) := by
  obtain ⟨b', i, e, hI', _, v, hi⟩ := add_refines b hI raw hb
  obtain ⟨b'', g, _⟩ := get_refines b' hI' i
  rw [v, hi, Spec.addStr_get] at g
  exact ⟨b', i, b'', e, hI', g⟩

/-- **get_stable** : a lookup that returned a string returns the same string after a further
    addition (hence, by induction, after any number of them: `add_all_get`). -/
theorem get_stable (b : SecBuf) (hI : b.Inv) (i : BitVec 32) (b0 : SecBuf) (s : Bytes)
    (hg : getString b i = .ok (b0, some s)) (raw : Bytes)
    (hb : (Spec.addStr b.content raw).1.length < 4294967296) :
    ∃ b' j b'', addString b0 (some raw) = .ok (b', j) ∧ b'.Inv ∧
      getString b' i = .ok (b'', some s) := by
  obtain ⟨b1, e1, hI1, c1, _⟩ := get_refines b hI i
  rw [e1] at hg
  injection hg with hg
  obtain ⟨rfl, hs⟩ := Prod.mk.inj hg
  obtain ⟨b', j, e, hI', _, v, _⟩ := add_refines b1 hI1 raw (by rw [c1]; exact hb)
  obtain ⟨b'', g, _⟩ := get_refines b' hI' i
  rw [v, c1, Spec.addStr_stable _ _ _ _ hs] at g
  exact ⟨b', j, b'', e, hI', g⟩

/-- adding a sequence of strings, collecting the returned indices -/
def addStrings (b : SecBuf) : List Bytes → M (SecBuf × List (BitVec 32))
  | [] => pure (b, [])
  | s :: ss =>
    match addString b (some s) with
    | .error e => .error e
    | .ok (b1, i) =>
      match addStrings b1 ss with
      | .error e => .error e
      | .ok (b2, is) => pure (b2, i :: is)

/-- **any sequence of additions** refines the reference (induction over the sequence; no bound
    on its length, only on the final table size) -/
theorem add_all_refines (b : SecBuf) (hI : b.Inv) (ss : List Bytes)
    (hb : (Spec.addAll b.content ss).1.length < 4294967296) :
    ∃ b' is, addStrings b ss = .ok (b', is) ∧ b'.Inv ∧ b'.cls = b.cls ∧
      b'.content = (Spec.addAll b.content ss).1 ∧ is.map BitVec.toNat = (Spec.addAll b.content ss).2 := by
  induction ss generalizing b with
  | nil => exact ⟨b, [], rfl, hI, rfl, rfl, rfl⟩
  | cons s ss ih =>
    rw [Spec.addAll_cons] at hb ⊢
    have h1 : (Spec.addStr b.content s).1.length < 4294967296 :=
      Nat.lt_of_le_of_lt (Spec.addAll_length_ge _ ss) hb
    obtain ⟨b1, i, e1, hI1, c1, v1, hi⟩ := add_refines b hI s h1
    obtain ⟨b2, is, e2, hI2, c2, v2, his⟩ := ih b1 hI1 (by rw [v1]; exact hb)
    refine ⟨b2, i :: is, ?_, hI2, by rw [c2, c1], by rw [v2, v1], ?_⟩
    · simp only [addStrings, e1, e2]; rfl
    · simp only [List.map_cons, hi, his, v1]

/-- **C08, first sentence** : after any sequence of additions to any reachable table, *every*
    returned index retrieves exactly the string added at that step — in particular each one
    survives all the later additions. -/
theorem add_all_get (b : SecBuf) (hI : b.Inv) (ss : List Bytes)
    (hb : (Spec.addAll b.content ss).1.length < 4294967296) :
    ∃ b' is, addStrings b ss = .ok (b', is) ∧ b'.Inv ∧ is.length = ss.length ∧
      ∀ k (hk : k < ss.length), ∃ i b'', is[k]? = some i ∧
        getString b' i = .ok (b'', some (Spec.cstr ss[k])) := by
  obtain ⟨b', is, e, hI', _, v, his⟩ := add_all_refines b hI ss hb
  have hlen : is.length = ss.length := by
    have := congrArg List.length his
    rw [List.length_map, Spec.addAll_length_snd] at this; exact this
  refine ⟨b', is, e, hI', hlen, ?_⟩
  intro k hk
  obtain ⟨n, en, g⟩ := Spec.addAll_get b.content ss k hk
  rw [← his, List.getElem?_map] at en
  cases hik : is[k]? with
  | none => rw [hik] at en; simp at en
  | some i =>
    rw [hik] at en
    have hn : i.toNat = n := by simpa using en
    obtain ⟨b'', g', _⟩ := get_refines b' hI' i
    rw [v, hn, g] at g'
    exact ⟨i, b'', rfl, g'⟩

/-- **index0_empty** : a table that was empty (or started with NUL) and is non-empty after the
    additions has the empty string at index 0. -/
theorem index0_empty (b : SecBuf) (hI : b.Inv) (ss : List Bytes)
    (h0 : b.content = [] ∨ ∃ tl, b.content = 0 :: tl) (hne : ss ≠ [] ∨ b.content ≠ [])
    (hb : (Spec.addAll b.content ss).1.length < 4294967296) :
    ∃ b' is b'', addStrings b ss = .ok (b', is) ∧ getString b' 0 = .ok (b'', some []) := by
  obtain ⟨b', is, e, hI', _, v, _⟩ := add_all_refines b hI ss hb
  obtain ⟨b'', g, _⟩ := get_refines b' hI' 0
  rw [v] at g
  have : (0 : BitVec 32).toNat = 0 := rfl
  rw [this, Spec.addAll_index0 _ _ h0 hne] at g
  exact ⟨b', is, b'', e, g⟩

/-! ### non-vacuity: concrete reachable tables meet the hypotheses -/
example : (SecBuf.fresh .c64 3).Inv := (C07.fresh_inv .c64 3 (by decide)).1
example : (SecBuf.fresh .c64 3).content = [] := (C07.fresh_inv .c64 3 (by decide)).2
/-- a lazily loaded table whose last string is unterminated -/
example : (SecBuf.loadedLazy .c32 3 [0, 120, 0, 121, 122] 400).Inv :=
  (C07.lazy_inv .c32 3 [0, 120, 0, 121, 122] 400 (by decide) (by decide) (by decide)).1
example : (Spec.addAll [] [[97, 98], [], [99, 0, 100], [97, 98]]).1.length < 4294967296 := by decide
example : Spec.addAll [] [[97, 98], [], [99, 0, 100]] = ([0, 97, 98, 0, 0, 99, 0], [1, 4, 5]) := by decide
example : Spec.strAt [0, 120, 0, 121, 122] 1 = some [120] := by decide
example : Spec.strAt [0, 120, 0, 121, 122] 3 = none := by decide
/-- a section whose data could not be read (null data, size 2): outside `Inv`, inside `WF` -/
example : WF { SecBuf.loadedEager .c64 3 [1, 2] 0 with
    data := none, dataSize := 0, isLoaded := false, canLoad := false, fileData := none } :=
  ⟨(by intro a h; cases h), (by intro d h; cases h)⟩

end C08
end ElfioVerif
