/-
save ∘ load — the loader theorems (C02) composed with the writer theorems (C03/C04/C05), and what
follows for C20 (`validate` on the reloaded object), C05 (`Loaded`), C17 (names in truncated files)
and C06 (save ∘ load ∘ save).  Helper lemmas: Lemmas/RoundTrip.lean.

 1. `saved_wellFormed`, `reload_reports_saved` (+ `_noseg`, `_flat`): the bytes produced by a successful
    `save` are a `C02.WellFormedImage`; loading them (the model's `load`, eager or lazy, string- or
    file-backed stream, any start object without address translation) succeeds and yields an object
    whose header, per-section fields (index, name offset, type, flags, address, offset, size, link,
    info, alignment, entry size, name, data) and per-segment fields (index, type, flags, offset, vaddr,
    paddr, filesz, memsz, align, member list = the specification's membership rule, data) are those of
    the object `save` left (`RoundTrip.Reloaded`) — hence, through `C05.save_writes_fields`
    (`reload_resave_fields`), those put into the object before the save.
    Which hypotheses of C02's refinement the writer's output satisfies, and from which writer lemma:
      magic / class / byte order bytes  — header setters write behind byte 16 (`set_take16`)
      complete ELF header, `e_shnum`, `e_phnum`, entry sizes — `C03.save_header_fields`, `SaveInput`
      section header table inside the file — `C04.file_covers`
      program header table inside the file — `C04.layout_disjoint` (`e_ehsize + pht < e_shoff`)
      file-occupying non-empty sections inside the file — `C04.file_covers`
      empty sections of file-occupying type — loose-section pass (`saved_loose_offset`), writer domain
        "members are non-empty" (`SaveInput.emptyLoose`)
      segment file ranges inside the file — no segments: vacuous; flat segments: `layoutSegment_flat`
        (`segInside_flat`); otherwise hypothesis `SavedSane.segInside`
      file shorter than 2^63 — positioned-writes form of the stream (`applyWrites_length_le`), `FileSmall`
      no address/offset range reaches 2^64 — hypothesis `NoWrap64` (decidable, on the saved object;
        automatic in ELF32)
      name table terminated — `SaveInput.names` (decidable, on the input object), data kept by `save`.
    General forms take `C03.LayoutOk` and `SavedSane` as hypotheses (all rungs); `_noseg` / `_flat` forms
    take decidable hypotheses on the INPUT object only (`ComposeDomain` / `FlatDomain`; `LayoutOk` from
    `C03.layoutOk_of_save`) plus `NoWrap64` of the saved object.
 2. C20: `validate_silent_reloaded_unconditional`, `validate_silent_reloaded_flat`.
 3. C05: `loaded_satisfies_Loaded` (+ `_flat`), `reload_resave_fields` (+ `_flat`).
 4. C17: `prefix_sound_names` (the name of a zeroed section; `NameTableNul img`).
 5. C06: `save_load_save_noseg`; `SaveLoadSaveStatement` (with segments) stated, not proved.
Not proved here: nested segments (segment file ranges inside the file: `SavedSane.segInside` stays a
hypothesis of the general forms), save ∘ load ∘ save with segments.  Both are continued in
Props/Compose2.lean (`save_load_save_flat`, `reload_reports_saved_nested`,
`validate_silent_reloaded_nested_unconditional`; helper lemmas Lemmas/RoundTrip2.lean, Props/C06Runs.lean).
-/
import ElfioVerif.Lemmas.RoundTrip
import ElfioVerif.Props.C06
import ElfioVerif.Props.C20
import ElfioVerif.Props.C17
import ElfioVerif.Props.C03Compose
namespace ElfioVerif.Compose
open ElfioVerif Gen Sv RoundTrip

/-! ### 1. the saved bytes are a well-formed image, and what the loader reports for them -/

/-- **saved_wellFormed** : the bytes produced by a successful `save` satisfy C02's decidable
    well-formedness predicate.  Hypotheses: C03's (`save` succeeded into a good unbudgeted stream, no
    address translation, `C03.LayoutOk` = C04's disjointness), C04's no-wrap `layoutNW`, the input
    bookkeeping `SaveInput`, the size assumption `FileSmall`, and `SavedSane` on the saved object. -/
theorem saved_wellFormed {o : Obj} {os : OStream} {r : SaveRes} {hd : Bytes}
    (hs : save o os = .ok r) (hok : r.ok = true) (hg : os.Good) (htr : o.trans = [])
    (hh : o.hdr = some hd) (hin : SaveInput o hd) (hnw : layoutNW (preSave o) hd = true)
    (hsm : FileSmall o hd os r.obj.curPos)
    {hF : Bytes} (hhF : r.obj.hdr = some hF)
    (hl : C03.LayoutOk r.obj.cls r.obj.enc hF r.obj.secs r.obj.segs)
    (hsane : SavedSane o.cls r.obj.secs r.obj.segs r.obj.curPos.toNat) :
    C02.WellFormedImage r.os.content := by
  obtain ⟨hiF, ok⟩ := imageOk_of_save hs hok hg htr hh hin hnw hsm hhF hl hsane
  obtain ⟨_, _, _, _, ec, ee⟩ := saved_indices hs hok (idx_of_B _ _ hin.segIdx) (idx_of_B _ _ hin.secIdx)
  have H := holds_of_save hs hok hg htr hhF hl
  rw [ec, ee] at H
  exact wellFormed_of_holds H hiF ok

/-- **reload_reports_saved** : loading the bytes of a successful `save` succeeds (eager and lazy, both
    stream kinds, into any object `o2` without address translation) and the loaded object shows
    exactly the object `save` left: header bytes, and — section by section, segment by segment, in
    order — every header field, the section name (as the saved name table spells it), the section
    data (for sections whose data were in memory), the member lists (the specification's membership
    rule evaluated on the saved fields) and the segment data.  `C02.load_eq_spec ∘ C03.save_decodes`. -/
theorem reload_reports_saved {o : Obj} {os : OStream} {r : SaveRes} {hd : Bytes}
    (hs : save o os = .ok r) (hok : r.ok = true) (hg : os.Good) (htr : o.trans = [])
    (hh : o.hdr = some hd) (hin : SaveInput o hd) (hnw : layoutNW (preSave o) hd = true)
    (hsm : FileSmall o hd os r.obj.curPos)
    {hF : Bytes} (hhF : r.obj.hdr = some hF)
    (hl : C03.LayoutOk r.obj.cls r.obj.enc hF r.obj.secs r.obj.segs)
    (hsane : SavedSane o.cls r.obj.secs r.obj.segs r.obj.curPos.toNat)
    (o2 : Obj) (k : StreamKind) (isLazy : Bool) (htr2 : o2.trans = []) :
    ∃ r2 : LoadRes, load o2 { data := r.os.content, kind := k } isLazy = .ok r2 ∧ r2.ok = true ∧
      Reloaded o.cls o.enc hF r.obj.secs r.obj.segs r.os.content isLazy r2.obj := by
  obtain ⟨hiF, ok⟩ := imageOk_of_save hs hok hg htr hh hin hnw hsm hhF hl hsane
  obtain ⟨_, _, _, _, ec, ee⟩ := saved_indices hs hok (idx_of_B _ _ hin.segIdx) (idx_of_B _ _ hin.secIdx)
  have H := holds_of_save hs hok hg htr hhF hl
  rw [ec, ee] at H
  exact reload_of_holds H hiF ok o2 k isLazy htr2

/-! ### objects without segments / with flat segments : hypotheses on the input object only

With `C03.layoutOk_of_save` (C04's disjointness ⇒ `C03.LayoutOk`), `C03.save_segFit`, `savedSane_noseg` /
`savedSane_flat` every hypothesis about the *saved* object is discharged except "no address / offset
range of the saved object reaches 2^64" (`NoWrap64`; automatic in ELF32). -/

/-- decidable hypotheses on the object to be saved (`C03.SaveDomain` + `SaveInput`) -/
structure ComposeDomain (o : Obj) (hd : Bytes) : Prop where
  hdr : o.hdr = some hd
  tr : o.trans = []
  input : SaveInput o hd
  nw : layoutNW (preSave o) hd = true
  small : C03.fileSmallB o hd = true
  segFit : ∀ g ∈ o.segs, C03.SegFit o.cls g

/-- no address / offset range of the saved object reaches 2^64 (decidable; trivial in ELF32) -/
structure NoWrap64 (secs : List SecBuf) (segs : List Seg) : Prop where
  sec : ∀ b ∈ secs, b.addr.toNat + b.size.toNat < 18446744073709551616 ∧
    b.offset.toNat + b.size.toNat < 18446744073709551616
  seg : ∀ g ∈ segs, g.vaddr.toNat + g.memsz.toNat < 18446744073709551616 ∧
    g.offset.toNat + g.filesz.toNat < 18446744073709551616

theorem ComposeDomain.tables {o : Obj} {hd : Bytes} (D : ComposeDomain o hd) : C03.TablesOk o hd :=
  ⟨D.input.ident.len, D.input.ehsize, D.input.shentsize, D.input.phentsize, D.input.nsegs,
   idx_of_B _ _ D.input.segIdx, idx_of_B _ _ D.input.secIdx⟩

/-- the writer side of the composition, from hypotheses on the input object: header of the saved
    object, `C03.LayoutOk` (C04), the size assumption, segment fields fit -/
theorem ComposeDomain.writer {o : Obj} {os : OStream} {r : SaveRes} {hd : Bytes} (D : ComposeDomain o hd)
    (hs : save o os = .ok r) (hok : r.ok = true) (hos : os.content.length < 9223372036854775808)
    (hw : NoWrap64 r.obj.secs r.obj.segs) :
    ∃ hF, r.obj.hdr = some hF ∧ C03.LayoutOk r.obj.cls r.obj.enc hF r.obj.secs r.obj.segs ∧
      FileSmall o hd os r.obj.curPos ∧ SavedNoWrap o.cls r.obj.secs r.obj.segs := by
  obtain ⟨hF, hhF, -, hl⟩ := C03.layoutOk_of_save hs hok D.hdr D.input.nsecs D.input.h0 D.nw D.tables D.small
  have hsf := C03.save_segFit hs hok D.hdr D.input.nsecs D.input.h0 D.nw
    (C03.nodup_of_segIdx (idx_of_B _ _ D.input.segIdx)) D.input.fit D.segFit
  obtain ⟨res, hlay, -, hcur, -⟩ := C04.save_secs_hdr o os r hd hs hok D.hdr
  have hsm := D.small
  unfold C03.fileSmallB at hsm
  rw [hlay] at hsm
  simp only [Bool.and_eq_true, decide_eq_true_eq] at hsm
  rw [← hcur] at hsm
  exact ⟨hF, hhF, hl, ⟨hsm.1, hsm.2, hos⟩, ⟨hw.sec, hsf, hw.seg⟩⟩

/-- **reload_reports_saved_noseg** : objects without segments — hypotheses on the input object
    (`ComposeDomain`), on the stream written to, and `NoWrap64` of the saved sections. -/
theorem reload_reports_saved_noseg {o : Obj} {os : OStream} {r : SaveRes} {hd : Bytes}
    (hs : save o os = .ok r) (hok : r.ok = true) (hg : os.Good) (hos : os.content.length < 9223372036854775808)
    (D : ComposeDomain o hd) (hseg : o.segs = []) (hw : NoWrap64 r.obj.secs r.obj.segs)
    (o2 : Obj) (k : StreamKind) (isLazy : Bool) (htr2 : o2.trans = []) :
    ∃ (hF : Bytes) (r2 : LoadRes), r.obj.hdr = some hF ∧
      load o2 { data := r.os.content, kind := k } isLazy = .ok r2 ∧ r2.ok = true ∧
      Reloaded o.cls o.enc hF r.obj.secs r.obj.segs r.os.content isLazy r2.obj := by
  obtain ⟨hF, hhF, hl, hsm, hnwrap⟩ := D.writer hs hok hos hw
  obtain ⟨r2, h1, h2, h3⟩ := reload_reports_saved hs hok hg D.tr D.hdr D.input D.nw hsm hhF hl
    (savedSane_noseg hs hok hseg hnwrap) o2 k isLazy htr2
  exact ⟨hF, r2, hhF, h1, h2, h3⟩

/-- the additional hypotheses for objects with (flat) segments: every segment is laid out as a fresh
    run of members under the writer-domain side conditions, none is the member-less PT_PHDR case;
    SHT_NULL-typed sections are empty -/
structure FlatDomain (o : Obj) (hd : Bytes) : Prop extends ComposeDomain o hd where
  dom : layoutDomB false false (fun _ => true) (preSave o) hd = true
  noPhdr : ∀ g ∈ o.segs, lseg_is_phdr g.stype (BitVec.ofNat 16 g.secs.length) = false
  null0 : ∀ s ∈ o.secs, s.stype = BitVec.ofNat 32 SHT_NULL → s.size = 0

/-- **reload_reports_saved_flat** : objects whose segments are all flat: the segments' file ranges lie
    inside the file by `layoutSegment_flat`; everything else as in the segment-less case. -/
theorem reload_reports_saved_flat {o : Obj} {os : OStream} {r : SaveRes} {hd : Bytes}
    (hs : save o os = .ok r) (hok : r.ok = true) (hg : os.Good) (hos : os.content.length < 9223372036854775808)
    (D : FlatDomain o hd) (hw : NoWrap64 r.obj.secs r.obj.segs)
    (o2 : Obj) (k : StreamKind) (isLazy : Bool) (htr2 : o2.trans = []) :
    ∃ (hF : Bytes) (r2 : LoadRes), r.obj.hdr = some hF ∧
      load o2 { data := r.os.content, kind := k } isLazy = .ok r2 ∧ r2.ok = true ∧
      Reloaded o.cls o.enc hF r.obj.secs r.obj.segs r.os.content isLazy r2.obj := by
  obtain ⟨hF, hhF, hl, hsm, hnwrap⟩ := D.toComposeDomain.writer hs hok hos hw
  obtain ⟨r2, h1, h2, h3⟩ := reload_reports_saved hs hok hg D.tr D.hdr D.input D.nw hsm hhF hl
    (savedSane_flat hs hok D.hdr D.input D.nw D.dom D.noPhdr hnwrap) o2 k isLazy htr2
  exact ⟨hF, r2, hhF, h1, h2, h3⟩

/-! ### 2. C20 : `validate` on the reloaded object -/

theorem map_eq_of_pointwise {α β γ} (f : α → γ) (g : β → γ) (l : List α) (l' : List β)
    (hlen : l.length = l'.length)
    (h : ∀ (i : Nat) a b, l[i]? = some a → l'[i]? = some b → f a = g b) : l.map f = l'.map g := by
  apply List.ext_getElem?
  intro i
  simp only [List.getElem?_map]
  rcases Nat.lt_or_ge i l.length with hi | hi
  · have hi' : i < l'.length := by rw [← hlen]; exact hi
    rw [List.getElem?_eq_getElem hi, List.getElem?_eq_getElem hi']
    simp only [Option.map_some]
    rw [h i _ _ (List.getElem?_eq_getElem hi) (List.getElem?_eq_getElem hi')]
  · rw [List.getElem?_eq_none hi, List.getElem?_eq_none (by rw [← hlen]; exact hi)]
    rfl

theorem nodup_of_idx {segs : List Seg} (h : ∀ (k : Nat) g, segs[k]? = some g → g.index = k) :
    (segs.map (·.index)).Nodup := by
  rw [List.nodup_iff_pairwise_ne, List.pairwise_map, List.pairwise_iff_getElem]
  intro i j hi hj hij
  rw [h i _ (List.getElem?_eq_getElem hi), h j _ (List.getElem?_eq_getElem hj)]
  omega

/-- the fields `validate` reads are the same in the reloaded object -/
theorem reloaded_vkeys {c : Cls} {enc : Enc} {h : Bytes} {secs : List SecBuf} {segs : List Seg} {img : Bytes}
    {isLazy : Bool} {o2 : Obj} (R : Reloaded c enc h secs segs img isLazy o2) :
    o2.secs.map vkey = secs.map vkey ∧ o2.segs.map vgkey = segs.map vgkey := by
  constructor
  · apply map_eq_of_pointwise _ _ _ _ R.nsec
    intro i b2 b hb2 hb
    obtain ⟨sa, _, _⟩ := R.sec i b b2 hb hb2
    simp only [vkey, sa.stype, sa.size, sa.offset, sa.addr]
  · apply map_eq_of_pointwise _ _ _ _ R.nseg
    intro j g2 g hg2 hg
    obtain ⟨sa, _, _⟩ := R.seg j g g2 hg hg2
    simp only [vgkey, sa.stype, sa.filesz, sa.offset, sa.vaddr]

/-- **validate_silent_reloaded_unconditional** (C20) : the object obtained by *loading the bytes* of a
    successful `save` of a flat writer-domain object (the model's `load`, eager or lazy, either stream
    kind) gets no complaint from `validate`.  `C20.validate_silent_reloaded` with its hypothesis "the
    loader reports type/size/offset/address of every section and type/filesz/offset/vaddr of every
    segment as saved" discharged by `reload_reports_saved`.  Hypotheses: those of
    `C20.validate_silent_save` (`hnull0`, `layoutNW`, `layoutDomB false false sel`, `hsel`; the
    remaining ones follow from `SaveInput`) and those of `reload_reports_saved`. -/
theorem validate_silent_reloaded_unconditional {o : Obj} {os : OStream} {r : SaveRes} {hd : Bytes}
    (hs : save o os = .ok r) (hok : r.ok = true) (hg : os.Good) (htr : o.trans = [])
    (hh : o.hdr = some hd) (hin : SaveInput o hd) (hnw : layoutNW (preSave o) hd = true)
    (hsm : FileSmall o hd os r.obj.curPos)
    {hF : Bytes} (hhF : r.obj.hdr = some hF)
    (hl : C03.LayoutOk r.obj.cls r.obj.enc hF r.obj.secs r.obj.segs)
    (hsane : SavedSane o.cls r.obj.secs r.obj.segs r.obj.curPos.toNat)
    (hnull0 : ∀ s ∈ o.secs, s.stype = BitVec.ofNat 32 SHT_NULL → s.size = 0)
    (sel : Nat → Bool) (hdom : layoutDomB false false sel (preSave o) hd = true)
    (hsel : ∀ g ∈ r.obj.segs, g.stype = BitVec.ofNat 32 PT_LOAD → 0 < g.filesz.toNat → sel g.index = true)
    (o2 : Obj) (k : StreamKind) (isLazy : Bool) (htr2 : o2.trans = []) :
    ∃ r2 : LoadRes, load o2 { data := r.os.content, kind := k } isLazy = .ok r2 ∧ r2.ok = true ∧
      validate r2.obj = [] := by
  obtain ⟨r2, hload, hok2, R⟩ := reload_reports_saved hs hok hg htr hh hin hnw hsm hhF hl hsane o2 k isLazy htr2
  obtain ⟨hk1, hk2⟩ := reloaded_vkeys R
  exact ⟨r2, hload, hok2, C20.validate_silent_reloaded o os r hd r2.obj hs hok hh hin.nsecs hin.h0 hnull0 hnw
    (nodup_of_idx (idx_of_B _ _ hin.segIdx)) sel hdom hsel hk1 hk2⟩

/-- **validate_silent_reloaded_flat** (C20) : flat writer-domain objects, hypotheses on the input object
    only (plus `NoWrap64` of the saved object): `save`, then the model's `load` of the bytes (eager or
    lazy), then `validate` — no complaint. -/
theorem validate_silent_reloaded_flat {o : Obj} {os : OStream} {r : SaveRes} {hd : Bytes}
    (hs : save o os = .ok r) (hok : r.ok = true) (hg : os.Good) (hos : os.content.length < 9223372036854775808)
    (D : FlatDomain o hd) (hw : NoWrap64 r.obj.secs r.obj.segs)
    (o2 : Obj) (k : StreamKind) (isLazy : Bool) (htr2 : o2.trans = []) :
    validate r.obj = [] ∧
    ∃ r2 : LoadRes, load o2 { data := r.os.content, kind := k } isLazy = .ok r2 ∧ r2.ok = true ∧
      validate r2.obj = [] := by
  obtain ⟨hF, hhF, hl, hsm, hnwrap⟩ := D.toComposeDomain.writer hs hok hos hw
  refine ⟨C20.validate_silent_save o os r hd hs hok D.hdr D.input.nsecs D.input.h0 D.null0 D.nw
    (nodup_of_idx (idx_of_B _ _ D.input.segIdx)) (fun _ => true) D.dom (fun _ _ _ _ => rfl), ?_⟩
  exact validate_silent_reloaded_unconditional hs hok hg D.tr D.hdr D.input D.nw hsm hhF hl
    (savedSane_flat hs hok D.hdr D.input D.nw D.dom D.noPhdr hnwrap) D.null0 (fun _ => true) D.dom
    (fun _ _ _ _ => rfl) o2 k isLazy htr2

/-! ### 3. C05 : the model's `load` of writer output satisfies `Loaded` -/

/-- **loaded_satisfies_Loaded** (C05) : the object the model's (eager) `load` produces from the bytes
    of a successful `save` satisfies the abstract predicate `C05.Loaded` relative to which
    `C05.loaded_resave_fields` is stated; it has the saved object's class, byte order and header.
    (`RoundTrip.loaded_of_wellFormed` shows `Loaded` for the eager load of *every* well-formed image;
    after a lazy load the data clause of `Loaded` holds once the data have been requested —
    `Reloaded.sec`, second data clause.) -/
theorem loaded_satisfies_Loaded {o : Obj} {os : OStream} {r : SaveRes} {hd : Bytes}
    (hs : save o os = .ok r) (hok : r.ok = true) (hg : os.Good) (htr : o.trans = [])
    (hh : o.hdr = some hd) (hin : SaveInput o hd) (hnw : layoutNW (preSave o) hd = true)
    (hsm : FileSmall o hd os r.obj.curPos)
    {hF : Bytes} (hhF : r.obj.hdr = some hF)
    (hl : C03.LayoutOk r.obj.cls r.obj.enc hF r.obj.secs r.obj.segs)
    (hsane : SavedSane o.cls r.obj.secs r.obj.segs r.obj.curPos.toNat)
    (o2 : Obj) (k : StreamKind) (htr2 : o2.trans = []) :
    ∃ r2 : LoadRes, load o2 { data := r.os.content, kind := k } false = .ok r2 ∧ r2.ok = true ∧
      r2.obj.cls = o.cls ∧ r2.obj.enc = o.enc ∧ r2.obj.trans = [] ∧ r2.obj.hdr = r.obj.hdr ∧
      C05.Loaded o.cls o.enc r2.obj.secs r2.obj.segs r.os.content := by
  obtain ⟨hiF, ok⟩ := imageOk_of_save hs hok hg htr hh hin hnw hsm hhF hl hsane
  obtain ⟨_, _, _, _, ec, ee⟩ := saved_indices hs hok (idx_of_B _ _ hin.segIdx) (idx_of_B _ _ hin.secIdx)
  have H := holds_of_save hs hok hg htr hhF hl
  rw [ec, ee] at H
  have hwf := wellFormed_of_holds H hiF ok
  obtain ⟨r2, hload, hok2, c2, e2, t2, h2, L⟩ := loaded_of_wellFormed r.os.content o2 k htr2 hwf
  rw [H.clsOf hiF] at c2 h2 L
  rw [H.encOf hiF] at e2 L
  refine ⟨r2, hload, hok2, c2, e2, t2, ?_, L⟩
  rw [h2, hhF, ← (sizes_eq o.cls).1, ← hiF.len, H.hdr]

/-- **reload_resave_fields** (C05, unconditional form of `loaded_resave_fields`) : save an object,
    load the bytes with the model's loader — the reloaded object has as many sections and segments,
    and in the same order every section has the same name offset, type, flags, size, link, info,
    alignment, entry size, the same address if one was set, the same data (file-occupying non-empty
    sections whose data were in memory); every segment the same type, flags, addresses, an alignment
    and (ELF64) memory size of at least the old ones. -/
theorem reload_resave_fields {o : Obj} {os : OStream} {r : SaveRes} {hd : Bytes}
    (hs : save o os = .ok r) (hok : r.ok = true) (hg : os.Good) (htr : o.trans = [])
    (hh : o.hdr = some hd) (hin : SaveInput o hd) (hnw : layoutNW (preSave o) hd = true)
    (hsm : FileSmall o hd os r.obj.curPos)
    {hF : Bytes} (hhF : r.obj.hdr = some hF)
    (hl : C03.LayoutOk r.obj.cls r.obj.enc hF r.obj.secs r.obj.segs)
    (hsane : SavedSane o.cls r.obj.secs r.obj.segs r.obj.curPos.toNat)
    (o2 : Obj) (k : StreamKind) (htr2 : o2.trans = []) :
    ∃ r2 : LoadRes, load o2 { data := r.os.content, kind := k } false = .ok r2 ∧ r2.ok = true ∧
      r2.obj.secs.length = o.secs.length ∧ r2.obj.segs.length = o.segs.length ∧
      (∀ (i : Nat) a b2, o.secs[i]? = some a → r2.obj.secs[i]? = some b2 →
        b2.nameOff = a.nameOff ∧ b2.stype = a.stype ∧ b2.flags = a.flags ∧ b2.size = a.size ∧ b2.link = a.link ∧
        b2.info = a.info ∧ b2.addrAlign = a.addrAlign ∧ b2.entSize = a.entSize ∧ b2.addrSet = true ∧
        (a.addrSet = true → b2.addr = a.addr) ∧
        (a.stype ≠ BitVec.ofNat 32 SHT_NOBITS → a.stype ≠ BitVec.ofNat 32 SHT_NULL → a.size ≠ 0 →
          (∃ d, a.data = some d ∧ a.size.toNat ≤ d.length) → b2.view = a.view)) ∧
      (∀ (j : Nat) g g2, o.segs[j]? = some g → r2.obj.segs[j]? = some g2 →
        g2.stype = g.stype ∧ g2.flags = g.flags ∧ g2.vaddr = g.vaddr ∧ g2.paddr = g.paddr ∧
        g.align.toNat ≤ g2.align.toNat ∧ (o.cls = .c64 → g.memsz.toNat ≤ g2.memsz.toNat)) := by
  obtain ⟨r2, hload, hok2, _, _, _, _, L⟩ :=
    loaded_satisfies_Loaded hs hok hg htr hh hin hnw hsm hhF hl hsane o2 k htr2
  have hlen : ehdrSize o.cls ≤ hd.length := by rw [hin.ident.len]; exact Nat.le_refl _
  obtain ⟨n1, n2, f1, f2⟩ := C05.loaded_resave_fields hs hok hg htr (idx_of_B _ _ hin.segIdx)
    (idx_of_B _ _ hin.secIdx) hhF hh hlen hl hin.fit hsane.segFit L
  rw [Nat.mod_eq_of_lt hin.nsecs] at n1
  rw [Nat.mod_eq_of_lt hin.nsegs] at n2
  exact ⟨r2, hload, hok2, n1, n2, f1, f2⟩

/-- **loaded_satisfies_Loaded_flat** / **reload_resave_fields_flat** (C05) : flat writer-domain objects,
    hypotheses on the input object only (plus `NoWrap64`): the eager reload satisfies `C05.Loaded`, and
    reports the fields and data put into the object before the save. -/
theorem loaded_satisfies_Loaded_flat {o : Obj} {os : OStream} {r : SaveRes} {hd : Bytes}
    (hs : save o os = .ok r) (hok : r.ok = true) (hg : os.Good) (hos : os.content.length < 9223372036854775808)
    (D : FlatDomain o hd) (hw : NoWrap64 r.obj.secs r.obj.segs)
    (o2 : Obj) (k : StreamKind) (htr2 : o2.trans = []) :
    ∃ r2 : LoadRes, load o2 { data := r.os.content, kind := k } false = .ok r2 ∧ r2.ok = true ∧
      r2.obj.cls = o.cls ∧ r2.obj.enc = o.enc ∧ r2.obj.trans = [] ∧ r2.obj.hdr = r.obj.hdr ∧
      C05.Loaded o.cls o.enc r2.obj.secs r2.obj.segs r.os.content := by
  obtain ⟨hF, hhF, hl, hsm, hnwrap⟩ := D.toComposeDomain.writer hs hok hos hw
  exact loaded_satisfies_Loaded hs hok hg D.tr D.hdr D.input D.nw hsm hhF hl
    (savedSane_flat hs hok D.hdr D.input D.nw D.dom D.noPhdr hnwrap) o2 k htr2

theorem reload_resave_fields_flat {o : Obj} {os : OStream} {r : SaveRes} {hd : Bytes}
    (hs : save o os = .ok r) (hok : r.ok = true) (hg : os.Good) (hos : os.content.length < 9223372036854775808)
    (D : FlatDomain o hd) (hw : NoWrap64 r.obj.secs r.obj.segs)
    (o2 : Obj) (k : StreamKind) (htr2 : o2.trans = []) :
    ∃ r2 : LoadRes, load o2 { data := r.os.content, kind := k } false = .ok r2 ∧ r2.ok = true ∧
      r2.obj.secs.length = o.secs.length ∧ r2.obj.segs.length = o.segs.length ∧
      (∀ (i : Nat) a b2, o.secs[i]? = some a → r2.obj.secs[i]? = some b2 →
        b2.nameOff = a.nameOff ∧ b2.stype = a.stype ∧ b2.flags = a.flags ∧ b2.size = a.size ∧ b2.link = a.link ∧
        b2.info = a.info ∧ b2.addrAlign = a.addrAlign ∧ b2.entSize = a.entSize ∧ b2.addrSet = true ∧
        (a.addrSet = true → b2.addr = a.addr) ∧
        (a.stype ≠ BitVec.ofNat 32 SHT_NOBITS → a.stype ≠ BitVec.ofNat 32 SHT_NULL → a.size ≠ 0 →
          (∃ d, a.data = some d ∧ a.size.toNat ≤ d.length) → b2.view = a.view)) ∧
      (∀ (j : Nat) g g2, o.segs[j]? = some g → r2.obj.segs[j]? = some g2 →
        g2.stype = g.stype ∧ g2.flags = g.flags ∧ g2.vaddr = g.vaddr ∧ g2.paddr = g.paddr ∧
        g.align.toNat ≤ g2.align.toNat ∧ (o.cls = .c64 → g.memsz.toNat ≤ g2.memsz.toNat)) := by
  obtain ⟨hF, hhF, hl, hsm, hnwrap⟩ := D.toComposeDomain.writer hs hok hos hw
  exact reload_resave_fields hs hok hg D.tr D.hdr D.input D.nw hsm hhF hl
    (savedSane_flat hs hok D.hdr D.input D.nw D.dom D.noPhdr hnwrap) o2 k htr2

/-! ### non-vacuity : concrete objects built with the model's API meet every hypothesis -/

/-- ELF64/LSB: `create`, `sections.add(".text")` (PROGBITS, AX, align 16, 5 bytes of data); no segments -/
def exNosegM : M Obj := do
  let o ← create {} .c64 .lsb
  let o ← sectionsAdd o [0x2e, 0x74, 0x65, 0x78, 0x74]
  let o := C06.updSec o 2 fun b => { b with stype := 1, flags := 6, addrAlign := 16 }
  C06.updSecM o 2 fun b => b.setData (some [1, 2, 3, 4, 5]) 5

/-- ELF32/MSB: `.text` as above plus `.data` (8 bytes, explicit address); both members of one PT_LOAD
    (`segments.add`, `add_section_index`) -/
def exFlatM : M Obj := do
  let o ← create {} .c32 .msb
  let o ← sectionsAdd o [0x2e, 0x74, 0x65, 0x78, 0x74]
  let o := C06.updSec o 2 fun b => { b with stype := 1, flags := 6, addrAlign := 16 }
  let o ← C06.updSecM o 2 fun b => b.setData (some [1, 2, 3, 4, 5]) 5
  let o ← sectionsAdd o [0x2e, 0x64, 0x61, 0x74, 0x61]
  let o := C06.updSec o 3 fun b => { b with stype := 1, flags := 3, addrAlign := 4, addr := 0x8020, addrSet := true }
  let o ← C06.updSecM o 3 fun b => b.setData (some [9, 8, 7, 6, 5, 4, 3, 2]) 8
  let o := segmentsAdd o
  let o := C06.updSeg o 0 fun g => { g with stype := 1, flags := 5, align := 0x1000, vaddr := 0x8000, paddr := 0x8000 }
  let o := C06.updSeg o 0 fun g => segAddSection g 2 16
  let o := C06.updSeg o 0 fun g => segAddSection g 3 4
  pure o

def objOf (m : M Obj) : Obj := match m with | .ok o => o | .error _ => {}
def savedOf (o : Obj) : SaveRes := match save o {} with | .ok r => r | .error _ => ⟨{}, {}, false⟩

theorem savedOf_eq (o : Obj) (h : (match save o {} with | .ok _ => true | .error _ => false) = true) :
    save o {} = .ok (savedOf o) := by
  unfold savedOf
  cases hs : save o {} with
  | ok r => rfl
  | error e => rw [hs] at h; cases h

/-- all hypotheses of the composition theorems for a concrete object `o` saved into an empty stream -/
structure ExOk (o : Obj) : Prop where
  saved : save o {} = .ok (savedOf o)
  ok : (savedOf o).ok = true
  dom : FlatDomain o (o.hdr.getD [])
  noWrap : NoWrap64 (savedOf o).obj.secs (savedOf o).obj.segs

theorem exNoseg_ok : ExOk (objOf exNosegM) := by
  refine ⟨savedOf_eq _ (by decide +kernel), by decide +kernel,
    ⟨⟨by decide +kernel, by decide +kernel,
      ⟨by decide +kernel, by decide +kernel, by decide +kernel, by decide +kernel, by decide +kernel,
       by decide +kernel, by decide +kernel, by decide +kernel, by decide +kernel, by decide +kernel,
       by decide +kernel, by decide +kernel, by decide +kernel, by decide +kernel⟩,
      by decide +kernel, by decide +kernel, by decide +kernel⟩,
     by decide +kernel, by decide +kernel, by decide +kernel⟩,
    ⟨by decide +kernel, by decide +kernel⟩⟩

theorem exFlat_ok : ExOk (objOf exFlatM) := by
  refine ⟨savedOf_eq _ (by decide +kernel), by decide +kernel,
    ⟨⟨by decide +kernel, by decide +kernel,
      ⟨by decide +kernel, by decide +kernel, by decide +kernel, by decide +kernel, by decide +kernel,
       by decide +kernel, by decide +kernel, by decide +kernel, by decide +kernel, by decide +kernel,
       by decide +kernel, by decide +kernel, by decide +kernel, by decide +kernel⟩,
      by decide +kernel, by decide +kernel, by decide +kernel⟩,
     by decide +kernel, by decide +kernel, by decide +kernel⟩,
    ⟨by decide +kernel, by decide +kernel⟩⟩

/-- the examples are not trivial: segment-less with three sections / one PT_LOAD with two members among
    four sections, laid out at file offset 0x1000 with 0x28 bytes -/
example : (objOf exNosegM).segs = [] ∧ (objOf exNosegM).secs.length = 3 ∧
    (objOf exFlatM).secs.length = 4 ∧ (objOf exFlatM).segs.map (·.secs) = [[2#16, 3#16]] ∧
    ((savedOf (objOf exFlatM)).obj.segs.map fun g => (g.offset, g.filesz)) = [(0x1000#64, 0x28#64)] := by
  decide +kernel

/-- the composition theorems apply to every object meeting `ExOk` … -/
theorem ExOk.reload {o : Obj} (h : ExOk o) (o2 : Obj) (k : StreamKind) (isLazy : Bool) (htr2 : o2.trans = []) :
    ∃ (hF : Bytes) (r2 : LoadRes), (savedOf o).obj.hdr = some hF ∧
      load o2 { data := (savedOf o).os.content, kind := k } isLazy = .ok r2 ∧ r2.ok = true ∧
      Reloaded o.cls o.enc hF (savedOf o).obj.secs (savedOf o).obj.segs (savedOf o).os.content isLazy r2.obj ∧
      validate r2.obj = [] := by
  obtain ⟨hF, r2, h0, h1, h2, h3⟩ := reload_reports_saved_flat h.saved h.ok ⟨rfl, rfl⟩ (by decide) h.dom h.noWrap
    o2 k isLazy htr2
  obtain ⟨_, r2', h1', _, h3'⟩ := validate_silent_reloaded_flat h.saved h.ok ⟨rfl, rfl⟩ (by decide) h.dom h.noWrap
    o2 k isLazy htr2
  rw [h1] at h1'; cases h1'
  exact ⟨hF, r2, h0, h1, h2, h3, h3'⟩

theorem ExOk.loaded {o : Obj} (h : ExOk o) (o2 : Obj) (k : StreamKind) (htr2 : o2.trans = []) :
    ∃ r2 : LoadRes, load o2 { data := (savedOf o).os.content, kind := k } false = .ok r2 ∧ r2.ok = true ∧
      C05.Loaded o.cls o.enc r2.obj.secs r2.obj.segs (savedOf o).os.content := by
  obtain ⟨r2, h1, h2, _, _, _, _, L⟩ := loaded_satisfies_Loaded_flat h.saved h.ok ⟨rfl, rfl⟩ (by decide) h.dom
    h.noWrap o2 k htr2
  exact ⟨r2, h1, h2, L⟩

/-- … in particular to the two concrete objects (segment-less ELF64/LSB; ELF32/MSB with a PT_LOAD),
    for every stream kind and load mode -/
example (k : StreamKind) (isLazy : Bool) :
    ∃ r2 : LoadRes, load {} { data := (savedOf (objOf exNosegM)).os.content, kind := k } isLazy = .ok r2 ∧
      r2.ok = true ∧ validate r2.obj = [] := by
  obtain ⟨_, r2, _, h1, h2, _, h4⟩ := exNoseg_ok.reload {} k isLazy rfl
  exact ⟨r2, h1, h2, h4⟩

example (k : StreamKind) (isLazy : Bool) :
    ∃ r2 : LoadRes, load {} { data := (savedOf (objOf exFlatM)).os.content, kind := k } isLazy = .ok r2 ∧
      r2.ok = true ∧ validate r2.obj = [] := by
  obtain ⟨_, r2, _, h1, h2, _, h4⟩ := exFlat_ok.reload {} k isLazy rfl
  exact ⟨r2, h1, h2, h4⟩

/-- the segment-less theorem on the first example -/
example (k : StreamKind) (isLazy : Bool) :
    ∃ (hF : Bytes) (r2 : LoadRes), (savedOf (objOf exNosegM)).obj.hdr = some hF ∧
      load {} { data := (savedOf (objOf exNosegM)).os.content, kind := k } isLazy = .ok r2 ∧ r2.ok = true ∧
      Reloaded (objOf exNosegM).cls (objOf exNosegM).enc hF (savedOf (objOf exNosegM)).obj.secs
        (savedOf (objOf exNosegM)).obj.segs (savedOf (objOf exNosegM)).os.content isLazy r2.obj :=
  reload_reports_saved_noseg exNoseg_ok.saved exNoseg_ok.ok ⟨rfl, rfl⟩ (by decide) exNoseg_ok.dom.toComposeDomain
    (by decide +kernel) exNoseg_ok.noWrap {} k isLazy rfl

/-- what `Reloaded` promises for `.data` of the second example: its name, its bytes, and membership
    in the PT_LOAD as recomputed by the specification's rule -/
example :
    let S := savedOf (objOf exFlatM)
    (∀ b ∈ S.obj.secs[3]?, nameIn .c32 .msb (S.obj.hdr.getD []) S.obj.secs b = [0x2e, 0x64, 0x61, 0x74, 0x61] ∧
      ResidentFull b ∧ fileBytesOf b = [9, 8, 7, 6, 5, 4, 3, 2]) ∧
    (∀ g ∈ S.obj.segs[0]?, specMembers S.obj.secs g = [2, 3]) := by
  decide +kernel

/-! ### 4. C17 : the name of a zeroed section of a truncated well-formed image -/

/-- the section-name string table of the image (if there is one and it is not empty) starts with a
    NUL byte — part of the gABI's definition of a string table ("the first byte, which is index zero,
    holds a null character"); decidable, specification vocabulary only -/
def NameTableNul (img : Bytes) : Prop := ∀ T ∈ C02.shstrtab img, T = [] ∨ T.head? = some 0

instance (img : Bytes) : Decidable (NameTableNul img) := by unfold NameTableNul; infer_instance

/-- on a well-formed image the loader's name table holds the specification's table bytes -/
theorem nameTableNulFirst_of_image (img : Bytes) (o : Obj) (k : StreamKind) (isLazy : Bool) (htr : o.trans = [])
    (hwf : C02.WellFormedImage img) (hnul : NameTableNul img) :
    ∃ rf : LoadRes, load o { data := img, kind := k } isLazy = .ok rf ∧ rf.ok = true ∧ C17.NameTableNulFirst rf := by
  obtain ⟨rf, hload, ⟨hok, lc, le, ⟨h', hh', hhs⟩, _, _, _, lns, _, _, _⟩, _, lst⟩ := load_state img o k isLazy htr hwf
  refine ⟨rf, hload, hok, ?_⟩
  intro hdr T hh hne hT d hd hsz
  rw [hh'] at hh
  have ehdr : hdr = h' := (Option.some.inj hh).symm
  subst ehdr
  rw [lc, le] at hne hT
  have hndx : (Hdr.e_shstrndx (C02.clsOf img) (C02.encOf img) hdr).toNat = C02.eh img "e_shstrndx" := hhs.2.2.2.2.2.2.2.2.2.2.2.2.2
  rw [hndx] at hne hT
  have hi := getElem?_lt hT
  have e2 : rf.obj.secs[C02.eh img "e_shstrndx"] = T := by
    have := List.getElem?_eq_getElem hi
    rw [hT] at this; exact (Option.some.inj this).symm
  have hv := (lst _ hi).2.1 (Or.inr (by rw [e2, hd]; rfl))
  have hshape := (lst _ hi).2.2 d (by rw [e2]; exact hd)
  rw [e2] at hv hshape
  have hne' : ¬ C02.eh img "e_shstrndx" = Spec.SHN_UNDEF := hne
  have hsh : C02.shstrtab img = some (C02.secFileBytes img (C02.eh img "e_shstrndx")) := by
    unfold C02.shstrtab; rw [if_neg hne']
  have := hnul _ hsh
  rw [← hv] at this
  rw [hshape]
  rcases this with h0 | h0
  · rw [h0]; rfl
  · cases hvw : T.view with
    | nil => rfl
    | cons x rest => rw [hvw] at h0; simpa using h0

/-- **prefix_sound_names** (C17, closes the "name of a zeroed section" gap) : for a well-formed image
    whose section-name table starts with NUL, every prefix whose load succeeds names every section
    with the empty string or with the name the complete file gives it — sections with the zeroed
    header included (`C17.prefix_sound_zero_name`); for the others `C17.prefix_sound_section`
    (same header fields, hence same name offset). -/
theorem prefix_sound_names (o : Obj) (htr : o.trans = []) (img : Bytes) (k : Nat) (kind : StreamKind)
    (isLazy : Bool) (hwf : C02.WellFormedImage img) (hnul : NameTableNul img) (rp : LoadRes)
    (hp : load o { data := img.take k, kind := kind } isLazy = .ok rp) (hok : rp.ok = true) :
    ∃ rf : LoadRes, load o { data := img, kind := kind } isLazy = .ok rf ∧ rf.ok = true ∧
      rp.obj.secs.length = rf.obj.secs.length ∧
      ∀ (i : Nat) (bp : SecBuf), rp.obj.secs[i]? = some bp → ∃ bf, rf.obj.secs[i]? = some bf ∧
        (C17.SecZero bp → bp.name = []) ∧ (bp.name = [] ∨ bp.name = bf.name) := by
  obtain ⟨rf, hf, hokf, hnf⟩ := nameTableNulFirst_of_image img o kind isLazy htr hwf hnul
  have hlen : img.length < 9223372036854775808 := hwf.2.2.2.2.1
  obtain ⟨hl, hsec⟩ := C17.prefix_sound_section o htr img k kind isLazy hlen rp rf hp hf hok
  have hz := C17.prefix_sound_zero_name o htr img k kind isLazy hlen rp rf hp hf hok hnf
  refine ⟨rf, hf, hokf, hl, ?_⟩
  intro i bp hi
  obtain ⟨bf, hbf, hzs, _, _, _, hnm⟩ := hsec i bp hi
  refine ⟨bf, hbf, hz i bp hi, ?_⟩
  rcases hzs with hzero | hsame
  · exact Or.inl (hz i bp hi hzero)
  · exact hnm hsame.nameOff

/-- non-vacuity: `C17.img272` is well-formed and its name table starts with NUL; its prefix of length
    250 loads, with a zeroed section next to the resident name table -/
example : C02.WellFormedImage C17.img272 ∧ NameTableNul C17.img272 := by decide +kernel

/-! ### 5. C06 : save ∘ load ∘ save for objects without segments -/

/-- the general statement (objects with segments too), kept visible: what `save_load_save_noseg` proves
    for `o.segs = []`.  Missing for segments: `members_recomputed` (the loader's membership rule returns the
    declared member lists) and a congruence of the segment loop of `save` under `OutRel`. -/
def SaveLoadSaveStatement : Prop :=
  ∀ (o o2 : Obj) (os : OStream) (r : SaveRes) (hd : Bytes) (k : StreamKind) (isLazy : Bool),
    save o os = .ok r → r.ok = true → os.Good → os.content.length < 9223372036854775808 →
    FlatDomain o hd → NoWrap64 r.obj.secs r.obj.segs → (∀ a ∈ o.secs, ResidentFull a) → C06.ResaveOk o hd →
    o2.trans = [] →
    ∃ (r2 : LoadRes) (r3 : SaveRes), load o2 { data := r.os.content, kind := k } isLazy = .ok r2 ∧ r2.ok = true ∧
      save r2.obj os = .ok r3 ∧ r3.ok = true ∧ r3.os.content = r.os.content

/-- **save_load_save_noseg** (C06) : for an object without segments whose section data are in memory,
    saving, loading the bytes with the model's loader (eager or lazy, either stream kind) and saving the
    loaded object into the same initial stream succeeds and produces the same stream — byte for byte.
    (`reload_reports_saved_noseg`: the reloaded sections carry the saved header fields and deliver the
    saved data on request; `preRes_outRel` / `saveTail_os_congr`: the write phase of a segment-less `save`
    reads a section only through those; `C06.save_twice_no_segments`: saving the saved object again
    reproduces the result.) -/
theorem save_load_save_noseg {o : Obj} {os : OStream} {r : SaveRes} {hd : Bytes}
    (hs : save o os = .ok r) (hok : r.ok = true) (hg : os.Good) (hos : os.content.length < 9223372036854775808)
    (D : ComposeDomain o hd) (hseg : o.segs = []) (hw : NoWrap64 r.obj.secs r.obj.segs)
    (hres : ∀ a ∈ o.secs, ResidentFull a)
    (o2 : Obj) (k : StreamKind) (isLazy : Bool) (htr2 : o2.trans = []) :
    ∃ (r2 : LoadRes) (r3 : SaveRes), load o2 { data := r.os.content, kind := k } isLazy = .ok r2 ∧ r2.ok = true ∧
      save r2.obj os = .ok r3 ∧ r3.ok = true ∧ r3.os = r.os := by
  obtain ⟨hF, r2, hhF, hload, hok2, R⟩ := reload_reports_saved_noseg hs hok hg hos D hseg hw o2 k isLazy htr2
  have hsegIdx := idx_of_B Seg.index o.segs D.input.segIdx
  obtain ⟨fsec, fseg, ec, ee, et⟩ := C05.save_writes_fields hs hok hsegIdx
  have hlen : ehdrSize o.cls ≤ hd.length := by rw [D.input.ident.len]; exact Nat.le_refl _
  -- saving the saved object again reproduces the result
  have hagain := C06.save_twice_no_segments hseg D.hdr hlen hs hok
  have hf : os.fail = false := hg.1
  have hsegY : r.obj.segs = [] := by
    have := fseg.1; rw [hseg] at this; exact List.eq_nil_of_length_eq_zero this
  have hsegX : r2.obj.segs = [] := by
    have := R.nseg; rw [hsegY] at this; exact List.eq_nil_of_length_eq_zero this
  rw [C06.save_noseg_eq hsegY hhF hf] at hagain
  -- the saved sections are resident
  have hresY : ∀ b ∈ r.obj.secs, ResidentFull b := by
    intro b hb
    obtain ⟨i, hi⟩ := List.getElem?_of_mem hb
    have hil : i < o.secs.length := by rw [← fsec.1]; exact getElem?_lt hi
    exact (fileBytesOf_saved (fsec.2 i _ b (List.getElem?_eq_getElem hil) hi)
      (hres _ (List.getElem_mem hil))).1
  have hrel := preRes_outRel (X := r2.obj) (Y := r.obj) R hresY
  have fX := preRes_frame r2.obj
  have fY := preRes_frame r.obj
  have hc : (preRes r2.obj).cls = (preRes r.obj).cls := by
    show r2.obj.cls = r.obj.cls; rw [R.clsEq, ec]
  have he : (preRes r2.obj).enc = (preRes r.obj).enc := by
    show r2.obj.enc = r.obj.enc; rw [R.encEq, ee]
  have ht : (preRes r2.obj).trans = (preRes r.obj).trans := by
    show r2.obj.trans = r.obj.trans; rw [R.trans, et, D.tr]
  have hh0 : Sv.saveHdr0 (preRes r2.obj) hF = Sv.saveHdr0 (preRes r.obj) hF :=
    C06.saveHdr0_congr hc he (by show r2.obj.segs.length = r.obj.segs.length; rw [hsegX, hsegY])
      (by rw [fX.1, fY.1]; exact R.nsec) hF
  have hpos : (Sv.saveLay0 (preRes r2.obj) (Sv.saveHdr0 (preRes r2.obj) hF)).pos =
      (Sv.saveLay0 (preRes r.obj) (Sv.saveHdr0 (preRes r.obj) hF)).pos := by
    unfold Sv.saveLay0 Sv.savePos0
    simp only [hh0, hc, he]
  obtain ⟨eos, eok⟩ := saveTail_os_congr hc he ht os (Sv.saveHdr0 (preRes r.obj) hF)
    (layX := Sv.saveLay0 (preRes r2.obj) (Sv.saveHdr0 (preRes r2.obj) hF))
    (layY := Sv.saveLay0 (preRes r.obj) (Sv.saveHdr0 (preRes r.obj) hF)) hrel hpos
  injection hagain with hagain
  rw [hh0] at eos eok
  refine ⟨r2, _, hload, hok2, C06.save_noseg_eq hsegX R.hdr hf, ?_, ?_⟩
  · rw [hh0, eok, hagain]; exact hok
  · rw [hh0, eos, hagain]

/-- non-vacuity: the segment-less example object (its data are resident) -/
example (k : StreamKind) (isLazy : Bool) :
    ∃ (r2 : LoadRes) (r3 : SaveRes),
      load {} { data := (savedOf (objOf exNosegM)).os.content, kind := k } isLazy = .ok r2 ∧ r2.ok = true ∧
      save r2.obj {} = .ok r3 ∧ r3.ok = true ∧ r3.os = (savedOf (objOf exNosegM)).os :=
  save_load_save_noseg exNoseg_ok.saved exNoseg_ok.ok ⟨rfl, rfl⟩ (by decide) exNoseg_ok.dom.toComposeDomain
    (by decide +kernel) exNoseg_ok.noWrap (by decide +kernel) {} k isLazy rfl

end ElfioVerif.Compose
