/-
"The reader reports what the ELF specification says" for the TABLES of a loaded file, part 2 (continues
Props/ComposeTables.lean; same state `LoadedFrom img o`, same style: every theorem returns `LoadedFrom` for the
object it leaves, has explicit decidable hypotheses and an `example` on a concrete image).

  §1  byvalue_reports_spec, byname_reports_spec (the code as it is: `TQ.runQuery`, fixed hash walks, ANY hash section),
      byname_model_reports_spec (C09's accessor model `SymTab.getByName` with a well-formed SysV / GNU hash section)
  §2  modinfo_reports_spec
  §3  verneed_reports_spec, verdef_reports_spec
  §4  reloc_resolved_reports_spec (relocation `get_entry` with symbol resolution = `reloc_reports_spec` ∘
      `symbols_reports_spec`), reloc_resolved_nosymtab
  §5  truncated files (C17): prefixLoadedC_of_load, prefix_secResident_c, pready_inv; prefix_array_sound,
      prefix_versym_sound, prefix_notes_sound, prefix_reloc_sound, prefix_dynamic_sound (+ `exDynView`: the three cases
      of the dynamic accessor computed on concrete prefixes of `exImg4` that load)
Images: `exImg` (Props/ComposeTables.lean), `exImg2` (SysV hash, modinfo, verneed/verdef, REL linked to `.symtab`),
`exImg3` (= `exImg2` with the relocation section's `sh_link` out of range), `exImg4` (section data behind the header table).
-/
import ElfioVerif.Lemmas.LoadedTables2
set_option linter.unusedSimpArgs false
set_option linter.unusedVariables false
namespace ElfioVerif.ComposeTables
open Gen C02 Inspect LoadedTables

/-! ### the second example image

ELF32 / LSB, 712 bytes: `.strtab` (1), `.symtab` (2, link 1: null, "foo" = 0x1000, "bar" = 0x2000), `.hash` (3, SysV,
link 2, built by the gABI construction with 2 buckets), `.rel.x` (4, SHT_REL, link 2; the third entry names symbol 7,
which the table does not have), `.modinfo` (5), `.gnu.version_r` (6, link 1), `.gnu.version_d` (7, link 1),
`.shstrtab` (8).  Built by an independent Python script from the gABI / GNU field tables. -/

def exImg2 : Bytes :=
  [127, 69, 76, 70, 1, 1, 1, 0, 0, 0, 0, 0, 0, 0, 0, 0, 1, 0, 3, 0, 1, 0, 0, 0, 0, 0, 0, 0, 0, 0, 0, 0, 96, 1, 0, 0, 0, 0, 0, 0, 52, 0, 0, 0, 0, 0, 40, 0, 9, 0, 8, 0, 0, 102, 111, 111, 0, 98, 97, 114, 0, 108, 105, 98, 99, 46, 115, 111, 46, 54, 0, 71, 76, 73, 66, 67, 95, 50, 46, 48, 0, 118, 101, 114, 49, 0, 0, 0, 0, 0, 0, 0, 0, 0, 0, 0, 0, 0, 0, 0, 0, 0, 0, 0, 1, 0, 0, 0, 0, 16, 0, 0, 4, 0, 0, 0, 18, 0, 3, 0, 5, 0, 0, 0, 0, 32, 0, 0, 8, 0, 0, 0, 1, 2, 241, 255, 2, 0, 0, 0, 3, 0, 0, 0, 2, 0, 0, 0, 1, 0, 0, 0, 0, 0, 0, 0, 0, 0, 0, 0, 0, 0, 0, 0, 16, 0, 0, 0, 1, 1, 0, 0, 32, 0, 0, 0, 2, 2, 0, 0, 48, 0, 0, 0, 1, 7, 0, 0, 108, 105, 99, 101, 110, 115, 101, 61, 71, 80, 76, 0, 97, 117, 116, 104, 111, 114, 61, 109, 101, 0, 0, 0, 1, 0, 1, 0, 9, 0, 0, 0, 16, 0, 0, 0, 0, 0, 0, 0, 16, 105, 105, 13, 0, 0, 2, 0, 19, 0, 0, 0, 0, 0, 0, 0, 1, 0, 1, 0, 1, 0, 1, 0, 49, 92, 123, 10, 20, 0, 0, 0, 0, 0, 0, 0, 29, 0, 0, 0, 0, 0, 0, 0, 0, 46, 115, 116, 114, 116, 97, 98, 0, 46, 115, 121, 109, 116, 97, 98, 0, 46, 104, 97, 115, 104, 0, 46, 114, 101, 108, 46, 120, 0, 46, 109, 111, 100, 105, 110, 102, 111, 0, 46, 103, 110, 117, 46, 118, 101, 114, 115, 105, 111, 110, 95, 114, 0, 46, 103, 110, 117, 46, 118, 101, 114, 115, 105, 111, 110, 95, 100, 0, 46, 115, 104, 115, 116, 114, 116, 97, 98, 0, 0, 0, 0, 0, 0, 0, 0, 0, 0, 0, 0, 0, 0, 0, 0, 0, 0, 0, 0, 0, 0, 0, 0, 0, 0, 0, 0, 0, 0, 0, 0, 0, 0, 0, 0, 0, 0, 0, 0, 0, 0, 1, 0, 0, 0, 3, 0, 0, 0, 0, 0, 0, 0, 0, 0, 0, 0, 52, 0, 0, 0, 34, 0, 0, 0, 0, 0, 0, 0, 0, 0, 0, 0, 1, 0, 0, 0, 0, 0, 0, 0, 9, 0, 0, 0, 2, 0, 0, 0, 0, 0, 0, 0, 0, 0, 0, 0, 88, 0, 0, 0, 48, 0, 0, 0, 1, 0, 0, 0, 2, 0, 0, 0, 1, 0, 0, 0, 16, 0, 0, 0, 17, 0, 0, 0, 5, 0, 0, 0, 0, 0, 0, 0, 0, 0, 0, 0, 136, 0, 0, 0, 28, 0, 0, 0, 2, 0, 0, 0, 0, 0, 0, 0, 1, 0, 0, 0, 4, 0, 0, 0, 23, 0, 0, 0, 9, 0, 0, 0, 0, 0, 0, 0, 0, 0, 0, 0, 164, 0, 0, 0, 24, 0, 0, 0, 2, 0, 0, 0, 0, 0, 0, 0, 1, 0, 0, 0, 8, 0, 0, 0, 30, 0, 0, 0, 1, 0, 0, 0, 0, 0, 0, 0, 0, 0, 0, 0, 188, 0, 0, 0, 22, 0, 0, 0, 0, 0, 0, 0, 0, 0, 0, 0, 1, 0, 0, 0, 0, 0, 0, 0, 39, 0, 0, 0, 254, 255, 255, 111, 0, 0, 0, 0, 0, 0, 0, 0, 212, 0, 0, 0, 32, 0, 0, 0, 1, 0, 0, 0, 1, 0, 0, 0, 1, 0, 0, 0, 0, 0, 0, 0, 54, 0, 0, 0, 253, 255, 255, 111, 0, 0, 0, 0, 0, 0, 0, 0, 244, 0, 0, 0, 28, 0, 0, 0, 1, 0, 0, 0, 1, 0, 0, 0, 1, 0, 0, 0, 0, 0, 0, 0, 69, 0, 0, 0, 3, 0, 0, 0, 0, 0, 0, 0, 0, 0, 0, 0, 16, 1, 0, 0, 79, 0, 0, 0, 0, 0, 0, 0, 0, 0, 0, 0, 1, 0, 0, 0, 0, 0, 0, 0]

theorem exImg2_wf : WellFormedImage exImg2 := by decide +kernel
example : eh exImg2 "e_shnum" = 9 ∧ clsOf exImg2 = .c32 ∧ encOf exImg2 = .lsb := by decide +kernel
example : hashIdx exImg2 2 = 3 ∧ hashIdx exImg 2 = 0 := by decide +kernel

/-! ### 1. symbol lookup by value and by name (C09, C18) -/

/-- the class / byte order of the image as the accessors' configuration -/
def cfgOf (img : Bytes) : Cfg := ⟨clsOf img, encOf img⟩

instance (cfg : Cfg) (symB strB : Bytes) : Decidable (SymTab.ValidNames cfg symB strB) := by
  unfold SymTab.ValidNames; infer_instance

/-- what the gABI says `get_symbol(value, name, size, bind, type, section_index, other)` finds in the table of
    section `i`: the FIRST record whose `st_value` is `v` — true, its name from the linked table (left empty when
    there is none) and its attributes (`value` is not an out-parameter of this overload) — or false with the
    out-parameters untouched -/
def specByValue (img : Bytes) (i : Nat) (v : BitVec 64) : Bool × Bytes × Attrs :=
  match Spec.lookupValue (SymTab.valuesOf (cfgOf img) (secFileBytes img i)) v.toNat with
  | none => (false, [], {})
  | some j => (true, (SymTab.nameAt (cfgOf img) (secFileBytes img i) (linkedBytes img i) j).getD [],
      { SymTab.attrsOfRec (SymTab.recAt (cfgOf img) (secFileBytes img i) j) with value := 0 })

/-- **byvalue_reports_spec** : for a symbol table `i` as in `symbols_reports_spec` (occupies file space, entry size
    `sizeof(ElfN_Sym)` of the class, `sh_link` names nothing or a file-occupying section), whatever hash section
    accompanies it, `symbol_section_accessor(elf, sections[i]).get_symbol(value, …)` on the loaded object is, for
    EVERY 64-bit `value`, the linear scan of the records decoded from the section's file bytes: the first entry with
    that `st_value` (`Spec.lookupValue`), its name and attributes; false when there is none. -/
theorem byvalue_reports_spec (img : Bytes) (hwf : WellFormedImage img) (o : Obj) (hL : LoadedFrom img o) (i : Nat)
    (hi : i < eh img "e_shnum") (hocc : occupiesFile (sh img i "sh_type") = true)
    (hent : sh img i "sh_entsize" = Spec.symSize (clsOf img)) (hlink : LinkOk img i) (v : BitVec 64) :
    ∃ o2, TQ.runQuery o (.symByValue i v) = .ok (o2, .byValue (specByValue img i v)) ∧ LoadedFrom img o2 ∧
      o2.segs = o.segs := by
  obtain ⟨o2, t, h1, hL2, hseg, hcfg, hW, _⟩ := symTabFor_wf img hwf o hL i hi hocc hent hlink
  refine ⟨o2, ?_, hL2, hseg⟩
  have hg := C09.lookup_value hW v [] {}
  rw [hcfg] at hg
  simp only [TQ.runQuery, h1, TQ.getByValue, hg, TQ.liftQ, specByValue, cfgOf]
  cases Spec.lookupValue (SymTab.valuesOf ⟨clsOf img, encOf img⟩ (secFileBytes img i)) v.toNat <;> rfl

example (k : StreamKind) (isLazy : Bool) :
    ∃ r : LoadRes, load {} { data := exImg2, kind := k } isLazy = .ok r ∧
      ∀ v : BitVec 64, ∃ o1, TQ.runQuery r.obj (.symByValue 2 v) = .ok (o1, .byValue (specByValue exImg2 2 v)) := by
  obtain ⟨r, h1, _, h3⟩ := of_load exImg2 {} k isLazy rfl exImg2_wf
  refine ⟨r, h1, fun v => ?_⟩
  obtain ⟨o1, h, _⟩ := byvalue_reports_spec exImg2 exImg2_wf r.obj h3 2 (by decide +kernel) (by decide +kernel)
    (by decide +kernel) (by decide +kernel) v
  exact ⟨o1, h⟩
example : (specByValue exImg2 2 0x2000#64).1 = true ∧ (specByValue exImg2 2 0x2000#64).2.1 = [0x62, 0x61, 0x72] ∧
    (specByValue exImg2 2 0x2000#64).2.2.size = 8#64 ∧ (specByValue exImg2 2 0x2000#64).2.2.shndx = 0xfff1#16 ∧
    specByValue exImg2 2 0x3000#64 = (false, [], {}) := by decide +kernel

/-- what a by-name lookup in the table of section `i` must answer (`C09.lookup_name`'s conclusion on the image's
    bytes): found exactly when some record carries the name (`Spec.lookupName` over the names in table order); when
    found, the attributes are those of a record with that name; when the name is unique in the table, those of the
    first (= only) such record -/
def ByNameSpec (img : Bytes) (i : Nat) (name : Bytes) (r : Bool) (a' : Attrs) : Prop :=
  (r = true ↔ (Spec.lookupName (SymTab.namesOfTable (cfgOf img) (secFileBytes img i) (linkedBytes img i)) name).isSome
    = true) ∧
  (r = true → SymTab.SymAt (cfgOf img) (secFileBytes img i) (linkedBytes img i) name a') ∧
  ((∀ j j', j < SymTab.countOf (clsOf img) (secFileBytes img i) → j' < SymTab.countOf (clsOf img) (secFileBytes img i) →
      SymTab.nameAt (cfgOf img) (secFileBytes img i) (linkedBytes img i) j = some name →
      SymTab.nameAt (cfgOf img) (secFileBytes img i) (linkedBytes img i) j' = some name → j = j') →
    r = true → ∃ j0, Spec.lookupName (SymTab.namesOfTable (cfgOf img) (secFileBytes img i) (linkedBytes img i)) name
        = some j0 ∧
      a' = SymTab.attrsOfRec (SymTab.recAt (cfgOf img) (secFileBytes img i) j0))

/-- **byname_reports_spec** (the code as it is after fixes/11–13: `TQ.runQuery … (.symByName i name)` = the hash
    section `find_hash_section()` finds, the guarded SysV / GNU walks, the unconditional linear fallback): for a
    symbol table `i` as in `symbols_reports_spec` whose `st_name` offsets all lead to terminated strings
    (`ValidNames`, decidable) in an image shorter than 4 GiB, `get_symbol(name, …)` on the loaded object RETURNS for
    EVERY name — whatever the contents of the hash section are — and answers like the linear scan (`ByNameSpec`). -/
theorem byname_reports_spec (img : Bytes) (hwf : WellFormedImage img) (o : Obj) (hL : LoadedFrom img o) (i : Nat)
    (hi : i < eh img "e_shnum") (hocc : occupiesFile (sh img i "sh_type") = true)
    (hent : sh img i "sh_entsize" = Spec.symSize (clsOf img)) (hlink : LinkOk img i)
    (hv : SymTab.ValidNames (cfgOf img) (secFileBytes img i) (linkedBytes img i))
    (hlen : img.length < 4294967296) (name : Bytes) :
    ∃ o2 r a', TQ.runQuery o (.symByName i name) = .ok (o2, .byName (r, a')) ∧ LoadedFrom img o2 ∧
      o2.segs = o.segs ∧ ByNameSpec img i name r a' := by
  obtain ⟨o2, t, h1, hL2, hseg, hcfg, hW, hRs, hRstr, hh0, hh1⟩ := symTabFor_wf img hwf o hL i hi hocc hent hlink
  have hv' : SymTab.ValidNames t.cfg (secFileBytes img i) (linkedBytes img i) := by rw [hcfg]; exact hv
  have hTab : C18.TabOk t := by
    refine ⟨hRs.sec, fun s hs => (hRstr s hs).2.sec, ?_⟩
    intro h hh
    by_cases hz : hashIdx img i = 0
    · rw [hh0 hz] at hh; cases hh
    · obtain ⟨h', e, hR⟩ := hh1 hz
      rw [e] at hh; cases hh; exact hR.sec
  have hSmall : ∀ h, t.hash = some h → C18.Small h := by
    intro h hh
    by_cases hz : hashIdx img i = 0
    · rw [hh0 hz] at hh; cases hh
    · obtain ⟨h', e, hR⟩ := hh1 hz
      rw [e] at hh; cases hh
      exact hR.small hwf (hashIdx_spec img i hz).1 hlen
  obtain ⟨⟨r, a'⟩, e⟩ := C18.sym_by_name_total t hTab hSmall name {}
  have hs := TQSound.lookup_name hW hv' name {} r a' e
  rw [hcfg] at hs
  refine ⟨o2, r, a', ?_, hL2, hseg, hs⟩
  simp only [TQ.runQuery, h1, e, TQ.liftQ]; rfl

example : SymTab.ValidNames (cfgOf exImg2) (secFileBytes exImg2 2) (linkedBytes exImg2 2) := by decide +kernel
example (k : StreamKind) (isLazy : Bool) :
    ∃ r : LoadRes, load {} { data := exImg2, kind := k } isLazy = .ok r ∧
      ∀ name : Bytes, ∃ o1 ret a', TQ.runQuery r.obj (.symByName 2 name) = .ok (o1, .byName (ret, a')) ∧
        ByNameSpec exImg2 2 name ret a' := by
  obtain ⟨r, h1, _, h3⟩ := of_load exImg2 {} k isLazy rfl exImg2_wf
  refine ⟨r, h1, fun name => ?_⟩
  obtain ⟨o1, ret, a', h, _, _, hs⟩ := byname_reports_spec exImg2 exImg2_wf r.obj h3 2 (by decide +kernel)
    (by decide +kernel) (by decide +kernel) (by decide +kernel) (by decide +kernel) (by decide +kernel) name
  exact ⟨o1, ret, a', h, hs⟩
/-- "bar" is entry 2 of the table, "baz" is not in it -/
example : Spec.lookupName (SymTab.namesOfTable (cfgOf exImg2) (secFileBytes exImg2 2) (linkedBytes exImg2 2))
      [0x62, 0x61, 0x72] = some 2 ∧
    Spec.lookupName (SymTab.namesOfTable (cfgOf exImg2) (secFileBytes exImg2 2) (linkedBytes exImg2 2))
      [0x62, 0x61, 0x7a] = none ∧
    (SymTab.attrsOfRec (SymTab.recAt (cfgOf exImg2) (secFileBytes exImg2 2) 2)).value = 0x2000#64 := by decide +kernel


/-- the hash section of the symbol table `i` (if there is one) holds a table that is well-formed for its type:
    SHT_HASH with `SysvWf`, or SHT_GNU_HASH with `GnuWf` for some chain length (C09's predicates on the section's file
    bytes; what the ABI constructions produce: `C09.abi_hash_walk_safe`) -/
def HashSecOk (img : Bytes) (i : Nat) : Prop :=
  hashIdx img i = 0 ∨
  (hashIdx img i ≠ 0 ∧ sh img (hashIdx img i) "sh_type" = 5 ∧
    SymTab.SysvWf (encOf img) (secFileBytes img (hashIdx img i))) ∨
  (hashIdx img i ≠ 0 ∧
    (sh img (hashIdx img i) "sh_type" = 0x6ffffff6 ∨ sh img (hashIdx img i) "sh_type" = 0x6ffffef5) ∧
    ∃ nch, SymTab.GnuWf (encOf img) (clsOf img) (secFileBytes img (hashIdx img i)) nch)

/-- **byname_model_reports_spec** (C09's accessor model `SymTab.getByName`: the hash walks WITHOUT the guards of
    fixes/11–13, which may fault or spin on a malformed hash section): on the accessor `TQ.symTabFor` builds for the
    symbol table `i` of the loaded object, (a) whenever `get_symbol(name, …)` returns, it answers like the linear scan
    — through ANY hash section (`C09.lookup_name`); (b) when there is no hash section or a well-formed SysV / GNU one
    (`HashSecOk`), it does return (`C09.lookup_name_wellformed`: `hashLookup_total` / `gnuLookup_total`). -/
theorem byname_model_reports_spec (img : Bytes) (hwf : WellFormedImage img) (o : Obj) (hL : LoadedFrom img o) (i : Nat)
    (hi : i < eh img "e_shnum") (hocc : occupiesFile (sh img i "sh_type") = true)
    (hent : sh img i "sh_entsize" = Spec.symSize (clsOf img)) (hlink : LinkOk img i)
    (hv : SymTab.ValidNames (cfgOf img) (secFileBytes img i) (linkedBytes img i)) (name : Bytes) :
    ∃ o2 t, TQ.symTabFor o i = some (o2, t) ∧ LoadedFrom img o2 ∧
      (∀ r a', t.getByName name {} = .ok (r, a') → ByNameSpec img i name r a') ∧
      (HashSecOk img i → ∃ r a', t.getByName name {} = .ok (r, a') ∧ ByNameSpec img i name r a') := by
  obtain ⟨o2, t, h1, hL2, hseg, hcfg, hW, hRs, hRstr, hh0, hh1⟩ := symTabFor_wf img hwf o hL i hi hocc hent hlink
  have hv' : SymTab.ValidNames t.cfg (secFileBytes img i) (linkedBytes img i) := by rw [hcfg]; exact hv
  refine ⟨o2, t, h1, hL2, ?_, ?_⟩
  · intro r a' e
    have := C09.lookup_name hW hv' name {} r a' e
    rw [hcfg] at this; exact this
  · intro hk
    have hHash : SymTab.HashOk t := by
      rcases hk with hz | ⟨hz, hty, hwfS⟩ | ⟨hz, hty, nch, hwfG⟩
      · exact .none (hh0 hz)
      · obtain ⟨h, e, hR⟩ := hh1 hz
        have hocc' : occupiesFile (sh img (hashIdx img i) "sh_type") = true := by rw [hty]; decide
        refine .sysv h _ e (readsAs_ready hR hocc') ?_ (by rw [hcfg]; exact hwfS)
        exact (stype_of_toNat _ _ (hR.stype.trans hty)).trans rfl
      · obtain ⟨h, e, hR⟩ := hh1 hz
        have hocc' : occupiesFile (sh img (hashIdx img i) "sh_type") = true := by
          rcases hty with h | h <;> rw [h] <;> decide
        refine .gnu h _ nch e (readsAs_ready hR hocc') ?_ (by rw [hcfg]; exact hwfG)
        rcases hty with h' | h'
        · exact Or.inl ((stype_of_toNat _ _ (hR.stype.trans h')).trans rfl)
        · exact Or.inr ((stype_of_toNat _ _ (hR.stype.trans h')).trans rfl)
    obtain ⟨r, a', e, hs⟩ := C09.lookup_name_wellformed hW hv' hHash name {}
    rw [hcfg] at hs
    exact ⟨r, a', e, hs⟩

/-- the SysV hash section of the example image (2 buckets, 3 chain entries) is well-formed -/
theorem exImg2_hashSecOk : HashSecOk exImg2 2 := by
  have hidx : hashIdx exImg2 2 = 3 := by decide +kernel
  have hb : secFileBytes exImg2 3 =
      [2,0,0,0, 3,0,0,0, 2,0,0,0, 1,0,0,0, 0,0,0,0, 0,0,0,0, 0,0,0,0] := by decide +kernel
  have he : encOf exImg2 = .lsb := by decide +kernel
  refine Or.inr (Or.inl ⟨by rw [hidx]; decide, by rw [hidx]; decide +kernel, ?_⟩)
  rw [hidx, hb, he]
  refine ⟨by decide, by decide, by decide, ?_⟩
  have h : ∀ y, y < 3 → 1 ≤ y → SymTab.wordAt .lsb
      [2,0,0,0, 3,0,0,0, 2,0,0,0, 1,0,0,0, 0,0,0,0, 0,0,0,0, 0,0,0,0] (2 + 2 + y) < y := by decide
  intro y h1 h2
  have e0 : SymTab.wordAt .lsb [2,0,0,0, 3,0,0,0, 2,0,0,0, 1,0,0,0, 0,0,0,0, 0,0,0,0, 0,0,0,0] 0 = 2 := by decide
  have e1 : SymTab.wordAt .lsb [2,0,0,0, 3,0,0,0, 2,0,0,0, 1,0,0,0, 0,0,0,0, 0,0,0,0, 0,0,0,0] 1 = 3 := by decide
  rw [e0]; rw [e1] at h2
  exact h y h2 h1

example (k : StreamKind) (isLazy : Bool) :
    ∃ r : LoadRes, load {} { data := exImg2, kind := k } isLazy = .ok r ∧
      ∀ name : Bytes, ∃ o1 t ret a', TQ.symTabFor r.obj 2 = some (o1, t) ∧ t.getByName name {} = .ok (ret, a') ∧
        ByNameSpec exImg2 2 name ret a' := by
  obtain ⟨r, h1, _, h3⟩ := of_load exImg2 {} k isLazy rfl exImg2_wf
  refine ⟨r, h1, fun name => ?_⟩
  obtain ⟨o1, t, h, _, _, hs⟩ := byname_model_reports_spec exImg2 exImg2_wf r.obj h3 2 (by decide +kernel)
    (by decide +kernel) (by decide +kernel) (by decide +kernel) (by decide +kernel) name
  obtain ⟨ret, a', e, hb⟩ := hs exImg2_hashSecOk
  exact ⟨o1, t, ret, a', h, e, hb⟩

/-! ### 2. module information (C14: `.modinfo`) -/

instance (a : Bytes × Bytes) : Decidable (Spec.AttrOk a) := by unfold Spec.AttrOk; infer_instance

/-- **modinfo_reports_spec** : for a file-occupying section `i` whose file bytes are the concatenation of
    `field=value\0` records of the attributes `as` (fields free of `=` / NUL, values free of NUL: `Spec.AttrOk`,
    decidable; `hbytes` is decidable for a given `as`), `modinfo_section_accessor(sections[i])` on the loaded object
    holds exactly `as`, in order — which is what the reference reader `Spec.parseModinfo` makes of the section's file
    bytes —, `get_attribute(k, field, value)` is the `k`-th of them for EVERY 32-bit `k` (false beyond the end) and
    `get_attribute(field, value)` the value of the first attribute with that field name (`Spec.lookupFirst`) for
    EVERY name. -/
theorem modinfo_reports_spec (img : Bytes) (hwf : WellFormedImage img) (o : Obj) (hL : LoadedFrom img o) (i : Nat)
    (hi : i < eh img "e_shnum") (hocc : occupiesFile (sh img i "sh_type") = true) (as : List Modinfo.Attr)
    (hok : ∀ a ∈ as, Spec.AttrOk a) (hbytes : secFileBytes img i = Spec.encodeModinfo as) (k : BitVec 32)
    (field : Bytes) :
    ∃ o1, LoadedFrom img o1 ∧ o1.segs = o.segs ∧ as = Spec.parseModinfo (secFileBytes img i) ∧
      inspect o (.modinfo i) = .ok (o1, .attrs as) ∧
      inspect o (.modinfoGet i k) = .ok (o1, .attr as[k.toNat]?) ∧
      inspect o (.modinfoByName i field) = .ok (o1, .value (Spec.lookupFirst as field)) := by
  obtain ⟨o1, b1, h1, hL1, hR1, _, _, hseg, _⟩ := secResident_ready img hwf o hL i hi
  obtain ⟨hinv, hcont⟩ := hR1.inv hocc
  have hp := C14.modinfo_parse b1 hinv as (by rw [hcont, hbytes]) hok
  have hlen : as.length < 18446744073709551616 := by
    have h1 := C14.encodeModinfo_length_ge as
    have h2 := hR1.fileBytes_length hwf hi hocc
    have h3 := (wf_sec img hwf i hi false).2.2.2 hocc
    have h63 := (wf_sec img hwf i hi false).1
    rw [← hbytes, h2] at h1
    omega
  refine ⟨o1, hL1, hseg, by rw [hbytes, C14.spec_parse_encode as hok], ?_, ?_, ?_⟩
  · simp only [inspect, h1, hp]; rfl
  · simp only [inspect, h1, hp, C14.getByIndex_eq as hlen]; rfl
  · simp only [inspect, h1, hp, C14.getByName_eq_lookupFirst]; rfl

/-- the two attributes of the example image: license=GPL, author=me -/
def exAttrs : List Modinfo.Attr :=
  [([0x6c, 0x69, 0x63, 0x65, 0x6e, 0x73, 0x65], [0x47, 0x50, 0x4c]), ([0x61, 0x75, 0x74, 0x68, 0x6f, 0x72], [0x6d, 0x65])]

example (k : StreamKind) (isLazy : Bool) :
    ∃ r : LoadRes, load {} { data := exImg2, kind := k } isLazy = .ok r ∧
      ∀ (idx : BitVec 32) (f : Bytes), ∃ o1, inspect r.obj (.modinfoGet 5 idx) = .ok (o1, .attr exAttrs[idx.toNat]?) ∧
        inspect r.obj (.modinfoByName 5 f) = .ok (o1, .value (Spec.lookupFirst exAttrs f)) := by
  obtain ⟨r, h1, _, h3⟩ := of_load exImg2 {} k isLazy rfl exImg2_wf
  refine ⟨r, h1, fun idx f => ?_⟩
  obtain ⟨o1, _, _, _, _, g1, g2⟩ := modinfo_reports_spec exImg2 exImg2_wf r.obj h3 5 (by decide +kernel)
    (by decide +kernel) exAttrs (by decide) (by decide +kernel) idx f
  exact ⟨o1, g1, g2⟩
example : Spec.parseModinfo (secFileBytes exImg2 5) = exAttrs ∧
    Spec.lookupFirst exAttrs [0x61, 0x75, 0x74, 0x68, 0x6f, 0x72] = some [0x6d, 0x65] := by decide +kernel

/-! ### 3. version requirements and definitions (C14: `.gnu.version_r`, `.gnu.version_d`)

The accessors' entry count `num` (DT_VERNEEDNUM / DT_VERDEFNUM, read from `.dynamic` by the constructor —
`dynamic_reports_spec` says what that read-out is) is a parameter: the statements hold for EVERY count.  The linked
string table is `sections[sh_link]` (the full 32-bit `get_link()`, no `Elf_Half` conversion in these accessors). -/

/-- the two sections a version accessor reads, made resident -/
theorem verSetup_ready (img : Bytes) (hwf : WellFormedImage img) (o : Obj) (hL : LoadedFrom img o) (i : Nat)
    (hi : i < eh img "e_shnum") (hl : sh img i "sh_link" < eh img "e_shnum") :
    ∃ o1 b1 o2 s, secResident o i = some (o1, b1) ∧ secResident o1 b1.link.toNat = some (o2, s) ∧
      LoadedFrom img o2 ∧ o2.segs = o.segs ∧ SecReady img i b1 ∧ SecReady img (sh img i "sh_link") s := by
  obtain ⟨o1, b1, h1, hL1, hR1, _, _, hs1, _⟩ := secResident_ready img hwf o hL i hi
  obtain ⟨o2, s, h2, hL2, hR2, _, _, hs2, _⟩ := secResident_ready img hwf o1 hL1 _ hl
  exact ⟨o1, b1, o2, s, h1, by rw [hR1.link]; exact h2, hL2, hs2.trans hs1, hR1, hR2⟩

/-- **verneed_reports_spec** : for a file-occupying section `i` whose `sh_link` names a file-occupying section of
    the file, `versym_r_section_accessor(elf, sections[i]).get_entry(no, version, file_name, hash, flags, other,
    dep_name)` on the loaded object (for every cached count `num`): for `no ≥ num` false; for `no < num`, whenever
    the GNU-ABI reference reader `Spec.needView` succeeds on the FILE BYTES of the section and of the linked string
    table (follow `vn_next` `no` times from the section start, decode the `Verneed` record and its first `Vernaux`
    record in the file's byte order, resolve both names in the string table), exactly that entry. -/
theorem verneed_reports_spec (img : Bytes) (hwf : WellFormedImage img) (o : Obj) (hL : LoadedFrom img o) (i : Nat)
    (hi : i < eh img "e_shnum") (hocc : occupiesFile (sh img i "sh_type") = true)
    (hl : sh img i "sh_link" < eh img "e_shnum")
    (hlocc : occupiesFile (sh img (sh img i "sh_link") "sh_type") = true) (num no : BitVec 32) :
    ∃ o1 b1 o2 s, secResident o i = some (o1, b1) ∧ secResident o1 b1.link.toNat = some (o2, s) ∧
      LoadedFrom img o2 ∧ o2.segs = o.segs ∧
      (num.toNat ≤ no.toNat → Verneed.getEntry (encOf img) b1 (some s) num no = .ok none) ∧
      (∀ v, no.toNat < num.toNat →
        Spec.needView (encOf img) (secFileBytes img i) (secFileBytes img (sh img i "sh_link")) no.toNat = some v →
        Verneed.getEntry (encOf img) b1 (some s) num no =
          .ok (some { version := BitVec.ofNat 16 v.version, file := v.file, hash := BitVec.ofNat 32 v.hash,
                      flags := BitVec.ofNat 16 v.flags, other := BitVec.ofNat 16 v.other, name := v.name })) := by
  obtain ⟨o1, b1, o2, s, h1, h2, hL2, hseg, hR1, hR2⟩ := verSetup_ready img hwf o hL i hi hl
  obtain ⟨hI, hc⟩ := hR1.inv hocc
  obtain ⟨hS, hcs⟩ := hR2.inv hlocc
  refine ⟨o1, b1, o2, s, h1, h2, hL2, hseg, C14.verneed_get_absent _ _ _ _ _, ?_⟩
  intro v hno hv
  exact C14.verneed_get_eq_spec (encOf img) b1 s hI hS num no hno v (by rw [hc, hcs]; exact hv)

/-- **verdef_reports_spec** : the same for `versym_d_section_accessor(elf, sections[i]).get_entry(no, flags,
    version_index, hash, dep_name)` and the reference reader `Spec.defView` (`vd_next` chain, first `Verdaux`). -/
theorem verdef_reports_spec (img : Bytes) (hwf : WellFormedImage img) (o : Obj) (hL : LoadedFrom img o) (i : Nat)
    (hi : i < eh img "e_shnum") (hocc : occupiesFile (sh img i "sh_type") = true)
    (hl : sh img i "sh_link" < eh img "e_shnum")
    (hlocc : occupiesFile (sh img (sh img i "sh_link") "sh_type") = true) (num no : BitVec 32) :
    ∃ o1 b1 o2 s, secResident o i = some (o1, b1) ∧ secResident o1 b1.link.toNat = some (o2, s) ∧
      LoadedFrom img o2 ∧ o2.segs = o.segs ∧
      (num.toNat ≤ no.toNat → Verdef.getEntry (encOf img) b1 (some s) num no = .ok none) ∧
      (∀ v, no.toNat < num.toNat →
        Spec.defView (encOf img) (secFileBytes img i) (secFileBytes img (sh img i "sh_link")) no.toNat = some v →
        Verdef.getEntry (encOf img) b1 (some s) num no =
          .ok (some { flags := BitVec.ofNat 16 v.flags, ndx := BitVec.ofNat 16 v.ndx,
                      hash := BitVec.ofNat 32 v.hash, name := v.name })) := by
  obtain ⟨o1, b1, o2, s, h1, h2, hL2, hseg, hR1, hR2⟩ := verSetup_ready img hwf o hL i hi hl
  obtain ⟨hI, hc⟩ := hR1.inv hocc
  obtain ⟨hS, hcs⟩ := hR2.inv hlocc
  refine ⟨o1, b1, o2, s, h1, h2, hL2, hseg, C14.verdef_get_absent _ _ _ _ _, ?_⟩
  intro v hno hv
  exact C14.verdef_get_eq_spec (encOf img) b1 s hI hS num no hno v (by rw [hc, hcs]; exact hv)

/-- the example image: one requirement (libc.so.6, GLIBC_2.0, version index 2) and one definition (ver1, index 1) -/
example : Spec.needView (encOf exImg2) (secFileBytes exImg2 6) (secFileBytes exImg2 1) 0 =
      some ⟨1, [0x6c, 0x69, 0x62, 0x63, 0x2e, 0x73, 0x6f, 0x2e, 0x36], 0x0d696910, 0, 2,
        [0x47, 0x4c, 0x49, 0x42, 0x43, 0x5f, 0x32, 0x2e, 0x30]⟩ ∧
    Spec.defView (encOf exImg2) (secFileBytes exImg2 7) (secFileBytes exImg2 1) 0 =
      some ⟨1, 1, 0x0a7b5c31, [0x76, 0x65, 0x72, 0x31]⟩ := by decide +kernel
example (k : StreamKind) (isLazy : Bool) :
    ∃ r : LoadRes, load {} { data := exImg2, kind := k } isLazy = .ok r ∧
      ∃ o1 b1 o2 s, secResident r.obj 6 = some (o1, b1) ∧ secResident o1 b1.link.toNat = some (o2, s) ∧
        Verneed.getEntry (encOf exImg2) b1 (some s) 1 0 =
          .ok (some ⟨1, [0x6c, 0x69, 0x62, 0x63, 0x2e, 0x73, 0x6f, 0x2e, 0x36], 0x0d696910, 0, 2,
            [0x47, 0x4c, 0x49, 0x42, 0x43, 0x5f, 0x32, 0x2e, 0x30]⟩) ∧
        ∀ no : BitVec 32, 1 ≤ no.toNat → Verneed.getEntry (encOf exImg2) b1 (some s) 1 no = .ok none := by
  obtain ⟨r, h1, _, h3⟩ := of_load exImg2 {} k isLazy rfl exImg2_wf
  refine ⟨r, h1, ?_⟩
  have hview : Spec.needView (encOf exImg2) (secFileBytes exImg2 6) (secFileBytes exImg2 (sh exImg2 6 "sh_link")) 0 =
      some ⟨1, [0x6c, 0x69, 0x62, 0x63, 0x2e, 0x73, 0x6f, 0x2e, 0x36], 0x0d696910, 0, 2,
        [0x47, 0x4c, 0x49, 0x42, 0x43, 0x5f, 0x32, 0x2e, 0x30]⟩ := by decide +kernel
  obtain ⟨o1, b1, o2, s, g1, g2, _, _, _, g4⟩ := verneed_reports_spec exImg2 exImg2_wf r.obj h3 6 (by decide +kernel)
    (by decide +kernel) (by decide +kernel) (by decide +kernel) 1 0
  refine ⟨o1, b1, o2, s, g1, g2, g4 _ (by decide) hview, ?_⟩
  intro no hno
  obtain ⟨o1', b1', o2', s', g1', g2', _, _, g3', _⟩ := verneed_reports_spec exImg2 exImg2_wf r.obj h3 6
    (by decide +kernel) (by decide +kernel) (by decide +kernel) (by decide +kernel) 1 no
  rw [g1] at g1'; cases g1'
  rw [g2] at g2'; cases g2'
  exact g3' hno
example (k : StreamKind) (isLazy : Bool) :
    ∃ r : LoadRes, load {} { data := exImg2, kind := k } isLazy = .ok r ∧
      ∃ o1 b1 o2 s, secResident r.obj 7 = some (o1, b1) ∧ secResident o1 b1.link.toNat = some (o2, s) ∧
        Verdef.getEntry (encOf exImg2) b1 (some s) 1 0 = .ok (some ⟨1, 1, 0x0a7b5c31, [0x76, 0x65, 0x72, 0x31]⟩) := by
  obtain ⟨r, h1, _, h3⟩ := of_load exImg2 {} k isLazy rfl exImg2_wf
  refine ⟨r, h1, ?_⟩
  have hview : Spec.defView (encOf exImg2) (secFileBytes exImg2 7) (secFileBytes exImg2 (sh exImg2 7 "sh_link")) 0 =
      some ⟨1, 1, 0x0a7b5c31, [0x76, 0x65, 0x72, 0x31]⟩ := by decide +kernel
  obtain ⟨o1, b1, o2, s, g1, g2, _, _, _, g4⟩ := verdef_reports_spec exImg2 exImg2_wf r.obj h3 7 (by decide +kernel)
    (by decide +kernel) (by decide +kernel) (by decide +kernel) 1 0
  exact ⟨o1, b1, o2, s, g1, g2, g4 _ (by decide) hview⟩

/-! ### 4. relocation `get_entry` with symbol resolution (C11 ∘ C09, through C18's `TQ.runQuery`) -/

/-- `get_entry(index, offset, symbolValue, symbolName, type, addend, calcValue)` composed from its two parts: the
    relocation record `r` (`none`: no such entry) and the by-index read-out `sym` of the symbol table `sh_link`
    names.  `calcValue` is the `switch ( type )` of the accessor (i386 relocation arithmetic, `TQ.relCalc`: generated
    from the source), computed only when the symbol was found. -/
def resolvedOf (r : Option Reloc.Entry) (sym : Nat → SymOut) : TQ.Resolved :=
  match r with
  | none => { ret := false }
  | some e =>
    { ret := (sym e.symbol.toNat).ret, offset := e.offset, symValue := (sym e.symbol.toNat).attrs.value,
      symName := (sym e.symbol.toNat).name, type := e.type, addend := e.addend,
      calcValue := if (sym e.symbol.toNat).ret then
        TQ.relCalc e.type (sym e.symbol.toNat).attrs.value e.addend e.offset else 0 }

/-- the relocation record C18's query model reads on a relocation section with C07's invariant whose content is the
    section's file bytes and whose header fields are the specification's -/
theorem tq_relGet_core (img : Bytes) (i : Nat) (b1 : SecBuf) (kind : Spec.RelKind)
    (hinv : b1.Inv) (hcont : b1.content = secFileBytes img i) (hcls : b1.cls = clsOf img)
    (hst : b1.stype.toNat = sh img i "sh_type") (hes : b1.entSize.toNat = sh img i "sh_entsize")
    (hsz : b1.size.toNat = sh img i "sh_size") (hgd : b1.getData = b1) (hdata : (secData b1).isNone = false)
    (hty : sh img i "sh_type" = relShType kind)
    (hent : Spec.entSize (clsOf img) kind ≤ sh img i "sh_entsize") (k : BitVec 64) :
    ∃ r, TQ.relGet (encOf img) b1 k = .ok r ∧ r.map Reloc.Entry.toSpec = specReloc img i kind k.toNat := by
  have hRS : C11.RelocSec (clsOf img) kind b1 :=
    ⟨hinv, hcls, by
      apply (stype_of_toNat _ _ (hst.trans hty)).trans
      cases kind <;> rfl, by rw [hes]; exact hent⟩
  by_cases hk : k.toNat < sh img i "sh_size" / sh img i "sh_entsize"
  · obtain ⟨e, he, hs⟩ := C11.get_refines (clsOf img) kind (encOf img) b1 hRS k (by rw [hsz, hes]; exact hk)
    rw [hgd] at he
    refine ⟨some e, tq_relGet_eq (clsOf img) kind (encOf img) b1 b1 _ hRS hdata k he, ?_⟩
    simp only [Option.map_some, specReloc, hk, if_true, hs, hcont, hes]
  · refine ⟨none, tq_relGet_eq (clsOf img) kind (encOf img) b1 b1 _ hRS hdata k
      (C11.get_invalid (encOf img) b1 k (by rw [hsz, hes]; omega)), ?_⟩
    simp only [Option.map_none, specReloc, hk, if_false]

theorem tq_relGet_ready (img : Bytes) (hwf : WellFormedImage img) (i : Nat) (hi : i < eh img "e_shnum") (b1 : SecBuf)
    (hR1 : SecReady img i b1) (kind : Spec.RelKind) (hty : sh img i "sh_type" = relShType kind)
    (hent : Spec.entSize (clsOf img) kind ≤ sh img i "sh_entsize") (k : BitVec 64) :
    ∃ r, TQ.relGet (encOf img) b1 k = .ok r ∧ r.map Reloc.Entry.toSpec = specReloc img i kind k.toNat := by
  have hocc : occupiesFile (sh img i "sh_type") = true := by rw [hty]; cases kind <;> decide
  obtain ⟨hinv, hcont⟩ := hR1.inv hocc
  have hdata : (secData b1).isNone = false := by
    unfold secData; rw [hR1.getData]
    have := (hR1.resident hocc).2
    cases hd : b1.data <;> simp_all
  exact tq_relGet_core img i b1 kind hinv hcont hR1.cls hR1.stype hR1.entSize hR1.size hR1.getData hdata hty hent k

/-- **reloc_resolved_reports_spec** : for a relocation section `i` as in `reloc_reports_spec` (SHT_REL / SHT_RELA,
    `sizeof(Rel/Rela) ≤ sh_entsize`) whose `(Elf_Half) sh_link` names a symbol table of the file as in
    `symbols_reports_spec` (occupies file space, entry size `sizeof(ElfN_Sym)`, its own `sh_link` names nothing or a
    file-occupying section), `get_entry(k, offset, symbolValue, symbolName, type, addend, calcValue)` on the loaded
    object is, for EVERY 64-bit `k`, the composition of the two read-outs: the relocation record `specReloc img i k`
    of `reloc_reports_spec` (false with all out-parameters untouched when there is none), and value and name of the
    symbol `specSymbol img (linkIdx img i) r_sym` of `symbols_reports_spec` — a symbol index beyond the table gives
    false with offset / type / addend set and symbol value / name / calcValue untouched. -/
theorem reloc_resolved_reports_spec (img : Bytes) (hwf : WellFormedImage img) (o : Obj) (hL : LoadedFrom img o)
    (i : Nat) (hi : i < eh img "e_shnum") (kind : Spec.RelKind) (hty : sh img i "sh_type" = relShType kind)
    (hent : Spec.entSize (clsOf img) kind ≤ sh img i "sh_entsize")
    (hs : linkIdx img i < eh img "e_shnum") (hsocc : occupiesFile (sh img (linkIdx img i) "sh_type") = true)
    (hsent : sh img (linkIdx img i) "sh_entsize" = Spec.symSize (clsOf img)) (hslink : LinkOk img (linkIdx img i))
    (k : BitVec 64) :
    ∃ o2 r, TQ.runQuery o (.relGetResolved i k) =
        .ok (o2, .resolved (resolvedOf r (specSymbol img (linkIdx img i)))) ∧
      LoadedFrom img o2 ∧ o2.segs = o.segs ∧ r.map Reloc.Entry.toSpec = specReloc img i kind k.toNat := by
  obtain ⟨o1, b1, h1, hL1, hR1, _, _, hseg1, _⟩ := secResident_ready img hwf o hL i hi
  have h1' : TQ.settle o i = some (o1, b1) := h1
  obtain ⟨r, hr, hspec⟩ := tq_relGet_ready img hwf i hi b1 hR1 kind hty hent k
  have hidx : TQ.relSymtabIndex b1 = linkIdx img i := by
    unfold TQ.relSymtabIndex tq_reloc_symtab_index linkIdx
    rw [← hR1.link]
    simp only [BitVec.toNat_setWidth, Nat.reducePow]
  obtain ⟨o2, t, h2, hL2, hseg2, hcfg, hW, _⟩ := symTabFor_wf img hwf o1 hL1 (linkIdx img i) hs hsocc hsent hslink
  refine ⟨o2, r, ?_, hL2, hseg2.trans hseg1, hspec⟩
  have hres : TQ.relGetResolved (encOf img) b1 (some t) k =
      .ok (resolvedOf r (specSymbol img (linkIdx img i))) := by
    unfold TQ.relGetResolved TQ.relGetResolvedWith
    rw [hr]
    cases r with
    | none => rfl
    | some e =>
      have hg := SymTab.getSymbol_decoded hW (tq_reloc_sym_index e.symbol) [] {}
      have hn : (tq_reloc_sym_index e.symbol).toNat = e.symbol.toNat := by
        simp only [tq_reloc_sym_index, BitVec.toNat_setWidth, Nat.reducePow]
        have := e.symbol.isLt
        simp only [Nat.reducePow] at this
        omega
      rw [hcfg, hn] at hg
      simp only [Option.getD_some, Option.isNone_some, Bool.false_eq_true, if_false, hg, resolvedOf, specSymbol,
        tq_reloc_ret_and, tq_reloc_calc_gate, Bool.true_and]
      by_cases hk : e.symbol.toNat < SymTab.countOf (clsOf img) (secFileBytes img (linkIdx img i))
      · simp only [hk, if_true]; rfl
      · simp only [hk, if_false]; rfl
  simp only [TQ.runQuery, h1', hidx, h2, hL.enc, hres, TQ.liftQ]; rfl

/-- **reloc_resolved_nosymtab** : when `(Elf_Half) sh_link` of the relocation section names no section of the file,
    the resolving `get_entry` returns false for EVERY `k` (fixes/10: no symbol accessor is built on the null section),
    having set offset / type / addend from the record `specReloc img i k` (zeros when there is none). -/
theorem reloc_resolved_nosymtab (img : Bytes) (hwf : WellFormedImage img) (o : Obj) (hL : LoadedFrom img o)
    (i : Nat) (hi : i < eh img "e_shnum") (kind : Spec.RelKind) (hty : sh img i "sh_type" = relShType kind)
    (hent : Spec.entSize (clsOf img) kind ≤ sh img i "sh_entsize")
    (hs : eh img "e_shnum" ≤ linkIdx img i) (k : BitVec 64) :
    ∃ (o1 : Obj) (r : Option Reloc.Entry), TQ.runQuery o (.relGetResolved i k) =
        .ok (o1, .resolved { ret := false, offset := (r.getD ⟨0, 0, 0, 0⟩).offset, type := (r.getD ⟨0, 0, 0, 0⟩).type,
                             addend := (r.getD ⟨0, 0, 0, 0⟩).addend }) ∧
      LoadedFrom img o1 ∧ o1.segs = o.segs ∧ r.map Reloc.Entry.toSpec = specReloc img i kind k.toNat := by
  obtain ⟨o1, b1, h1, hL1, hR1, _, _, hseg1, _⟩ := secResident_ready img hwf o hL i hi
  have h1' : TQ.settle o i = some (o1, b1) := h1
  obtain ⟨r, hr, hspec⟩ := tq_relGet_ready img hwf i hi b1 hR1 kind hty hent k
  have hidx : TQ.relSymtabIndex b1 = linkIdx img i := by
    unfold TQ.relSymtabIndex tq_reloc_symtab_index linkIdx
    rw [← hR1.link]
    simp only [BitVec.toNat_setWidth, Nat.reducePow]
  have hnone : TQ.symTabFor o1 (linkIdx img i) = none := by
    unfold TQ.symTabFor
    have : TQ.settle o1 (linkIdx img i) = none := secResident_none img o1 hL1 _ hs
    rw [this]
  refine ⟨o1, r, ?_, hL1, hseg1, hspec⟩
  simp only [TQ.runQuery, h1', hidx, hnone, hL.enc, TQ.relGetResolved, TQ.relGetResolvedWith, hr, tq_reloc_nosymtab,
    if_true, TQ.liftQ, tq_reloc_symbol_init]
  rfl

example (k : StreamKind) (isLazy : Bool) :
    ∃ r : LoadRes, load {} { data := exImg2, kind := k } isLazy = .ok r ∧
      ∀ idx : BitVec 64, ∃ o1 e, TQ.runQuery r.obj (.relGetResolved 4 idx) =
          .ok (o1, .resolved (resolvedOf e (specSymbol exImg2 2))) ∧
        e.map Reloc.Entry.toSpec = specReloc exImg2 4 .rel idx.toNat := by
  obtain ⟨r, h1, _, h3⟩ := of_load exImg2 {} k isLazy rfl exImg2_wf
  refine ⟨r, h1, fun idx => ?_⟩
  have hl : linkIdx exImg2 4 = 2 := by decide +kernel
  obtain ⟨o1, e, g1, _, _, g2⟩ := reloc_resolved_reports_spec exImg2 exImg2_wf r.obj h3 4 (by decide +kernel) .rel
    (by decide +kernel) (by decide +kernel) (by decide +kernel) (by decide +kernel) (by decide +kernel)
    (by decide +kernel) idx
  rw [hl] at g1
  exact ⟨o1, e, g1, g2⟩
/-- entry 1 relocates against "bar" (R_386_PC32: calcValue = S + A - P); entry 2 names symbol 7, which the table does
    not have: false, offset and type set, the rest untouched -/
example : specReloc exImg2 4 .rel 1 = some ⟨0x20, 2, 2, 0⟩ ∧ specReloc exImg2 4 .rel 2 = some ⟨0x30, 7, 1, 0⟩ ∧
    resolvedOf (some ⟨0x20, 2, 2, 0⟩) (specSymbol exImg2 2) =
      { ret := true, offset := 0x20, symValue := 0x2000, symName := [0x62, 0x61, 0x72], type := 2, addend := 0,
        calcValue := 0x1fe0 } ∧
    resolvedOf (some ⟨0x30, 7, 1, 0⟩) (specSymbol exImg2 2) = { ret := false, offset := 0x30, type := 1 } ∧
    resolvedOf none (specSymbol exImg2 2) = { ret := false } := by decide +kernel
/-- the second example image with `sh_link` of `.rel.x` changed to 200: no such section -/
def exImg3 : Bytes := exImg2.set 536 200
theorem exImg3_wf : WellFormedImage exImg3 := by decide +kernel
example : linkIdx exImg2 4 = 2 ∧ linkIdx exImg3 4 = 200 ∧ eh exImg3 "e_shnum" = 9 := by decide +kernel
example (k : StreamKind) (isLazy : Bool) :
    ∃ r : LoadRes, load {} { data := exImg3, kind := k } isLazy = .ok r ∧
      ∀ idx : BitVec 64, ∃ (o1 : Obj) (e : Option Reloc.Entry), TQ.runQuery r.obj (.relGetResolved 4 idx) =
          .ok (o1, .resolved { ret := false, offset := (e.getD ⟨0, 0, 0, 0⟩).offset, type := (e.getD ⟨0, 0, 0, 0⟩).type,
                               addend := (e.getD ⟨0, 0, 0, 0⟩).addend }) ∧
        e.map Reloc.Entry.toSpec = specReloc exImg3 4 .rel idx.toNat := by
  obtain ⟨r, h1, _, h3⟩ := of_load exImg3 {} k isLazy rfl exImg3_wf
  refine ⟨r, h1, fun idx => ?_⟩
  obtain ⟨o1, e, g1, _, _, g2⟩ := reloc_resolved_nosymtab exImg3 exImg3_wf r.obj h3 4 (by decide +kernel) .rel
    (by decide +kernel) (by decide +kernel) (by decide +kernel) idx
  exact ⟨o1, e, g1, g2⟩

/-! ### 5. truncated files (C17): the remaining table read-outs of a prefix that loads

State: `PrefixLoadedC img k o` = `PrefixLoaded img k o` (Props/ComposeTables.lean §3) plus "every section carries the
image's class" (`LoadedTables.load_secs_cls`; the relocation and dynamic accessors test it).  `prefix_secResident_c`:
`sections[i]->get_data()` keeps the state and hands out a section WITHOUT data, or a section that is — for every
accessor — as good as the complete file's (`pready_inv`: C07's invariant with content = the bytes the complete file
assigns to section `i`).  Without data the fixed accessors (C18's guards, `TQ.runQuery`) refuse; the dynamic accessor
reports one fabricated DT_NULL entry (stated exactly in `prefix_dynamic_sound`). -/

/-- a loaded prefix whose sections carry the image's class -/
structure PrefixLoadedC (img : Bytes) (k : Nat) (o : Obj) : Prop where
  base : PrefixLoaded img k o
  secCls : ∀ b ∈ o.secs, b.cls = clsOf img

/-- **a prefix of a well-formed image that loads** is `PrefixLoadedC` -/
theorem prefixLoadedC_of_load (img : Bytes) (hwf : WellFormedImage img) (o : Obj) (htr : o.trans = []) (k : Nat)
    (kind : StreamKind) (isLazy : Bool) (rp : LoadRes)
    (hp : load o { data := img.take k, kind := kind } isLazy = .ok rp) (hok : rp.ok = true) :
    PrefixLoadedC img k rp.obj := by
  have hb := prefixLoaded_of_load img hwf o htr k kind isLazy rp hp hok
  refine ⟨hb, ?_⟩
  intro b hm
  rw [load_secs_cls o _ isLazy rp hp b hm, hb.cls]

theorem secResident_shape {o : Obj} {i : Nat} {o1 : Obj} {b1 : SecBuf} (h : secResident o i = some (o1, b1)) :
    ∃ b, o.secs[i]? = some b ∧ b1 = (secGetData o.cls o.trans { st := o.stream } b).2 ∧
      o1.secs = o.secs.set i b1 := by
  unfold secResident at h
  split at h
  · cases h
  · rename_i b hb
    simp only [Option.some.injEq, Prod.mk.injEq] at h
    exact ⟨b, hb, h.2.symm, by rw [← h.1, ← h.2]⟩

/-- `sections[i]->get_data()` on a loaded prefix, with the loader invariant and the class of the section handed out -/
theorem prefix_secResident_c (img : Bytes) (k : Nat) (o : Obj) (hP : PrefixLoadedC img k o) (i : Nat)
    (hi : i < eh img "e_shnum") :
    ∃ o1 b1, secResident o i = some (o1, b1) ∧ PrefixLoadedC img k o1 ∧ PReady img i b1 ∧
      LoadedSec [] b1 (img.take k) ∧ b1.cls = clsOf img ∧ o1.segs = o.segs := by
  obtain ⟨o1, b1, h1, hP1, hR⟩ := prefix_secResident img k o hP.base i hi
  obtain ⟨b, hb, hb1, hsecs⟩ := secResident_shape h1
  have hlt : i < o.secs.length := by rw [hP.base.nsecs]; exact hi
  have hmem : b ∈ o.secs := List.mem_of_getElem? hb
  have hcls : b1.cls = clsOf img := by
    rw [hb1, (secGetData_sameHdr _ _ _ b).cls]; exact hP.secCls b hmem
  have hmem1 : b1 ∈ o1.secs := by
    rw [hsecs]; exact List.mem_iff_getElem.mpr ⟨i, by simpa using hlt, by simp⟩
  refine ⟨o1, b1, h1, ⟨hP1, ?_⟩, hR, ?_, hcls, secResident_segs h1⟩
  · intro b' hb'
    rw [hsecs] at hb'
    rcases List.mem_or_eq_of_mem_set hb' with h | h
    · exact hP.secCls b' h
    · rw [h]; exact hcls
  · have := hP1.inv.secs b1 hmem1
    rw [hP1.trans] at this
    exact this

theorem stype_ne_nobits {img : Bytes} {i : Nat} {b : SecBuf} (hst : b.stype.toNat = sh img i "sh_type")
    (hocc : occupiesFile (sh img i "sh_type") = true) : b.stype ≠ BitVec.ofNat 32 SHT_NOBITS := by
  intro e
  rw [e] at hst
  rw [← hst] at hocc
  revert hocc; decide

/-- a section of a loaded prefix that HAS data is, for every accessor, as good as the complete file's: its header
    fields are the specification's, it satisfies C07's invariant, and its content is the bytes the complete file
    assigns to the section -/
theorem pready_inv {img : Bytes} {k i : Nat} {b1 : SecBuf} (hR : PReady img i b1)
    (hLS : LoadedSec [] b1 (img.take k)) {d : Bytes} (hd : b1.data = some d) :
    Fields img i b1 ∧ occupiesFile (sh img i "sh_type") = true ∧ b1.Inv ∧ b1.content = secFileBytes img i ∧
      (secFileBytes img i).length = sh img i "sh_size" ∧ b1.getData = b1 ∧ (secData b1).isNone = false := by
  rcases hR.data with hn | ⟨hF, hocc, hv, hn, hss⟩
  · rw [hn] at hd; cases hd
  · obtain ⟨e1, e2⟩ := hn d hd
    have hl : b1.view.length = b1.size.toNat := by rw [e1] at e2; simpa using e2
    have hres : b1.Resident := by
      refine ⟨stype_ne_nobits hF.stype hocc, fun e => (by rw [hd] at e; cases e), Or.inr ⟨d, hd, ?_, ?_⟩, ?_⟩
      · rw [hLS.dsz d hd]; exact Nat.le_refl _
      · rw [hLS.dsz d hd, e2]; omega
      · rw [hLS.dsz d hd]; omega
    refine ⟨hF, hocc, Or.inl hres, by rw [C07.content_resident hres, hv], by rw [← hv, hl, hF.size],
      getData_of_settled hR.settled, ?_⟩
    unfold secData
    rw [getData_of_settled hR.settled, hd]; rfl

theorem pready_secData {img : Bytes} {i : Nat} {b1 : SecBuf} (hR : PReady img i b1) : secData b1 = b1.data := by
  unfold secData; rw [getData_of_settled hR.settled]

/-! #### arrays and symbol-version indices on a truncated file -/

/-- **prefix_array_sound** (C17 for `array_section_accessor<w>`): on a prefix of a well-formed image that loads, for
    a section `i` whose size is a whole number of `w`-byte entries, `get_entry(k, address)` is for EVERY 64-bit `k`
    refused (false), or exactly what the specification says the COMPLETE file holds there (`Spec.tableEntry` of the
    section's bytes of `img` = what the complete file's load reports: `array_reports_spec` / `tq_reports_spec`). -/
theorem prefix_array_sound (img : Bytes) (k : Nat) (o : Obj) (hP : PrefixLoadedC img k o) (i : Nat)
    (hi : i < eh img "e_shnum") (w : Arr.W) (hwhole : sh img i "sh_size" % w.bytes = 0) (idx : BitVec 64) :
    ∃ o1 out, TQ.runQuery o (.arrGet w i idx) = .ok (o1, .addr out) ∧ PrefixLoadedC img k o1 ∧
      (out = none ∨
       out = (Spec.tableEntry (encOf img) w.bytes (secFileBytes img i) idx.toNat).map (BitVec.ofNat 64)) := by
  obtain ⟨o1, b1, h1, hP1, hR, hLS, _, _⟩ := prefix_secResident_c img k o hP i hi
  have hs : TQ.settle o i = some (o1, b1) := h1
  cases hd : b1.data with
  | none =>
    have hn : (secData b1).isNone = true := by rw [pready_secData hR, hd]; rfl
    have hq : TQ.arrGet w (encOf img) b1 idx = .ok none := by
      unfold TQ.arrGet
      cases w <;> simp only [] <;> split <;> first | rfl | simp only [tq_arr32_nodata, tq_arr64_nodata, hn, if_true]; rfl
    refine ⟨o1, none, ?_, hP1, Or.inl rfl⟩
    simp only [TQ.runQuery, hs, hP.base.enc, hq, TQ.liftQ]; rfl
  | some d =>
    obtain ⟨hF, hocc, hinv, hcont, hlen, hgd, hdata⟩ := pready_inv hR hLS hd
    have hw : 0 < w.bytes := by cases w <;> decide
    have henc := encode_decodeArr (encOf img) w.bytes hw (secFileBytes img i) (by rw [hlen]; exact hwhole)
    have hg := C14.array_get w (encOf img) b1 hinv (decodeArr (encOf img) w.bytes (secFileBytes img i))
      (by rw [hcont, henc]) idx
    have g2 : Arr.getEntry w (encOf img) b1 idx =
        .ok ((Spec.tableEntry (encOf img) w.bytes (secFileBytes img i) idx.toNat).map (BitVec.ofNat 64)) := by
      rw [hg, ← decodeArr_get (encOf img) w.bytes hw _ (by rw [hlen]; exact hwhole)]
      split <;> rfl
    have hq : TQ.arrGet w (encOf img) b1 idx =
        .ok ((Spec.tableEntry (encOf img) w.bytes (secFileBytes img i) idx.toNat).map (BitVec.ofNat 64)) := by
      unfold TQ.arrGet
      cases w
      · by_cases hg : arr32_get_guard idx (Arr.entriesNum .w4 b1) = true
        · simp only [hg, if_true]
          rw [← g2]; simp only [Arr.getEntry, hg, if_true]
        · simp only [hg, Bool.false_eq_true, if_false, tq_arr32_nodata, hdata, g2]
      · by_cases hg : arr64_get_guard idx (Arr.entriesNum .w8 b1) = true
        · simp only [hg, if_true]
          rw [← g2]; simp only [Arr.getEntry, hg, if_true]
        · simp only [hg, Bool.false_eq_true, if_false, tq_arr64_nodata, hdata, g2]
    refine ⟨o1, _, ?_, hP1, Or.inr rfl⟩
    simp only [TQ.runQuery, hs, hP.base.enc, hq, TQ.liftQ]; rfl

example (k : Nat) (kind : StreamKind) (isLazy : Bool) (rp : LoadRes)
    (hp : load {} { data := exImg.take k, kind := kind } isLazy = .ok rp) (hok : rp.ok = true) (idx : BitVec 64) :
    ∃ o1 out, TQ.runQuery rp.obj (.arrGet .w4 7 idx) = .ok (o1, .addr out) ∧
      (out = none ∨ out = (Spec.tableEntry (encOf exImg) 4 (secFileBytes exImg 7) idx.toNat).map (BitVec.ofNat 64)) := by
  obtain ⟨o1, out, h, _, h'⟩ := prefix_array_sound exImg k rp.obj
    (prefixLoadedC_of_load exImg exImg_wf {} rfl k kind isLazy rp hp hok) 7 (by decide +kernel) .w4
    (by decide +kernel) idx
  exact ⟨o1, out, h, h'⟩

/-- **prefix_versym_sound** (C17 for `versym_section_accessor`): on a prefix that loads, for a section `i` that is a
    whole number (< 2^32) of half-words in a file whose byte order is the host's (F4, as in `versym_reports_spec`),
    `get_entry(k, value)` is for EVERY 32-bit `k` refused, or the `k`-th half-word of the COMPLETE file's section. -/
theorem prefix_versym_sound (img : Bytes) (k : Nat) (o : Obj) (hP : PrefixLoadedC img k o) (i : Nat)
    (hi : i < eh img "e_shnum") (hwhole : sh img i "sh_size" % 2 = 0) (h32 : sh img i "sh_size" / 2 < 4294967296)
    (hhost : encOf img = C14.hostEnc) (idx : BitVec 32) :
    ∃ o1 out, TQ.runQuery o (.versymGet i idx) = .ok (o1, .half out) ∧ PrefixLoadedC img k o1 ∧
      (out = none ∨
       out = (Spec.tableEntry (encOf img) 2 (secFileBytes img i) idx.toNat).map (BitVec.ofNat 16)) := by
  obtain ⟨o1, b1, h1, hP1, hR, hLS, _, _⟩ := prefix_secResident_c img k o hP i hi
  have hs : TQ.settle o i = some (o1, b1) := h1
  cases hd : b1.data with
  | none =>
    have hn : (secData b1).isNone = true := by rw [pready_secData hR, hd]; rfl
    have hq : TQ.versymGet b1 (Versym.mk b1) idx = .ok none := by
      unfold TQ.versymGet
      split
      · simp only [tq_vs_nodata, hn, if_true]; rfl
      · rfl
    refine ⟨o1, none, ?_, hP1, Or.inl rfl⟩
    simp only [TQ.runQuery, hs, hq, TQ.liftQ]; rfl
  | some d =>
    obtain ⟨hF, hocc, hinv, hcont, hlen, hgd, hdata⟩ := pready_inv hR hLS hd
    have henc := encode_decodeArr (encOf img) 2 (by decide) (secFileBytes img i) (by rw [hlen]; exact hwhole)
    have hmk : (Versym.mk b1).toNat = (decodeArr (encOf img) 2 (secFileBytes img i)).length := by
      simp only [Versym.mk, vs_ctor_guard, if_true, vs_count, BitVec.toNat_setWidth, BitVec.toNat_udiv,
        BitVec.toNat_ofNat, Nat.reducePow, Nat.reduceMod, decodeArr, List.length_map, List.length_range, hlen,
        hF.size]
      omega
    have hg := C14.versym_get b1 hinv (Versym.mk b1) (decodeArr (encOf img) 2 (secFileBytes img i))
      (by rw [hcont, ← hhost, henc]) hmk idx
    have g2 : Versym.getEntry b1 (Versym.mk b1) idx =
        .ok ((Spec.tableEntry (encOf img) 2 (secFileBytes img i) idx.toNat).map (BitVec.ofNat 16)) := by
      rw [hg, ← decodeArr_get (encOf img) 2 (by decide) _ (by rw [hlen]; exact hwhole)]
      split <;> rfl
    have hq : TQ.versymGet b1 (Versym.mk b1) idx =
        .ok ((Spec.tableEntry (encOf img) 2 (secFileBytes img i) idx.toNat).map (BitVec.ofNat 16)) := by
      unfold TQ.versymGet
      by_cases hg : vs_get_guard true idx (Versym.entriesNum (Versym.mk b1)) = true
      · simp only [hg, if_true, tq_vs_nodata, hdata, Bool.false_eq_true, if_false, g2]
      · simp only [hg, Bool.false_eq_true, if_false]
        rw [← g2]; simp only [Versym.getEntry, hg, Bool.false_eq_true, if_false]
    refine ⟨o1, _, ?_, hP1, Or.inr rfl⟩
    simp only [TQ.runQuery, hs, hq, TQ.liftQ]; rfl

example (k : Nat) (kind : StreamKind) (isLazy : Bool) (rp : LoadRes)
    (hp : load {} { data := exImg.take k, kind := kind } isLazy = .ok rp) (hok : rp.ok = true) (idx : BitVec 32) :
    ∃ o1 out, TQ.runQuery rp.obj (.versymGet 8 idx) = .ok (o1, .half out) ∧
      (out = none ∨ out = (Spec.tableEntry (encOf exImg) 2 (secFileBytes exImg 8) idx.toNat).map (BitVec.ofNat 16)) := by
  obtain ⟨o1, out, h, _, h'⟩ := prefix_versym_sound exImg k rp.obj
    (prefixLoadedC_of_load exImg exImg_wf {} rfl k kind isLazy rp hp hok) 8 (by decide +kernel) (by decide +kernel)
    (by decide +kernel) (by decide +kernel) idx
  exact ⟨o1, out, h, h'⟩

/-! #### notes on a truncated file -/

/-- the note accessor on a source without data: no notes, every `get_note` refused -/
theorem note_nodata (e : Enc) (src : NoteSrc) (h : src.data = none) :
    Note.process e src = .ok [] ∧ ∀ k : BitVec 32, Note.get e src [] k = .ok none := by
  constructor
  · simp only [Note.process, h, note_walk_empty, Option.isNone_none, Bool.true_or, if_true]; rfl
  · intro k
    have : note_get_gate k (BitVec.ofNat 64 ([] : List (BitVec 64)).length) = true := by
      simp [note_get_gate, BitVec.ule]
    simp only [Note.get, this, if_true]; rfl

/-- **prefix_notes_sound** (C17 for `note_section_accessor`): on a prefix of a well-formed image that loads, for a
    section `i` whose bytes in the COMPLETE file are the gABI encoding of the notes `ns` (as in `notes_reports_spec`),
    the accessor reports either no note at all — `get_notes_num() = 0` and every `get_note(k)` refused (the
    section's data is not in the prefix) — or exactly the complete file's notes: `get_notes_num() = |ns|` and
    `get_note(k)` = the `k`-th note for EVERY 32-bit `k`.  Never a partial or different list. -/
theorem prefix_notes_sound (img : Bytes) (k : Nat) (o : Obj) (hP : PrefixLoadedC img k o) (i : Nat)
    (hi : i < eh img "e_shnum") (ns : List Spec.Note) (hf : ∀ n ∈ ns, n.Fits)
    (hbytes : secFileBytes img i = Spec.encodeNotes (encOf img) ns) (hsz : sh img i "sh_size" ≤ 4294967293)
    (idx : BitVec 32) :
    ∃ o1 n out, inspect o (.noteNum i) = .ok (o1, .num n) ∧ inspect o (.note i idx) = .ok (o1, .note out) ∧
      PrefixLoadedC img k o1 ∧
      ((n = 0 ∧ out = none) ∨ (n = ns.length ∧ out = specNote ns idx.toNat)) := by
  obtain ⟨o1, b1, h1, hP1, hR, hLS, _, _⟩ := prefix_secResident_c img k o hP i hi
  have henc : o1.enc = encOf img := hP1.base.enc
  cases hd : b1.data with
  | none =>
    obtain ⟨p1, p2⟩ := note_nodata (encOf img) b1.noteSrc (by simp only [SecBuf.noteSrc]; exact hd)
    refine ⟨o1, 0, none, ?_, ?_, hP1, Or.inl ⟨rfl, rfl⟩⟩
    · simp only [inspect, h1, henc, p1]; rfl
    · simp only [inspect, h1, henc, p1, p2 idx]; rfl
  | some d =>
    obtain ⟨hF, hocc, hinv, hcont, hlen, hgd, hdata⟩ := pready_inv hR hLS hd
    have hview : b1.view = secFileBytes img i := by
      rcases hR.data with hn | ⟨_, _, hv, _⟩
      · rw [hn] at hd; cases hd
      · exact hv
    have hok : C13.SrcOk b1.noteSrc := by
      intro a ha
      have : b1.data = some a := ha
      have := hLS.len a this
      simp only [SecBuf.noteSrc] at *
      omega
    have hv : C13.NoteSrc.view b1.noteSrc = Spec.encodeNotes (encOf img) ns := by
      rw [← hbytes, ← hview]; rfl
    obtain ⟨pos, hp, hn, hg⟩ := note_source_reports (encOf img) b1.noteSrc hok
      (by simp only [SecBuf.noteSrc]; rw [hF.size]; exact hsz) ns hf hv
    refine ⟨o1, ns.length, specNote ns idx.toNat, ?_, ?_, hP1, Or.inr ⟨rfl, rfl⟩⟩
    · simp only [inspect, h1, henc, hp, hn]; rfl
    · simp only [inspect, h1, henc, hp, hg idx]; rfl

example (k : Nat) (kind : StreamKind) (isLazy : Bool) (rp : LoadRes)
    (hp : load {} { data := exImg.take k, kind := kind } isLazy = .ok rp) (hok : rp.ok = true) (idx : BitVec 32) :
    ∃ o1 n out, inspect rp.obj (.noteNum 6) = .ok (o1, .num n) ∧ inspect rp.obj (.note 6 idx) = .ok (o1, .note out) ∧
      ((n = 0 ∧ out = none) ∨ (n = 2 ∧ out = specNote exNotes idx.toNat)) := by
  obtain ⟨o1, n, out, g1, g2, _, g3⟩ := prefix_notes_sound exImg k rp.obj
    (prefixLoadedC_of_load exImg exImg_wf {} rfl k kind isLazy rp hp hok) 6 (by decide +kernel) exNotes (by decide)
    (by decide +kernel) (by decide +kernel) idx
  exact ⟨o1, n, out, g1, g2, g3⟩

/-! #### relocations on a truncated file -/

/-- relocation `get_entry` on a section without data: refused (the null-data guards of fixes/15) -/
theorem tq_relGet_nodata (enc : Enc) (b : SecBuf) (h : (secData b).isNone = true) (k : BitVec 64) :
    TQ.relGet enc b k = .ok none := by
  have hg : ∀ ops nd, (nd true = true) → TQ.relGetGeneric ops nd enc b k = .ok none := by
    intro ops nd hnd
    unfold TQ.relGetGeneric
    split
    · rfl
    · rw [h, hnd]; rfl
  unfold TQ.relGet
  rw [Reloc.entriesNum_ok]
  simp only []
  (repeat' split) <;> first | rfl | exact hg _ _ rfl

/-- **prefix_reloc_sound** (C17 for `relocation_section_accessor`): on a prefix of a well-formed image that loads, for
    a relocation section `i` as in `reloc_reports_spec`, `get_entry(k, offset, symbol, type, addend)` is for EVERY
    64-bit `k` refused (false, out-parameters untouched), or exactly the record the specification reads in the
    COMPLETE file (`specReloc img i kind k` = what the complete file's load reports: `reloc_reports_spec`). -/
theorem prefix_reloc_sound (img : Bytes) (k : Nat) (o : Obj) (hP : PrefixLoadedC img k o) (i : Nat)
    (hi : i < eh img "e_shnum") (kind : Spec.RelKind) (hty : sh img i "sh_type" = relShType kind)
    (hent : Spec.entSize (clsOf img) kind ≤ sh img i "sh_entsize") (idx : BitVec 64) :
    ∃ o1 out, TQ.runQuery o (.relGet i idx) = .ok (o1, .rel out) ∧ PrefixLoadedC img k o1 ∧
      (out = none ∨ out.map Reloc.Entry.toSpec = specReloc img i kind idx.toNat) := by
  obtain ⟨o1, b1, h1, hP1, hR, hLS, hcls, _⟩ := prefix_secResident_c img k o hP i hi
  have hs : TQ.settle o i = some (o1, b1) := h1
  cases hd : b1.data with
  | none =>
    have hn : (secData b1).isNone = true := by rw [pready_secData hR, hd]; rfl
    refine ⟨o1, none, ?_, hP1, Or.inl rfl⟩
    simp only [TQ.runQuery, hs, tq_relGet_nodata _ b1 hn idx, TQ.liftQ]; rfl
  | some d =>
    obtain ⟨hF, hocc, hinv, hcont, hlen, hgd, hdata⟩ := pready_inv hR hLS hd
    obtain ⟨r, hr, hspec⟩ := tq_relGet_core img i b1 kind hinv hcont hcls hF.stype hF.entSize hF.size hgd hdata
      hty hent idx
    refine ⟨o1, r, ?_, hP1, Or.inr hspec⟩
    simp only [TQ.runQuery, hs, hP.base.enc, hr, TQ.liftQ]; rfl

example (k : Nat) (kind : StreamKind) (isLazy : Bool) (rp : LoadRes)
    (hp : load {} { data := exImg.take k, kind := kind } isLazy = .ok rp) (hok : rp.ok = true) (idx : BitVec 64) :
    ∃ o1 out, TQ.runQuery rp.obj (.relGet 4 idx) = .ok (o1, .rel out) ∧
      (out = none ∨ out.map Reloc.Entry.toSpec = specReloc exImg 4 .rela idx.toNat) := by
  obtain ⟨o1, out, h, _, h'⟩ := prefix_reloc_sound exImg k rp.obj
    (prefixLoadedC_of_load exImg exImg_wf {} rfl k kind isLazy rp hp hok) 4 (by decide +kernel) .rela
    (by decide +kernel) (by decide +kernel) idx
  exact ⟨o1, out, h, h'⟩

/-! #### the dynamic accessor on a truncated file

What the model (= the code) does on a dynamic section whose data is not in the prefix: `generic_get_entry_dyn` sets
`tag = DT_NULL; value = 0` and returns, so `get_entries_num()` counts ONE entry when the header promises at least one
record (`sh_size / sh_entsize ≥ 1`, entry size ≥ `sizeof(ElfN_Dyn)`) and `get_entry(0, …)` returns true with
`tag = DT_NULL, value = 0, str = ""` — the all-zero record DESIGN §6 (C17) speaks of; every other index is refused.
With the zeroed header (`sh_entsize = 0`) the count is 0. -/

open DynPrefix in
/-- the accessor-level statement: `a` is a new dynamic accessor (count not cached) on a settled section that has no
    data, or has C07's invariant with content `c`, and whose linked string section is absent (`tbl = none`), data-less,
    or has C07's invariant with content `tbl` -/
theorem dyn_acc_prefix (a : DynAcc) (c : Bytes) (tbl : Option Bytes) (hc : a.cache = 0) (hsec : Settled a.sec)
    (hdata : ∀ d, a.sec.data = some d →
      a.sec.Inv ∧ a.sec.content = c ∧ a.sec.cls = a.cfg.cls ∧ a.sec.entSize = BitVec.ofNat 64 (Spec.dynSize a.cfg.cls) ∧
      ((a.str = none ∧ tbl = none) ∨
        ∃ s, a.str = some s ∧ Settled s ∧ (s.data = none ∨ (s.Inv ∧ tbl = some s.content))))
    (idx : BitVec 64) :
    ∃ a1 n a2 r, a.entriesNum = .ok (a1, n) ∧ a.getEntry idx = .ok (a2, r) ∧
      ((n.toNat = 0 ∧ r = .invalid) ∨
       (n.toNat = 1 ∧ r = (if idx.toNat = 0 then .ok 0 0 [] else .invalid)) ∨
       (n.toNat = Spec.dynCount (Spec.entriesOf a.cfg c) ∧
         (C12.outOf r = Spec.dynGet (Spec.entriesOf a.cfg c) tbl idx.toNat ∨
          C12.outOf r = Spec.dynGet (Spec.entriesOf a.cfg c) none idx.toNat))) := by
  cases hd : a.sec.data with
  | none =>
    refine ⟨_, _, _, _, entriesNum_nodata a hsec hd hc, getEntry_nodata a hsec hd hc idx, ?_⟩
    have hle := fabCount_le a
    by_cases h0 : (fabCount a).toNat = 0
    · left; exact ⟨h0, by rw [h0]; simp⟩
    · right; left
      have h1 : (fabCount a).toNat = 1 := by omega
      refine ⟨h1, ?_⟩
      rw [h1]
      by_cases hi : idx.toNat = 0
      · simp [hi]
      · have : 1 ≤ idx.toNat := by omega
        simp [hi, this]
  | some d =>
    obtain ⟨hinv, hcont, hcls, hent, hstr⟩ := hdata d hd
    rcases hstr with ⟨hs, ht⟩ | ⟨s, hs, hset, hsd⟩
    · have hG : C12.Good a c tbl := ⟨⟨hinv, hcont, hcls, hent, by rw [hs, ht]; trivial⟩, Or.inl hc⟩
      obtain ⟨a1, n, hn, _, _, _, hnv⟩ := C12.entriesNum_ok a c tbl hG
      obtain ⟨a2, r, hg, _, _, hout⟩ := C12.getEntry_ok a c tbl hG idx
      exact ⟨a1, n, a2, r, hn, hg, Or.inr (Or.inr ⟨hnv, Or.inl hout⟩)⟩
    · rcases hsd with hnd | ⟨sinv, ht⟩
      · -- the linked section has no data: like no string section
        have hG : C12.Good { a with str := none } c none :=
          ⟨⟨hinv, hcont, hcls, hent, trivial⟩, Or.inl hc⟩
        obtain ⟨a1, n, hn, _, _, _, hnv⟩ := C12.entriesNum_ok _ c none hG
        obtain ⟨a2, r, hg, _, _, hout⟩ := C12.getEntry_ok _ c none hG idx
        have e1 := (entriesNum_str a s hset hnd hs).1
        have e2 := getEntry_str a s hset hnd hs idx
        rw [hn] at e1
        rw [hg] at e2
        exact ⟨_, n, _, r, e1, e2, Or.inr (Or.inr ⟨hnv, Or.inr hout⟩)⟩
      · have hG : C12.Good a c tbl := ⟨⟨hinv, hcont, hcls, hent, by rw [hs, ht]; exact ⟨sinv, rfl⟩⟩, Or.inl hc⟩
        obtain ⟨a1, n, hn, _, _, _, hnv⟩ := C12.entriesNum_ok a c tbl hG
        obtain ⟨a2, r, hg, _, _, hout⟩ := C12.getEntry_ok a c tbl hG idx
        exact ⟨a1, n, a2, r, hn, hg, Or.inr (Or.inr ⟨hnv, Or.inl hout⟩)⟩

theorem prefix_secResident_none (img : Bytes) (k : Nat) (o : Obj) (hP : PrefixLoadedC img k o) (j : Nat)
    (hj : eh img "e_shnum" ≤ j) : secResident o j = none := by
  unfold secResident
  rw [List.getElem?_eq_none (by rw [hP.base.nsecs]; exact hj)]

/-- **prefix_dynamic_sound** (C17 for `dynamic_section_accessor`): on a prefix of a well-formed image that loads, for
    a dynamic section `i` with the class's entry size, the accessor answers, for EVERY 64-bit `k`, in exactly one of
    these ways:
    * `get_entries_num() = 0` and `get_entry(k)` refused — zeroed header, or no data and less than one record;
    * `get_entries_num() = 1`, `get_entry(0)` = true with `tag = DT_NULL, value = 0, str = ""` and every other `k`
      refused — the section's data is not in the prefix: the ONE fabricated all-zero record;
    * the complete file's count (`Spec.dynCount` of the records decoded from the section's bytes of `img`:
      `dynamic_reports_spec`) and, for `get_entry(k)`, the complete file's answer `Spec.dynGet … (linkedTable img i) k`
      — or, when the data of the linked string table is not in the prefix, that answer with the string lookup failing
      (`Spec.dynGet … none k`: string-valued tags come back false with the complete file's tag and value, the string
      cleared; all other entries as in the complete file).
    Never a record that differs from the complete file's, other than that single DT_NULL. -/
theorem prefix_dynamic_sound (img : Bytes) (k : Nat) (o : Obj) (hP : PrefixLoadedC img k o) (i : Nat)
    (hi : i < eh img "e_shnum") (hent : sh img i "sh_entsize" = Spec.dynSize (clsOf img)) (idx : BitVec 64) :
    ∃ o2 n r, inspect o (.dynNum i) = .ok (o2, .num n) ∧ inspect o (.dyn i idx) = .ok (o2, .dyn r) ∧
      PrefixLoadedC img k o2 ∧
      ((n = 0 ∧ r = .invalid) ∨
       (n = 1 ∧ r = (if idx.toNat = 0 then .ok 0 0 [] else .invalid)) ∨
       (n = Spec.dynCount (specDynEntries img i) ∧
         (C12.outOf r = Spec.dynGet (specDynEntries img i) (linkedTable img i) idx.toNat ∨
          C12.outOf r = Spec.dynGet (specDynEntries img i) none idx.toNat))) := by
  obtain ⟨o1, b1, h1, hP1, hR1, hLS1, hcls1, _⟩ := prefix_secResident_c img k o hP i hi
  -- the accessor `dynSetup` builds
  have hsetup : ∃ o2 str, dynSetup o i = some (o2, mkDyn o2 b1 str) ∧ PrefixLoadedC img k o2 ∧
      (∀ d, b1.data = some d →
        ((str = none ∧ linkedTable img i = none) ∨
          ∃ s, str = some s ∧ Settled s ∧ (s.data = none ∨ (s.Inv ∧ linkedTable img i = some s.content)))) := by
    unfold dynSetup
    simp only [h1]
    have hidx : ∀ d, b1.data = some d → dynStrIdx b1 = linkIdx img i := by
      intro d hd
      obtain ⟨hF, _⟩ := pready_inv hR1 hLS1 hd
      unfold dynStrIdx linkIdx dyn_strtab_index
      rw [← hF.link]
      simp only [BitVec.toNat_setWidth, Nat.reducePow]
    by_cases hj : dynStrIdx b1 < eh img "e_shnum"
    · obtain ⟨o2, s, h2, hP2, hR2, hLS2, _, _⟩ := prefix_secResident_c img k o1 hP1 _ hj
      refine ⟨o2, some s, by simp only [h2], hP2, ?_⟩
      intro d hd
      right
      refine ⟨s, rfl, hR2.settled, ?_⟩
      cases hsd : s.data with
      | none => exact Or.inl rfl
      | some ds =>
        right
        have hji := hidx d hd
        rw [hji] at hR2 hj
        obtain ⟨_, _, sinv, scont, _⟩ := pready_inv hR2 hLS2 hsd
        exact ⟨sinv, by simp only [linkedTable, hj, if_true, scont]⟩
    · have hnone := prefix_secResident_none img k o1 hP1 _ (Nat.le_of_not_lt hj)
      refine ⟨o1, none, by simp only [hnone], hP1, ?_⟩
      intro d hd
      left
      rw [hidx d hd] at hj
      exact ⟨rfl, by simp only [linkedTable, hj, if_false]⟩
  obtain ⟨o2, str, hs, hP2, hstr⟩ := hsetup
  have hcfg : (mkDyn o2 b1 str).cfg = ⟨clsOf img, encOf img⟩ := by simp [mkDyn, hP2.base.cls, hP2.base.enc]
  obtain ⟨a1, n, a2, r, hn, hg, hres⟩ := dyn_acc_prefix (mkDyn o2 b1 str) (secFileBytes img i) (linkedTable img i) rfl
    hR1.settled (by
      intro d hd
      obtain ⟨hF, hocc, hinv, hcont, _⟩ := pready_inv hR1 hLS1 hd
      refine ⟨hinv, hcont, by rw [hcfg]; exact hcls1, ?_, hstr d hd⟩
      rw [hcfg]
      exact ofNat_toNat64 _ _ (by show b1.entSize.toNat = Spec.dynSize (clsOf img); rw [hF.entSize, hent])) idx
  rw [hcfg] at hres
  refine ⟨o2, n.toNat, r, ?_, ?_, hP2, hres⟩
  · simp only [inspect, hs, hn]; rfl
  · simp only [inspect, hs, hg]; rfl

example (k : Nat) (kind : StreamKind) (isLazy : Bool) (rp : LoadRes)
    (hp : load {} { data := exImg.take k, kind := kind } isLazy = .ok rp) (hok : rp.ok = true) (idx : BitVec 64) :
    ∃ o1 n r, inspect rp.obj (.dynNum 5) = .ok (o1, .num n) ∧ inspect rp.obj (.dyn 5 idx) = .ok (o1, .dyn r) ∧
      ((n = 0 ∧ r = .invalid) ∨
       (n = 1 ∧ r = (if idx.toNat = 0 then .ok 0 0 [] else .invalid)) ∨
       (n = 3 ∧
         (C12.outOf r = Spec.dynGet (specDynEntries exImg 5) (linkedTable exImg 5) idx.toNat ∨
          C12.outOf r = Spec.dynGet (specDynEntries exImg 5) none idx.toNat))) := by
  obtain ⟨o1, n, r, g1, g2, _, g3⟩ := prefix_dynamic_sound exImg k rp.obj
    (prefixLoadedC_of_load exImg exImg_wf {} rfl k kind isLazy rp hp hok) 5 (by decide +kernel) (by decide +kernel) idx
  have hc : Spec.dynCount (specDynEntries exImg 5) = 3 := by decide +kernel
  rw [hc] at g3
  exact ⟨o1, n, r, g1, g2, g3⟩
/-- without the string table's data the DT_NEEDED entry of the example comes back false, tag and value intact -/
example : Spec.dynGet (specDynEntries exImg 5) none 0 = .nostr 1 1 ∧
    Spec.dynGet (specDynEntries exImg 5) (linkedTable exImg 5) 0 = .ok 1 1 [0x66, 0x6f, 0x6f] ∧
    Spec.dynGet (specDynEntries exImg 5) none 2 = Spec.dynGet (specDynEntries exImg 5) (linkedTable exImg 5) 2 := by
  decide +kernel

/-! non-vacuity of the three cases of `prefix_dynamic_sound`, on concrete prefixes that DO load (lazily): a 269-byte
ELF32 / LSB image whose section header table follows the ELF header directly and whose section data come in the order
`.shstrtab` (212), `.dynamic` (240: DT_NEEDED "foo", DT_INIT 0x1000, DT_NULL; link 2), `.strtab` (264) -/

def exImg4 : Bytes :=
  [127, 69, 76, 70, 1, 1, 1, 0, 0, 0, 0, 0, 0, 0, 0, 0, 1, 0, 3, 0, 1, 0, 0, 0, 0, 0, 0, 0, 0, 0, 0, 0, 52, 0, 0, 0, 0, 0, 0, 0, 52, 0, 0, 0, 0, 0, 40, 0, 4, 0, 3, 0, 0, 0, 0, 0, 0, 0, 0, 0, 0, 0, 0, 0, 0, 0, 0, 0, 0, 0, 0, 0, 0, 0, 0, 0, 0, 0, 0, 0, 0, 0, 0, 0, 0, 0, 0, 0, 0, 0, 0, 0, 1, 0, 0, 0, 6, 0, 0, 0, 0, 0, 0, 0, 0, 0, 0, 0, 240, 0, 0, 0, 24, 0, 0, 0, 2, 0, 0, 0, 0, 0, 0, 0, 1, 0, 0, 0, 8, 0, 0, 0, 10, 0, 0, 0, 3, 0, 0, 0, 0, 0, 0, 0, 0, 0, 0, 0, 8, 1, 0, 0, 5, 0, 0, 0, 0, 0, 0, 0, 0, 0, 0, 0, 1, 0, 0, 0, 0, 0, 0, 0, 18, 0, 0, 0, 3, 0, 0, 0, 0, 0, 0, 0, 0, 0, 0, 0, 212, 0, 0, 0, 28, 0, 0, 0, 0, 0, 0, 0, 0, 0, 0, 0, 1, 0, 0, 0, 0, 0, 0, 0, 0, 46, 100, 121, 110, 97, 109, 105, 99, 0, 46, 115, 116, 114, 116, 97, 98, 0, 46, 115, 104, 115, 116, 114, 116, 97, 98, 0, 1, 0, 0, 0, 1, 0, 0, 0, 12, 0, 0, 0, 0, 16, 0, 0, 0, 0, 0, 0, 0, 0, 0, 0, 0, 102, 111, 111, 0]


/-- what the dynamic accessor of section 1 shows on the lazily loaded first `k` bytes: load result, count,
    entries 0 and 1 -/
def exDynView (k : Nat) : Option (Bool × Nat × GetRes × GetRes) :=
  match load {} { data := exImg4.take k } true with
  | .ok rp =>
    match inspect rp.obj (.dynNum 1), inspect rp.obj (.dyn 1 0), inspect rp.obj (.dyn 1 1) with
    | .ok (_, .num n), .ok (_, .dyn r0), .ok (_, .dyn r1) => some (rp.ok, n, r0, r1)
    | _, _, _ => none
  | _ => none

/-- 250 bytes: the data of `.dynamic` is cut — the load succeeds, ONE entry is reported, it is the fabricated
    DT_NULL, index 1 is refused;  266 bytes: `.dynamic` is complete, `.strtab` is cut — the complete file's count,
    DT_NEEDED comes back false with tag and value intact, DT_INIT as in the complete file;  269 bytes: the file -/
example : exDynView 250 = some (true, 1, .ok 0 0 [], .invalid) ∧
    exDynView 266 = some (true, 3, .nostr 1 1, .ok 12 0x1000 []) ∧
    exDynView 269 = some (true, 3, .ok 1 1 [0x66, 0x6f, 0x6f], .ok 12 0x1000 []) := by decide +kernel

theorem exImg4_wf : WellFormedImage exImg4 := by decide +kernel
/-- … and the theorem on every prefix of that image that loads -/
example (k : Nat) (kind : StreamKind) (isLazy : Bool) (rp : LoadRes)
    (hp : load {} { data := exImg4.take k, kind := kind } isLazy = .ok rp) (hok : rp.ok = true) (idx : BitVec 64) :
    ∃ o1 n r, inspect rp.obj (.dynNum 1) = .ok (o1, .num n) ∧ inspect rp.obj (.dyn 1 idx) = .ok (o1, .dyn r) ∧
      ((n = 0 ∧ r = .invalid) ∨
       (n = 1 ∧ r = (if idx.toNat = 0 then .ok 0 0 [] else .invalid)) ∨
       (n = Spec.dynCount (specDynEntries exImg4 1) ∧
         (C12.outOf r = Spec.dynGet (specDynEntries exImg4 1) (linkedTable exImg4 1) idx.toNat ∨
          C12.outOf r = Spec.dynGet (specDynEntries exImg4 1) none idx.toNat))) := by
  obtain ⟨o1, n, r, g1, g2, _, g3⟩ := prefix_dynamic_sound exImg4 k rp.obj
    (prefixLoadedC_of_load exImg4 exImg4_wf {} rfl k kind isLazy rp hp hok) 1 (by decide +kernel) (by decide +kernel) idx
  exact ⟨o1, n, r, g1, g2, g3⟩

end ElfioVerif.ComposeTables
