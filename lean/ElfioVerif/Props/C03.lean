/-
C03 — a file built through the API decodes, per the ELF specification, to what was put in.

Proved (all for every class, byte order, object; hypotheses explicit):
 1. records — `encodeShdr_spec_bytes`, `encodePhdr_spec_bytes`: every field of the record the writer
    emits is `encodeInt enc width value` at the gABI offset (Spec/Records.lean): "multi-byte fields are
    stored in the declared byte order"; `encodeShdr_eq_spec`, `encodePhdr_eq_spec`: the specification's
    decoder reads the fields back (`FieldsFit`/`SegFit`: values fit the class width — the setters
    truncate); `decodeShdr_encodeShdr`, `decodePhdr_encodePhdr` (model decoder ∘ encoder = id).
 2. ELF header setters — `hdr_set_eq_wr`, `hdr_set_get_spec`, `hdr_set_frame_spec`, `hdr_set_get`,
    `hdr_set_frame`, `hdr_set_ident_get`; algebra `set_slice_same/other`, `set_absorb`, `set_set`.
 2b. construction — `create_eq`/`create_header`/`create_inv` (two sections, `.shstrtab`, `e_shstrndx = 1`,
    `EI_DATA` declares the byte order), `sectionsAdd_name` (the writer's `add_string` refines
    `Spec.addStr`, C08; earlier names stay valid).
 3. stream — `saveSection_writes` (`adjust_stream_size` + `write`), `applyWrites_slices` (Lemmas/Save).
 4. composition — `save_decodes` (+ `_header`, `_section`, `_segment`): after a successful save every
    record and every section's data is in the stream where the header says; `save_header_fields`;
    `save_decode_fields`, `save_decode_header`, `save_image_header`: the saved bytes, read with the
    *specification's* decoder, give back the object's header attributes, sections (same order; name
    offset, type, flags, size, link, info, alignment, entry size, explicit address, data) and segments
    (type, flags, addresses, alignment ≥ requested, ELF64 memory size ≥ given).
Hypotheses of 4: save succeeded into a non-failed unbudgeted stream; no address translation;
`LayoutOk` (= C04's `layout_disjoint`, taken as a hypothesis: the written ranges are pairwise disjoint,
offsets < 2^63) — so all rungs (no segments / flat / nested) are covered at once; `FieldsFit`.
`layoutOk_of_zones` derives `LayoutOk` from exactly the conclusions of C04's `layout_disjoint` plus
table bookkeeping.  Not proved here: `LayoutOk` itself (C04); section *names* as strings of the reloaded file are the
composition of `sectionsAdd_name` (offset points at the name in the table) with the data clause of
`save_decode_fields` for the `.shstrtab` section and C08's `get_refines` — not spelled out as one
theorem; compression interfaces are outside the model.
-/
import ElfioVerif.Lemmas.Save
import ElfioVerif.Props.C02
import ElfioVerif.Props.C08
namespace ElfioVerif.C03
open Gen
open Sv

/-! ### 1. records: what the writer emits is the specification encoding, field by field -/

/-- the bytes of field `name` of record `r` are the specification encoding (`encodeInt` in the
    declared byte order, at the gABI offset and width of table `l`) of `v` -/
def IsSpecField (l : Spec.Layout) (enc : Enc) (r : Bytes) (name : String) (v : Nat) : Prop :=
  slice r (Spec.field l name).1 (Spec.field l name).2 = encodeInt enc (Spec.field l name).2 v

theorem isSpecField_idx (l : Spec.Layout) (enc : Enc) (fs : List (Nat × Nat)) (name : String) (k : Nat)
    (hk : k < fs.length) (hf : Spec.field l name = (sumWidths (fs.take k), fs[k].1)) :
    IsSpecField l enc (encodeFields enc fs) name fs[k].2 := by
  unfold IsSpecField
  rw [hf]
  have h := slice_encodeFields enc (fs.take k) fs[k].1 fs[k].2 (fs.drop (k + 1))
  have e : fs.take k ++ (fs[k].1, fs[k].2) :: fs.drop (k + 1) = fs := by
    have : (fs[k].1, fs[k].2) = fs[k] := rfl
    rw [this, List.getElem_cons_drop, List.take_append_drop]
  rw [e] at h
  exact h

/-- reading a spec-encoded field back with the specification decoder gives the value (mod width) -/
theorem get_of_isSpecField {l : Spec.Layout} {enc : Enc} {r : Bytes} {name : String} {v : Nat}
    (h : IsSpecField l enc r name v) :
    Spec.get l enc r 0 name = v % 2 ^ (8 * (Spec.field l name).2) := by
  have hf : Spec.field l name = ((Spec.field l name).1, (Spec.field l name).2) := rfl
  unfold IsSpecField at h
  rw [C02.get_of_field hf, Nat.zero_add, h, decode_encodeInt]

/-- a record found at `base` of an image reads the same as the record alone -/
theorem get_at_base {l : Spec.Layout} {enc : Enc} {img r : Bytes} {base n : Nat} {name : String}
    (hs : slice img base n = r) (hf : (Spec.field l name).1 + (Spec.field l name).2 ≤ n) :
    Spec.get l enc img base name = Spec.get l enc r 0 name := by
  have hf' : Spec.field l name = ((Spec.field l name).1, (Spec.field l name).2) := rfl
  rw [C02.get_of_field hf', C02.get_of_field hf', ← hs, Nat.zero_add, slice_slice hf]

theorem wrField1 (e x) : wrField e 1 x = encodeInt e 1 x := wrField_eq e 1 x (by decide)
theorem wrField2 (e x) : wrField e 2 x = encodeInt e 2 x := wrField_eq e 2 x (by decide)
theorem wrField4 (e x) : wrField e 4 x = encodeInt e 4 x := wrField_eq e 4 x (by decide)
theorem wrField8 (e x) : wrField e 8 x = encodeInt e 8 x := wrField_eq e 8 x (by decide)

/-- the section header record as (width, value) pairs in gABI order -/
def shdrFields (c : Cls) (b : SecBuf) : List (Nat × Nat) :=
  match c with
  | .c32 => [(4, b.nameOff.toNat), (4, b.stype.toNat), (4, b.flags.toNat), (4, b.addr.toNat),
      (4, b.offset.toNat), (4, b.size.toNat), (4, b.link.toNat), (4, b.info.toNat),
      (4, b.addrAlign.toNat), (4, b.entSize.toNat)]
  | .c64 => [(4, b.nameOff.toNat), (4, b.stype.toNat), (8, b.flags.toNat), (8, b.addr.toNat),
      (8, b.offset.toNat), (8, b.size.toNat), (4, b.link.toNat), (4, b.info.toNat),
      (8, b.addrAlign.toNat), (8, b.entSize.toNat)]

def phdrFields (c : Cls) (g : Seg) : List (Nat × Nat) :=
  match c with
  | .c32 => [(4, g.stype.toNat), (4, g.offset.toNat), (4, g.vaddr.toNat), (4, g.paddr.toNat),
      (4, g.filesz.toNat), (4, g.memsz.toNat), (4, g.flags.toNat), (4, g.align.toNat)]
  | .c64 => [(4, g.stype.toNat), (4, g.flags.toNat), (8, g.offset.toNat), (8, g.vaddr.toNat),
      (8, g.paddr.toNat), (8, g.filesz.toNat), (8, g.memsz.toNat), (8, g.align.toNat)]

theorem encodeShdr_eq_fields (c : Cls) (enc : Enc) (b : SecBuf) :
    encodeShdr c enc b = encodeFields enc (shdrFields c b) := by
  cases c <;>
    simp only [encodeShdr, shdrFields, encodeFields, wrField4, wrField8, List.append_assoc, List.append_nil]

theorem encodePhdr_eq_fields (c : Cls) (enc : Enc) (g : Seg) :
    encodePhdr c enc g = encodeFields enc (phdrFields c g) := by
  cases c <;>
    simp only [encodePhdr, phdrFields, encodeFields, wrField4, wrField8, List.append_assoc, List.append_nil]

theorem encodeShdr_length (c : Cls) (enc : Enc) (b : SecBuf) : (encodeShdr c enc b).length = shdrSize c := by
  rw [encodeShdr_eq_fields, encodeFields_length]; cases c <;> rfl

theorem encodePhdr_length (c : Cls) (enc : Enc) (g : Seg) : (encodePhdr c enc g).length = phdrSize c := by
  rw [encodePhdr_eq_fields, encodeFields_length]; cases c <;> rfl

/-- **the section header record is the specification encoding of the section's fields**: every
    field sits at the gABI offset with the gABI width, encoded (`encodeInt`) in the byte order `enc`
    — the order the object was created with and that `e_ident[EI_DATA]` declares (`create_inv`). -/
theorem encodeShdr_spec_bytes (c : Cls) (enc : Enc) (b : SecBuf) :
    IsSpecField (Spec.shdrL c) enc (encodeShdr c enc b) "sh_name" b.nameOff.toNat ∧
    IsSpecField (Spec.shdrL c) enc (encodeShdr c enc b) "sh_type" b.stype.toNat ∧
    IsSpecField (Spec.shdrL c) enc (encodeShdr c enc b) "sh_flags" b.flags.toNat ∧
    IsSpecField (Spec.shdrL c) enc (encodeShdr c enc b) "sh_addr" b.addr.toNat ∧
    IsSpecField (Spec.shdrL c) enc (encodeShdr c enc b) "sh_offset" b.offset.toNat ∧
    IsSpecField (Spec.shdrL c) enc (encodeShdr c enc b) "sh_size" b.size.toNat ∧
    IsSpecField (Spec.shdrL c) enc (encodeShdr c enc b) "sh_link" b.link.toNat ∧
    IsSpecField (Spec.shdrL c) enc (encodeShdr c enc b) "sh_info" b.info.toNat ∧
    IsSpecField (Spec.shdrL c) enc (encodeShdr c enc b) "sh_addralign" b.addrAlign.toNat ∧
    IsSpecField (Spec.shdrL c) enc (encodeShdr c enc b) "sh_entsize" b.entSize.toNat := by
  rw [encodeShdr_eq_fields]
  cases c
  · exact ⟨isSpecField_idx Spec.shdr32 enc (shdrFields .c32 b) "sh_name" 0 (by simp [shdrFields]) rfl,
      isSpecField_idx Spec.shdr32 enc (shdrFields .c32 b) "sh_type" 1 (by simp [shdrFields]) rfl,
      isSpecField_idx Spec.shdr32 enc (shdrFields .c32 b) "sh_flags" 2 (by simp [shdrFields]) rfl,
      isSpecField_idx Spec.shdr32 enc (shdrFields .c32 b) "sh_addr" 3 (by simp [shdrFields]) rfl,
      isSpecField_idx Spec.shdr32 enc (shdrFields .c32 b) "sh_offset" 4 (by simp [shdrFields]) rfl,
      isSpecField_idx Spec.shdr32 enc (shdrFields .c32 b) "sh_size" 5 (by simp [shdrFields]) rfl,
      isSpecField_idx Spec.shdr32 enc (shdrFields .c32 b) "sh_link" 6 (by simp [shdrFields]) rfl,
      isSpecField_idx Spec.shdr32 enc (shdrFields .c32 b) "sh_info" 7 (by simp [shdrFields]) rfl,
      isSpecField_idx Spec.shdr32 enc (shdrFields .c32 b) "sh_addralign" 8 (by simp [shdrFields]) rfl,
      isSpecField_idx Spec.shdr32 enc (shdrFields .c32 b) "sh_entsize" 9 (by simp [shdrFields]) rfl⟩
  · exact ⟨isSpecField_idx Spec.shdr64 enc (shdrFields .c64 b) "sh_name" 0 (by simp [shdrFields]) rfl,
      isSpecField_idx Spec.shdr64 enc (shdrFields .c64 b) "sh_type" 1 (by simp [shdrFields]) rfl,
      isSpecField_idx Spec.shdr64 enc (shdrFields .c64 b) "sh_flags" 2 (by simp [shdrFields]) rfl,
      isSpecField_idx Spec.shdr64 enc (shdrFields .c64 b) "sh_addr" 3 (by simp [shdrFields]) rfl,
      isSpecField_idx Spec.shdr64 enc (shdrFields .c64 b) "sh_offset" 4 (by simp [shdrFields]) rfl,
      isSpecField_idx Spec.shdr64 enc (shdrFields .c64 b) "sh_size" 5 (by simp [shdrFields]) rfl,
      isSpecField_idx Spec.shdr64 enc (shdrFields .c64 b) "sh_link" 6 (by simp [shdrFields]) rfl,
      isSpecField_idx Spec.shdr64 enc (shdrFields .c64 b) "sh_info" 7 (by simp [shdrFields]) rfl,
      isSpecField_idx Spec.shdr64 enc (shdrFields .c64 b) "sh_addralign" 8 (by simp [shdrFields]) rfl,
      isSpecField_idx Spec.shdr64 enc (shdrFields .c64 b) "sh_entsize" 9 (by simp [shdrFields]) rfl⟩

/-- **the program header record is the specification encoding of the segment's fields** -/
theorem encodePhdr_spec_bytes (c : Cls) (enc : Enc) (g : Seg) :
    IsSpecField (Spec.phdrL c) enc (encodePhdr c enc g) "p_type" g.stype.toNat ∧
    IsSpecField (Spec.phdrL c) enc (encodePhdr c enc g) "p_flags" g.flags.toNat ∧
    IsSpecField (Spec.phdrL c) enc (encodePhdr c enc g) "p_offset" g.offset.toNat ∧
    IsSpecField (Spec.phdrL c) enc (encodePhdr c enc g) "p_vaddr" g.vaddr.toNat ∧
    IsSpecField (Spec.phdrL c) enc (encodePhdr c enc g) "p_paddr" g.paddr.toNat ∧
    IsSpecField (Spec.phdrL c) enc (encodePhdr c enc g) "p_filesz" g.filesz.toNat ∧
    IsSpecField (Spec.phdrL c) enc (encodePhdr c enc g) "p_memsz" g.memsz.toNat ∧
    IsSpecField (Spec.phdrL c) enc (encodePhdr c enc g) "p_align" g.align.toNat := by
  rw [encodePhdr_eq_fields]
  cases c
  · exact ⟨isSpecField_idx Spec.phdr32 enc (phdrFields .c32 g) "p_type" 0 (by simp [phdrFields]) rfl,
      isSpecField_idx Spec.phdr32 enc (phdrFields .c32 g) "p_flags" 6 (by simp [phdrFields]) rfl,
      isSpecField_idx Spec.phdr32 enc (phdrFields .c32 g) "p_offset" 1 (by simp [phdrFields]) rfl,
      isSpecField_idx Spec.phdr32 enc (phdrFields .c32 g) "p_vaddr" 2 (by simp [phdrFields]) rfl,
      isSpecField_idx Spec.phdr32 enc (phdrFields .c32 g) "p_paddr" 3 (by simp [phdrFields]) rfl,
      isSpecField_idx Spec.phdr32 enc (phdrFields .c32 g) "p_filesz" 4 (by simp [phdrFields]) rfl,
      isSpecField_idx Spec.phdr32 enc (phdrFields .c32 g) "p_memsz" 5 (by simp [phdrFields]) rfl,
      isSpecField_idx Spec.phdr32 enc (phdrFields .c32 g) "p_align" 7 (by simp [phdrFields]) rfl⟩
  · exact ⟨isSpecField_idx Spec.phdr64 enc (phdrFields .c64 g) "p_type" 0 (by simp [phdrFields]) rfl,
      isSpecField_idx Spec.phdr64 enc (phdrFields .c64 g) "p_flags" 1 (by simp [phdrFields]) rfl,
      isSpecField_idx Spec.phdr64 enc (phdrFields .c64 g) "p_offset" 2 (by simp [phdrFields]) rfl,
      isSpecField_idx Spec.phdr64 enc (phdrFields .c64 g) "p_vaddr" 3 (by simp [phdrFields]) rfl,
      isSpecField_idx Spec.phdr64 enc (phdrFields .c64 g) "p_paddr" 4 (by simp [phdrFields]) rfl,
      isSpecField_idx Spec.phdr64 enc (phdrFields .c64 g) "p_filesz" 5 (by simp [phdrFields]) rfl,
      isSpecField_idx Spec.phdr64 enc (phdrFields .c64 g) "p_memsz" 6 (by simp [phdrFields]) rfl,
      isSpecField_idx Spec.phdr64 enc (phdrFields .c64 g) "p_align" 7 (by simp [phdrFields]) rfl⟩

/-- the values fit the class's field widths.  ELF64: always.  ELF32: the six address-sized
    fields are below 2^32 — which every setter guarantees by truncating (`truncA`, `setSize`). -/
structure FieldsFit (c : Cls) (b : SecBuf) : Prop where
  flags : c = .c32 → b.flags.toNat < 4294967296
  addr : c = .c32 → b.addr.toNat < 4294967296
  offset : c = .c32 → b.offset.toNat < 4294967296
  size : c = .c32 → b.size.toNat < 4294967296
  addrAlign : c = .c32 → b.addrAlign.toNat < 4294967296
  entSize : c = .c32 → b.entSize.toNat < 4294967296

structure SegFit (c : Cls) (g : Seg) : Prop where
  offset : c = .c32 → g.offset.toNat < 4294967296
  vaddr : c = .c32 → g.vaddr.toNat < 4294967296
  paddr : c = .c32 → g.paddr.toNat < 4294967296
  filesz : c = .c32 → g.filesz.toNat < 4294967296
  memsz : c = .c32 → g.memsz.toNat < 4294967296
  align : c = .c32 → g.align.toNat < 4294967296

theorem fieldsFit_c64 (b : SecBuf) : FieldsFit .c64 b := by constructor <;> intro h <;> cases h
theorem segFit_c64 (g : Seg) : SegFit .c64 g := by constructor <;> intro h <;> cases h

theorem truncA_fit (c : Cls) (v : BitVec 64) : c = .c32 → (truncA c v).toNat < 4294967296 := by
  intro h; subst h
  simp only [truncA, BitVec.toNat_setWidth, Nat.reducePow]
  omega

private theorem get32 {l : Spec.Layout} {enc : Enc} {r : Bytes} {name : String} {x : BitVec 32}
    (h : IsSpecField l enc r name x.toNat) (hw : (Spec.field l name).2 = 4) :
    Spec.get l enc r 0 name = x.toNat := by
  rw [get_of_isSpecField h, hw]; have := x.isLt; simp only [Nat.reducePow, Nat.reduceMul] at *; omega

private theorem get64 {l : Spec.Layout} {enc : Enc} {r : Bytes} {name : String} {x : BitVec 64}
    (h : IsSpecField l enc r name x.toNat) (hw : (Spec.field l name).2 = 8) :
    Spec.get l enc r 0 name = x.toNat := by
  rw [get_of_isSpecField h, hw]; have := x.isLt; simp only [Nat.reducePow, Nat.reduceMul] at *; omega

private theorem get64' {l : Spec.Layout} {enc : Enc} {r : Bytes} {name : String} {x : BitVec 64}
    (h : IsSpecField l enc r name x.toNat) (hw : (Spec.field l name).2 = 4) (hx : x.toNat < 4294967296) :
    Spec.get l enc r 0 name = x.toNat := by
  rw [get_of_isSpecField h, hw]; simp only [Nat.reducePow, Nat.reduceMul] at *; omega

/-- **encodeShdr_eq_spec** : reading the emitted section header record with the *specification*
    decoder (gABI offsets/widths of Spec/Records.lean, byte order `enc`) returns exactly the
    section's fields. -/
theorem encodeShdr_eq_spec (c : Cls) (enc : Enc) (b : SecBuf) (hf : FieldsFit c b) :
    let r := encodeShdr c enc b; let l := Spec.shdrL c
    Spec.get l enc r 0 "sh_name" = b.nameOff.toNat ∧ Spec.get l enc r 0 "sh_type" = b.stype.toNat ∧
    Spec.get l enc r 0 "sh_flags" = b.flags.toNat ∧ Spec.get l enc r 0 "sh_addr" = b.addr.toNat ∧
    Spec.get l enc r 0 "sh_offset" = b.offset.toNat ∧ Spec.get l enc r 0 "sh_size" = b.size.toNat ∧
    Spec.get l enc r 0 "sh_link" = b.link.toNat ∧ Spec.get l enc r 0 "sh_info" = b.info.toNat ∧
    Spec.get l enc r 0 "sh_addralign" = b.addrAlign.toNat ∧ Spec.get l enc r 0 "sh_entsize" = b.entSize.toNat := by
  obtain ⟨h0, h1, h2, h3, h4, h5, h6, h7, h8, h9⟩ := encodeShdr_spec_bytes c enc b
  cases c
  · exact ⟨get32 h0 rfl, get32 h1 rfl, get64' h2 rfl (hf.flags rfl), get64' h3 rfl (hf.addr rfl),
      get64' h4 rfl (hf.offset rfl), get64' h5 rfl (hf.size rfl), get32 h6 rfl, get32 h7 rfl,
      get64' h8 rfl (hf.addrAlign rfl), get64' h9 rfl (hf.entSize rfl)⟩
  · exact ⟨get32 h0 rfl, get32 h1 rfl, get64 h2 rfl, get64 h3 rfl, get64 h4 rfl, get64 h5 rfl,
      get32 h6 rfl, get32 h7 rfl, get64 h8 rfl, get64 h9 rfl⟩

/-- **encodePhdr_eq_spec** -/
theorem encodePhdr_eq_spec (c : Cls) (enc : Enc) (g : Seg) (hf : SegFit c g) :
    let r := encodePhdr c enc g; let l := Spec.phdrL c
    Spec.get l enc r 0 "p_type" = g.stype.toNat ∧ Spec.get l enc r 0 "p_flags" = g.flags.toNat ∧
    Spec.get l enc r 0 "p_offset" = g.offset.toNat ∧ Spec.get l enc r 0 "p_vaddr" = g.vaddr.toNat ∧
    Spec.get l enc r 0 "p_paddr" = g.paddr.toNat ∧ Spec.get l enc r 0 "p_filesz" = g.filesz.toNat ∧
    Spec.get l enc r 0 "p_memsz" = g.memsz.toNat ∧ Spec.get l enc r 0 "p_align" = g.align.toNat := by
  obtain ⟨h0, h1, h2, h3, h4, h5, h6, h7⟩ := encodePhdr_spec_bytes c enc g
  cases c
  · exact ⟨get32 h0 rfl, get32 h1 rfl, get64' h2 rfl (hf.offset rfl), get64' h3 rfl (hf.vaddr rfl),
      get64' h4 rfl (hf.paddr rfl), get64' h5 rfl (hf.filesz rfl), get64' h6 rfl (hf.memsz rfl),
      get64' h7 rfl (hf.align rfl)⟩
  · exact ⟨get32 h0 rfl, get32 h1 rfl, get64 h2 rfl, get64 h3 rfl, get64 h4 rfl, get64 h5 rfl,
      get64 h6 rfl, get64 h7 rfl⟩

/-- **decode ∘ encode = id** on the ten header fields (the model's decoder is the specification's:
    `C02.shdr_fields_eq_spec`) -/
theorem decodeShdr_encodeShdr (c : Cls) (enc : Enc) (b b0 : SecBuf) (hf : FieldsFit c b) :
    let s := decodeShdr c enc (encodeShdr c enc b) b0
    s.nameOff = b.nameOff ∧ s.stype = b.stype ∧ s.flags = b.flags ∧ s.addr = b.addr ∧
    s.offset = b.offset ∧ s.size = b.size ∧ s.link = b.link ∧ s.info = b.info ∧
    s.addrAlign = b.addrAlign ∧ s.entSize = b.entSize := by
  obtain ⟨d0, d1, d2, d3, d4, d5, d6, d7, d8, d9⟩ :=
    C02.shdr_fields_eq_spec c enc (encodeShdr c enc b) b0 (by rw [encodeShdr_length]; exact Nat.le_refl _)
  obtain ⟨h0, h1, h2, h3, h4, h5, h6, h7, h8, h9⟩ := encodeShdr_eq_spec c enc b hf
  exact ⟨BitVec.eq_of_toNat_eq (d0.trans h0), BitVec.eq_of_toNat_eq (d1.trans h1),
    BitVec.eq_of_toNat_eq (d2.trans h2), BitVec.eq_of_toNat_eq (d3.trans h3),
    BitVec.eq_of_toNat_eq (d4.trans h4), BitVec.eq_of_toNat_eq (d5.trans h5),
    BitVec.eq_of_toNat_eq (d6.trans h6), BitVec.eq_of_toNat_eq (d7.trans h7),
    BitVec.eq_of_toNat_eq (d8.trans h8), BitVec.eq_of_toNat_eq (d9.trans h9)⟩

theorem decodePhdr_encodePhdr (c : Cls) (enc : Enc) (g g0 : Seg) (hf : SegFit c g) :
    let s := decodePhdr c enc (encodePhdr c enc g) g0
    s.stype = g.stype ∧ s.flags = g.flags ∧ s.offset = g.offset ∧ s.vaddr = g.vaddr ∧
    s.paddr = g.paddr ∧ s.filesz = g.filesz ∧ s.memsz = g.memsz ∧ s.align = g.align := by
  obtain ⟨d0, d1, d2, d3, d4, d5, d6, d7⟩ :=
    C02.phdr_fields_eq_spec c enc (encodePhdr c enc g) g0 (by rw [encodePhdr_length]; exact Nat.le_refl _)
  obtain ⟨h0, h1, h2, h3, h4, h5, h6, h7⟩ := encodePhdr_eq_spec c enc g hf
  exact ⟨BitVec.eq_of_toNat_eq (d0.trans h0), BitVec.eq_of_toNat_eq (d1.trans h1),
    BitVec.eq_of_toNat_eq (d2.trans h2), BitVec.eq_of_toNat_eq (d3.trans h3),
    BitVec.eq_of_toNat_eq (d4.trans h4), BitVec.eq_of_toNat_eq (d5.trans h5),
    BitVec.eq_of_toNat_eq (d6.trans h6), BitVec.eq_of_toNat_eq (d7.trans h7)⟩

/-- non-vacuity: a concrete ELF32 section meets `FieldsFit`, and its big-endian record starts with
    the name offset in big-endian order -/
example : FieldsFit .c32 { SecBuf.fresh .c32 1 with nameOff := 0x0102, flags := 6, addr := 0x8000, size := 12 } := by
  constructor <;> intro _ <;> decide
example : (encodeShdr .c32 .msb { SecBuf.fresh .c32 1 with nameOff := 0x0102 }).take 4 = [0, 0, 1, 2] := by decide
example : (encodeShdr .c32 .lsb { SecBuf.fresh .c32 1 with nameOff := 0x0102 }).take 4 = [2, 1, 0, 0] := by decide

/-! ### 2. ELF header setters -/

/-- the header fields with a setter -/
inductive HField | type | machine | version | entry | phoff | shoff | flags | phnum | shnum | shstrndx
  deriving DecidableEq, Repr

namespace HField
/-- gABI field name -/
def name : HField → String
  | .type => "e_type"
  | .machine => "e_machine"
  | .version => "e_version"
  | .entry => "e_entry"
  | .phoff => "e_phoff"
  | .shoff => "e_shoff"
  | .flags => "e_flags"
  | .phnum => "e_phnum"
  | .shnum => "e_shnum"
  | .shstrndx => "e_shstrndx"
/-- the model's setter (`elf_header_impl::set_*`: truncate to the field type, convert, store) -/
def set : HField → Cls → Enc → Bytes → Nat → Bytes
  | .type => Hdr.set_type
  | .machine => Hdr.set_machine
  | .version => Hdr.set_version
  | .entry => Hdr.set_entry
  | .phoff => Hdr.set_phoff
  | .shoff => Hdr.set_shoff
  | .flags => Hdr.set_flags
  | .phnum => Hdr.set_phnum
  | .shnum => Hdr.set_shnum
  | .shstrndx => Hdr.set_shstrndx
end HField

/-- a field name of the table -/
def ValidName (l : Spec.Layout) (name : String) : Prop := (l.find? (fun e => e.1 == name)).isSome = true
instance (l : Spec.Layout) (name : String) : Decidable (ValidName l name) := by unfold ValidName; infer_instance

theorem field_of_valid {l : Spec.Layout} {name : String} (h : ValidName l name) :
    ∃ e ∈ l, e.1 = name ∧ Spec.field l name = e.2 := by
  unfold ValidName at h
  unfold Spec.field
  cases hf : l.find? (fun e => e.1 == name) with
  | none => rw [hf] at h; cases h
  | some e =>
    refine ⟨e, List.mem_of_find?_eq_some hf, ?_, rfl⟩
    have := List.find?_some hf
    simpa using this

/-- the gABI ELF header table: distinct names occupy disjoint byte ranges inside the header -/
theorem ehdr_table_ok (c : Cls) :
    (∀ e1 ∈ Spec.ehdrL c, ∀ e2 ∈ Spec.ehdrL c, e1.1 ≠ e2.1 →
      e1.2.1 + e1.2.2 ≤ e2.2.1 ∨ e2.2.1 + e2.2.2 ≤ e1.2.1) ∧
    (∀ e ∈ Spec.ehdrL c, e.2.1 + e.2.2 ≤ Spec.ehdrSize c) := by
  cases c <;> decide

theorem hfield_valid (f : HField) (c : Cls) : ValidName (Spec.ehdrL c) f.name := by
  cases f <;> cases c <;> decide

/-- every setter stores the specification encoding of (the truncation of) its argument at the
    field's gABI position -/
theorem hdr_set_eq_wr (f : HField) (c : Cls) (enc : Enc) (h : Bytes) (v : Nat) :
    f.set c enc h v = wr h (Spec.field (Spec.ehdrL c) f.name).1
      (encodeInt enc (Spec.field (Spec.ehdrL c) f.name).2 v) := by
  cases f <;> cases c <;>
    (show wr h _ (wrField enc _ v) = _; rw [wrField_eq _ _ _ (by decide)]; rfl)

theorem hdr_set_length (f : HField) (c : Cls) (enc : Enc) (h : Bytes) (v : Nat)
    (hl : ehdrSize c ≤ h.length) : (f.set c enc h v).length = h.length := by
  rw [hdr_set_eq_wr]
  obtain ⟨e, he, _, hf⟩ := field_of_valid (hfield_valid f c)
  have := (ehdr_table_ok c).2 e he
  rw [(sizes_eq c).1] at hl
  apply wr_length
  rw [encodeInt_length, hf]; omega

/-- **hdr_set_get** (specification level): after a setter, the specification decoder reads the
    truncated argument from that field -/
theorem hdr_set_get_spec (f : HField) (c : Cls) (enc : Enc) (h : Bytes) (v : Nat)
    (hl : ehdrSize c ≤ h.length) :
    Spec.get (Spec.ehdrL c) enc (f.set c enc h v) 0 f.name =
      v % 2 ^ (8 * (Spec.field (Spec.ehdrL c) f.name).2) := by
  apply get_of_isSpecField
  unfold IsSpecField
  rw [hdr_set_eq_wr]
  obtain ⟨e, he, _, hf⟩ := field_of_valid (hfield_valid f c)
  have := (ehdr_table_ok c).2 e he
  rw [(sizes_eq c).1] at hl
  have h1 := slice_wr_same h (encodeInt enc (Spec.field (Spec.ehdrL c) f.name).2 v)
    (Spec.field (Spec.ehdrL c) f.name).1 (by rw [encodeInt_length, hf]; omega)
  rw [encodeInt_length] at h1
  exact h1

/-- **hdr_set_frame** (specification level): every other field of the header reads as before -/
theorem hdr_set_frame_spec (f : HField) (c : Cls) (enc : Enc) (h : Bytes) (v : Nat)
    (hl : ehdrSize c ≤ h.length) (name : String) (hv : ValidName (Spec.ehdrL c) name)
    (hne : name ≠ f.name) :
    Spec.get (Spec.ehdrL c) enc (f.set c enc h v) 0 name = Spec.get (Spec.ehdrL c) enc h 0 name := by
  obtain ⟨e, he, hen, hf⟩ := field_of_valid (hfield_valid f c)
  obtain ⟨e', he', hen', hf'⟩ := field_of_valid hv
  have hb := (ehdr_table_ok c).2 e he
  have hd := (ehdr_table_ok c).1 e' he' e he (by rw [hen, hen']; exact hne)
  rw [(sizes_eq c).1] at hl
  have p : Spec.field (Spec.ehdrL c) name = ((Spec.field (Spec.ehdrL c) name).1, (Spec.field (Spec.ehdrL c) name).2) := rfl
  rw [C02.get_of_field p, C02.get_of_field p, hdr_set_eq_wr, Nat.zero_add]
  rw [slice_wr_other _ _ _ _ _ (by rw [encodeInt_length, hf]; omega)
    (by rw [encodeInt_length, hf, hf']; omega)]

theorem hfield_name_inj {f g : HField} (h : f.name = g.name) : f = g := by
  cases f <;> cases g <;> first | rfl | (revert h; decide)

/-- the bytes of the field a setter wrote -/
theorem set_slice_same (f : HField) (c : Cls) (enc : Enc) (h : Bytes) (v : Nat) (hl : ehdrSize c ≤ h.length) :
    slice (f.set c enc h v) (Spec.field (Spec.ehdrL c) f.name).1 (Spec.field (Spec.ehdrL c) f.name).2 =
      encodeInt enc (Spec.field (Spec.ehdrL c) f.name).2 v := by
  rw [hdr_set_eq_wr]
  obtain ⟨e, he, _, hf⟩ := field_of_valid (hfield_valid f c)
  have := (ehdr_table_ok c).2 e he
  rw [(sizes_eq c).1] at hl
  have h1 := slice_wr_same h (encodeInt enc (Spec.field (Spec.ehdrL c) f.name).2 v)
    (Spec.field (Spec.ehdrL c) f.name).1 (by rw [encodeInt_length, hf]; omega)
  rw [encodeInt_length] at h1
  exact h1

/-- the bytes of any other field are untouched -/
theorem set_slice_other (f : HField) (c : Cls) (enc : Enc) (h : Bytes) (v : Nat) (hl : ehdrSize c ≤ h.length)
    (name : String) (hv : ValidName (Spec.ehdrL c) name) (hne : name ≠ f.name) :
    slice (f.set c enc h v) (Spec.field (Spec.ehdrL c) name).1 (Spec.field (Spec.ehdrL c) name).2 =
      slice h (Spec.field (Spec.ehdrL c) name).1 (Spec.field (Spec.ehdrL c) name).2 := by
  obtain ⟨e, he, hen, hf⟩ := field_of_valid (hfield_valid f c)
  obtain ⟨e', he', hen', hf'⟩ := field_of_valid hv
  have hb := (ehdr_table_ok c).2 e he
  have hd := (ehdr_table_ok c).1 e' he' e he (by rw [hen, hen']; exact hne)
  rw [(sizes_eq c).1] at hl
  rw [hdr_set_eq_wr]
  exact slice_wr_other _ _ _ _ _ (by rw [encodeInt_length, hf]; omega) (by rw [encodeInt_length, hf, hf']; omega)

/-- setting a field to the value it holds changes nothing -/
theorem set_absorb (f : HField) (c : Cls) (enc : Enc) (h : Bytes) (v : Nat) (hl : ehdrSize c ≤ h.length)
    (hs : slice h (Spec.field (Spec.ehdrL c) f.name).1 (Spec.field (Spec.ehdrL c) f.name).2 =
      encodeInt enc (Spec.field (Spec.ehdrL c) f.name).2 v) : f.set c enc h v = h := by
  rw [hdr_set_eq_wr]
  obtain ⟨e, he, _, hf⟩ := field_of_valid (hfield_valid f c)
  have := (ehdr_table_ok c).2 e he
  rw [(sizes_eq c).1] at hl
  apply wr_self
  · rw [encodeInt_length, hf]; omega
  · rw [encodeInt_length]; exact hs

/-- the later of two calls of the same setter wins -/
theorem set_set (f : HField) (c : Cls) (enc : Enc) (h : Bytes) (v w : Nat) (hl : ehdrSize c ≤ h.length) :
    f.set c enc (f.set c enc h v) w = f.set c enc h w := by
  rw [hdr_set_eq_wr f c enc (f.set c enc h v), hdr_set_eq_wr f c enc h v, hdr_set_eq_wr f c enc h w]
  obtain ⟨e, he, _, hf⟩ := field_of_valid (hfield_valid f c)
  have := (ehdr_table_ok c).2 e he
  rw [(sizes_eq c).1] at hl
  apply wr_wr_same
  · rw [encodeInt_length, hf]; omega
  · rw [encodeInt_length, encodeInt_length]

private theorem bv_eq_of {n} {x y : BitVec n} {a b : Nat} (hx : x.toNat = a) (hy : y.toNat = b) (h : a = b) :
    x = y := BitVec.eq_of_toNat_eq (by rw [hx, hy, h])

/-- **hdr_set_frame** (getter level): a setter changes no *other* getter's answer -/
theorem hdr_set_frame (f : HField) (c : Cls) (enc : Enc) (h : Bytes) (v : Nat) (hl : ehdrSize c ≤ h.length) :
    (f.name ≠ "e_type" → Hdr.e_type c enc (f.set c enc h v) = Hdr.e_type c enc h) ∧
    (f.name ≠ "e_machine" → Hdr.e_machine c enc (f.set c enc h v) = Hdr.e_machine c enc h) ∧
    (f.name ≠ "e_version" → Hdr.e_version c enc (f.set c enc h v) = Hdr.e_version c enc h) ∧
    (f.name ≠ "e_entry" → Hdr.e_entry c enc (f.set c enc h v) = Hdr.e_entry c enc h) ∧
    (f.name ≠ "e_phoff" → Hdr.e_phoff c enc (f.set c enc h v) = Hdr.e_phoff c enc h) ∧
    (f.name ≠ "e_shoff" → Hdr.e_shoff c enc (f.set c enc h v) = Hdr.e_shoff c enc h) ∧
    (f.name ≠ "e_flags" → Hdr.e_flags c enc (f.set c enc h v) = Hdr.e_flags c enc h) ∧
    (f.name ≠ "e_ehsize" → Hdr.e_ehsize c enc (f.set c enc h v) = Hdr.e_ehsize c enc h) ∧
    (f.name ≠ "e_phentsize" → Hdr.e_phentsize c enc (f.set c enc h v) = Hdr.e_phentsize c enc h) ∧
    (f.name ≠ "e_phnum" → Hdr.e_phnum c enc (f.set c enc h v) = Hdr.e_phnum c enc h) ∧
    (f.name ≠ "e_shentsize" → Hdr.e_shentsize c enc (f.set c enc h v) = Hdr.e_shentsize c enc h) ∧
    (f.name ≠ "e_shnum" → Hdr.e_shnum c enc (f.set c enc h v) = Hdr.e_shnum c enc h) ∧
    (f.name ≠ "e_shstrndx" → Hdr.e_shstrndx c enc (f.set c enc h v) = Hdr.e_shstrndx c enc h) := by
  have hl' : ehdrSize c ≤ (f.set c enc h v).length := by rw [hdr_set_length f c enc h v hl]; exact hl
  obtain ⟨a0, a1, a2, a3, a4, a5, a6, a7, a8, a9, a10, a11, a12⟩ := C02.ehdr_fields_eq_spec c enc h hl
  obtain ⟨b0, b1, b2, b3, b4, b5, b6, b7, b8, b9, b10, b11, b12⟩ := C02.ehdr_fields_eq_spec c enc (f.set c enc h v) hl'
  have fr : ∀ name, ValidName (Spec.ehdrL c) name → f.name ≠ name →
      Spec.get (Spec.ehdrL c) enc (f.set c enc h v) 0 name = Spec.get (Spec.ehdrL c) enc h 0 name :=
    fun name hv hne => hdr_set_frame_spec f c enc h v hl name hv (fun e => hne e.symm)
  exact ⟨fun hn => bv_eq_of b0 a0 (fr _ (by cases c <;> decide) hn),
    fun hn => bv_eq_of b1 a1 (fr _ (by cases c <;> decide) hn),
    fun hn => bv_eq_of b2 a2 (fr _ (by cases c <;> decide) hn),
    fun hn => bv_eq_of b3 a3 (fr _ (by cases c <;> decide) hn),
    fun hn => bv_eq_of b4 a4 (fr _ (by cases c <;> decide) hn),
    fun hn => bv_eq_of b5 a5 (fr _ (by cases c <;> decide) hn),
    fun hn => bv_eq_of b6 a6 (fr _ (by cases c <;> decide) hn),
    fun hn => bv_eq_of b7 a7 (fr _ (by cases c <;> decide) hn),
    fun hn => bv_eq_of b8 a8 (fr _ (by cases c <;> decide) hn),
    fun hn => bv_eq_of b9 a9 (fr _ (by cases c <;> decide) hn),
    fun hn => bv_eq_of b10 a10 (fr _ (by cases c <;> decide) hn),
    fun hn => bv_eq_of b11 a11 (fr _ (by cases c <;> decide) hn),
    fun hn => bv_eq_of b12 a12 (fr _ (by cases c <;> decide) hn)⟩

/-- **hdr_set_get** (getter level): each getter returns the argument of its setter truncated to
    the field's width -/
theorem hdr_set_get (c : Cls) (enc : Enc) (h : Bytes) (v : Nat) (hl : ehdrSize c ≤ h.length) :
    (Hdr.e_type c enc (Hdr.set_type c enc h v)).toNat = v % 65536 ∧
    (Hdr.e_machine c enc (Hdr.set_machine c enc h v)).toNat = v % 65536 ∧
    (Hdr.e_version c enc (Hdr.set_version c enc h v)).toNat = v % 4294967296 ∧
    (Hdr.e_entry c enc (Hdr.set_entry c enc h v)).toNat =
      v % (match c with | .c32 => 4294967296 | .c64 => 18446744073709551616) ∧
    (Hdr.e_phoff c enc (Hdr.set_phoff c enc h v)).toNat =
      v % (match c with | .c32 => 4294967296 | .c64 => 18446744073709551616) ∧
    (Hdr.e_shoff c enc (Hdr.set_shoff c enc h v)).toNat =
      v % (match c with | .c32 => 4294967296 | .c64 => 18446744073709551616) ∧
    (Hdr.e_flags c enc (Hdr.set_flags c enc h v)).toNat = v % 4294967296 ∧
    (Hdr.e_phnum c enc (Hdr.set_phnum c enc h v)).toNat = v % 65536 ∧
    (Hdr.e_shnum c enc (Hdr.set_shnum c enc h v)).toNat = v % 65536 ∧
    (Hdr.e_shstrndx c enc (Hdr.set_shstrndx c enc h v)).toNat = v % 65536 := by
  have g : ∀ f : HField, _ := fun f => hdr_set_get_spec f c enc h v hl
  have l : ∀ f : HField, ehdrSize c ≤ (f.set c enc h v).length :=
    fun f => by rw [hdr_set_length f c enc h v hl]; exact hl
  refine ⟨?_, ?_, ?_, ?_, ?_, ?_, ?_, ?_, ?_, ?_⟩
  · have t := (C02.ehdr_fields_eq_spec c enc (HField.type.set c enc h v) (l .type)).1; have e := g .type; cases c <;> exact t.trans e
  · have t := (C02.ehdr_fields_eq_spec c enc (HField.machine.set c enc h v) (l .machine)).2.1; have e := g .machine; cases c <;> exact t.trans e
  · have t := (C02.ehdr_fields_eq_spec c enc (HField.version.set c enc h v) (l .version)).2.2.1; have e := g .version; cases c <;> exact t.trans e
  · have t := (C02.ehdr_fields_eq_spec c enc (HField.entry.set c enc h v) (l .entry)).2.2.2.1; have e := g .entry; cases c <;> exact t.trans e
  · have t := (C02.ehdr_fields_eq_spec c enc (HField.phoff.set c enc h v) (l .phoff)).2.2.2.2.1; have e := g .phoff; cases c <;> exact t.trans e
  · have t := (C02.ehdr_fields_eq_spec c enc (HField.shoff.set c enc h v) (l .shoff)).2.2.2.2.2.1; have e := g .shoff; cases c <;> exact t.trans e
  · have t := (C02.ehdr_fields_eq_spec c enc (HField.flags.set c enc h v) (l .flags)).2.2.2.2.2.2.1; have e := g .flags; cases c <;> exact t.trans e
  · have t := (C02.ehdr_fields_eq_spec c enc (HField.phnum.set c enc h v) (l .phnum)).2.2.2.2.2.2.2.2.2.1; have e := g .phnum; cases c <;> exact t.trans e
  · have t := (C02.ehdr_fields_eq_spec c enc (HField.shnum.set c enc h v) (l .shnum)).2.2.2.2.2.2.2.2.2.2.2.1; have e := g .shnum; cases c <;> exact t.trans e
  · have t := (C02.ehdr_fields_eq_spec c enc (HField.shstrndx.set c enc h v) (l .shstrndx)).2.2.2.2.2.2.2.2.2.2.2.2; have e := g .shstrndx; cases c <;> exact t.trans e

/-- `set_ident`-style single byte stores (`e_ident[i]`): the byte reads back, others unchanged -/
theorem hdr_set_ident_get (h : Bytes) (i v : Nat) (hi : i < h.length) :
    Hdr.ident (Hdr.set_ident h i v) i = BitVec.ofNat 8 (v % 256) ∧
    ∀ j, j ≠ i → Hdr.ident (Hdr.set_ident h i v) j = Hdr.ident h j := by
  unfold Hdr.ident Hdr.set_ident
  constructor
  · rw [List.getD_eq_getElem?_getD, wr_getElem? _ _ _ _ (by simp only [List.length_cons, List.length_nil]; omega)]
    simp
  · intro j hj
    rw [List.getD_eq_getElem?_getD, List.getD_eq_getElem?_getD, wr_getElem? _ _ _ _ (by simp only [List.length_cons, List.length_nil]; omega)]
    simp only [List.length_cons, List.length_nil]
    ite_omega

example : Hdr.e_machine .c64 .msb (Hdr.set_machine .c64 .msb (Hdr.create .c64 .msb 2) 0x1003E) = 0x3E#16 := by decide

/-! ### 2b. construction through the API -/

def shstrtabName : Bytes := [46, 115, 104, 115, 116, 114, 116, 97, 98]     -- ".shstrtab"

theorem shstrtab_utf8 : ".shstrtab".toUTF8.toList = shstrtabName := by decide +kernel

/-- the section-name string table as `create` leaves it -/
def shstrtab0 (c : Cls) (te : Bool) : SecBuf :=
  { cls := c, stype := BitVec.ofNat 32 SHT_STRTAB, size := 11,
    data := some ([0] ++ shstrtabName ++ [0, 0]), dataSize := 12,
    streamSize := if te then 11 else 0, translatorEmpty := te, fileData := some [], index := 1,
    name := shstrtabName, nameOff := 1, addrAlign := 1 }

/-- the object `create` produces, in closed form -/
def createObj (o : Obj) (c : Cls) (e : Enc) : Obj :=
  { o with cls := c, enc := e, hdr := some (Hdr.set_shstrndx c e (Hdr.create c e (encByte e)) 1),
           secs := [{ SecBuf.fresh c 0 with translatorEmpty := o.trans.isEmpty }, shstrtab0 c o.trans.isEmpty],
           segs := [] }

set_option maxRecDepth 20000 in
theorem create_eq (o : Obj) (c : Cls) (e : Enc) : create o c e = .ok (createObj o c e) := by
  unfold create createObj sectionsAdd newSection
  rw [shstrtab_utf8]
  simp only []
  generalize o.trans.isEmpty = te
  cases c <;> cases e <;> cases te <;> rfl

/-- the header `create` writes: identification per specification (magic, class, **the byte order
    the multi-byte fields are then stored in**, version), `e_version = 1`, the three record sizes,
    `e_shstrndx = 1`, everything else zero -/
theorem create_header (c : Cls) (e : Enc) :
    let h := Hdr.set_shstrndx c e (Hdr.create c e (encByte e)) 1
    h.length = ehdrSize c ∧ slice h 0 4 = Spec.ELFMAG ∧
    (Hdr.ident h Spec.EI_CLASS).toNat = (match c with | .c32 => Spec.ELFCLASS32 | .c64 => Spec.ELFCLASS64) ∧
    (Hdr.ident h Spec.EI_DATA).toNat = (match e with | .lsb => Spec.ELFDATA2LSB | .msb => Spec.ELFDATA2MSB) ∧
    Hdr.e_version c e h = 1 ∧ (Hdr.e_ehsize c e h).toNat = Spec.ehdrSize c ∧
    (Hdr.e_phentsize c e h).toNat = Spec.phdrSize c ∧ (Hdr.e_shentsize c e h).toNat = Spec.shdrSize c ∧
    Hdr.e_shstrndx c e h = 1 ∧ Hdr.e_type c e h = 0 ∧ Hdr.e_machine c e h = 0 ∧ Hdr.e_entry c e h = 0 ∧
    Hdr.e_flags c e h = 0 ∧ Hdr.e_phoff c e h = 0 ∧ Hdr.e_shoff c e h = 0 ∧ Hdr.e_phnum c e h = 0 ∧
    Hdr.e_shnum c e h = 0 := by
  cases c <;> cases e <;> decide

theorem shstrtab0_inv (c : Cls) (te : Bool) :
    (shstrtab0 c te).Inv ∧ (shstrtab0 c te).content = [0] ++ shstrtabName ++ [0] := by
  have hr : (shstrtab0 c te).Resident := by
    cases c <;> cases te <;>
    exact { notNobits := by decide, pend := (fun h => nomatch h),
            buf := Or.inr ⟨_, rfl, by decide, by decide⟩, cap := by decide }
  refine ⟨Or.inl hr, ?_⟩
  rw [C07.content_resident hr]
  rfl

/-- **create_inv** : `create c e` always succeeds and leaves: class and byte order as requested, no
    segments, the header of `create_header` (whose `EI_DATA` byte declares `e`), exactly two sections —
    the null section (index 0, type `SHT_NULL`, empty, no address) and `.shstrtab` (index 1, type
    `SHT_STRTAB`, alignment 1, a consistent buffer holding `"\0.shstrtab\0"`, its own name at offset 1)
    — and `e_shstrndx = 1`. -/
theorem create_inv (o : Obj) (c : Cls) (e : Enc) :
    ∃ o' h s0 s1, create o c e = .ok o' ∧ o'.cls = c ∧ o'.enc = e ∧ o'.segs = [] ∧ o'.trans = o.trans ∧
      o'.hdr = some h ∧ h = Hdr.set_shstrndx c e (Hdr.create c e (encByte e)) 1 ∧
      (Hdr.e_shstrndx c e h).toNat = 1 ∧ o'.secs = [s0, s1] ∧
      s0.index = 0 ∧ s0.stype = BitVec.ofNat 32 SHT_NULL ∧ s0.size = 0 ∧ s0.nameOff = 0 ∧ s0.addrSet = false ∧
      s0.data = none ∧ s0.cls = c ∧
      s1.index = 1 ∧ s1.stype = BitVec.ofNat 32 SHT_STRTAB ∧ s1.addrAlign = 1 ∧ s1.cls = c ∧
      s1.name = shstrtabName ∧ s1.nameOff = 1 ∧ s1.addrSet = false ∧ s1.Inv ∧
      s1.content = [0] ++ shstrtabName ++ [0] ∧ Spec.strAt s1.content s1.nameOff.toNat = some s1.name := by
  refine ⟨createObj o c e, _, _, _, create_eq o c e, rfl, rfl, rfl, rfl, rfl, rfl, ?_, rfl,
    rfl, rfl, rfl, rfl, rfl, rfl, rfl, rfl, rfl, rfl, rfl, rfl, rfl, rfl, (shstrtab0_inv c _).1, (shstrtab0_inv c _).2, ?_⟩
  · have := (create_header c e).2.2.2.2.2.2.2.2.1
    rw [this]; rfl
  · rw [(shstrtab0_inv c _).2]
    show Spec.strAt ([0] ++ shstrtabName ++ [0]) 1 = some shstrtabName
    decide

theorem cstr_idem (s : Bytes) : Spec.cstr (Spec.cstr s) = Spec.cstr s := by
  induction s with
  | nil => rfl
  | cons x xs ih =>
    by_cases hx : x = 0
    · subst hx; rfl
    · rw [Spec.cstr_cons, if_neg hx, Spec.cstr_cons, if_neg hx, ih]

theorem addStr_cstr (t s : Bytes) : Spec.addStr t (Spec.cstr s) = Spec.addStr t s := by
  unfold Spec.addStr; rw [cstr_idem]

/-- **sectionsAdd_name** : `sections.add(name)` on an object whose section-name string table `st`
    (section `e_shstrndx`, an existing section) is consistent (`SecBuf.Inv`) and stays below 4 GiB:
    succeeds; appends exactly one fresh section `nb` (index = old count mod 2^16, the given name, type
    0, no data, no address); the string table becomes the reference addition of the name's C string
    (`Spec.addStr`, C08) and keeps all its header fields (`DataFrame`); `nb.nameOff` points at the
    name's C string inside the new table; every string that could be read from the old table reads
    the same from the new one (so all earlier sections' name offsets stay valid); every other
    section is untouched. -/
theorem sectionsAdd_name (o : Obj) (name : Bytes) (h : Bytes) (st : SecBuf) (hh : o.hdr = some h)
    (hst : o.secs[(Hdr.e_shstrndx o.cls o.enc h).toNat]? = some st) (hI : st.Inv)
    (hb : (Spec.addStr st.content name).1.length < 4294967296) :
    ∃ o' st' nb, sectionsAdd o name = .ok o' ∧ o' = { o with secs := o'.secs } ∧
      o'.secs.length = o.secs.length + 1 ∧
      o'.secs[(Hdr.e_shstrndx o.cls o.enc h).toNat]? = some st' ∧ st'.Inv ∧ DataFrame st st' ∧
      st'.content = (Spec.addStr st.content name).1 ∧
      o'.secs[o.secs.length]? = some nb ∧
      nb = { newSection o with name := name, nameOff := nb.nameOff } ∧
      Spec.strAt st'.content nb.nameOff.toNat = some (Spec.cstr name) ∧
      (∀ k s, Spec.strAt st.content k = some s → Spec.strAt st'.content k = some s) ∧
      (∀ i, i < o.secs.length → i ≠ (Hdr.e_shstrndx o.cls o.enc h).toNat → o'.secs[i]? = o.secs[i]?) := by
  have hlt : (Hdr.e_shstrndx o.cls o.enc h).toNat < o.secs.length := by
    rcases Nat.lt_or_ge (Hdr.e_shstrndx o.cls o.enc h).toNat o.secs.length with hl | hl
    · exact hl
    · rw [List.getElem?_eq_none hl] at hst; cases hst
  obtain ⟨st', pos, ea, hI', fr, ec, ep⟩ := addString_refines st hI (Spec.cstr name) (by rw [addStr_cstr]; exact hb)
  rw [addStr_cstr] at ec ep
  unfold sectionsAdd
  simp only [hh, Option.getD_some]
  generalize hk : (Hdr.e_shstrndx o.cls o.enc h).toNat = k at hst hlt ⊢
  have h1 : (o.secs ++ [{ newSection o with name := name }])[k]? = some st := by
    rw [List.getElem?_append_left hlt]; exact hst
  rw [h1]
  simp only
  have e1 : List.takeWhile (fun x => decide (x ≠ 0)) name = Spec.cstr name := takeWhile_ne_eq_cstr name
  rw [e1, ea]
  simp only [bind, Except.bind, pure, Except.pure, List.length_set, List.length_append, List.length_cons,
    List.length_nil, Nat.zero_add, Nat.add_sub_cancel]
  have h2 : ((o.secs ++ [{ newSection o with name := name }]).set k st')[o.secs.length]? =
      some { newSection o with name := name } := by
    rw [List.getElem?_set_ne (by omega), List.getElem?_append_right (Nat.le_refl _)]
    simp
  rw [h2]
  simp only
  refine ⟨_, st', { newSection o with name := name, nameOff := pos }, rfl, rfl, ?_, ?_, hI', fr, ec, ?_, rfl, ?_, ?_, ?_⟩
  · simp
  · rw [List.getElem?_set_ne (by omega), List.getElem?_set_self (by simp; omega)]
  · rw [List.getElem?_set_self (by simp)]
  · simp only
    rw [ec, ep, Spec.addStr_get]
  · intro k' s hs
    rw [ec]; exact Spec.addStr_stable _ _ _ _ hs
  · intro i hi hne
    rw [List.getElem?_set_ne (by omega), List.getElem?_set_ne (by omega), List.getElem?_append_left hi]

/-! ### 3. the stream: what `adjust_stream_size` + `write` leave in the file -/

/-- **saveSection_writes** : on a stream that has not failed and has no byte budget,
    `adjust_stream_size(off)` followed by `write(bs)` yields a stream (still good) whose content has
    `bs` at `[off, off+len)`, has length `max(old length, off+len)`, and agrees with the old content on
    every range below the old length that does not meet `[off, off+len)`; the bytes between the old
    end and `off` are zero. -/
theorem saveSection_writes (s : OStream) (hg : s.Good) (off : Nat) (bs : Bytes) :
    let s' := (s.adjust (off : Int)).write bs
    s'.Good ∧ slice s'.content off bs.length = bs ∧
    s'.content.length = max s.content.length (off + bs.length) ∧
    (∀ a n, a + n ≤ s.content.length → (a + n ≤ off ∨ off + bs.length ≤ a) →
      slice s'.content a n = slice s.content a n) ∧
    (∀ i, s.content.length ≤ i → i < off → s'.content[i]? = some 0) := by
  obtain ⟨g, l, e⟩ := adjust_write_spec s hg off bs
  refine ⟨g, adjust_write_slice s hg off bs, l, fun a n ha hd => adjust_write_frame s hg off bs a n ha hd,
    fun i h1 h2 => ?_⟩
  rw [e, if_neg (by omega), if_neg (by omega), if_pos h2]

example : ((({ content := [1, 2, 3] } : OStream).adjust 5).write [9, 9]).content = [1, 2, 3, 0, 0, 9, 9] := by decide
example : ((({ content := [1, 2, 3, 4] } : OStream).adjust 1).write [9, 9]).content = [1, 9, 9, 4] := by decide
example : ({ content := [1, 2, 3] } : OStream).Good := ⟨rfl, rfl⟩

/-! ### 4. the composition: what a successful `save` leaves in the stream -/

/-- **C04's conclusion, taken as a hypothesis here**: the byte ranges `save` writes — ELF header,
    every section header record, the data of every file-occupying non-empty section, every program
    header record — are pairwise disjoint (`layout_disjoint` of C04), and no offset reaches 2^63
    (`std::streamoff` is signed).  `h`, `secs`, `segs` are the header, sections and segments of the
    *saved* object. -/
structure LayoutOk (c : Cls) (enc : Enc) (h : Bytes) (secs : List SecBuf) (segs : List Seg) : Prop where
  disjoint : (objWrites c enc h secs segs).Pairwise WDisj
  shoffLt : (Hdr.e_shoff c enc h).toNat < 9223372036854775808
  phoffLt : (Hdr.e_phoff c enc h).toNat < 9223372036854775808
  offLt : ∀ b ∈ secs, secWritten b = true → b.offset.toNat < 9223372036854775808

/-- **save_decodes** (all rungs at once — objects without segments, flat and nested segments —
    because the layout fact the rungs differ in is the hypothesis `LayoutOk`): after a successful
    `save` into a good stream, of an object without address translation, every positioned write of
    the saved object is found in the stream: the ELF header at 0, the record of every section at
    `e_shoff + index·e_shentsize`, the data of every file-occupying non-empty section at its offset,
    the record of every segment at `e_phoff + index·e_phentsize`. -/
theorem save_decodes {o : Obj} {os : OStream} {r : SaveRes} (hs : save o os = .ok r) (hok : r.ok = true)
    (hg : os.Good) (htr : o.trans = []) {h : Bytes} (hh : r.obj.hdr = some h)
    (hl : LayoutOk r.obj.cls r.obj.enc h r.obj.secs r.obj.segs) :
    r.os.Good ∧ ∀ w ∈ objWrites r.obj.cls r.obj.enc h r.obj.secs r.obj.segs,
      slice r.os.content w.1 w.2.length = w.2 := by
  obtain ⟨hd, segs1, ordered, lay, done, _, _, _, _, _, rfl⟩ := save_ok_unfold hs hok
  obtain ⟨_, eobj, eos, _⟩ := saveTail_ok hok
  rw [eobj] at hh hl
  simp only [Option.some.injEq] at hh
  subst hh
  rw [eobj, eos]
  simp only at hl ⊢
  rw [tailOs_eq (preRes o) os _ segs1 lay done hg htr hl.shoffLt hl.phoffLt hl.offLt]
  exact ⟨applyWrites_good _ _ hg, applyWrites_slices _ os hg hl.disjoint⟩

/-- the ELF header is at the start of the file -/
theorem save_decodes_header {o : Obj} {os : OStream} {r : SaveRes} (hs : save o os = .ok r) (hok : r.ok = true)
    (hg : os.Good) (htr : o.trans = []) {h : Bytes} (hh : r.obj.hdr = some h)
    (hl : LayoutOk r.obj.cls r.obj.enc h r.obj.secs r.obj.segs) :
    slice r.os.content 0 h.length = h :=
  (save_decodes hs hok hg htr hh hl).2 (0, h) List.mem_cons_self

/-- the record of every section, and its data -/
theorem save_decodes_section {o : Obj} {os : OStream} {r : SaveRes} (hs : save o os = .ok r) (hok : r.ok = true)
    (hg : os.Good) (htr : o.trans = []) {h : Bytes} (hh : r.obj.hdr = some h)
    (hl : LayoutOk r.obj.cls r.obj.enc h r.obj.secs r.obj.segs) {b : SecBuf} (hb : b ∈ r.obj.secs) :
    slice r.os.content ((Hdr.e_shoff r.obj.cls r.obj.enc h).toNat +
        (Hdr.e_shentsize r.obj.cls r.obj.enc h).toNat * b.index) (shdrSize r.obj.cls) =
      encodeShdr r.obj.cls r.obj.enc b ∧
    (b.stype ≠ BitVec.ofNat 32 SHT_NOBITS → b.stype ≠ BitVec.ofNat 32 SHT_NULL → b.size ≠ 0 →
      ∀ d, b.data = some d → slice r.os.content b.offset.toNat (d.take b.size.toNat).length = d.take b.size.toNat) := by
  have key := (save_decodes hs hok hg htr hh hl).2
  have hmem : ∀ w ∈ secWrites r.obj.cls r.obj.enc (Hdr.e_shoff r.obj.cls r.obj.enc h)
      (Hdr.e_shentsize r.obj.cls r.obj.enc h) b, w ∈ objWrites r.obj.cls r.obj.enc h r.obj.secs r.obj.segs := by
    intro w hw
    unfold objWrites
    exact List.mem_cons_of_mem _ (List.mem_append_left _ (List.mem_flatMap.2 ⟨b, hb, hw⟩))
  constructor
  · have := key _ (hmem _ (by unfold secWrites; exact List.mem_cons_self))
    simpa only [encodeShdr_length] using this
  · intro h1 h2 h3 d hd
    have hc : (b.stype != BitVec.ofNat 32 SHT_NOBITS && b.stype != BitVec.ofNat 32 SHT_NULL && b.size != 0 &&
        b.data.isSome) = true := by
      simp [h1, h2, hd]; exact h3
    have := key (b.offset.toNat, (b.data.getD []).take b.size.toNat) (hmem _ (by
      unfold secWrites; rw [if_pos hc]; exact List.mem_cons_of_mem _ List.mem_cons_self))
    simpa only [hd, Option.getD_some] using this

/-- the record of every segment -/
theorem save_decodes_segment {o : Obj} {os : OStream} {r : SaveRes} (hs : save o os = .ok r) (hok : r.ok = true)
    (hg : os.Good) (htr : o.trans = []) {h : Bytes} (hh : r.obj.hdr = some h)
    (hl : LayoutOk r.obj.cls r.obj.enc h r.obj.secs r.obj.segs) {g : Seg} (hb : g ∈ r.obj.segs) :
    slice r.os.content ((Hdr.e_phoff r.obj.cls r.obj.enc h).toNat +
        (Hdr.e_phentsize r.obj.cls r.obj.enc h).toNat * g.index) (phdrSize r.obj.cls) =
      encodePhdr r.obj.cls r.obj.enc g := by
  have := (save_decodes hs hok hg htr hh hl).2 (segWrite r.obj.cls r.obj.enc (Hdr.e_phoff r.obj.cls r.obj.enc h)
    (Hdr.e_phentsize r.obj.cls r.obj.enc h) g) (by
      unfold objWrites
      exact List.mem_cons_of_mem _ (List.mem_append_right _ (List.mem_map.2 ⟨g, hb, rfl⟩)))
  simpa only [segWrite, encodePhdr_length] using this

/-! ### 5. the saved bytes decode to what was put in -/

theorem placed_fit {c : Cls} {a b : SecBuf} (h : Placed c a b) (hf : FieldsFit c a) : FieldsFit c b := by
  induction h with
  | refl => exact hf
  | off v _ ih =>
    unfold setOffset
    split
    · exact ⟨ih.flags, ih.addr, truncA_fit c v, ih.size, ih.addrAlign, ih.entSize⟩
    · exact ih
  | addr x _ _ ih => exact ⟨ih.flags, truncA_fit c x, ih.offset, ih.size, ih.addrAlign, ih.entSize⟩

theorem resFrame_fit {c : Cls} {a b : SecBuf} (h : ResFrame a b) (hf : FieldsFit c a) : FieldsFit c b := by
  rw [h.rest]; exact ⟨hf.flags, hf.addr, hf.offset, hf.size, hf.addrAlign, hf.entSize⟩

/-- the header fields the user controls (and the three size fields the constructor sets) -/
def userHdr (c : Cls) (enc : Enc) (h : Bytes) :=
  (Hdr.e_type c enc h, Hdr.e_machine c enc h, Hdr.e_version c enc h, Hdr.e_entry c enc h, Hdr.e_flags c enc h,
   Hdr.e_ehsize c enc h, Hdr.e_phentsize c enc h, Hdr.e_shentsize c enc h, Hdr.e_shstrndx c enc h,
   Spec.get (Spec.ehdrL c) enc h 0 "e_ident")

/-- the four layout setters (`e_phnum`, `e_phoff`, `e_shnum`, `e_shoff`) leave the user's fields alone -/
theorem userHdr_layout_setter (f : HField) (hf : f = .phnum ∨ f = .phoff ∨ f = .shnum ∨ f = .shoff)
    (c : Cls) (enc : Enc) (h : Bytes) (v : Nat) (hl : ehdrSize c ≤ h.length) :
    userHdr c enc (f.set c enc h v) = userHdr c enc h ∧ ehdrSize c ≤ (f.set c enc h v).length := by
  obtain ⟨a0, a1, a2, a3, _, _, a6, a7, a8, _, a10, _, a12⟩ := hdr_set_frame f c enc h v hl
  have hid := hdr_set_frame_spec f c enc h v hl "e_ident" (by cases c <;> decide)
  refine ⟨?_, by rw [hdr_set_length f c enc h v hl]; exact hl⟩
  unfold userHdr
  rcases hf with rfl | rfl | rfl | rfl <;>
    rw [a0 (by decide), a1 (by decide), a2 (by decide), a3 (by decide), a6 (by decide), a7 (by decide),
      a8 (by decide), a10 (by decide), a12 (by decide), hid (by decide)]

/-- **the header of the saved object**: the user's fields are those of the object; the counts are
    the numbers of sections and segments (mod 2^16) -/
theorem save_header_fields {o : Obj} {os : OStream} {r : SaveRes} (hs : save o os = .ok r) (hok : r.ok = true) :
    ∃ hd h, o.hdr = some hd ∧ r.obj.hdr = some h ∧ (ehdrSize o.cls ≤ hd.length →
      h.length = hd.length ∧ userHdr o.cls o.enc h = userHdr o.cls o.enc hd ∧
      (Hdr.e_shnum o.cls o.enc h).toNat = o.secs.length % 65536 ∧
      (Hdr.e_phnum o.cls o.enc h).toNat = o.segs.length % 65536) := by
  obtain ⟨hd, x, h1, h2⟩ := save_hdr_eq hs hok
  refine ⟨hd, _, h1, h2, fun hl => ?_⟩
  unfold saveHdr0
  simp only
  generalize hv : (if o.segs.length % 65536 > 0 then
    (Hdr.e_ehsize o.cls o.enc (Hdr.set_phnum o.cls o.enc hd (o.segs.length % 65536))).toNat else 0) = v
  obtain ⟨u1, l1⟩ := userHdr_layout_setter .phnum (Or.inl rfl) o.cls o.enc hd (o.segs.length % 65536) hl
  obtain ⟨u2, l2⟩ := userHdr_layout_setter .phoff (Or.inr (Or.inl rfl)) o.cls o.enc _ v l1
  obtain ⟨u3, l3⟩ := userHdr_layout_setter .shnum (Or.inr (Or.inr (Or.inl rfl))) o.cls o.enc _ (o.secs.length % 65536) l2
  obtain ⟨u4, l4⟩ := userHdr_layout_setter .shoff (Or.inr (Or.inr (Or.inr rfl))) o.cls o.enc _ 0 l3
  obtain ⟨u5, l5⟩ := userHdr_layout_setter .shoff (Or.inr (Or.inr (Or.inr rfl))) o.cls o.enc _ x l4
  have len : ∀ (f : HField) h' v', ehdrSize o.cls ≤ h'.length → (f.set o.cls o.enc h' v').length = h'.length :=
    fun f h' v' hl' => hdr_set_length f o.cls o.enc h' v' hl'
  refine ⟨?_, ?_, ?_, ?_⟩
  · have e1 := len .phnum hd (o.segs.length % 65536) hl
    have e2 := len .phoff _ v l1
    have e3 := len .shnum _ (o.secs.length % 65536) l2
    have e4 := len .shoff _ 0 l3
    have e5 := len .shoff _ x l4
    exact e5.trans (e4.trans (e3.trans (e2.trans e1)))
  · exact u5.trans (u4.trans (u3.trans (u2.trans u1)))
  · -- e_shnum: set by the third setter, untouched by the two later ones
    have g := (hdr_set_get o.cls o.enc (HField.phoff.set o.cls o.enc (HField.phnum.set o.cls o.enc hd (o.segs.length % 65536)) v)
      (o.secs.length % 65536) l2).2.2.2.2.2.2.2.2.1
    have f4 := (hdr_set_frame .shoff o.cls o.enc _ 0 l3).2.2.2.2.2.2.2.2.2.2.2.1 (by decide)
    have f5 := (hdr_set_frame .shoff o.cls o.enc _ x l4).2.2.2.2.2.2.2.2.2.2.2.1 (by decide)
    exact (congrArg BitVec.toNat (f5.trans f4)).trans (g.trans (Nat.mod_mod _ _))
  · have g := (hdr_set_get o.cls o.enc hd (o.segs.length % 65536) hl).2.2.2.2.2.2.2.1
    have f2 := (hdr_set_frame .phoff o.cls o.enc _ v l1).2.2.2.2.2.2.2.2.2.1 (by decide)
    have f3 := (hdr_set_frame .shnum o.cls o.enc _ (o.secs.length % 65536) l2).2.2.2.2.2.2.2.2.2.1 (by decide)
    have f4 := (hdr_set_frame .shoff o.cls o.enc _ 0 l3).2.2.2.2.2.2.2.2.2.1 (by decide)
    have f5 := (hdr_set_frame .shoff o.cls o.enc _ x l4).2.2.2.2.2.2.2.2.2.1 (by decide)
    exact (congrArg BitVec.toNat (f5.trans (f4.trans (f3.trans f2)))).trans (g.trans (Nat.mod_mod _ _))

/-- a section header record found at `base` of an image decodes, per the specification, to the
    section's fields -/
theorem shdr_get_at {c : Cls} {enc : Enc} {img : Bytes} {base : Nat} {b : SecBuf}
    (hs : slice img base (shdrSize c) = encodeShdr c enc b) (hf : FieldsFit c b) :
    Spec.get (Spec.shdrL c) enc img base "sh_name" = b.nameOff.toNat ∧
    Spec.get (Spec.shdrL c) enc img base "sh_type" = b.stype.toNat ∧
    Spec.get (Spec.shdrL c) enc img base "sh_flags" = b.flags.toNat ∧
    Spec.get (Spec.shdrL c) enc img base "sh_addr" = b.addr.toNat ∧
    Spec.get (Spec.shdrL c) enc img base "sh_offset" = b.offset.toNat ∧
    Spec.get (Spec.shdrL c) enc img base "sh_size" = b.size.toNat ∧
    Spec.get (Spec.shdrL c) enc img base "sh_link" = b.link.toNat ∧
    Spec.get (Spec.shdrL c) enc img base "sh_info" = b.info.toNat ∧
    Spec.get (Spec.shdrL c) enc img base "sh_addralign" = b.addrAlign.toNat ∧
    Spec.get (Spec.shdrL c) enc img base "sh_entsize" = b.entSize.toNat := by
  obtain ⟨h0, h1, h2, h3, h4, h5, h6, h7, h8, h9⟩ := encodeShdr_eq_spec c enc b hf
  have bd : ∀ name ∈ ["sh_name", "sh_type", "sh_flags", "sh_addr", "sh_offset", "sh_size", "sh_link", "sh_info", "sh_addralign", "sh_entsize"],
      (Spec.field (Spec.shdrL c) name).1 + (Spec.field (Spec.shdrL c) name).2 ≤ shdrSize c := by
    cases c <;> decide
  exact ⟨(get_at_base hs (bd _ (by decide))).trans h0,
    (get_at_base hs (bd _ (by decide))).trans h1,
    (get_at_base hs (bd _ (by decide))).trans h2,
    (get_at_base hs (bd _ (by decide))).trans h3,
    (get_at_base hs (bd _ (by decide))).trans h4,
    (get_at_base hs (bd _ (by decide))).trans h5,
    (get_at_base hs (bd _ (by decide))).trans h6,
    (get_at_base hs (bd _ (by decide))).trans h7,
    (get_at_base hs (bd _ (by decide))).trans h8,
    (get_at_base hs (bd _ (by decide))).trans h9⟩

theorem phdr_get_at {c : Cls} {enc : Enc} {img : Bytes} {base : Nat} {g : Seg}
    (hs : slice img base (phdrSize c) = encodePhdr c enc g) (hf : SegFit c g) :
    Spec.get (Spec.phdrL c) enc img base "p_type" = g.stype.toNat ∧
    Spec.get (Spec.phdrL c) enc img base "p_flags" = g.flags.toNat ∧
    Spec.get (Spec.phdrL c) enc img base "p_offset" = g.offset.toNat ∧
    Spec.get (Spec.phdrL c) enc img base "p_vaddr" = g.vaddr.toNat ∧
    Spec.get (Spec.phdrL c) enc img base "p_paddr" = g.paddr.toNat ∧
    Spec.get (Spec.phdrL c) enc img base "p_filesz" = g.filesz.toNat ∧
    Spec.get (Spec.phdrL c) enc img base "p_memsz" = g.memsz.toNat ∧
    Spec.get (Spec.phdrL c) enc img base "p_align" = g.align.toNat := by
  obtain ⟨h0, h1, h2, h3, h4, h5, h6, h7⟩ := encodePhdr_eq_spec c enc g hf
  have bd : ∀ name ∈ ["p_type", "p_flags", "p_offset", "p_vaddr", "p_paddr", "p_filesz", "p_memsz", "p_align"],
      (Spec.field (Spec.phdrL c) name).1 + (Spec.field (Spec.phdrL c) name).2 ≤ phdrSize c := by
    cases c <;> decide
  exact ⟨(get_at_base hs (bd _ (by decide))).trans h0,
    (get_at_base hs (bd _ (by decide))).trans h1,
    (get_at_base hs (bd _ (by decide))).trans h2,
    (get_at_base hs (bd _ (by decide))).trans h3,
    (get_at_base hs (bd _ (by decide))).trans h4,
    (get_at_base hs (bd _ (by decide))).trans h5,
    (get_at_base hs (bd _ (by decide))).trans h6,
    (get_at_base hs (bd _ (by decide))).trans h7⟩

/-- **save_decode_fields** : the saved bytes, read with the *specification's* decoder, give back what
    was put into the object.  For every section, in the same order (record `index` of the table at
    `e_shoff`): the same name offset, type, flags, size, link, info, alignment, entry size; the same
    address if one had been set; and, for a file-occupying non-empty resident section, its data at
    the decoded `sh_offset`.  For every segment (record `index` of the table at `e_phoff`): the same
    type, flags, virtual and physical address, an alignment of at least the requested one and (ELF64) a
    memory size of at least the given one.
    Hypotheses: the save succeeded into a good stream; no address translation; `LayoutOk` (C04's
    disjointness, as hypothesis); the object's section fields fit the class (`FieldsFit`, guaranteed by
    the truncating setters) and the saved segments' do (`SegFit`; trivial in ELF64). -/
theorem save_decode_fields {o : Obj} {os : OStream} {r : SaveRes} (hs : save o os = .ok r) (hok : r.ok = true)
    (hg : os.Good) (htr : o.trans = []) (hidx : SegIdxOk o.segs) {h : Bytes} (hh : r.obj.hdr = some h)
    (hl : LayoutOk r.obj.cls r.obj.enc h r.obj.secs r.obj.segs)
    (hfit : ∀ a ∈ o.secs, FieldsFit o.cls a) (hsegfit : ∀ g ∈ r.obj.segs, SegFit o.cls g) :
    (∀ (i : Nat) a, o.secs[i]? = some a →
      let img := r.os.content
      let base := (Hdr.e_shoff o.cls o.enc h).toNat + (Hdr.e_shentsize o.cls o.enc h).toNat * a.index
      let l := Spec.shdrL o.cls
      Spec.get l o.enc img base "sh_name" = a.nameOff.toNat ∧ Spec.get l o.enc img base "sh_type" = a.stype.toNat ∧
      Spec.get l o.enc img base "sh_flags" = a.flags.toNat ∧ Spec.get l o.enc img base "sh_size" = a.size.toNat ∧
      Spec.get l o.enc img base "sh_link" = a.link.toNat ∧ Spec.get l o.enc img base "sh_info" = a.info.toNat ∧
      Spec.get l o.enc img base "sh_addralign" = a.addrAlign.toNat ∧
      Spec.get l o.enc img base "sh_entsize" = a.entSize.toNat ∧
      (a.addrSet = true → Spec.get l o.enc img base "sh_addr" = a.addr.toNat) ∧
      (a.stype ≠ BitVec.ofNat 32 SHT_NOBITS → a.stype ≠ BitVec.ofNat 32 SHT_NULL → a.size ≠ 0 →
        a.data.isSome = true →
        slice img (Spec.get l o.enc img base "sh_offset") a.view.length = a.view)) ∧
    (∀ (j : Nat) g, o.segs[j]? = some g →
      let img := r.os.content
      let base := (Hdr.e_phoff o.cls o.enc h).toNat + (Hdr.e_phentsize o.cls o.enc h).toNat * g.index
      let l := Spec.phdrL o.cls
      Spec.get l o.enc img base "p_type" = g.stype.toNat ∧ Spec.get l o.enc img base "p_flags" = g.flags.toNat ∧
      Spec.get l o.enc img base "p_vaddr" = g.vaddr.toNat ∧ Spec.get l o.enc img base "p_paddr" = g.paddr.toNat ∧
      g.align.toNat ≤ Spec.get l o.enc img base "p_align" ∧
      (o.cls = .c64 → g.memsz.toNat ≤ Spec.get l o.enc img base "p_memsz")) := by
  obtain ⟨⟨l0, l1, f0, f1, f2⟩, fs, ec, ee, _⟩ := save_frames hs hok hidx
  rw [ec, ee] at hl
  constructor
  · intro i a ha
    have hi0 : i < l0.length := by
      rw [f0.1]
      rcases Nat.lt_or_ge i o.secs.length with hlt | hge
      · exact hlt
      · rw [List.getElem?_eq_none hge] at ha; cases ha
    have hi : i < l1.length := by rw [f1.1]; exact hi0
    have hi2 : i < r.obj.secs.length := by rw [f2.1]; exact hi
    have ra := f0.2 i a l0[i] ha (List.getElem?_eq_getElem hi0)
    have pm := f1.2 i l0[i] l1[i] (List.getElem?_eq_getElem hi0) (List.getElem?_eq_getElem hi)
    have rb := f2.2 i l1[i] r.obj.secs[i] (List.getElem?_eq_getElem hi) (List.getElem?_eq_getElem hi2)
    have fit : FieldsFit o.cls r.obj.secs[i] :=
      resFrame_fit rb (placed_fit pm (resFrame_fit ra (hfit a (List.mem_of_getElem? ha))))
    have hmem : r.obj.secs[i] ∈ r.obj.secs := List.getElem_mem hi2
    have hl' : LayoutOk r.obj.cls r.obj.enc h r.obj.secs r.obj.segs := by rw [ec, ee]; exact hl
    obtain ⟨hrec, dat⟩ := save_decodes_section hs hok hg htr hh hl' hmem
    rw [ec, ee] at hrec
    have e0 := ra.rest; have e1 := pm.frame.rest; have e2 := rb.rest
    rw [e0] at e1
    have eidx : (r.obj.secs[i]).index = a.index := by rw [e2, e1]
    rw [eidx] at hrec
    obtain ⟨g0, g1, g2, g3, g4, g5, g6, g7, g8, g9⟩ := shdr_get_at hrec fit
    simp only
    refine ⟨g0.trans ?_, g1.trans ?_, g2.trans ?_, g5.trans ?_, g6.trans ?_, g7.trans ?_, g8.trans ?_, g9.trans ?_,
      fun hset => g3.trans ?_, fun n1 n2 n3 n4 => ?_⟩
    · rw [e2, e1]
    · rw [e2, e1]
    · rw [e2, e1]
    · rw [e2, e1]
    · rw [e2, e1]
    · rw [e2, e1]
    · rw [e2, e1]
    · rw [e2, e1]
    · have h0set : (l0[i]).addrSet = true := by rw [e0]; exact hset
      have h0addr : (l0[i]).addr = a.addr := by rw [e0]
      have := (pm.frame.addrKept h0set).1
      rw [e2]; exact congrArg BitVec.toNat (this.trans h0addr)
    · -- data
      have hst : (r.obj.secs[i]).stype = a.stype := by rw [e2, e1]
      have hsz : (r.obj.secs[i]).size = a.size := by rw [e2, e1]
      have d0 := (ra.dataSome n4).1
      have d1 : (l1[i]).data = (l0[i]).data := by rw [pm.frame.rest]
      have d2 := (rb.dataSome (by rw [d1, d0]; exact n4)).1
      have hda : (r.obj.secs[i]).data = a.data := d2.trans (d1.trans d0)
      cases hd : a.data with
      | none => rw [hd] at n4; cases n4
      | some d =>
        have := dat (by rw [hst]; exact n1) (by rw [hst]; exact n2) (by rw [hsz]; exact n3) d (by rw [hda]; exact hd)
        rw [g4]
        simpa only [SecBuf.view, hd, Option.getD_some, hsz] using this
  · intro j g hgj
    have hj : j < r.obj.segs.length := by
      rw [fs.1]
      rcases Nat.lt_or_ge j o.segs.length with hlt | hge
      · exact hlt
      · rw [List.getElem?_eq_none hge] at hgj; cases hgj
    have sg := fs.2 j g r.obj.segs[j] hgj (List.getElem?_eq_getElem hj)
    have hmem : r.obj.segs[j] ∈ r.obj.segs := List.getElem_mem hj
    have hl' : LayoutOk r.obj.cls r.obj.enc h r.obj.secs r.obj.segs := by rw [ec, ee]; exact hl
    have hrec := save_decodes_segment hs hok hg htr hh hl' hmem
    rw [ec, ee] at hrec
    have er := sg.frame.rest
    have eidx : (r.obj.segs[j]).index = g.index := sg.frame.index
    rw [eidx] at hrec
    obtain ⟨g0, g1, g2, g3, g4, g5, g6, g7⟩ := phdr_get_at hrec (hsegfit _ hmem)
    simp only
    refine ⟨g0.trans ?_, g1.trans ?_, g3.trans ?_, g4.trans ?_, ?_, fun hc => ?_⟩
    · rw [er]
    · rw [er]
    · rw [er]
    · rw [er]
    · rw [g7]; exact sg.frame.alignGrows
    · rw [g6]; exact sg.frame.memGrows hc

/-- every ELF header field of the saved file reads as it reads in the saved object's header -/
theorem save_image_header {o : Obj} {os : OStream} {r : SaveRes} (hs : save o os = .ok r) (hok : r.ok = true)
    (hg : os.Good) (htr : o.trans = []) {h : Bytes} (hh : r.obj.hdr = some h) (hlh : ehdrSize o.cls ≤ h.length)
    (hl : LayoutOk r.obj.cls r.obj.enc h r.obj.secs r.obj.segs) (name : String)
    (hv : ValidName (Spec.ehdrL o.cls) name) :
    Spec.get (Spec.ehdrL o.cls) o.enc r.os.content 0 name = Spec.get (Spec.ehdrL o.cls) o.enc h 0 name := by
  have sl := save_decodes_header hs hok hg htr hh hl
  obtain ⟨e, he, _, hf⟩ := field_of_valid hv
  have := (ehdr_table_ok o.cls).2 e he
  rw [(sizes_eq o.cls).1] at hlh
  exact get_at_base sl (by rw [hf]; omega)

/-- **save_decode_header** : the first bytes of the file decode, per the specification, to the
    header attributes of the object (type, machine, version, entry, flags, the three record sizes,
    the name-table index, the identification bytes), with `e_shnum`/`e_phnum` the numbers of sections
    and segments. -/
theorem save_decode_header {o : Obj} {os : OStream} {r : SaveRes} (hs : save o os = .ok r) (hok : r.ok = true)
    (hg : os.Good) (htr : o.trans = []) {h hd : Bytes} (hh : r.obj.hdr = some h) (hhd : o.hdr = some hd)
    (hlen : ehdrSize o.cls ≤ hd.length)
    (hl : LayoutOk r.obj.cls r.obj.enc h r.obj.secs r.obj.segs) :
    let img := r.os.content; let l := Spec.ehdrL o.cls
    Spec.get l o.enc img 0 "e_type" = (Hdr.e_type o.cls o.enc hd).toNat ∧
    Spec.get l o.enc img 0 "e_machine" = (Hdr.e_machine o.cls o.enc hd).toNat ∧
    Spec.get l o.enc img 0 "e_version" = (Hdr.e_version o.cls o.enc hd).toNat ∧
    Spec.get l o.enc img 0 "e_entry" = (Hdr.e_entry o.cls o.enc hd).toNat ∧
    Spec.get l o.enc img 0 "e_flags" = (Hdr.e_flags o.cls o.enc hd).toNat ∧
    Spec.get l o.enc img 0 "e_ehsize" = (Hdr.e_ehsize o.cls o.enc hd).toNat ∧
    Spec.get l o.enc img 0 "e_phentsize" = (Hdr.e_phentsize o.cls o.enc hd).toNat ∧
    Spec.get l o.enc img 0 "e_shentsize" = (Hdr.e_shentsize o.cls o.enc hd).toNat ∧
    Spec.get l o.enc img 0 "e_shstrndx" = (Hdr.e_shstrndx o.cls o.enc hd).toNat ∧
    Spec.get l o.enc img 0 "e_ident" = Spec.get l o.enc hd 0 "e_ident" ∧
    Spec.get l o.enc img 0 "e_shnum" = o.secs.length % 65536 ∧
    Spec.get l o.enc img 0 "e_phnum" = o.segs.length % 65536 := by
  obtain ⟨hd', h', e1, e2, key⟩ := save_header_fields hs hok
  rw [hhd] at e1; cases e1
  rw [hh] at e2; cases e2
  obtain ⟨elen, eu, esn, epn⟩ := key hlen
  have sl := save_decodes_header hs hok hg htr hh hl
  have hlh : ehdrSize o.cls ≤ h.length := by rw [elen]; exact hlen
  have at0 : ∀ name, ValidName (Spec.ehdrL o.cls) name →
      Spec.get (Spec.ehdrL o.cls) o.enc r.os.content 0 name = Spec.get (Spec.ehdrL o.cls) o.enc h 0 name := by
    intro name hv
    obtain ⟨e, he, _, hf⟩ := field_of_valid hv
    have := (ehdr_table_ok o.cls).2 e he
    rw [(sizes_eq o.cls).1] at hlh
    exact get_at_base sl (by rw [hf]; omega)
  obtain ⟨a0, a1, a2, a3, a4, a5, a6, a7, a8, a9, a10, a11, a12⟩ := C02.ehdr_fields_eq_spec o.cls o.enc h hlh
  unfold userHdr at eu
  simp only [Prod.mk.injEq] at eu
  obtain ⟨u0, u1, u2, u3, u4, u5, u6, u7, u8, u9⟩ := eu
  have vn : ∀ name ∈ ["e_type", "e_machine", "e_version", "e_entry", "e_flags", "e_ehsize", "e_phentsize",
      "e_shentsize", "e_shstrndx", "e_ident", "e_shnum", "e_phnum"], ValidName (Spec.ehdrL o.cls) name := by
    cases o.cls <;> decide
  simp only
  refine ⟨?_, ?_, ?_, ?_, ?_, ?_, ?_, ?_, ?_, ?_, ?_, ?_⟩
  · rw [at0 _ (vn _ (by decide)), ← a0, u0]
  · rw [at0 _ (vn _ (by decide)), ← a1, u1]
  · rw [at0 _ (vn _ (by decide)), ← a2, u2]
  · rw [at0 _ (vn _ (by decide)), ← a3, u3]
  · rw [at0 _ (vn _ (by decide)), ← a6, u4]
  · rw [at0 _ (vn _ (by decide)), ← a7, u5]
  · rw [at0 _ (vn _ (by decide)), ← a8, u6]
  · rw [at0 _ (vn _ (by decide)), ← a10, u7]
  · rw [at0 _ (vn _ (by decide)), ← a12, u8]
  · rw [at0 _ (vn _ (by decide)), u9]
  · rw [at0 _ (vn _ (by decide)), ← a11, esn]
  · rw [at0 _ (vn _ (by decide)), ← a9, epn]

/-! ### 6. `LayoutOk` from zone facts (the interface to C04) -/

/-- the section's data are written by `save` -/
def Written (b : SecBuf) : Prop :=
  b.stype ≠ BitVec.ofNat 32 SHT_NOBITS ∧ b.stype ≠ BitVec.ofNat 32 SHT_NULL ∧ b.size ≠ 0 ∧ b.data.isSome = true

theorem secWrites_mem {c : Cls} {enc : Enc} {shoff : BitVec 64} {se : BitVec 16} {b : SecBuf} {w : Nat × Bytes}
    (hw : w ∈ secWrites c enc shoff se b) :
    (w.1 = shoff.toNat + se.toNat * b.index ∧ w.2.length = shdrSize c) ∨
    (Written b ∧ w.1 = b.offset.toNat ∧ w.2.length ≤ b.size.toNat) := by
  unfold secWrites at hw
  rcases List.mem_cons.1 hw with h | h
  · left; rw [h]; exact ⟨rfl, encodeShdr_length c enc b⟩
  · right
    split at h
    · rename_i hc
      simp only [List.mem_singleton] at h
      rw [h]
      simp only [Bool.and_eq_true, bne_iff_ne, ne_eq] at hc
      refine ⟨⟨hc.1.1.1, hc.1.1.2, hc.1.2, hc.2⟩, rfl, ?_⟩
      simp only [List.length_take]; omega
    · cases h

theorem written_iff (b : SecBuf) : secWritten b = true ↔ Written b := by
  unfold secWritten Written
  simp only [Bool.and_eq_true, bne_iff_ne, ne_eq]
  constructor
  · rintro ⟨⟨⟨a, b'⟩, c'⟩, d⟩; exact ⟨a, b', c', d⟩
  · rintro ⟨a, b', c', d⟩; exact ⟨⟨⟨a, b'⟩, c'⟩, d⟩

theorem mul_index_disj {se i j n : Nat} (hn : n ≤ se) (hne : i ≠ j) (base : Nat) :
    base + se * i + n ≤ base + se * j ∨ base + se * j + n ≤ base + se * i := by
  rcases Nat.lt_or_gt_of_ne hne with hlt | hgt
  · left
    have : se * i + se ≤ se * j := by rw [← Nat.mul_succ]; exact Nat.mul_le_mul_left _ hlt
    omega
  · right
    have : se * j + se ≤ se * i := by rw [← Nat.mul_succ]; exact Nat.mul_le_mul_left _ hgt
    omega

/-- the writes of the sections do not touch each other -/
theorem secWrites_pairwise (c : Cls) (enc : Enc) (SO : BitVec 64) (SE : BitVec 16) (lo : Nat) (secs : List SecBuf)
    (hse : shdrSize c ≤ SE.toNat)
    (hsecIdx : secs.Pairwise (fun a b => a.index ≠ b.index))
    (hdata : ∀ b ∈ secs, Written b → lo ≤ b.offset.toNat ∧ b.offset.toNat + b.size.toNat ≤ SO.toNat)
    (hdisj : secs.Pairwise (fun a b => Written a → Written b →
      a.offset.toNat + a.size.toNat ≤ b.offset.toNat ∨ b.offset.toNat + b.size.toNat ≤ a.offset.toNat)) :
    (secs.flatMap (secWrites c enc SO SE)).Pairwise WDisj := by
  induction secs with
  | nil => exact List.Pairwise.nil
  | cons s rest ih =>
    simp only [List.flatMap_cons]
    rw [List.pairwise_append]
    obtain ⟨hi1, hi2⟩ := List.pairwise_cons.1 hsecIdx
    obtain ⟨hd1, hd2⟩ := List.pairwise_cons.1 hdisj
    refine ⟨?_, ih hi2 (fun b hb => hdata b (List.mem_cons_of_mem _ hb)) hd2, ?_⟩
    · -- the record and the data of one section
      unfold secWrites
      split
      · rename_i hc
        have hw : Written s := (written_iff s).1 hc
        have := (hdata s List.mem_cons_self hw).2
        refine List.Pairwise.cons (fun w hw' => ?_) (List.Pairwise.cons (fun _ h => by cases h) List.Pairwise.nil)
        simp only [List.mem_singleton] at hw'
        subst hw'
        unfold WDisj
        right
        simp only [List.length_take]
        omega
      · exact List.Pairwise.cons (fun _ h => by cases h) List.Pairwise.nil
    · -- one section against another
      intro a ha b hb
      obtain ⟨s', hs', hbs⟩ := List.mem_flatMap.1 hb
      have hne : s.index ≠ s'.index := hi1 s' hs'
      have hdd := hd1 s' hs'
      unfold WDisj
      rcases secWrites_mem ha with ⟨ea, la⟩ | ⟨wa, ea, la⟩ <;>
      rcases secWrites_mem hbs with ⟨eb, lb⟩ | ⟨wb, eb, lb⟩
      · rw [ea, eb, la, lb]
        exact mul_index_disj hse hne _
      · right; rw [ea, eb]
        have := (hdata s' (List.mem_cons_of_mem _ hs') wb).2
        omega
      · left; rw [ea, eb]
        have := (hdata s List.mem_cons_self wa).2
        omega
      · rw [ea, eb]
        rcases hdd wa wb with h' | h'
        · left; omega
        · right; omega

/-- **`LayoutOk` from zone facts** — the hypotheses are literally the conclusions of C04's
    `layout_disjoint` (data of file-occupying sections pairwise disjoint and inside
    `[eh + pht, shoff)`) plus table bookkeeping that holds for every created or loaded object (the
    header fits in `eh` bytes, program header records inside `[eh, eh + pht)`, record sizes as the
    class prescribes, distinct indices) and the size assumption `file < 2^63`. -/
theorem layoutOk_of_zones (c : Cls) (enc : Enc) (h : Bytes) (secs : List SecBuf) (segs : List Seg) (eh pht : Nat)
    (hlen : h.length ≤ eh)
    (hse : shdrSize c ≤ (Hdr.e_shentsize c enc h).toNat) (hpe : phdrSize c ≤ (Hdr.e_phentsize c enc h).toNat)
    (hsegIn : ∀ g ∈ segs, eh ≤ (Hdr.e_phoff c enc h).toNat + (Hdr.e_phentsize c enc h).toNat * g.index ∧
      (Hdr.e_phoff c enc h).toNat + (Hdr.e_phentsize c enc h).toNat * g.index + phdrSize c ≤ eh + pht)
    (hsegIdx : segs.Pairwise (fun a b => a.index ≠ b.index))
    (hsecIdx : secs.Pairwise (fun a b => a.index ≠ b.index))
    (hdata : ∀ b ∈ secs, Written b → eh + pht ≤ b.offset.toNat ∧
      b.offset.toNat + b.size.toNat ≤ (Hdr.e_shoff c enc h).toNat)
    (hdisj : secs.Pairwise (fun a b => Written a → Written b →
      a.offset.toNat + a.size.toNat ≤ b.offset.toNat ∨ b.offset.toNat + b.size.toNat ≤ a.offset.toNat))
    (hsmall : ∀ b ∈ secs, (Hdr.e_shoff c enc h).toNat + (Hdr.e_shentsize c enc h).toNat * b.index + shdrSize c <
      9223372036854775808)
    (hphs : (Hdr.e_phoff c enc h).toNat < 9223372036854775808)
    (hshs : (Hdr.e_shoff c enc h).toNat < 9223372036854775808)
    (hzone : eh + pht ≤ (Hdr.e_shoff c enc h).toNat) :
    LayoutOk c enc h secs segs := by
  refine ⟨?_, hshs, hphs, fun b hb hw => ?_⟩
  · unfold objWrites
    generalize hso : (Hdr.e_shoff c enc h) = SO at *
    generalize hsen : (Hdr.e_shentsize c enc h) = SE at *
    generalize hpo : (Hdr.e_phoff c enc h) = PO at *
    generalize hpen : (Hdr.e_phentsize c enc h) = PE at *
    rw [List.pairwise_cons]
    constructor
    · -- the ELF header against everything else
      intro w hw
      unfold WDisj
      simp only
      rcases List.mem_append.1 hw with hw | hw
      · obtain ⟨b, hb, hwb⟩ := List.mem_flatMap.1 hw
        rcases secWrites_mem hwb with ⟨e, _⟩ | ⟨wr, e, _⟩
        · left; rw [e]; have := hzone; omega
        · left; rw [e]; have := (hdata b hb wr).1; omega
      · obtain ⟨g, hg, rfl⟩ := List.mem_map.1 hw
        left; simp only [segWrite]; have := (hsegIn g hg).1; omega
    · rw [List.pairwise_append]
      refine ⟨?_, ?_, ?_⟩
      · exact secWrites_pairwise c enc SO SE (eh + pht) secs hse hsecIdx hdata hdisj
      · -- program header records among themselves
        rw [List.pairwise_map]
        refine hsegIdx.imp ?_
        intro a b hne
        unfold WDisj segWrite
        simp only [encodePhdr_length]
        exact mul_index_disj hpe hne _
      · -- sections against program header records
        intro a ha b hb
        obtain ⟨s, hs, has⟩ := List.mem_flatMap.1 ha
        obtain ⟨g, hg, rfl⟩ := List.mem_map.1 hb
        unfold WDisj
        simp only [segWrite, encodePhdr_length]
        have hgi := hsegIn g hg
        rcases secWrites_mem has with ⟨ea, la⟩ | ⟨wa, ea, la⟩
        · right; rw [ea]; omega
        · right; rw [ea]; have := (hdata s hs wa).1; omega
  · have := hsmall b hb
    have := (hdata b hb ((written_iff b).1 hw)).2
    omega

end ElfioVerif.C03
