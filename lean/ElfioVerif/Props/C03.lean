import ElfioVerif.Model.Writer
namespace ElfioVerif.C03
end ElfioVerif.C03
