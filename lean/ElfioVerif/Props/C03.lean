/-
C03 — a file built through the API decodes, per the ELF specification, to what was put in.
-/
import ElfioVerif.Lemmas.Save
import ElfioVerif.Props.C02
import ElfioVerif.Props.C08
namespace ElfioVerif.C03
open Gen

/-! ### 1. records: what the writer emits is the specification encoding, field by field -/

/-- the bytes of field `name` of record `r` are the specification encoding (`encodeInt` in the
    declared byte order, at the gABI offset and width of table `l`) of `v` -/
def IsSpecField (l : Spec.Layout) (enc : Enc) (r : Bytes) (name : String) (v : Nat) : Prop :=
  slice r (Spec.field l name).1 (Spec.field l name).2 = encodeInt enc (Spec.field l name).2 v

theorem isSpecField_idx (l : Spec.Layout) (enc : Enc) (fs : List (Nat × Nat)) (name : String) (k : Nat)
    (hk : k < fs.length) (hf : Spec.field l name = (sumWidths (fs.take k), fs[k].1)) :
    IsSpecField l enc (encodeFields enc fs) name fs[k].2 := by
  unfold IsSpecField
  rw [hf]
  have h := slice_encodeFields enc (fs.take k) fs[k].1 fs[k].2 (fs.drop (k + 1))
  have e : fs.take k ++ (fs[k].1, fs[k].2) :: fs.drop (k + 1) = fs := by
    have : (fs[k].1, fs[k].2) = fs[k] := rfl
    rw [this, List.getElem_cons_drop, List.take_append_drop]
  rw [e] at h
  exact h

/-- reading a spec-encoded field back with the specification decoder gives the value (mod width) -/
theorem get_of_isSpecField {l : Spec.Layout} {enc : Enc} {r : Bytes} {name : String} {v : Nat}
    (h : IsSpecField l enc r name v) :
    Spec.get l enc r 0 name = v % 2 ^ (8 * (Spec.field l name).2) := by
  have hf : Spec.field l name = ((Spec.field l name).1, (Spec.field l name).2) := rfl
  unfold IsSpecField at h
  rw [C02.get_of_field hf, Nat.zero_add, h, decode_encodeInt]

/-- a record found at `base` of an image reads the same as the record alone -/
theorem get_at_base {l : Spec.Layout} {enc : Enc} {img r : Bytes} {base n : Nat} {name : String}
    (hs : slice img base n = r) (hf : (Spec.field l name).1 + (Spec.field l name).2 ≤ n) :
    Spec.get l enc img base name = Spec.get l enc r 0 name := by
  have hf' : Spec.field l name = ((Spec.field l name).1, (Spec.field l name).2) := rfl
  rw [C02.get_of_field hf', C02.get_of_field hf', ← hs, Nat.zero_add, slice_slice hf]

theorem wrField1 (e x) : wrField e 1 x = encodeInt e 1 x := wrField_eq e 1 x (by decide)
theorem wrField2 (e x) : wrField e 2 x = encodeInt e 2 x := wrField_eq e 2 x (by decide)
theorem wrField4 (e x) : wrField e 4 x = encodeInt e 4 x := wrField_eq e 4 x (by decide)
theorem wrField8 (e x) : wrField e 8 x = encodeInt e 8 x := wrField_eq e 8 x (by decide)

/-- the section header record as (width, value) pairs in gABI order -/
def shdrFields (c : Cls) (b : SecBuf) : List (Nat × Nat) :=
  match c with
  | .c32 => [(4, b.nameOff.toNat), (4, b.stype.toNat), (4, b.flags.toNat), (4, b.addr.toNat),
      (4, b.offset.toNat), (4, b.size.toNat), (4, b.link.toNat), (4, b.info.toNat),
      (4, b.addrAlign.toNat), (4, b.entSize.toNat)]
  | .c64 => [(4, b.nameOff.toNat), (4, b.stype.toNat), (8, b.flags.toNat), (8, b.addr.toNat),
      (8, b.offset.toNat), (8, b.size.toNat), (4, b.link.toNat), (4, b.info.toNat),
      (8, b.addrAlign.toNat), (8, b.entSize.toNat)]

def phdrFields (c : Cls) (g : Seg) : List (Nat × Nat) :=
  match c with
  | .c32 => [(4, g.stype.toNat), (4, g.offset.toNat), (4, g.vaddr.toNat), (4, g.paddr.toNat),
      (4, g.filesz.toNat), (4, g.memsz.toNat), (4, g.flags.toNat), (4, g.align.toNat)]
  | .c64 => [(4, g.stype.toNat), (4, g.flags.toNat), (8, g.offset.toNat), (8, g.vaddr.toNat),
      (8, g.paddr.toNat), (8, g.filesz.toNat), (8, g.memsz.toNat), (8, g.align.toNat)]

theorem encodeShdr_eq_fields (c : Cls) (enc : Enc) (b : SecBuf) :
    encodeShdr c enc b = encodeFields enc (shdrFields c b) := by
  cases c <;>
    simp only [encodeShdr, shdrFields, encodeFields, wrField4, wrField8, List.append_assoc, List.append_nil]

theorem encodePhdr_eq_fields (c : Cls) (enc : Enc) (g : Seg) :
    encodePhdr c enc g = encodeFields enc (phdrFields c g) := by
  cases c <;>
    simp only [encodePhdr, phdrFields, encodeFields, wrField4, wrField8, List.append_assoc, List.append_nil]

theorem encodeShdr_length (c : Cls) (enc : Enc) (b : SecBuf) : (encodeShdr c enc b).length = shdrSize c := by
  rw [encodeShdr_eq_fields, encodeFields_length]; cases c <;> rfl

theorem encodePhdr_length (c : Cls) (enc : Enc) (g : Seg) : (encodePhdr c enc g).length = phdrSize c := by
  rw [encodePhdr_eq_fields, encodeFields_length]; cases c <;> rfl

/-- **the section header record is the specification encoding of the section's fields**: every
    field sits at the gABI offset with the gABI width, encoded (`encodeInt`) in the byte order `enc`
    — the order the object was created with and that `e_ident[EI_DATA]` declares (`create_inv`). -/
theorem encodeShdr_spec_bytes (c : Cls) (enc : Enc) (b : SecBuf) :
    IsSpecField (Spec.shdrL c) enc (encodeShdr c enc b) "sh_name" b.nameOff.toNat ∧
    IsSpecField (Spec.shdrL c) enc (encodeShdr c enc b) "sh_type" b.stype.toNat ∧
    IsSpecField (Spec.shdrL c) enc (encodeShdr c enc b) "sh_flags" b.flags.toNat ∧
    IsSpecField (Spec.shdrL c) enc (encodeShdr c enc b) "sh_addr" b.addr.toNat ∧
    IsSpecField (Spec.shdrL c) enc (encodeShdr c enc b) "sh_offset" b.offset.toNat ∧
    IsSpecField (Spec.shdrL c) enc (encodeShdr c enc b) "sh_size" b.size.toNat ∧
    IsSpecField (Spec.shdrL c) enc (encodeShdr c enc b) "sh_link" b.link.toNat ∧
    IsSpecField (Spec.shdrL c) enc (encodeShdr c enc b) "sh_info" b.info.toNat ∧
    IsSpecField (Spec.shdrL c) enc (encodeShdr c enc b) "sh_addralign" b.addrAlign.toNat ∧
    IsSpecField (Spec.shdrL c) enc (encodeShdr c enc b) "sh_entsize" b.entSize.toNat := by
  rw [encodeShdr_eq_fields]
  cases c
  · exact ⟨isSpecField_idx Spec.shdr32 enc (shdrFields .c32 b) "sh_name" 0 (by simp [shdrFields]) rfl,
      isSpecField_idx Spec.shdr32 enc (shdrFields .c32 b) "sh_type" 1 (by simp [shdrFields]) rfl,
      isSpecField_idx Spec.shdr32 enc (shdrFields .c32 b) "sh_flags" 2 (by simp [shdrFields]) rfl,
      isSpecField_idx Spec.shdr32 enc (shdrFields .c32 b) "sh_addr" 3 (by simp [shdrFields]) rfl,
      isSpecField_idx Spec.shdr32 enc (shdrFields .c32 b) "sh_offset" 4 (by simp [shdrFields]) rfl,
      isSpecField_idx Spec.shdr32 enc (shdrFields .c32 b) "sh_size" 5 (by simp [shdrFields]) rfl,
      isSpecField_idx Spec.shdr32 enc (shdrFields .c32 b) "sh_link" 6 (by simp [shdrFields]) rfl,
      isSpecField_idx Spec.shdr32 enc (shdrFields .c32 b) "sh_info" 7 (by simp [shdrFields]) rfl,
      isSpecField_idx Spec.shdr32 enc (shdrFields .c32 b) "sh_addralign" 8 (by simp [shdrFields]) rfl,
      isSpecField_idx Spec.shdr32 enc (shdrFields .c32 b) "sh_entsize" 9 (by simp [shdrFields]) rfl⟩
  · exact ⟨isSpecField_idx Spec.shdr64 enc (shdrFields .c64 b) "sh_name" 0 (by simp [shdrFields]) rfl,
      isSpecField_idx Spec.shdr64 enc (shdrFields .c64 b) "sh_type" 1 (by simp [shdrFields]) rfl,
      isSpecField_idx Spec.shdr64 enc (shdrFields .c64 b) "sh_flags" 2 (by simp [shdrFields]) rfl,
      isSpecField_idx Spec.shdr64 enc (shdrFields .c64 b) "sh_addr" 3 (by simp [shdrFields]) rfl,
      isSpecField_idx Spec.shdr64 enc (shdrFields .c64 b) "sh_offset" 4 (by simp [shdrFields]) rfl,
      isSpecField_idx Spec.shdr64 enc (shdrFields .c64 b) "sh_size" 5 (by simp [shdrFields]) rfl,
      isSpecField_idx Spec.shdr64 enc (shdrFields .c64 b) "sh_link" 6 (by simp [shdrFields]) rfl,
      isSpecField_idx Spec.shdr64 enc (shdrFields .c64 b) "sh_info" 7 (by simp [shdrFields]) rfl,
      isSpecField_idx Spec.shdr64 enc (shdrFields .c64 b) "sh_addralign" 8 (by simp [shdrFields]) rfl,
      isSpecField_idx Spec.shdr64 enc (shdrFields .c64 b) "sh_entsize" 9 (by simp [shdrFields]) rfl⟩

/-- **the program header record is the specification encoding of the segment's fields** -/
theorem encodePhdr_spec_bytes (c : Cls) (enc : Enc) (g : Seg) :
    IsSpecField (Spec.phdrL c) enc (encodePhdr c enc g) "p_type" g.stype.toNat ∧
    IsSpecField (Spec.phdrL c) enc (encodePhdr c enc g) "p_flags" g.flags.toNat ∧
    IsSpecField (Spec.phdrL c) enc (encodePhdr c enc g) "p_offset" g.offset.toNat ∧
    IsSpecField (Spec.phdrL c) enc (encodePhdr c enc g) "p_vaddr" g.vaddr.toNat ∧
    IsSpecField (Spec.phdrL c) enc (encodePhdr c enc g) "p_paddr" g.paddr.toNat ∧
    IsSpecField (Spec.phdrL c) enc (encodePhdr c enc g) "p_filesz" g.filesz.toNat ∧
    IsSpecField (Spec.phdrL c) enc (encodePhdr c enc g) "p_memsz" g.memsz.toNat ∧
    IsSpecField (Spec.phdrL c) enc (encodePhdr c enc g) "p_align" g.align.toNat := by
  rw [encodePhdr_eq_fields]
  cases c
  · exact ⟨isSpecField_idx Spec.phdr32 enc (phdrFields .c32 g) "p_type" 0 (by simp [phdrFields]) rfl,
      isSpecField_idx Spec.phdr32 enc (phdrFields .c32 g) "p_flags" 6 (by simp [phdrFields]) rfl,
      isSpecField_idx Spec.phdr32 enc (phdrFields .c32 g) "p_offset" 1 (by simp [phdrFields]) rfl,
      isSpecField_idx Spec.phdr32 enc (phdrFields .c32 g) "p_vaddr" 2 (by simp [phdrFields]) rfl,
      isSpecField_idx Spec.phdr32 enc (phdrFields .c32 g) "p_paddr" 3 (by simp [phdrFields]) rfl,
      isSpecField_idx Spec.phdr32 enc (phdrFields .c32 g) "p_filesz" 4 (by simp [phdrFields]) rfl,
      isSpecField_idx Spec.phdr32 enc (phdrFields .c32 g) "p_memsz" 5 (by simp [phdrFields]) rfl,
      isSpecField_idx Spec.phdr32 enc (phdrFields .c32 g) "p_align" 7 (by simp [phdrFields]) rfl⟩
  · exact ⟨isSpecField_idx Spec.phdr64 enc (phdrFields .c64 g) "p_type" 0 (by simp [phdrFields]) rfl,
      isSpecField_idx Spec.phdr64 enc (phdrFields .c64 g) "p_flags" 1 (by simp [phdrFields]) rfl,
      isSpecField_idx Spec.phdr64 enc (phdrFields .c64 g) "p_offset" 2 (by simp [phdrFields]) rfl,
      isSpecField_idx Spec.phdr64 enc (phdrFields .c64 g) "p_vaddr" 3 (by simp [phdrFields]) rfl,
      isSpecField_idx Spec.phdr64 enc (phdrFields .c64 g) "p_paddr" 4 (by simp [phdrFields]) rfl,
      isSpecField_idx Spec.phdr64 enc (phdrFields .c64 g) "p_filesz" 5 (by simp [phdrFields]) rfl,
      isSpecField_idx Spec.phdr64 enc (phdrFields .c64 g) "p_memsz" 6 (by simp [phdrFields]) rfl,
      isSpecField_idx Spec.phdr64 enc (phdrFields .c64 g) "p_align" 7 (by simp [phdrFields]) rfl⟩

/-- the values fit the class's field widths.  ELF64: always.  ELF32: the six address-sized
    fields are below 2^32 — which every setter guarantees by truncating (`truncA`, `setSize`). -/
structure FieldsFit (c : Cls) (b : SecBuf) : Prop where
  flags : c = .c32 → b.flags.toNat < 4294967296
  addr : c = .c32 → b.addr.toNat < 4294967296
  offset : c = .c32 → b.offset.toNat < 4294967296
  size : c = .c32 → b.size.toNat < 4294967296
  addrAlign : c = .c32 → b.addrAlign.toNat < 4294967296
  entSize : c = .c32 → b.entSize.toNat < 4294967296

structure SegFit (c : Cls) (g : Seg) : Prop where
  offset : c = .c32 → g.offset.toNat < 4294967296
  vaddr : c = .c32 → g.vaddr.toNat < 4294967296
  paddr : c = .c32 → g.paddr.toNat < 4294967296
  filesz : c = .c32 → g.filesz.toNat < 4294967296
  memsz : c = .c32 → g.memsz.toNat < 4294967296
  align : c = .c32 → g.align.toNat < 4294967296

theorem fieldsFit_c64 (b : SecBuf) : FieldsFit .c64 b := by constructor <;> intro h <;> cases h
theorem segFit_c64 (g : Seg) : SegFit .c64 g := by constructor <;> intro h <;> cases h

theorem truncA_fit (c : Cls) (v : BitVec 64) : c = .c32 → (truncA c v).toNat < 4294967296 := by
  intro h; subst h
  simp only [truncA, BitVec.toNat_setWidth, Nat.reducePow]
  omega

private theorem get32 {l : Spec.Layout} {enc : Enc} {r : Bytes} {name : String} {x : BitVec 32}
    (h : IsSpecField l enc r name x.toNat) (hw : (Spec.field l name).2 = 4) :
    Spec.get l enc r 0 name = x.toNat := by
  rw [get_of_isSpecField h, hw]; have := x.isLt; simp only [Nat.reducePow, Nat.reduceMul] at *; omega

private theorem get64 {l : Spec.Layout} {enc : Enc} {r : Bytes} {name : String} {x : BitVec 64}
    (h : IsSpecField l enc r name x.toNat) (hw : (Spec.field l name).2 = 8) :
    Spec.get l enc r 0 name = x.toNat := by
  rw [get_of_isSpecField h, hw]; have := x.isLt; simp only [Nat.reducePow, Nat.reduceMul] at *; omega

private theorem get64' {l : Spec.Layout} {enc : Enc} {r : Bytes} {name : String} {x : BitVec 64}
    (h : IsSpecField l enc r name x.toNat) (hw : (Spec.field l name).2 = 4) (hx : x.toNat < 4294967296) :
    Spec.get l enc r 0 name = x.toNat := by
  rw [get_of_isSpecField h, hw]; simp only [Nat.reducePow, Nat.reduceMul] at *; omega

/-- **encodeShdr_eq_spec** : reading the emitted section header record with the *specification*
    decoder (gABI offsets/widths of Spec/Records.lean, byte order `enc`) returns exactly the
    section's fields. -/
theorem encodeShdr_eq_spec (c : Cls) (enc : Enc) (b : SecBuf) (hf : FieldsFit c b) :
    let r := encodeShdr c enc b; let l := Spec.shdrL c
    Spec.get l enc r 0 "sh_name" = b.nameOff.toNat ∧ Spec.get l enc r 0 "sh_type" = b.stype.toNat ∧
    Spec.get l enc r 0 "sh_flags" = b.flags.toNat ∧ Spec.get l enc r 0 "sh_addr" = b.addr.toNat ∧
    Spec.get l enc r 0 "sh_offset" = b.offset.toNat ∧ Spec.get l enc r 0 "sh_size" = b.size.toNat ∧
    Spec.get l enc r 0 "sh_link" = b.link.toNat ∧ Spec.get l enc r 0 "sh_info" = b.info.toNat ∧
    Spec.get l enc r 0 "sh_addralign" = b.addrAlign.toNat ∧ Spec.get l enc r 0 "sh_entsize" = b.entSize.toNat := by
  obtain ⟨h0, h1, h2, h3, h4, h5, h6, h7, h8, h9⟩ := encodeShdr_spec_bytes c enc b
  cases c
  · exact ⟨get32 h0 rfl, get32 h1 rfl, get64' h2 rfl (hf.flags rfl), get64' h3 rfl (hf.addr rfl),
      get64' h4 rfl (hf.offset rfl), get64' h5 rfl (hf.size rfl), get32 h6 rfl, get32 h7 rfl,
      get64' h8 rfl (hf.addrAlign rfl), get64' h9 rfl (hf.entSize rfl)⟩
  · exact ⟨get32 h0 rfl, get32 h1 rfl, get64 h2 rfl, get64 h3 rfl, get64 h4 rfl, get64 h5 rfl,
      get32 h6 rfl, get32 h7 rfl, get64 h8 rfl, get64 h9 rfl⟩

/-- **encodePhdr_eq_spec** -/
theorem encodePhdr_eq_spec (c : Cls) (enc : Enc) (g : Seg) (hf : SegFit c g) :
    let r := encodePhdr c enc g; let l := Spec.phdrL c
    Spec.get l enc r 0 "p_type" = g.stype.toNat ∧ Spec.get l enc r 0 "p_flags" = g.flags.toNat ∧
    Spec.get l enc r 0 "p_offset" = g.offset.toNat ∧ Spec.get l enc r 0 "p_vaddr" = g.vaddr.toNat ∧
    Spec.get l enc r 0 "p_paddr" = g.paddr.toNat ∧ Spec.get l enc r 0 "p_filesz" = g.filesz.toNat ∧
    Spec.get l enc r 0 "p_memsz" = g.memsz.toNat ∧ Spec.get l enc r 0 "p_align" = g.align.toNat := by
  obtain ⟨h0, h1, h2, h3, h4, h5, h6, h7⟩ := encodePhdr_spec_bytes c enc g
  cases c
  · exact ⟨get32 h0 rfl, get32 h1 rfl, get64' h2 rfl (hf.offset rfl), get64' h3 rfl (hf.vaddr rfl),
      get64' h4 rfl (hf.paddr rfl), get64' h5 rfl (hf.filesz rfl), get64' h6 rfl (hf.memsz rfl),
      get64' h7 rfl (hf.align rfl)⟩
  · exact ⟨get32 h0 rfl, get32 h1 rfl, get64 h2 rfl, get64 h3 rfl, get64 h4 rfl, get64 h5 rfl,
      get64 h6 rfl, get64 h7 rfl⟩

/-- **decode ∘ encode = id** on the ten header fields (the model's decoder is the specification's:
    `C02.shdr_fields_eq_spec`) -/
theorem decodeShdr_encodeShdr (c : Cls) (enc : Enc) (b b0 : SecBuf) (hf : FieldsFit c b) :
    let s := decodeShdr c enc (encodeShdr c enc b) b0
    s.nameOff = b.nameOff ∧ s.stype = b.stype ∧ s.flags = b.flags ∧ s.addr = b.addr ∧
    s.offset = b.offset ∧ s.size = b.size ∧ s.link = b.link ∧ s.info = b.info ∧
    s.addrAlign = b.addrAlign ∧ s.entSize = b.entSize := by
  obtain ⟨d0, d1, d2, d3, d4, d5, d6, d7, d8, d9⟩ :=
    C02.shdr_fields_eq_spec c enc (encodeShdr c enc b) b0 (by rw [encodeShdr_length]; exact Nat.le_refl _)
  obtain ⟨h0, h1, h2, h3, h4, h5, h6, h7, h8, h9⟩ := encodeShdr_eq_spec c enc b hf
  exact ⟨BitVec.eq_of_toNat_eq (d0.trans h0), BitVec.eq_of_toNat_eq (d1.trans h1),
    BitVec.eq_of_toNat_eq (d2.trans h2), BitVec.eq_of_toNat_eq (d3.trans h3),
    BitVec.eq_of_toNat_eq (d4.trans h4), BitVec.eq_of_toNat_eq (d5.trans h5),
    BitVec.eq_of_toNat_eq (d6.trans h6), BitVec.eq_of_toNat_eq (d7.trans h7),
    BitVec.eq_of_toNat_eq (d8.trans h8), BitVec.eq_of_toNat_eq (d9.trans h9)⟩

theorem decodePhdr_encodePhdr (c : Cls) (enc : Enc) (g g0 : Seg) (hf : SegFit c g) :
    let s := decodePhdr c enc (encodePhdr c enc g) g0
    s.stype = g.stype ∧ s.flags = g.flags ∧ s.offset = g.offset ∧ s.vaddr = g.vaddr ∧
    s.paddr = g.paddr ∧ s.filesz = g.filesz ∧ s.memsz = g.memsz ∧ s.align = g.align := by
  obtain ⟨d0, d1, d2, d3, d4, d5, d6, d7⟩ :=
    C02.phdr_fields_eq_spec c enc (encodePhdr c enc g) g0 (by rw [encodePhdr_length]; exact Nat.le_refl _)
  obtain ⟨h0, h1, h2, h3, h4, h5, h6, h7⟩ := encodePhdr_eq_spec c enc g hf
  exact ⟨BitVec.eq_of_toNat_eq (d0.trans h0), BitVec.eq_of_toNat_eq (d1.trans h1),
    BitVec.eq_of_toNat_eq (d2.trans h2), BitVec.eq_of_toNat_eq (d3.trans h3),
    BitVec.eq_of_toNat_eq (d4.trans h4), BitVec.eq_of_toNat_eq (d5.trans h5),
    BitVec.eq_of_toNat_eq (d6.trans h6), BitVec.eq_of_toNat_eq (d7.trans h7)⟩

/-- non-vacuity: a concrete ELF32 section meets `FieldsFit`, and its big-endian record starts with
    the name offset in big-endian order -/
example : FieldsFit .c32 { SecBuf.fresh .c32 1 with nameOff := 0x0102, flags := 6, addr := 0x8000, size := 12 } := by
  constructor <;> intro _ <;> decide
example : (encodeShdr .c32 .msb { SecBuf.fresh .c32 1 with nameOff := 0x0102 }).take 4 = [0, 0, 1, 2] := by decide
example : (encodeShdr .c32 .lsb { SecBuf.fresh .c32 1 with nameOff := 0x0102 }).take 4 = [2, 1, 0, 0] := by decide

end ElfioVerif.C03
