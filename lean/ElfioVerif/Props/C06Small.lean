/-
C06 / composition theorems on the closed-form domain: `layoutNW` (Props/C04.lean) discharged from
`SmallObject` (Lemmas/LayoutSmall.lean, Props/C04Small.lean) and `StepNoWrap` from `layoutNW`
(Props/C06Rest.lean).  The no-wrap hypotheses of `save_twice_runs` are then plain bounds on the input
object plus the static condition `HeadOk` on the member lists.
-/
import ElfioVerif.Props.C06Rest
import ElfioVerif.Props.C04Small
namespace ElfioVerif.C06
open ElfioVerif Gen Sv

/-- **save_twice_runs_small'** : the second `save` of a saved object succeeds and returns the same result —
    every no-wrap hypothesis in closed form.  `SmallObject o` (ELF64, < 2^16 sections / segments, sizes and
    alignments < 2^40, explicit member addresses in `[vaddr, vaddr + 2^40)`) gives `layoutNW`;
    `HeadOk` (every segment has < 2^16 members, its first member is neither SHT_NULL-typed nor section 0)
    gives the start condition; `ResaveOkC` is the F13 side condition. -/
theorem save_twice_runs_small' {o : Obj} {os : OStream} {r : SaveRes} {hd : Bytes}
    (hh : o.hdr = some hd) (hl : ehdrSize o.cls ≤ hd.length) (hidx : SegIdxOk o.segs) (hz : FrontOk o.segs)
    (h0 : ∀ (i : Nat) (s : SecBuf), o.secs[i]? = some s → s.Occ → s.index ≠ 0)
    (hnull0 : ∀ s ∈ o.secs, s.stype = BitVec.ofNat 32 SHT_NULL → s.size = 0)
    (hC : ResaveOkC o hd) (hsm : SmallObject o) (hstat : ∀ g ∈ o.segs, HeadOk o.secs g)
    (hs : save o os = .ok r) (hok : r.ok = true) : save r.obj os = .ok r :=
  save_twice_runs_static' hh hl hidx hz hsm.2.1 h0 hnull0 hC (C04.layoutNW_of_small o hd hsm) hstat hs hok

/-- non-vacuity: the loader-like ELF64 object of Props/C06Cls.lean (first PT_LOAD at file offset 0) -/
example : ∀ r, save exLoadedLike {} = .ok r → r.ok = true → save r.obj {} = .ok r := by
  intro r hs hok
  obtain ⟨h1, h2, h3, _, h5, h6, _⟩ := exLoadedLike_resave
  refine save_twice_runs_small' h1 h2 h3 h5 ?_ ?_ h6 (by decide) ?_ hs hok
  · have : ∀ s ∈ exLoadedLike.secs, s.Occ → s.index ≠ 0 := by decide
    intro i s hs; exact this s (List.mem_of_getElem? hs)
  · have : ∀ s ∈ exLoadedLike.secs, s.stype = BitVec.ofNat 32 SHT_NULL → s.size = 0 := by decide
    exact this
  · have : exLoadedLike.segs.all (headOkB exLoadedLike.secs) = true := by decide +kernel
    intro g hg
    exact headOk_of_B (List.all_eq_true.1 this g hg)

end ElfioVerif.C06

namespace ElfioVerif.Compose
open ElfioVerif Gen Sv RoundTrip

/-- `ComposeDomain` (the domain of the C02/C03/C05/C20 composition theorems) with its `layoutNW` clause
    replaced by the closed-form bounds `SmallObject` -/
theorem composeDomain_of_small {o : Obj} {hd : Bytes} (hdr : o.hdr = some hd) (tr : o.trans = [])
    (input : SaveInput o hd) (hsm : SmallObject o) (small : C03.fileSmallB o hd = true)
    (segFit : ∀ g ∈ o.segs, C03.SegFit o.cls g) : ComposeDomain o hd :=
  ⟨hdr, tr, input, C04.layoutNW_of_small o hd hsm, small, segFit⟩

/-- **save_load_save_flat_small'** (C06, flat segments, closed-form no-wrap) : `save_load_save_flat'` with
    `NoWrap64` of the saved object discharged from plain bounds on the input (`C04.noWrap64_of_small_flat`):
    `SmallObject`, `SmallAddrs2` (addresses, offsets, segment vaddr < 2^62; index-0 / SHT_NULL sections at
    offset 0; < 2^16 members) and `p_memsz < 2^62`.  No hypothesis runs the layout for a wrap-around check any
    more: `ResaveDomainC` contains `layoutNW`, which `SmallObject` implies as well
    (`composeDomain_of_small`). -/
theorem save_load_save_flat_small' {o : Obj} {os : OStream} {r : SaveRes} {hd : Bytes}
    (hs : save o os = .ok r) (hok : r.ok = true) (hg : os.Good) (hos : os.content.length < 9223372036854775808)
    (D : ResaveDomainC o hd) (hsm : SmallObject o) (ha : SmallAddrs2 o)
    (hmem : ∀ g ∈ o.segs, g.memsz.toNat < 4611686018427387904)
    (hsep : AddrSeparate r.obj.secs r.obj.segs)
    (o2 : Obj) (k : StreamKind) (isLazy : Bool) (htr2 : o2.trans = []) :
    ∃ (r2 : LoadRes) (r3 : SaveRes), load o2 { data := r.os.content, kind := k } isLazy = .ok r2 ∧ r2.ok = true ∧
      save r2.obj os = .ok r3 ∧ r3.ok = true ∧ r3.os = r.os :=
  save_load_save_flat' hs hok hg hos D (C04.noWrap64_of_small_flat hs hok D.toFlatDomain hsm ha hmem) hsep
    o2 k isLazy htr2

/-- non-vacuity: `exTwoM` (ELF64/LSB, two PT_LOADs, explicit address, NOBITS member, loose section) -/
example (k : StreamKind) (isLazy : Bool) :
    ∃ (r2 : LoadRes) (r3 : SaveRes),
      load {} { data := (savedOf (objOf exTwoM)).os.content, kind := k } isLazy = .ok r2 ∧ r2.ok = true ∧
      save r2.obj {} = .ok r3 ∧ r3.ok = true ∧ r3.os = (savedOf (objOf exTwoM)).os :=
  save_load_save_flat_small' exTwo_ok.saved exTwo_ok.ok ⟨rfl, rfl⟩ (by decide)
    ⟨exTwo_ok.dom, exTwo_resave.cov, memberDomain_of_B exTwo_resave.members, exTwo_resave.res,
      Or.inl exTwo_resave.front, C06.resaveOkC_of_B (by decide +kernel)⟩
    (by decide +kernel) (by unfold SmallAddrs2; decide +kernel) (by decide +kernel)
    (addrSeparate_of_B exTwo_resave.sep) {} k isLazy rfl

end ElfioVerif.Compose
