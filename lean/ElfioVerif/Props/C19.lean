import ElfioVerif.Model.Heap
/-
# C19 — a moved-to object is complete and independent of its source   (**partial**)

What is proved, about `Model/Heap.lean` (ownership graph of `elfio` objects: who owns which
convertor/translator pair, which `ifstream`, which header/sections/segments, and where the raw
pointers stored in header/sections/segments lead), variant `Variant.fixed` = elfio.hpp after
fixes/06 (move ownership), 07 (compression constructor), 08 (stale stream after a failed open):

 * `step_refines`, `move_refines` — for **every** history (any interleaving of construct, create,
   set_address_translation, load(file) eager/lazy, load of a missing file, move-construct,
   move-assign, destroy, storage reuse, observe/edit/save over any number of objects), from every
   state satisfying the ownership invariant `Inv` (in particular the empty heap: `inv_empty`), the
   code produces exactly the outputs and the final values of *value semantics*
   (`Spec/Value.lean`: a move transfers the value and leaves the source empty-but-valid; nothing
   done to one object is visible through another) and re-establishes `Inv`.  Proof: induction over
   the history with the abstraction function `abs` (read each object's value through its pointers).
 * `move_refines_wf` — on well-formed histories (`WF`: no operation on a destroyed or never
   constructed object) from the empty heap the only fault possible is a fault of the content
   operations themselves (`create`/`load`/edit of the abstract contents — other families), and it is
   the same fault value semantics has.  `no_dangling` — *no* history, well-formed or not, makes the
   repaired code dereference a pointer into freed storage.
 * `source_reusable_construct`, `source_reusable_assign` — after a move the destination holds the
   value the source held, the source is `Value.empty` (valid, no header, no address translation),
   nobody else changed; the source can be destroyed and its storage reused without effect on anyone.
 * `reinit_fresh_create`, `reinit_fresh_load`, `source_reinit_like_fresh` — `create`/`load` on any
   live object of any reachable state give the same output and value as on any other object with
   the same address translation, in particular as on a freshly constructed one.
 * On the model of the code **before** the repairs (`Variant.asIs`), by evaluation of concrete
   histories over a miniature content algebra (`toy`): `move_uaf_witness` (destination used after
   the source was deleted), `move_alias_witness` / `move_assign_alias_witness` (source re-created /
   re-loaded with the other byte order: the destination's fields flip), `move_stream_witness`
   (lazily loaded object moved, stream dies with the source's next load), `ctor_header_witness`,
   `open_stale_stream_witness`, `vec_growth_witness` (`std::vector<elfio>` growth).  Each comes with
   the `example` that the repaired variant agrees with value semantics on the same history.

Why **partial**: the theorems are about the ownership graph *as read off elfio.hpp by hand* (the
eight creation sites that hand `convertor.get(), addr_translator.get()` to header/section/segment
constructors, the two move operations, `create`, the two `load`s, the defaulted destructor); there
is no generated tie for "which object does this pointer point to".  That the real code has this
graph — i.e. C++ object lifetime itself — is observed only by ASan in the correspondence
(harness/c19.cpp: objects heap-allocated, deleted, storage re-allocated and overwritten, vector
growth).  The contents (ELF header/sections/segments, observe/edit/save) are a parameter (`Ops`):
every statement holds for all content algebras, the driver instantiates it with Model/Obj+Load+Writer.
Hypotheses: `Inv` of the start state (trivial for the empty heap); `WF` where stated.
Not modelled: the compression interface (a `shared_ptr` copied into the sections, no raw pointer);
accessor objects holding `const elfio&` (they are the caller's); `current_file_pos` (dead state).
-/
namespace ElfioVerif.C19
open ElfioVerif ElfioVerif.Own

variable {ops : Ops}

/-! ### abstraction: the value an object holds, read through its pointers -/

def absCell (h : Heap ops) (c : Cell ops.C) : Value ops :=
  { trans := match h.boxes c.box with
      | some bx => bx.trans
      | none => ops.noTrans,
    filled := c.body.map fun b =>
      { enc := match h.boxes b.box with
          | some bx => bx.enc
          | none => .lsb,
        stream := b.stream.bind h.streams,
        content := b.content } }

def abs (h : Heap ops) : SHeap ops := fun i => (h.cells i).map (absCell h)

/-- ownership invariant: every live object owns a live convertor/translator pair and (if any) a
    live stream, no two objects own the same, and the pointers of an object's header, sections and
    segments lead to what *that object* owns -/
structure Inv (h : Heap ops) : Prop where
  boxLive : ∀ i c, h.cells i = some c → (h.boxes c.box).isSome
  boxLt : ∀ i c, h.cells i = some c → c.box < h.nbox
  boxInj : ∀ i j ci cj, h.cells i = some ci → h.cells j = some cj → ci.box = cj.box → i = j
  strLive : ∀ i c s, h.cells i = some c → c.pstream = some s → (h.streams s).isSome
  strLt : ∀ i c s, h.cells i = some c → c.pstream = some s → s < h.nstream
  strInj : ∀ i j ci cj s, h.cells i = some ci → h.cells j = some cj → ci.pstream = some s →
    cj.pstream = some s → i = j
  bodyBox : ∀ i c b, h.cells i = some c → c.body = some b → b.box = c.box
  bodyStr : ∀ i c b s, h.cells i = some c → c.body = some b → b.stream = some s → c.pstream = some s

theorem inv_empty : Inv (Heap.empty ops) := by
  constructor <;> intros <;> simp_all [Heap.empty]

theorem abs_empty : abs (Heap.empty ops) = fun _ => none := by
  funext i; simp [abs, Heap.empty]

/-- the value of an object depends only on its own pair and its own stream -/
theorem absCell_congr (h h' : Heap ops) (c : Cell ops.C)
    (hb : h'.boxes c.box = h.boxes c.box)
    (hbody : ∀ b, c.body = some b → h'.boxes b.box = h.boxes b.box ∧
      b.stream.bind h'.streams = b.stream.bind h.streams) :
    absCell h' c = absCell h c := by
  unfold absCell
  rw [hb]
  cases hbd : c.body with
  | none => rfl
  | some b =>
    obtain ⟨h1, h2⟩ := hbody b hbd
    simp only [Option.map_some, h1, h2]


/-- one operation of the repaired code against value semantics -/
def Refines (h : Heap ops) (op : Op ops.Cmd ops.T) : Prop :=
  match sstep ops (abs h) op with
  | .ok (s', out) => ∃ h', step Variant.fixed h op = .ok (h', out) ∧ abs h' = s' ∧ Inv h'
  | .error e => step Variant.fixed h op = .error e

theorem abs_none {h : Heap ops} {i : Nat} (hc : h.cells i = none) : abs h i = none := by
  simp [abs, hc]

theorem abs_some {h : Heap ops} {i : Nat} {c : Cell ops.C} (hc : h.cells i = some c) :
    abs h i = some (absCell h c) := by
  simp [abs, hc]

theorem freeStream_apply (f : Nat → Option ops.S) (p : Option Nat) (s : Nat) :
    freeStream f p s = if p = some s then none else f s := by
  cases p with
  | none => simp [freeStream]
  | some q =>
    simp only [freeStream, upd, Option.some.injEq]
    by_cases hq : s = q
    · subst hq; simp
    · have : ¬ q = s := fun e => hq e.symm
      simp [hq, this]

theorem abs_isSome (h : Heap ops) (i : Nat) : (abs h i).isSome = (h.cells i).isSome := by
  simp [abs]

/-- frame: an object whose cell, pair and stream are untouched keeps its value -/
theorem abs_frame {h h' : Heap ops} (hinv : Inv h) {j : Nat}
    (hcell : h'.cells j = h.cells j)
    (hbox : ∀ c, h.cells j = some c → h'.boxes c.box = h.boxes c.box)
    (hstr : ∀ c s, h.cells j = some c → c.pstream = some s → h'.streams s = h.streams s) :
    abs h' j = abs h j := by
  unfold abs
  rw [hcell]
  cases hcj : h.cells j with
  | none => rfl
  | some cj =>
    simp only [Option.map_some]
    congr 1
    apply absCell_congr
    · exact hbox cj hcj
    · intro b hb
      have h1 := hinv.bodyBox j cj b hcj hb
      refine ⟨by rw [h1]; exact hbox cj hcj, ?_⟩
      cases hs : b.stream with
      | none => rfl
      | some s =>
        have h2 := hinv.bodyStr j cj b s hcj hb hs
        simp only [Option.bind_some]
        exact hstr cj s hcj h2

theorem setTrans_refines (h : Heap ops) (hinv : Inv h) (id : Nat) (t : ops.T) :
    Refines h (.setTrans id t) := by
  unfold Refines
  simp only [sstep, step, setTrans, sget, getCell]
  cases hc : h.cells id with
  | none => simp [abs_none hc]
  | some c =>
    have hl := hinv.boxLive id c hc
    cases hbx : h.boxes c.box with
    | none => simp [hbx] at hl
    | some bx =>
      simp only [abs_some hc, derefBox, hbx]
      refine ⟨_, rfl, ?_, ?_⟩
      · funext j
        by_cases hj : j = id
        · subst hj
          simp only [abs, hc, upd_same, Option.map_some, absCell, hbx]
          cases hbd : c.body with
          | none => simp
          | some b =>
            have := hinv.bodyBox j c b hc hbd
            simp [this, hbx]
        · rw [upd_other _ _ hj]
          apply abs_frame hinv
          · rfl
          · intro cj hcj
            have := hinv.boxInj j id cj c hcj hc
            grind [upd]
          · intros; rfl
      · obtain ⟨a1, a2, a3, a4, a5, a6, a7, a8⟩ := hinv
        constructor <;> grind [upd]

theorem construct_refines (h : Heap ops) (hinv : Inv h) (id : Nat) (comp : Bool) :
    Refines h (.construct id comp) := by
  unfold Refines
  simp only [sstep, step, construct, abs_isSome, Variant.fixed, Bool.not_true, Bool.and_false,
    Bool.false_eq_true, if_false]
  cases hc : h.cells id with
  | some c => simp
  | none =>
    simp only [Option.isSome_none, Bool.false_eq_true, if_false]
    cases hcr : liftC (ops.create Cls.c32 Enc.lsb) with
    | error e => simp
    | ok ct =>
      simp only
      refine ⟨_, rfl, ?_, ?_⟩
      · funext j
        by_cases hj : j = id
        · subst hj
          simp [abs, absCell]
        · rw [upd_other _ _ hj]
          apply abs_frame hinv
          · simp [upd_other _ _ hj]
          · intro cj hcj
            have := hinv.boxLt j cj hcj
            grind [upd]
          · intros; rfl
      · obtain ⟨a1, a2, a3, a4, a5, a6, a7, a8⟩ := hinv
        constructor <;> grind [upd]

theorem create_refines (h : Heap ops) (hinv : Inv h) (id : Nat) (cls : Cls) (enc : Enc) :
    Refines h (.create id cls enc) := by
  unfold Refines
  simp only [sstep, step, create, sget, getCell]
  cases hc : h.cells id with
  | none => simp [abs_none hc]
  | some c =>
    have hl := hinv.boxLive id c hc
    cases hbx : h.boxes c.box with
    | none => simp [hbx] at hl
    | some bx =>
      simp only [abs_some hc, derefBox, hbx]
      cases hcr : liftC (ops.create cls enc) with
      | error e => simp
      | ok ct =>
        simp only
        refine ⟨_, rfl, ?_, ?_⟩
        · funext j
          by_cases hj : j = id
          · subst hj
            simp [abs, absCell, hbx]
          · rw [upd_other _ _ hj]
            apply abs_frame hinv
            · simp [upd_other _ _ hj]
            · intro cj hcj
              have := hinv.boxInj j id cj c hcj hc
              grind [upd]
            · intros; rfl
        · obtain ⟨a1, a2, a3, a4, a5, a6, a7, a8⟩ := hinv
          constructor <;> grind [upd]

theorem destroy_refines (h : Heap ops) (hinv : Inv h) (id : Nat) :
    Refines h (.destroy id) := by
  unfold Refines
  simp only [sstep, step, destroy, sget, getCell]
  cases hc : h.cells id with
  | none => simp [abs_none hc]
  | some c =>
    simp only [abs_some hc]
    refine ⟨_, rfl, ?_, ?_⟩
    · funext j
      by_cases hj : j = id
      · subst hj
        simp [abs]
      · rw [upd_other _ _ hj]
        apply abs_frame hinv
        · simp [upd_other _ _ hj]
        · intro cj hcj
          have := hinv.boxInj j id cj c hcj hc
          grind [upd]
        · intro cj s hcj hs
          have := hinv.strInj j id cj c s hcj hc hs
          grind [upd, freeStream_apply]
    · obtain ⟨a1, a2, a3, a4, a5, a6, a7, a8⟩ := hinv
      constructor <;> grind [upd, freeStream_apply]

theorem load_refines (h : Heap ops) (hinv : Inv h) (id : Nat) (img : Bytes) (isLazy : Bool) :
    Refines h (.load id img isLazy) := by
  unfold Refines
  simp only [sstep, step, load, sget, getCell]
  cases hc : h.cells id with
  | none => simp [abs_none hc]
  | some c =>
    have hl := hinv.boxLive id c hc
    cases hbx : h.boxes c.box with
    | none => simp [hbx] at hl
    | some bx =>
      simp only [abs_some hc, derefBox, hbx]
      have htr : (absCell h c).trans = bx.trans := by simp [absCell, hbx]
      rw [htr]
      cases hld : liftC (ops.load bx.trans img isLazy) with
      | error e => simp
      | ok r =>
        simp only
        refine ⟨_, rfl, ?_, ?_⟩
        · funext j
          by_cases hj : j = id
          · subst hj
            simp only [abs, upd_same, Option.map_some]
            congr 1
            cases hres : r.res with
            | none =>
              simp only [absCell, hbx]
              cases hbd : c.body with
              | none => simp
              | some b =>
                have := hinv.bodyBox j c b hc hbd
                simp [Body.cleared, Filled.cleared, this, hbx]
            | some ec =>
              obtain ⟨e, ct⟩ := ec
              cases isLazy <;> simp [absCell, hbx]
          · rw [upd_other _ _ hj]
            apply abs_frame hinv
            · simp [upd_other _ _ hj]
            · intro cj hcj
              have := hinv.boxInj j id cj c hcj hc
              cases hres : r.res <;> grind [upd]
            · intro cj s hcj hs
              have := hinv.strInj j id cj c s hcj hc hs
              have := hinv.strLt j cj s hcj hs
              grind [upd, freeStream_apply]
        · obtain ⟨a1, a2, a3, a4, a5, a6, a7, a8⟩ := hinv
          constructor <;> cases hres : r.res <;> cases isLazy <;> cases hbd : c.body <;>
            grind [upd, freeStream_apply, Body.cleared]

theorem loadMissing_refines (h : Heap ops) (hinv : Inv h) (id : Nat) (isLazy : Bool) :
    Refines h (.loadMissing id isLazy) := by
  unfold Refines
  simp only [sstep, step, loadMissing, sget, getCell, Variant.fixed, if_true]
  cases hc : h.cells id with
  | none => simp [abs_none hc]
  | some c =>
    simp only [abs_some hc]
    refine ⟨_, rfl, ?_, ?_⟩
    · funext j
      by_cases hj : j = id
      · subst hj
        simp only [abs, upd_same, Option.map_some]
        congr 1
        simp only [absCell]
        cases hbd : c.body with
        | none => simp
        | some b => simp [Body.cleared, Filled.cleared]
      · rw [upd_other _ _ hj]
        apply abs_frame hinv
        · simp [upd_other _ _ hj]
        · intros; rfl
        · intro cj s hcj hs
          have := hinv.strInj j id cj c s hcj hc hs
          have := hinv.strLt j cj s hcj hs
          grind [upd, freeStream_apply]
    · obtain ⟨a1, a2, a3, a4, a5, a6, a7, a8⟩ := hinv
      constructor <;> cases hbd : c.body <;> grind [upd, freeStream_apply, Body.cleared]

theorem absCell_empty (h : Heap ops) (b : Nat) (hb : h.boxes b = some { enc := .lsb, trans := ops.noTrans }) :
    absCell h { box := b, pstream := none, body := none } = Value.empty ops := by
  simp [absCell, hb, Value.empty]

theorem moveConstruct_refines (h : Heap ops) (hinv : Inv h) (dst src : Nat) :
    Refines h (.moveConstruct dst src) := by
  unfold Refines
  simp only [sstep, step, moveConstruct, sget, getCell, abs_isSome, Variant.fixed, if_true]
  cases hd : h.cells dst with
  | some cd => simp
  | none =>
    simp only [Option.isSome_none, Bool.false_eq_true, if_false]
    cases hs : h.cells src with
    | none => simp [abs_none hs]
    | some cs =>
      simp only [abs_some hs]
      have hne : dst ≠ src := by intro e; rw [e] at hd; simp [hd] at hs
      have hblt := hinv.boxLt src cs hs
      refine ⟨_, rfl, ?_, ?_⟩
      · funext j
        by_cases hjs : j = src
        · subst hjs
          simp only [abs, upd_same, Option.map_some]
          congr 1
          apply absCell_empty
          simp
        · rw [upd_other _ _ hjs]
          by_cases hjd : j = dst
          · subst hjd
            simp only [abs, upd_same, upd_other _ _ hjs, Option.map_some]
            congr 1
            apply absCell_congr
            · simp only; rw [upd_other]; omega
            · intro b hb
              have := hinv.bodyBox src cs b hs hb
              simp only
              refine ⟨by rw [upd_other]; omega, by first | rfl | trivial⟩
          · rw [upd_other _ _ hjd]
            apply abs_frame hinv
            · simp [upd_other _ _ hjs, upd_other _ _ hjd]
            · intro cj hcj
              have := hinv.boxLt j cj hcj
              simp only; rw [upd_other]; omega
            · intros; rfl
      · obtain ⟨a1, a2, a3, a4, a5, a6, a7, a8⟩ := hinv
        constructor <;> grind [upd]

theorem moveAssign_refines (h : Heap ops) (hinv : Inv h) (dst src : Nat) :
    Refines h (.moveAssign dst src) := by
  unfold Refines
  simp only [sstep, step, moveAssign, sget, getCell, Variant.fixed, if_true]
  cases hd : h.cells dst with
  | none => simp [abs_none hd]
  | some cd =>
    simp only [abs_some hd]
    cases hs : h.cells src with
    | none => simp [abs_none hs]
    | some cs =>
      simp only [abs_some hs]
      by_cases hne : dst = src
      · simp only [hne, if_true]
        exact ⟨_, rfl, rfl, hinv⟩
      · simp only [hne, if_false]
        have hl := hinv.boxLive dst cd hd
        cases hbd : h.boxes cd.box with
        | none => simp [hbd] at hl
        | some bd =>
          simp only [derefBox, hbd]
          have hbne : cd.box ≠ cs.box := fun e => hne (hinv.boxInj dst src cd cs hd hs e)
          refine ⟨_, rfl, ?_, ?_⟩
          · funext j
            by_cases hjs : j = src
            · subst hjs
              simp only [abs, upd_same, Option.map_some]
              congr 1
              simp [absCell, Value.empty]
            · rw [upd_other _ _ hjs]
              by_cases hjd : j = dst
              · subst hjd
                simp only [abs, upd_same, upd_other _ _ hjs, Option.map_some]
                congr 1
                apply absCell_congr
                · simp only; rw [upd_other]; exact fun e => hbne e.symm
                · intro b hb
                  have h1 := hinv.bodyBox src cs b hs hb
                  simp only at hb ⊢
                  refine ⟨by rw [upd_other]; rw [h1]; exact fun e => hbne e.symm, ?_⟩
                  cases hst : b.stream with
                  | none => rfl
                  | some s =>
                    have h2 := hinv.bodyStr src cs b s hs hb hst
                    have := hinv.strInj j src cd cs s hd hs
                    simp only [Option.bind_some, freeStream_apply]
                    grind
              · rw [upd_other _ _ hjd]
                apply abs_frame hinv
                · simp [upd_other _ _ hjs, upd_other _ _ hjd]
                · intro cj hcj
                  have := hinv.boxInj j dst cj cd hcj hd
                  simp only; rw [upd_other]; grind
                · intro cj s hcj hs'
                  have := hinv.strInj j dst cj cd s hcj hd hs'
                  simp only [freeStream_apply]; grind
          · obtain ⟨a1, a2, a3, a4, a5, a6, a7, a8⟩ := hinv
            constructor <;> grind [upd, freeStream_apply]

theorem run_refines (h : Heap ops) (hinv : Inv h) (id : Nat) (cmd : ops.Cmd) :
    Refines h (.run id cmd) := by
  unfold Refines
  simp only [sstep, step, runCmd, sget, getCell]
  cases hc : h.cells id with
  | none => simp [abs_none hc]
  | some c =>
    simp only [abs_some hc]
    cases hbd : c.body with
    | none =>
      simp only [absCell, hbd, Option.map_none]
      exact ⟨_, rfl, rfl, hinv⟩
    | some b =>
      have hbb := hinv.bodyBox id c b hc hbd
      have hl := hinv.boxLive id c hc
      cases hbx : h.boxes c.box with
      | none => simp [hbx] at hl
      | some bx =>
        have hst : derefStream h b.stream "pstream" = .ok (b.stream.bind h.streams) := by
          cases hs : b.stream with
          | none => rfl
          | some s =>
            have h2 := hinv.bodyStr id c b s hc hbd hs
            have h3 := hinv.strLive id c s hc h2
            cases hss : h.streams s with
            | none => simp [hss] at h3
            | some x => simp [derefStream, hss]
        simp only [absCell, hbd, Option.map_some, hbb, hbx, derefBox, hst]
        cases hr : liftC (ops.run { enc := bx.enc, trans := bx.trans, stream := b.stream.bind h.streams } cmd b.content) with
        | error e => simp
        | ok r =>
          simp only
          refine ⟨_, rfl, ?_, ?_⟩
          · funext j
            by_cases hj : j = id
            · subst hj
              simp only [abs, upd_same, Option.map_some]
              congr 1
              simp only [absCell, Body.afterRun, Filled.afterRun, Option.map_some, hbb, hbx]
              cases hs : b.stream with
              | none => simp
              | some s =>
                have h2 := hinv.bodyStr j c b s hc hbd hs
                have h3 := hinv.strLive j c s hc h2
                cases hss : h.streams s with
                | none => simp [hss] at h3
                | some x => cases hrs : r.stream <;> simp [hss]
            · rw [upd_other _ _ hj]
              apply abs_frame hinv
              · simp [upd_other _ _ hj]
              · intros; rfl
              · intro cj s hcj hs
                have := hinv.strInj j id cj c s hcj hc hs
                have := hinv.bodyStr id c b
                cases hbs : b.stream <;> cases hrs : r.stream <;> grind [upd]
          · obtain ⟨a1, a2, a3, a4, a5, a6, a7, a8⟩ := hinv
            constructor <;> cases hbs : b.stream <;> cases hrs : r.stream <;> grind [upd, Body.afterRun]

/-- **Every operation of the repaired code refines value semantics** and keeps the ownership
    invariant. -/
theorem step_refines (h : Heap ops) (hinv : Inv h) (op : Op ops.Cmd ops.T) : Refines h op := by
  cases op with
  | construct id comp => exact construct_refines h hinv id comp
  | create id cls enc => exact create_refines h hinv id cls enc
  | setTrans id t => exact setTrans_refines h hinv id t
  | load id img isLazy => exact load_refines h hinv id img isLazy
  | loadMissing id isLazy => exact loadMissing_refines h hinv id isLazy
  | moveConstruct dst src => exact moveConstruct_refines h hinv dst src
  | moveAssign dst src => exact moveAssign_refines h hinv dst src
  | destroy id => exact destroy_refines h hinv id
  | reuse => exact ⟨_, rfl, rfl, hinv⟩
  | run id cmd => exact run_refines h hinv id cmd

/-- **move_refines**: for every history, from every state that satisfies the ownership invariant
    (in particular from the empty heap), the repaired code does exactly what value semantics
    does: same outputs, same final values, same (history- or content-level) fault if there is one. -/
theorem move_refines (hist : List (Op ops.Cmd ops.T)) : ∀ (h : Heap ops), Inv h →
    match srun ops (abs h) hist with
    | .ok (s', outs) => ∃ h', runOps Variant.fixed h hist = .ok (h', outs) ∧ abs h' = s' ∧ Inv h'
    | .error e => runOps Variant.fixed h hist = .error e := by
  induction hist with
  | nil => intro h hinv; exact ⟨h, rfl, rfl, hinv⟩
  | cons op rest ih =>
    intro h hinv
    have hs := step_refines h hinv op
    unfold Refines at hs
    simp only [srun, runOps]
    cases hst : sstep ops (abs h) op with
    | error e => rw [hst] at hs; simp [hs]
    | ok p =>
      obtain ⟨s1, out⟩ := p
      rw [hst] at hs
      obtain ⟨h1, hstep, habs, hinv1⟩ := hs
      have ih1 := ih h1 hinv1
      rw [habs] at ih1
      simp only [hstep]
      cases hsr : srun ops s1 rest with
      | error e => rw [hsr] at ih1; simp [ih1]
      | ok q =>
        obtain ⟨s2, outs⟩ := q
        rw [hsr] at ih1
        obtain ⟨h2, hrun, habs2, hinv2⟩ := ih1
        exact ⟨h2, by simp [hrun], habs2, hinv2⟩

/-! ### what can go wrong in value semantics: nothing that has to do with ownership -/

theorem liftC_error {α : Type} {m : M α} {e : HFault} (h : liftC m = .error e) : ∃ f, e = .content f := by
  cases m with
  | ok a => simp [liftC] at h
  | error f => simp only [liftC, Except.error.injEq] at h; exact ⟨f, h.symm⟩

/-- an operation whose objects exist (and whose new object does not) can only fail inside the
    content operations (`create`, `load`, observe/edit/save of the abstract contents) -/
theorem sstep_wf (s : SHeap ops) (op : Op ops.Cmd ops.T) (hwf : op.wfIn (fun i => (s i).isSome))
    {e : HFault} (he : sstep ops s op = .error e) : ∃ f, e = .content f := by
  cases op with
  | construct id comp =>
    simp only [Op.wfIn] at hwf
    simp only [sstep, hwf, Bool.false_eq_true, if_false] at he
    cases hc : liftC (ops.create Cls.c32 Enc.lsb) with
    | error e' => rw [hc] at he; simp only [Except.error.injEq] at he; subst he; exact liftC_error hc
    | ok c => rw [hc] at he; simp at he
  | create id cls enc =>
    simp only [Op.wfIn] at hwf
    cases hv : s id with
    | none => simp [hv] at hwf
    | some v =>
      simp only [sstep, sget, hv] at he
      cases hc : liftC (ops.create cls enc) with
      | error e' => rw [hc] at he; simp only [Except.error.injEq] at he; subst he; exact liftC_error hc
      | ok c => rw [hc] at he; simp at he
  | setTrans id t =>
    simp only [Op.wfIn] at hwf
    cases hv : s id with
    | none => simp [hv] at hwf
    | some v => simp [sstep, sget, hv] at he
  | load id img isLazy =>
    simp only [Op.wfIn] at hwf
    cases hv : s id with
    | none => simp [hv] at hwf
    | some v =>
      simp only [sstep, sget, hv] at he
      cases hc : liftC (ops.load v.trans img isLazy) with
      | error e' => rw [hc] at he; simp only [Except.error.injEq] at he; subst he; exact liftC_error hc
      | ok c => rw [hc] at he; simp at he
  | loadMissing id isLazy =>
    simp only [Op.wfIn] at hwf
    cases hv : s id with
    | none => simp [hv] at hwf
    | some v => simp [sstep, sget, hv] at he
  | moveConstruct dst src =>
    simp only [Op.wfIn] at hwf
    cases hv : s src with
    | none => simp [hv] at hwf
    | some v => simp [sstep, sget, hv, hwf.1] at he
  | moveAssign dst src =>
    simp only [Op.wfIn] at hwf
    cases hv : s src with
    | none => simp [hv] at hwf
    | some v =>
      cases hd : s dst with
      | none => simp [hd] at hwf
      | some vd =>
        simp only [sstep, sget, hv, hd] at he
        split at he <;> simp at he
  | destroy id =>
    simp only [Op.wfIn] at hwf
    cases hv : s id with
    | none => simp [hv] at hwf
    | some v => simp [sstep, sget, hv] at he
  | reuse => simp [sstep] at he
  | run id cmd =>
    simp only [Op.wfIn] at hwf
    cases hv : s id with
    | none => simp [hv] at hwf
    | some v =>
      simp only [sstep, sget, hv] at he
      cases hf : v.filled with
      | none => simp [hf] at he
      | some f =>
        simp only [hf] at he
        cases hc : liftC (ops.run { enc := f.enc, trans := v.trans, stream := f.stream } cmd f.content) with
        | error e' => rw [hc] at he; simp only [Except.error.injEq] at he; subst he; exact liftC_error hc
        | ok c => rw [hc] at he; simp at he

/-- value semantics has no notion of a dangling pointer -/
theorem sstep_error_kinds (s : SHeap ops) (op : Op ops.Cmd ops.T) {e : HFault}
    (he : sstep ops s op = .error e) :
    (∃ id, e = .noObject id) ∨ (∃ w, e = .illFormed w) ∨ ∃ f, e = .content f := by
  have lift : ∀ {α : Type} {m : M α}, liftC m = .error e → 
      (∃ id, e = .noObject id) ∨ (∃ w, e = .illFormed w) ∨ ∃ f, e = .content f :=
    fun hh => Or.inr (Or.inr (liftC_error hh))
  cases op with
  | construct id comp =>
    simp only [sstep] at he
    split at he
    · simp only [Except.error.injEq] at he; exact Or.inr (Or.inl ⟨_, he.symm⟩)
    · cases hc : liftC (ops.create Cls.c32 Enc.lsb) with
      | error e' => rw [hc] at he; simp only [Except.error.injEq] at he; subst he; exact lift hc
      | ok c => rw [hc] at he; simp at he
  | create id cls enc =>
    cases hv : s id with
    | none => simp only [sstep, sget, hv, Except.error.injEq] at he; exact Or.inl ⟨_, he.symm⟩
    | some v =>
      simp only [sstep, sget, hv] at he
      cases hc : liftC (ops.create cls enc) with
      | error e' => rw [hc] at he; simp only [Except.error.injEq] at he; subst he; exact lift hc
      | ok c => rw [hc] at he; simp at he
  | setTrans id t =>
    cases hv : s id with
    | none => simp only [sstep, sget, hv, Except.error.injEq] at he; exact Or.inl ⟨_, he.symm⟩
    | some v => simp [sstep, sget, hv] at he
  | load id img isLazy =>
    cases hv : s id with
    | none => simp only [sstep, sget, hv, Except.error.injEq] at he; exact Or.inl ⟨_, he.symm⟩
    | some v =>
      simp only [sstep, sget, hv] at he
      cases hc : liftC (ops.load v.trans img isLazy) with
      | error e' => rw [hc] at he; simp only [Except.error.injEq] at he; subst he; exact lift hc
      | ok c => rw [hc] at he; simp at he
  | loadMissing id isLazy =>
    cases hv : s id with
    | none => simp only [sstep, sget, hv, Except.error.injEq] at he; exact Or.inl ⟨_, he.symm⟩
    | some v => simp [sstep, sget, hv] at he
  | moveConstruct dst src =>
    simp only [sstep] at he
    split at he
    · simp only [Except.error.injEq] at he; exact Or.inr (Or.inl ⟨_, he.symm⟩)
    · cases hv : s src with
      | none => simp only [sget, hv, Except.error.injEq] at he; exact Or.inl ⟨_, he.symm⟩
      | some v => simp [sget, hv] at he
  | moveAssign dst src =>
    cases hd : s dst with
    | none => simp only [sstep, sget, hd, Except.error.injEq] at he; exact Or.inl ⟨_, he.symm⟩
    | some vd =>
      cases hv : s src with
      | none => simp only [sstep, sget, hd, hv, Except.error.injEq] at he; exact Or.inl ⟨_, he.symm⟩
      | some v =>
        simp only [sstep, sget, hv, hd] at he
        split at he <;> simp at he
  | destroy id =>
    cases hv : s id with
    | none => simp only [sstep, sget, hv, Except.error.injEq] at he; exact Or.inl ⟨_, he.symm⟩
    | some v => simp [sstep, sget, hv] at he
  | reuse => simp [sstep] at he
  | run id cmd =>
    cases hv : s id with
    | none => simp only [sstep, sget, hv, Except.error.injEq] at he; exact Or.inl ⟨_, he.symm⟩
    | some v =>
      simp only [sstep, sget, hv] at he
      cases hf : v.filled with
      | none => simp [hf] at he
      | some f =>
        simp only [hf] at he
        cases hc : liftC (ops.run { enc := f.enc, trans := v.trans, stream := f.stream } cmd f.content) with
        | error e' => rw [hc] at he; simp only [Except.error.injEq] at he; subst he; exact lift hc
        | ok c => rw [hc] at he; simp at he

theorem srun_error_kinds (hist : List (Op ops.Cmd ops.T)) : ∀ (s : SHeap ops) {e : HFault},
    srun ops s hist = .error e →
    (∃ id, e = .noObject id) ∨ (∃ w, e = .illFormed w) ∨ ∃ f, e = .content f := by
  induction hist with
  | nil => intro s e he; simp [srun] at he
  | cons op rest ih =>
    intro s e he
    simp only [srun] at he
    cases hst : sstep ops s op with
    | error e' => rw [hst] at he; simp only [Except.error.injEq] at he; subst he; exact sstep_error_kinds s op hst
    | ok p =>
      obtain ⟨s1, out⟩ := p
      rw [hst] at he; simp only at he
      cases hsr : srun ops s1 rest with
      | error e' => rw [hsr] at he; simp only [Except.error.injEq] at he; subst he; exact ih s1 hsr
      | ok q => rw [hsr] at he; simp at he

/-- **The repaired code never dereferences a pointer into freed storage**, whatever the history
    (even an ill-formed one), from any state satisfying the ownership invariant. -/
theorem no_dangling (hist : List (Op ops.Cmd ops.T)) (h : Heap ops) (hinv : Inv h) (w : String) :
    runOps Variant.fixed h hist ≠ .error (.dangling w) := by
  intro hr
  have hm := move_refines hist h hinv
  cases hs : srun ops (abs h) hist with
  | ok p => rw [hs] at hm; obtain ⟨h', hr', _⟩ := hm; rw [hr] at hr'; simp at hr'
  | error e =>
    rw [hs] at hm
    rw [hr] at hm
    simp only [Except.error.injEq] at hm
    subst hm
    rcases srun_error_kinds hist (abs h) hs with ⟨_, h1⟩ | ⟨_, h1⟩ | ⟨_, h1⟩ <;> simp at h1

/-- which objects exist after an operation (independent of any contents) -/
def liveAfter {Cmd T : Type} (live : Nat → Bool) : Op Cmd T → Nat → Bool
  | .construct id _ => upd live id true
  | .moveConstruct dst _ => upd live dst true
  | .destroy id => upd live id false
  | _ => live

/-- a well-formed history: no operation on an object that does not exist (destroyed or never
    constructed), no construction over a live object -/
def WF {Cmd T : Type} : (Nat → Bool) → List (Op Cmd T) → Prop
  | _, [] => True
  | live, op :: rest => op.wfIn live ∧ WF (liveAfter live op) rest

theorem sstep_live (s s' : SHeap ops) (op : Op ops.Cmd ops.T) (out : String)
    (h : sstep ops s op = .ok (s', out)) :
    (fun i => (s' i).isSome) = liveAfter (fun i => (s i).isSome) op := by
  funext j
  cases op with
  | construct id comp =>
    simp only [sstep] at h
    split at h
    · simp at h
    · cases hc : liftC (ops.create Cls.c32 Enc.lsb) with
      | error e' => rw [hc] at h; simp at h
      | ok c =>
        rw [hc] at h; simp only [Except.ok.injEq, Prod.mk.injEq] at h
        rw [← h.1]; simp only [liveAfter, upd]; grind
  | create id cls enc =>
    cases hv : s id with
    | none => simp [sstep, sget, hv] at h
    | some v =>
      simp only [sstep, sget, hv] at h
      cases hc : liftC (ops.create cls enc) with
      | error e' => rw [hc] at h; simp at h
      | ok c =>
        rw [hc] at h; simp only [Except.ok.injEq, Prod.mk.injEq] at h
        rw [← h.1]; simp only [liveAfter, upd]; grind
  | setTrans id t =>
    cases hv : s id with
    | none => simp [sstep, sget, hv] at h
    | some v =>
      simp only [sstep, sget, hv, Except.ok.injEq, Prod.mk.injEq] at h
      rw [← h.1]; simp only [liveAfter, upd]; grind
  | load id img isLazy =>
    cases hv : s id with
    | none => simp [sstep, sget, hv] at h
    | some v =>
      simp only [sstep, sget, hv] at h
      cases hc : liftC (ops.load v.trans img isLazy) with
      | error e' => rw [hc] at h; simp at h
      | ok c =>
        rw [hc] at h; simp only [Except.ok.injEq, Prod.mk.injEq] at h
        rw [← h.1]; simp only [liveAfter, upd]; grind
  | loadMissing id isLazy =>
    cases hv : s id with
    | none => simp [sstep, sget, hv] at h
    | some v =>
      simp only [sstep, sget, hv, Except.ok.injEq, Prod.mk.injEq] at h
      rw [← h.1]; simp only [liveAfter, upd]; grind
  | moveConstruct dst src =>
    simp only [sstep] at h
    split at h
    · simp at h
    · cases hv : s src with
      | none => simp [sget, hv] at h
      | some v =>
        simp only [sget, hv, Except.ok.injEq, Prod.mk.injEq] at h
        rw [← h.1]; simp only [liveAfter, upd]; grind
  | moveAssign dst src =>
    cases hd : s dst with
    | none => simp [sstep, sget, hd] at h
    | some vd =>
      cases hv : s src with
      | none => simp [sstep, sget, hd, hv] at h
      | some v =>
        simp only [sstep, sget, hv, hd] at h
        split at h
        · simp only [Except.ok.injEq, Prod.mk.injEq] at h; rw [← h.1]; rfl
        · simp only [Except.ok.injEq, Prod.mk.injEq] at h
          rw [← h.1]; simp only [liveAfter, upd]; grind
  | destroy id =>
    cases hv : s id with
    | none => simp [sstep, sget, hv] at h
    | some v =>
      simp only [sstep, sget, hv, Except.ok.injEq, Prod.mk.injEq] at h
      rw [← h.1]; simp only [liveAfter, upd]; grind
  | reuse =>
    simp only [sstep, Except.ok.injEq, Prod.mk.injEq] at h
    rw [← h.1]; rfl
  | run id cmd =>
    cases hv : s id with
    | none => simp [sstep, sget, hv] at h
    | some v =>
      simp only [sstep, sget, hv] at h
      cases hf : v.filled with
      | none => simp only [hf, Except.ok.injEq, Prod.mk.injEq] at h; rw [← h.1]; rfl
      | some f =>
        simp only [hf] at h
        cases hc : liftC (ops.run { enc := f.enc, trans := v.trans, stream := f.stream } cmd f.content) with
        | error e' => rw [hc] at h; simp at h
        | ok c =>
          rw [hc] at h; simp only [Except.ok.injEq, Prod.mk.injEq] at h
          rw [← h.1]; simp only [liveAfter, upd]; grind

/-- on a well-formed history value semantics can only stop inside a content operation -/
theorem srun_wf (hist : List (Op ops.Cmd ops.T)) : ∀ (s : SHeap ops), WF (fun i => (s i).isSome) hist →
    ∀ e, srun ops s hist = .error e → ∃ f, e = .content f := by
  induction hist with
  | nil => intro s _ e he; simp [srun] at he
  | cons op rest ih =>
    intro s hwf e he
    obtain ⟨hop, hrest⟩ := hwf
    simp only [srun] at he
    cases hst : sstep ops s op with
    | error e' => rw [hst] at he; simp only [Except.error.injEq] at he; subst he; exact sstep_wf s op hop hst
    | ok p =>
      obtain ⟨s1, out⟩ := p
      rw [hst] at he; simp only at he
      have hl := sstep_live s s1 op out hst
      rw [← hl] at hrest
      cases hsr : srun ops s1 rest with
      | error e' => rw [hsr] at he; simp only [Except.error.injEq] at he; subst he; exact ih s1 hrest _ hsr
      | ok q => rw [hsr] at he; simp at he

/-- **No use-after-free, no missing object on well-formed histories**: from the empty heap, a
    history that never touches a destroyed object either runs to the end with exactly the
    outputs and values of value semantics, or stops at the same content-level fault value
    semantics stops at.  In particular no pointer into freed storage is ever dereferenced. -/
theorem move_refines_wf (hist : List (Op ops.Cmd ops.T)) (hwf : WF (fun _ => false) hist) :
    (∃ h' outs, runOps Variant.fixed (Heap.empty ops) hist = .ok (h', outs) ∧
        srun ops (fun _ => none) hist = .ok (abs h', outs) ∧ Inv h') ∨
    (∃ f, runOps Variant.fixed (Heap.empty ops) hist = .error (.content f) ∧
        srun ops (fun _ => none) hist = .error (.content f)) := by
  have h := move_refines hist (Heap.empty ops) inv_empty
  rw [abs_empty] at h
  cases hs : srun ops (fun _ => none) hist with
  | error e =>
    rw [hs] at h
    obtain ⟨f, hf⟩ := srun_wf hist (fun _ => none) (by simpa using hwf) e hs
    subst hf
    exact Or.inr ⟨f, h, rfl⟩
  | ok p =>
    obtain ⟨s', outs⟩ := p
    rw [hs] at h
    obtain ⟨h', hr, ha, hi⟩ := h
    exact Or.inl ⟨h', outs, hr, by rw [ha], hi⟩

/-! ### the source after a move; re-initialisation -/

/-- **source_reusable (1)**: after move-construction the destination holds the value the source
    held, the source is an empty-but-valid object (no header, no sections, no address
    translation), nobody else changed; the source can then be destroyed (and its storage
    reused) without any effect on the destination. -/
theorem source_reusable_construct (h : Heap ops) (hinv : Inv h) (dst src : Nat) (v : Value ops)
    (hsrc : abs h src = some v) (hdst : abs h dst = none) :
    (∃ h1, runOps Variant.fixed h [.moveConstruct dst src] = .ok (h1, ["ok"]) ∧ Inv h1 ∧
        abs h1 = upd (upd (abs h) dst (some v)) src (some (Value.empty ops))) ∧
    (∃ h2, runOps Variant.fixed h [.moveConstruct dst src, .destroy src, .reuse] = .ok (h2, ["ok", "ok", "ok"]) ∧
        Inv h2 ∧ abs h2 dst = some v ∧ abs h2 src = none ∧ ∀ j, j ≠ dst → j ≠ src → abs h2 j = abs h j) := by
  have hne : dst ≠ src := by intro e; rw [e, hsrc] at hdst; simp at hdst
  constructor
  · have hm := move_refines [Op.moveConstruct dst src] h hinv
    simp only [srun, sstep, sget, hsrc, hdst, Option.isSome_none, Bool.false_eq_true, if_false] at hm
    obtain ⟨h1, hr, ha, hi⟩ := hm
    exact ⟨h1, hr, hi, ha⟩
  · have hm := move_refines [Op.moveConstruct dst src, .destroy src, .reuse] h hinv
    simp only [srun, sstep, sget, hsrc, hdst, Option.isSome_none, Bool.false_eq_true, if_false, upd_same] at hm
    obtain ⟨h2, hr, ha, hi⟩ := hm
    refine ⟨h2, hr, hi, ?_, ?_, ?_⟩
    · rw [ha]; simp [upd, hne]
    · rw [ha]; simp [upd]
    · intro j h1 h2'; rw [ha]; simp [upd, h1, h2']

/-- **source_reusable (2)**: the same for move-assignment (the value the destination held is
    dropped). -/
theorem source_reusable_assign (h : Heap ops) (hinv : Inv h) (dst src : Nat) (v vd : Value ops)
    (hsrc : abs h src = some v) (hdst : abs h dst = some vd) (hne : dst ≠ src) :
    (∃ h1, runOps Variant.fixed h [.moveAssign dst src] = .ok (h1, ["ok"]) ∧ Inv h1 ∧
        abs h1 = upd (upd (abs h) dst (some v)) src (some (Value.empty ops))) ∧
    (∃ h2, runOps Variant.fixed h [.moveAssign dst src, .destroy src, .reuse] = .ok (h2, ["ok", "ok", "ok"]) ∧
        Inv h2 ∧ abs h2 dst = some v ∧ abs h2 src = none ∧ ∀ j, j ≠ dst → j ≠ src → abs h2 j = abs h j) := by
  constructor
  · have hm := move_refines [Op.moveAssign dst src] h hinv
    simp only [srun, sstep, sget, hsrc, hdst, hne, if_false] at hm
    obtain ⟨h1, hr, ha, hi⟩ := hm
    exact ⟨h1, hr, hi, ha⟩
  · have hm := move_refines [Op.moveAssign dst src, .destroy src, .reuse] h hinv
    simp only [srun, sstep, sget, hsrc, hdst, hne, if_false, upd_same] at hm
    obtain ⟨h2, hr, ha, hi⟩ := hm
    refine ⟨h2, hr, hi, ?_, ?_, ?_⟩
    · rw [ha]; simp [upd, hne]
    · rw [ha]; simp [upd]
    · intro j h1 h2'; rw [ha]; simp [upd, h1, h2']

/-- **reinit_fresh (create)**: `create` on *any* two live objects of any two reachable states gives
    the same output and the same value, provided their address translation is the same — the
    object's past (what it held, whether it was moved from, whom it was moved to) is irrelevant. -/
theorem reinit_fresh_create (h h' : Heap ops) (hinv : Inv h) (hinv' : Inv h') (id id' : Nat)
    (v v' : Value ops) (hv : abs h id = some v) (hv' : abs h' id' = some v') (ht : v.trans = v'.trans)
    (cls : Cls) (enc : Enc) :
    match step Variant.fixed h (.create id cls enc), step Variant.fixed h' (.create id' cls enc) with
    | .ok (h1, o1), .ok (h2, o2) => abs h1 id = abs h2 id' ∧ o1 = o2 ∧ Inv h1 ∧ Inv h2
    | .error e1, .error e2 => e1 = e2
    | _, _ => False := by
  have r1 := step_refines h hinv (.create id cls enc)
  have r2 := step_refines h' hinv' (.create id' cls enc)
  unfold Refines at r1 r2
  simp only [sstep, sget, hv, hv'] at r1 r2
  cases hc : liftC (ops.create cls enc) with
  | error e => rw [hc] at r1 r2; simp only at r1 r2; rw [r1, r2]
  | ok c =>
    rw [hc] at r1 r2; simp only at r1 r2
    obtain ⟨h1, hs1, ha1, hi1⟩ := r1
    obtain ⟨h2, hs2, ha2, hi2⟩ := r2
    rw [hs1, hs2]
    simp only [ha1, ha2, upd_same, ht]
    exact ⟨trivial, trivial, hi1, hi2⟩

/-- **reinit_fresh (load)**: the same for `load(file_name, lazy)` of an image that is recognised
    as ELF (otherwise `load` returns false and only clears the sections, keeping the old header:
    outputs still agree, values are not claimed to). -/
theorem reinit_fresh_load (h h' : Heap ops) (hinv : Inv h) (hinv' : Inv h') (id id' : Nat)
    (v v' : Value ops) (hv : abs h id = some v) (hv' : abs h' id' = some v') (ht : v.trans = v'.trans)
    (img : Bytes) (isLazy : Bool) :
    match step Variant.fixed h (.load id img isLazy), step Variant.fixed h' (.load id' img isLazy) with
    | .ok (h1, o1), .ok (h2, o2) =>
        o1 = o2 ∧ Inv h1 ∧ Inv h2 ∧
        ((∀ r, ops.load v.trans img isLazy = .ok r → r.res ≠ none) → abs h1 id = abs h2 id')
    | .error e1, .error e2 => e1 = e2
    | _, _ => False := by
  have r1 := step_refines h hinv (.load id img isLazy)
  have r2 := step_refines h' hinv' (.load id' img isLazy)
  unfold Refines at r1 r2
  simp only [sstep, sget, hv, hv'] at r1 r2
  rw [← ht] at r2
  cases hc : ops.load v.trans img isLazy with
  | error e => rw [hc] at r1 r2; simp only [liftC] at r1 r2; rw [r1, r2]
  | ok r =>
    rw [hc] at r1 r2; simp only [liftC] at r1 r2
    obtain ⟨h1, hs1, ha1, hi1⟩ := r1
    obtain ⟨h2, hs2, ha2, hi2⟩ := r2
    rw [hs1, hs2]
    refine ⟨rfl, hi1, hi2, ?_⟩
    intro hrec
    have hne := hrec r rfl
    cases hres : r.res with
    | none => exact absurd hres hne
    | some ec =>
      obtain ⟨e, c⟩ := ec
      simp only [ha1, ha2, upd_same, hres, ht]

/-- **reinit_fresh, as the property words it**: re-initialising a moved-from source behaves like
    initialising a freshly constructed object. -/
theorem source_reinit_like_fresh (h : Heap ops) (hinv : Inv h) (dst src k : Nat) (v : Value ops)
    (hsrc : abs h src = some v) (hdst : abs h dst = none) (hk : abs h k = none)
    (cls : Cls) (enc : Enc) (c0 c : ops.C) (hc0 : ops.create .c32 .lsb = .ok c0) (hc : ops.create cls enc = .ok c) :
    ∃ h1 h2, runOps Variant.fixed h [.moveConstruct dst src, .create src cls enc] = .ok (h1, ["ok", "ok"]) ∧
      runOps Variant.fixed h [.construct k false, .create k cls enc] = .ok (h2, ["ok", "ok"]) ∧
      abs h1 src = abs h2 k ∧ abs h1 dst = some v := by
  have hne : dst ≠ src := by intro e; rw [e, hsrc] at hdst; simp at hdst
  have m1 := move_refines [Op.moveConstruct dst src, .create src cls enc] h hinv
  have m2 := move_refines [Op.construct k false, .create k cls enc] h hinv
  simp only [srun, sstep, sget, hsrc, hdst, hk, Option.isSome_none, Bool.false_eq_true, if_false, upd_same,
    hc, hc0, liftC] at m1 m2
  obtain ⟨h1, hr1, ha1, _⟩ := m1
  obtain ⟨h2, hr2, ha2, _⟩ := m2
  refine ⟨h1, h2, hr1, hr2, ?_, ?_⟩
  · rw [ha1, ha2]; simp [Value.empty]
  · rw [ha1]; simp [upd, hne]

/-! ### the defects, on the model of the code before fixes/06-08 (machine-checked witnesses)

A miniature content algebra: of the whole object only the header's `e_version` field is kept,
stored as EV_CURRENT (= 1) in the byte order the convertor had when the header was made and read
back through whatever convertor the header's pointer leads to.  Images: `[1]` = an LSB file,
`[2]` = an MSB file, anything else is not ELF. -/

def toy : Ops where
  C := Enc
  Cmd := Unit
  T := Unit
  S := Unit
  noTrans := ()
  noStream := ()
  create := fun _ e => .ok e
  clear := id
  load := fun _ img _ =>
    .ok { res := match img with
            | [1] => some (.lsb, .lsb)
            | [2] => some (.msb, .msb)
            | _ => none,
          stream := (), out := "load" }
  run := fun env _ c =>
    .ok { content := c, stream := env.stream,
          out := if env.enc = c then "version=1" else "version=16777216" }
  emptyOut := fun _ => "version=0"

/-- outputs (or the fault) of a history from the empty heap -/
def outcome (v : Variant) (hist : List (Op toy.Cmd toy.T)) : Except HFault (List String) :=
  match runOps v (Heap.empty toy) hist with
  | .ok (_, outs) => .ok outs
  | .error e => .error e

def soutcome (hist : List (Op toy.Cmd toy.T)) : Except HFault (List String) :=
  match srun toy (fun _ => none) hist with
  | .ok (_, outs) => .ok outs
  | .error e => .error e

/-- F6a: `elfio dst(std::move(*src)); delete src; dst.get_version()` -/
def uafHist : List (Op toy.Cmd toy.T) :=
  [.construct 0 false, .create 0 .c64 .msb, .moveConstruct 1 0, .destroy 0, .reuse, .run 1 ()]

theorem move_uaf_witness : outcome Variant.asIs uafHist = .error (.dangling "convertor") := rfl
example : outcome Variant.fixed uafHist = .ok ["ok", "ok", "ok", "ok", "ok", "version=1"] := rfl
example : soutcome uafHist = .ok ["ok", "ok", "ok", "ok", "ok", "version=1"] := rfl
example : WF (fun _ => false) uafHist := by simp [WF, uafHist, Op.wfIn, liveAfter, upd]

/-- F6b: the source is re-created with the other byte order: the destination silently reads its
    header in the wrong byte order -/
def aliasHist : List (Op toy.Cmd toy.T) :=
  [.construct 0 false, .create 0 .c64 .msb, .moveConstruct 1 0, .run 1 (), .create 0 .c64 .lsb, .run 1 ()]

theorem move_alias_witness :
    outcome Variant.asIs aliasHist = .ok ["ok", "ok", "ok", "version=1", "ok", "version=16777216"] ∧
    soutcome aliasHist = .ok ["ok", "ok", "ok", "version=1", "ok", "version=1"] := ⟨rfl, rfl⟩
example : outcome Variant.fixed aliasHist = soutcome aliasHist := rfl

/-- F6b for move-assignment, the source being re-loaded -/
def aliasAssignHist : List (Op toy.Cmd toy.T) :=
  [.construct 0 false, .construct 1 false, .load 0 [2] false, .moveAssign 1 0, .load 0 [1] false, .run 1 ()]

theorem move_assign_alias_witness :
    outcome Variant.asIs aliasAssignHist = .ok ["ok", "ok", "load", "ok", "load", "version=16777216"] ∧
    soutcome aliasAssignHist = .ok ["ok", "ok", "load", "ok", "load", "version=1"] := ⟨rfl, rfl⟩
example : outcome Variant.fixed aliasAssignHist = soutcome aliasAssignHist := rfl

/-- F6c: a lazily loaded object is moved; the stream stays with the source and is closed when
    the source loads something else -/
def streamHist : List (Op toy.Cmd toy.T) :=
  [.construct 0 false, .load 0 [1] true, .moveConstruct 1 0, .load 0 [1] false, .run 1 ()]

theorem move_stream_witness : outcome Variant.asIs streamHist = .error (.dangling "pstream") := rfl
example : outcome Variant.fixed streamHist = soutcome streamHist := rfl
example : soutcome streamHist = .ok ["ok", "load", "ok", "load", "version=1"] := rfl

/-- fixes/07: `elfio(compression_interface*)` leaves `header == nullptr` -/
def ctorHist : List (Op toy.Cmd toy.T) := [.construct 0 true, .run 0 ()]

theorem ctor_header_witness :
    outcome Variant.asIs ctorHist = .ok ["ok", "version=0"] ∧ soutcome ctorHist = .ok ["ok", "version=1"] := ⟨rfl, rfl⟩
example : outcome Variant.fixed ctorHist = soutcome ctorHist := rfl

/-- fixes/08: `load(missing file)` on a lazily loaded object replaces the stream its sections
    still read from -/
def openHist : List (Op toy.Cmd toy.T) :=
  [.construct 0 false, .load 0 [2] true, .loadMissing 0 true, .run 0 ()]

theorem open_stale_stream_witness : outcome Variant.asIs openHist = .error (.dangling "pstream") := rfl
example : outcome Variant.fixed openHist = soutcome openHist := rfl

/-- only one of the three repairs missing is enough for each witness -/
example : outcome ⟨false, true, true⟩ uafHist = .error (.dangling "convertor") := rfl
example : outcome ⟨true, false, true⟩ ctorHist = .ok ["ok", "version=0"] := rfl
example : outcome ⟨true, true, false⟩ openHist = .error (.dangling "pstream") := rfl

/-- container growth: `std::vector<elfio> v; v.emplace_back(); v[0].create(…); v.emplace_back(std::move(a));
    v.emplace_back(std::move(b))` (capacities 1, 2, 4): the second and third push re-allocate, i.e.
    move-construct every element and destroy the old ones -/
def vecHist : List (Op toy.Cmd toy.T) :=
  let v0 : Vec := { next := 100 }
  let (v1, o1) := v0.push (Cmd := toy.Cmd) (T := toy.T) none
  let (v2, o2) := v1.push (Cmd := toy.Cmd) (T := toy.T) (some 1)
  let (v3, o3) := v2.push (Cmd := toy.Cmd) (T := toy.T) (some 2)
  [.construct 1 false, .construct 2 false, .load 2 [2] true]
    ++ o1 ++ [.create 100 .c32 .msb] ++ o2 ++ o3 ++ v3.elems.map (fun e => (Op.run e () : Op toy.Cmd toy.T))

theorem vec_growth_witness :
    outcome Variant.asIs vecHist = .error (.dangling "convertor") ∧
    outcome Variant.fixed vecHist = soutcome vecHist ∧
    soutcome vecHist = .ok (["ok", "ok", "load"] ++ List.replicate 13 "ok" ++
      ["version=1", "version=1", "version=1"]) :=
  ⟨rfl, rfl, rfl⟩

end ElfioVerif.C19
