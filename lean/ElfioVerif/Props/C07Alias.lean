/-
C07 / C08, sources that alias the section's own buffer.

`insert_data(pos, raw, n)` / `append_data(raw, n)` / `add_string(str)` receive a raw pointer.  The section model
(Model/SecBuf.lean) takes the source *by value*, which is exact when the caller's buffer is independent of the
section's.  A caller may, however, pass a pointer INTO the section's buffer (`add_string(get_string(i))`,
`append_data(get_data() + off, n)`); the C++ then reads the source

  * in the in-place branch AFTER `copy_backward` has moved the tail, from the live buffer,
  * in the growing branch from the OLD buffer, which is alive until `data = std::move(new_data)` - the copies come
    first (a change that moves the copy behind that assignment reads freed memory: seeded change
    `c08-insert-copy-after-buffer-move`, caught by the correspondence, DESIGN.md §7).

This file models those two reads (`insertInPlaceAlias`, `insertGrowAlias`: the source is a range `[off, off+n)` of
the buffer, read at the point where the C++ reads it) and proves

  * `insertGrowAlias_eq`      : in the growing branch an aliasing source behaves like its value, for every position;
  * `appendInPlaceAlias_eq`   : in the in-place branch an aliasing source behaves like its value for APPENDS
                                (`pos = size`: the tail is empty, the source range lies below `size`, the
                                destination `[size, size+n)` above it);
  * `insertInPlaceAlias_witness` : for an insert in the middle it does not - the tail move overwrites the source
                                before it is read (data 01 02 03, insert_data(0, data+1, 2): value semantics gives
                                02 03 01 02 03, the code 02 01 01 02 03).  This is why the generators of C07/C08
                                alias appends only, and why C07's statement ("a byte string subjected to the same
                                operations", chunks) is read with independent chunks for inserts.
-/
import ElfioVerif.Model.SecBuf
namespace ElfioVerif.C07Alias
open ElfioVerif ElfioVerif.SecBuf

/-- in-place branch, source = `[off, off+n)` of the section's own buffer:
    `copy_backward(d+pos, d+size, d+size+n); copy(d+off, d+off+n, d+pos)` -/
def insertInPlaceAlias (b : SecBuf) (pos off n : Nat) : M (Option Bytes) := do
  let tail ← rdRange "insert_data/copy_backward-src" b.data pos (b.size.toNat - pos)
  let d ← wrRange "insert_data/copy_backward" b.data (pos + n) tail
  let src ← rdRange "insert_data/copy-src" d off n
  wrRange "insert_data/copy" d pos src

/-- growing branch, source = `[off, off+n)` of the OLD buffer (alive until the move-assignment after the copies) -/
def insertGrowAlias (b : SecBuf) (pos off n nds : Nat) : M (Option Bytes) := do
  let head ← rdRange "insert_data/copy-head-src" b.data 0 pos
  let d ← wrRange "insert_data/copy-head" (some (alloc nds)) 0 head
  let src ← rdRange "insert_data/copy-src" b.data off n
  let d ← wrRange "insert_data/copy-new" d pos src
  let tail ← rdRange "insert_data/copy-tail-src" b.data pos (b.size.toNat - pos)
  wrRange "insert_data/copy-tail" d (pos + src.length) tail

/-- **growing branch**: an aliasing source is its value, whatever the position -/
theorem insertGrowAlias_eq (b : SecBuf) (a : Bytes) (hd : b.data = some a) (pos off n nds : Nat)
    (hsrc : off + n ≤ a.length) :
    insertGrowAlias b pos off n nds = insertGrow b pos (slice a off n) nds := by
  unfold insertGrowAlias insertGrow
  rw [hd]
  cases h1 : rdRange "insert_data/copy-head-src" (some a) 0 pos with
  | error e => rfl
  | ok head =>
    simp only [bind, Except.bind]
    cases h2 : wrRange "insert_data/copy-head" (some (alloc nds)) 0 head with
    | error e => rfl
    | ok d =>
      simp only [rdRange_some_ok hsrc, slice_length_of_le hsrc]

/-- **in-place branch, append**: the source range lies inside `[0, size)`, the destination is `[size, size+n)` -/
theorem appendInPlaceAlias_eq (b : SecBuf) (a : Bytes) (hd : b.data = some a) (off n : Nat)
    (hsrc : off + n ≤ b.size.toNat) (hfit : b.size.toNat + n ≤ a.length) :
    insertInPlaceAlias b b.size.toNat off n = insertInPlace b b.size.toNat (slice a off n) := by
  unfold insertInPlaceAlias insertInPlace
  have hlen : (slice a off n).length = n := slice_length_of_le (by omega)
  rw [hd, hlen]
  have h0 : b.size.toNat + 0 ≤ a.length := by omega
  simp only [Nat.sub_self, bind, Except.bind]
  rw [rdRange_some_ok h0]
  simp only []
  have hs : slice a b.size.toNat 0 = [] := by simp [slice]
  rw [hs]
  have hw : b.size.toNat + n + ([] : Bytes).length ≤ a.length := by simp; omega
  rw [wrRange_some_ok hw]
  have hwr : wr a (b.size.toNat + n) [] = a := by simp [wr]
  simp only [hwr]
  have hr : off + n ≤ a.length := by omega
  rw [rdRange_some_ok hr]

/-- **in-place branch, insert in the middle**: NOT the value - the tail move overwrites the source first -/
theorem insertInPlaceAlias_witness :
    let b : SecBuf := { cls := .c64, stype := 1, size := 3, data := some [1, 2, 3, 0, 0, 0], dataSize := 6,
                        streamSize := 0 }
    insertInPlaceAlias b 0 1 2 = .ok (some [2, 1, 1, 2, 3, 0]) ∧
    insertInPlace b 0 (slice [1, 2, 3, 0, 0, 0] 1 2) = .ok (some [2, 3, 1, 2, 3, 0]) := by
  intro b; exact ⟨rfl, rfl⟩

/-- non-vacuity: an aliasing append in place and one that grows -/
example :
    let b : SecBuf := { cls := .c64, stype := 1, size := 3, data := some [1, 2, 3, 0, 0, 0], dataSize := 6,
                        streamSize := 0 }
    insertInPlaceAlias b 3 1 2 = .ok (some [1, 2, 3, 2, 3, 0]) ∧
    insertGrowAlias b 3 0 3 9 = .ok (some [1, 2, 3, 1, 2, 3, 0, 0, 0]) := by
  intro b; exact ⟨rfl, rfl⟩

end ElfioVerif.C07Alias
