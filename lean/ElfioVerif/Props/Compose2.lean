/-
save ∘ load ∘ save for objects WITH (flat) segments — property C06, second half.

 1. `save_load_save_of_members` : for a flat writer-domain object (`FlatDomain`), under the side conditions
    of `C06.save_twice_runs` (`ResaveOkR` = no F13 trigger, ELF32 fits, no cursor wrap; `FrontOk`), if the
    loader's membership rule evaluated on the *saved* object returns the declared member lists
    (`MembersRecomputed`, decidable), then: save, `load` the bytes (eager or lazy, either stream kind),
    save the loaded object into the same initial stream — the second save succeeds and produces the same
    stream, byte for byte.  Composition of `reload_reports_saved_flat` (what the loader reports),
    `RoundTrip.load_segs_offsetSet`, `C06.save_twice_runs` (the saved object re-saves to the same result)
    and `RoundTrip.save_congr` (`save` cannot tell the reloaded object from the saved one).
 2. `members_recomputed` : `MembersRecomputed` from hypotheses on the input object (members non-empty,
    allocated, listed in ascending index order, TLS flag consistent with the segment type; section 0 at
    offset 0) and one hypothesis on the saved object (`AddrSeparate`: an allocated section that is not a
    declared member of a segment does not lie in that segment's address range).
 3. `save_load_save_flat` : 1 and 2 together.
 4. nested segments: `reload_reports_saved_nested`, `loaded_satisfies_Loaded_nested`,
    `validate_silent_reloaded_nested_unconditional` (`SavedSane.segInside` discharged by
    `RoundTrip.segInside_nested`).
 5. input-side forms of the hypotheses on the saved object: `noWrap64InB`, `addrSeparateInB`
    (`noWrap64_of_input`, `addrSeparate_of_input`), `save_load_save_flat_input`,
    `validate_silent_reloaded_flat_input`, `loaded_satisfies_Loaded_flat_input`.
 6. save ∘ load ∘ save with nested segments: `save_load_save_of_members_nested`,
    `save_load_save_nested_input` (member lists checked by `membersRecomputedInB`).
-/
import ElfioVerif.Lemmas.RoundTrip2
import ElfioVerif.Props.Compose
set_option linter.unusedSimpArgs false
namespace ElfioVerif.Compose
open ElfioVerif Gen Sv RoundTrip

/-- the loader's membership rule (`Spec.inSegment`), evaluated on the saved object, returns exactly the
    declared member list of every segment, in the declared order -/
def MembersRecomputed (secs : List SecBuf) (segs : List Seg) : Prop :=
  ∀ g ∈ segs, specMembers secs g = g.secs.map (·.toNat)

instance (secs : List SecBuf) (segs : List Seg) : Decidable (MembersRecomputed secs segs) := by
  unfold MembersRecomputed; infer_instance

/-- the auxiliary fields of the segments of `segs`, by position -/
def auxOf (segs : List Seg) (i : Nat) : SegAux :=
  match segs[i]? with
  | some g => { data := g.data, isLazy := g.isLazy, isLoaded := g.isLoaded, streamSize := g.streamSize }
  | none => {}

theorem seg_eq_of_fields {g g2 : Seg} (h1 : g2.stype = g.stype) (h2 : g2.flags = g.flags) (h3 : g2.offset = g.offset)
    (h4 : g2.vaddr = g.vaddr) (h5 : g2.paddr = g.paddr) (h6 : g2.filesz = g.filesz) (h7 : g2.memsz = g.memsz)
    (h8 : g2.align = g.align) (h9 : g2.index = g.index) (h10 : g2.secs = g.secs) (h11 : g2.offsetSet = g.offsetSet) :
    g2 = { g with data := g2.data, isLazy := g2.isLazy, isLoaded := g2.isLoaded, streamSize := g2.streamSize } := by
  cases g; cases g2
  simp only at h1 h2 h3 h4 h5 h6 h7 h8 h9 h10 h11
  subst h1 h2 h3 h4 h5 h6 h7 h8 h9 h10 h11
  rfl

/-- the segments of a reloaded object are the saved ones up to auxiliary fields, once the recomputed
    member lists are the declared ones -/
theorem reloaded_segs {c : Cls} {enc : Enc} {h : Bytes} {secs : List SecBuf} {segs : List Seg} {img : Bytes}
    {isLazy : Bool} {o2 : Obj} (R : Reloaded c enc h secs segs img isLazy o2)
    (hidx : ∀ (k : Nat) g, segs[k]? = some g → g.index = k)
    (hset : ∀ g ∈ segs, g.offsetSet = true) (hset2 : ∀ g ∈ o2.segs, g.offsetSet = true)
    (hmem : MembersRecomputed secs segs) :
    o2.segs = segs.map (reAux (auxOf o2.segs)) := by
  apply List.ext_getElem?
  intro j
  rw [List.getElem?_map]
  cases hg2 : o2.segs[j]? with
  | none =>
    have : segs.length ≤ j := by
      rw [← R.nseg]
      rcases Nat.lt_or_ge j o2.segs.length with h' | h'
      · rw [List.getElem?_eq_getElem h'] at hg2; cases hg2
      · exact h'
    rw [List.getElem?_eq_none this]; rfl
  | some g2 =>
    have hj : j < segs.length := by rw [← R.nseg]; exact getElem?_lt hg2
    have hg := List.getElem?_eq_getElem hj
    rw [hg]
    simp only [Option.map_some, Option.some.injEq]
    obtain ⟨sa, hm, -⟩ := R.seg j _ g2 hg hg2
    have hgm : segs[j] ∈ segs := List.getElem_mem hj
    rw [hmem _ hgm] at hm
    have hsecs : g2.secs = (segs[j]).secs :=
      (List.map_inj_right (fun a b hab => BitVec.eq_of_toNat_eq hab)).1 hm
    have hos : g2.offsetSet = (segs[j]).offsetSet := by
      rw [hset _ hgm, hset2 _ (List.mem_of_getElem? hg2)]
    have e := seg_eq_of_fields sa.stype sa.flags sa.offset sa.vaddr sa.paddr sa.filesz sa.memsz sa.align sa.index
      hsecs hos
    rw [e]
    unfold reAux auxOf
    rw [hidx j _ hg, hg2]

/-- the core of save ∘ load ∘ save: `r2` is what the loader yields for the bytes of the successful save
    `r` (`Reloaded`); then saving `r2.obj` into the same initial stream succeeds and yields the same stream -/
theorem save_load_save_core {o : Obj} {os : OStream} {r : SaveRes} {hd hF : Bytes} {img : Bytes} {isLazy : Bool}
    {r2 : LoadRes} {o2 : Obj} {st : IStream}
    (hs : save o os = .ok r) (hok : r.ok = true) (D : ComposeDomain o hd)
    (hres : ∀ a ∈ o.secs, ResidentFull a)
    (hfront : C06.FrontOk o.segs) (hrs : C06.ResaveOkR o hd)
    (hmem : MembersRecomputed r.obj.secs r.obj.segs)
    (hhF : r.obj.hdr = some hF) (hload : load o2 st isLazy = .ok r2)
    (R : Reloaded o.cls o.enc hF r.obj.secs r.obj.segs img isLazy r2.obj) :
    ∃ r3 : SaveRes, save r2.obj os = .ok r3 ∧ r3.ok = true ∧ r3.os = r.os := by
  have hsegIdx := idx_of_B Seg.index o.segs D.input.segIdx
  have hsecIdx := idx_of_B SecBuf.index o.secs D.input.secIdx
  obtain ⟨fsec, fseg, ec, ee, et⟩ := C05.save_writes_fields hs hok hsegIdx
  obtain ⟨_, _, _, iseg, _, _⟩ := saved_indices hs hok hsegIdx hsecIdx
  have hlen : ehdrSize o.cls ≤ hd.length := by rw [D.input.ident.len]; exact Nat.le_refl _
  -- the saved object re-saves to the same result
  obtain ⟨hagain, hmemset, hoffset⟩ := C06.save_twice_runs D.hdr hlen hsegIdx hfront hrs hs hok
  -- the saved sections are resident
  have hresY : ∀ b ∈ r.obj.secs, ResidentFull b := by
    intro b hb
    obtain ⟨i, hi⟩ := List.getElem?_of_mem hb
    have hil : i < o.secs.length := by rw [← fsec.1]; exact getElem?_lt hi
    exact (fileBytesOf_saved (fsec.2 i _ b (List.getElem?_eq_getElem hil) hi)
      (hres _ (List.getElem_mem hil))).1
  have hall := preRes_outRel (X := r2.obj) (Y := r.obj) R hresY
  obtain ⟨alen, aall⟩ := All2.getElem? hall
  have fX := preRes_frame r2.obj
  have fY := preRes_frame r.obj
  -- segments
  have hsegs := reloaded_segs R iseg hoffset (load_segs_offsetSet hload) hmem
  -- sections: members of segments have their address set on both sides
  let S : Nat → Prop := fun i => ∃ g ∈ r.obj.segs, ∃ idx ∈ g.secs, idx.toNat = i
  have hrel : LRel S (preRes r2.obj).secs (preRes r.obj).secs := by
    refine ⟨alen.symm, fun i x y hx hy => ⟨aall i x y hx hy, ?_⟩⟩
    intro hS hnn
    obtain ⟨g, hgm, idx, hidx, rfl⟩ := hS
    have hiX : idx.toNat < r2.obj.secs.length := by rw [← fX.1]; exact getElem?_lt hx
    have hiY : idx.toNat < r.obj.secs.length := by rw [← fY.1]; exact getElem?_lt hy
    have rx := fX.2 _ _ _ (List.getElem?_eq_getElem hiX) hx
    have ry := fY.2 _ _ _ (List.getElem?_eq_getElem hiY) hy
    obtain ⟨sa, -, -⟩ := R.sec _ _ _ (List.getElem?_eq_getElem hiY) (List.getElem?_eq_getElem hiX)
    have e1 : x.addrSet = (r2.obj.secs[idx.toNat]).addrSet := by rw [rx.rest]
    have e2 : y.addrSet = (r.obj.secs[idx.toNat]).addrSet := by rw [ry.rest]
    have e3 : y.stype = (r.obj.secs[idx.toNat]).stype := by rw [ry.rest]
    rw [e1, e2, sa.addrSet]
    exact (hmemset g hgm idx hidx _ (List.getElem?_eq_getElem hiY) (by rw [← e3]; exact hnn)).symm
  exact save_congr (X := r2.obj) (Y := r.obj) S (auxOf r2.obj.segs)
    (R.clsEq.trans ec.symm) (R.encEq.trans ee.symm) (by rw [R.trans, et, D.tr]) R.hdr hhF hsegs hrel
    (fun g hgm idx hidx => ⟨g, hgm, idx, hidx, rfl⟩) hagain hok

/-- **save_load_save_of_members** (C06) : a flat writer-domain object whose section data are in memory;
    `ResaveOkR` / `FrontOk` (the side conditions of `C06.save_twice_runs`, on the input object);
    `MembersRecomputed` on the saved object.  Saving, loading the bytes with the model's loader (eager
    or lazy, either stream kind, into any object without address translation) and saving the loaded
    object into the same initial stream succeeds and yields the same stream. -/
theorem save_load_save_of_members {o : Obj} {os : OStream} {r : SaveRes} {hd : Bytes}
    (hs : save o os = .ok r) (hok : r.ok = true) (hg : os.Good) (hos : os.content.length < 9223372036854775808)
    (D : FlatDomain o hd) (hw : NoWrap64 r.obj.secs r.obj.segs)
    (hres : ∀ a ∈ o.secs, ResidentFull a)
    (hfront : C06.FrontOk o.segs) (hrs : C06.ResaveOkR o hd)
    (hmem : MembersRecomputed r.obj.secs r.obj.segs)
    (o2 : Obj) (k : StreamKind) (isLazy : Bool) (htr2 : o2.trans = []) :
    ∃ (r2 : LoadRes) (r3 : SaveRes), load o2 { data := r.os.content, kind := k } isLazy = .ok r2 ∧ r2.ok = true ∧
      save r2.obj os = .ok r3 ∧ r3.ok = true ∧ r3.os = r.os := by
  obtain ⟨hF, r2, hhF, hload, hok2, R⟩ := reload_reports_saved_flat hs hok hg hos D hw o2 k isLazy htr2
  obtain ⟨r3, h3, hok3, hos3⟩ := save_load_save_core hs hok D.toComposeDomain hres hfront hrs hmem hhF hload R
  exact ⟨r2, r3, hload, hok2, h3, hok3, hos3⟩

/-! ### 2. `members_recomputed` : the loader's rule returns the declared member lists -/

/-- the section is allocated (`SHF_ALLOC`), in the vocabulary of `Spec.inSegment` -/
def isAlloc (b : SecBuf) : Bool := b.flags.toNat / Spec.SHF_ALLOC % 2 == 1
/-- the section carries `SHF_TLS` -/
def isTls (b : SecBuf) : Bool := b.flags.toNat / Spec.SHF_TLS % 2 == 1

/-- **Writer-domain hypotheses about segment members** (on the object to be saved; every clause
    decidable): members exist, are non-empty and allocated, are listed in ascending index order, carry
    `SHF_TLS` exactly if the segment is a `PT_TLS`; the section with index 0 sits at file offset 0. -/
structure MemberDomain (o : Obj) : Prop where
  inRange : ∀ g ∈ o.segs, ∀ idx ∈ g.secs, idx.toNat < o.secs.length
  nonEmpty : ∀ g ∈ o.segs, ∀ idx ∈ g.secs, ∀ s ∈ o.secs[idx.toNat]?, s.size ≠ 0
  alloc : ∀ g ∈ o.segs, ∀ idx ∈ g.secs, ∀ s ∈ o.secs[idx.toNat]?, isAlloc s = true
  tls : ∀ g ∈ o.segs, ∀ idx ∈ g.secs, ∀ s ∈ o.secs[idx.toNat]?, isTls s = (g.stype.toNat == Spec.PT_TLS)
  sorted : ∀ g ∈ o.segs, g.secs.Pairwise (fun a b => a.toNat < b.toNat)
  sec0 : ∀ s ∈ o.secs, s.index = 0 → s.offset = 0

/-- the address-range test of the loader's rule for an allocated section -/
def inAddrRange (b : SecBuf) (g : Seg) : Bool :=
  decide (g.vaddr.toNat ≤ b.addr.toNat) && decide (b.addr.toNat + b.size.toNat ≤ g.vaddr.toNat + g.memsz.toNat) &&
    decide (b.addr.toNat < g.vaddr.toNat + g.memsz.toNat)

/-- **On the saved object** (decidable): an allocated section that is not a declared member of a segment
    does not lie in that segment's address range (segments' address ranges are disjoint; allocated
    sections outside all segments lie outside all segments' address ranges). -/
def AddrSeparate (secs : List SecBuf) (segs : List Seg) : Prop :=
  ∀ g ∈ segs, ∀ i ∈ List.range secs.length, ∀ b ∈ secs[i]?, isAlloc b = true →
    (∀ idx ∈ g.secs, idx.toNat ≠ i) → inAddrRange b g = false

instance (secs : List SecBuf) (segs : List Seg) : Decidable (AddrSeparate secs segs) := by
  unfold AddrSeparate; infer_instance

theorem inSegment_alloc {b : SecBuf} {g : Seg} (ha : isAlloc b = true) :
    Spec.inSegment b.flags.toNat b.addr.toNat b.offset.toNat b.size.toNat
      g.stype.toNat g.offset.toNat g.vaddr.toNat g.filesz.toNat g.memsz.toNat =
    (if (isTls b != (g.stype.toNat == Spec.PT_TLS)) = true then false else inAddrRange b g) := by
  unfold isAlloc at ha
  unfold Spec.inSegment isTls inAddrRange
  simp only [ha, if_true]

theorem inSegment_nonalloc {b : SecBuf} {g : Seg} (ha : isAlloc b = false) :
    Spec.inSegment b.flags.toNat b.addr.toNat b.offset.toNat b.size.toNat
      g.stype.toNat g.offset.toNat g.vaddr.toNat g.filesz.toNat g.memsz.toNat =
    (if (isTls b != (g.stype.toNat == Spec.PT_TLS)) = true then false else
      decide (g.offset.toNat ≤ b.offset.toNat) &&
        decide (b.offset.toNat + b.size.toNat ≤ g.offset.toNat + g.filesz.toNat) &&
        decide (b.offset.toNat < g.offset.toNat + g.filesz.toNat)) := by
  unfold isAlloc at ha
  unfold Spec.inSegment isTls
  simp only [ha, Bool.false_eq_true, if_false]

theorem addr_in_range (a v sz m : BitVec 64) (h1 : (a - v).toNat + sz.toNat ≤ m.toNat)
    (h2 : v.toNat + m.toNat < 18446744073709551616) (h3 : sz.toNat ≠ 0) :
    v.toNat ≤ a.toNat ∧ a.toNat + sz.toNat ≤ v.toNat + m.toNat ∧ a.toNat < v.toNat + m.toNat := by
  bv_omega

/-- **members_recomputed** : for a flat writer-domain object (`FlatDomain`; `layoutDomB true false`: the
    memory size covers every member — excludes F14), under `MemberDomain` on the input object and
    `NoWrap64` / `AddrSeparate` on the saved object, the loader's membership rule evaluated on the saved
    object returns, for every segment, exactly the declared member list in the declared order.
    (A declared member is allocated, so the address rule applies: its address range lies inside
    `[p_vaddr, p_vaddr + p_memsz)` by `C04.save_segments`, it is not empty, and its TLS flag matches.  A
    non-allocated section is outside all segments, hence placed by the loose-section pass behind every
    flat segment's file range; section 0 stays at offset 0, before every segment.) -/
theorem members_recomputed {o : Obj} {os : OStream} {r : SaveRes} {hd : Bytes}
    (hs : save o os = .ok r) (hok : r.ok = true) (D : FlatDomain o hd)
    (hcov : layoutDomB true false (fun _ => true) (preSave o) hd = true) (M : MemberDomain o)
    (hw : NoWrap64 r.obj.secs r.obj.segs) (hsep : AddrSeparate r.obj.secs r.obj.segs) :
    MembersRecomputed r.obj.secs r.obj.segs := by
  intro g hg
  have hsegIdx := idx_of_B Seg.index o.segs D.input.segIdx
  have hsecIdx := idx_of_B SecBuf.index o.secs D.input.secIdx
  obtain ⟨fsec, fseg, ec, ee, et⟩ := C05.save_writes_fields hs hok hsegIdx
  have hnd := nodup_of_idx hsegIdx
  -- every segment of the saved object comes from a segment of the input with the same members and type
  have hsrc : ∀ g' ∈ r.obj.segs, ∃ g0 ∈ o.segs, g'.secs = g0.secs ∧ g'.stype = g0.stype := by
    intro g' hg'
    obtain ⟨j, hj⟩ := List.getElem?_of_mem hg'
    have hjlt : j < o.segs.length := by rw [← fseg.1]; exact getElem?_lt hj
    have sg := C05.SegSaved.fields (fseg.2 j _ g' (List.getElem?_eq_getElem hjlt) hj)
    exact ⟨_, List.getElem_mem hjlt, sg.2.2.2.2.1, sg.1⟩
  -- a member of a segment of the saved object: what the input says about it
  have hmemb : ∀ g' ∈ r.obj.segs, ∀ idx ∈ g'.secs, ∃ b, r.obj.secs[idx.toNat]? = some b ∧ b.size ≠ 0 ∧
      isAlloc b = true ∧ isTls b = (g'.stype.toNat == Spec.PT_TLS) ∧ b.stype ≠ BitVec.ofNat 32 SHT_NULL := by
    intro g' hg' idx hidx
    obtain ⟨g0, hg0, e1, e2⟩ := hsrc g' hg'
    rw [e1] at hidx
    have hlt := M.inRange g0 hg0 idx hidx
    have ha := List.getElem?_eq_getElem hlt
    have hlt' : idx.toNat < r.obj.secs.length := by rw [fsec.1]; exact hlt
    have hb := List.getElem?_eq_getElem hlt'
    obtain ⟨-, -, est, efl, esz, -⟩ := (fsec.2 _ _ _ ha hb).fields
    have hne := M.nonEmpty g0 hg0 idx hidx _ (by rw [ha]; rfl)
    refine ⟨_, hb, by rw [esz]; exact hne, ?_, ?_, ?_⟩
    · have := M.alloc g0 hg0 idx hidx _ (by rw [ha]; rfl)
      unfold isAlloc at this ⊢; rw [efl]; exact this
    · have := M.tls g0 hg0 idx hidx _ (by rw [ha]; rfl)
      unfold isTls at this ⊢; rw [efl, e2]; exact this
    · rw [est]
      intro e
      exact hne (D.null0 _ (List.getElem_mem hlt) e)
  obtain ⟨-, -, hmem⟩ := C04.save_segments true false o os r hd hs hok D.hdr D.input.nsecs D.input.h0 D.nw hnd
    (fun _ => true) hcov g hg rfl
  obtain ⟨g0, hg0, egs, egt⟩ := hsrc g hg
  apply sorted_ext
  · unfold specMembers; exact List.Pairwise.filter _ List.pairwise_lt_range
  · rw [egs, List.pairwise_map]; exact M.sorted _ hg0
  intro i
  unfold specMembers
  rw [List.mem_filter, List.mem_range, List.mem_map]
  constructor
  · -- recomputed ⇒ declared
    rintro ⟨hi, hP⟩
    have hb := List.getElem?_eq_getElem hi
    rw [hb] at hP
    simp only at hP
    apply Classical.byContradiction
    intro hnot
    have hnm : ∀ idx ∈ g.secs, idx.toNat ≠ i := fun idx hidx e => hnot ⟨idx, hidx, e⟩
    cases hal : isAlloc r.obj.secs[i] with
    | true =>
      rw [inSegment_alloc hal] at hP
      split at hP
      · cases hP
      · have := hsep g hg i (List.mem_range.2 hi) _ (by rw [hb]; rfl) hal hnm
        rw [this] at hP; cases hP
    | false =>
      rw [inSegment_nonalloc hal] at hP
      split at hP
      · cases hP
      · simp only [Bool.and_eq_true, decide_eq_true_eq] at hP
        obtain ⟨⟨p1, p2⟩, p3⟩ := hP
        -- a non-allocated section is outside all segments
        have hwo : withoutSegment r.obj.segs i = true := by
          rw [withoutSegment_eq]
          simp only [Bool.not_eq_true', List.any_eq_false, List.any_eq_true, not_exists, not_and, beq_iff_eq]
          intro g' hg' idx hidx e
          obtain ⟨b', hb', -, hal', -⟩ := hmemb g' hg' idx hidx
          rw [e, hb] at hb'
          cases hb'
          rw [hal] at hal'; cases hal'
        have hfs : g.filesz.toNat ≠ 0 := by omega
        have hph : lseg_is_phdr g.stype (BitVec.ofNat 16 g.secs.length) = false := by
          rw [egs, egt]; exact D.noPhdr g0 hg0
        obtain ⟨res, hl, -, -, -⟩ := C04.save_secs_hdr o os r hd hs hok D.hdr
        obtain ⟨q1, q2⟩ := flat_seg_bounds hs hok D.hdr D.input.nsecs D.input.h0 D.nw hnd (fun _ => true) D.dom g hg rfl
          hph hfs res hl
        by_cases hi0 : (r.obj.secs[i]).index = 0
        · -- section 0 stays at offset 0, before the initial cursor
          have hio : i < o.secs.length := by rw [← fsec.1]; exact hi
          have ha := List.getElem?_eq_getElem hio
          have e0 : (o.secs[i]).index = 0 := by
            rw [← (fsec.2 _ _ _ ha hb).fields.2.2.2.2.2.2.2.2.2.1]; exact hi0
          have := saved_sec0_offset hs hok hsegIdx i _ _ ha hb e0
          rw [M.sec0 _ (List.getElem_mem hio) e0] at this
          have hfit : fitsB o.cls r.obj.curPos = true := by
            obtain ⟨res', hlay, -, hcur, -⟩ := C04.save_secs_hdr o os r hd hs hok D.hdr
            have hsm := D.small
            unfold C03.fileSmallB at hsm
            rw [hlay] at hsm
            simp only [Bool.and_eq_true, decide_eq_true_eq] at hsm
            rw [← hcur] at hsm
            exact hsm.1
          obtain ⟨_, _, _, _, _, _, _, _, _, _, _, eeh0, _, _⟩ := saved_header hs hok D.hdr D.input.ident hfit
          have hp0 := pos0_pos hl eeh0 D.input.ehsize
          have hz : (r.obj.secs[i]).offset.toNat = 0 := by rw [this]; rfl
          omega
        · have := saved_loose_offset_ge hs hok D.hdr D.nw i _ hb hwo hi0 res hl
          omega
  · -- declared ⇒ recomputed
    rintro ⟨idx, hidx, rfl⟩
    obtain ⟨b, hb, hsz, hal, htls, hnn⟩ := hmemb g hg idx hidx
    refine ⟨getElem?_lt hb, ?_⟩
    rw [hb]
    simp only
    rw [inSegment_alloc hal, htls]
    simp only [bne_self_eq_false, Bool.false_eq_true, if_false]
    have h1 := (hmem idx hidx b hb).2.2 rfl hnn
    have hsz' : b.size.toNat ≠ 0 := by
      intro e; apply hsz; exact BitVec.eq_of_toNat_eq (by rw [e]; rfl)
    obtain ⟨a1, a2, a3⟩ := addr_in_range b.addr g.vaddr b.size g.memsz h1 (hw.seg g hg).1 hsz'
    unfold inAddrRange
    simp only [a1, a2, a3, decide_true, Bool.and_self]

/-! ### 3. `save_load_save_flat` : hypotheses on the input object, `NoWrap64` / `AddrSeparate` on the saved one -/

/-- the hypotheses of `save_load_save_flat` about the object to be saved (every clause decidable):
    `FlatDomain` (Props/Compose.lean), the memory size of every segment covers its members
    (`layoutDomB true false`: excludes F14), `MemberDomain`, section data in memory, no segment at file
    offset 0 yet or all offsets initialised (`FrontOk`), and `ResaveOkR` (no F13 trigger, ELF32 fits, no
    cursor wrap) -/
structure ResaveDomain (o : Obj) (hd : Bytes) : Prop extends FlatDomain o hd where
  cov : layoutDomB true false (fun _ => true) (preSave o) hd = true
  members : MemberDomain o
  resident : ∀ a ∈ o.secs, ResidentFull a
  front : C06.FrontOk o.segs
  resave : C06.ResaveOkR o hd

/-- **save_load_save_flat** (C06, objects with flat segments) : save an object of the `ResaveDomain`
    into a good stream; if no address / offset range of the saved object reaches 2^64 (`NoWrap64`) and
    allocated non-members lie outside the segments' address ranges (`AddrSeparate`), then loading the
    bytes with the model's loader (eager or lazy, string- or file-backed stream, into any object without
    address translation) and saving the loaded object into the same initial stream succeeds and yields
    the same stream, byte for byte. -/
theorem save_load_save_flat {o : Obj} {os : OStream} {r : SaveRes} {hd : Bytes}
    (hs : save o os = .ok r) (hok : r.ok = true) (hg : os.Good) (hos : os.content.length < 9223372036854775808)
    (D : ResaveDomain o hd) (hw : NoWrap64 r.obj.secs r.obj.segs) (hsep : AddrSeparate r.obj.secs r.obj.segs)
    (o2 : Obj) (k : StreamKind) (isLazy : Bool) (htr2 : o2.trans = []) :
    ∃ (r2 : LoadRes) (r3 : SaveRes), load o2 { data := r.os.content, kind := k } isLazy = .ok r2 ∧ r2.ok = true ∧
      save r2.obj os = .ok r3 ∧ r3.ok = true ∧ r3.os = r.os :=
  save_load_save_of_members hs hok hg hos D.toFlatDomain hw D.resident D.front D.resave
    (members_recomputed hs hok D.toFlatDomain D.cov D.members hw hsep) o2 k isLazy htr2

/-- the general statement of Props/Compose.lean holds with the additional hypotheses found necessary
    (each of them excludes a case in which the real code does not reproduce the file — see the family
    docstring): the `SaveLoadSaveStatement` of Props/Compose.lean as first written (with `FlatDomain` and
    `C06.ResaveOk` only) is too weak in its hypotheses. -/
theorem saveLoadSave_flat_statement :
    ∀ (o o2 : Obj) (os : OStream) (r : SaveRes) (hd : Bytes) (k : StreamKind) (isLazy : Bool),
      save o os = .ok r → r.ok = true → os.Good → os.content.length < 9223372036854775808 →
      ResaveDomain o hd → NoWrap64 r.obj.secs r.obj.segs → AddrSeparate r.obj.secs r.obj.segs → o2.trans = [] →
      ∃ (r2 : LoadRes) (r3 : SaveRes), load o2 { data := r.os.content, kind := k } isLazy = .ok r2 ∧ r2.ok = true ∧
        save r2.obj os = .ok r3 ∧ r3.ok = true ∧ r3.os.content = r.os.content := by
  intro o o2 os r hd k isLazy hs hok hg hos D hw hsep htr2
  obtain ⟨r2, r3, h1, h2, h3, h4, h5⟩ := save_load_save_flat hs hok hg hos D hw hsep o2 k isLazy htr2
  exact ⟨r2, r3, h1, h2, h3, h4, by rw [h5]⟩

/-! ### non-vacuity -/

/-- ELF64/LSB: `.text` (automatic address), `.data` (explicit address) and `.bss` (NOBITS, align 1) in a
    first PT_LOAD, `.ro` in a second PT_LOAD, a loose non-allocated `.c`; built with the model's API -/
def exTwoM : M Obj := do
  let o ← create {} .c64 .lsb
  let o ← sectionsAdd o [0x2e, 0x74, 0x65, 0x78, 0x74]
  let o := C06.updSec o 2 fun b => { b with stype := 1, flags := 6, addrAlign := 16 }
  let o ← C06.updSecM o 2 fun b => b.setData (some [1, 2, 3, 4, 5]) 5
  let o ← sectionsAdd o [0x2e, 0x64, 0x61, 0x74, 0x61]
  let o := C06.updSec o 3 fun b => { b with stype := 1, flags := 3, addrAlign := 4, addr := 0x400020, addrSet := true }
  let o ← C06.updSecM o 3 fun b => b.setData (some [9, 8, 7, 6, 5, 4, 3, 2]) 8
  let o ← sectionsAdd o [0x2e, 0x62, 0x73, 0x73]
  let o := C06.updSec o 4 fun b => ({ b with stype := 8, flags := 3, addrAlign := 1 }).setSize 32
  let o ← sectionsAdd o [0x2e, 0x72, 0x6f]
  let o := C06.updSec o 5 fun b => { b with stype := 1, flags := 2, addrAlign := 8 }
  let o ← C06.updSecM o 5 fun b => b.setData (some [7, 7, 7]) 3
  let o ← sectionsAdd o [0x2e, 0x63]
  let o := C06.updSec o 6 fun b => { b with stype := 1, flags := 0x30, addrAlign := 1 }
  let o ← C06.updSecM o 6 fun b => b.setData (some [0x41, 0x42, 0]) 3
  let o := segmentsAdd o
  let o := C06.updSeg o 0 fun g => { g with stype := 1, flags := 6, align := 0x1000, vaddr := 0x400000, paddr := 0x400000 }
  let o := C06.updSeg o 0 fun g => segAddSection g 2 16
  let o := C06.updSeg o 0 fun g => segAddSection g 3 4
  let o := C06.updSeg o 0 fun g => segAddSection g 4 1
  let o := segmentsAdd o
  let o := C06.updSeg o 1 fun g => { g with stype := 1, flags := 4, align := 0x1000, vaddr := 0x800000, paddr := 0x800000 }
  let o := C06.updSeg o 1 fun g => segAddSection g 5 8
  pure o

theorem exTwo_ok : ExOk (objOf exTwoM) := by
  refine ⟨savedOf_eq _ (by decide +kernel), by decide +kernel,
    ⟨⟨by decide +kernel, by decide +kernel,
      ⟨by decide +kernel, by decide +kernel, by decide +kernel, by decide +kernel, by decide +kernel,
       by decide +kernel, by decide +kernel, by decide +kernel, by decide +kernel, by decide +kernel,
       by decide +kernel, by decide +kernel, by decide +kernel, by decide +kernel⟩,
      by decide +kernel, by decide +kernel, by decide +kernel⟩,
     by decide +kernel, by decide +kernel, by decide +kernel⟩,
    ⟨by decide +kernel, by decide +kernel⟩⟩

instance (segs : List Seg) : Decidable (Sv.NoZeroOffset segs) := by unfold Sv.NoZeroOffset; infer_instance

/-! Bool-valued forms of `MemberDomain` and `AddrSeparate` (the `Decidable` instances of the nested
bounded quantifiers evaluate very slowly in the kernel; these evaluate in well under a second). -/

def pairwiseLtB : List (BitVec 16) → Bool
  | [] => true
  | a :: t => t.all (fun b => decide (a.toNat < b.toNat)) && pairwiseLtB t

theorem pairwise_of_B (l : List (BitVec 16)) (h : pairwiseLtB l = true) :
    l.Pairwise (fun a b => a.toNat < b.toNat) := by
  induction l with
  | nil => exact List.Pairwise.nil
  | cons a t ih =>
    unfold pairwiseLtB at h
    simp only [Bool.and_eq_true, List.all_eq_true, decide_eq_true_eq] at h
    exact List.Pairwise.cons h.1 (ih h.2)

def memberDomainB (o : Obj) : Bool :=
  o.segs.all (fun g =>
    g.secs.all (fun idx => match o.secs[idx.toNat]? with
      | some s => s.size != 0 && isAlloc s && (isTls s == (g.stype.toNat == Spec.PT_TLS))
      | none => false) &&
    pairwiseLtB g.secs) &&
  o.secs.all (fun s => s.index != 0 || s.offset == 0)

theorem memberDomain_of_B {o : Obj} (h : memberDomainB o = true) : MemberDomain o := by
  unfold memberDomainB at h
  simp only [Bool.and_eq_true, List.all_eq_true, Bool.or_eq_true, bne_iff_ne, ne_eq, beq_iff_eq] at h
  obtain ⟨h1, h2⟩ := h
  have key : ∀ g ∈ o.segs, ∀ idx ∈ g.secs, ∃ s, o.secs[idx.toNat]? = some s ∧ s.size ≠ 0 ∧ isAlloc s = true ∧
      isTls s = (g.stype.toNat == Spec.PT_TLS) := by
    intro g hg idx hidx
    have := (h1 g hg).1 idx hidx
    cases hs : o.secs[idx.toNat]? with
    | none => rw [hs] at this; cases this
    | some s =>
      rw [hs] at this
      simp only [Bool.and_eq_true, bne_iff_ne, ne_eq, beq_iff_eq] at this
      exact ⟨s, rfl, this.1.1, this.1.2, this.2⟩
  refine ⟨?_, ?_, ?_, ?_, fun g hg => pairwise_of_B _ (h1 g hg).2, ?_⟩
  · intro g hg idx hidx
    obtain ⟨s, hs, -⟩ := key g hg idx hidx
    exact getElem?_lt hs
  · intro g hg idx hidx s hs
    obtain ⟨s', hs', k1, -⟩ := key g hg idx hidx
    rw [hs'] at hs; cases hs; exact k1
  · intro g hg idx hidx s hs
    obtain ⟨s', hs', -, k2, -⟩ := key g hg idx hidx
    rw [hs'] at hs; cases hs; exact k2
  · intro g hg idx hidx s hs
    obtain ⟨s', hs', -, -, k3⟩ := key g hg idx hidx
    rw [hs'] at hs; cases hs; exact k3
  · intro s hs hi
    rcases h2 s hs with h' | h'
    · exact absurd hi h'
    · exact h'

def addrSeparateB (secs : List SecBuf) (segs : List Seg) : Bool :=
  segs.all fun g => (List.range secs.length).all fun i =>
    match secs[i]? with
    | some b => !isAlloc b || g.secs.any (fun idx => idx.toNat == i) || !inAddrRange b g
    | none => true

theorem addrSeparate_of_B {secs : List SecBuf} {segs : List Seg} (h : addrSeparateB secs segs = true) :
    AddrSeparate secs segs := by
  unfold addrSeparateB at h
  simp only [List.all_eq_true] at h
  intro g hg i hi b hb hal hnm
  have := h g hg i hi
  rw [show secs[i]? = some b from hb] at this
  simp only [Bool.or_eq_true, Bool.not_eq_true', List.any_eq_true, beq_iff_eq] at this
  rcases this with (h1 | ⟨idx, hidx, e⟩) | h3
  · rw [hal] at h1; cases h1
  · exact absurd e (hnm idx hidx)
  · exact h3

/-- the hypotheses of `save_load_save_flat` that are not part of `ExOk`, for a concrete object saved into
    an empty stream (Bool-valued forms where a Prop is not decidable as it stands) -/
structure ExResave (o : Obj) : Prop where
  cov : layoutDomB true false (fun _ => true) (preSave o) (o.hdr.getD []) = true
  members : memberDomainB o = true
  res : ∀ a ∈ o.secs, ResidentFull a
  front : Sv.NoZeroOffset o.segs
  resave : C06.resaveOkRB o (o.hdr.getD []) = true
  sep : addrSeparateB (savedOf o).obj.secs (savedOf o).obj.segs = true

theorem exFlat_resave : ExResave (objOf exFlatM) :=
  ⟨by decide +kernel, by decide +kernel, by decide +kernel, by decide +kernel, by decide +kernel, by decide +kernel⟩
theorem exTwo_resave : ExResave (objOf exTwoM) :=
  ⟨by decide +kernel, by decide +kernel, by decide +kernel, by decide +kernel, by decide +kernel, by decide +kernel⟩

/-- `save_load_save_flat` applies to every object meeting `ExOk` and `ExResave` … -/
theorem ExOk.saveLoadSave {o : Obj} (h : ExOk o) (h2 : ExResave o) (o2 : Obj) (k : StreamKind) (isLazy : Bool)
    (htr2 : o2.trans = []) :
    ∃ (r2 : LoadRes) (r3 : SaveRes), load o2 { data := (savedOf o).os.content, kind := k } isLazy = .ok r2 ∧
      r2.ok = true ∧ save r2.obj {} = .ok r3 ∧ r3.ok = true ∧ r3.os = (savedOf o).os :=
  save_load_save_flat h.saved h.ok ⟨rfl, rfl⟩ (by decide)
    ⟨h.dom, h2.cov, memberDomain_of_B h2.members, h2.res, Or.inl h2.front, C06.resaveOkR_of_B h2.resave⟩ h.noWrap
    (addrSeparate_of_B h2.sep) o2 k isLazy htr2

/-- … in particular to the ELF32/MSB object with one PT_LOAD (`exFlatM`) and to the ELF64/LSB object with
    two PT_LOADs, an explicit address, a NOBITS member and a loose section (`exTwoM`), for every stream
    kind and load mode; the recomputed member lists are the declared ones -/
example (k : StreamKind) (isLazy : Bool) :
    ∃ (r2 : LoadRes) (r3 : SaveRes),
      load {} { data := (savedOf (objOf exFlatM)).os.content, kind := k } isLazy = .ok r2 ∧ r2.ok = true ∧
      save r2.obj {} = .ok r3 ∧ r3.ok = true ∧ r3.os = (savedOf (objOf exFlatM)).os :=
  exFlat_ok.saveLoadSave exFlat_resave {} k isLazy rfl

example (k : StreamKind) (isLazy : Bool) :
    ∃ (r2 : LoadRes) (r3 : SaveRes),
      load {} { data := (savedOf (objOf exTwoM)).os.content, kind := k } isLazy = .ok r2 ∧ r2.ok = true ∧
      save r2.obj {} = .ok r3 ∧ r3.ok = true ∧ r3.os = (savedOf (objOf exTwoM)).os :=
  exTwo_ok.saveLoadSave exTwo_resave {} k isLazy rfl

example : MembersRecomputed (savedOf (objOf exTwoM)).obj.secs (savedOf (objOf exTwoM)).obj.segs ∧
    ((savedOf (objOf exTwoM)).obj.segs.map fun g => (g.offset, g.filesz, g.memsz, g.secs)) =
      [(0x1000#64, 0x28#64, 0x48#64, [2#16, 3#16, 4#16]), (0x2000#64, 3#64, 3#64, [5#16])] :=
  ⟨members_recomputed exTwo_ok.saved exTwo_ok.ok exTwo_ok.dom exTwo_resave.cov (memberDomain_of_B exTwo_resave.members)
    exTwo_ok.noWrap (addrSeparate_of_B exTwo_resave.sep), by decide +kernel⟩

/-! ### 4. nested segments : `SavedSane.segInside` discharged (C02 / C05 / C20) -/

/-- objects whose segments are flat (`selE`) or nested (`selN`: at its turn the segment starts at its
    already generated first member, all members generated and listed in file order — `layoutNestedB`);
    every segment is one or the other; SHT_NULL-typed sections are empty -/
structure NestedDomain (o : Obj) (hd : Bytes) (selE selN : Nat → Bool) : Prop extends ComposeDomain o hd where
  dom : layoutDomB false false selE (preSave o) hd = true
  nest : layoutNestedB selN (preSave o) hd = true
  cover : ∀ g ∈ o.segs, (selE g.index = true ∧ lseg_is_phdr g.stype (BitVec.ofNat 16 g.secs.length) = false) ∨
    selN g.index = true
  null0 : ∀ s ∈ o.secs, s.stype = BitVec.ofNat 32 SHT_NULL → s.size = 0

/-- **reload_reports_saved_nested** : `reload_reports_saved` for objects with flat *and nested* segments,
    hypotheses on the input object only (plus `NoWrap64` of the saved object): the file range of a nested
    segment ends exactly at the end of one of its members (`RoundTrip.segInside_nested`), hence inside the
    file. -/
theorem reload_reports_saved_nested {o : Obj} {os : OStream} {r : SaveRes} {hd : Bytes} {selE selN : Nat → Bool}
    (hs : save o os = .ok r) (hok : r.ok = true) (hg : os.Good) (hos : os.content.length < 9223372036854775808)
    (D : NestedDomain o hd selE selN) (hw : NoWrap64 r.obj.secs r.obj.segs)
    (o2 : Obj) (k : StreamKind) (isLazy : Bool) (htr2 : o2.trans = []) :
    ∃ (hF : Bytes) (r2 : LoadRes), r.obj.hdr = some hF ∧
      load o2 { data := r.os.content, kind := k } isLazy = .ok r2 ∧ r2.ok = true ∧
      Reloaded o.cls o.enc hF r.obj.secs r.obj.segs r.os.content isLazy r2.obj := by
  obtain ⟨hF, hhF, hl, hsm, hnwrap⟩ := D.toComposeDomain.writer hs hok hos hw
  obtain ⟨r2, h1, h2, h3⟩ := reload_reports_saved hs hok hg D.tr D.hdr D.input D.nw hsm hhF hl
    (savedSane_mixed hs hok D.hdr D.input D.nw selE selN D.dom D.nest D.cover hnwrap) o2 k isLazy htr2
  exact ⟨hF, r2, hhF, h1, h2, h3⟩

/-- **loaded_satisfies_Loaded_nested** (C05) : the eager reload of a saved object with flat and nested
    segments satisfies `C05.Loaded` -/
theorem loaded_satisfies_Loaded_nested {o : Obj} {os : OStream} {r : SaveRes} {hd : Bytes} {selE selN : Nat → Bool}
    (hs : save o os = .ok r) (hok : r.ok = true) (hg : os.Good) (hos : os.content.length < 9223372036854775808)
    (D : NestedDomain o hd selE selN) (hw : NoWrap64 r.obj.secs r.obj.segs)
    (o2 : Obj) (k : StreamKind) (htr2 : o2.trans = []) :
    ∃ r2 : LoadRes, load o2 { data := r.os.content, kind := k } false = .ok r2 ∧ r2.ok = true ∧
      r2.obj.cls = o.cls ∧ r2.obj.enc = o.enc ∧ r2.obj.trans = [] ∧ r2.obj.hdr = r.obj.hdr ∧
      C05.Loaded o.cls o.enc r2.obj.secs r2.obj.segs r.os.content := by
  obtain ⟨hF, hhF, hl, hsm, hnwrap⟩ := D.toComposeDomain.writer hs hok hos hw
  exact loaded_satisfies_Loaded hs hok hg D.tr D.hdr D.input D.nw hsm hhF hl
    (savedSane_mixed hs hok D.hdr D.input D.nw selE selN D.dom D.nest D.cover hnwrap) o2 k htr2

/-- **validate_silent_reloaded_nested_unconditional** (C20) : objects with flat and nested segments; a
    PT_LOAD with file size > 0 that is itself nested starts at a file-occupying first member carrying its
    `p_vaddr` (`hsel`, as in `C20.validate_silent_save_nested`).  `validate` returns no complaint on the
    saved object and on the object the model's `load` yields from the saved bytes (eager or lazy). -/
theorem validate_silent_reloaded_nested_unconditional {o : Obj} {os : OStream} {r : SaveRes} {hd : Bytes}
    {selE selN : Nat → Bool}
    (hs : save o os = .ok r) (hok : r.ok = true) (hg : os.Good) (hos : os.content.length < 9223372036854775808)
    (D : NestedDomain o hd selE selN) (hw : NoWrap64 r.obj.secs r.obj.segs)
    (hsel : ∀ g ∈ r.obj.segs, g.stype = BitVec.ofNat 32 PT_LOAD → 0 < g.filesz.toNat →
      selE g.index = true ∨
      (selN g.index = true ∧ ∀ f sf, g.secs.head? = some f → r.obj.secs[f.toNat]? = some sf →
        sf.Occ ∧ g.vaddr = sf.addr))
    (o2 : Obj) (k : StreamKind) (isLazy : Bool) (htr2 : o2.trans = []) :
    validate r.obj = [] ∧
    ∃ r2 : LoadRes, load o2 { data := r.os.content, kind := k } isLazy = .ok r2 ∧ r2.ok = true ∧
      validate r2.obj = [] := by
  obtain ⟨hF, r2, hhF, hload, hok2, R⟩ := reload_reports_saved_nested hs hok hg hos D hw o2 k isLazy htr2
  obtain ⟨hk1, hk2⟩ := reloaded_vkeys R
  have hnd := nodup_of_idx (idx_of_B _ _ D.input.segIdx)
  have hstart := layoutNestedB_start selN _ _ D.nest
  exact ⟨C20.validate_silent_save_nested o os r hd hs hok D.hdr D.input.nsecs D.input.h0 D.null0 D.nw hnd selE selN
      D.dom hstart hsel,
    r2, hload, hok2, C20.validate_silent_reloaded_nested o os r hd r2.obj hs hok D.hdr D.input.nsecs D.input.h0
      D.null0 D.nw hnd selE selN D.dom hstart hsel hk1 hk2⟩

/-- ELF32/MSB: `exFlatM` plus a second PT_LOAD *nested* in the first one, over `.data` alone, with
    `.data`'s explicit address as its `p_vaddr` -/
def exNestedM : M Obj := do
  let o ← exFlatM
  let o := segmentsAdd o
  let o := C06.updSeg o 1 fun g => { g with stype := 1, flags := 6, align := 4, vaddr := 0x8020, paddr := 0x8020 }
  let o := C06.updSeg o 1 fun g => segAddSection g 3 4
  pure o

/-- what `validate_silent_reloaded_nested_unconditional` asks of the saved PT_LOAD segments -/
def nestedLoadSelB (o : Obj) (selE selN : Nat → Bool) : Bool :=
  o.segs.all fun g =>
    selE g.index ||
      (selN g.index && match g.secs.head? with
        | some f => (match o.secs[f.toNat]? with
          | some sf => decide sf.Occ && g.vaddr == sf.addr
          | none => true)
        | none => true)

theorem nestedLoadSel_of_B {o : Obj} {selE selN : Nat → Bool} (h : nestedLoadSelB o selE selN = true) :
    ∀ g ∈ o.segs, g.stype = BitVec.ofNat 32 PT_LOAD → 0 < g.filesz.toNat →
      selE g.index = true ∨
      (selN g.index = true ∧ ∀ f sf, g.secs.head? = some f → o.secs[f.toNat]? = some sf →
        sf.Occ ∧ g.vaddr = sf.addr) := by
  intro g hg _ _
  unfold nestedLoadSelB at h
  rw [List.all_eq_true] at h
  have := h g hg
  simp only [Bool.or_eq_true, Bool.and_eq_true] at this
  rcases this with h1 | ⟨h1, h2⟩
  · exact Or.inl h1
  · refine Or.inr ⟨h1, fun f sf hf hsf => ?_⟩
    rw [hf] at h2
    simp only at h2
    rw [hsf] at h2
    simp only [Bool.and_eq_true, decide_eq_true_eq, beq_iff_eq] at h2
    exact h2

theorem exNested_ok :
    save (objOf exNestedM) {} = .ok (savedOf (objOf exNestedM)) ∧ (savedOf (objOf exNestedM)).ok = true ∧
    NestedDomain (objOf exNestedM) ((objOf exNestedM).hdr.getD []) (fun i => i == 0) (fun i => i == 1) ∧
    NoWrap64 (savedOf (objOf exNestedM)).obj.secs (savedOf (objOf exNestedM)).obj.segs ∧
    nestedLoadSelB (savedOf (objOf exNestedM)).obj (fun i => i == 0) (fun i => i == 1) = true := by
  refine ⟨savedOf_eq _ (by decide +kernel), by decide +kernel,
    ⟨⟨by decide +kernel, by decide +kernel,
      ⟨by decide +kernel, by decide +kernel, by decide +kernel, by decide +kernel, by decide +kernel,
       by decide +kernel, by decide +kernel, by decide +kernel, by decide +kernel, by decide +kernel,
       by decide +kernel, by decide +kernel, by decide +kernel, by decide +kernel⟩,
      by decide +kernel, by decide +kernel, by decide +kernel⟩,
     by decide +kernel, by decide +kernel, by decide +kernel, by decide +kernel⟩,
    ⟨by decide +kernel, by decide +kernel⟩, by decide +kernel⟩

/-- the nested theorems on `exNestedM` (segment 0 flat, segment 1 a PT_LOAD nested in it): the reload
    succeeds, reports the saved object and gets no complaint from `validate`, for every stream kind and
    load mode; the nested segment's file range is `[0x1020, 0x1028)` inside the enclosing `[0x1000, 0x1028)` -/
example (k : StreamKind) (isLazy : Bool) :
    validate (savedOf (objOf exNestedM)).obj = [] ∧
    ∃ r2 : LoadRes, load {} { data := (savedOf (objOf exNestedM)).os.content, kind := k } isLazy = .ok r2 ∧
      r2.ok = true ∧ validate r2.obj = [] := by
  obtain ⟨h1, h2, h3, h4, h5⟩ := exNested_ok
  exact validate_silent_reloaded_nested_unconditional h1 h2 ⟨rfl, rfl⟩ (by decide) h3 h4 (nestedLoadSel_of_B h5)
    {} k isLazy rfl

example : ((savedOf (objOf exNestedM)).obj.segs.map fun g => (g.offset, g.filesz)) =
    [(0x1000#64, 0x28#64), (0x1020#64, 8#64)] := by decide +kernel

/-! ### 5. the hypotheses on the *saved* object, evaluated on the layout of the *input* object

`NoWrap64` and `AddrSeparate` speak about the object `save` leaves.  Like `layoutNW` / `layoutDomB` they can
be evaluated on the input object by running the layout (`layoutOf (preSave o)`, Lemmas/Layout.lean): the
saved sections carry the header fields of the layout result (`C04.save_secs_hdr`), the saved segments are
the layout result's. -/

/-- the header fields of a section the layout theorems talk about (`hdrOf`) -/
abbrev HKey := BitVec 64 × BitVec 64 × BitVec 32 × Nat × BitVec 64 × BitVec 64 × BitVec 64 × Bool

def nwKey (k : HKey) : Bool :=
  decide (k.2.2.2.2.1.toNat + k.2.1.toNat < 18446744073709551616) &&
    decide (k.1.toNat + k.2.1.toNat < 18446744073709551616)

def noWrap64K (ks : List HKey) (segs : List Seg) : Bool :=
  ks.all nwKey && segs.all fun g =>
    decide (g.vaddr.toNat + g.memsz.toNat < 18446744073709551616) &&
      decide (g.offset.toNat + g.filesz.toNat < 18446744073709551616)

theorem noWrap64_of_K {secs : List SecBuf} {segs : List Seg} (h : noWrap64K (secs.map hdrOf) segs = true) :
    NoWrap64 secs segs := by
  unfold noWrap64K at h
  simp only [Bool.and_eq_true, List.all_eq_true, List.mem_map, forall_exists_index, and_imp,
    forall_apply_eq_imp_iff₂, decide_eq_true_eq] at h
  refine ⟨fun b hb => ?_, fun g hg => h.2 g hg⟩
  have := h.1 b hb
  unfold nwKey hdrOf at this
  simp only [Bool.and_eq_true, decide_eq_true_eq] at this
  exact this

def addrSeparateK (ks : List HKey) (segs : List Seg) : Bool :=
  segs.all fun g => (List.range ks.length).all fun i =>
    match ks[i]? with
    | some k =>
      !(k.2.2.2.2.2.1.toNat / Spec.SHF_ALLOC % 2 == 1) || g.secs.any (fun idx => idx.toNat == i) ||
        !(decide (g.vaddr.toNat ≤ k.2.2.2.2.1.toNat) &&
          decide (k.2.2.2.2.1.toNat + k.2.1.toNat ≤ g.vaddr.toNat + g.memsz.toNat) &&
          decide (k.2.2.2.2.1.toNat < g.vaddr.toNat + g.memsz.toNat))
    | none => true

theorem addrSeparate_of_K {secs : List SecBuf} {segs : List Seg} (h : addrSeparateK (secs.map hdrOf) segs = true) :
    AddrSeparate secs segs := by
  unfold addrSeparateK at h
  simp only [List.all_eq_true, List.length_map] at h
  intro g hg i hi b hb hal hnm
  have := h g hg i hi
  rw [List.getElem?_map, show secs[i]? = some b from hb] at this
  simp only [Option.map_some, hdrOf, Bool.or_eq_true, Bool.not_eq_true', List.any_eq_true, beq_iff_eq] at this
  rcases this with (h1 | ⟨idx, hidx, e⟩) | h3
  · unfold isAlloc at hal; rw [hal] at h1; cases h1
  · exact absurd e (hnm idx hidx)
  · unfold inAddrRange; exact h3

/-- `NoWrap64` of the object `save` will leave, evaluated on the input object -/
def noWrap64InB (o : Obj) (hd : Bytes) : Bool :=
  match layoutOf (preSave o) hd with
  | .ok (some res) => noWrap64K (res.secs.map hdrOf) res.segs
  | _ => true

/-- `AddrSeparate` of the object `save` will leave, evaluated on the input object -/
def addrSeparateInB (o : Obj) (hd : Bytes) : Bool :=
  match layoutOf (preSave o) hd with
  | .ok (some res) => addrSeparateK (res.secs.map hdrOf) res.segs
  | _ => true

/-- **noWrap64_of_input** : `NoWrap64` of the saved object from a decidable hypothesis on the input
    object (both classes) -/
theorem noWrap64_of_input {o : Obj} {os : OStream} {r : SaveRes} {hd : Bytes}
    (hs : save o os = .ok r) (hok : r.ok = true) (hh : o.hdr = some hd) (h : noWrap64InB o hd = true) :
    NoWrap64 r.obj.secs r.obj.segs := by
  obtain ⟨res, hl, hsegs, -, he⟩ := C04.save_secs_hdr o os r hd hs hok hh
  unfold noWrap64InB at h
  rw [hl] at h
  simp only at h
  rw [← he, ← hsegs] at h
  exact noWrap64_of_K h

theorem addrSeparate_of_input {o : Obj} {os : OStream} {r : SaveRes} {hd : Bytes}
    (hs : save o os = .ok r) (hok : r.ok = true) (hh : o.hdr = some hd) (h : addrSeparateInB o hd = true) :
    AddrSeparate r.obj.secs r.obj.segs := by
  obtain ⟨res, hl, hsegs, -, he⟩ := C04.save_secs_hdr o os r hd hs hok hh
  unfold addrSeparateInB at h
  rw [hl] at h
  simp only at h
  rw [← he, ← hsegs] at h
  exact addrSeparate_of_K h

/-- **save_load_save_flat_input** (C06) : `save_load_save_flat` with EVERY hypothesis on the object to be
    saved (`ResaveDomain`, `noWrap64InB`, `addrSeparateInB` — all decidable) and on the stream written to. -/
theorem save_load_save_flat_input {o : Obj} {os : OStream} {r : SaveRes} {hd : Bytes}
    (hs : save o os = .ok r) (hok : r.ok = true) (hg : os.Good) (hos : os.content.length < 9223372036854775808)
    (D : ResaveDomain o hd) (hw : noWrap64InB o hd = true) (hsep : addrSeparateInB o hd = true)
    (o2 : Obj) (k : StreamKind) (isLazy : Bool) (htr2 : o2.trans = []) :
    ∃ (r2 : LoadRes) (r3 : SaveRes), load o2 { data := r.os.content, kind := k } isLazy = .ok r2 ∧ r2.ok = true ∧
      save r2.obj os = .ok r3 ∧ r3.ok = true ∧ r3.os = r.os :=
  save_load_save_flat hs hok hg hos D (noWrap64_of_input hs hok D.hdr hw) (addrSeparate_of_input hs hok D.hdr hsep)
    o2 k isLazy htr2

/-- **validate_silent_reloaded_flat_input** (C20) / **loaded_satisfies_Loaded_flat_input** (C05) : the `_flat`
    theorems of Props/Compose.lean with `NoWrap64` replaced by the input-side `noWrap64InB` -/
theorem validate_silent_reloaded_flat_input {o : Obj} {os : OStream} {r : SaveRes} {hd : Bytes}
    (hs : save o os = .ok r) (hok : r.ok = true) (hg : os.Good) (hos : os.content.length < 9223372036854775808)
    (D : FlatDomain o hd) (hw : noWrap64InB o hd = true)
    (o2 : Obj) (k : StreamKind) (isLazy : Bool) (htr2 : o2.trans = []) :
    validate r.obj = [] ∧
    ∃ r2 : LoadRes, load o2 { data := r.os.content, kind := k } isLazy = .ok r2 ∧ r2.ok = true ∧
      validate r2.obj = [] :=
  validate_silent_reloaded_flat hs hok hg hos D (noWrap64_of_input hs hok D.hdr hw) o2 k isLazy htr2

theorem loaded_satisfies_Loaded_flat_input {o : Obj} {os : OStream} {r : SaveRes} {hd : Bytes}
    (hs : save o os = .ok r) (hok : r.ok = true) (hg : os.Good) (hos : os.content.length < 9223372036854775808)
    (D : FlatDomain o hd) (hw : noWrap64InB o hd = true)
    (o2 : Obj) (k : StreamKind) (htr2 : o2.trans = []) :
    ∃ r2 : LoadRes, load o2 { data := r.os.content, kind := k } false = .ok r2 ∧ r2.ok = true ∧
      r2.obj.cls = o.cls ∧ r2.obj.enc = o.enc ∧ r2.obj.trans = [] ∧ r2.obj.hdr = r.obj.hdr ∧
      C05.Loaded o.cls o.enc r2.obj.secs r2.obj.segs r.os.content :=
  loaded_satisfies_Loaded_flat hs hok hg hos D (noWrap64_of_input hs hok D.hdr hw) o2 k htr2

/-- non-vacuity: the two example objects meet the input-side forms -/
example : noWrap64InB (objOf exTwoM) ((objOf exTwoM).hdr.getD []) = true ∧
    addrSeparateInB (objOf exTwoM) ((objOf exTwoM).hdr.getD []) = true ∧
    noWrap64InB (objOf exFlatM) ((objOf exFlatM).hdr.getD []) = true ∧
    addrSeparateInB (objOf exFlatM) ((objOf exFlatM).hdr.getD []) = true := by
  refine ⟨by decide +kernel, by decide +kernel, by decide +kernel, by decide +kernel⟩

/-- `save_load_save_flat_input` on `exTwoM`: every hypothesis is a decidable fact about the object built
    with the API -/
example (k : StreamKind) (isLazy : Bool) :
    ∃ (r2 : LoadRes) (r3 : SaveRes),
      load {} { data := (savedOf (objOf exTwoM)).os.content, kind := k } isLazy = .ok r2 ∧ r2.ok = true ∧
      save r2.obj {} = .ok r3 ∧ r3.ok = true ∧ r3.os = (savedOf (objOf exTwoM)).os :=
  save_load_save_flat_input exTwo_ok.saved exTwo_ok.ok ⟨rfl, rfl⟩ (by decide)
    ⟨exTwo_ok.dom, exTwo_resave.cov, memberDomain_of_B exTwo_resave.members, exTwo_resave.res,
      Or.inl exTwo_resave.front, C06.resaveOkR_of_B exTwo_resave.resave⟩
    (by decide +kernel) (by decide +kernel) {} k isLazy rfl

/-- `loaded_satisfies_Loaded_nested` on `exNestedM` -/
example (k : StreamKind) :
    ∃ r2 : LoadRes, load {} { data := (savedOf (objOf exNestedM)).os.content, kind := k } false = .ok r2 ∧
      r2.ok = true ∧
      C05.Loaded (objOf exNestedM).cls (objOf exNestedM).enc r2.obj.secs r2.obj.segs (savedOf (objOf exNestedM)).os.content := by
  obtain ⟨h1, h2, h3, h4, -⟩ := exNested_ok
  obtain ⟨r2, a, b, -, -, -, -, L⟩ := loaded_satisfies_Loaded_nested h1 h2 ⟨rfl, rfl⟩ (by decide) h3 h4 {} k rfl
  exact ⟨r2, a, b, L⟩

/-! ### 6. save ∘ load ∘ save with nested segments (member lists checked, not characterised) -/

/-- **save_load_save_of_members_nested** (C06) : objects with flat and nested segments (`NestedDomain`).
    As `save_load_save_of_members`; for nested segments `MembersRecomputed` (decidable) is not derived from
    structural hypotheses — see `membersRecomputedInB` for its input-side form. -/
theorem save_load_save_of_members_nested {o : Obj} {os : OStream} {r : SaveRes} {hd : Bytes} {selE selN : Nat → Bool}
    (hs : save o os = .ok r) (hok : r.ok = true) (hg : os.Good) (hos : os.content.length < 9223372036854775808)
    (D : NestedDomain o hd selE selN) (hw : NoWrap64 r.obj.secs r.obj.segs)
    (hres : ∀ a ∈ o.secs, ResidentFull a)
    (hfront : C06.FrontOk o.segs) (hrs : C06.ResaveOkR o hd)
    (hmem : MembersRecomputed r.obj.secs r.obj.segs)
    (o2 : Obj) (k : StreamKind) (isLazy : Bool) (htr2 : o2.trans = []) :
    ∃ (r2 : LoadRes) (r3 : SaveRes), load o2 { data := r.os.content, kind := k } isLazy = .ok r2 ∧ r2.ok = true ∧
      save r2.obj os = .ok r3 ∧ r3.ok = true ∧ r3.os = r.os := by
  obtain ⟨hF, r2, hhF, hload, hok2, R⟩ := reload_reports_saved_nested hs hok hg hos D hw o2 k isLazy htr2
  obtain ⟨r3, h3, hok3, hos3⟩ := save_load_save_core hs hok D.toComposeDomain hres hfront hrs hmem hhF hload R
  exact ⟨r2, r3, hload, hok2, h3, hok3, hos3⟩

/-- the loader's membership rule on header-field tuples -/
def specMembersK (ks : List HKey) (g : Seg) : List Nat :=
  (List.range ks.length).filter fun i =>
    match ks[i]? with
    | some k => Spec.inSegment k.2.2.2.2.2.1.toNat k.2.2.2.2.1.toNat k.1.toNat k.2.1.toNat
        g.stype.toNat g.offset.toNat g.vaddr.toNat g.filesz.toNat g.memsz.toNat
    | none => false

theorem specMembers_eq_K (secs : List SecBuf) (g : Seg) : specMembers secs g = specMembersK (secs.map hdrOf) g := by
  unfold specMembers specMembersK
  rw [List.length_map]
  apply List.filter_congr
  intro i _
  rw [List.getElem?_map]
  cases secs[i]? <;> rfl

def membersRecomputedK (ks : List HKey) (segs : List Seg) : Bool :=
  segs.all fun g => specMembersK ks g == g.secs.map (·.toNat)

/-- `MembersRecomputed` of the object `save` will leave, evaluated on the input object -/
def membersRecomputedInB (o : Obj) (hd : Bytes) : Bool :=
  match layoutOf (preSave o) hd with
  | .ok (some res) => membersRecomputedK (res.secs.map hdrOf) res.segs
  | _ => true

theorem membersRecomputed_of_input {o : Obj} {os : OStream} {r : SaveRes} {hd : Bytes}
    (hs : save o os = .ok r) (hok : r.ok = true) (hh : o.hdr = some hd) (h : membersRecomputedInB o hd = true) :
    MembersRecomputed r.obj.secs r.obj.segs := by
  obtain ⟨res, hl, hsegs, -, he⟩ := C04.save_secs_hdr o os r hd hs hok hh
  unfold membersRecomputedInB at h
  rw [hl] at h
  simp only at h
  rw [← he, ← hsegs] at h
  unfold membersRecomputedK at h
  simp only [List.all_eq_true, beq_iff_eq] at h
  intro g hg
  rw [specMembers_eq_K]
  exact h g hg

/-- **save_load_save_nested_input** (C06) : objects with flat and nested segments, every hypothesis
    decidable and on the object to be saved (`NestedDomain`, data in memory, `FrontOk`, `ResaveOkR`,
    `noWrap64InB`, `membersRecomputedInB`). -/
theorem save_load_save_nested_input {o : Obj} {os : OStream} {r : SaveRes} {hd : Bytes} {selE selN : Nat → Bool}
    (hs : save o os = .ok r) (hok : r.ok = true) (hg : os.Good) (hos : os.content.length < 9223372036854775808)
    (D : NestedDomain o hd selE selN) (hw : noWrap64InB o hd = true)
    (hres : ∀ a ∈ o.secs, ResidentFull a)
    (hfront : C06.FrontOk o.segs) (hrs : C06.ResaveOkR o hd)
    (hmem : membersRecomputedInB o hd = true)
    (o2 : Obj) (k : StreamKind) (isLazy : Bool) (htr2 : o2.trans = []) :
    ∃ (r2 : LoadRes) (r3 : SaveRes), load o2 { data := r.os.content, kind := k } isLazy = .ok r2 ∧ r2.ok = true ∧
      save r2.obj os = .ok r3 ∧ r3.ok = true ∧ r3.os = r.os :=
  save_load_save_of_members_nested hs hok hg hos D (noWrap64_of_input hs hok D.hdr hw) hres hfront hrs
    (membersRecomputed_of_input hs hok D.hdr hmem) o2 k isLazy htr2

/-- non-vacuity: `exNestedM` (a PT_LOAD nested in a PT_LOAD) -/
example (k : StreamKind) (isLazy : Bool) :
    ∃ (r2 : LoadRes) (r3 : SaveRes),
      load {} { data := (savedOf (objOf exNestedM)).os.content, kind := k } isLazy = .ok r2 ∧ r2.ok = true ∧
      save r2.obj {} = .ok r3 ∧ r3.ok = true ∧ r3.os = (savedOf (objOf exNestedM)).os := by
  obtain ⟨h1, h2, h3, -, -⟩ := exNested_ok
  have hfront : Sv.NoZeroOffset (objOf exNestedM).segs := by decide +kernel
  exact save_load_save_nested_input h1 h2 ⟨rfl, rfl⟩ (by decide) h3 (by decide +kernel) (by decide +kernel)
    (Or.inl hfront) (C06.resaveOkR_of_B (by decide +kernel)) (by decide +kernel) {} k isLazy rfl

end ElfioVerif.Compose
