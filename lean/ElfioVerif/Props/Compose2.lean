/-
save ∘ load ∘ save for objects WITH (flat) segments — property C06, second half.

 1. `save_load_save_of_members` : for a flat writer-domain object (`FlatDomain`), under the side conditions
    of `C06.save_twice_runs` (`ResaveOkR` = no F13 trigger, ELF32 fits, no cursor wrap; `FrontOk`), if the
    loader's membership rule evaluated on the *saved* object returns the declared member lists
    (`MembersRecomputed`, decidable), then: save, `load` the bytes (eager or lazy, either stream kind),
    save the loaded object into the same initial stream — the second save succeeds and produces the same
    stream, byte for byte.  Composition of `reload_reports_saved_flat` (what the loader reports),
    `RoundTrip.load_segs_offsetSet`, `C06.save_twice_runs` (the saved object re-saves to the same result)
    and `RoundTrip.save_congr` (`save` cannot tell the reloaded object from the saved one).
 2. `members_recomputed` : `MembersRecomputed` from hypotheses on the input object (members non-empty,
    allocated, listed in ascending index order, TLS flag consistent with the segment type; section 0 at
    offset 0) and one hypothesis on the saved object (`AddrSeparate`: an allocated section that is not a
    declared member of a segment does not lie in that segment's address range).
 3. `save_load_save_flat` : 1 and 2 together.
-/
import ElfioVerif.Lemmas.RoundTrip2
import ElfioVerif.Props.Compose
set_option linter.unusedSimpArgs false
namespace ElfioVerif.Compose
open ElfioVerif Gen Sv RoundTrip

/-- the loader's membership rule (`Spec.inSegment`), evaluated on the saved object, returns exactly the
    declared member list of every segment, in the declared order -/
def MembersRecomputed (secs : List SecBuf) (segs : List Seg) : Prop :=
  ∀ g ∈ segs, specMembers secs g = g.secs.map (·.toNat)

instance (secs : List SecBuf) (segs : List Seg) : Decidable (MembersRecomputed secs segs) := by
  unfold MembersRecomputed; infer_instance

/-- the auxiliary fields of the segments of `segs`, by position -/
def auxOf (segs : List Seg) (i : Nat) : SegAux :=
  match segs[i]? with
  | some g => { data := g.data, isLazy := g.isLazy, isLoaded := g.isLoaded, streamSize := g.streamSize }
  | none => {}

theorem seg_eq_of_fields {g g2 : Seg} (h1 : g2.stype = g.stype) (h2 : g2.flags = g.flags) (h3 : g2.offset = g.offset)
    (h4 : g2.vaddr = g.vaddr) (h5 : g2.paddr = g.paddr) (h6 : g2.filesz = g.filesz) (h7 : g2.memsz = g.memsz)
    (h8 : g2.align = g.align) (h9 : g2.index = g.index) (h10 : g2.secs = g.secs) (h11 : g2.offsetSet = g.offsetSet) :
    g2 = { g with data := g2.data, isLazy := g2.isLazy, isLoaded := g2.isLoaded, streamSize := g2.streamSize } := by
  cases g; cases g2
  simp only at h1 h2 h3 h4 h5 h6 h7 h8 h9 h10 h11
  subst h1 h2 h3 h4 h5 h6 h7 h8 h9 h10 h11
  rfl

/-- the segments of a reloaded object are the saved ones up to auxiliary fields, once the recomputed
    member lists are the declared ones -/
theorem reloaded_segs {c : Cls} {enc : Enc} {h : Bytes} {secs : List SecBuf} {segs : List Seg} {img : Bytes}
    {isLazy : Bool} {o2 : Obj} (R : Reloaded c enc h secs segs img isLazy o2)
    (hidx : ∀ (k : Nat) g, segs[k]? = some g → g.index = k)
    (hset : ∀ g ∈ segs, g.offsetSet = true) (hset2 : ∀ g ∈ o2.segs, g.offsetSet = true)
    (hmem : MembersRecomputed secs segs) :
    o2.segs = segs.map (reAux (auxOf o2.segs)) := by
  apply List.ext_getElem?
  intro j
  rw [List.getElem?_map]
  cases hg2 : o2.segs[j]? with
  | none =>
    have : segs.length ≤ j := by
      rw [← R.nseg]
      rcases Nat.lt_or_ge j o2.segs.length with h' | h'
      · rw [List.getElem?_eq_getElem h'] at hg2; cases hg2
      · exact h'
    rw [List.getElem?_eq_none this]; rfl
  | some g2 =>
    have hj : j < segs.length := by rw [← R.nseg]; exact getElem?_lt hg2
    have hg := List.getElem?_eq_getElem hj
    rw [hg]
    simp only [Option.map_some, Option.some.injEq]
    obtain ⟨sa, hm, -⟩ := R.seg j _ g2 hg hg2
    have hgm : segs[j] ∈ segs := List.getElem_mem hj
    rw [hmem _ hgm] at hm
    have hsecs : g2.secs = (segs[j]).secs :=
      (List.map_inj_right (fun a b hab => BitVec.eq_of_toNat_eq hab)).1 hm
    have hos : g2.offsetSet = (segs[j]).offsetSet := by
      rw [hset _ hgm, hset2 _ (List.mem_of_getElem? hg2)]
    have e := seg_eq_of_fields sa.stype sa.flags sa.offset sa.vaddr sa.paddr sa.filesz sa.memsz sa.align sa.index
      hsecs hos
    rw [e]
    unfold reAux auxOf
    rw [hidx j _ hg, hg2]

/-- **save_load_save_of_members** (C06) : a flat writer-domain object whose section data are in memory;
    `ResaveOkR` / `FrontOk` (the side conditions of `C06.save_twice_runs`, on the input object);
    `MembersRecomputed` on the saved object.  Saving, loading the bytes with the model's loader (eager
    or lazy, either stream kind, into any object without address translation) and saving the loaded
    object into the same initial stream succeeds and yields the same stream. -/
theorem save_load_save_of_members {o : Obj} {os : OStream} {r : SaveRes} {hd : Bytes}
    (hs : save o os = .ok r) (hok : r.ok = true) (hg : os.Good) (hos : os.content.length < 9223372036854775808)
    (D : FlatDomain o hd) (hw : NoWrap64 r.obj.secs r.obj.segs)
    (hres : ∀ a ∈ o.secs, ResidentFull a)
    (hfront : C06.FrontOk o.segs) (hrs : C06.ResaveOkR o hd)
    (hmem : MembersRecomputed r.obj.secs r.obj.segs)
    (o2 : Obj) (k : StreamKind) (isLazy : Bool) (htr2 : o2.trans = []) :
    ∃ (r2 : LoadRes) (r3 : SaveRes), load o2 { data := r.os.content, kind := k } isLazy = .ok r2 ∧ r2.ok = true ∧
      save r2.obj os = .ok r3 ∧ r3.ok = true ∧ r3.os = r.os := by
  obtain ⟨hF, r2, hhF, hload, hok2, R⟩ := reload_reports_saved_flat hs hok hg hos D hw o2 k isLazy htr2
  have hsegIdx := idx_of_B Seg.index o.segs D.input.segIdx
  have hsecIdx := idx_of_B SecBuf.index o.secs D.input.secIdx
  obtain ⟨fsec, fseg, ec, ee, et⟩ := C05.save_writes_fields hs hok hsegIdx
  obtain ⟨_, _, _, iseg, _, _⟩ := saved_indices hs hok hsegIdx hsecIdx
  have hlen : ehdrSize o.cls ≤ hd.length := by rw [D.input.ident.len]; exact Nat.le_refl _
  -- the saved object re-saves to the same result
  obtain ⟨hagain, hmemset, hoffset⟩ := C06.save_twice_runs D.hdr hlen hsegIdx hfront hrs hs hok
  -- the saved sections are resident
  have hresY : ∀ b ∈ r.obj.secs, ResidentFull b := by
    intro b hb
    obtain ⟨i, hi⟩ := List.getElem?_of_mem hb
    have hil : i < o.secs.length := by rw [← fsec.1]; exact getElem?_lt hi
    exact (fileBytesOf_saved (fsec.2 i _ b (List.getElem?_eq_getElem hil) hi)
      (hres _ (List.getElem_mem hil))).1
  have hall := preRes_outRel (X := r2.obj) (Y := r.obj) R hresY
  obtain ⟨alen, aall⟩ := All2.getElem? hall
  have fX := preRes_frame r2.obj
  have fY := preRes_frame r.obj
  -- segments
  have hsegs := reloaded_segs R iseg hoffset (load_segs_offsetSet hload) hmem
  -- sections: members of segments have their address set on both sides
  let S : Nat → Prop := fun i => ∃ g ∈ r.obj.segs, ∃ idx ∈ g.secs, idx.toNat = i
  have hrel : LRel S (preRes r2.obj).secs (preRes r.obj).secs := by
    refine ⟨alen.symm, fun i x y hx hy => ⟨aall i x y hx hy, ?_⟩⟩
    intro hS hnn
    obtain ⟨g, hgm, idx, hidx, rfl⟩ := hS
    have hiX : idx.toNat < r2.obj.secs.length := by rw [← fX.1]; exact getElem?_lt hx
    have hiY : idx.toNat < r.obj.secs.length := by rw [← fY.1]; exact getElem?_lt hy
    have rx := fX.2 _ _ _ (List.getElem?_eq_getElem hiX) hx
    have ry := fY.2 _ _ _ (List.getElem?_eq_getElem hiY) hy
    obtain ⟨sa, -, -⟩ := R.sec _ _ _ (List.getElem?_eq_getElem hiY) (List.getElem?_eq_getElem hiX)
    have e1 : x.addrSet = (r2.obj.secs[idx.toNat]).addrSet := by rw [rx.rest]
    have e2 : y.addrSet = (r.obj.secs[idx.toNat]).addrSet := by rw [ry.rest]
    have e3 : y.stype = (r.obj.secs[idx.toNat]).stype := by rw [ry.rest]
    rw [e1, e2, sa.addrSet]
    exact (hmemset g hgm idx hidx _ (List.getElem?_eq_getElem hiY) (by rw [← e3]; exact hnn)).symm
  obtain ⟨r3, h3, hok3, hos3⟩ := save_congr (X := r2.obj) (Y := r.obj) S (auxOf r2.obj.segs)
    (R.clsEq.trans ec.symm) (R.encEq.trans ee.symm) (by rw [R.trans, et, D.tr]) R.hdr hhF hsegs hrel
    (fun g hgm idx hidx => ⟨g, hgm, idx, hidx, rfl⟩) hagain hok
  exact ⟨r2, r3, hload, hok2, h3, hok3, hos3⟩

end ElfioVerif.Compose
