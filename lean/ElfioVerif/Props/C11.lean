/-
C11 — relocation entries round-trip in both formats, classes and byte orders.

Statements use: the model (Model/Reloc.lean, built from the generated sites), the gABI reference
codec (Spec/Reloc.lean), the C07 section invariant `SecBuf.Inv`, and explicit decidable bounds.
-/
import ElfioVerif.Lemmas.Reloc
namespace ElfioVerif
open Gen Spec

namespace C11
open Reloc

/-! ### the reference codec -/

theorem encodeRaw_length (c : Cfg) (k : RelKind) (o i : Nat) (a : Int) :
    (encodeRaw c k o i a).length = entSize c.cls k := by
  cases k <;> simp [encodeRaw, Spec.entSize, hasAddend] <;> omega

theorem encodeEntry_length (c : Cfg) (k : RelKind) (e : RelocEntry) :
    (encodeEntry c k e).length = entSize c.cls k := encodeRaw_length ..

theorem encodeTable_length (c : Cfg) (k : RelKind) (es : List RelocEntry) :
    (encodeRelTable c k es).length = es.length * entSize c.cls k :=
  flatMap_length _ _ (encodeEntry_length c k) es

/-- decoding a record decodes its three members -/
theorem decodeEntry_raw (c : Cfg) (k : RelKind) (o i : Nat) (a : Int) :
    decodeEntry c k (encodeRaw c k o i a) =
      { offset := o % 2 ^ (8 * wordBytes c.cls)
        sym := rSym c.cls (i % 2 ^ (8 * wordBytes c.cls))
        type := rType c.cls (i % 2 ^ (8 * wordBytes c.cls))
        addend := if hasAddend k then untwos (wordBytes c.cls) (twos (wordBytes c.cls) a) else 0 } := by
  have h1 : ∀ x, (encodeInt c.enc (wordBytes c.cls) x).length = wordBytes c.cls := fun x => encodeInt_length ..
  have s0 : ∀ (A B C : Bytes), A.length = wordBytes c.cls → slice (A ++ B ++ C) 0 (wordBytes c.cls) = A := by
    intro A B C hA
    rw [List.append_assoc, slice_append_left _ _ _ _ (by omega)]
    have := slice_all A; rw [hA] at this; exact this
  have s1 : ∀ (A B C : Bytes), A.length = wordBytes c.cls → B.length = wordBytes c.cls →
      slice (A ++ B ++ C) (wordBytes c.cls) (wordBytes c.cls) = B := by
    intro A B C hA hB
    rw [List.append_assoc, slice_append_right _ _ _ _ (by omega), hA, Nat.sub_self,
      slice_append_left _ _ _ _ (by omega)]
    have := slice_all B; rw [hB] at this; exact this
  have s2 : ∀ (A B C : Bytes), A.length = wordBytes c.cls → B.length = wordBytes c.cls →
      C.length = wordBytes c.cls → slice (A ++ B ++ C) (2 * wordBytes c.cls) (wordBytes c.cls) = C := by
    intro A B C hA hB hC
    rw [slice_append_right _ _ _ _ (by simp; omega)]
    have : 2 * wordBytes c.cls - (A ++ B).length = 0 := by simp; omega
    rw [this]
    have := slice_all C; rw [hC] at this; exact this
  unfold decodeEntry encodeRaw
  simp only []
  rw [s0 _ _ _ (h1 _), s1 _ _ _ (h1 _) (h1 _)]
  simp only [decode_encodeInt]
  cases k
  · simp [hasAddend]
  · simp only [hasAddend, if_true]
    rw [s2 _ _ _ (h1 _) (h1 _) (h1 _), decode_encodeInt]
    simp only [RelocEntry.mk.injEq, true_and]
    unfold untwos
    simp only [Nat.mod_mod]

theorem rInfo_roundtrip (c : Cls) (e : RelocEntry) (h : Fits c e) :
    rSym c (rInfo c e.sym e.type % 2 ^ (8 * wordBytes c)) = e.sym ∧
    rType c (rInfo c e.sym e.type % 2 ^ (8 * wordBytes c)) = e.type := by
  cases c <;> simp only [Fits, rSym, rType, rInfo, wordBytes, Nat.reducePow, Nat.reduceMul] at * <;> omega

/-- **gABI codec round trip** : decoding an encoded entry gives the entry back, with offset and
    addend reduced to the class width, whenever symbol and type are in the ranges of the packing -/
theorem spec_roundtrip (c : Cfg) (k : RelKind) (e : RelocEntry) (h : Fits c.cls e) :
    decodeEntry c k (encodeEntry c k e) = normalize c.cls k e := by
  unfold encodeEntry
  rw [decodeEntry_raw]
  obtain ⟨h1, h2⟩ := rInfo_roundtrip c.cls e h
  simp only [normalize, h1, h2]

/-- re-encoding what was decoded from a record gives the record back (both packings are bijective
    on the info word) -/
theorem rInfo_unpack (c : Cls) (i : Nat) : rInfo c (rSym c i) (rType c i) = i := by
  cases c <;> simp only [rInfo, rSym, rType] <;> omega

/-! ### reading one entry -/

theorem resident_buf {b : SecBuf} (h : b.Resident) (hs : b.size.toNat ≠ 0) :
    ∃ a, b.data = some a ∧ b.size.toNat ≤ b.dataSize.toNat ∧ b.dataSize.toNat ≤ a.length ∧
      b.content = a.take b.size.toNat := by
  rcases h.buf with ⟨_, e, _⟩ | ⟨a, e, e1, e2⟩
  · rw [e] at hs; simp at hs
  · refine ⟨a, e, e1, e2, ?_⟩
    rw [C07.content_resident h]; simp [SecBuf.view, e]

theorem index_bound {idx E size : Nat} (h : idx < size / E) : idx * E + E ≤ size ∧ 0 < E := by
  have hE : 0 < E := by
    rcases Nat.eq_zero_or_pos E with h0 | h0
    · rw [h0, Nat.div_zero] at h; omega
    · exact h0
  have : (idx + 1) * E ≤ size := (Nat.le_div_iff_mul_le hE).mp h
  rw [Nat.succ_mul] at this; exact ⟨this, hE⟩

theorem field_read (site : String) (enc : Enc) (a : Bytes) (n off S fo w : Nat) (hn : n ≤ a.length)
    (hS : off + S ≤ n) (hf : fo + w ≤ S) (hw : w = 4 ∨ w = 8) :
    rdRange site (some a) (off + fo) w = .ok (slice a (off + fo) w) ∧
    rdField enc (slice a (off + fo) w) = decodeInt enc (slice (slice (a.take n) off S) fo w) ∧
    decodeInt enc (slice (slice (a.take n) off S) fo w) < 2 ^ (8 * w) := by
  have e1 : slice (slice (a.take n) off S) fo w = slice a (off + fo) w := by
    rw [slice_slice _ _ _ _ _ hf, slice_take (by omega)]
  have hl : (slice a (off + fo) w).length = w := slice_length_of_le (by omega)
  refine ⟨rdRange_some_ok (by omega), ?_, ?_⟩
  · rw [e1]; exact rdField_eq enc _ (by rw [hl]; rcases hw with h | h <;> simp [h])
  · rw [e1]; have := decodeInt_lt enc (slice a (off + fo) w); rwa [hl] at this

theorem entSize_eq (c : Cls) (k : RelKind) :
    Spec.entSize c k = (if hasAddend k then 3 else 2) * wordBytes c := by
  cases k <;> simp [Spec.entSize, hasAddend]

/-- `generic_get_entry_rel/rela<T>` on a section with the invariant: no fault, and the result is the
    gABI decoding of the record at `index * entry_size` -/
theorem getGeneric_spec {c : Cls} {k : RelKind} {ops : RecOps} (ok : OpsOk c k ops) (enc : Enc) (b : SecBuf)
    (hI : b.Inv) (idx : BitVec 64) (hE : ops.size ≤ b.entSize.toNat)
    (hidx : idx.toNat < b.size.toNat / b.entSize.toNat) :
    ∃ e, getGeneric ops enc b idx = .ok (b.getData, some e) ∧
      e.toSpec = decodeEntry ⟨c, enc⟩ k (slice b.content (idx.toNat * b.entSize.toNat) ops.size) := by
  obtain ⟨hr, hcont⟩ := getData_inv hI
  obtain ⟨g1, g2, g3, g4⟩ := getData_static b
  obtain ⟨hib, hEpos⟩ := index_bound hidx
  have hpos := ok.size_pos
  have hsz : b.getData.size.toNat ≠ 0 := by rw [g4]; omega
  obtain ⟨a, hd, hs1, hs2, hca⟩ := resident_buf hr hsz
  rw [g4] at hs1 hca; rw [hcont] at hca
  have hlt := b.size.isLt
  simp only [Nat.reducePow] at hlt
  have hoff : (ops.getOff idx b.getData.entSize).toNat = idx.toNat * b.entSize.toNat := by
    rw [ok.getOff, g3, BitVec.toNat_mul]
    simp only [Nat.reducePow]
    apply Nat.mod_eq_of_lt; omega
  have hsmall : ops.entsizeSmall b.entSize = false := by
    cases h : ops.entsizeSmall b.entSize with
    | false => rfl
    | true => have := (ok.entsizeSmall _).mp h; omega
  have hW := wordBytes_cases c
  have hSz : ops.size = (if hasAddend k then 3 else 2) * wordBytes c := by rw [ok.size, entSize_eq]
  obtain ⟨r1, f1, l1⟩ := field_read "get_entry/r_offset" enc a b.size.toNat (idx.toNat * b.entSize.toNat)
    ops.size 0 (wordBytes c) (by omega) (by omega) (by rw [hSz]; split <;> omega) hW
  obtain ⟨r2, f2, l2⟩ := field_read "get_entry/r_info" enc a b.size.toNat (idx.toNat * b.entSize.toNat)
    ops.size (wordBytes c) (wordBytes c) (by omega) (by omega) (by rw [hSz]; split <;> omega) hW
  rw [← hca] at f1 f2 l1 l2
  unfold getGeneric
  simp only [hsmall, Bool.false_eq_true, if_false, hoff, hd, ok.offsetOff, ok.offsetW, ok.infoOff, ok.infoW]
  cases k with
  | rel =>
    have hna : ops.hasAddend = false := by rw [ok.hasAddend]; rfl
    simp only [hna, r1, r2, bind, Except.bind, pure, Except.pure, Bool.false_eq_true, if_false]
    refine ⟨_, rfl, ?_⟩
    have ga := ok.getAddend (rdField enc []) (by
      have : rdField enc [] = 0 := by cases enc <;> rfl
      rw [this]; exact Nat.pow_pos (by decide))
    simp only [hna, Bool.false_eq_true, if_false] at ga
    simp only [Entry.toSpec, decodeEntry, hasAddend, Bool.false_eq_true, if_false, f1, f2,
      ok.getOffset _ l1, ok.rSym _ l2, ok.rType _ l2, ga]
  | rela =>
    have hya : ops.hasAddend = true := by rw [ok.hasAddend]; rfl
    obtain ⟨r3, f3, l3⟩ := field_read "get_entry/r_addend" enc a b.size.toNat (idx.toNat * b.entSize.toNat)
      ops.size (2 * wordBytes c) (wordBytes c) (by omega) (by omega) (by rw [hSz]; simp [hasAddend]; omega) hW
    rw [← hca] at f3 l3
    simp only [hya, if_true, ok.addendOff hya, ok.addendW hya, r1, r2, r3, bind, Except.bind, pure, Except.pure]
    refine ⟨_, rfl, ?_⟩
    have ga := ok.getAddend _ l3
    simp only [hya, if_true] at ga
    simp only [Entry.toSpec, decodeEntry, hasAddend, if_true, f1, f2, f3,
      ok.getOffset _ l1, ok.rSym _ l2, ok.rType _ l2, ga]

/-- a well-shaped relocation table section: the C07 invariant, the class, the section type of the
    table kind, and an entry size that is at least `sizeof(T)` -/
structure RelocSec (c : Cls) (k : RelKind) (b : SecBuf) : Prop where
  inv : b.Inv
  cls : b.cls = c
  stype : b.stype = shtOf k
  entSize : Spec.entSize c k ≤ b.entSize.toNat

/-- the top-level `get_entry` reaches the instantiation for (class, section type) -/
theorem getEntry_dispatch (c : Cls) (k : RelKind) (enc : Enc) (b : SecBuf) (hc : b.cls = c)
    (ht : b.stype = shtOf k) (idx : BitVec 64) (hidx : idx.toNat < b.size.toNat / b.entSize.toNat) :
    getEntry enc b idx = getGeneric (opsOf c k) enc b idx := by
  have hn : reloc_get_idx_oob idx (entriesNumV b) = false := by
    rw [get_idx_oob, entriesNumV_toNat]; simp; omega
  unfold getEntry
  simp only [entriesNum_ok, bind, Except.bind, hn, Bool.false_eq_true, if_false, hc, ht]
  cases c <;> cases k <;>
    simp [is32_c32.1, is32_c64.1, shtOf, opsOf, reloc_get_is_rel32, reloc_get_is_rela32, reloc_get_is_rel64,
      reloc_get_is_rela64, sht_rel_ne_rela]

/-- **get_entry decodes** : on a relocation table with the invariant, `get_entry(index)` for a valid
    index succeeds without leaving the buffer and returns the gABI decoding of record `index` -/
theorem get_refines (c : Cls) (k : RelKind) (enc : Enc) (b : SecBuf) (hR : RelocSec c k b) (idx : BitVec 64)
    (hidx : idx.toNat < b.size.toNat / b.entSize.toNat) :
    ∃ e, getEntry enc b idx = .ok (b.getData, some e) ∧
      e.toSpec = decodeEntry ⟨c, enc⟩ k (slice b.content (idx.toNat * b.entSize.toNat) (Spec.entSize c k)) := by
  rw [getEntry_dispatch c k enc b hR.cls hR.stype idx hidx]
  have ok := opsOk c k
  have := getGeneric_spec ok enc b hR.inv idx (by rw [ok.size]; exact hR.entSize) hidx
  rw [ok.size] at this
  exact this

/-- an index at or beyond the entry count is refused, the section is not touched -/
theorem get_invalid (enc : Enc) (b : SecBuf) (idx : BitVec 64)
    (hidx : b.size.toNat / b.entSize.toNat ≤ idx.toNat) : getEntry enc b idx = .ok (b, none) := by
  have hn : reloc_get_idx_oob idx (entriesNumV b) = true := by
    rw [get_idx_oob, entriesNumV_toNat]; simpa using hidx
  unfold getEntry
  simp [entriesNum_ok, bind, Except.bind, hn, pure, Except.pure]

/-- **get_entry is total** : for every section satisfying the invariant — whatever its class, type,
    entry size and size — and every index, `get_entry` returns without a fault -/
theorem get_total (enc : Enc) (b : SecBuf) (hI : b.Inv) (idx : BitVec 64) :
    ∃ r, getEntry enc b idx = .ok r := by
  by_cases hidx : idx.toNat < b.size.toNat / b.entSize.toNat
  · have hn : reloc_get_idx_oob idx (entriesNumV b) = false := by
      rw [get_idx_oob, entriesNumV_toNat]; simp; omega
    have gen : ∀ c k, ∃ r, getGeneric (opsOf c k) enc b idx = .ok r := by
      intro c k
      have ok := opsOk c k
      by_cases hs : (opsOf c k).entsizeSmall b.entSize = true
      · exact ⟨(b, none), by simp [getGeneric, hs, pure, Except.pure]⟩
      · have hE : (opsOf c k).size ≤ b.entSize.toNat := by
          have : ¬ b.entSize.toNat < (opsOf c k).size := fun h => hs ((ok.entsizeSmall b.entSize).mpr h)
          omega
        obtain ⟨e, h, _⟩ := getGeneric_spec ok enc b hI idx hE hidx
        exact ⟨_, h⟩
    unfold getEntry
    simp only [entriesNum_ok, bind, Except.bind, hn, Bool.false_eq_true, if_false]
    split
    · split
      · exact gen .c32 .rel
      · split
        · exact gen .c32 .rela
        · exact ⟨_, rfl⟩
    · split
      · exact gen .c64 .rel
      · split
        · exact gen .c64 .rela
        · exact ⟨_, rfl⟩
  · exact ⟨_, get_invalid enc b idx (by omega)⟩

/-! ### adding entries -/

theorem setSize_static (b : SecBuf) (v : BitVec 64) :
    (b.setSize v).stype = b.stype ∧ (b.setSize v).entSize = b.entSize := by
  unfold SecBuf.setSize; cases b.cls <;> simp

theorem insertFinish_static (b : SecBuf) (ns n : BitVec 64) :
    (b.insertFinish ns n).stype = b.stype ∧ (b.insertFinish ns n).entSize = b.entSize := by
  obtain ⟨h1, h2⟩ := setSize_static b ns
  rw [SecBuf.insertFinish_hand]
  by_cases ht : (b.setSize ns).translatorEmpty = true
  · simp only [ht, if_true]; exact ⟨h1, h2⟩
  · simp only [ht, if_false]; exact ⟨h1, h2⟩

theorem insertBody_static (b : SecBuf) (pos : BitVec 64) (raw : Bytes) (b' : SecBuf)
    (h : b.insertBody pos raw = .ok b') : b'.stype = b.stype ∧ b'.entSize = b.entSize := by
  unfold SecBuf.insertBody at h
  simp only [s32_pos_gt, s32_ovf_size, s32_new_size, s32_fits, ite_self] at h
  cases h1 : sec64_insert_pos_gt_size pos b.size
  case true =>
    simp only [h1, if_true, pure, Except.pure, Except.ok.injEq] at h; subst h; exact ⟨rfl, rfl⟩
  case false =>
    simp only [h1, Bool.false_eq_true, if_false] at h
    cases h2 : sec64_insert_ovf_size (BitVec.ofNat 64 raw.length) b.size
    case true =>
      simp only [h2, if_true, pure, Except.pure, Except.ok.injEq] at h; subst h; exact ⟨rfl, rfl⟩
    case false =>
      simp only [h2, Bool.false_eq_true, if_false] at h
      cases h3 : sec64_insert_fits_inplace (sec64_insert_new_size b.size (BitVec.ofNat 64 raw.length)) b.dataSize
      case true =>
        simp only [h3, if_true] at h
        cases hd : b.insertInPlace pos.toNat raw with
        | error f => simp [hd, bind, Except.bind] at h
        | ok d =>
          simp only [hd, bind, Except.bind, pure, Except.pure, Except.ok.injEq] at h
          subst h
          exact insertFinish_static _ _ _
      case false =>
        simp only [h3, Bool.false_eq_true, if_false] at h
        cases hg : SecBuf.growSize (b.cls == Cls.c32) b.dataSize (BitVec.ofNat 64 raw.length) with
        | none => simp only [hg, pure, Except.pure, Except.ok.injEq] at h; subst h; exact ⟨rfl, rfl⟩
        | some nds =>
          simp only [hg] at h
          cases hd : b.insertGrow pos.toNat raw nds.toNat with
          | error f => simp [hd, bind, Except.bind] at h
          | ok d =>
            simp only [hd, bind, Except.bind, pure, Except.pure, Except.ok.injEq] at h
            subst h
            exact insertFinish_static _ _ _

theorem appendData_static (b : SecBuf) (raw : Bytes) (b' : SecBuf) (h : b.appendData raw = .ok b') :
    b'.stype = b.stype ∧ b'.entSize = b.entSize := by
  unfold SecBuf.appendData SecBuf.insertData at h
  simp only [s32_not_nobits, s32_make_resident, ite_self] at h
  cases h1 : sec64_insert_not_nobits b.stype
  case false =>
    simp only [h1, Bool.not_false, if_true, pure, Except.pure, Except.ok.injEq] at h; subst h; exact ⟨rfl, rfl⟩
  case true =>
    simp only [h1, Bool.not_true, Bool.false_eq_true, if_false] at h
    cases h2 : sec64_insert_make_resident b.isLazy b.isLoaded
    case true =>
      simp only [h2, if_true] at h
      obtain ⟨e1, e2⟩ := insertBody_static _ _ _ _ h
      obtain ⟨_, g2, g3, _⟩ := getData_static b
      exact ⟨by rw [e1, g2], by rw [e2, g3]⟩
    case false =>
      simp only [h2, Bool.false_eq_true, if_false] at h
      exact insertBody_static _ _ _ _ h

/-- the local `T entry` of `generic_add_entry<T>` is the concatenation of its converted members -/
theorem buildRec_eq {c : Cls} {k : RelKind} {ops : RecOps} (ok : OpsOk c k ops) (enc : Enc) (fo fi fa : Nat) :
    buildRec ops enc fo fi fa = wrField enc (wordBytes c) fo ++ wrField enc (wordBytes c) fi ++
      (if hasAddend k then wrField enc (wordBytes c) fa else []) := by
  have hSz : ops.size = (if hasAddend k then 3 else 2) * wordBytes c := by rw [ok.size, entSize_eq]
  unfold buildRec
  simp only [ok.offsetOff, ok.offsetW, ok.infoOff, ok.infoW]
  have e1 : wr (wr (alloc ops.size) 0 (wrField enc (wordBytes c) fo)) (wordBytes c) (wrField enc (wordBytes c) fi)
      = wr (alloc ops.size) 0 (wrField enc (wordBytes c) fo ++ wrField enc (wordBytes c) fi) := by
    have := wr_wr_adjacent (alloc ops.size) (wrField enc (wordBytes c) fo) (wrField enc (wordBytes c) fi) 0
      (by simp only [wrField_length, alloc_length, hSz]; split <;> omega)
    simpa using this
  rw [e1]
  cases k with
  | rel =>
    have hna : ops.hasAddend = false := by rw [ok.hasAddend]; rfl
    simp only [hna, Bool.false_eq_true, if_false, hasAddend, List.append_nil]
    exact wr_full _ _ (by simp [hSz, hasAddend]; omega)
  | rela =>
    have hya : ops.hasAddend = true := by rw [ok.hasAddend]; rfl
    simp only [hya, if_true, ok.addendOff hya, ok.addendW hya, hasAddend]
    have := wr_wr_adjacent (alloc ops.size) (wrField enc (wordBytes c) fo ++ wrField enc (wordBytes c) fi)
      (wrField enc (wordBytes c) fa) 0 (by simp [hSz, hasAddend]; omega)
    simp only [List.length_append, wrField_length, Nat.zero_add] at this
    rw [show wordBytes c + wordBytes c = 2 * wordBytes c by omega] at this
    rw [this]
    exact wr_full _ _ (by simp [hSz, hasAddend]; omega)

theorem wrField_enc (enc : Enc) (c : Cls) (x : Nat) :
    wrField enc (wordBytes c) x = encodeInt enc (wordBytes c) x :=
  wrField_eq enc _ x (by rcases wordBytes_cases c with h | h <;> simp [h])

/-- `generic_add_entry<T>` appends the gABI record of (offset, info, addend) -/
theorem addGeneric_spec {c : Cls} {k : RelKind} {ops : RecOps} (ok : OpsOk c k ops) (enc : Enc) (b : SecBuf)
    (hI : b.Inv) (offset info addend : BitVec 64)
    (hb : SecBuf.Bound b.cls (b.content.length + Spec.entSize c k)) :
    ∃ b', addGeneric ops enc b offset info addend = .ok b' ∧ b'.Resident ∧ b'.cls = b.cls ∧
      b'.stype = b.stype ∧ b'.entSize = b.entSize ∧
      b'.content = b.content ++ encodeRaw ⟨c, enc⟩ k offset.toNat info.toNat addend.toInt := by
  have hrec : buildRec ops enc (ops.addOffset offset) (ops.addInfo info) (ops.addAddend addend)
      = encodeRaw ⟨c, enc⟩ k offset.toNat info.toNat addend.toInt := by
    rw [buildRec_eq ok]
    unfold encodeRaw
    simp only [wrField_enc]
    rw [encodeInt_congr enc _ _ _ (ok.addOffset offset), encodeInt_congr enc _ _ _ (ok.addInfo info)]
    cases k with
    | rel => simp [hasAddend]
    | rela =>
      have hya : ops.hasAddend = true := by rw [ok.hasAddend]; rfl
      simp only [hasAddend, if_true]
      rw [encodeInt_congr enc _ _ _ (ok.addAddend addend hya)]
  have hlen : (encodeRaw ⟨c, enc⟩ k offset.toNat info.toNat addend.toInt).length = ops.size := by
    rw [encodeRaw_length, ok.size]
  have hrd : rdRange "add_entry/entry" (some (encodeRaw ⟨c, enc⟩ k offset.toNat info.toNat addend.toInt)) 0
      ops.addSize.toNat = .ok (encodeRaw ⟨c, enc⟩ k offset.toNat info.toNat addend.toInt) := by
    rw [rdRange_some_ok (by rw [ok.addSize, hlen]; omega), ok.addSize, ← hlen, slice_all]
  obtain ⟨b', e, r, hc, hv⟩ := C07.append_refines b hI (encodeRaw ⟨c, enc⟩ k offset.toNat info.toNat addend.toInt)
    (by rw [encodeRaw_length]; exact hb)
  obtain ⟨s1, s2⟩ := appendData_static _ _ _ e
  refine ⟨b', ?_, r, hc, s1, s2, hv⟩
  unfold addGeneric
  simp only [hrec, hrd, bind, Except.bind]
  exact e

theorem bound_mono {c : Cls} {k k' : Nat} (h : SecBuf.Bound c k') (hk : k ≤ k') : SecBuf.Bound c k := by
  cases c <;> simp only [SecBuf.Bound] at * <;> omega

theorem encodeRaw_rel_addend (c : Cfg) (o i : Nat) (a a' : Int) :
    encodeRaw c .rel o i a = encodeRaw c .rel o i a' := by simp [encodeRaw, hasAddend]

/-- **add_entry(offset, info)** / **add_entry(offset, info, addend)** append the record with the
    info word as given (reduced to the class width) -/
theorem addInfo_refines (c : Cls) (enc : Enc) (b : SecBuf) (hI : b.Inv) (hc : b.cls = c)
    (offset info addend : BitVec 64) :
    (SecBuf.Bound c (b.content.length + Spec.entSize c .rel) →
      ∃ b', addRelInfo enc b offset info = .ok b' ∧ b'.Resident ∧ b'.cls = c ∧ b'.stype = b.stype ∧
        b'.entSize = b.entSize ∧ b'.content = b.content ++ encodeRaw ⟨c, enc⟩ .rel offset.toNat info.toNat 0) ∧
    (SecBuf.Bound c (b.content.length + Spec.entSize c .rela) →
      ∃ b', addRelaInfo enc b offset info addend = .ok b' ∧ b'.Resident ∧ b'.cls = c ∧ b'.stype = b.stype ∧
        b'.entSize = b.entSize ∧
        b'.content = b.content ++ encodeRaw ⟨c, enc⟩ .rela offset.toNat info.toNat addend.toInt) := by
  subst hc
  constructor
  · intro hb
    unfold addRelInfo
    cases hc : b.cls
    · rw [hc] at hb
      simp only [is32_c32.2.2.2.2.1, if_true]
      obtain ⟨b', e, r, h1, h2, h3, h4⟩ := addGeneric_spec opsOk32rel enc b hI offset info 0 (by rw [hc]; exact hb)
      exact ⟨b', e, r, by rw [h1, hc], h2, h3, by rw [h4]; rfl⟩
    · rw [hc] at hb
      simp only [is32_c64.2.2.2.2.1, Bool.false_eq_true, if_false]
      obtain ⟨b', e, r, h1, h2, h3, h4⟩ := addGeneric_spec opsOk64rel enc b hI offset info 0 (by rw [hc]; exact hb)
      exact ⟨b', e, r, by rw [h1, hc], h2, h3, by rw [h4]; rfl⟩
  · intro hb
    unfold addRelaInfo
    cases hc : b.cls
    · rw [hc] at hb
      simp only [is32_c32.2.2.2.2.2, if_true]
      obtain ⟨b', e, r, h1, h2, h3, h4⟩ := addGeneric_spec opsOk32rela enc b hI offset info addend (by rw [hc]; exact hb)
      exact ⟨b', e, r, by rw [h1, hc], h2, h3, h4⟩
    · rw [hc] at hb
      simp only [is32_c64.2.2.2.2.2, Bool.false_eq_true, if_false]
      obtain ⟨b', e, r, h1, h2, h3, h4⟩ := addGeneric_spec opsOk64rela enc b hI offset info addend (by rw [hc]; exact hb)
      exact ⟨b', e, r, by rw [h1, hc], h2, h3, h4⟩

/-- the info word computed by the symbol/type overloads is the ABI packing -/
theorem pack_toNat (c : Cls) (s t : BitVec 32) :
    (if reloc_addrel_is32 (classByte c) then reloc_addrel_pack32 s t else reloc_addrel_pack64 s t).toNat
      = rInfo c s.toNat t.toNat ∧
    (if reloc_addrela_is32 (classByte c) then reloc_addrela_pack32 s t else reloc_addrela_pack64 s t).toNat
      = rInfo c s.toNat t.toNat := by
  have e1 : reloc_addrela_pack32 = reloc_addrel_pack32 := rfl
  have e2 : reloc_addrela_pack64 = reloc_addrel_pack64 := rfl
  cases c
  · simp only [is32_c32.2.2.1, is32_c32.2.2.2.1, if_true, e1, pack32_toNat, rInfo]; exact ⟨trivial, trivial⟩
  · simp only [is32_c64.2.2.1, is32_c64.2.2.2.1, Bool.false_eq_true, if_false, e2, pack64_toNat, rInfo]
    exact ⟨trivial, trivial⟩

/-- **one add_entry** : on every section with the invariant (fresh, loaded eagerly or lazily, after any
    edits), adding an entry through the symbol/type overload of the table kind succeeds and appends
    exactly the gABI record of the entry: `r_offset`, `r_info` with the ABI packing of symbol and type,
    `r_addend` (RELA) in two's complement, each in the byte order of the file -/
theorem add_refines (c : Cls) (k : RelKind) (enc : Enc) (b : SecBuf) (hI : b.Inv) (hc : b.cls = c) (e : Entry)
    (hb : SecBuf.Bound c (b.content.length + Spec.entSize c k)) :
    ∃ b', addEntry k enc b e = .ok b' ∧ b'.Inv ∧ b'.cls = c ∧ b'.stype = b.stype ∧ b'.entSize = b.entSize ∧
      b'.content = b.content ++ encodeEntry ⟨c, enc⟩ k e.toSpec := by
  obtain ⟨p1, p2⟩ := pack_toNat c e.symbol e.type
  cases k with
  | rel =>
    obtain ⟨b', h, r, h1, h2, h3, h4⟩ := (addInfo_refines c enc b hI hc e.offset
      (if reloc_addrel_is32 (classByte c) then reloc_addrel_pack32 e.symbol e.type
        else reloc_addrel_pack64 e.symbol e.type) 0).1 hb
    refine ⟨b', ?_, Or.inl r, h1, h2, h3, ?_⟩
    · simp only [addEntry, addRel, hc]; exact h
    · rw [h4, p1]; unfold encodeEntry; simp only [Entry.toSpec]; rw [encodeRaw_rel_addend]
  | rela =>
    obtain ⟨b', h, r, h1, h2, h3, h4⟩ := (addInfo_refines c enc b hI hc e.offset
      (if reloc_addrela_is32 (classByte c) then reloc_addrela_pack32 e.symbol e.type
        else reloc_addrela_pack64 e.symbol e.type) e.addend).2 hb
    refine ⟨b', ?_, Or.inl r, h1, h2, h3, ?_⟩
    · simp only [addEntry, addRela, hc]; exact h
    · rw [h4, p2]; unfold encodeEntry; simp only [Entry.toSpec]

/-- **any sequence of add_entry** (induction over the sequence, no bound on its length) -/
theorem adds_refine (c : Cls) (k : RelKind) (enc : Enc) (b : SecBuf) (hI : b.Inv) (hc : b.cls = c)
    (es : List Entry) (hb : SecBuf.Bound c (b.content.length + es.length * Spec.entSize c k)) :
    ∃ b', addEntries k enc b es = .ok b' ∧ b'.Inv ∧ b'.cls = c ∧ b'.stype = b.stype ∧ b'.entSize = b.entSize ∧
      b'.content = b.content ++ encodeRelTable ⟨c, enc⟩ k (es.map Entry.toSpec) := by
  induction es generalizing b with
  | nil => exact ⟨b, rfl, hI, hc, rfl, rfl, by simp [encodeRelTable]⟩
  | cons e es ih =>
    simp only [List.length_cons, Nat.succ_mul] at hb
    obtain ⟨b1, e1, i1, c1, t1, s1, v1⟩ := add_refines c k enc b hI hc e (bound_mono hb (by omega))
    obtain ⟨b2, e2, i2, c2, t2, s2, v2⟩ := ih b1 i1 c1 (by
      rw [v1, List.length_append, encodeEntry_length]; exact bound_mono hb (by simp only []; omega))
    refine ⟨b2, ?_, i2, c2, by rw [t2, t1], by rw [s2, s1], ?_⟩
    · simp only [addEntries, e1, bind, Except.bind]; exact e2
    · rw [v2, v1]; simp [encodeRelTable, List.append_assoc]

/-- **rel_bytes** : a table built by any sequence of adds on top of a table `es0` is, byte for byte, the
    gABI encoding of all entries in order (ABI packing, declared byte order) -/
theorem rel_bytes (c : Cls) (k : RelKind) (enc : Enc) (b : SecBuf) (hI : b.Inv) (hc : b.cls = c)
    (es0 : List RelocEntry) (h0 : b.content = encodeRelTable ⟨c, enc⟩ k es0) (es : List Entry)
    (hb : SecBuf.Bound c ((es0.length + es.length) * Spec.entSize c k)) :
    ∃ b', addEntries k enc b es = .ok b' ∧ b'.Inv ∧ b'.cls = c ∧ b'.stype = b.stype ∧ b'.entSize = b.entSize ∧
      b'.content = encodeRelTable ⟨c, enc⟩ k (es0 ++ es.map Entry.toSpec) := by
  obtain ⟨b', e, i, c', t, s, v⟩ := adds_refine c k enc b hI hc es (by
    rw [h0, encodeTable_length, ← Nat.add_mul]; exact hb)
  exact ⟨b', e, i, c', t, s, by rw [v, h0]; simp [encodeRelTable]⟩

/-! ### round trip -/

/-- offset as it comes back: reduced to the class width -/
def normOffset : Cls → BitVec 64 → BitVec 64
  | .c32, o => BitVec.setWidth 64 (BitVec.setWidth 32 o)
  | .c64, o => o

/-- addend as it comes back: REL has none; an ELF32 RELA addend is narrowed to `Elf_Sword` and
    sign-extended back to `Elf_Sxword` -/
def normAddend : Cls → RelKind → BitVec 64 → BitVec 64
  | .c32, .rel, _ => 0
  | .c64, .rel, _ => 0
  | .c32, .rela, a => BitVec.signExtend 64 (BitVec.setWidth 32 a)
  | .c64, .rela, a => a

/-- the entry `get_entry` returns for an entry that was added -/
def normEntry (c : Cls) (k : RelKind) (e : Entry) : Entry :=
  { offset := normOffset c e.offset, symbol := e.symbol, type := e.type, addend := normAddend c k e.addend }

theorem untwos_mod (n x : Nat) : untwos n (x % 2 ^ (8 * n)) = untwos n x := by
  unfold untwos; simp only [Nat.mod_mod]

theorem normEntry_toSpec (c : Cls) (k : RelKind) (e : Entry) :
    (normEntry c k e).toSpec = normalize c k e.toSpec := by
  have hlt := e.offset.isLt
  simp only [Nat.reducePow] at hlt
  have ho : (normOffset c e.offset).toNat = e.offset.toNat % 2 ^ (8 * wordBytes c) := by
    cases c <;> simp only [normOffset, wordBytes, BitVec.toNat_setWidth, Nat.reducePow, Nat.reduceMul] <;> omega
  have ha : (normAddend c k e.addend).toInt =
      if hasAddend k then untwos (wordBytes c) (twos (wordBytes c) e.addend.toInt) else 0 := by
    cases c <;> cases k <;> simp only [normAddend, hasAddend, wordBytes, if_true, Bool.false_eq_true, if_false]
    · rfl
    · rw [BitVec.toInt_signExtend_of_le (by decide), toInt_untwos4, ← untwos_mod 4 (twos 4 _), toInt_twos4]
      simp only [BitVec.toNat_setWidth, Nat.reducePow, Nat.reduceMul]
    · rfl
    · rw [toInt_twos8, ← toInt_untwos8]
  simp only [normEntry, Entry.toSpec, normalize, ho, ha]

/-- in ELF64 every 32-bit symbol index and every 32-bit type fit the packing -/
theorem fits_c64 (e : Entry) : Fits .c64 e.toSpec := by
  have h1 := e.symbol.isLt; have h2 := e.type.isLt
  simp only [Fits, Entry.toSpec, Nat.reducePow] at *; omega

theorem ofNat64_toNat {n : Nat} (h : n < 18446744073709551616) : (BitVec.ofNat 64 n).toNat = n := by
  simp only [BitVec.toNat_ofNat, Nat.reducePow]; omega

theorem bound_lt' {c : Cls} {k : Nat} (h : SecBuf.Bound c k) : k < 18446744073709551616 := C07.bound_lt h

theorem entSize_pos (c : Cls) (k : RelKind) : 0 < Spec.entSize c k := by
  cases c <;> cases k <;> simp [Spec.entSize, wordBytes]

/-- **round trip** : build a table by *any* sequence of adds (on top of an existing table `es0`);
    then `get_entry(k)` returns the k-th added entry — offset reduced to the class width, symbol and
    type unchanged (ranges `Fits`), addend as `normEntry` says — for every k. -/
theorem roundtrip (c : Cls) (k : RelKind) (enc : Enc) (b : SecBuf) (hR : RelocSec c k b)
    (hE : b.entSize.toNat = Spec.entSize c k)
    (es0 : List RelocEntry) (h0 : b.content = encodeRelTable ⟨c, enc⟩ k es0) (es : List Entry)
    (hfit : ∀ e ∈ es, Fits c e.toSpec)
    (hb : SecBuf.Bound c ((es0.length + es.length) * Spec.entSize c k)) :
    ∃ b', addEntries k enc b es = .ok b' ∧ RelocSec c k b' ∧
      b'.content = encodeRelTable ⟨c, enc⟩ k (es0 ++ es.map Entry.toSpec) ∧
      ∀ j (hj : j < es.length),
        getEntry enc b' (BitVec.ofNat 64 (es0.length + j)) = .ok (b'.getData, some (normEntry c k es[j])) := by
  obtain ⟨b', e, i, c', t, s, v⟩ := rel_bytes c k enc b hR.inv hR.cls es0 h0 es hb
  have hR' : RelocSec c k b' := ⟨i, c', by rw [t]; exact hR.stype, by rw [s]; exact hR.entSize⟩
  refine ⟨b', e, hR', v, ?_⟩
  intro j hj
  have hS := entSize_pos c k
  have hlen : b'.size.toNat = (es0.length + es.length) * Spec.entSize c k := by
    rw [← C07.content_length i, v, encodeTable_length]; simp
  have htot := bound_lt' hb
  have hn : es0.length + j < 18446744073709551616 := by
    have : es0.length + es.length ≤ (es0.length + es.length) * Spec.entSize c k := Nat.le_mul_of_pos_right _ hS
    omega
  have hidx : (BitVec.ofNat 64 (es0.length + j)).toNat < b'.size.toNat / b'.entSize.toNat := by
    rw [ofNat64_toNat hn, s, hE, hlen, Nat.mul_div_cancel _ hS]; omega
  obtain ⟨e', he, hs⟩ := get_refines c k enc b' hR' _ hidx
  rw [he]
  have : e' = normEntry c k es[j] := by
    apply Entry.toSpec_inj
    rw [hs, normEntry_toSpec, ofNat64_toNat hn, s, hE, v]
    have hsl := slice_flatMap (encodeEntry ⟨c, enc⟩ k) (Spec.entSize c k) (encodeEntry_length ⟨c, enc⟩ k)
      (es0 ++ es.map Entry.toSpec) (es0.length + j) (by simp; omega)
    unfold encodeRelTable
    rw [hsl]
    have hget : (es0 ++ es.map Entry.toSpec)[es0.length + j]'(by simp; omega) = es[j].toSpec := by
      rw [List.getElem_append_right (by omega)]; simp
    rw [hget]
    exact spec_roundtrip ⟨c, enc⟩ k _ (hfit _ (List.getElem_mem hj))
  rw [this]

/-- **REL tables round-trip** (both classes, both byte orders) -/
theorem rel_roundtrip (c : Cls) (enc : Enc) (b : SecBuf) (hR : RelocSec c .rel b)
    (hE : b.entSize.toNat = Spec.entSize c .rel)
    (es0 : List RelocEntry) (h0 : b.content = encodeRelTable ⟨c, enc⟩ .rel es0) (es : List Entry)
    (hfit : ∀ e ∈ es, Fits c e.toSpec)
    (hb : SecBuf.Bound c ((es0.length + es.length) * Spec.entSize c .rel)) :
    ∃ b', addEntries .rel enc b es = .ok b' ∧ RelocSec c .rel b' ∧
      b'.content = encodeRelTable ⟨c, enc⟩ .rel (es0 ++ es.map Entry.toSpec) ∧
      ∀ j (hj : j < es.length),
        getEntry enc b' (BitVec.ofNat 64 (es0.length + j)) =
          .ok (b'.getData, some (normEntry c .rel es[j])) :=
  roundtrip c .rel enc b hR hE es0 h0 es hfit hb

/-- **RELA tables round-trip** (both classes, both byte orders); in ELF32 the addend comes back
    narrowed to 32 bits and sign-extended -/
theorem rela_roundtrip (c : Cls) (enc : Enc) (b : SecBuf) (hR : RelocSec c .rela b)
    (hE : b.entSize.toNat = Spec.entSize c .rela)
    (es0 : List RelocEntry) (h0 : b.content = encodeRelTable ⟨c, enc⟩ .rela es0) (es : List Entry)
    (hfit : ∀ e ∈ es, Fits c e.toSpec)
    (hb : SecBuf.Bound c ((es0.length + es.length) * Spec.entSize c .rela)) :
    ∃ b', addEntries .rela enc b es = .ok b' ∧ RelocSec c .rela b' ∧
      b'.content = encodeRelTable ⟨c, enc⟩ .rela (es0 ++ es.map Entry.toSpec) ∧
      ∀ j (hj : j < es.length),
        getEntry enc b' (BitVec.ofNat 64 (es0.length + j)) =
          .ok (b'.getData, some (normEntry c .rela es[j])) :=
  roundtrip c .rela enc b hR hE es0 h0 es hfit hb

/-- an ELF32 RELA addend that fits 32 bits signed, and every ELF64 addend, come back unchanged -/
theorem normEntry_addend_fits (c : Cls) (e : Entry)
    (h : c = .c32 → BitVec.sle (-2147483648#64) e.addend = true ∧ BitVec.sle e.addend 2147483647#64 = true) :
    (normEntry c .rela e).addend = e.addend := by
  cases c with
  | c32 => obtain ⟨h1, h2⟩ := h rfl; exact sext32_trunc_of_fits _ h1 h2
  | c64 => rfl

/-! ### rewriting one entry -/

/-- `generic_set_entry_rel/rela<T>` : the three member writes are one write of the gABI record at
    `index * entry_size`; nothing else in the buffer changes -/
theorem setGeneric_spec {c : Cls} {k : RelKind} {ops : RecOps} (ok : OpsOk c k ops) (enc : Enc) (b : SecBuf)
    (hI : b.Inv) (hc : b.cls = c) (idx : BitVec 64) (hE : ops.size ≤ b.entSize.toNat)
    (hidx : idx.toNat < b.size.toNat / b.entSize.toNat) (e : Entry) :
    ∃ b', setGeneric ops enc b idx e = .ok b' ∧ b'.Resident ∧ b'.cls = b.cls ∧ b'.stype = b.stype ∧
      b'.entSize = b.entSize ∧ b'.size = b.size ∧
      b'.content = wr b.content (idx.toNat * b.entSize.toNat) (encodeEntry ⟨c, enc⟩ k e.toSpec) := by
  obtain ⟨hr, hcont⟩ := getData_inv hI
  obtain ⟨g1, g2, g3, g4⟩ := getData_static b
  obtain ⟨hib, hEpos⟩ := index_bound hidx
  have hpos := ok.size_pos
  have hsz : b.getData.size.toNat ≠ 0 := by rw [g4]; omega
  obtain ⟨a, hd, hs1, hs2, hca⟩ := resident_buf hr hsz
  rw [g4] at hs1 hca; rw [hcont] at hca
  have hlt := b.size.isLt
  simp only [Nat.reducePow] at hlt
  have hoff : (ops.setOff idx b.getData.entSize).toNat = idx.toNat * b.entSize.toNat := by
    rw [ok.setOff, g3, BitVec.toNat_mul]
    simp only [Nat.reducePow]
    apply Nat.mod_eq_of_lt; omega
  have hSz : ops.size = (if hasAddend k then 3 else 2) * wordBytes c := by rw [ok.size, entSize_eq]
  generalize hoffv : idx.toNat * b.entSize.toNat = off at *
  generalize hW : wordBytes c = W at *
  -- the three converted members
  generalize hfi : wrField enc W (if ops.setIs32 (classByte b.getData.cls) then ops.setInfo32 e.symbol e.type
      else ops.setInfo64 e.symbol e.type) = fi
  generalize hfo : wrField enc W (ops.setOffset e.offset) = fo
  generalize hfa : wrField enc W (ops.setAddend e.addend) = fa
  have li : fi.length = W := by rw [← hfi]; simp
  have lo : fo.length = W := by rw [← hfo]; simp
  have la : fa.length = W := by rw [← hfa]; simp
  -- the record they form
  have hrec : fo ++ fi ++ (if hasAddend k then fa else []) = encodeEntry ⟨c, enc⟩ k e.toSpec := by
    unfold encodeEntry encodeRaw
    simp only [hW]
    rw [← hfo, ← hfi, ← hfa, g1, hc, ← hW]
    simp only [wrField_enc]
    rw [encodeInt_congr enc _ _ _ (ok.setOffset e.offset), encodeInt_congr enc _ _ _ (ok.setInfo e.symbol e.type)]
    cases k with
    | rel => simp [hasAddend, Entry.toSpec]
    | rela =>
      have hya : ops.hasAddend = true := by rw [ok.hasAddend]; rfl
      simp only [hasAddend, if_true]
      rw [encodeInt_congr enc _ _ _ (ok.setAddend e.addend hya)]
      simp [Entry.toSpec]
  have hreclen : (encodeEntry ⟨c, enc⟩ k e.toSpec).length = ops.size := by rw [encodeEntry_length, ok.size]
  -- first two writes
  have w1 := @wrRange_some_ok "set_entry/r_info" a (off + W) fi (by rw [li]; rw [hSz] at hE hpos; split at hE <;> omega)
  have l1 : (wr a (off + W) fi).length = a.length :=
    wr_length _ _ _ (by rw [li]; rw [hSz] at hE hpos; split at hE <;> omega)
  have w2 := @wrRange_some_ok "set_entry/r_offset" (wr a (off + W) fi) (off + 0) fo (by rw [l1, lo]; rw [hSz] at hE; split at hE <;> omega)
  have e2 : wr (wr a (off + W) fi) (off + 0) fo = wr a off (fo ++ fi) := by
    rw [Nat.add_zero, wr_wr_comm a fo fi off (off + W) (by omega) (by rw [li]; rw [hSz] at hE; split at hE <;> omega)]
    have := wr_wr_adjacent a fo fi off (by rw [lo, li]; rw [hSz] at hE; split at hE <;> omega)
    rw [lo] at this; exact this
  have hsm : ops.setSmall b.entSize = false := by
    cases h : ops.setSmall b.entSize with
    | false => rfl
    | true => have := (ok.setSmall _).mp h; omega
  have hnd : ops.setNodata b.getData.data.isNone = false := by rw [ok.setNodata, hd]; rfl
  unfold setGeneric
  simp only [hsm, hnd, Bool.false_eq_true, if_false]
  unfold setWrites
  simp only [hoff, hd, ok.offsetOff, ok.offsetW, ok.infoOff, ok.infoW, hW, hfi, hfo, w1, bind, Except.bind, w2, e2]
  cases k with
  | rel =>
    have hna : ops.hasAddend = false := by rw [ok.hasAddend]; rfl
    simp only [hasAddend, Bool.false_eq_true, if_false, List.append_nil] at hrec hSz
    simp only [hna, Bool.false_eq_true, if_false, pure, Except.pure]
    have hl : (wr a off (fo ++ fi)).length = a.length := wr_length _ _ _ (by simp [lo, li]; omega)
    have hres : ({ b.getData with data := some (wr a off (fo ++ fi)) } : SecBuf).Resident :=
      ⟨hr.notNobits, (fun h => by cases h),
        Or.inr ⟨_, rfl, (by show b.getData.size.toNat ≤ b.getData.dataSize.toNat; rcases hr.buf with ⟨x, _, _⟩ | ⟨a', x, x1, x2⟩
                            · rw [hd] at x; cases x
                            · exact x1),
          (by show b.getData.dataSize.toNat ≤ _; rw [hl]; exact hs2)⟩, hr.cap⟩
    refine ⟨_, rfl, hres, g1, g2, g3, g4, ?_⟩
    rw [C07.content_resident hres]
    show (wr a off (fo ++ fi)).take b.getData.size.toNat = _
    rw [g4, wr_take _ _ _ _ (by simp [lo, li]; omega) (by omega), ← hca, hrec]
  | rela =>
    have hya : ops.hasAddend = true := by rw [ok.hasAddend]; rfl
    simp only [hasAddend, if_true] at hrec hSz
    have l2 : (wr a off (fo ++ fi)).length = a.length := wr_length _ _ _ (by simp [lo, li]; omega)
    have w3 := @wrRange_some_ok "set_entry/r_addend" (wr a off (fo ++ fi)) (off + 2 * W) fa (by rw [l2, la]; omega)
    have e3 : wr (wr a off (fo ++ fi)) (off + 2 * W) fa = wr a off (fo ++ fi ++ fa) := by
      have := wr_wr_adjacent a (fo ++ fi) fa off (by simp [lo, li, la]; omega)
      simp only [List.length_append, lo, li] at this
      rw [show off + (W + W) = off + 2 * W by omega] at this
      exact this
    simp only [hya, if_true, ok.addendOff hya, ok.addendW hya, hW, hfa, w3, e3, pure, Except.pure]
    have hl : (wr a off (fo ++ fi ++ fa)).length = a.length := wr_length _ _ _ (by simp [lo, li, la]; omega)
    have hres : ({ b.getData with data := some (wr a off (fo ++ fi ++ fa)) } : SecBuf).Resident :=
      ⟨hr.notNobits, (fun h => by cases h),
        Or.inr ⟨_, rfl, (by show b.getData.size.toNat ≤ b.getData.dataSize.toNat; rcases hr.buf with ⟨x, _, _⟩ | ⟨a', x, x1, x2⟩
                            · rw [hd] at x; cases x
                            · exact x1),
          (by show b.getData.dataSize.toNat ≤ _; rw [hl]; exact hs2)⟩, hr.cap⟩
    refine ⟨_, rfl, hres, g1, g2, g3, g4, ?_⟩
    rw [C07.content_resident hres]
    show (wr a off (fo ++ fi ++ fa)).take b.getData.size.toNat = _
    rw [g4, wr_take _ _ _ _ (by simp [lo, li, la]; omega) (by omega), ← hca, hrec]

theorem setEntry_dispatch (c : Cls) (k : RelKind) (enc : Enc) (b : SecBuf) (hc : b.cls = c)
    (ht : b.stype = shtOf k) (idx : BitVec 64) (hidx : idx.toNat < b.size.toNat / b.entSize.toNat) (e : Entry) :
    setEntry enc b idx e = (do let b' ← setGeneric (opsOf c k) enc b idx e; pure (b', true)) := by
  have hn : reloc_set_idx_oob idx (entriesNumV b) = false := by
    rw [set_idx_oob, entriesNumV_toNat]; simp; omega
  unfold setEntry
  simp only [entriesNum_ok, bind, Except.bind, hn, Bool.false_eq_true, if_false, hc, ht]
  cases c <;> cases k <;>
    simp [is32_c32.2.1, is32_c64.2.1, shtOf, opsOf, reloc_set_is_rel32, reloc_set_is_rela32, reloc_set_is_rel64,
      reloc_set_is_rela64, sht_rel_ne_rela, bind, Except.bind]

/-- an index at or beyond the entry count is refused and nothing changes -/
theorem set_invalid (enc : Enc) (b : SecBuf) (idx : BitVec 64) (e : Entry)
    (hidx : b.size.toNat / b.entSize.toNat ≤ idx.toNat) : setEntry enc b idx e = .ok (b, false) := by
  have hn : reloc_set_idx_oob idx (entriesNumV b) = true := by
    rw [set_idx_oob, entriesNumV_toNat]; simpa using hidx
  unfold setEntry
  simp [entriesNum_ok, bind, Except.bind, hn, pure, Except.pure]

/-- **set_entry_frame** : `set_entry(i, …)` on a relocation table succeeds, returns true, and the
    section afterwards is the old byte string with exactly the record of entry `i` overwritten by the
    gABI encoding of the new values (`wr` changes the bytes `[i*E, i*E + sizeof(T))` and nothing else,
    see `set_entry_bytes`) -/
theorem set_entry_frame (c : Cls) (k : RelKind) (enc : Enc) (b : SecBuf) (hR : RelocSec c k b)
    (idx : BitVec 64) (hidx : idx.toNat < b.size.toNat / b.entSize.toNat) (e : Entry) :
    ∃ b', setEntry enc b idx e = .ok (b', true) ∧ RelocSec c k b' ∧ b'.size = b.size ∧ b'.entSize = b.entSize ∧
      b'.content = wr b.content (idx.toNat * b.entSize.toNat) (encodeEntry ⟨c, enc⟩ k e.toSpec) := by
  have ok := opsOk c k
  obtain ⟨b', h, r, h1, h2, h3, h4, h5⟩ := setGeneric_spec ok enc b hR.inv hR.cls idx
    (by rw [ok.size]; exact hR.entSize) hidx e
  refine ⟨b', ?_, ⟨Or.inl r, by rw [h1]; exact hR.cls, by rw [h2]; exact hR.stype, by rw [h3]; exact hR.entSize⟩,
    h4, h3, h5⟩
  rw [setEntry_dispatch c k enc b hR.cls hR.stype idx hidx e]
  simp [h, bind, Except.bind, pure, Except.pure]

/-- the frame, byte by byte: positions outside the record of entry `i` keep their value -/
theorem set_entry_bytes (c : Cls) (k : RelKind) (enc : Enc) (b : SecBuf) (hR : RelocSec c k b)
    (idx : BitVec 64) (hidx : idx.toNat < b.size.toNat / b.entSize.toNat) (e : Entry) :
    ∃ b', setEntry enc b idx e = .ok (b', true) ∧ b'.content.length = b.content.length ∧
      ∀ p, (p < idx.toNat * b.entSize.toNat ∨ idx.toNat * b.entSize.toNat + Spec.entSize c k ≤ p) →
        b'.content[p]? = b.content[p]? := by
  obtain ⟨b', h, _, _, _, hv⟩ := set_entry_frame c k enc b hR idx hidx e
  obtain ⟨hib, _⟩ := index_bound hidx
  have hlen := C07.content_length hR.inv
  have hE := hR.entSize
  have hrl : (encodeEntry ⟨c, enc⟩ k e.toSpec).length = Spec.entSize c k := encodeEntry_length ..
  have hfit : idx.toNat * b.entSize.toNat + (encodeEntry ⟨c, enc⟩ k e.toSpec).length ≤ b.content.length := by
    rw [hrl, hlen]; omega
  refine ⟨b', h, by rw [hv, wr_length _ _ _ hfit], ?_⟩
  intro p hp
  rw [hv, wr_getElem? _ _ _ _ hfit, hrl]
  ite_omega

/-- **set_entry then get_entry** : entry `i` reads back as the new values (in the ranges of the packing),
    every other entry reads back as the same record bytes as before -/
theorem set_entry_get (c : Cls) (k : RelKind) (enc : Enc) (b : SecBuf) (hR : RelocSec c k b)
    (idx : BitVec 64) (hidx : idx.toNat < b.size.toNat / b.entSize.toNat) (e : Entry) (hfit : Fits c e.toSpec) :
    ∃ b', setEntry enc b idx e = .ok (b', true) ∧
      getEntry enc b' idx = .ok (b'.getData, some (normEntry c k e)) ∧
      ∀ j : BitVec 64, j.toNat < b.size.toNat / b.entSize.toNat → j.toNat ≠ idx.toNat →
        ∃ x, getEntry enc b' j = .ok (b'.getData, some x) ∧ getEntry enc b j = .ok (b.getData, some x) := by
  obtain ⟨b', h, hR', hs, he, hv⟩ := set_entry_frame c k enc b hR idx hidx e
  obtain ⟨hib, hEpos⟩ := index_bound hidx
  have hlen := C07.content_length hR.inv
  have hE := hR.entSize
  have hrl : (encodeEntry ⟨c, enc⟩ k e.toSpec).length = Spec.entSize c k := encodeEntry_length ..
  have hfitw : idx.toNat * b.entSize.toNat + (encodeEntry ⟨c, enc⟩ k e.toSpec).length ≤ b.content.length := by
    rw [hrl, hlen]; omega
  refine ⟨b', h, ?_, ?_⟩
  · obtain ⟨e', h1, h2⟩ := get_refines c k enc b' hR' idx (by rw [hs, he]; exact hidx)
    rw [h1]
    have : e' = normEntry c k e := by
      apply Entry.toSpec_inj
      rw [h2, normEntry_toSpec, he, hv, ← hrl, slice_wr_same _ _ _ hfitw]
      exact spec_roundtrip ⟨c, enc⟩ k _ hfit
    rw [this]
  · intro j hj hne
    obtain ⟨x, h1, h2⟩ := get_refines c k enc b' hR' j (by rw [hs, he]; exact hj)
    obtain ⟨y, h3, h4⟩ := get_refines c k enc b hR j hj
    have : x = y := by
      apply Entry.toSpec_inj
      rw [h2, h4, he, hv]
      congr 1
      apply slice_wr_other _ _ _ _ _ hfitw
      rw [hrl]
      rcases Nat.lt_or_gt_of_ne hne with hlt | hgt
      · left
        have : (j.toNat + 1) * b.entSize.toNat ≤ idx.toNat * b.entSize.toNat := Nat.mul_le_mul_right _ hlt
        rw [Nat.succ_mul] at this; omega
      · right
        have : (idx.toNat + 1) * b.entSize.toNat ≤ j.toNat * b.entSize.toNat := Nat.mul_le_mul_right _ hgt
        rw [Nat.succ_mul] at this; omega
    exact ⟨x, h1, by rw [this]; exact h3⟩

/-! ### swapping two symbol indices -/

/-- a relocation table section that stands for the entry list `T` -/
structure TableSec (c : Cls) (k : RelKind) (enc : Enc) (b : SecBuf) (T : List RelocEntry) : Prop where
  sec : RelocSec c k b
  ent : b.entSize.toNat = Spec.entSize c k
  tab : b.content = encodeRelTable ⟨c, enc⟩ k T

theorem TableSec.count {c k enc b T} (h : TableSec c k enc b T) :
    b.size.toNat / b.entSize.toNat = T.length := by
  rw [← C07.content_length h.sec.inv, h.tab, encodeTable_length, h.ent, Nat.mul_div_cancel _ (entSize_pos c k)]

theorem TableSec.getData {c k enc b T} (h : TableSec c k enc b T) : TableSec c k enc b.getData T := by
  obtain ⟨hr, hcont⟩ := getData_inv h.sec.inv
  obtain ⟨g1, g2, g3, g4⟩ := getData_static b
  exact ⟨⟨Or.inl hr, by rw [g1]; exact h.sec.cls, by rw [g2]; exact h.sec.stype, by rw [g3]; exact h.sec.entSize⟩,
    by rw [g3]; exact h.ent, by rw [hcont]; exact h.tab⟩

theorem TableSec.get {c k enc b T} (h : TableSec c k enc b T) (idx : BitVec 64) (hi : idx.toNat < T.length)
    (hfit : Fits c T[idx.toNat]) :
    ∃ e, getEntry enc b idx = .ok (b.getData, some e) ∧ e.toSpec = normalize c k T[idx.toNat] := by
  obtain ⟨e, h1, h2⟩ := get_refines c k enc b h.sec idx (by rw [h.count]; exact hi)
  refine ⟨e, h1, ?_⟩
  rw [h2, h.ent, h.tab]
  unfold encodeRelTable
  rw [slice_flatMap (encodeEntry ⟨c, enc⟩ k) (Spec.entSize c k) (encodeEntry_length ⟨c, enc⟩ k) T _ hi]
  exact spec_roundtrip ⟨c, enc⟩ k _ hfit

theorem TableSec.set {c k enc b T} (h : TableSec c k enc b T) (idx : BitVec 64) (hi : idx.toNat < T.length)
    (e : Entry) (y : RelocEntry) (hy : encodeEntry ⟨c, enc⟩ k e.toSpec = encodeEntry ⟨c, enc⟩ k y) :
    ∃ b', setEntry enc b idx e = .ok (b', true) ∧ TableSec c k enc b' (T.set idx.toNat y) := by
  obtain ⟨b', h1, hR', hs, he, hv⟩ := set_entry_frame c k enc b h.sec idx (by rw [h.count]; exact hi) e
  refine ⟨b', h1, hR', by rw [he]; exact h.ent, ?_⟩
  rw [hv, h.ent, h.tab, hy]
  unfold encodeRelTable
  exact wr_flatMap (encodeEntry ⟨c, enc⟩ k) (Spec.entSize c k) (encodeEntry_length ⟨c, enc⟩ k) T _ hi y

/-- the symbol range of a class -/
def symLimit : Cls → Nat
  | .c32 => 16777216
  | .c64 => 4294967296

theorem twos_untwos (c : Cls) (a : Int) :
    twos (wordBytes c) (untwos (wordBytes c) (twos (wordBytes c) a)) % 2 ^ (8 * wordBytes c)
      = twos (wordBytes c) a % 2 ^ (8 * wordBytes c) := by
  cases c
  · simp only [twos, untwos, wordBytes, Nat.reducePow, Nat.reduceMul]
    by_cases hc : 2 * ((a % ((4294967296 : Nat) : Int)).toNat % 4294967296) < 4294967296
    · simp only [hc, ↓reduceIte]; omega
    · simp only [hc, ↓reduceIte]; omega
  · simp only [twos, untwos, wordBytes, Nat.reducePow, Nat.reduceMul]
    by_cases hc : 2 * ((a % ((18446744073709551616 : Nat) : Int)).toNat % 18446744073709551616) < 18446744073709551616
    · simp only [hc, ↓reduceIte]; omega
    · simp only [hc, ↓reduceIte]; omega

/-- the encoding does not see the difference between an entry and its normal form, also after the
    symbol has been replaced -/
theorem encodeEntry_normalize_sym (c : Cfg) (k : RelKind) (e : RelocEntry) (z : Nat) :
    encodeEntry c k { normalize c.cls k e with sym := z } = encodeEntry c k { e with sym := z } := by
  unfold encodeEntry encodeRaw normalize
  simp only []
  rw [encodeInt_mod]
  cases k with
  | rel => simp [hasAddend]
  | rela =>
    simp only [hasAddend, if_true]
    rw [encodeInt_congr c.enc _ _ _ (twos_untwos c.cls e.addend)]

theorem fits_swapSym (c : Cls) (a b : Nat) (ha : a < symLimit c) (hb : b < symLimit c) (e : RelocEntry)
    (h : Fits c e) : Fits c (swapSym a b e) := by
  unfold swapSym
  by_cases h1 : e.sym = a
  · rw [if_pos h1]
    cases c <;> simp only [Fits, symLimit] at * <;> omega
  · rw [if_neg h1]
    by_cases h2 : e.sym = b
    · rw [if_pos h2]
      cases c <;> simp only [Fits, symLimit] at * <;> omega
    · rw [if_neg h2]; exact h

theorem map_take_set {α : Type} (f : α → α) (l : List α) (i : Nat) (h : i < l.length) :
    ((l.take i).map f ++ l.drop i).set i (f l[i]) = (l.take (i + 1)).map f ++ l.drop (i + 1) := by
  induction l generalizing i with
  | nil => simp at h
  | cons x xs ih =>
    cases i with
    | zero => simp
    | succ j =>
      simp only [List.take_succ_cons, List.map_cons, List.cons_append, List.drop_succ_cons, List.set_cons_succ,
        List.getElem_cons_succ]
      rw [ih j (by simpa using h)]

theorem map_take_getElem {α : Type} (f : α → α) (l : List α) (i : Nat) (h : i < l.length) :
    ((l.take i).map f ++ l.drop i)[i]'(by simp; omega) = l[i] := by
  rw [List.getElem_append_right (by simp; omega)]
  simp [Nat.min_eq_left (Nat.le_of_lt h)]

theorem ofNat32_toNat {n : Nat} (h : n < 4294967296) : (BitVec.ofNat 32 n).toNat = n := by
  simp only [BitVec.toNat_ofNat, Nat.reducePow]; omega

/-- one iteration of the loop of `swap_symbols` on entry `i` -/
theorem swapBody_spec (c : Cls) (k : RelKind) (enc : Enc) (b : SecBuf) (T : List RelocEntry)
    (h : TableSec c k enc b T) (first second : BitVec 64) (ha : first.toNat < symLimit c)
    (hb : second.toNat < symLimit c) (i : Nat) (hi : i < T.length) (hi32 : i < 4294967296)
    (hfit : Fits c T[i]) (cur : Entry) :
    ∃ b' cur', swapBody enc first second b (BitVec.ofNat 32 i) cur = .ok (b', cur') ∧
      TableSec c k enc b' (T.set i (swapSym first.toNat second.toNat T[i])) := by
  have hidx : (BitVec.setWidth 64 (BitVec.ofNat 32 i)).toNat = i := by
    simp only [BitVec.toNat_setWidth, BitVec.toNat_ofNat, Nat.reducePow]; omega
  have hlim : symLimit c ≤ 4294967296 := by cases c <;> simp [symLimit]
  obtain ⟨e, g1, g2⟩ := h.get (BitVec.setWidth 64 (BitVec.ofNat 32 i)) (by rw [hidx]; exact hi)
    (by simp only [hidx]; exact hfit)
  simp only [hidx] at g2
  have hsym : e.symbol.toNat = T[i].sym := by
    have := congrArg RelocEntry.sym g2; simpa [Entry.toSpec, normalize] using this
  have hg := h.getData
  -- the two comparisons
  have c1 : reloc_swap_eq_first e.symbol first = decide (T[i].sym = first.toNat) := by
    have hs := e.symbol.isLt
    simp only [reloc_swap_eq_first, ← hsym]
    rw [Bool.eq_iff_iff]
    simp only [beq_iff_eq, decide_eq_true_eq]
    constructor
    · intro x; rw [← x]; simp only [BitVec.toNat_setWidth, Nat.reducePow] at *; omega
    · intro x; apply BitVec.eq_of_toNat_eq; simp only [BitVec.toNat_setWidth, Nat.reducePow] at *; omega
  have c2 : reloc_swap_eq_second e.symbol second = decide (T[i].sym = second.toNat) := by
    have hs := e.symbol.isLt
    simp only [reloc_swap_eq_second, ← hsym]
    rw [Bool.eq_iff_iff]
    simp only [beq_iff_eq, decide_eq_true_eq]
    constructor
    · intro x; rw [← x]; simp only [BitVec.toNat_setWidth, Nat.reducePow] at *; omega
    · intro x; apply BitVec.eq_of_toNat_eq; simp only [BitVec.toNat_setWidth, Nat.reducePow] at *; omega
  -- what a set writes
  have enc_sym : ∀ z : BitVec 64, z.toNat < symLimit c →
      encodeEntry ⟨c, enc⟩ k ({ e with symbol := BitVec.setWidth 32 z } : Entry).toSpec
        = encodeEntry ⟨c, enc⟩ k { T[i] with sym := z.toNat } := by
    intro z hz
    have : ({ e with symbol := BitVec.setWidth 32 z } : Entry).toSpec
        = { normalize c k T[i] with sym := z.toNat } := by
      rw [← g2]
      simp only [Entry.toSpec, BitVec.toNat_setWidth, Nat.reducePow]
      congr 1; omega
    rw [this]; exact encodeEntry_normalize_sym ⟨c, enc⟩ k T[i] z.toNat
  unfold swapBody
  simp only [reloc_swap_idx_get, reloc_swap_idx_set1, reloc_swap_idx_set2, reloc_swap_arg_first,
    reloc_swap_arg_second, g1, bind, Except.bind, Option.getD_some, c1, c2]
  by_cases h1 : T[i].sym = first.toNat
  · simp only [h1, decide_true, if_true]
    obtain ⟨b1, s1, t1⟩ := hg.set (BitVec.setWidth 64 (BitVec.ofNat 32 i)) (by rw [hidx]; exact hi)
      { e with symbol := BitVec.setWidth 32 second } _ (enc_sym second hb)
    simp only [hidx] at t1
    simp only [s1, pure, Except.pure]
    by_cases h2 : first.toNat = second.toNat
    · have hd2 : decide (first.toNat = second.toNat) = true := by simp [h2]
      simp only [hd2, if_true]
      obtain ⟨b2, s2, t2⟩ := t1.set (BitVec.setWidth 64 (BitVec.ofNat 32 i))
        (by rw [hidx, List.length_set]; exact hi)
        { e with symbol := BitVec.setWidth 32 first } _ (enc_sym first ha)
      simp only [hidx, List.set_set] at t2
      simp only [s2]
      refine ⟨_, _, rfl, ?_⟩
      have : swapSym first.toNat second.toNat T[i] = { T[i] with sym := first.toNat } := by
        simp [swapSym, h1, h2]
      rw [this]; exact t2
    · have hd2 : decide (first.toNat = second.toNat) = false := by simp [h2]
      simp only [hd2, Bool.false_eq_true, if_false]
      refine ⟨_, _, rfl, ?_⟩
      have : swapSym first.toNat second.toNat T[i] = { T[i] with sym := second.toNat } := by
        simp [swapSym, h1]
      rw [this]; exact t1
  · simp only [h1, decide_false, Bool.false_eq_true, if_false, pure, Except.pure]
    by_cases h2 : T[i].sym = second.toNat
    · simp only [h2, decide_true, if_true]
      obtain ⟨b2, s2, t2⟩ := hg.set (BitVec.setWidth 64 (BitVec.ofNat 32 i)) (by rw [hidx]; exact hi)
        { e with symbol := BitVec.setWidth 32 first } _ (enc_sym first ha)
      simp only [hidx] at t2
      simp only [s2]
      refine ⟨_, _, rfl, ?_⟩
      have : swapSym first.toNat second.toNat T[i] = { T[i] with sym := first.toNat } := by
        simp [swapSym, h1, h2]
      rw [this]; exact t2
    · simp only [h2, decide_false, Bool.false_eq_true, if_false]
      refine ⟨_, _, rfl, ?_⟩
      have : swapSym first.toNat second.toNat T[i] = T[i] := by simp [swapSym, h1, h2]
      rw [this, List.set_getElem_self]; exact hg

theorem swap_loop_cond (i : Nat) (hi : i < 4294967296) (n : BitVec 64) :
    reloc_swap_loop_cond (BitVec.ofNat 32 i) n = decide (i < n.toNat) := by
  have hn := n.isLt
  simp only [reloc_swap_loop_cond, BitVec.ult, BitVec.toNat_setWidth, BitVec.toNat_ofNat, Nat.reducePow] at *
  congr 1
  rw [Nat.mod_eq_of_lt hi, Nat.mod_eq_of_lt (by omega)]

theorem ofNat32_succ (i : Nat) : BitVec.ofNat 32 i + 1 = BitVec.ofNat 32 (i + 1) := by
  apply BitVec.eq_of_toNat_eq
  have h1 : (1 : BitVec 32).toNat = 1 := rfl
  simp only [BitVec.toNat_add, BitVec.toNat_ofNat, Nat.reducePow, h1]
  omega

/-- the loop of `swap_symbols`, by induction on the fuel: entries below `i` are already exchanged -/
theorem swapLoop_spec (c : Cls) (k : RelKind) (enc : Enc) (first second : BitVec 64)
    (ha : first.toNat < symLimit c) (hb : second.toNat < symLimit c) (es : List RelocEntry)
    (hfit : ∀ e ∈ es, Fits c e) (hn : es.length < 4294967296) :
    ∀ (fuel i : Nat) (b : SecBuf) (cur : Entry), i ≤ es.length → es.length - i < fuel →
      TableSec c k enc b ((es.take i).map (swapSym first.toNat second.toNat) ++ es.drop i) →
      ∃ b', swapLoop enc first second fuel b (BitVec.ofNat 32 i) cur = .ok b' ∧
        TableSec c k enc b' (swapTable first.toNat second.toNat es) := by
  intro fuel
  induction fuel with
  | zero => intro i b cur _ h; omega
  | succ fuel ih =>
    intro i b cur hi hf hT
    have hlen : ((es.take i).map (swapSym first.toNat second.toNat) ++ es.drop i).length = es.length := by
      simp; omega
    have hcnt : (entriesNumV b).toNat = es.length := by rw [entriesNumV_toNat, hT.count, hlen]
    unfold swapLoop
    simp only [entriesNum_ok, bind, Except.bind, swap_loop_cond i (by omega), hcnt]
    by_cases hlt : i < es.length
    · simp only [hlt, decide_true, Bool.not_true, Bool.false_eq_true, if_false]
      have hget := map_take_getElem (swapSym first.toNat second.toNat) es i hlt
      obtain ⟨b1, cur1, h1, t1⟩ := swapBody_spec c k enc b _ hT first second ha hb i (by rw [hlen]; exact hlt)
        (by omega) (by rw [hget]; exact hfit _ (List.getElem_mem hlt)) cur
      rw [hget, map_take_set _ _ _ hlt] at t1
      obtain ⟨b2, h2, t2⟩ := ih (i + 1) b1 cur1 (by omega) (by omega) t1
      refine ⟨b2, ?_, t2⟩
      have hinc : reloc_swap_i_incr (BitVec.ofNat 32 i) = BitVec.ofNat 32 (i + 1) := ofNat32_succ i
      simp only [h1, hinc]
      exact h2
    · simp only [hlt, decide_false, Bool.not_false, if_true, pure, Except.pure]
      refine ⟨b, rfl, ?_⟩
      have hie : i = es.length := by omega
      subst hie
      simpa [swapTable] using hT

/-- **swap_symbols refines the exchange of two symbol indices** on a table built from entries in the
    ranges of the packing: every entry whose symbol is `first` gets `second` and vice versa; offsets,
    types and addends and all other entries keep their bytes -/
theorem swap_refines (c : Cls) (k : RelKind) (enc : Enc) (b : SecBuf) (es : List RelocEntry)
    (h : TableSec c k enc b es) (hfit : ∀ e ∈ es, Fits c e) (hn : es.length < 4294967296)
    (first second : BitVec 64) (ha : first.toNat < symLimit c) (hb : second.toNat < symLimit c) :
    ∃ b', swapSymbols enc b first second = .ok b' ∧
      TableSec c k enc b' (swapTable first.toNat second.toNat es) := by
  unfold swapSymbols
  have hcnt : (entriesNumV b).toNat = es.length := by rw [entriesNumV_toNat, h.count]
  rw [hcnt]
  exact swapLoop_spec c k enc first second ha hb es hfit hn (es.length + 1) 0 b _ (by omega) (by omega)
    (by simpa using h)

/-- **swap_symbols twice restores the table**, byte for byte -/
theorem swap_symbols_involutive (c : Cls) (k : RelKind) (enc : Enc) (b : SecBuf) (es : List RelocEntry)
    (h : TableSec c k enc b es) (hfit : ∀ e ∈ es, Fits c e) (hn : es.length < 4294967296)
    (first second : BitVec 64) (ha : first.toNat < symLimit c) (hb : second.toNat < symLimit c) :
    ∃ b1 b2, swapSymbols enc b first second = .ok b1 ∧ swapSymbols enc b1 first second = .ok b2 ∧
      b2.content = b.content ∧ TableSec c k enc b2 es := by
  obtain ⟨b1, h1, t1⟩ := swap_refines c k enc b es h hfit hn first second ha hb
  have hfit1 : ∀ e ∈ swapTable first.toNat second.toNat es, Fits c e := by
    intro e he
    simp only [swapTable, List.mem_map] at he
    obtain ⟨e0, hm, rfl⟩ := he
    exact fits_swapSym c _ _ ha hb e0 (hfit e0 hm)
  obtain ⟨b2, h2, t2⟩ := swap_refines c k enc b1 _ t1 hfit1 (by simpa [swapTable] using hn) first second ha hb
  rw [swapTable_involutive] at t2
  exact ⟨b1, b2, h1, h2, by rw [t2.tab, h.tab], t2⟩

/-! ### reachable starting points and non-vacuity -/

/-- a freshly created section with the type and entry size of a relocation table is a `TableSec`
    for the empty table -/
theorem fresh_reloc (c : Cls) (k : RelKind) (enc : Enc) :
    TableSec c k enc { SecBuf.fresh c (shtOf k) with entSize := BitVec.ofNat 64 (Spec.entSize c k) } [] := by
  have hty : shtOf k ≠ BitVec.ofNat 32 SHT_NOBITS := by cases k <;> decide
  have r : ({ SecBuf.fresh c (shtOf k) with entSize := BitVec.ofNat 64 (Spec.entSize c k) } : SecBuf).Resident :=
    ⟨hty, by simp [SecBuf.fresh], Or.inl ⟨rfl, rfl, rfl⟩, by simp [SecBuf.fresh]⟩
  have he : (BitVec.ofNat 64 (Spec.entSize c k)).toNat = Spec.entSize c k := by
    cases c <;> cases k <;> decide
  refine ⟨⟨Or.inl r, rfl, rfl, by show _ ≤ (BitVec.ofNat 64 _).toNat; rw [he]; exact Nat.le_refl _⟩, he, ?_⟩
  rw [C07.content_resident r]; simp [SecBuf.view, SecBuf.fresh, encodeRelTable]

example : RelocSec .c32 .rela { SecBuf.fresh .c32 (shtOf .rela) with entSize := 12 } :=
  (fresh_reloc .c32 .rela .msb).sec
example : Fits .c32 ({ offset := 0x1122334455, symbol := 0xFFFFFF, type := 0xFF, addend := -1 } : Entry).toSpec := by
  simp [Fits, Entry.toSpec]
example : SecBuf.Bound .c32 ((0 + 40) * Spec.entSize .c32 .rela) := by
  simp [SecBuf.Bound, Spec.entSize, wordBytes]
example : (0x10203#64).toNat < symLimit .c32 := by decide

/-! ### outside the property's domain: an entry size below `sizeof(T)`

`generic_get_entry_*` refuse such a table; `generic_set_entry_*` (and therefore `swap_symbols`) had no
such guard — the record written at `index * entry_size` reached past the section's last entry (found
here, reported under the memory-safety property of table accesses on loaded files, C18).  Since
fixes/21-reloc-set-entry-checks the setters have the getters' guards: the call leaves the table alone. -/

/-- the member writes without the guard: ELF32 REL table with `sh_entsize = 4`, one 8-byte entry —
    the write for index 1 (8/4 = 2 "entries") goes 4 bytes past the 8-byte buffer -/
def isOobWrite {α : Type} : M α → Bool
  | .error (.oobWrite _) => true
  | _ => false

theorem set_entry_small_entsize_witness :
    isOobWrite (do
      let b ← addRel .lsb { SecBuf.fresh .c32 (BitVec.ofNat 32 SHT_REL) with entSize := 4 } 1 2 3
      setWrites ops32rel .lsb b 1 { offset := 1, symbol := 2, type := 3, addend := 0 }) = true := by decide

/-- … and `set_entry` itself (after the fix): index 1 passes the index guard, the entry-size guard stops
    the call, the section is untouched -/
def isOkTrue : M Bool → Bool
  | .ok true => true
  | _ => false

theorem set_entry_small_entsize_noop :
    isOkTrue (do
      let b ← addRel .lsb { SecBuf.fresh .c32 (BitVec.ofNat 32 SHT_REL) with entSize := 4 } 1 2 3
      let r ← setEntry .lsb b 1 { offset := 1, symbol := 2, type := 3, addend := 0 }
      pure (r.1.data == b.data && r.2)) = true := by decide

/-- with `sizeof(T) ≤ entry_size`, `set_entry` is total on every relocation table with the invariant
    (valid index: `set_entry_frame`; invalid index: `set_invalid`) -/
theorem set_total (c : Cls) (k : RelKind) (enc : Enc) (b : SecBuf) (hR : RelocSec c k b) (idx : BitVec 64)
    (e : Entry) : ∃ r, setEntry enc b idx e = .ok r := by
  by_cases hidx : idx.toNat < b.size.toNat / b.entSize.toNat
  · obtain ⟨b', h, _⟩ := set_entry_frame c k enc b hR idx hidx e
    exact ⟨_, h⟩
  · exact ⟨_, set_invalid enc b idx e (by omega)⟩

/-! more non-vacuity: concrete reachable states meet the hypotheses of the theorems above -/
example : TableSec .c64 .rel .lsb { SecBuf.fresh .c64 (shtOf .rel) with entSize := 16 } [] :=
  fresh_reloc .c64 .rel .lsb
example : ∀ e ∈ [({ offset := 5, symbol := 0xFFFFFFFF, type := 0x80000000, addend := 0 } : Entry)], Fits .c64 e.toSpec :=
  fun e _ => fits_c64 e
example : (BitVec.ofNat 64 3).toNat < (BitVec.ofNat 64 96).toNat / (BitVec.ofNat 64 24).toNat := by decide
example : BitVec.sle (-2147483648#64) (-5#64) = true ∧ BitVec.sle (-5#64) 2147483647#64 = true := by decide

end C11
end ElfioVerif
