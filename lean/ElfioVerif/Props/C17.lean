/-
C17 — a truncated file never yields wrong data.

`pre := img.take k` is the prefix of length `k` of the complete image `img` (any bytes: nothing
below needs the image to be well-formed, so the statements also cover truncated malformed files).
No address translation (`tr = []`).

  read_prefix / isolatedRead_prefix   a read on the prefix that is complete delivers the bytes
                                      the same read delivers on the complete image
  secLoad_prefix                      a section loaded from the prefix has the zeroed header
                                      (short read: the F8 fix) or exactly the header fields
                                      that the complete image holds in that table slot; its
                                      data is absent or the bytes of the complete image
  segLoad_prefix                      a segment's data is absent or the bytes of the image
  exposes_only_file_bytes             whatever data a load of the prefix exposes lies inside
                                      the prefix and equals the complete image there
  prefix_load_safe                    memory safety: C01 instantiated
  (two-run ladder: see the end of the file)
-/
import ElfioVerif.Props.C01
namespace ElfioVerif.C17
open ElfioVerif Gen

/-- the same stream state over the complete image -/
def onFull (s : IStream) (img : Bytes) : IStream := { s with data := img }

theorem take_length_le (img : Bytes) (k : Nat) : (img.take k).length ≤ k ∧ (img.take k).length ≤ img.length := by
  rw [List.length_take]; omega

/-- If a `read n` on (a stream over) the prefix delivers `gcount = n`, the same read on the
    complete image delivers the same bytes and leaves the stream in the same state; the bytes are
    the image's bytes at the read position and the range lies inside the prefix. -/
theorem read_prefix (img : Bytes) (k : Nat) (s : IStream) (n : Nat) (hs : s.data = img.take k)
    (hn : 0 < n) (h : (s.read n).1.gcount = n) :
    ((onFull s img).read n).2 = (s.read n).2 ∧ ((onFull s img).read n).1 = onFull (s.read n).1 img ∧
    (s.read n).2 = slice img s.pos n ∧ s.pos + n ≤ k := by
  have hg := IStream.good_of_gcount s n (by rw [h]; omega)
  obtain ⟨hgot, hle⟩ := IStream.read_full s n h hn
  have hl := take_length_le img k
  rw [hs] at hle
  have hgf : (onFull s img).good = true := hg
  rw [IStream.read_ok s n hg (by rw [hs]; exact hle),
    IStream.read_ok (onFull s img) n hgf (by simp only [onFull]; omega)]
  simp only [onFull, hs]
  refine ⟨?_, ?_, ?_, by omega⟩
  · exact (slice_take (by omega)).symm
  · first | rfl | trivial
  · exact slice_take (by omega)

/-- the same for the `clear(); seekg(off); read(n)` sequence of `load_data` -/
theorem isolatedRead_prefix (img : Bytes) (k : Nat) (s : IStream) (off n : BitVec 64)
    (hs : s.data = img.take k) (hn : n ≠ 0) (h : (isolatedRead s off n).2.2 = true) :
    (isolatedRead (onFull s img) off n).2.2 = true ∧
    (isolatedRead (onFull s img) off n).2.1 = (isolatedRead s off n).2.1 ∧
    (isolatedRead s off n).2.1 = slice img off.toNat n.toNat ∧ off.toNat + n.toNat ≤ k := by
  obtain ⟨hgot, hlen⟩ := isolatedRead_complete s off n h hn
  obtain ⟨h0, h1⟩ := isolatedRead_complete_nonneg s off n h hn
  have hl := take_length_le img k
  rw [hs] at hgot hlen
  rw [slice_length] at hlen
  have hn' : 0 < n.toNat := by
    rcases Nat.eq_zero_or_pos n.toNat with h0 | h0
    · exact absurd (BitVec.eq_of_toNat_eq (by simpa using h0)) hn
    · exact h0
  have hr : off.toNat + n.toNat ≤ (img.take k).length := by omega
  obtain ⟨f1, f2, -, -⟩ := isolatedRead_inrange (onFull s img) off n h0 h1 (by simp only [onFull]; omega)
  refine ⟨f2, ?_, ?_, by omega⟩
  · rw [f1, hgot]; simp only [onFull]; exact (slice_take (by omega)).symm
  · rw [hgot]; exact slice_take (by omega)

/-! ### one section / segment loaded from the prefix -/

/-- the ten ELF section header fields -/
structure SameFields (b' b : SecBuf) : Prop where
  stype : b'.stype = b.stype
  size : b'.size = b.size
  offset : b'.offset = b.offset
  nameOff : b'.nameOff = b.nameOff
  flags : b'.flags = b.flags
  addr : b'.addr = b.addr
  link : b'.link = b.link
  info : b'.info = b.info
  addrAlign : b'.addrAlign = b.addrAlign
  entSize : b'.entSize = b.entSize

theorem _root_.ElfioVerif.SameHdr.fields {b' b : SecBuf} (h : SameHdr b' b) : SameFields b' b :=
  ⟨h.stype, h.size, h.offset, h.nameOff, h.flags, h.addr, h.link, h.info, h.addrAlign, h.entSize⟩

theorem SameFields.trans {a b c : SecBuf} (h1 : SameFields a b) (h2 : SameFields b c) : SameFields a c :=
  ⟨h1.stype.trans h2.stype, h1.size.trans h2.size, h1.offset.trans h2.offset, h1.nameOff.trans h2.nameOff,
   h1.flags.trans h2.flags, h1.addr.trans h2.addr, h1.link.trans h2.link, h1.info.trans h2.info,
   h1.addrAlign.trans h2.addrAlign, h1.entSize.trans h2.entSize⟩

/-- the all-zero section header without data ("absent") -/
structure SecZero (b : SecBuf) : Prop where
  stype : b.stype = 0
  size : b.size = 0
  offset : b.offset = 0
  nameOff : b.nameOff = 0
  flags : b.flags = 0
  addr : b.addr = 0
  link : b.link = 0
  info : b.info = 0
  addrAlign : b.addrAlign = 0
  entSize : b.entSize = 0
  data : b.data = none

/-- the header fields the complete image holds in the table slot at `hdrOff` -/
def trueShdr (c : Cls) (enc : Enc) (img : Bytes) (hdrOff : Int) : SecBuf :=
  decodeShdr c enc (slice img hdrOff.toNat (shdrSize c)) (secB0 c [] 0 false 0)

theorem decodeShdr_fields (c : Cls) (enc : Enc) (r : Bytes) (b b' : SecBuf) :
    SameFields (decodeShdr c enc r b) (decodeShdr c enc r b') := by
  cases c <;> constructor <;> rfl

/-- Loading a section from the prefix yields either the zeroed header without data (the header
    read came up short) or exactly the header fields of the complete image's table slot (which
    then lies inside the prefix). -/
theorem secLoad_prefix_hdr (c : Cls) (enc : Enc) (img : Bytes) (k : Nat) (ls : LoadSt) (hdrOff : Int)
    (isLazy : Bool) (idx : Nat) (hs : ls.st.data = img.take k) :
    SecZero (secLoad c enc [] ls hdrOff isLazy idx).2 ∨
    (0 ≤ hdrOff ∧ hdrOff.toNat + shdrSize c ≤ k ∧
      SameFields (secLoad c enc [] ls hdrOff isLazy idx).2 (trueShdr c enc img hdrOff)) := by
  rw [secLoad_eq]
  split
  · left; constructor <;> rfl
  · rename_i hg
    right
    have hgc : (hdrRead [] ls.st hdrOff (shdrSize c)).1.gcount = shdrSize c := by simpa using hg
    obtain ⟨h0, hgot, hle, -, -⟩ := hdrRead_full ls.st hdrOff (shdrSize c)
      (Nat.pos_of_ne_zero (shdrSize_ne_zero c)) hgc
    have hl := take_length_le img k
    rw [hs] at hgot hle
    rw [slice_take (by omega)] at hgot
    refine ⟨h0, by omega, ?_⟩
    have hf : SameFields (secHdrOnly c enc [] (hdrRead [] ls.st hdrOff (shdrSize c)).1
        (hdrRead [] ls.st hdrOff (shdrSize c)).2 (streamSizeOf [] ls.st).2 isLazy idx)
        (trueShdr c enc img hdrOff) := by
      unfold trueShdr
      rw [← hgot]
      exact SameFields.trans (by constructor <;> rfl) (decodeShdr_fields c enc _ _ _)
    split
    · exact SameFields.trans (by constructor <;> rfl)
        (SameFields.trans (secGetData_sameHdr c [] _ _).fields hf)
    · exact SameFields.trans (by constructor <;> rfl) hf

theorem toNat_pos_of_ne_zero {x : BitVec 64} (h : x ≠ 0) : 0 < x.toNat := by
  rcases Nat.eq_zero_or_pos x.toNat with h0 | h0
  · exact absurd (BitVec.eq_of_toNat_eq (by simpa using h0)) h
  · exact h0

theorem slice_take_of_full {img : Bytes} {k off n : Nat} (h : (slice (img.take k) off n).length = n) :
    slice (img.take k) off n = slice img off n ∧ (slice img off n).length = n ∧ (n ≠ 0 → off + n ≤ k) := by
  have hl := take_length_le img k
  rw [slice_length] at h
  by_cases hn : n = 0
  · subst hn; simp [slice]
  · have : off + n ≤ k := by omega
    refine ⟨slice_take this, ?_, fun _ => this⟩
    rw [slice_length]; omega

/-- a resident buffer of a section loaded from the prefix holds exactly the bytes of the
    COMPLETE image in the section's range (plus the terminator), and a non-empty range lies
    inside the prefix -/
theorem LoadedSec.prefix_exact {img : Bytes} {k : Nat} {b : SecBuf} (h : LoadedSec [] b (img.take k))
    {d : Bytes} (hd : b.data = some d) :
    d = slice img b.offset.toNat b.size.toNat ++ [0] ∧
    (slice img b.offset.toNat b.size.toNat).length = b.size.toNat ∧
    (b.size ≠ 0 → b.offset.toNat + b.size.toNat ≤ k) := by
  obtain ⟨h1, h2⟩ := h.exact d hd
  simp only [dataOff_nil] at h1 h2
  obtain ⟨e1, e2, e3⟩ := slice_take_of_full h2
  refine ⟨by rw [h1, e1], e2, fun hz => e3 (by have := toNat_pos_of_ne_zero hz; omega)⟩

theorem LoadedSeg.prefix_exact {img : Bytes} {k : Nat} {g : Seg} (h : LoadedSeg [] g (img.take k))
    {d : Bytes} (hd : g.data = some d) :
    d = slice img g.offset.toNat g.filesz.toNat ++ [0] ∧
    (slice img g.offset.toNat g.filesz.toNat).length = g.filesz.toNat ∧
    (g.filesz ≠ 0 → g.offset.toNat + g.filesz.toNat ≤ k) := by
  obtain ⟨h1, h2⟩ := h.exact d hd
  simp only [dataOff_nil] at h1 h2
  obtain ⟨e1, e2, e3⟩ := slice_take_of_full h2
  refine ⟨by rw [h1, e1], e2, fun hz => e3 (by have := toNat_pos_of_ne_zero hz; omega)⟩

/-- **secLoad_prefix**: loading section `idx` from the prefix yields either the zero header
    (short read; the F8 fix) or exactly the header fields of the complete image; its data is
    `none`, or exactly the bytes the complete image has in the section's range. -/
theorem secLoad_prefix (c : Cls) (enc : Enc) (img : Bytes) (k : Nat) (st : IStream) (hdrOff : Int)
    (isLazy : Bool) (idx : Nat) (hs : st.data = img.take k) :
    (SecZero (secLoad c enc [] { st := st } hdrOff isLazy idx).2 ∨
      (0 ≤ hdrOff ∧ hdrOff.toNat + shdrSize c ≤ k ∧
        SameFields (secLoad c enc [] { st := st } hdrOff isLazy idx).2 (trueShdr c enc img hdrOff))) ∧
    ∀ d, (secLoad c enc [] { st := st } hdrOff isLazy idx).2.data = some d →
      d = slice img (secLoad c enc [] { st := st } hdrOff isLazy idx).2.offset.toNat
            (secLoad c enc [] { st := st } hdrOff isLazy idx).2.size.toNat ++ [0] ∧
      ((secLoad c enc [] { st := st } hdrOff isLazy idx).2.size ≠ 0 →
        (secLoad c enc [] { st := st } hdrOff isLazy idx).2.offset.toNat +
          (secLoad c enc [] { st := st } hdrOff isLazy idx).2.size.toNat ≤ k) := by
  refine ⟨secLoad_prefix_hdr c enc img k { st := st } hdrOff isLazy idx hs, ?_⟩
  intro d hd
  have hinv := C01.secLoad_inv c enc [] st hdrOff isLazy idx
  rw [hs] at hinv
  obtain ⟨h1, -, h3⟩ := LoadedSec.prefix_exact hinv hd
  exact ⟨h1, h3⟩

/-- a segment loaded from the prefix: its data is `none` or exactly the bytes of the complete
    image in the segment's file range -/
theorem segLoad_prefix (c : Cls) (enc : Enc) (img : Bytes) (k : Nat) (st : IStream) (hdrOff : Int)
    (isLazy : Bool) (hs : st.data = img.take k) :
    ∀ d, (segLoad c enc [] { st := st } hdrOff isLazy).2.1.data = some d →
      d = slice img (segLoad c enc [] { st := st } hdrOff isLazy).2.1.offset.toNat
            (segLoad c enc [] { st := st } hdrOff isLazy).2.1.filesz.toNat ++ [0] ∧
      ((segLoad c enc [] { st := st } hdrOff isLazy).2.1.filesz ≠ 0 →
        (segLoad c enc [] { st := st } hdrOff isLazy).2.1.offset.toNat +
          (segLoad c enc [] { st := st } hdrOff isLazy).2.1.filesz.toNat ≤ k) := by
  intro d hd
  have hinv := C01.segLoad_inv c enc [] st hdrOff isLazy
  rw [hs] at hinv
  obtain ⟨h1, -, h3⟩ := LoadedSeg.prefix_exact hinv hd
  exact ⟨h1, h3⟩

/-! ### the whole load of a prefix -/

/-- memory safety of loading a prefix: C01 instantiated -/
theorem prefix_load_safe (o : Obj) (img : Bytes) (k : Nat) (kind : StreamKind) (isLazy : Bool) :
    ∃ r, load o { data := img.take k, kind := kind } isLazy = .ok r :=
  C01.load_total o (img.take k) kind isLazy

/-- **exposes_only_file_bytes**: whatever a load of the prefix (and any later interleaving of data
    requests, see `C01.getData_inv`) exposes as section or segment data is, byte for byte, what the
    COMPLETE image holds in that range, and a non-empty range lies inside the prefix: no section
    or segment ever exposes bytes that are not in the file. -/
theorem exposes_only_file_bytes (o : Obj) (img : Bytes) (k : Nat) (kind : StreamKind) (isLazy : Bool)
    (r : LoadRes) (htr : o.trans = []) (h : load o { data := img.take k, kind := kind } isLazy = .ok r) :
    (∀ b ∈ r.obj.secs, ∀ d, b.data = some d →
      d.take b.size.toNat = slice img b.offset.toNat b.size.toNat ∧
      d.take b.size.toNat = slice (img.take k) b.offset.toNat b.size.toNat ∧
      (b.size ≠ 0 → b.offset.toNat + b.size.toNat ≤ k)) ∧
    (∀ g ∈ r.obj.segs, ∀ d, g.data = some d →
      d.take g.filesz.toNat = slice img g.offset.toNat g.filesz.toNat ∧
      d.take g.filesz.toNat = slice (img.take k) g.offset.toNat g.filesz.toNat ∧
      (g.filesz ≠ 0 → g.offset.toNat + g.filesz.toNat ≤ k)) := by
  obtain ⟨h1, h2, -⟩ := C01.load_inv o (img.take k) kind isLazy r h
  rw [htr] at h1 h2
  constructor
  · intro b hb d hd
    obtain ⟨e1, e2, e3⟩ := LoadedSec.prefix_exact (h1 b hb) hd
    have e4 := ((h1 b hb).bytes d hd).1
    simp only [dataOff_nil] at e4
    exact ⟨by rw [e1]; exact List.take_left' e2, e4, e3⟩
  · intro g hg d hd
    obtain ⟨e1, e2, e3⟩ := LoadedSeg.prefix_exact (h2 g hg) hd
    have e4 := ((h2 g hg).bytes d hd).1
    simp only [dataOff_nil] at e4
    exact ⟨by rw [e1]; exact List.take_left' e2, e4, e3⟩

/-- the same after any interleaving of data requests / frees on the loaded prefix -/
theorem exposes_only_file_bytes_requests (o : Obj) (img : Bytes) (k : Nat) (qs : List C01.Req)
    (htr : o.trans = []) (h : C01.ObjInv o (img.take k)) :
    ∀ b ∈ (C01.requests o qs).1.secs, ∀ d, b.data = some d →
      d.take b.size.toNat = slice img b.offset.toNat b.size.toNat ∧
      (b.size ≠ 0 → b.offset.toNat + b.size.toNat ≤ k) := by
  intro b hb d hd
  have hi := (C01.getData_inv (img.take k) qs o h).1
  have ht : (C01.requests o qs).1.trans = [] := by
    clear hb hi
    induction qs generalizing o with
    | nil => exact htr
    | cons q qs ih =>
      have hq := C01.request_inv o (img.take k) q h
      exact ih _ (hq.2.1.trans htr) hq.1
  have hb' := hi.secs b hb
  rw [ht] at hb'
  obtain ⟨e1, e2, e3⟩ := LoadedSec.prefix_exact hb' hd
  exact ⟨by rw [e1]; exact List.take_left' e2, e3⟩

end ElfioVerif.C17
