/-
C17 — a truncated file never yields wrong data.

`pre := img.take k` is the prefix of length `k` of the complete image `img` (any bytes: nothing
below needs the image to be well-formed, so the statements also cover truncated malformed files).
No address translation (`tr = []`).

  read_prefix / isolatedRead_prefix   a read on the prefix that is complete delivers the bytes
                                      the same read delivers on the complete image
  secLoad_prefix                      a section loaded from the prefix has the zeroed header
                                      (short read: the F8 fix) or exactly the header fields
                                      that the complete image holds in that table slot; its
                                      data is absent or the bytes of the complete image
  segLoad_prefix                      a segment's data is absent or the bytes of the image
  exposes_only_file_bytes             whatever data a load of the prefix exposes lies inside
                                      the prefix and equals the complete image there
  prefix_load_safe                    memory safety: C01 instantiated
  prefix_sound (+ _section, _segment) the composition over the loops, as a two-run simulation:
                                      if the load of the prefix returns true, the load of the
                                      complete image returns true with the identical ELF header
                                      and identical segments (fields, data, members), and every
                                      section of the prefix run is the zeroed one (only without
                                      segments) or has the same header fields with data absent or
                                      the same bytes.  Hypothesis: len < 2^63, no translation.
                                      Section names: for equal name offsets the prefix run's name
                                      is empty or the same string.
Not covered by a theorem (family docstring): the NAME of a zeroed section (it is the string at
offset 0 of the name table — empty only if the table starts with NUL: the one place where
well-formedness of the image is needed) and the accessor read-outs (separate families).
-/
import ElfioVerif.Props.C01
namespace ElfioVerif.C17
open ElfioVerif Gen

/-- the same stream state over the complete image -/
def onFull (s : IStream) (img : Bytes) : IStream := { s with data := img }

theorem take_length_le (img : Bytes) (k : Nat) : (img.take k).length ≤ k ∧ (img.take k).length ≤ img.length := by
  rw [List.length_take]; omega

/-- If a `read n` on (a stream over) the prefix delivers `gcount = n`, the same read on the
    complete image delivers the same bytes and leaves the stream in the same state; the bytes are
    the image's bytes at the read position and the range lies inside the prefix. -/
theorem read_prefix (img : Bytes) (k : Nat) (s : IStream) (n : Nat) (hs : s.data = img.take k)
    (hn : 0 < n) (h : (s.read n).1.gcount = n) :
    ((onFull s img).read n).2 = (s.read n).2 ∧ ((onFull s img).read n).1 = onFull (s.read n).1 img ∧
    (s.read n).2 = slice img s.pos n ∧ s.pos + n ≤ k := by
  have hg := IStream.good_of_gcount s n (by rw [h]; omega)
  obtain ⟨hgot, hle⟩ := IStream.read_full s n h hn
  have hl := take_length_le img k
  rw [hs] at hle
  have hgf : (onFull s img).good = true := hg
  rw [IStream.read_ok s n hg (by rw [hs]; exact hle),
    IStream.read_ok (onFull s img) n hgf (by simp only [onFull]; omega)]
  simp only [onFull, hs]
  refine ⟨?_, ?_, ?_, by omega⟩
  · exact (slice_take (by omega)).symm
  · first | rfl | trivial
  · exact slice_take (by omega)

/-- the same for the `clear(); seekg(off); read(n)` sequence of `load_data` -/
theorem isolatedRead_prefix (img : Bytes) (k : Nat) (s : IStream) (off n : BitVec 64)
    (hs : s.data = img.take k) (hn : n ≠ 0) (h : (isolatedRead s off n).2.2 = true) :
    (isolatedRead (onFull s img) off n).2.2 = true ∧
    (isolatedRead (onFull s img) off n).2.1 = (isolatedRead s off n).2.1 ∧
    (isolatedRead s off n).2.1 = slice img off.toNat n.toNat ∧ off.toNat + n.toNat ≤ k := by
  obtain ⟨hgot, hlen⟩ := isolatedRead_complete s off n h hn
  obtain ⟨h0, h1⟩ := isolatedRead_complete_nonneg s off n h hn
  have hl := take_length_le img k
  rw [hs] at hgot hlen
  rw [slice_length] at hlen
  have hn' : 0 < n.toNat := by
    rcases Nat.eq_zero_or_pos n.toNat with h0 | h0
    · exact absurd (BitVec.eq_of_toNat_eq (by simpa using h0)) hn
    · exact h0
  have hr : off.toNat + n.toNat ≤ (img.take k).length := by omega
  obtain ⟨f1, f2, -, -⟩ := isolatedRead_inrange (onFull s img) off n h0 h1 (by simp only [onFull]; omega)
  refine ⟨f2, ?_, ?_, by omega⟩
  · rw [f1, hgot]; simp only [onFull]; exact (slice_take (by omega)).symm
  · rw [hgot]; exact slice_take (by omega)

/-! ### one section / segment loaded from the prefix -/

/-- the ten ELF section header fields -/
structure SameFields (b' b : SecBuf) : Prop where
  stype : b'.stype = b.stype
  size : b'.size = b.size
  offset : b'.offset = b.offset
  nameOff : b'.nameOff = b.nameOff
  flags : b'.flags = b.flags
  addr : b'.addr = b.addr
  link : b'.link = b.link
  info : b'.info = b.info
  addrAlign : b'.addrAlign = b.addrAlign
  entSize : b'.entSize = b.entSize

theorem _root_.ElfioVerif.SameHdr.fields {b' b : SecBuf} (h : SameHdr b' b) : SameFields b' b :=
  ⟨h.stype, h.size, h.offset, h.nameOff, h.flags, h.addr, h.link, h.info, h.addrAlign, h.entSize⟩

theorem SameFields.trans {a b c : SecBuf} (h1 : SameFields a b) (h2 : SameFields b c) : SameFields a c :=
  ⟨h1.stype.trans h2.stype, h1.size.trans h2.size, h1.offset.trans h2.offset, h1.nameOff.trans h2.nameOff,
   h1.flags.trans h2.flags, h1.addr.trans h2.addr, h1.link.trans h2.link, h1.info.trans h2.info,
   h1.addrAlign.trans h2.addrAlign, h1.entSize.trans h2.entSize⟩

/-- the all-zero section header without data ("absent") -/
structure SecZero (b : SecBuf) : Prop where
  stype : b.stype = 0
  size : b.size = 0
  offset : b.offset = 0
  nameOff : b.nameOff = 0
  flags : b.flags = 0
  addr : b.addr = 0
  link : b.link = 0
  info : b.info = 0
  addrAlign : b.addrAlign = 0
  entSize : b.entSize = 0
  data : b.data = none

/-- the header fields the complete image holds in the table slot at `hdrOff` -/
def trueShdr (c : Cls) (enc : Enc) (img : Bytes) (hdrOff : Int) : SecBuf :=
  decodeShdr c enc (slice img hdrOff.toNat (shdrSize c)) (secB0 c [] 0 false 0)

theorem decodeShdr_fields (c : Cls) (enc : Enc) (r : Bytes) (b b' : SecBuf) :
    SameFields (decodeShdr c enc r b) (decodeShdr c enc r b') := by
  cases c <;> constructor <;> rfl

/-- Loading a section from the prefix yields either the zeroed header without data (the header
    read came up short) or exactly the header fields of the complete image's table slot (which
    then lies inside the prefix). -/
theorem secLoad_prefix_hdr (c : Cls) (enc : Enc) (img : Bytes) (k : Nat) (ls : LoadSt) (hdrOff : Int)
    (isLazy : Bool) (idx : Nat) (hs : ls.st.data = img.take k) :
    SecZero (secLoad c enc [] ls hdrOff isLazy idx).2 ∨
    (0 ≤ hdrOff ∧ hdrOff.toNat + shdrSize c ≤ k ∧
      SameFields (secLoad c enc [] ls hdrOff isLazy idx).2 (trueShdr c enc img hdrOff)) := by
  rw [secLoad_eq]
  split
  · left; constructor <;> rfl
  · rename_i hg
    right
    have hgc : (hdrRead [] ls.st hdrOff (shdrSize c)).1.gcount = shdrSize c := by simpa using hg
    obtain ⟨h0, hgot, hle, -, -⟩ := hdrRead_full ls.st hdrOff (shdrSize c)
      (Nat.pos_of_ne_zero (shdrSize_ne_zero c)) hgc
    have hl := take_length_le img k
    rw [hs] at hgot hle
    rw [slice_take (by omega)] at hgot
    refine ⟨h0, by omega, ?_⟩
    have hf : SameFields (secHdrOnly c enc [] (hdrRead [] ls.st hdrOff (shdrSize c)).1
        (hdrRead [] ls.st hdrOff (shdrSize c)).2 (streamSizeOf [] ls.st).2 isLazy idx)
        (trueShdr c enc img hdrOff) := by
      unfold trueShdr
      rw [← hgot]
      exact SameFields.trans (by constructor <;> rfl) (decodeShdr_fields c enc _ _ _)
    split
    · exact SameFields.trans (by constructor <;> rfl)
        (SameFields.trans (secGetData_sameHdr c [] _ _).fields hf)
    · exact SameFields.trans (by constructor <;> rfl) hf

theorem toNat_pos_of_ne_zero {x : BitVec 64} (h : x ≠ 0) : 0 < x.toNat := by
  rcases Nat.eq_zero_or_pos x.toNat with h0 | h0
  · exact absurd (BitVec.eq_of_toNat_eq (by simpa using h0)) h
  · exact h0

theorem slice_take_of_full {img : Bytes} {k off n : Nat} (h : (slice (img.take k) off n).length = n) :
    slice (img.take k) off n = slice img off n ∧ (slice img off n).length = n ∧ (n ≠ 0 → off + n ≤ k) := by
  have hl := take_length_le img k
  rw [slice_length] at h
  by_cases hn : n = 0
  · subst hn; simp [slice]
  · have : off + n ≤ k := by omega
    refine ⟨slice_take this, ?_, fun _ => this⟩
    rw [slice_length]; omega

/-- a resident buffer of a section loaded from the prefix holds exactly the bytes of the
    COMPLETE image in the section's range (plus the terminator), and a non-empty range lies
    inside the prefix -/
theorem LoadedSec.prefix_exact {img : Bytes} {k : Nat} {b : SecBuf} (h : LoadedSec [] b (img.take k))
    {d : Bytes} (hd : b.data = some d) :
    d = slice img b.offset.toNat b.size.toNat ++ [0] ∧
    (slice img b.offset.toNat b.size.toNat).length = b.size.toNat ∧
    (b.size ≠ 0 → b.offset.toNat + b.size.toNat ≤ k) := by
  obtain ⟨h1, h2⟩ := h.exact d hd
  simp only [dataOff_nil] at h1 h2
  obtain ⟨e1, e2, e3⟩ := slice_take_of_full h2
  refine ⟨by rw [h1, e1], e2, fun hz => e3 (by have := toNat_pos_of_ne_zero hz; omega)⟩

theorem LoadedSeg.prefix_exact {img : Bytes} {k : Nat} {g : Seg} (h : LoadedSeg [] g (img.take k))
    {d : Bytes} (hd : g.data = some d) :
    d = slice img g.offset.toNat g.filesz.toNat ++ [0] ∧
    (slice img g.offset.toNat g.filesz.toNat).length = g.filesz.toNat ∧
    (g.filesz ≠ 0 → g.offset.toNat + g.filesz.toNat ≤ k) := by
  obtain ⟨h1, h2⟩ := h.exact d hd
  simp only [dataOff_nil] at h1 h2
  obtain ⟨e1, e2, e3⟩ := slice_take_of_full h2
  refine ⟨by rw [h1, e1], e2, fun hz => e3 (by have := toNat_pos_of_ne_zero hz; omega)⟩

/-- **secLoad_prefix**: loading section `idx` from the prefix yields either the zero header
    (short read; the F8 fix) or exactly the header fields of the complete image; its data is
    `none`, or exactly the bytes the complete image has in the section's range. -/
theorem secLoad_prefix (c : Cls) (enc : Enc) (img : Bytes) (k : Nat) (st : IStream) (hdrOff : Int)
    (isLazy : Bool) (idx : Nat) (hs : st.data = img.take k) :
    (SecZero (secLoad c enc [] { st := st } hdrOff isLazy idx).2 ∨
      (0 ≤ hdrOff ∧ hdrOff.toNat + shdrSize c ≤ k ∧
        SameFields (secLoad c enc [] { st := st } hdrOff isLazy idx).2 (trueShdr c enc img hdrOff))) ∧
    ∀ d, (secLoad c enc [] { st := st } hdrOff isLazy idx).2.data = some d →
      d = slice img (secLoad c enc [] { st := st } hdrOff isLazy idx).2.offset.toNat
            (secLoad c enc [] { st := st } hdrOff isLazy idx).2.size.toNat ++ [0] ∧
      ((secLoad c enc [] { st := st } hdrOff isLazy idx).2.size ≠ 0 →
        (secLoad c enc [] { st := st } hdrOff isLazy idx).2.offset.toNat +
          (secLoad c enc [] { st := st } hdrOff isLazy idx).2.size.toNat ≤ k) := by
  refine ⟨secLoad_prefix_hdr c enc img k { st := st } hdrOff isLazy idx hs, ?_⟩
  intro d hd
  have hinv := C01.secLoad_inv c enc [] st hdrOff isLazy idx
  rw [hs] at hinv
  obtain ⟨h1, -, h3⟩ := LoadedSec.prefix_exact hinv hd
  exact ⟨h1, h3⟩

/-- a segment loaded from the prefix: its data is `none` or exactly the bytes of the complete
    image in the segment's file range -/
theorem segLoad_prefix (c : Cls) (enc : Enc) (img : Bytes) (k : Nat) (st : IStream) (hdrOff : Int)
    (isLazy : Bool) (hs : st.data = img.take k) :
    ∀ d, (segLoad c enc [] { st := st } hdrOff isLazy).2.1.data = some d →
      d = slice img (segLoad c enc [] { st := st } hdrOff isLazy).2.1.offset.toNat
            (segLoad c enc [] { st := st } hdrOff isLazy).2.1.filesz.toNat ++ [0] ∧
      ((segLoad c enc [] { st := st } hdrOff isLazy).2.1.filesz ≠ 0 →
        (segLoad c enc [] { st := st } hdrOff isLazy).2.1.offset.toNat +
          (segLoad c enc [] { st := st } hdrOff isLazy).2.1.filesz.toNat ≤ k) := by
  intro d hd
  have hinv := C01.segLoad_inv c enc [] st hdrOff isLazy
  rw [hs] at hinv
  obtain ⟨h1, -, h3⟩ := LoadedSeg.prefix_exact hinv hd
  exact ⟨h1, h3⟩

/-! ### the whole load of a prefix -/

/-- memory safety of loading a prefix: C01 instantiated -/
theorem prefix_load_safe (o : Obj) (img : Bytes) (k : Nat) (kind : StreamKind) (isLazy : Bool) :
    ∃ r, load o { data := img.take k, kind := kind } isLazy = .ok r :=
  C01.load_total o (img.take k) kind isLazy

/-- **exposes_only_file_bytes**: whatever a load of the prefix (and any later interleaving of data
    requests, see `C01.getData_inv`) exposes as section or segment data is, byte for byte, what the
    COMPLETE image holds in that range, and a non-empty range lies inside the prefix: no section
    or segment ever exposes bytes that are not in the file. -/
theorem exposes_only_file_bytes (o : Obj) (img : Bytes) (k : Nat) (kind : StreamKind) (isLazy : Bool)
    (r : LoadRes) (htr : o.trans = []) (h : load o { data := img.take k, kind := kind } isLazy = .ok r) :
    (∀ b ∈ r.obj.secs, ∀ d, b.data = some d →
      d.take b.size.toNat = slice img b.offset.toNat b.size.toNat ∧
      d.take b.size.toNat = slice (img.take k) b.offset.toNat b.size.toNat ∧
      (b.size ≠ 0 → b.offset.toNat + b.size.toNat ≤ k)) ∧
    (∀ g ∈ r.obj.segs, ∀ d, g.data = some d →
      d.take g.filesz.toNat = slice img g.offset.toNat g.filesz.toNat ∧
      d.take g.filesz.toNat = slice (img.take k) g.offset.toNat g.filesz.toNat ∧
      (g.filesz ≠ 0 → g.offset.toNat + g.filesz.toNat ≤ k)) := by
  obtain ⟨h1, h2, -⟩ := C01.load_inv o (img.take k) kind isLazy r h
  rw [htr] at h1 h2
  constructor
  · intro b hb d hd
    obtain ⟨e1, e2, e3⟩ := LoadedSec.prefix_exact (h1 b hb) hd
    have e4 := ((h1 b hb).bytes d hd).1
    simp only [dataOff_nil] at e4
    exact ⟨by rw [e1]; exact List.take_left' e2, e4, e3⟩
  · intro g hg d hd
    obtain ⟨e1, e2, e3⟩ := LoadedSeg.prefix_exact (h2 g hg) hd
    have e4 := ((h2 g hg).bytes d hd).1
    simp only [dataOff_nil] at e4
    exact ⟨by rw [e1]; exact List.take_left' e2, e4, e3⟩

/-- the same after any interleaving of data requests / frees on the loaded prefix -/
theorem exposes_only_file_bytes_requests (o : Obj) (img : Bytes) (k : Nat) (qs : List C01.Req)
    (htr : o.trans = []) (h : C01.ObjInv o (img.take k)) :
    ∀ b ∈ (C01.requests o qs).1.secs, ∀ d, b.data = some d →
      d.take b.size.toNat = slice img b.offset.toNat b.size.toNat ∧
      (b.size ≠ 0 → b.offset.toNat + b.size.toNat ≤ k) := by
  intro b hb d hd
  have hi := (C01.getData_inv (img.take k) qs o h).1
  have ht : (C01.requests o qs).1.trans = [] := by
    clear hb hi
    induction qs generalizing o with
    | nil => exact htr
    | cons q qs ih =>
      have hq := C01.request_inv o (img.take k) q h
      exact ih _ (hq.2.1.trans htr) hq.1
  have hb' := hi.secs b hb
  rw [ht] at hb'
  obtain ⟨e1, e2, e3⟩ := LoadedSec.prefix_exact hb' hd
  exact ⟨by rw [e1]; exact List.take_left' e2, e3⟩

/-! ## the two-run ladder: the load of the prefix against the load of the complete image -/

/-- element-wise relation of two lists -/
inductive ListRel {α β : Type} (R : α → β → Prop) : List α → List β → Prop
  | nil : ListRel R [] []
  | cons {a b as bs} : R a b → ListRel R as bs → ListRel R (a :: as) (b :: bs)

namespace ListRel
variable {α β : Type} {R : α → β → Prop}

theorem length_eq {as : List α} {bs : List β} (h : ListRel R as bs) : as.length = bs.length := by
  induction h with
  | nil => rfl
  | cons _ _ ih => simp [ih]

theorem append {as as' : List α} {bs bs' : List β} (h : ListRel R as bs) (h' : ListRel R as' bs') :
    ListRel R (as ++ as') (bs ++ bs') := by
  induction h with
  | nil => exact h'
  | cons hr _ ih => exact .cons hr ih

theorem reverse {as : List α} {bs : List β} (h : ListRel R as bs) : ListRel R as.reverse bs.reverse := by
  induction h with
  | nil => exact .nil
  | cons hr _ ih => rw [List.reverse_cons, List.reverse_cons]; exact ih.append (.cons hr .nil)

theorem mono {R' : α → β → Prop} {as : List α} {bs : List β} (h : ListRel R as bs)
    (hm : ∀ a b, R a b → R' a b) : ListRel R' as bs := by
  induction h with
  | nil => exact .nil
  | cons hr _ ih => exact .cons (hm _ _ hr) ih

theorem map {γ δ : Type} {R' : γ → δ → Prop} {as : List α} {bs : List β} (f : α → γ) (g : β → δ)
    (h : ListRel R as bs) (hm : ∀ a b, R a b → R' (f a) (g b)) : ListRel R' (as.map f) (bs.map g) := by
  induction h with
  | nil => exact .nil
  | cons hr _ ih => exact .cons (hm _ _ hr) ih

theorem getElem? {as : List α} {bs : List β} (h : ListRel R as bs) (i : Nat) :
    (as[i]? = none ∧ bs[i]? = none) ∨ ∃ a b, as[i]? = some a ∧ bs[i]? = some b ∧ R a b := by
  induction h generalizing i with
  | nil => left; simp
  | cons hr _ ih =>
    cases i with
    | zero => right; exact ⟨_, _, rfl, rfl, hr⟩
    | succ i => simpa using ih i

theorem set {as : List α} {bs : List β} (h : ListRel R as bs) (i : Nat) {a : α} {b : β} (hr : R a b) :
    ListRel R (as.set i a) (bs.set i b) := by
  induction h generalizing i with
  | nil => exact .nil
  | cons hr' _ ih =>
    cases i with
    | zero => exact .cons hr ‹_›
    | succ i => exact .cons hr' (ih i)

theorem filter_map {γ : Type} {as : List α} {bs : List β} (h : ListRel R as bs) (p : α → Bool) (q : β → Bool)
    (f : α → γ) (g : β → γ) (hpq : ∀ a b, R a b → p a = q b ∧ f a = g b) :
    (as.filter p).map f = (bs.filter q).map g := by
  induction h with
  | nil => rfl
  | cons hr _ ih =>
    obtain ⟨h1, h2⟩ := hpq _ _ hr
    simp only [List.filter_cons, h1]
    split
    · simp [h2, ih]
    · exact ih

end ListRel

/-- stream of the prefix run vs stream of the run on the complete image: same kind, and the
    complete run has not failed unless the prefix run has -/
structure Sim (img : Bytes) (k : Nat) (sp sf : IStream) : Prop where
  dp : sp.data = img.take k
  df : sf.data = img
  kind : sp.kind = sf.kind
  fail : sf.fail = true → sp.fail = true

theorem read_gcount_ne (s : IStream) (n : Nat) (h : (s.read n).1.gcount ≠ n) : (s.read n).1.fail = true := by
  unfold IStream.read at h ⊢
  split
  · rfl
  · split
    · rename_i h1 h2; simp [h1, h2] at h
    · rfl

/-- `seekg(p); read(n)` on both streams: the prefix run either fails (and stays failed), or both
    reads are complete and deliver the same bytes — the image's bytes at `p` -/
theorem seekRead_sim {img : Bytes} {k : Nat} {sp sf : IStream} (h : Sim img k sp sf) (p : Int) (n : Nat)
    (hn : 0 < n) :
    Sim img k ((sp.seekg p).read n).1 ((sf.seekg p).read n).1 ∧
    (((sp.seekg p).read n).1.gcount = n →
      ((sf.seekg p).read n).1.gcount = n ∧ ((sf.seekg p).read n).2 = ((sp.seekg p).read n).2 ∧
      ((sp.seekg p).read n).1.fail = false ∧ ((sf.seekg p).read n).1.fail = false ∧
      0 ≤ p ∧ p.toNat + n ≤ k ∧ ((sp.seekg p).read n).2 = slice img p.toNat n) ∧
    (((sp.seekg p).read n).1.gcount ≠ n → ((sp.seekg p).read n).1.fail = true) := by
  have hl := take_length_le img k
  by_cases hg : ((sp.seekg p).read n).1.gcount = n
  · have hgood := IStream.good_of_gcount _ _ (by rw [hg]; omega)
    obtain ⟨hp0, hpos, hspf⟩ := IStream.seekg_good _ _ hgood
    obtain ⟨hgot, hle⟩ := IStream.read_full _ _ hg hn
    rw [hpos] at hgot hle
    simp only [IStream.seekg_data, h.dp] at hgot hle
    have hsff : sf.fail = false := by
      cases hx : sf.fail
      · rfl
      · rw [h.fail hx] at hspf; exact absurd hspf (by decide)
    have e1 : sp.seekg p = { sp with eof := false, pos := p.toNat } :=
      IStream.seekg_ok sp p hspf hp0 (by rw [h.dp]; omega)
    have e2 : sf.seekg p = { sf with eof := false, pos := p.toNat } :=
      IStream.seekg_ok sf p hsff hp0 (by rw [h.df]; omega)
    have r1 := IStream.read_ok { sp with eof := false, pos := p.toNat } n
      (by simp [IStream.good, hspf]) (by simp only [h.dp]; omega)
    have r2 := IStream.read_ok { sf with eof := false, pos := p.toNat } n
      (by simp [IStream.good, hsff]) (by simp only [h.df]; omega)
    rw [e1, e2, r1, r2]
    simp only [h.dp, h.df]
    refine ⟨⟨rfl, rfl, h.kind, fun hx => by rw [hsff] at hx; exact absurd hx (by decide)⟩, ?_, ?_⟩
    · intro _
      exact ⟨trivial, (slice_take (by omega)).symm, hspf, hsff, hp0, by omega, slice_take (by omega)⟩
    · intro hx; exact absurd rfl hx
  · have hf := read_gcount_ne _ _ hg
    refine ⟨⟨by simp [h.dp], by simp [h.df], by simp [h.kind], fun _ => hf⟩, fun hx => absurd hx hg, fun _ => hf⟩

theorem streamSizeOf_nil_fail (s : IStream) : (streamSizeOf [] s).1.fail = s.fail := by
  rw [streamSizeOf_nil]; cases hf : s.fail <;> simp [hf]

theorem streamSizeOf_sim {img : Bytes} {k : Nat} {sp sf : IStream} (h : Sim img k sp sf) :
    Sim img k (streamSizeOf [] sp).1 (streamSizeOf [] sf).1 :=
  ⟨by simp [h.dp], by simp [h.df], by simp [h.kind], by
    rw [streamSizeOf_nil_fail, streamSizeOf_nil_fail]; exact h.fail⟩

/-- reading a table entry in both runs -/
theorem hdrRead_sim {img : Bytes} {k : Nat} {sp sf : IStream} (h : Sim img k sp sf) (p : Int) (n : Nat)
    (hn : 0 < n) :
    Sim img k (hdrRead [] sp p n).1 (hdrRead [] sf p n).1 ∧
    ((hdrRead [] sp p n).1.gcount = n →
      (hdrRead [] sf p n).1.gcount = n ∧ (hdrRead [] sf p n).2 = (hdrRead [] sp p n).2 ∧
      (hdrRead [] sp p n).1.fail = false ∧ (hdrRead [] sf p n).1.fail = false ∧
      0 ≤ p ∧ p.toNat + n ≤ k ∧ (hdrRead [] sp p n).2 = slice img p.toNat n) ∧
    ((hdrRead [] sp p n).1.gcount ≠ n → (hdrRead [] sp p n).1.fail = true) :=
  seekRead_sim (streamSizeOf_sim h) p n hn

/-! ### one section in both runs -/

theorem g_off_gt_of_le {off ss : BitVec 64} (h : off.toNat ≤ ss.toNat) :
    sec64_load_data_off_gt off ss = false := by
  simp only [sec64_load_data_off_gt, BitVec.ult, decide_eq_false_iff_not]; omega

theorem g_size_gt_of_le {size ss off : BitVec 64} (h : off.toNat + size.toNat ≤ ss.toNat) :
    sec64_load_data_size_gt size ss off = false := by
  have h1 := size.isLt; have h2 := ss.isLt; have h3 := off.isLt
  simp only [sec64_load_data_size_gt, BitVec.ult, Bool.or_eq_false_iff, decide_eq_false_iff_not,
    BitVec.toNat_sub, Nat.reducePow] at *
  omega

theorem loadDataPure_sameHdr (img : Bytes) (b : SecBuf) : SameHdr (loadDataPure img b).1 b := by
  unfold loadDataPure
  repeat' split
  all_goals (constructor <;> rfl)

theorem getDataPure_sameHdr (img : Bytes) (b : SecBuf) : SameHdr (getDataPure img b) b := by
  unfold getDataPure
  split
  · split
    · exact loadDataPure_sameHdr img b
    · exact SameHdr.trans (by constructor <;> rfl) (loadDataPure_sameHdr img b)
  · exact SameHdr.refl b

/-- a `SHT_NULL` / `SHT_NOBITS` section never gets data -/
theorem loadDataPure_nullish (img : Bytes) (b : SecBuf) (h : isNullOrNobitsTy b.stype = true) :
    (loadDataPure img b).1.data = b.data := by
  unfold loadDataPure
  repeat' split
  all_goals first | rfl | simp_all

theorem getDataPure_nullish (img : Bytes) (b : SecBuf) (h : isNullOrNobitsTy b.stype = true) :
    (getDataPure img b).data = b.data := by
  unfold getDataPure
  split
  · split
    · exact loadDataPure_nullish img b h
    · exact loadDataPure_nullish img b h
  · rfl

/-- How a section of the prefix run relates to the same section of the complete run.
    `failed` = the prefix run's stream has failed by now. -/
inductive SecRel (failed : Bool) (bp bf : SecBuf) : Prop
  /-- the header read came up short (only after the prefix stream failed): the zeroed header -/
  | zero (hf : failed = true) (hz : SecZero bp)
  /-- same header; the prefix run has no data and will never get any -/
  | never (hs : SameFields bp bf) (hd : bp.data = none)
      (hx : bp.canLoad = false ∨ isNullOrNobitsTy bp.stype = true)
  /-- same header, same data pointer contents, same residency flags -/
  | both (hs : SameFields bp bf) (hd : bp.data = bf.data) (hl : bp.isLoaded = bf.isLoaded)
      (hc : bp.canLoad = bf.canLoad) (hn : bp.isLoaded = false → bp.data = none)

theorem SecRel.mono {f f' : Bool} {bp bf : SecBuf} (h : SecRel f bp bf) (hff : f = true → f' = true) :
    SecRel f' bp bf := by
  cases h with
  | zero hf hz => exact .zero (hff hf) hz
  | never hs hd hx => exact .never hs hd hx
  | both hs hd hl hc hn => exact .both hs hd hl hc hn

/-- what the property demands of a section of the prefix run: header all-zero or identical,
    data pointer null or the same bytes -/
theorem SecRel.sound {f : Bool} {bp bf : SecBuf} (h : SecRel f bp bf) :
    (SecZero bp ∨ SameFields bp bf) ∧ (bp.data = none ∨ bp.data = bf.data) := by
  cases h with
  | zero hf hz => exact ⟨Or.inl hz, Or.inl hz.data⟩
  | never hs hd hx => exact ⟨Or.inr hs, Or.inl hd⟩
  | both hs hd hl hc hn => exact ⟨Or.inr hs, Or.inr hd⟩

theorem zero_nullish {b : SecBuf} (h : SecZero b) : isNullOrNobitsTy b.stype = true := by
  rw [h.stype]; decide

theorem SecZero.of_sameHdr {b' b : SecBuf} (h : SecZero b) (hs : SameHdr b' b) (hd : b'.data = b.data) :
    SecZero b' :=
  ⟨hs.stype.trans h.stype, hs.size.trans h.size, hs.offset.trans h.offset, hs.nameOff.trans h.nameOff,
   hs.flags.trans h.flags, hs.addr.trans h.addr, hs.link.trans h.link, hs.info.trans h.info,
   hs.addrAlign.trans h.addrAlign, hs.entSize.trans h.entSize, hd.trans h.data⟩

theorem SameFields.symm {a b : SecBuf} (h : SameFields a b) : SameFields b a :=
  ⟨h.stype.symm, h.size.symm, h.offset.symm, h.nameOff.symm, h.flags.symm, h.addr.symm, h.link.symm,
   h.info.symm, h.addrAlign.symm, h.entSize.symm⟩

/-- a simultaneous `get_data()` in both runs keeps the relation -/
theorem getDataPure_rel {img : Bytes} {k : Nat} {f : Bool} {bp bf : SecBuf} (h : SecRel f bp bf)
    (hp : LoadedSec [] bp (img.take k)) (hf : LoadedSec [] bf img)
    (hlen : img.length < 9223372036854775808) :
    SecRel f (getDataPure (img.take k) bp) (getDataPure img bf) := by
  have hl := take_length_le img k
  have hPs := (getDataPure_sameHdr (img.take k) bp)
  have hFs := (getDataPure_sameHdr img bf)
  cases h with
  | zero hfl hz =>
    exact .zero hfl (hz.of_sameHdr hPs (getDataPure_nullish _ _ (zero_nullish hz)))
  | never hs hd hx =>
    refine .never (SameFields.trans hPs.fields (SameFields.trans hs hFs.fields.symm)) ?_ ?_
    · rcases hx with hx | hx
      · unfold getDataPure; simp [hx, hd]
      · rw [getDataPure_nullish _ _ hx]; exact hd
    · rcases hx with hx | hx
      · left; unfold getDataPure; simp [hx]
      · right; rw [hPs.stype]; exact hx
  | both hs hd hlo hc hn =>
    have hsf' := SameFields.trans hPs.fields (SameFields.trans hs hFs.fields.symm)
    by_cases hpend : (!bp.isLoaded && bp.canLoad) = true
    · -- both pending
      have hpendf : (!bf.isLoaded && bf.canLoad) = true := by rw [← hlo, ← hc]; exact hpend
      have hld : bp.isLoaded = false := by
        cases hx : bp.isLoaded <;> simp [hx] at hpend ⊢
      have hcl : bp.canLoad = true := by
        cases hx : bp.canLoad <;> simp [hx] at hpend ⊢
      have hdn : bp.data = none := hn hld
      have hdnf : bf.data = none := hd ▸ hdn
      by_cases hnull : isNullOrNobitsTy bp.stype = true
      · exact .never hsf' (by rw [getDataPure_nullish _ _ hnull]; exact hdn)
          (Or.inr (by rw [hPs.stype]; exact hnull))
      · have hnn : isNullOrNobitsTy bp.stype = false := by
          cases hx : isNullOrNobitsTy bp.stype
          · rfl
          · exact absurd hx hnull
        have hnnf : isNullOrNobitsTy bf.stype = false := hs.stype ▸ hnn
        -- recorded stream sizes
        have hssp : bp.streamSize = BitVec.ofNat 64 (img.take k).length := by
          rcases hp.ss with h1 | ⟨-, h2, -⟩
          · exact h1
          · rw [hnn] at h2; exact absurd h2 (by decide)
        have hssf : bf.streamSize = BitVec.ofNat 64 img.length := by
          rcases hf.ss with h1 | ⟨-, h2, -⟩
          · exact h1
          · rw [hnnf] at h2; exact absurd h2 (by decide)
        -- the prefix run refuses, or both load the same bytes
        by_cases hok : (loadDataPure (img.take k) bp).2 = true
        · -- the prefix run loaded: unfold both
          have key : (loadDataPure (img.take k) bp).1.data =
              some (slice (img.take k) bp.offset.toNat bp.size.toNat ++ [0]) ∧
              bp.offset.toNat + bp.size.toNat ≤ (img.take k).length ∧
              sec64_load_data_sizet bp.size = false := by
            unfold loadDataPure at hok ⊢
            by_cases h1 : sec64_load_data_off_gt bp.offset bp.streamSize = true
            · simp [h1] at hok
            by_cases h2 : sec64_load_data_size_gt bp.size bp.streamSize bp.offset = true
            · simp [h1, h2] at hok
            by_cases h4 : sec64_load_data_sizet bp.size = true
            · simp [h1, h2, h4, hdn, hnn] at hok
            have hle := g_size_gt_false (by simpa using h2) (g_off_gt_false (by simpa using h1))
            rw [hssp, toNat_ofNat_len (by omega)] at hle
            simp [h1, h2, h4, hdn, hnn]
            rw [List.length_take] at hle; exact hle
          obtain ⟨kd, kle, ksz⟩ := key
          have hfull : loadDataPure img bf =
              ({ bf with data := some (slice img bf.offset.toNat bf.size.toNat ++ [0]),
                         dataSize := bf.size, isLoaded := true }, true) := by
            unfold loadDataPure
            have hle' : bf.offset.toNat + bf.size.toNat ≤ bf.streamSize.toNat := by
              rw [hssf, toNat_ofNat_len (by omega), ← hs.offset, ← hs.size]; omega
            rw [if_neg (by rw [g_off_gt_of_le (by omega)]; decide),
              if_neg (by rw [g_size_gt_of_le hle']; decide),
              if_pos (by simp [hdnf, hnnf]), if_neg (by rw [← hs.size, ksz]; decide)]
          have hPd : (getDataPure (img.take k) bp).data =
              some (slice (img.take k) bp.offset.toNat bp.size.toNat ++ [0]) := by
            unfold getDataPure; rw [if_pos hpend, if_pos hok]; exact kd
          have hFd : (getDataPure img bf).data = some (slice img bf.offset.toNat bf.size.toNat ++ [0]) := by
            unfold getDataPure; rw [if_pos hpendf, hfull]; rfl
          have hPl : (getDataPure (img.take k) bp).isLoaded = true := by
            unfold getDataPure loadDataPure at *
            by_cases h1 : sec64_load_data_off_gt bp.offset bp.streamSize = true
            · simp [h1] at hok
            by_cases h2 : sec64_load_data_size_gt bp.size bp.streamSize bp.offset = true
            · simp [h1, h2] at hok
            simp [hpend, h1, h2, ksz, hdn, hnn]
          have hFl : (getDataPure img bf).isLoaded = true := by
            unfold getDataPure; rw [if_pos hpendf, hfull]; rfl
          have hPc : (getDataPure (img.take k) bp).canLoad = bp.canLoad := by
            unfold getDataPure loadDataPure at *
            by_cases h1 : sec64_load_data_off_gt bp.offset bp.streamSize = true
            · simp [h1] at hok
            by_cases h2 : sec64_load_data_size_gt bp.size bp.streamSize bp.offset = true
            · simp [h1, h2] at hok
            simp [hpend, h1, h2, ksz, hdn, hnn]
          have hFc : (getDataPure img bf).canLoad = bf.canLoad := by
            unfold getDataPure; rw [if_pos hpendf, hfull]; rfl
          refine .both hsf' ?_ (hPl.trans hFl.symm) (by rw [hPc, hFc]; exact hc)
            (fun hx => by rw [hPl] at hx; exact absurd hx (by decide))
          rw [hPd, hFd, ← hs.offset, ← hs.size, slice_take (by omega)]
        · -- the prefix run refused: it is dead from now on
          have hPd : (loadDataPure (img.take k) bp).1.data = none := by
            unfold loadDataPure at hok ⊢
            repeat' split
            all_goals first | exact hdn | simp_all
          refine .never hsf' ?_ (Or.inl ?_)
          · unfold getDataPure; rw [if_pos hpend, if_neg hok]; exact hPd
          · unfold getDataPure; rw [if_pos hpend, if_neg hok]
    · -- neither run does anything
      have hpendf : ¬ (!bf.isLoaded && bf.canLoad) = true := by rw [← hlo, ← hc]; exact hpend
      have e1 : getDataPure (img.take k) bp = bp := by unfold getDataPure; rw [if_neg hpend]
      have e2 : getDataPure img bf = bf := by unfold getDataPure; rw [if_neg hpendf]
      rw [e1, e2]
      exact .both hs hd hlo hc hn

/-- loader states of the two runs -/
structure Sim2 (img : Bytes) (k : Nat) (kind : StreamKind) (lsp lsf : LoadSt) : Prop where
  p : StOk [] (img.take k) kind lsp
  f : StOk [] img kind lsf
  fail : lsf.st.fail = true → lsp.st.fail = true

theorem Sim2.sim {img k kind lsp lsf} (h : Sim2 img k kind lsp lsf) : Sim img k lsp.st lsf.st :=
  ⟨h.p.data, h.f.data, h.p.kind.trans h.f.kind.symm, h.fail⟩

theorem hdrRead_failed_fail (tr : List Trans) (st : IStream) (p : Int) (n : Nat) (h : st.fail = true) :
    (hdrRead tr st p n).1.fail = true := by
  have h1 := streamSizeOf_fail tr st h
  have h2 := IStream.seekg_fail _ (trApply tr p) h1
  have h3 : ((streamSizeOf tr st).1.seekg (trApply tr p)).good = false := by simp [IStream.good, h2]
  exact (IStream.read_not_good _ n h3).2.1

/-- once the stream has failed, `section_impl::load` leaves it failed -/
theorem secLoad_fail_mono (c : Cls) (enc : Enc) (ls : LoadSt) (hdrOff : Int) (isLazy : Bool) (idx : Nat)
    (h : ls.st.fail = true) : (secLoad c enc [] ls hdrOff isLazy idx).1.st.fail = true := by
  rw [secLoad_eq]
  have hg := (hdrRead_failed [] ls.st hdrOff (shdrSize c) h).1
  rw [if_pos (by rw [hg]; have := shdrSize_ne_zero c; simp; omega)]
  exact hdrRead_failed_fail [] ls.st hdrOff (shdrSize c) h

@[simp] theorem secHdrOnly_isLoaded (c enc tr st got ss isLazy idx) :
    (secHdrOnly c enc tr st got ss isLazy idx).isLoaded = false := by simp [secHdrOnly, secB0]
@[simp] theorem secHdrOnly_canLoad (c enc tr st got ss isLazy idx) :
    (secHdrOnly c enc tr st got ss isLazy idx).canLoad = true := by simp [secHdrOnly, secB0]
@[simp] theorem secHdrOnly_data (c enc tr st got ss isLazy idx) :
    (secHdrOnly c enc tr st got ss isLazy idx).data = none := by simp [secHdrOnly, secB0]

theorem secHdrOnly_fields (c enc tr st st' got ss ss' isLazy idx) :
    SameFields (secHdrOnly c enc tr st got ss isLazy idx) (secHdrOnly c enc tr st' got ss' isLazy idx) :=
  SameFields.trans (by constructor <;> rfl)
    (SameFields.trans (decodeShdr_fields c enc got _ _) (by constructor <;> rfl))

theorem SecRel.addrSet {f : Bool} {bp bf : SecBuf} (h : SecRel f bp bf) :
    SecRel f { bp with addrSet := true } { bf with addrSet := true } := by
  cases h with
  | zero hf hz => exact .zero hf ⟨hz.stype, hz.size, hz.offset, hz.nameOff, hz.flags, hz.addr, hz.link,
      hz.info, hz.addrAlign, hz.entSize, hz.data⟩
  | never hs hd hx => exact .never ⟨hs.stype, hs.size, hs.offset, hs.nameOff, hs.flags, hs.addr, hs.link,
      hs.info, hs.addrAlign, hs.entSize⟩ hd hx
  | both hs hd hl hc hn => exact .both ⟨hs.stype, hs.size, hs.offset, hs.nameOff, hs.flags, hs.addr, hs.link,
      hs.info, hs.addrAlign, hs.entSize⟩ hd hl hc hn

/-- **one section in both runs**: the loader states stay related, and the section of the prefix
    run is the zeroed one (only if the prefix stream failed), or has the same header with data
    absent or identical -/
theorem secLoad_sim (c : Cls) (enc : Enc) (img : Bytes) (k : Nat) (kind : StreamKind)
    (hlen : img.length < 9223372036854775808) (lsp lsf : LoadSt) (h : Sim2 img k kind lsp lsf)
    (hdrOff : Int) (isLazy : Bool) (idx : Nat) :
    Sim2 img k kind (secLoad c enc [] lsp hdrOff isLazy idx).1 (secLoad c enc [] lsf hdrOff isLazy idx).1 ∧
    SecRel (secLoad c enc [] lsp hdrOff isLazy idx).1.st.fail
      (secLoad c enc [] lsp hdrOff isLazy idx).2 (secLoad c enc [] lsf hdrOff isLazy idx).2 := by
  have hlk := take_length_le img k
  obtain ⟨-, hfull, hshort⟩ := hdrRead_sim h.sim hdrOff (shdrSize c) (Nat.pos_of_ne_zero (shdrSize_ne_zero c))
  have specP := secLoad_spec c enc [] lsp hdrOff isLazy idx (img.take k) kind h.p
  have specF := secLoad_spec c enc [] lsf hdrOff isLazy idx img kind h.f
  by_cases hg : (hdrRead [] lsp.st hdrOff (shdrSize c)).1.gcount = shdrSize c
  · obtain ⟨g1, g2, g3, g4, -, -, -⟩ := hfull hg
    have hnz := shdrSize_ne_zero c
    by_cases he : sec64_load_eager isLazy false = true
    · -- eager: both runs request the data
      have eP : secLoad c enc [] lsp hdrOff isLazy idx =
          ((secGetData c [] { lsp with st := (hdrRead [] lsp.st hdrOff (shdrSize c)).1 }
              (secHdrOnly c enc [] (hdrRead [] lsp.st hdrOff (shdrSize c)).1
                (hdrRead [] lsp.st hdrOff (shdrSize c)).2 (streamSizeOf [] lsp.st).2 isLazy idx)).1,
           { (secGetData c [] { lsp with st := (hdrRead [] lsp.st hdrOff (shdrSize c)).1 }
              (secHdrOnly c enc [] (hdrRead [] lsp.st hdrOff (shdrSize c)).1
                (hdrRead [] lsp.st hdrOff (shdrSize c)).2 (streamSizeOf [] lsp.st).2 isLazy idx)).2
             with addrSet := true }) := by
        rw [secLoad_eq, if_neg (by simp [hg]), secHdrOnly_isLoaded, if_pos he]
      have eF : secLoad c enc [] lsf hdrOff isLazy idx =
          ((secGetData c [] { lsf with st := (hdrRead [] lsf.st hdrOff (shdrSize c)).1 }
              (secHdrOnly c enc [] (hdrRead [] lsf.st hdrOff (shdrSize c)).1
                (hdrRead [] lsf.st hdrOff (shdrSize c)).2 (streamSizeOf [] lsf.st).2 isLazy idx)).1,
           { (secGetData c [] { lsf with st := (hdrRead [] lsf.st hdrOff (shdrSize c)).1 }
              (secHdrOnly c enc [] (hdrRead [] lsf.st hdrOff (shdrSize c)).1
                (hdrRead [] lsf.st hdrOff (shdrSize c)).2 (streamSizeOf [] lsf.st).2 isLazy idx)).2
             with addrSet := true }) := by
        rw [secLoad_eq, if_neg (by simp [g1]), secHdrOnly_isLoaded, if_pos he]
      have iP := secHdrOnly_inv c enc [] lsp.st hdrOff isLazy idx (img.take k) h.p.data (by rw [hg]; exact hnz)
      have iF := secHdrOnly_inv c enc [] lsf.st hdrOff isLazy idx img h.f.data (by rw [g1]; exact hnz)
      obtain ⟨pP, fP⟩ := secGetData_pure c { lsp with st := (hdrRead [] lsp.st hdrOff (shdrSize c)).1 } _
        (img.take k) (by simp [h.p.data]) iP (by omega)
      obtain ⟨pF, fF⟩ := secGetData_pure c { lsf with st := (hdrRead [] lsf.st hdrOff (shdrSize c)).1 } _
        img (by simp [h.f.data]) iF hlen
      have rel0 : SecRel false
          (secHdrOnly c enc [] (hdrRead [] lsp.st hdrOff (shdrSize c)).1
            (hdrRead [] lsp.st hdrOff (shdrSize c)).2 (streamSizeOf [] lsp.st).2 isLazy idx)
          (secHdrOnly c enc [] (hdrRead [] lsf.st hdrOff (shdrSize c)).1
            (hdrRead [] lsf.st hdrOff (shdrSize c)).2 (streamSizeOf [] lsf.st).2 isLazy idx) := by
        rw [g2]
        exact .both (secHdrOnly_fields ..) (by simp) (by simp) (by simp) (fun _ => by simp)
      have rel1 := getDataPure_rel rel0 iP iF hlen
      rw [← pP, ← pF] at rel1
      have hPf : (secLoad c enc [] lsp hdrOff isLazy idx).1.st.fail = false := by rw [eP]; exact fP.trans g3
      have hFf : (secLoad c enc [] lsf hdrOff isLazy idx).1.st.fail = false := by rw [eF]; exact fF.trans g4
      refine ⟨⟨specP.1, specF.1, fun hx => by rw [hFf] at hx; exact absurd hx (by decide)⟩, ?_⟩
      rw [hPf, eP, eF]
      exact rel1.addrSet
    · -- lazy: header only
      have eP : secLoad c enc [] lsp hdrOff isLazy idx =
          ({ lsp with st := (hdrRead [] lsp.st hdrOff (shdrSize c)).1 },
           { secHdrOnly c enc [] (hdrRead [] lsp.st hdrOff (shdrSize c)).1
                (hdrRead [] lsp.st hdrOff (shdrSize c)).2 (streamSizeOf [] lsp.st).2 isLazy idx
             with addrSet := true }) := by
        rw [secLoad_eq, if_neg (by simp [hg]), secHdrOnly_isLoaded, if_neg he]
      have eF : secLoad c enc [] lsf hdrOff isLazy idx =
          ({ lsf with st := (hdrRead [] lsf.st hdrOff (shdrSize c)).1 },
           { secHdrOnly c enc [] (hdrRead [] lsf.st hdrOff (shdrSize c)).1
                (hdrRead [] lsf.st hdrOff (shdrSize c)).2 (streamSizeOf [] lsf.st).2 isLazy idx
             with addrSet := true }) := by
        rw [secLoad_eq, if_neg (by simp [g1]), secHdrOnly_isLoaded, if_neg he]
      have hPf : (secLoad c enc [] lsp hdrOff isLazy idx).1.st.fail = false := by rw [eP]; exact g3
      have hFf : (secLoad c enc [] lsf hdrOff isLazy idx).1.st.fail = false := by rw [eF]; exact g4
      refine ⟨⟨specP.1, specF.1, fun hx => by rw [hFf] at hx; exact absurd hx (by decide)⟩, ?_⟩
      rw [hPf, eP, eF, g2]
      exact (SecRel.both (secHdrOnly_fields ..) (by simp) (by simp) (by simp) (fun _ => by simp)).addrSet
  · -- the prefix run's header read came up short: zeroed section, failed stream
    have hfl := hshort hg
    have eP : secLoad c enc [] lsp hdrOff isLazy idx =
        ({ lsp with st := (hdrRead [] lsp.st hdrOff (shdrSize c)).1 },
         { secB0 c [] (streamSizeOf [] lsp.st).2 isLazy idx with addrSet := true }) := by
      rw [secLoad_eq, if_pos (by simp [hg])]
    have hPf : (secLoad c enc [] lsp hdrOff isLazy idx).1.st.fail = true := by rw [eP]; exact hfl
    refine ⟨⟨specP.1, specF.1, fun _ => hPf⟩, ?_⟩
    rw [hPf, eP]
    exact .zero rfl (by constructor <;> rfl)

/-! ### the section loop and the name resolution in both runs -/

theorem secLoad_index (c : Cls) (enc : Enc) (tr : List Trans) (ls : LoadSt) (hdrOff : Int) (isLazy : Bool)
    (idx : Nat) : (secLoad c enc tr ls hdrOff isLazy idx).2.index = idx := by
  rw [secLoad_eq]
  split
  · rfl
  · split
    · exact (secGetData_sameHdr c tr _ _).index.trans (by simp [secHdrOnly, secB0])
    · simp [secHdrOnly, secB0]

/-- section relation used in the lists: `SecRel` plus the same index -/
def SecRelI (f : Bool) (bp bf : SecBuf) : Prop := SecRel f bp bf ∧ bp.index = bf.index

theorem loadSectionsLoop_sim (c : Cls) (enc : Enc) (img : Bytes) (k : Nat) (kind : StreamKind)
    (hlen : img.length < 9223372036854775808) (isLazy : Bool) (shoff : Int) (entsize : Nat) :
    ∀ (n i : Nat) (lsp lsf : LoadSt) (accp accf : List SecBuf), Sim2 img k kind lsp lsf →
      ListRel (SecRelI lsp.st.fail) accp accf →
      Sim2 img k kind (loadSectionsLoop c enc [] isLazy shoff entsize n i lsp accp).1
        (loadSectionsLoop c enc [] isLazy shoff entsize n i lsf accf).1 ∧
      ListRel (SecRelI (loadSectionsLoop c enc [] isLazy shoff entsize n i lsp accp).1.st.fail)
        (loadSectionsLoop c enc [] isLazy shoff entsize n i lsp accp).2
        (loadSectionsLoop c enc [] isLazy shoff entsize n i lsf accf).2 := by
  intro n
  induction n with
  | zero =>
    intro i lsp lsf accp accf hs hacc
    exact ⟨hs, hacc.reverse⟩
  | succ n ih =>
    intro i lsp lsf accp accf hs hacc
    rw [loadSectionsLoop_succ, loadSectionsLoop_succ]
    obtain ⟨h1, h2⟩ := secLoad_sim c enc img k kind hlen lsp lsf hs
      (shoff + (Int.ofNat i) * (Int.ofNat entsize)) isLazy i
    apply ih _ _ _ _ _ h1
    refine .cons ⟨h2, by rw [secLoad_index, secLoad_index]⟩ ?_
    exact hacc.mono (fun a b hab => ⟨hab.1.mono (secLoad_fail_mono c enc lsp _ isLazy i), hab.2⟩)

/-- the name a section gets from the string table -/
def nameOf (strtab b : SecBuf) : Bytes :=
  match getString strtab b.nameOff with
  | .ok (some s) => s
  | _ => b.name

theorem withName_eq (strtab b : SecBuf) : withName strtab b = { b with name := nameOf strtab b } := by
  unfold withName nameOf
  cases getString strtab b.nameOff with
  | error e => rfl
  | ok r => cases r <;> rfl

theorem SecRelI.name {f : Bool} {bp bf : SecBuf} (h : SecRelI f bp bf) (s t : Bytes) :
    SecRelI f { bp with name := s } { bf with name := t } := by
  refine ⟨?_, h.2⟩
  cases h.1 with
  | zero hf hz => exact .zero hf ⟨hz.stype, hz.size, hz.offset, hz.nameOff, hz.flags, hz.addr, hz.link,
      hz.info, hz.addrAlign, hz.entSize, hz.data⟩
  | never hs hd hx => exact .never ⟨hs.stype, hs.size, hs.offset, hs.nameOff, hs.flags, hs.addr, hs.link,
      hs.info, hs.addrAlign, hs.entSize⟩ hd hx
  | both hs hd hl hc hn => exact .both ⟨hs.stype, hs.size, hs.offset, hs.nameOff, hs.flags, hs.addr, hs.link,
      hs.info, hs.addrAlign, hs.entSize⟩ hd hl hc hn

/-- the name resolution step as a pure function (the string lookups cannot fault: C01) -/
def namesPure (c : Cls) (enc : Enc) (tr : List Trans) (hdr : Bytes) (ls : LoadSt) (secs : List SecBuf) :
    LoadSt × List SecBuf :=
  if Hdr.e_shstrndx c enc hdr == BitVec.ofNat 16 SHN_UNDEF then (ls, secs) else
  match secs[(Hdr.e_shstrndx c enc hdr).toNat]? with
  | none => (ls, secs)
  | some strtab =>
    ((secGetData c tr ls strtab).1,
     (secs.set (Hdr.e_shstrndx c enc hdr).toNat (secGetData c tr ls strtab).2).map
        (withName (secGetData c tr ls strtab).2))

theorem loadNamesK_eq (c : Cls) (enc : Enc) (tr : List Trans) (hdr : Bytes) (ls : LoadSt)
    (secs : List SecBuf) (k : LoadSt × List SecBuf → M LoadRes) (img : Bytes) (kind : StreamKind)
    (hs : StOk tr img kind ls) (hsecs : ∀ b ∈ secs, LoadedSec tr b img) :
    loadNamesK c enc tr hdr ls secs k = k (namesPure c enc tr hdr ls secs) := by
  unfold loadNamesK namesPure
  by_cases h1 : (Hdr.e_shstrndx c enc hdr == BitVec.ofNat 16 SHN_UNDEF) = true
  · rw [if_pos h1, if_pos h1]
  · rw [if_neg h1, if_neg h1]
    cases hget : secs[(Hdr.e_shstrndx c enc hdr).toNat]? with
    | none => rfl
    | some strtab =>
      have hmem : strtab ∈ secs := List.mem_of_getElem? hget
      obtain ⟨-, h2, -⟩ := secGetData_spec c tr ls strtab img kind hs (hsecs _ hmem)
      dsimp only
      rw [resolveNames_eq _ h2.bufOk]
      rfl

theorem namesPure_sim (c : Cls) (enc : Enc) (hdr : Bytes) (img : Bytes) (k : Nat) (kind : StreamKind)
    (hlen : img.length < 9223372036854775808) (lsp lsf : LoadSt) (secsp secsf : List SecBuf)
    (hs : Sim2 img k kind lsp lsf) (hrel : ListRel (SecRelI lsp.st.fail) secsp secsf)
    (hip : ∀ b ∈ secsp, LoadedSec [] b (img.take k)) (hif : ∀ b ∈ secsf, LoadedSec [] b img) :
    Sim2 img k kind (namesPure c enc [] hdr lsp secsp).1 (namesPure c enc [] hdr lsf secsf).1 ∧
    ListRel (SecRelI (namesPure c enc [] hdr lsp secsp).1.st.fail)
      (namesPure c enc [] hdr lsp secsp).2 (namesPure c enc [] hdr lsf secsf).2 := by
  have hlk := take_length_le img k
  unfold namesPure
  split
  · exact ⟨hs, hrel⟩
  · rcases hrel.getElem? (Hdr.e_shstrndx c enc hdr).toNat with ⟨e1, e2⟩ | ⟨bp, bf, e1, e2, hr⟩
    · rw [e1, e2]; exact ⟨hs, hrel⟩
    · rw [e1, e2]
      dsimp only
      have ip := hip bp (List.mem_of_getElem? e1)
      have jf := hif bf (List.mem_of_getElem? e2)
      obtain ⟨pP, fP⟩ := secGetData_pure c lsp bp (img.take k) hs.p.data ip (by omega)
      obtain ⟨pF, fF⟩ := secGetData_pure c lsf bf img hs.f.data jf hlen
      have sP := secGetData_spec c [] lsp bp (img.take k) kind hs.p ip
      have sF := secGetData_spec c [] lsf bf img kind hs.f jf
      have rel1 := getDataPure_rel hr.1 ip jf hlen
      rw [← pP, ← pF] at rel1
      refine ⟨⟨sP.1, sF.1, fun hx => by rw [fP]; rw [fF] at hx; exact hs.fail hx⟩, ?_⟩
      rw [fP]
      have hidx : (secGetData c [] lsp bp).2.index = (secGetData c [] lsf bf).2.index := by
        rw [(secGetData_sameHdr c [] lsp bp).index, (secGetData_sameHdr c [] lsf bf).index]; exact hr.2
      refine (hrel.set _ (⟨rel1, hidx⟩ : SecRelI _ _ _)).map _ _ ?_
      intro a b hab
      rw [withName_eq, withName_eq]
      exact hab.name _ _

/-! ### segments in both runs -/

/-- the eight program header fields -/
structure SegFields (g' g : Seg) : Prop where
  stype : g'.stype = g.stype
  flags : g'.flags = g.flags
  offset : g'.offset = g.offset
  vaddr : g'.vaddr = g.vaddr
  paddr : g'.paddr = g.paddr
  filesz : g'.filesz = g.filesz
  memsz : g'.memsz = g.memsz
  align : g'.align = g.align

theorem decodePhdr_fields (c : Cls) (enc : Enc) (r : Bytes) (g g' : Seg) :
    SegFields (decodePhdr c enc r g) (decodePhdr c enc r g') := by
  cases c <;> constructor <;> rfl

theorem SegFields.trans {a b c : Seg} (h1 : SegFields a b) (h2 : SegFields b c) : SegFields a c :=
  ⟨h1.stype.trans h2.stype, h1.flags.trans h2.flags, h1.offset.trans h2.offset, h1.vaddr.trans h2.vaddr,
   h1.paddr.trans h2.paddr, h1.filesz.trans h2.filesz, h1.memsz.trans h2.memsz, h1.align.trans h2.align⟩

/-- a segment of the prefix run against the same segment of the complete run: identical -/
structure SegRel (gp gf : Seg) : Prop where
  fields : SegFields gp gf
  data : gp.data = gf.data
  index : gp.index = gf.index
  secs : gp.secs = gf.secs

theorem segLoadDataPure_rel {img : Bytes} {k : Nat} {gp gf : Seg} (hs : SegFields gp gf)
    (hdp : gp.data = none) (hdf : gf.data = none)
    (hp : LoadedSeg [] gp (img.take k)) (hf : LoadedSeg [] gf img)
    (hlen : img.length < 9223372036854775808)
    (hok : (segLoadDataPure (img.take k) gp).2 = true) :
    (segLoadDataPure img gf).2 = true ∧
    SegFields (segLoadDataPure (img.take k) gp).1 (segLoadDataPure img gf).1 ∧
    (segLoadDataPure (img.take k) gp).1.data = (segLoadDataPure img gf).1.data := by
  have hlk := take_length_le img k
  unfold segLoadDataPure at hok ⊢
  rw [← hs.stype, ← hs.filesz, ← hs.offset]
  by_cases h0 : seg64_load_data_skip gp.stype gp.filesz = true
  · simp only [h0, if_true]
    exact ⟨trivial, hs, hdp.trans hdf.symm⟩
  rw [if_neg h0] at hok
  rw [if_neg h0, if_neg h0]
  by_cases h1 : sec64_load_data_off_gt gp.offset gp.streamSize = true
  · simp [h1] at hok
  rw [if_neg h1] at hok
  by_cases h2 : sec64_load_data_size_gt gp.filesz gp.streamSize gp.offset = true
  · simp [h2] at hok
  rw [if_neg h2] at hok
  by_cases h4 : sec64_load_data_sizet gp.filesz = true
  · simp [h4] at hok
  have hle := g_size_gt_false (by simpa using h2) (g_off_gt_false (by simpa using h1))
  have hssp : gp.streamSize = BitVec.ofNat 64 (img.take k).length := by
    rcases hp.ss with hss | ⟨-, hn, -⟩
    · exact hss
    · exact absurd hn h0
  have hssf : gf.streamSize = BitVec.ofNat 64 img.length := by
    rcases hf.ss with hss | ⟨-, hn, -⟩
    · exact hss
    · rw [← hs.stype, ← hs.filesz] at hn; exact absurd hn h0
  rw [hssp, toNat_ofNat_len (by omega)] at hle
  have hle' : gp.offset.toNat + gp.filesz.toNat ≤ gf.streamSize.toNat := by
    rw [hssf, toNat_ofNat_len (by omega)]; omega
  rw [if_neg h1, if_neg h2, if_neg h4, if_neg (by rw [g_off_gt_of_le (by omega)]; decide),
    if_neg (by rw [g_size_gt_of_le hle']; decide), if_neg h4]
  refine ⟨rfl, ⟨rfl, hs.flags, rfl, hs.vaddr, hs.paddr, rfl, hs.memsz, hs.align⟩, ?_⟩
  simp only
  rw [slice_take (by omega)]

@[simp] theorem segHdr_data (c enc tr st p l) : (segHdr c enc tr st p l).data = none := by simp [segHdr]
@[simp] theorem segHdr_isLoaded (c enc tr st p l) : (segHdr c enc tr st p l).isLoaded = false := by simp [segHdr]

/-- **one segment in both runs**: if the prefix run's `segment_impl::load` succeeds and leaves the
    stream good, the complete run's does too, and yields the identical segment -/
theorem segLoad_sim (c : Cls) (enc : Enc) (img : Bytes) (k : Nat) (kind : StreamKind)
    (hlen : img.length < 9223372036854775808) (lsp lsf : LoadSt) (h : Sim2 img k kind lsp lsf)
    (hdrOff : Int) (isLazy : Bool)
    (hok : (segLoad c enc [] lsp hdrOff isLazy).2.2 = true)
    (hnf : (segLoad c enc [] lsp hdrOff isLazy).1.st.fail = false) :
    (segLoad c enc [] lsf hdrOff isLazy).2.2 = true ∧
    (segLoad c enc [] lsf hdrOff isLazy).1.st.fail = false ∧
    SegFields (segLoad c enc [] lsp hdrOff isLazy).2.1 (segLoad c enc [] lsf hdrOff isLazy).2.1 ∧
    (segLoad c enc [] lsp hdrOff isLazy).2.1.data = (segLoad c enc [] lsf hdrOff isLazy).2.1.data ∧
    Sim2 img k kind (segLoad c enc [] lsp hdrOff isLazy).1 (segLoad c enc [] lsf hdrOff isLazy).1 := by
  have hlk := take_length_le img k
  obtain ⟨-, hfull, hshort⟩ := hdrRead_sim h.sim hdrOff (phdrSize c) (Nat.pos_of_ne_zero (phdrSize_ne_zero c))
  have specP := segLoad_spec c enc [] lsp hdrOff isLazy (img.take k) kind h.p
  have specF := segLoad_spec c enc [] lsf hdrOff isLazy img kind h.f
  by_cases hg : (hdrRead [] lsp.st hdrOff (phdrSize c)).1.gcount = phdrSize c
  · obtain ⟨g1, g2, g3, g4, -, -, -⟩ := hfull hg
    have hfields : SegFields (segHdr c enc [] lsp.st hdrOff isLazy) (segHdr c enc [] lsf.st hdrOff isLazy) := by
      unfold segHdr; rw [g2]; exact decodePhdr_fields c enc _ _ _
    rw [segLoad_eq] at hok hnf
    rw [segLoad_eq c enc [] lsp, segLoad_eq c enc [] lsf]
    simp only [segHdr_isLoaded, Bool.or_false] at hok hnf ⊢
    by_cases hl : (!isLazy) = true
    · rw [if_pos hl] at hok hnf
      rw [if_pos hl, if_pos hl]
      have iP := segHdr_inv c enc [] lsp.st hdrOff isLazy (img.take k) h.p.data
      have iF := segHdr_inv c enc [] lsf.st hdrOff isLazy img h.f.data
      obtain ⟨pP, fP⟩ := segLoadData_pure c { lsp with st := (hdrRead [] lsp.st hdrOff (phdrSize c)).1 } _
        (img.take k) (by simp [h.p.data]) iP (by omega)
      obtain ⟨pF, fF⟩ := segLoadData_pure c { lsf with st := (hdrRead [] lsf.st hdrOff (phdrSize c)).1 } _
        img (by simp [h.f.data]) iF hlen
      have hok' : (segLoadDataPure (img.take k) (segHdr c enc [] lsp.st hdrOff isLazy)).2 = true := by
        rw [← pP]; exact hok
      obtain ⟨r1, r2, r3⟩ := segLoadDataPure_rel hfields (by simp) (by simp) iP iF hlen hok'
      have e1 : (segLoadData c [] { lsp with st := (hdrRead [] lsp.st hdrOff (phdrSize c)).1 }
          (segHdr c enc [] lsp.st hdrOff isLazy)).2.1 =
          (segLoadDataPure (img.take k) (segHdr c enc [] lsp.st hdrOff isLazy)).1 := by rw [pP]
      have e2 : (segLoadData c [] { lsf with st := (hdrRead [] lsf.st hdrOff (phdrSize c)).1 }
          (segHdr c enc [] lsf.st hdrOff isLazy)).2.1 =
          (segLoadDataPure img (segHdr c enc [] lsf.st hdrOff isLazy)).1 := by rw [pF]
      have e3 : (segLoadData c [] { lsf with st := (hdrRead [] lsf.st hdrOff (phdrSize c)).1 }
          (segHdr c enc [] lsf.st hdrOff isLazy)).2.2 = true := by rw [pF]; exact r1
      have hFf : (segLoadData c [] { lsf with st := (hdrRead [] lsf.st hdrOff (phdrSize c)).1 }
          (segHdr c enc [] lsf.st hdrOff isLazy)).1.st.fail = false := fF.trans g4
      refine ⟨e3, hFf, by rw [e1, e2]; exact r2, by rw [e1, e2]; exact r3, ?_⟩
      have sP := specP.1; have sF := specF.1
      rw [segLoad_eq] at sP sF
      simp only [segHdr_isLoaded, Bool.or_false] at sP sF
      rw [if_pos hl] at sP sF
      exact ⟨sP, sF, fun hx => by rw [hFf] at hx; exact absurd hx (by decide)⟩
    · rw [if_neg hl] at hok
      rw [if_neg hl, if_neg hl]
      -- lazy: the answer is the range test's (`is_file_range_valid()`), which is the pure `load_data()` result
      have iP := segHdr_inv c enc [] lsp.st hdrOff isLazy (img.take k) h.p.data
      have iF := segHdr_inv c enc [] lsf.st hdrOff isLazy img h.f.data
      have hok' : (segLoadDataPure (img.take k) (segHdr c enc [] lsp.st hdrOff isLazy)).2 = true := by
        rw [← segRangeOk_eq_pure c]; simpa using hok
      obtain ⟨r1, -, -⟩ := segLoadDataPure_rel hfields (by simp) (by simp) iP iF hlen hok'
      refine ⟨by rw [Bool.false_or, segRangeOk_eq_pure c _ img]; exact r1, g4, hfields, by simp, ?_⟩
      have sP := specP.1; have sF := specF.1
      rw [segLoad_eq] at sP sF
      simp only [segHdr_isLoaded, Bool.or_false] at sP sF
      rw [if_neg hl] at sP sF
      exact ⟨sP, sF, fun hx => by rw [g4] at hx; exact absurd hx (by decide)⟩
  · -- a short program header read leaves the prefix stream failed: excluded by `hnf`
    have hfl := hshort hg
    rw [segLoad_eq] at hnf
    split at hnf
    · rw [segLoadData_fail_mono c [] _ _ hfl] at hnf; exact absurd hnf (by decide)
    · rw [hfl] at hnf; exact absurd hnf (by decide)

theorem SecRel.fields_of_not_failed {bp bf : SecBuf} (h : SecRel false bp bf) : SameFields bp bf := by
  cases h with
  | zero hf _ => exact absurd hf (by decide)
  | never hs _ _ => exact hs
  | both hs _ _ _ _ => exact hs

theorem memberOf_congr {gp gf : Seg} {bp bf : SecBuf} (hg : SegFields gp gf) (hb : SameFields bp bf) :
    memberOf gp bp = memberOf gf bf := by
  unfold memberOf
  rw [hg.offset, hg.filesz, hg.vaddr, hg.memsz, hg.stype, hb.flags, hb.addr, hb.size, hb.offset]

theorem fail_false_of_mono {a b : Bool} (hm : a = true → b = true) (hb : b = false) : a = false := by
  cases a
  · rfl
  · rw [hm rfl] at hb; exact absurd hb (by decide)

/-- the segment loop in both runs: if the prefix run's loop succeeds, the complete run's loop
    succeeds with identical segments (member lists included); and if there is at least one
    segment, the prefix stream had not failed before the loop -/
theorem loadSegmentsLoop_sim (c : Cls) (enc : Enc) (img : Bytes) (k : Nat) (kind : StreamKind)
    (hlen : img.length < 9223372036854775808) (isLazy : Bool) (phoff : Int) (entsize : Nat)
    (secsp secsf : List SecBuf) :
    ∀ (n i : Nat) (lsp lsf : LoadSt) (accp accf : List Seg), Sim2 img k kind lsp lsf →
      (lsp.st.fail = false → ListRel (SecRelI false) secsp secsf) → ListRel SegRel accp accf →
      (loadSegmentsLoop c enc [] isLazy phoff entsize secsp n i lsp accp).2.2 = true →
      (loadSegmentsLoop c enc [] isLazy phoff entsize secsf n i lsf accf).2.2 = true ∧
      ListRel SegRel (loadSegmentsLoop c enc [] isLazy phoff entsize secsp n i lsp accp).2.1
        (loadSegmentsLoop c enc [] isLazy phoff entsize secsf n i lsf accf).2.1 ∧
      (0 < n → lsp.st.fail = false) := by
  intro n
  induction n with
  | zero =>
    intro i lsp lsf accp accf _ _ hacc _
    exact ⟨rfl, hacc.reverse, fun h => absurd h (by omega)⟩
  | succ n ih =>
    intro i lsp lsf accp accf hs hsecs hacc hok
    rw [loadSegmentsLoop_succ] at hok
    rw [loadSegmentsLoop_succ, loadSegmentsLoop_succ]
    by_cases hc : (!(segLoad c enc [] lsp (phoff + (Int.ofNat i) * (Int.ofNat entsize)) isLazy).2.2 ||
        (segLoad c enc [] lsp (phoff + (Int.ofNat i) * (Int.ofNat entsize)) isLazy).1.st.fail) = true
    · rw [if_pos hc] at hok; exact Bool.noConfusion hok
    · rw [if_neg hc] at hok
      rw [if_neg hc]
      have hokp : (segLoad c enc [] lsp (phoff + (Int.ofNat i) * (Int.ofNat entsize)) isLazy).2.2 = true := by
        cases hx : (segLoad c enc [] lsp (phoff + (Int.ofNat i) * (Int.ofNat entsize)) isLazy).2.2
        · rw [hx] at hc; exact absurd rfl hc
        · rfl
      have hnfp : (segLoad c enc [] lsp (phoff + (Int.ofNat i) * (Int.ofNat entsize)) isLazy).1.st.fail = false := by
        cases hx : (segLoad c enc [] lsp (phoff + (Int.ofNat i) * (Int.ofNat entsize)) isLazy).1.st.fail
        · rfl
        · rw [hx] at hc; exact absurd (Bool.or_true _) hc
      obtain ⟨f1, f2, f3, f4, f5⟩ := segLoad_sim c enc img k kind hlen lsp lsf hs _ isLazy hokp hnfp
      rw [if_neg (by rw [f1, f2]; decide)]
      have hnf0 : lsp.st.fail = false :=
        fail_false_of_mono (segLoad_fail_mono c enc [] lsp _ isLazy) hnfp
      have hrel := hsecs hnf0
      have hmem : (secsp.filter (memberOf (segLoad c enc [] lsp (phoff + (Int.ofNat i) * (Int.ofNat entsize)) isLazy).2.1)).map
            (fun b => BitVec.ofNat 16 b.index) =
          (secsf.filter (memberOf (segLoad c enc [] lsf (phoff + (Int.ofNat i) * (Int.ofNat entsize)) isLazy).2.1)).map
            (fun b => BitVec.ofNat 16 b.index) :=
        hrel.filter_map _ _ _ _ (fun a b hab =>
          ⟨memberOf_congr f3 hab.1.fields_of_not_failed, by rw [hab.2]⟩)
      have hacc' : ListRel SegRel
          ({ (segLoad c enc [] lsp (phoff + (Int.ofNat i) * (Int.ofNat entsize)) isLazy).2.1 with
              index := i,
              secs := (secsp.filter (memberOf (segLoad c enc [] lsp (phoff + (Int.ofNat i) * (Int.ofNat entsize)) isLazy).2.1)).map
                        (fun b => BitVec.ofNat 16 b.index) } :: accp)
          ({ (segLoad c enc [] lsf (phoff + (Int.ofNat i) * (Int.ofNat entsize)) isLazy).2.1 with
              index := i,
              secs := (secsf.filter (memberOf (segLoad c enc [] lsf (phoff + (Int.ofNat i) * (Int.ofNat entsize)) isLazy).2.1)).map
                        (fun b => BitVec.ofNat 16 b.index) } :: accf) :=
        .cons ⟨⟨f3.stype, f3.flags, f3.offset, f3.vaddr, f3.paddr, f3.filesz, f3.memsz, f3.align⟩,
            f4, rfl, hmem⟩ hacc
      obtain ⟨r1, r2, -⟩ := ih (i + 1) _ _ _ _ f5 (fun _ => hrel) hacc' hok
      exact ⟨r1, r2, fun _ => hnf0⟩

/-! ### section names in both runs -/

@[simp] theorem decodeShdr_name (c enc r b) : (decodeShdr c enc r b).name = b.name := by cases c <;> rfl

theorem secLoadData_name (c : Cls) (tr : List Trans) (ls : LoadSt) (b : SecBuf) :
    (secLoadData c tr ls b).2.1.name = b.name := by
  rw [secLoadData_eq]
  repeat' split
  all_goals rfl

theorem secGetData_name (c : Cls) (tr : List Trans) (ls : LoadSt) (b : SecBuf) :
    (secGetData c tr ls b).2.name = b.name := by
  rw [secGetData_eq]
  split
  · split
    · exact secLoadData_name c tr ls b
    · exact secLoadData_name c tr ls b
  · rfl

/-- `section_impl::load` leaves the name empty (names are resolved afterwards) -/
theorem secLoad_name (c : Cls) (enc : Enc) (tr : List Trans) (ls : LoadSt) (hdrOff : Int) (isLazy : Bool)
    (idx : Nat) : (secLoad c enc tr ls hdrOff isLazy idx).2.name = [] := by
  rw [secLoad_eq]
  split
  · rfl
  · split
    · exact (secGetData_name c tr _ _).trans (by simp [secHdrOnly, secB0])
    · simp [secHdrOnly, secB0]

theorem loadSectionsLoop_names (c : Cls) (enc : Enc) (tr : List Trans) (isLazy : Bool) (shoff : Int)
    (entsize : Nat) :
    ∀ (n i : Nat) (ls : LoadSt) (acc : List SecBuf), (∀ b ∈ acc, b.name = []) →
      ∀ b ∈ (loadSectionsLoop c enc tr isLazy shoff entsize n i ls acc).2, b.name = [] := by
  intro n
  induction n with
  | zero => intro i ls acc hacc b hb; exact hacc b (by simpa [loadSectionsLoop] using hb)
  | succ n ih =>
    intro i ls acc hacc
    rw [loadSectionsLoop_succ]
    apply ih
    intro b hb
    rcases List.mem_cons.mp hb with rfl | hb
    · exact secLoad_name ..
    · exact hacc b hb

theorem ListRel.and_mem {α β : Type} {R : α → β → Prop} {P : α → Prop} {Q : β → Prop} {as : List α}
    {bs : List β} (h : ListRel R as bs) (hp : ∀ a ∈ as, P a) (hq : ∀ b ∈ bs, Q b) :
    ListRel (fun a b => R a b ∧ P a ∧ Q b) as bs := by
  induction h with
  | nil => exact .nil
  | cons hr _ ih =>
    exact .cons ⟨hr, hp _ (List.mem_cons_self ..), hq _ (List.mem_cons_self ..)⟩
      (ih (fun a ha => hp a (List.mem_cons_of_mem _ ha)) (fun b hb => hq b (List.mem_cons_of_mem _ hb)))

/-- names of corresponding sections: for the same name offset the prefix run's name is empty
    (no name table data in the prefix) or the same string -/
def NameRel (bp bf : SecBuf) : Prop := bp.nameOff = bf.nameOff → bp.name = [] ∨ bp.name = bf.name

theorem getString_none_data (b : SecBuf) (idx : BitVec 32) (h : b.data = none) : getString b idx = .ok none := by
  rw [LoadTie.getString_hand, h]; rfl

theorem getString_congr {bp bf : SecBuf} (hd : bp.data = bf.data) (hs : bp.size = bf.size) (idx : BitVec 32) :
    getString bp idx = getString bf idx := by
  rw [LoadTie.getString_hand, LoadTie.getString_hand, hd, hs]

theorem namesPure_names (c : Cls) (enc : Enc) (hdr : Bytes) (img : Bytes) (k : Nat) (kind : StreamKind)
    (hlen : img.length < 9223372036854775808) (lsp lsf : LoadSt) (secsp secsf : List SecBuf)
    (hs : Sim2 img k kind lsp lsf) (hrel : ListRel (SecRelI lsp.st.fail) secsp secsf)
    (hip : ∀ b ∈ secsp, LoadedSec [] b (img.take k)) (hif : ∀ b ∈ secsf, LoadedSec [] b img)
    (hnp : ∀ b ∈ secsp, b.name = []) (hnf : ∀ b ∈ secsf, b.name = []) :
    ListRel NameRel (namesPure c enc [] hdr lsp secsp).2 (namesPure c enc [] hdr lsf secsf).2 := by
  have hlk := take_length_le img k
  have hrel' := hrel.and_mem hnp hnf
  have hempty : ListRel NameRel secsp secsf := hrel'.mono (fun a b hab _ => Or.inl hab.2.1)
  unfold namesPure
  split
  · exact hempty
  · rcases hrel.getElem? (Hdr.e_shstrndx c enc hdr).toNat with ⟨e1, e2⟩ | ⟨bp, bf, e1, e2, hr⟩
    · rw [e1, e2]; exact hempty
    · rw [e1, e2]
      dsimp only
      have ip := hip bp (List.mem_of_getElem? e1)
      have jf := hif bf (List.mem_of_getElem? e2)
      obtain ⟨pP, -⟩ := secGetData_pure c lsp bp (img.take k) hs.p.data ip (by omega)
      obtain ⟨pF, -⟩ := secGetData_pure c lsf bf img hs.f.data jf hlen
      have rel1 := getDataPure_rel hr.1 ip jf hlen
      rw [← pP, ← pF] at rel1
      have hne : (secGetData c [] lsp bp).2.name = [] ∧ (secGetData c [] lsf bf).2.name = [] :=
        ⟨(secGetData_name ..).trans (hnp bp (List.mem_of_getElem? e1)),
         (secGetData_name ..).trans (hnf bf (List.mem_of_getElem? e2))⟩
      have hset : ListRel (fun a b => a.name = [] ∧ b.name = [])
          (secsp.set (Hdr.e_shstrndx c enc hdr).toNat (secGetData c [] lsp bp).2)
          (secsf.set (Hdr.e_shstrndx c enc hdr).toNat (secGetData c [] lsf bf).2) :=
        (hrel'.mono (fun a b hab => hab.2)).set _ hne
      refine hset.map _ _ ?_
      intro a b ⟨ha, hb⟩
      rw [withName_eq, withName_eq]
      intro hoff
      change a.nameOff = b.nameOff at hoff
      show nameOf _ a = [] ∨ nameOf _ a = nameOf _ b
      cases hd : (secGetData c [] lsp bp).2.data with
      | none =>
        left; unfold nameOf; rw [getString_none_data _ _ hd]; exact ha
      | some d =>
        right
        have hcong : ∀ idx, getString (secGetData c [] lsp bp).2 idx = getString (secGetData c [] lsf bf).2 idx := by
          cases rel1 with
          | zero _ hz => rw [hz.data] at hd; cases hd
          | never _ hdn _ => rw [hdn] at hd; cases hd
          | both hsf hdd _ _ _ => exact fun idx => getString_congr hdd hsf.size idx
        unfold nameOf
        rw [hcong, hoff, ha, hb]

/-! ### the name of a zeroed section

A zeroed section has name offset 0, so its name is the string at offset 0 of the name table: empty
when the table has no data in the prefix run, and otherwise the string up to the first NUL of the
table's bytes — which are the complete run's (`SecRel.both`).  It is empty exactly when the table's
first byte is NUL (`NulFirst`, a condition on the complete run: part of well-formedness of an image). -/

/-- the data of `T` (if resident and non-empty) start with a NUL byte -/
def NulFirst (T : SecBuf) : Prop := ∀ d, T.data = some d → 0 < T.size.toNat → d.head? = some 0

instance (T : SecBuf) : Decidable (NulFirst T) :=
  decidable_of_iff (T.data.isSome = true → 0 < T.size.toNat → (T.data.getD []).head? = some 0)
    ⟨fun h d hd hs => by have := h (by rw [hd]; rfl) hs; rwa [hd] at this,
     fun h hd hs => by
      cases hdd : T.data with
      | none => rw [hdd] at hd; cases hd
      | some d => exact h d hdd hs⟩

theorem cstrAt_zero_of_nul (site : String) (d : Bytes) (size : Nat) (hs : 0 < size) (h0 : d.head? = some 0) :
    cstrAt site d size 0 = .ok (some []) := by
  unfold cstrAt
  rw [if_neg (by omega)]
  cases d with
  | nil => cases h0
  | cons x rest =>
    simp only [List.head?_cons, Option.some.injEq] at h0
    subst h0
    have hsl : slice ((0 : UInt8) :: rest) 0 (size - 0) = 0 :: rest.take (size - 1) := by
      unfold slice
      rw [List.drop_zero]
      obtain ⟨n, rfl⟩ : ∃ n, size = n + 1 := ⟨size - 1, by omega⟩
      simp
    rw [hsl]
    simp [List.idxOf?, List.findIdx?_cons]
    rfl

/-- the names of zeroed sections after the name resolution step of the prefix run -/
theorem namesPure_zero_names (c : Cls) (enc : Enc) (hdr : Bytes) (img : Bytes) (k : Nat) (kind : StreamKind)
    (hlen : img.length < 9223372036854775808) (lsp lsf : LoadSt) (secsp secsf : List SecBuf)
    (hs : Sim2 img k kind lsp lsf) (hrel : ListRel (SecRelI lsp.st.fail) secsp secsf)
    (hip : ∀ b ∈ secsp, LoadedSec [] b (img.take k)) (hif : ∀ b ∈ secsf, LoadedSec [] b img)
    (hnp : ∀ b ∈ secsp, b.name = [])
    (hnul : ∀ T, (Hdr.e_shstrndx c enc hdr).toNat ≠ 0 →
      (namesPure c enc [] hdr lsf secsf).2[(Hdr.e_shstrndx c enc hdr).toNat]? = some T → NulFirst T) :
    ∀ b ∈ (namesPure c enc [] hdr lsp secsp).2, SecZero b → b.name = [] := by
  have hlk := take_length_le img k
  unfold namesPure at hnul ⊢
  split
  · intro b hb _; exact hnp b hb
  · rename_i hndx
    rw [if_neg hndx] at hnul
    rcases hrel.getElem? (Hdr.e_shstrndx c enc hdr).toNat with ⟨e1, e2⟩ | ⟨bp, bf, e1, e2, hr⟩
    · rw [e1]; intro b hb _; exact hnp b hb
    · rw [e1]
      rw [e2] at hnul
      dsimp only at hnul ⊢
      have ip := hip bp (List.mem_of_getElem? e1)
      have jf := hif bf (List.mem_of_getElem? e2)
      obtain ⟨pP, -⟩ := secGetData_pure c lsp bp (img.take k) hs.p.data ip (by omega)
      obtain ⟨pF, -⟩ := secGetData_pure c lsf bf img hs.f.data jf hlen
      have rel1 := getDataPure_rel hr.1 ip jf hlen
      rw [← pP, ← pF] at rel1
      -- the complete run's table, as it ends up in the list
      have hlt : (Hdr.e_shstrndx c enc hdr).toNat < secsf.length := by
        rcases Nat.lt_or_ge (Hdr.e_shstrndx c enc hdr).toNat secsf.length with h | h
        · exact h
        · rw [List.getElem?_eq_none h] at e2; cases e2
      have hne0 : (Hdr.e_shstrndx c enc hdr).toNat ≠ 0 := by
        intro e0
        apply hndx
        rw [beq_iff_eq]
        exact BitVec.eq_of_toNat_eq (by rw [e0]; rfl)
      have hT := hnul (withName (secGetData c [] lsf bf).2 (secGetData c [] lsf bf).2) hne0 (by
        rw [List.getElem?_map, List.getElem?_set_self hlt]; rfl)
      have hTd : NulFirst (secGetData c [] lsf bf).2 := by
        intro d hd hsz
        have sh := withName_sameHdr (secGetData c [] lsf bf).2 (secGetData c [] lsf bf).2
        have hdat : (withName (secGetData c [] lsf bf).2 (secGetData c [] lsf bf).2).data =
            (secGetData c [] lsf bf).2.data := by
          unfold withName; split <;> rfl
        exact hT d (by rw [hdat]; exact hd) (by rw [sh.size]; exact hsz)
      intro b hb hz
      rw [List.mem_map] at hb
      obtain ⟨a, ha, rfl⟩ := hb
      have han : a.name = [] := by
        rcases List.mem_or_eq_of_mem_set ha with h | h
        · exact hnp a h
        · rw [h]; exact (secGetData_name ..).trans (hnp bp (List.mem_of_getElem? e1))
      have hoff : a.nameOff = 0 := by
        have := hz.nameOff
        rwa [(withName_sameHdr _ a).nameOff] at this
      rw [withName_eq]
      show nameOf _ a = []
      unfold nameOf
      rw [hoff]
      cases hd : (secGetData c [] lsp bp).2.data with
      | none => rw [getString_none_data _ _ hd]; exact han
      | some d =>
        cases rel1 with
        | zero _ hz' => rw [hz'.data] at hd; cases hd
        | never _ hdn _ => rw [hdn] at hd; cases hd
        | both hsf hdd _ _ _ =>
          rw [LoadTie.getString_hand, hd]
          dsimp only
          by_cases hsz : 0 < (secGetData c [] lsp bp).2.size.toNat
          · have h0 : d.head? = some 0 := hTd d (by rw [← hdd]; exact hd) (by rw [← hsf.size]; exact hsz)
            have hc := cstrAt_zero_of_nul "get_string/memchr" d (secGetData c [] lsp bp).2.size.toNat hsz h0
            show (match cstrAt "get_string/memchr" d (secGetData c [] lsp bp).2.size.toNat (0 : BitVec 32).toNat with
              | .ok (some s) => s | _ => a.name) = []
            rw [show (0 : BitVec 32).toNat = 0 from rfl, hc]
          · have : cstrAt "get_string/memchr" d (secGetData c [] lsp bp).2.size.toNat (0 : BitVec 32).toNat = .ok none := by
              unfold cstrAt
              rw [if_pos (by show (0 : BitVec 32).toNat ≥ _; rw [show (0 : BitVec 32).toNat = 0 from rfl]; omega)]
              rfl
            show (match cstrAt "get_string/memchr" d (secGetData c [] lsp bp).2.size.toNat (0 : BitVec 32).toNat with
              | .ok (some s) => s | _ => a.name) = []
            rw [this]; exact han

/-! ### the phases of `load` in both runs -/

/-- what the two loads have in common when the load of the prefix succeeds -/
structure PrefixSound (f : Bool) (rp rf : LoadRes) : Prop where
  ok : rf.ok = true
  hdr : rp.obj.hdr = rf.obj.hdr
  cls : rp.obj.cls = rf.obj.cls
  enc : rp.obj.enc = rf.obj.enc
  secs : ListRel (SecRelI f) rp.obj.secs rf.obj.secs
  names : ListRel NameRel rp.obj.secs rf.obj.secs
  segs : ListRel SegRel rp.obj.segs rf.obj.segs
  /-- with at least one segment the prefix run's stream never failed: no zeroed section -/
  nofail : rp.obj.segs ≠ [] → f = false

theorem loadSegmentsLoop_zero_segs (c enc tr isLazy phoff entsize secs i ls) :
    (loadSegmentsLoop c enc tr isLazy phoff entsize secs 0 i ls []).2.1 = [] := rfl

theorem loadSegsPhase_sim (o : Obj) (c : Cls) (enc : Enc) (hdr : Bytes) (isLazy : Bool) (htr : o.trans = [])
    (img : Bytes) (k : Nat) (kind : StreamKind) (hlen : img.length < 9223372036854775808)
    (lsp lsf : LoadSt) (secsp secsf : List SecBuf) (hs : Sim2 img k kind lsp lsf)
    (hrel : ListRel (SecRelI lsp.st.fail) secsp secsf) (hnames : ListRel NameRel secsp secsf)
    (rp rf : LoadRes)
    (hp : loadSegsPhase o c enc hdr isLazy lsp secsp = .ok rp)
    (hf : loadSegsPhase o c enc hdr isLazy lsf secsf = .ok rf) (hok : rp.ok = true) :
    PrefixSound lsp.st.fail rp rf := by
  unfold loadSegsPhase at hp hf
  by_cases hbad : load_segments_entsize_bad (Hdr.e_phnum c enc hdr) (Hdr.ident hdr EI_CLASS)
      (Hdr.e_phentsize c enc hdr) = true
  · rw [if_pos hbad] at hp
    cases hp
    exact Bool.noConfusion hok
  · rw [if_neg hbad] at hp hf
    rw [htr] at hp hf
    cases hp
    cases hf
    have hsecs : lsp.st.fail = false → ListRel (SecRelI false) secsp secsf := fun hx => hx ▸ hrel
    obtain ⟨r1, r2, r3⟩ := loadSegmentsLoop_sim c enc img k kind hlen isLazy (Hdr.e_phoff c enc hdr).toInt
      (Hdr.e_phentsize c enc hdr).toNat secsp secsf (Hdr.e_phnum c enc hdr).toNat 0 lsp lsf [] [] hs hsecs
      .nil hok
    refine ⟨r1, rfl, rfl, rfl, hrel, hnames, r2, ?_⟩
    intro hne
    apply r3
    rcases Nat.eq_zero_or_pos (Hdr.e_phnum c enc hdr).toNat with h0 | h0
    · exfalso; apply hne
      show (loadSegmentsLoop c enc [] isLazy (Hdr.e_phoff c enc hdr).toInt (Hdr.e_phentsize c enc hdr).toNat
        secsp (Hdr.e_phnum c enc hdr).toNat 0 lsp []).2.1 = []
      rw [h0]; rfl
    · exact h0

theorem loadSegsPhase_obj {o : Obj} {c : Cls} {enc : Enc} {hdr : Bytes} {isLazy : Bool} {ls : LoadSt}
    {secs : List SecBuf} {r : LoadRes} (h : loadSegsPhase o c enc hdr isLazy ls secs = .ok r) :
    r.obj.secs = secs ∧ r.obj.cls = o.cls ∧ r.obj.enc = o.enc ∧ r.obj.hdr = o.hdr := by
  unfold loadSegsPhase at h
  split at h <;> (cases h; exact ⟨rfl, rfl, rfl, rfl⟩)

theorem loadNamesK_exists {c : Cls} {enc : Enc} {tr : List Trans} {hdr : Bytes} {ls : LoadSt} {secs : List SecBuf}
    {k : LoadSt × List SecBuf → M LoadRes} {r : LoadRes} (h : loadNamesK c enc tr hdr ls secs k = .ok r) :
    ∃ p, k p = .ok r := by
  unfold loadNamesK at h
  split at h
  · exact ⟨_, h⟩
  · split at h
    · exact ⟨_, h⟩
    · cases hr : resolveNames (secGetData c tr ls ‹SecBuf›).2
          (secs.set (Hdr.e_shstrndx c enc hdr).toNat (secGetData c tr ls ‹SecBuf›).2) with
      | error e => rw [hr] at h; cases h
      | ok v => rw [hr] at h; exact ⟨_, h⟩

theorem loadAfterHdr_obj {o : Obj} {c : Cls} {enc : Enc} {hdr : Bytes} {isLazy : Bool} {st : IStream} {r : LoadRes}
    (h : loadAfterHdr o c enc hdr isLazy st = .ok r) :
    r.obj.cls = o.cls ∧ r.obj.enc = o.enc ∧ r.obj.hdr = o.hdr := by
  unfold loadAfterHdr at h
  split at h
  · exact (loadSegsPhase_obj h).2
  · obtain ⟨p, hp⟩ := loadNamesK_exists h
    exact (loadSegsPhase_obj hp).2

/-- the section-name table of the complete run (if resident and non-empty) starts with NUL -/
def NameTableNulFirst (rf : LoadRes) : Prop :=
  ∀ hdr T, rf.obj.hdr = some hdr → (Hdr.e_shstrndx rf.obj.cls rf.obj.enc hdr).toNat ≠ 0 →
    rf.obj.secs[(Hdr.e_shstrndx rf.obj.cls rf.obj.enc hdr).toNat]? = some T → NulFirst T

theorem loadAfterHdr_sim (o : Obj) (c : Cls) (enc : Enc) (hdr : Bytes) (isLazy : Bool) (htr : o.trans = [])
    (img : Bytes) (k : Nat) (hlen : img.length < 9223372036854775808)
    (sp sf : IStream) (hs : Sim img k sp sf) (rp rf : LoadRes)
    (hp : loadAfterHdr o c enc hdr isLazy sp = .ok rp)
    (hf : loadAfterHdr o c enc hdr isLazy sf = .ok rf) (hok : rp.ok = true) :
    ∃ f, PrefixSound f rp rf ∧
      ((∀ T, (Hdr.e_shstrndx c enc hdr).toNat ≠ 0 →
          rf.obj.secs[(Hdr.e_shstrndx c enc hdr).toNat]? = some T → NulFirst T) →
        ∀ b ∈ rp.obj.secs, SecZero b → b.name = []) := by
  unfold loadAfterHdr at hp hf
  rw [htr] at hp hf
  have h0 : Sim2 img k sf.kind { st := sp } { st := sf } :=
    ⟨⟨hs.dp, hs.kind, fun a ha => by cases ha⟩, ⟨hs.df, rfl, fun a ha => by cases ha⟩, hs.fail⟩
  by_cases hbad : load_sections_entsize_bad (Hdr.e_shnum c enc hdr) (Hdr.ident hdr EI_CLASS)
      (Hdr.e_shentsize c enc hdr) = true
  · rw [if_pos hbad] at hp hf
    have e1 : loadSecs0 c enc [] hdr isLazy sp = ({ st := sp }, []) := by unfold loadSecs0; rw [if_pos hbad]
    have e2 : loadSecs0 c enc [] hdr isLazy sf = ({ st := sf }, []) := by unfold loadSecs0; rw [if_pos hbad]
    rw [e1] at hp; rw [e2] at hf
    refine ⟨_, loadSegsPhase_sim o c enc hdr isLazy htr img k sf.kind hlen _ _ [] [] h0 .nil .nil rp rf hp hf hok, ?_⟩
    intro _ b hb
    rw [(loadSegsPhase_obj hp).1] at hb
    cases hb
  · rw [if_neg hbad] at hp hf
    have e1 : loadSecs0 c enc [] hdr isLazy sp = loadSectionsLoop c enc [] isLazy (Hdr.e_shoff c enc hdr).toInt
        (Hdr.e_shentsize c enc hdr).toNat (Hdr.e_shnum c enc hdr).toNat 0 { st := sp } [] := by
      unfold loadSecs0; rw [if_neg hbad]
    have e2 : loadSecs0 c enc [] hdr isLazy sf = loadSectionsLoop c enc [] isLazy (Hdr.e_shoff c enc hdr).toInt
        (Hdr.e_shentsize c enc hdr).toNat (Hdr.e_shnum c enc hdr).toNat 0 { st := sf } [] := by
      unfold loadSecs0; rw [if_neg hbad]
    obtain ⟨p1, p2⟩ := loadSecs0_spec c enc [] hdr isLazy sp
    obtain ⟨q1, q2⟩ := loadSecs0_spec c enc [] hdr isLazy sf
    rw [loadNamesK_eq c enc [] hdr _ _ _ sp.data sp.kind p1 p2] at hp
    rw [loadNamesK_eq c enc [] hdr _ _ _ sf.data sf.kind q1 q2] at hf
    obtain ⟨l1, l2⟩ := loadSectionsLoop_sim c enc img k sf.kind hlen isLazy (Hdr.e_shoff c enc hdr).toInt
      (Hdr.e_shentsize c enc hdr).toNat (Hdr.e_shnum c enc hdr).toNat 0 _ _ [] [] h0 .nil
    rw [← e1, ← e2] at l1 l2
    rw [hs.dp] at p2; rw [hs.df] at q2
    obtain ⟨n1, n2⟩ := namesPure_sim c enc hdr img k sf.kind hlen _ _ _ _ l1 l2 p2 q2
    have m1 : ∀ b ∈ (loadSecs0 c enc [] hdr isLazy sp).2, b.name = [] := by
      rw [e1]; exact loadSectionsLoop_names c enc [] isLazy _ _ _ 0 _ [] (fun b hb => by cases hb)
    have m2 : ∀ b ∈ (loadSecs0 c enc [] hdr isLazy sf).2, b.name = [] := by
      rw [e2]; exact loadSectionsLoop_names c enc [] isLazy _ _ _ 0 _ [] (fun b hb => by cases hb)
    have n3 := namesPure_names c enc hdr img k sf.kind hlen _ _ _ _ l1 l2 p2 q2 m1 m2
    refine ⟨_, loadSegsPhase_sim o c enc hdr isLazy htr img k sf.kind hlen _ _ _ _ n1 n2 n3 rp rf hp hf hok, ?_⟩
    intro hnul
    rw [(loadSegsPhase_obj hp).1]
    rw [(loadSegsPhase_obj hf).1] at hnul
    exact namesPure_zero_names c enc hdr img k sf.kind hlen _ _ _ _ l1 l2 p2 q2 m1 hnul

/-- **prefix_sound**: for EVERY byte string `img` shorter than 2^63 (well-formed or not) and every
    prefix length `k`: if loading the prefix succeeds (`ok = true`), then loading the complete
    image succeeds as well, with the identical ELF header, with identical segments (all eight
    fields, data pointer contents, member lists), and section by section: the prefix run's
    section is the zeroed one without data (possible only if there are no segments), or it has
    the same ten header fields and its data is absent or the same bytes. -/
theorem prefix_sound_core (o : Obj) (htr : o.trans = []) (img : Bytes) (k : Nat) (kind : StreamKind)
    (isLazy : Bool) (hlen : img.length < 9223372036854775808) (rp rf : LoadRes)
    (hp : load o { data := img.take k, kind := kind } isLazy = .ok rp)
    (hf : load o { data := img, kind := kind } isLazy = .ok rf) (hok : rp.ok = true) :
    ∃ f, PrefixSound f rp rf ∧ (NameTableNulFirst rf → ∀ b ∈ rp.obj.secs, SecZero b → b.name = []) := by
  rw [load_eq] at hp hf
  dsimp only at hp hf
  rw [htr] at hp hf
  have hfailRes : ∀ (o' : Obj) (st : IStream), (Except.ok (failRes o' st) : M LoadRes) = .ok rp → False := by
    intro o' st h; cases h; exact Bool.noConfusion hok
  have S0 : Sim img k ({ data := img.take k, kind := kind } : IStream) { data := img, kind := kind } :=
    ⟨rfl, rfl, rfl, fun h => Bool.noConfusion h⟩
  obtain ⟨s1, f1, -⟩ := seekRead_sim S0 (trApply [] 0) 16 (by decide)
  by_cases hg1 : ((({ data := img.take k, kind := kind } : IStream).seekg (trApply [] 0)).read 16).1.gcount = 16
  · obtain ⟨a1, a2, -, -, -, -, -⟩ := f1 hg1
    rw [if_neg (by rw [hg1]; decide)] at hp
    rw [if_neg (by rw [a1]; decide), a2] at hf
    split at hp
    · exact (hfailRes _ _ hp).elim
    · rename_i hmagic
      rw [if_neg hmagic] at hf
      split at hp
      · exact (hfailRes _ _ hp).elim
      · exact (hfailRes _ _ hp).elim
      · rename_i c enc hc he
        rw [hc, he] at hf
        dsimp only at hf
        obtain ⟨s2, f2, -⟩ := seekRead_sim s1 (trApply [] 0) (ehdrSize c) (by cases c <;> decide)
        by_cases hg2 : ((((({ data := img.take k, kind := kind } : IStream).seekg (trApply [] 0)).read 16).1.seekg
            (trApply [] 0)).read (ehdrSize c)).1.gcount = ehdrSize c
        · obtain ⟨b1, b2, -, -, -, -, -⟩ := f2 hg2
          rw [if_neg (by rw [hg2]; simp)] at hp
          rw [if_neg (by rw [b1]; simp), b2] at hf
          obtain ⟨f, hps, hzn⟩ := loadAfterHdr_sim _ c enc _ isLazy rfl img k hlen _ _ s2 rp rf hp hf hok
          refine ⟨f, hps, fun hnul => hzn ?_⟩
          obtain ⟨oc, oe, oh⟩ := loadAfterHdr_obj hf
          intro T hne hT
          refine hnul _ T oh ?_ ?_
          · rw [oc, oe]; exact hne
          · rw [oc, oe]; exact hT
        · rw [if_pos (by simpa using hg2)] at hp
          exact (hfailRes _ _ hp).elim
  · rw [if_pos (by simpa using hg1)] at hp
    exact (hfailRes _ _ hp).elim

theorem prefix_sound (o : Obj) (htr : o.trans = []) (img : Bytes) (k : Nat) (kind : StreamKind)
    (isLazy : Bool) (hlen : img.length < 9223372036854775808) (rp rf : LoadRes)
    (hp : load o { data := img.take k, kind := kind } isLazy = .ok rp)
    (hf : load o { data := img, kind := kind } isLazy = .ok rf) (hok : rp.ok = true) :
    ∃ f, PrefixSound f rp rf := by
  obtain ⟨f, h, _⟩ := prefix_sound_core o htr img k kind isLazy hlen rp rf hp hf hok
  exact ⟨f, h⟩

/-- **prefix_sound_zero_name** (closes the name gap): if the section-name table of the complete run
    starts with a NUL byte (`NameTableNulFirst`: a decidable condition on the complete load; for a
    well-formed image it is the condition "the first byte of the section-name string table is 0" on
    the image — `ElfioVerif.Compose.prefix_sound_names`), every *zeroed* section of the prefix run has
    the empty name.  Together with `prefix_sound_section` (sections with an identical header: the name
    is empty or the same string): the name of every section of the prefix run is empty or the name the
    complete file gives it. -/
theorem prefix_sound_zero_name (o : Obj) (htr : o.trans = []) (img : Bytes) (k : Nat) (kind : StreamKind)
    (isLazy : Bool) (hlen : img.length < 9223372036854775808) (rp rf : LoadRes)
    (hp : load o { data := img.take k, kind := kind } isLazy = .ok rp)
    (hf : load o { data := img, kind := kind } isLazy = .ok rf) (hok : rp.ok = true)
    (hnul : NameTableNulFirst rf) :
    ∀ (i : Nat) (bp : SecBuf), rp.obj.secs[i]? = some bp → SecZero bp → bp.name = [] := by
  obtain ⟨f, _, h⟩ := prefix_sound_core o htr img k kind isLazy hlen rp rf hp hf hok
  intro i bp hi hz
  exact h hnul bp (List.mem_of_getElem? hi) hz

/-- `prefix_sound`, section by section: section `i` of the prefix run is matched by section `i` of
    the complete run; its header is all-zero or identical, its data pointer null or the same bytes -/
theorem prefix_sound_section (o : Obj) (htr : o.trans = []) (img : Bytes) (k : Nat) (kind : StreamKind)
    (isLazy : Bool) (hlen : img.length < 9223372036854775808) (rp rf : LoadRes)
    (hp : load o { data := img.take k, kind := kind } isLazy = .ok rp)
    (hf : load o { data := img, kind := kind } isLazy = .ok rf) (hok : rp.ok = true) :
    rp.obj.secs.length = rf.obj.secs.length ∧
    ∀ (i : Nat) (bp : SecBuf), rp.obj.secs[i]? = some bp → ∃ bf, rf.obj.secs[i]? = some bf ∧
      (SecZero bp ∨ SameFields bp bf) ∧ (bp.data = none ∨ bp.data = bf.data) ∧ bp.index = bf.index ∧
      (rp.obj.segs ≠ [] → SameFields bp bf) ∧
      (bp.nameOff = bf.nameOff → bp.name = [] ∨ bp.name = bf.name) := by
  obtain ⟨f, h⟩ := prefix_sound o htr img k kind isLazy hlen rp rf hp hf hok
  refine ⟨h.secs.length_eq, ?_⟩
  intro i bp hi
  rcases h.secs.getElem? i with ⟨e1, -⟩ | ⟨a, b, e1, e2, hr⟩
  · rw [e1] at hi; cases hi
  · rw [e1] at hi; cases hi
    have hnm : bp.nameOff = b.nameOff → bp.name = [] ∨ bp.name = b.name := by
      rcases h.names.getElem? i with ⟨e3, -⟩ | ⟨a', b', e3, e4, hn⟩
      · rw [e1] at e3; cases e3
      · rw [e1] at e3; rw [e2] at e4; cases e3; cases e4; exact hn
    refine ⟨b, e2, hr.1.sound.1, hr.1.sound.2, hr.2, ?_, hnm⟩
    intro hne
    have hf0 := h.nofail hne
    subst hf0
    exact hr.1.fields_of_not_failed

/-- … and segment by segment: identical (success with `e_phnum > 0` implies the prefix stream never
    failed) -/
theorem prefix_sound_segment (o : Obj) (htr : o.trans = []) (img : Bytes) (k : Nat) (kind : StreamKind)
    (isLazy : Bool) (hlen : img.length < 9223372036854775808) (rp rf : LoadRes)
    (hp : load o { data := img.take k, kind := kind } isLazy = .ok rp)
    (hf : load o { data := img, kind := kind } isLazy = .ok rf) (hok : rp.ok = true) :
    rf.ok = true ∧ rp.obj.hdr = rf.obj.hdr ∧ rp.obj.segs.length = rf.obj.segs.length ∧
    ∀ (i : Nat) (gp : Seg), rp.obj.segs[i]? = some gp → ∃ gf, rf.obj.segs[i]? = some gf ∧ SegRel gp gf := by
  obtain ⟨f, h⟩ := prefix_sound o htr img k kind isLazy hlen rp rf hp hf hok
  refine ⟨h.ok, h.hdr, h.segs.length_eq, ?_⟩
  intro i gp hi
  rcases h.segs.getElem? i with ⟨e1, -⟩ | ⟨a, b, e1, e2, hr⟩
  · rw [e1] at hi; cases hi
  · rw [e1] at hi; cases hi
    exact ⟨b, e2, hr⟩

/-! ### non-vacuity -/

/-- a 208-byte ELF64/LSB image: header, two section headers at 64 (null section, string table),
    the string table `\0.shstrtab\0` at 192 -/
def img208b : Bytes := [
   127, 69, 76, 70, 2, 1, 1, 0, 0, 0, 0, 0, 0, 0, 0, 0, 1, 0, 62, 0, 1, 0, 0, 0, 0, 0, 0, 0, 0, 0, 0, 0,
   0, 0, 0, 0, 0, 0, 0, 0, 64, 0, 0, 0, 0, 0, 0, 0, 0, 0, 0, 0, 64, 0, 56, 0, 0, 0, 64, 0, 2, 0, 1, 0,
   0, 0, 0, 0, 0, 0, 0, 0, 0, 0, 0, 0, 0, 0, 0, 0, 0, 0, 0, 0, 0, 0, 0, 0, 0, 0, 0, 0, 0, 0, 0, 0,
   0, 0, 0, 0, 0, 0, 0, 0, 0, 0, 0, 0, 0, 0, 0, 0, 0, 0, 0, 0, 0, 0, 0, 0, 0, 0, 0, 0, 0, 0, 0, 0,
   1, 0, 0, 0, 3, 0, 0, 0, 0, 0, 0, 0, 0, 0, 0, 0, 0, 0, 0, 0, 0, 0, 0, 0, 192, 0, 0, 0, 0, 0, 0, 0,
   11, 0, 0, 0, 0, 0, 0, 0, 0, 0, 0, 0, 0, 0, 0, 0, 1, 0, 0, 0, 0, 0, 0, 0, 0, 0, 0, 0, 0, 0, 0, 0,
   0, 46, 115, 104, 115, 116, 114, 116, 97, 98, 0, 0, 0, 0, 0, 0]

/- prefixes of `img208b` that load (so the hypotheses of `prefix_sound` are satisfiable), and what
   they yield for [type, size, data resident, name length] of the two sections:
   k = 150 cuts section header 1 (zeroed section), k = 200 cuts the string table data (same header,
   no data, no names), k = 205 contains everything that is referenced (identical to the full load) -/
set_option maxRecDepth 100000 in
example :
    [150, 200, 205, 208].map (fun k =>
      (load {} { data := img208b.take k } false).toOption.map (fun r =>
        (r.ok, r.obj.secs.map (fun (b : SecBuf) =>
          [b.stype.toNat, b.size.toNat, if b.data.isSome then 1 else 0, b.name.length])))) =
    [some (true, [[0, 0, 0, 0], [0, 0, 0, 0]]),
     some (true, [[0, 0, 0, 0], [3, 11, 0, 0]]),
     some (true, [[0, 0, 0, 0], [3, 11, 1, 9]]),
     some (true, [[0, 0, 0, 0], [3, 11, 1, 9]])] := by decide

/- `read_prefix` has instances: reading 64 bytes at 0 from the 150-byte prefix is complete -/
set_option maxRecDepth 100000 in
example : ((({ data := img208b.take 150 } : IStream).read 64).1.gcount = 64) := by decide

/-! ### non-vacuity of `prefix_sound_zero_name` : a zeroed section next to a resident name table -/

instance (rf : LoadRes) : Decidable (NameTableNulFirst rf) :=
  decidable_of_iff (∀ hdr ∈ rf.obj.hdr, (Hdr.e_shstrndx rf.obj.cls rf.obj.enc hdr).toNat ≠ 0 →
      ∀ T ∈ rf.obj.secs[(Hdr.e_shstrndx rf.obj.cls rf.obj.enc hdr).toNat]?, NulFirst T)
    ⟨fun h hdr T hh hne hT => h hdr hh hne T hT, fun h hdr hh hne T hT => h hdr T hh hne hT⟩

/-- a 272-byte ELF64/LSB image whose section header table comes last: header, the string table
    `\0.shstrtab\0` at 64, three section headers at 80 (null section, string table, a PROGBITS section) -/
def img272 : Bytes := [
   127, 69, 76, 70, 2, 1, 1, 0, 0, 0, 0, 0, 0, 0, 0, 0, 1, 0, 62, 0, 1, 0, 0, 0, 0, 0, 0, 0, 0, 0, 0, 0,
   0, 0, 0, 0, 0, 0, 0, 0, 80, 0, 0, 0, 0, 0, 0, 0, 0, 0, 0, 0, 64, 0, 56, 0, 0, 0, 64, 0, 3, 0, 1, 0,
   0, 46, 115, 104, 115, 116, 114, 116, 97, 98, 0, 0, 0, 0, 0, 0, 0, 0, 0, 0, 0, 0, 0, 0, 0, 0, 0, 0, 0, 0, 0, 0,
   0, 0, 0, 0, 0, 0, 0, 0, 0, 0, 0, 0, 0, 0, 0, 0, 0, 0, 0, 0, 0, 0, 0, 0, 0, 0, 0, 0, 0, 0, 0, 0,
   0, 0, 0, 0, 0, 0, 0, 0, 0, 0, 0, 0, 0, 0, 0, 0, 1, 0, 0, 0, 3, 0, 0, 0, 0, 0, 0, 0, 0, 0, 0, 0,
   0, 0, 0, 0, 0, 0, 0, 0, 64, 0, 0, 0, 0, 0, 0, 0, 11, 0, 0, 0, 0, 0, 0, 0, 0, 0, 0, 0, 0, 0, 0, 0,
   1, 0, 0, 0, 0, 0, 0, 0, 0, 0, 0, 0, 0, 0, 0, 0, 1, 0, 0, 0, 1, 0, 0, 0, 0, 0, 0, 0, 0, 0, 0, 0,
   0, 0, 0, 0, 0, 0, 0, 0, 64, 0, 0, 0, 0, 0, 0, 0, 4, 0, 0, 0, 0, 0, 0, 0, 0, 0, 0, 0, 0, 0, 0, 0,
   1, 0, 0, 0, 0, 0, 0, 0, 0, 0, 0, 0, 0, 0, 0, 0]

/-- the prefix of length 250 cuts section header 2: the load succeeds, section 2 is zeroed, the name
    table is resident — and (as the theorem says, the table starting with NUL) its name is empty; the
    complete load names it ".shstrtab" (name offset 1) -/
example :
    (match load {} { data := img272 } false, load {} { data := img272.take 250 } false with
     | .ok rf, .ok rp => decide (NameTableNulFirst rf) && rp.ok &&
        (rp.obj.secs.map fun (b : SecBuf) => (b.stype.toNat, b.data.isSome, b.name.length)) ==
          [(0, false, 0), (3, true, 9), (0, false, 0)] &&
        (rf.obj.secs.map fun (b : SecBuf) => (b.stype.toNat, b.data.isSome, b.name.length)) ==
          [(0, false, 0), (3, true, 9), (1, true, 9)]
     | _, _ => false) = true := by decide +kernel

end ElfioVerif.C17
