import ElfioVerif.Model.Load
namespace ElfioVerif.C17
end ElfioVerif.C17
