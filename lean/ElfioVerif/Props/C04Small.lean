/-
C04, closed-form domain: the writer-domain hypothesis `layoutNW (preSave o) hdr = true` of the C04
layout theorems (a Bool function that runs the layout and checks every cursor update) follows from
plain, decidable bounds on the *input* object — `SmallObject` (Lemmas/LayoutSmall.lean):

  ELF64; fewer than 2^16 sections and 2^16 segments; every section size and alignment < 2^40;
  every segment alignment < 2^40; every segment member with an explicit address lies at or above
  the segment's `vaddr`, less than 2^40 above it.

No bound on the addresses themselves (kernel-style addresses near 2^64 are fine, see `exHigh`), on
`vaddr`, or on header fields (`e_ehsize + e_phentsize * e_phnum < 2^33` for all 16-bit values).
The cursor then stays below `2^33 + 2^57 + 2^56 + 2^57 < 2^59`.

ELF32 is not covered: there the offsets also have to fit 32 bits (`fitsB`), which needs a bound on
the *sum* of all sizes rather than on each size; `SmallObject` demands ELF64.
-/
import ElfioVerif.Props.C04
import ElfioVerif.Lemmas.LayoutSmall
import ElfioVerif.Lemmas.LayoutSmall2
import ElfioVerif.Props.Compose2
namespace ElfioVerif.C04
open Gen

/-- **Closed-form no-wrap.**  For a small object the layout part of `save` never wraps the 64-bit
    file cursor (whatever the header bytes are). -/
theorem layoutNW_of_small (o : Obj) (hdr : Bytes) (hs : SmallObject o) :
    layoutNW (preSave o) hdr = true :=
  smallObject_layoutNW_preSave o hdr hs

/-- `exObj` (Props/C04.lean: four sections, one PT_LOAD with an aligned and an explicitly addressed
    member, one loose section) is small -/
example : SmallObject exObj := by decide

/-- kernel-style addresses: members and segment near the top of the address space -/
def exHigh : Obj :=
  { cls := .c64, enc := .lsb, hdr := some exHdr,
    secs := [ { SecBuf.fresh .c64 0 with index := 0 },
              { SecBuf.fresh .c64 1 with index := 1, size := 0x2000, addrAlign := 0x1000, flags := 6,
                                         addr := 0xffffffff80001000, addrSet := true },
              { SecBuf.fresh .c64 1 with index := 2, size := 0x100, addrAlign := 8, flags := 3,
                                         addr := 0xffffffff80004000, addrSet := true },
              { SecBuf.fresh .c64 3 with index := 3, size := 33, addrAlign := 1 } ],
    segs := [ { stype := 1, vaddr := 0xffffffff80000000, align := 0x200000, secs := [1, 2], index := 0 } ] }

example : SmallObject exHigh := by decide

/-- … and `save` indeed lays it out (the theorem is not about aborted layouts only) -/
example : layoutIs (preSave exHigh) exHdr (fun r => decide (r.pos3.toNat ≤ r.shoff.toNat)) = true := by
  decide

/-- **Disjointness of everything `save` writes, closed-form domain** — `layout_disjoint` with the
    no-wrap hypothesis replaced by the bounds. -/
theorem layout_disjoint_small (o : Obj) (os : OStream) (r : SaveRes) (hdr : Bytes)
    (hs : save o os = .ok r) (hok : r.ok = true) (hh : o.hdr = some hdr)
    (h0 : ∀ (i : Nat) (s : SecBuf), o.secs[i]? = some s → s.Occ → s.index ≠ 0)
    (hsm : SmallObject o) :
    let eh := (Hdr.e_ehsize o.cls o.enc (saveHdr0 o hdr)).toNat
    let pht := (Hdr.e_phentsize o.cls o.enc (saveHdr0 o hdr)).toNat * (Hdr.e_phnum o.cls o.enc (saveHdr0 o hdr)).toNat
    let shoff := r.obj.curPos.toNat
    (∀ (k : Nat) (s : SecBuf), r.obj.secs[k]? = some s → s.Occ →
      eh + pht ≤ s.offset.toNat ∧ s.endN ≤ shoff) ∧
    (∀ (k1 k2 : Nat) (a b : SecBuf), k1 ≠ k2 → r.obj.secs[k1]? = some a → r.obj.secs[k2]? = some b →
      a.Occ → b.Occ → a.endN ≤ b.offset.toNat ∨ b.endN ≤ a.offset.toNat) ∧
    eh + pht < shoff ∧ shoff % 16 = 0 :=
  layout_disjoint o os r hdr hs hok hh hsm.2.1 h0 (layoutNW_of_small o hdr hsm)

/-- **Alignment, closed-form domain** — `layout_aligned` with the no-wrap hypothesis replaced by the bounds. -/
theorem layout_aligned_small (o : Obj) (os : OStream) (r : SaveRes) (hdr : Bytes)
    (hs : save o os = .ok r) (hok : r.ok = true) (hh : o.hdr = some hdr)
    (h0 : ∀ (i : Nat) (s : SecBuf), o.secs[i]? = some s → s.Occ → s.index ≠ 0)
    (hsm : SmallObject o)
    (k : Nat) (s0 s : SecBuf) (h0k : o.secs[k]? = some s0) (hk : r.obj.secs[k]? = some s)
    (ha : s0.addrSet = false) (hnn : s0.stype ≠ BitVec.ofNat 32 SHT_NULL) (hi : s0.index ≠ 0) :
    s.offset.toNat % (max s0.addrAlign.toNat 1) = 0 :=
  layout_aligned o os r hdr hs hok hh hsm.2.1 h0 (layoutNW_of_small o hdr hsm) k s0 s h0k hk ha hnn hi

/-- the hypotheses of the two theorems are satisfiable: `save exObj` succeeds on a small object whose
    file-occupying sections have non-zero index -/
example : SmallObject exObj ∧
    (∀ (i : Nat) (s : SecBuf), exObj.secs[i]? = some s → s.Occ → s.index ≠ 0) ∧
    (match save exObj {} with | .ok r => r.ok | _ => false) = true := by
  refine ⟨by decide, ?_, by set_option maxRecDepth 100000 in decide⟩
  intro i s hs ho hi
  have : ∀ t ∈ exObj.secs, t.index = 0 → ¬ t.Occ := by decide
  exact this s (List.mem_of_getElem? hs) hi ho

/-! ### not done: `noWrap64InB` from bounds

`Compose.noWrap64InB o hd` (Props/Compose2.lean) asks that in the *result* of the layout
`addr + size` and `offset + size` of every section and `vaddr + memsz`, `offset + filesz` of every
segment stay below `2^64`.  `SmallObject` is not enough for that (it does not bound addresses, on
purpose), so the statement needs the additional bounds below.  What the proof needs on top of
`Small.SmallInv` (Lemmas/LayoutSmall.lean), and is not proved here:

 * offsets: every offset the writer assigns is a cursor value, hence `≤ 2^59` by `SmallInv.pot`
   (needs `pot` strengthened from "potential ≤ B" to "every assigned offset ≤ B", e.g. via
   `LayStep.fresh`, or sections with index 0 / never placed keep their input offset — which then
   must be bounded in the input too: `offset < 2^62`);
 * writer-assigned addresses `vaddr + (cursor − segStart)` (`wsdPlace_facts`): `< vaddr + 2^59`;
 * the counters `st.mem`, `st.file` of `write_segment_data` (`wsd_mem_add`, `wsd_file_add`): each
   step adds `size + gap < 2^41`, at most `2^16` members *per occurrence in the member list*, so a
   bound on `g.secs.length` (say `< 2^16`) is needed as well; `segFinish` keeps the input `memsz`
   when it is larger, so `memsz` must be bounded in the input;
 * `segStart` of an offset-0 segment is 0 and of a PT_PHDR segment is `e_phoff`: small. -/

/-- the additional input bounds under which `noWrap64InB` is expected to hold -/
def SmallAddrs (o : Obj) : Prop :=
  (∀ s ∈ o.secs, s.addr.toNat < 4611686018427387904 ∧ s.offset.toNat < 4611686018427387904) ∧
  (∀ g ∈ o.segs, g.vaddr.toNat < 4611686018427387904 ∧ g.memsz.toNat < 4611686018427387904 ∧
    g.secs.length < 65536)

/-- open: the closed-form version of `Compose.noWrap64InB` -/
def NoWrap64SmallStatement : Prop :=
  ∀ (o : Obj) (hd : Bytes), SmallObject o → SmallAddrs o → Compose.noWrap64InB o hd = true

/-! ### the open statement above is false as stated; the section half with corrected bounds -/

/-- an SHT_NULL section with a stale offset (1000) that is the first member of two segments: the
    second segment takes `seg_start_pos = 1000` from it, beyond the cursor, and the address
    `vaddr + cursor − seg_start_pos` the writer assigns to the next member wraps -/
def exNullFirst : Obj :=
  { cls := .c64, enc := .lsb, hdr := some exHdr,
    secs := [ { SecBuf.fresh .c64 0 with index := 0 },
              { SecBuf.fresh .c64 0 with index := 1, offset := 1000 },
              { SecBuf.fresh .c64 1 with index := 2, size := 1000, addrAlign := 1, flags := 2 },
              { SecBuf.fresh .c64 1 with index := 3, size := 8, addrAlign := 1, flags := 2 } ],
    segs := [ { stype := 1, vaddr := 0, align := 1, secs := [1, 3], index := 0 },
              { stype := 1, vaddr := 0, align := 1, secs := [1, 2], index := 1 } ] }

/-- `SmallAddrs` is too weak: `NoWrap64SmallStatement` does not hold (witness `exNullFirst`).  The
    corrected bounds `SmallAddrs2` (Lemmas/LayoutSmall2.lean) add: a section with index 0 or of type
    SHT_NULL has offset 0. -/
theorem noWrap64SmallStatement_false : ¬ NoWrap64SmallStatement := by
  intro h
  have := h exNullFirst exHdr (by decide) (by unfold SmallAddrs; decide)
  revert this
  decide

theorem smallAddrs2_preSave (o : Obj) (ha : SmallAddrs2 o) : SmallAddrs2 (preSave o) := by
  obtain ⟨hsa, hga⟩ := ha
  have hh := preSave_hdr o
  refine ⟨?_, hga⟩
  intro s' hs'
  obtain ⟨k, hk⟩ := List.getElem?_of_mem hs'
  obtain ⟨s, hs0, he⟩ := hdrOf_getElem? hh k s' hk
  simp only [hdrOf, Prod.mk.injEq] at he
  rw [← he.2.2.2.2.1, ← he.1, ← he.2.2.2.1, ← he.2.2.1]
  exact hsa s (List.mem_of_getElem? hs0)

/-- **Section half of `NoWrap64` from closed-form bounds.**  After a successful `save` of a small
    object with small addresses, `addr + size` and `offset + size` of every section are below `2^64`. -/
theorem save_sections_noWrap_small (o : Obj) (os : OStream) (r : SaveRes) (hdr : Bytes)
    (hs : save o os = .ok r) (hok : r.ok = true) (hh : o.hdr = some hdr)
    (hsm : SmallObject o) (ha : SmallAddrs2 o) :
    ∀ b ∈ r.obj.secs, b.addr.toNat + b.size.toNat < 18446744073709551616 ∧
      b.offset.toNat + b.size.toNat < 18446744073709551616 := by
  obtain ⟨res, hl, -, -, he⟩ := save_secs_hdr o os r hdr hs hok hh
  intro b hb
  obtain ⟨k, hk⟩ := List.getElem?_of_mem hb
  obtain ⟨s, hs0, hq⟩ := hdrOf_getElem? he k b hk
  have := smallObject_sections_noWrap (preSave o) hdr res hl (smallObject_preSave o hsm)
    (smallAddrs2_preSave o ha) s (List.mem_of_getElem? hs0)
  simp only [hdrOf, Prod.mk.injEq] at hq
  rw [← hq.2.2.2.2.1, ← hq.1, ← hq.2.1]
  exact this

/-- `exObj` meets the hypotheses (its only index-0 / SHT_NULL section has offset 0) -/
example : SmallObject exObj ∧ SmallAddrs2 exObj := by
  refine ⟨by decide, ?_⟩
  unfold SmallAddrs2
  decide

/-! ### the segment half on the flat domain -/

theorem mapM_calcSegAlign_src (secs : List SecBuf) (l l' : List Seg)
    (h : l.mapM (calcSegAlign secs) = .ok l') :
    ∀ g' ∈ l', ∃ g ∈ l, g' = { g with align := g'.align } := by
  induction l generalizing l' with
  | nil =>
    simp only [List.mapM_nil, pure, Except.pure, Except.ok.injEq] at h; subst h
    intro g' hg'; exact absurd hg' List.not_mem_nil
  | cons g rest ih =>
    rw [List.mapM_cons] at h
    simp only [bind, Except.bind] at h
    cases hg : calcSegAlign secs g with
    | error e => rw [hg] at h; simp at h
    | ok g1 =>
      rw [hg] at h
      simp only at h
      cases hr : rest.mapM (calcSegAlign secs) with
      | error e => rw [hr] at h; simp at h
      | ok r' =>
        rw [hr] at h
        simp only [pure, Except.pure, Except.ok.injEq] at h
        subst h
        intro g' hg'
        rcases List.mem_cons.1 hg' with rfl | hg'
        · exact ⟨g, List.mem_cons_self .., calcSegAlign_fields secs g _ hg⟩
        · obtain ⟨g0, hg0, he⟩ := ih r' hr g' hg'
          exact ⟨g0, List.mem_cons_of_mem _ hg0, he⟩

/-- every saved segment is the result `t.g'` of a turn whose input segment `t.g` is an input segment
    of the object up to `align` -/
theorem saved_seg_turn {o : Obj} {os : OStream} {r : SaveRes} {hd : Bytes}
    (hs : save o os = .ok r) (hok : r.ok = true) (D : Compose.FlatDomain o hd)
    (res : LayoutRes) (hl : layoutOf (preSave o) hd = .ok (some res)) (g : Seg) (hg : g ∈ r.obj.segs) :
    ∃ t ∈ res.trace (preSave o), g = t.g' ∧ ∃ g0 ∈ o.segs, t.g = { g0 with align := t.g.align } := by
  obtain ⟨res', hl', hsegs, -, -⟩ := save_secs_hdr o os r hd hs hok D.hdr
  rw [hl] at hl'
  obtain rfl : res = res' := by injection hl' with e; injection e
  rw [hsegs] at hg
  have hn' : (preSave o).secs.length < 65536 := by rw [preSave_length]; exact D.input.nsecs
  have h0' := preSave_h0 o D.input.h0
  have hnd : (o.segs.map (·.index)).Nodup :=
    C03.nodup_of_segIdx (RoundTrip.idx_of_B _ _ D.input.segIdx)
  obtain ⟨t, ht, rfl⟩ := final_segs_turn (preSave o) hd res hl D.nw hn' h0' hnd g hg
  refine ⟨t, ht, rfl, ?_⟩
  obtain ⟨e1, -, -⟩ := layoutOf_trace (preSave o) hd res hl D.nw hn' h0'
  obtain ⟨-, -, hm, ho, -⟩ := layoutOf_parts (preSave o) hd res hl
  have hto : t.g ∈ res.ordered := by rw [← e1]; exact List.mem_map_of_mem ht
  have := (orderedSegments_perm _ _ ho).mem_iff.1 hto
  exact mapM_calcSegAlign_src _ _ _ hm t.g this

/-- **`offset + filesz` of the saved segments, flat domain** — no bounds needed -/
theorem save_segments_file_noWrap_flat {o : Obj} {os : OStream} {r : SaveRes} {hd : Bytes}
    (hs : save o os = .ok r) (hok : r.ok = true) (D : Compose.FlatDomain o hd) :
    ∀ g ∈ r.obj.segs, g.offset.toNat + g.filesz.toNat < 18446744073709551616 := by
  intro g hg
  by_cases hfs : g.filesz.toNat = 0
  · have := g.offset.isLt; omega
  · obtain ⟨res, hl, -, -, -⟩ := save_secs_hdr o os r hd hs hok D.hdr
    have hn' : (preSave o).secs.length < 65536 := by rw [preSave_length]; exact D.input.nsecs
    have h0' := preSave_h0 o D.input.h0
    have hnd : (o.segs.map (·.index)).Nodup :=
      C03.nodup_of_segIdx (RoundTrip.idx_of_B _ _ D.input.segIdx)
    obtain ⟨t, ht, hgt, g0, hg0, he⟩ := saved_seg_turn hs hok D res hl g hg
    obtain ⟨-, -, e3⟩ := layoutOf_trace (preSave o) hd res hl D.nw hn' h0'
    obtain ⟨f1, f2, f3, -⟩ := e3 t ht
    obtain ⟨-, hsecs, -, -, hty, -⟩ := layoutSegment_marks _ _ _ _ _ _ _ _ _ f3 f2 f1
    have hph : lseg_is_phdr g.stype (BitVec.ofNat 16 g.secs.length) = false := by
      rw [hgt, hsecs, hty, he]; exact D.noPhdr g0 hg0
    have := (RoundTrip.flat_seg_bounds hs hok D.hdr D.input.nsecs D.input.h0 D.nw hnd (fun _ => true) D.dom
      g hg rfl hph hfs res hl).2
    have := res.lay2.pos.isLt
    omega

/-- **`vaddr + memsz` of the saved segments, flat domain, from closed-form bounds**: every member is
    fresh at its step, so `segment_memory` starts at most at the cursor and grows by less than `2^41`
    per member; `p_memsz < 2^63`, `p_vaddr < 2^62`. -/
theorem save_segments_mem_noWrap_flat {o : Obj} {os : OStream} {r : SaveRes} {hd : Bytes}
    (hs : save o os = .ok r) (hok : r.ok = true) (D : Compose.FlatDomain o hd)
    (hsm : SmallObject o) (ha : SmallAddrs2 o)
    (hmem : ∀ g ∈ o.segs, g.memsz.toNat < 4611686018427387904) :
    ∀ g ∈ r.obj.segs, g.vaddr.toNat + g.memsz.toNat < 18446744073709551616 := by
  obtain ⟨res, hl, -, -, -⟩ := save_secs_hdr o os r hd hs hok D.hdr
  obtain ⟨hc, hnsec, hnseg, hsz, hseg⟩ := smallObject_preSave o hsm
  obtain ⟨-, hga⟩ := ha
  obtain ⟨-, hpos0, hm, ho, -, -, -, -⟩ := layoutOf_parts (preSave o) hd res hl
  have hp0 : res.pos0.toNat < 8589934592 := by rw [hpos0]; exact Small.save_cursor0_lt _ _ _
  have hsegs0 := Small.mapM_calcSegAlign_small (preSave o).secs (fun s hs => (hsz s hs).2) (preSave o).segs
    res.segs0 hm (fun g hg => (hseg g hg).1)
  have hperm := orderedSegments_perm _ _ ho
  have hlen0 : res.segs0.length = (preSave o).segs.length := by
    have := congrArg List.length (mapM_calcSegAlign (preSave o).secs (preSave o).segs res.segs0 hm).1
    simpa using this
  have hlen : res.ordered.length < 65536 := by rw [hperm.length_eq, hlen0]; exact hnseg
  have hinv0 : Small.SmallInv 144115196665790464 res.ordered (lay0Of (preSave o) res.pos0) := by
    refine ⟨?_, hnsec, ?_, ?_⟩
    · simp only [lay0Of, List.count_replicate_self]
      have := Nat.mod_lt (preSave o).secs.length (show 0 < 65536 by decide)
      omega
    · intro k s hk; exact hsz s (List.mem_of_getElem? hk)
    · intro g hg idx hidx s hsx _ has
      obtain ⟨⟨g0, hg0, he⟩, -⟩ := hsegs0 g (hperm.mem_iff.1 hg)
      have hsecs : g.secs = g0.secs := by rw [he]
      have hv : g.vaddr = g0.vaddr := by rw [he]
      rw [hv]
      exact (hseg g0 hg0).2 idx (hsecs ▸ hidx) s hsx has
  have hlo : ∀ g ∈ res.ordered, g ∈ res.ordered ∧ g.align.toNat < 1099511627776 :=
    fun g hg => ⟨hg, (hsegs0 g (hperm.mem_iff.1 hg)).2⟩
  have htr := Small.segsTrace_small (preSave o).cls (Hdr.e_phoff (preSave o).cls (preSave o).enc res.hdr0)
    (Hdr.e_phentsize (preSave o).cls (preSave o).enc res.hdr0) (Hdr.e_phnum (preSave o).cls (preSave o).enc res.hdr0)
    res.ordered (lay0Of (preSave o) res.pos0) 144115196665790464 res.ordered hc hlo (by omega) hinv0
  have hn' : (preSave o).secs.length < 65536 := by rw [preSave_length]; exact D.input.nsecs
  have h0' := preSave_h0 o D.input.h0
  obtain ⟨e1, -, e3⟩ := layoutOf_trace (preSave o) hd res hl D.nw hn' h0'
  have hdom := D.dom
  unfold layoutDomB at hdom
  rw [hl] at hdom
  simp only at hdom
  intro g hg
  obtain ⟨t, ht, hgt, g0, hg0, he⟩ := saved_seg_turn hs hok D res hl g hg
  obtain ⟨f1, -⟩ := e3 t ht
  have hinvt := htr t ht
  have hturn := segsAllB_trace _ _ _ _ _ _ _ hdom t ht
  simp only [Bool.not_true, Bool.false_or, Bool.and_eq_true] at hturn
  obtain ⟨⟨-, hfl⟩, -⟩ := hturn
  have hto : t.g ∈ res.ordered := by rw [← e1]; exact List.mem_map_of_mem ht
  have hs1 : t.g.secs = g0.secs := by rw [he]
  have hv1 : t.g.vaddr = g0.vaddr := by rw [he]
  have hm1 : t.g.memsz = g0.memsz := by rw [he]
  rw [hc] at f1 hfl
  obtain ⟨hv, hmz⟩ := Small.layoutSegment_mem_small _ _ _ t.lay t.g _ res.ordered hto (hlo t.g hto).2
    (by omega) hinvt (by rw [hs1]; exact (hga g0 hg0).2) hfl (by rw [hm1]; exact hmem g0 hg0) t.lay' t.g' f1
  rw [hgt, hv, hv1]
  have := (hga g0 hg0).1
  omega

/-- **`NoWrap64` of the saved object from closed-form bounds (flat domain).**  The hypothesis
    `hw : NoWrap64 r.obj.secs r.obj.segs` of the flat composition theorems follows from plain bounds
    on the input: `SmallObject`, `SmallAddrs2`, and `p_memsz < 2^62` for every input segment. -/
theorem noWrap64_of_small_flat {o : Obj} {os : OStream} {r : SaveRes} {hd : Bytes}
    (hs : save o os = .ok r) (hok : r.ok = true) (D : Compose.FlatDomain o hd)
    (hsm : SmallObject o) (ha : SmallAddrs2 o)
    (hmem : ∀ g ∈ o.segs, g.memsz.toNat < 4611686018427387904) :
    Compose.NoWrap64 r.obj.secs r.obj.segs :=
  ⟨save_sections_noWrap_small o os r hd hs hok D.hdr hsm ha,
   fun g hg => ⟨save_segments_mem_noWrap_flat hs hok D hsm ha hmem g hg,
     save_segments_file_noWrap_flat hs hok D g hg⟩⟩

/-- the hypotheses of `noWrap64_of_small_flat` are satisfiable: the ELF64 object with two PT_LOADs, an
    explicit address, a NOBITS member and a loose section (`Compose.exTwoM`, in `FlatDomain` by
    `Compose.exTwo_ok`) is small and has small addresses -/
example : Compose.FlatDomain (Compose.objOf Compose.exTwoM) ((Compose.objOf Compose.exTwoM).hdr.getD []) ∧
    SmallObject (Compose.objOf Compose.exTwoM) ∧ SmallAddrs2 (Compose.objOf Compose.exTwoM) ∧
    (∀ g ∈ (Compose.objOf Compose.exTwoM).segs, g.memsz.toNat < 4611686018427387904) := by
  refine ⟨Compose.exTwo_ok.dom, by decide +kernel, ?_, by decide +kernel⟩
  unfold SmallAddrs2
  decide +kernel

end ElfioVerif.C04
