/-
C16 — save() reports failure whenever the output did not take the whole file.

The model: `save` / `saveWrite` (Model/Writer.lean) over the stream of Model/OStream.lean; the
result expressions of `elfio::save`, `save_sections`, `save_segments` and `elf_header_impl::save`
are the generated ones (Gen/SitesC16.lean).  Everything below is for all objects, all budgets.
-/
import ElfioVerif.Lemmas.OStream
import ElfioVerif.Model.Writer
import ElfioVerif.Lemmas.WriterSites
namespace ElfioVerif
open Gen OStream

/-! ### lists of stream operations -/

theorem runStreamOps_nil (os : OStream) : runStreamOps [] os = os := rfl
theorem runStreamOps_cons (op : StreamOp) (ops : List StreamOp) (os : OStream) :
    runStreamOps (op :: ops) os = runStreamOps ops (op.run os) := rfl
theorem runStreamOps_append (a b : List StreamOp) (os : OStream) :
    runStreamOps (a ++ b) os = runStreamOps b (runStreamOps a os) := by
  unfold runStreamOps; rw [List.foldl_append]

theorem StreamOp.run_of_fail {os : OStream} (h : os.fail = true) (op : StreamOp) : op.run os = os := by
  cases op with
  | seekp p => exact seekp_of_fail h p
  | write bs => exact write_of_fail h bs
  | adjust off => exact adjust_of_fail h off

theorem runStreamOps_of_fail {os : OStream} (h : os.fail = true) (ops : List StreamOp) : runStreamOps ops os = os := by
  induction ops with
  | nil => rfl
  | cons op ops ih => rw [runStreamOps_cons, StreamOp.run_of_fail h, ih]

theorem StreamOp.run_wf {os : OStream} (w : WF os) (op : StreamOp) : WF (op.run os) := by
  cases op with
  | seekp p => exact seekp_wf w p
  | write bs => exact write_wf w bs
  | adjust off => exact adjust_wf w off

theorem runStreamOps_wf {os : OStream} (w : WF os) (ops : List StreamOp) : WF (runStreamOps ops os) := by
  induction ops generalizing os with
  | nil => exact w
  | cons op ops ih => exact ih (StreamOp.run_wf w op)

theorem StreamOp.run_budget (os : OStream) (op : StreamOp) : (op.run os).budget = os.budget := by
  cases op <;> simp [StreamOp.run]

theorem runStreamOps_budget (os : OStream) (ops : List StreamOp) : (runStreamOps ops os).budget = os.budget := by
  induction ops generalizing os with
  | nil => rfl
  | cons op ops ih => rw [runStreamOps_cons, ih, StreamOp.run_budget]

theorem StreamOp.run_content_mono {os : OStream} (w : WF os) (op : StreamOp) :
    os.content.length ≤ (op.run os).content.length := by
  cases op with
  | seekp p => show _ ≤ (os.seekp p).content.length; rw [seekp_content]; exact Nat.le_refl _
  | write bs => exact write_content_mono w bs
  | adjust off => exact adjust_content_mono w off

theorem runStreamOps_content_mono {os : OStream} (w : WF os) (ops : List StreamOp) :
    os.content.length ≤ (runStreamOps ops os).content.length := by
  induction ops generalizing os with
  | nil => exact Nat.le_refl _
  | cons op ops ih =>
    exact Nat.le_trans (StreamOp.run_content_mono w op) (ih (StreamOp.run_wf w op))

theorem StreamOp.sim_run {b u : OStream} (hu : u.budget = none) (h : Sim b u) (op : StreamOp) :
    Sim (op.run b) (op.run u) := by
  cases op with
  | seekp p => exact sim_seekp h p
  | write bs => exact sim_write hu h bs
  | adjust off => exact sim_adjust hu h off

theorem sim_runStreamOps {b u : OStream} (hu : u.budget = none) (h : Sim b u) (ops : List StreamOp) :
    Sim (runStreamOps ops b) (runStreamOps ops u) := by
  induction ops generalizing b u with
  | nil => exact h
  | cons op ops ih =>
    exact ih (by rw [StreamOp.run_budget]; exact hu) (StreamOp.sim_run hu h op)

theorem StreamOp.run_withBudget {u : OStream} {k : Nat} (hb : u.budget = none) (w : WF u) (op : StreamOp)
    (hk : (op.run u).content.length ≤ k) : op.run (withBudget u k) = withBudget (op.run u) k := by
  cases op with
  | seekp p => exact seekp_withBudget u k p
  | write bs => exact write_withBudget hb w.pos_le bs hk
  | adjust off => exact adjust_withBudget hb w off hk

theorem runStreamOps_withBudget {u : OStream} {k : Nat} (hb : u.budget = none) (w : WF u) (ops : List StreamOp)
    (hk : (runStreamOps ops u).content.length ≤ k) : runStreamOps ops (withBudget u k) = withBudget (runStreamOps ops u) k := by
  induction ops generalizing u with
  | nil => rfl
  | cons op ops ih =>
    rw [runStreamOps_cons] at hk
    have w1 := StreamOp.run_wf w op
    have h1 : (op.run u).content.length ≤ k := Nat.le_trans (runStreamOps_content_mono w1 ops) hk
    rw [runStreamOps_cons, runStreamOps_cons, StreamOp.run_withBudget hb w op h1]
    exact ih (by rw [StreamOp.run_budget]; exact hb) w1 hk

/-- The heart of C16 on the level of streams: if the unlimited run of a list of operations ends
    with more than `k` bytes, the run on any stream with budget `k` that started in the same state
    ends failed. -/
theorem runStreamOps_fail_of_short {b u : OStream} {k : Nat} (hu : u.budget = none) (hbk : b.budget = some k)
    (w : WF b) (h : Sim b u) (ops : List StreamOp) (hk : k < (runStreamOps ops u).content.length) :
    (runStreamOps ops b).fail = true := by
  rcases sim_runStreamOps hu h ops with hf | ⟨_, _, hc, _⟩
  · exact hf
  · have := (runStreamOps_wf w ops).in_budget k (by rw [runStreamOps_budget]; exact hbk)
    rw [hc] at this
    omega

namespace C16

/-! ### the write phase of `save` as a list of stream operations -/

/-- `header->save(stream)` -/
def hdrOps (o : Obj) (h : Bytes) : List StreamOp := [.seekp (trApply o.trans 0), .write h]

/-- `section_impl::save` -/
def secOps (c : Cls) (enc : Enc) (shoff : BitVec 64) (shentsize : BitVec 16) (b : SecBuf) : List StreamOp :=
  [.adjust (shoff.toInt + (Int.ofNat shentsize.toNat) * (Int.ofNat b.index)), .write (encodeShdr c enc b)] ++
  (if b.stype != BitVec.ofNat 32 SHT_NOBITS && b.stype != BitVec.ofNat 32 SHT_NULL && b.size != 0 && b.data.isSome then
    [.adjust b.offset.toInt, .write ((b.data.getD []).take b.size.toNat)] else [])

/-- `segment_impl::save` -/
def segOps (c : Cls) (enc : Enc) (phoff : BitVec 64) (phentsize : BitVec 16) (g : Seg) : List StreamOp :=
  [.adjust (phoff.toInt + (Int.ofNat phentsize.toNat) * (Int.ofNat g.index)), .write (encodePhdr c enc g)]

/-- the sections as `save_sections` sees them (lazily loaded data made resident) -/
def residentSecs (o : Obj) (secs : List SecBuf) : List SecBuf :=
  (residentForSave o.cls o.trans secs { st := o.stream } []).1

/-- `save_sections` then `save_segments` -/
def bodyOps (o : Obj) (h : Bytes) (secs : List SecBuf) (segs : List Seg) : List StreamOp :=
  (residentSecs o secs).flatMap
      (secOps o.cls o.enc (Hdr.e_shoff o.cls o.enc h) (Hdr.e_shentsize o.cls o.enc h)) ++
    segs.flatMap (segOps o.cls o.enc (Hdr.e_phoff o.cls o.enc h) (Hdr.e_phentsize o.cls o.enc h))

/-- every stream operation of the write phase, in order; it does not depend on the stream -/
def saveOps (o : Obj) (h : Bytes) (secs : List SecBuf) (segs : List Seg) : List StreamOp :=
  hdrOps o h ++ bodyOps o h secs segs

theorem saveSection_eq (c enc shoff shentsize) (os : OStream) (b : SecBuf) :
    saveSection c enc shoff shentsize os b = runStreamOps (secOps c enc shoff shentsize b) os := by
  unfold saveSection secOps
  rw [secWritesData_eq]
  split <;> rfl

theorem saveSegment_eq (c enc phoff phentsize) (os : OStream) (g : Seg) :
    saveSegment c enc phoff phentsize os g = runStreamOps (segOps c enc phoff phentsize g) os := rfl

theorem foldl_saveSection (c enc shoff shentsize) (secs : List SecBuf) (os : OStream) :
    secs.foldl (saveSection c enc shoff shentsize) os = runStreamOps (secs.flatMap (secOps c enc shoff shentsize)) os := by
  induction secs generalizing os with
  | nil => rfl
  | cons b rest ih =>
    rw [List.foldl_cons, List.flatMap_cons, runStreamOps_append, ih, saveSection_eq]

theorem foldl_saveSegment (c enc phoff phentsize) (segs : List Seg) (os : OStream) :
    segs.foldl (saveSegment c enc phoff phentsize) os = runStreamOps (segs.flatMap (segOps c enc phoff phentsize)) os := by
  induction segs generalizing os with
  | nil => rfl
  | cons g rest ih =>
    rw [List.foldl_cons, List.flatMap_cons, runStreamOps_append, ih, saveSegment_eq]

/-- the object after a write phase whose header write failed / that went through -/
def objHdrFailed (o : Obj) (h : Bytes) (secs : List SecBuf) (segs : List Seg) (pos : BitVec 64) : Obj :=
  { o with hdr := some h, secs := secs, segs := segs, curPos := pos }
def objWritten (o : Obj) (h : Bytes) (secs : List SecBuf) (segs : List Seg) (pos : BitVec 64) : Obj :=
  { o with hdr := some h, secs := residentSecs o secs, segs := segs, curPos := pos,
           stream := (residentForSave o.cls o.trans secs { st := o.stream } []).2.st }

/-- `saveWrite` is: run the fixed operation list; the result is the final stream state's `!fail`. -/
theorem saveWrite_eq_ops (o : Obj) (h : Bytes) (secs : List SecBuf) (segs : List Seg) (pos : BitVec 64)
    (os : OStream) :
    saveWrite o h secs segs pos os =
      { obj := if (runStreamOps (hdrOps o h) os).fail then objHdrFailed o h secs segs pos
               else objWritten o h secs segs pos
        os := runStreamOps (saveOps o h secs segs) os
        ok := !(runStreamOps (saveOps o h secs segs) os).fail } := by
  have hh : runStreamOps (hdrOps o h) os = (os.seekp (trApply o.trans 0)).write h := rfl
  unfold saveOps
  rw [runStreamOps_append, hh]
  unfold saveWrite
  simp only [save_header_result, save_header_result32, save_sections_result, save_segments_result, save_result]
  cases hf : ((os.seekp (trApply o.trans 0)).write h).fail with
  | true =>
    rw [runStreamOps_of_fail hf]
    cases hc : o.cls <;> simp [hf, objHdrFailed, hc]
  | false =>
    cases hc : o.cls <;>
      simp [objWritten, residentSecs, bodyOps, runStreamOps_append, foldl_saveSection, foldl_saveSegment, hc]

/-! ### the shape of `save`: everything before the write phase ignores the stream -/

/-- What two runs of `save` on the same object have in common. -/
def SavePair (o : Obj) (os1 os2 : OStream) : Prop :=
  (∃ f, save o os1 = .error f ∧ save o os2 = .error f) ∨
  (∃ o', save o os1 = .ok { obj := o', os := os1, ok := false } ∧
         save o os2 = .ok { obj := o', os := os2, ok := false }) ∨
  (∃ o' h secs segs pos, save o os1 = .ok (saveWrite o' h secs segs pos os1) ∧
                         save o os2 = .ok (saveWrite o' h secs segs pos os2))

/-- For a given object, `save` on streams that have not failed does one of three things, and which one
    does not depend on the stream: the layout faults (a model-level memory fault), the save is refused
    without touching the stream (no header / the layout aborts), or the write phase runs with
    stream-independent arguments. -/
theorem save_pair (o : Obj) (os1 os2 : OStream) (h1 : os1.fail = false) (h2 : os2.fail = false) :
    SavePair o os1 os2 := by
  unfold SavePair
  cases hh : o.hdr with
  | none => right; left; exact ⟨o, by simp only [save, hh, save_entry_refused_none, ↓reduceIte]; rfl,
      by simp only [save, hh, save_entry_refused_none, ↓reduceIte]; rfl⟩
  | some h =>
    simp only [save, hh, save_entry_refused_some, h1, h2, Bool.false_eq_true, ↓reduceIte]
    generalize hq0 : allResident _ _ _ _ _ = q0
    obtain ⟨secs0, ls0⟩ := q0
    simp only []
    generalize hm : List.mapM (m := M) (calcSegAlign _) _ = rm
    cases rm with
    | error f => left; exact ⟨f, rfl, rfl⟩
    | ok segs =>
      simp only [bind, Except.bind]
      cases ho : orderedSegments segs with
      | error f => left; exact ⟨f, rfl, rfl⟩
      | ok ordered =>
        simp only []
        generalize hl : List.foldlM (m := M) _ (some _) ordered = r
        clear hl
        cases r with
        | error f => left; exact ⟨f, rfl, rfl⟩
        | ok v =>
          cases v with
          | none => right; left; exact ⟨_, rfl, rfl⟩
          | some p =>
            obtain ⟨lay, done⟩ := p
            simp only []
            generalize hq : layoutLoose _ _ _ _ _ _ = q
            obtain ⟨secs', pos'⟩ := q
            right; right
            exact ⟨_, _, _, _, _, rfl, rfl⟩

/-! ### the property -/

/-- Once the failure flag is set, no operation of the writer changes the stream any more — so the
    `!stream.fail()` that ends `save` sees every earlier failure. -/
theorem fail_sticky (s : OStream) (h : s.fail = true) :
    (∀ bs, s.write bs = s) ∧ (∀ p, s.seekp p = s) ∧ s.seekEnd = s ∧ (∀ off, s.adjust off = s) ∧
    (∀ ops, runStreamOps ops s = s) :=
  ⟨write_of_fail h, seekp_of_fail h, seekEnd_of_fail h, adjust_of_fail h, runStreamOps_of_fail h⟩

theorem write_fail_sticky (s : OStream) (h : s.fail = true) (bs : Bytes) :
    s.write bs = s ∧ (s.write bs).fail = true := by
  rw [write_of_fail h]; exact ⟨rfl, h⟩

/-- A stream with byte budget `k` never holds more than `k` bytes (and its put position stays inside
    its content), whatever is done to it. -/
theorem content_le_budget (s : OStream) (k : Nat) (w : WF s) (hk : s.budget = some k) :
    (∀ bs, (s.write bs).content.length ≤ k ∧ WF (s.write bs)) ∧
    (∀ p, (s.seekp p).content.length ≤ k ∧ WF (s.seekp p)) ∧
    (∀ off, (s.adjust off).content.length ≤ k ∧ WF (s.adjust off)) ∧
    (∀ ops, (runStreamOps ops s).content.length ≤ k ∧ WF (runStreamOps ops s)) := by
  refine ⟨fun bs => ⟨?_, write_wf w bs⟩, fun p => ⟨?_, seekp_wf w p⟩, fun off => ⟨?_, adjust_wf w off⟩,
    fun ops => ⟨?_, runStreamOps_wf w ops⟩⟩
  · exact (write_wf w bs).in_budget k (by simpa using hk)
  · exact (seekp_wf w p).in_budget k (by simpa using hk)
  · exact (adjust_wf w off).in_budget k (by simpa using hk)
  · exact (runStreamOps_wf w ops).in_budget k (by rw [runStreamOps_budget]; exact hk)

/-- the streams the harness hands to `save` are well-formed -/
example (k : Nat) : WF ({ budget := some k } : OStream) := WF.empty _
example : WF ({ content := [1, 2, 3], pos := 1, budget := some 3 } : OStream) :=
  ⟨by decide, fun k h => by cases h; decide⟩

/-- **save reports failure** (general start state): `u` is any unlimited stream that has not failed,
    `k` a budget that still has room for what `u` already holds.  If saving into `u` produces more
    than `k` bytes, saving the same object into the same stream with budget `k` returns false. -/
theorem save_fail_from (o : Obj) (u : OStream) (k : Nat) (ru : SaveRes)
    (hub : u.budget = none) (hw : WF u) (hfu : u.fail = false) (hk0 : u.content.length ≤ k)
    (hu : save o u = .ok ru) (hk : k < ru.os.content.length) :
    ∃ rb, save o (withBudget u k) = .ok rb ∧ rb.ok = false := by
  rcases save_pair o (withBudget u k) u (by simpa using hfu) hfu with
    ⟨f, _, h2⟩ | ⟨o', _, h2⟩ | ⟨o1, h, secs, segs, pos, h1, h2⟩
  · rw [hu] at h2; cases h2
  · rw [hu] at h2; cases h2
    exact absurd hk0 (Nat.not_le_of_lt hk)
  · rw [hu] at h2; cases h2
    refine ⟨_, h1, ?_⟩
    rw [saveWrite_eq_ops] at hk ⊢
    have hsim : Sim (withBudget u k) u := Or.inr ⟨by simpa using hfu, hfu, rfl, rfl⟩
    have := runStreamOps_fail_of_short hub (withBudget_budget u k) (withBudget_wf hw hk0) hsim
      (saveOps o1 h secs segs) hk
    simp [this]

/-- **save reports failure**: if the unlimited save of an object produces `L` bytes and `k < L`, the
    save of the same object into a stream that accepts exactly `k` bytes returns false.
    No hypothesis on the object. -/
theorem save_fail (o : Obj) (k : Nat) (ru : SaveRes)
    (hu : save o {} = .ok ru) (hk : k < ru.os.content.length) :
    ∃ rb, save o { budget := some k } = .ok rb ∧ rb.ok = false :=
  save_fail_from o {} k ru rfl (WF.empty _) rfl (Nat.zero_le _) hu hk

/-- **a sufficient budget is not noticed** (general start state): same result flag, same object,
    same bytes as the unlimited save. -/
theorem save_ok_from (o : Obj) (u : OStream) (k : Nat) (ru : SaveRes)
    (hub : u.budget = none) (hw : WF u) (hfu : u.fail = false)
    (hu : save o u = .ok ru) (hk : ru.os.content.length ≤ k) :
    save o (withBudget u k) = .ok { ru with os := withBudget ru.os k } := by
  rcases save_pair o (withBudget u k) u (by simpa using hfu) hfu with
    ⟨f, _, h2⟩ | ⟨o', h1, h2⟩ | ⟨o1, h, secs, segs, pos, h1, h2⟩
  · rw [hu] at h2; cases h2
  · rw [hu] at h2; cases h2
    exact h1
  · rw [hu] at h2; cases h2
    rw [h1]
    rw [saveWrite_eq_ops] at hk
    have hall := runStreamOps_withBudget hub hw (saveOps o1 h secs segs) hk
    have hhdr : (runStreamOps (hdrOps o1 h) u).content.length ≤ k := by
      have : (runStreamOps (saveOps o1 h secs segs) u) = runStreamOps (bodyOps o1 h secs segs) (runStreamOps (hdrOps o1 h) u) := by
        unfold saveOps; rw [runStreamOps_append]
      rw [this] at hk
      exact Nat.le_trans (runStreamOps_content_mono (runStreamOps_wf hw _) _) hk
    have hh := runStreamOps_withBudget hub hw (hdrOps o1 h) hhdr
    rw [saveWrite_eq_ops, saveWrite_eq_ops, hall, hh]
    rfl

/-- **a sufficient budget is not noticed**: with `k ≥ L` the budgeted save returns what the unlimited
    save returns and the stream holds the same bytes. -/
theorem save_ok (o : Obj) (k : Nat) (ru : SaveRes)
    (hu : save o {} = .ok ru) (hk : ru.os.content.length ≤ k) :
    ∃ rb, save o { budget := some k } = .ok rb ∧ rb.ok = ru.ok ∧ rb.os.content = ru.os.content ∧
      rb.obj = ru.obj :=
  ⟨_, save_ok_from o {} k ru rfl (WF.empty _) rfl hu hk, rfl, rfl, rfl⟩

/-- the positive half of C16 in one statement: the stream accepts everything ⇒ true and the complete file -/
theorem save_ok_true (o : Obj) (k : Nat) (ru : SaveRes)
    (hu : save o {} = .ok ru) (hok : ru.ok = true) (hk : ru.os.content.length ≤ k) :
    ∃ rb, save o { budget := some k } = .ok rb ∧ rb.ok = true ∧ rb.os.content = ru.os.content := by
  obtain ⟨rb, h1, h2, h3, _⟩ := save_ok o k ru hu hk
  exact ⟨rb, h1, h2.trans hok, h3⟩

/-- no header (`header == nullptr`) or a stream that has already failed: false, nothing touched -/
theorem save_null_header (o : Obj) (os : OStream) (h : o.hdr = none ∨ os.fail = true) :
    save o os = .ok { obj := o, os := os, ok := false } := by
  cases hh : o.hdr with
  | none => simp only [save, hh, save_entry_refused_none, ↓reduceIte]; rfl
  | some hb =>
    rcases h with h | h
    · rw [hh] at h; cases h
    · simp only [save, hh, save_entry_refused_some, h, ↓reduceIte]; rfl

/-! ### an unlimited stream takes everything -/

/-- a stream operation that cannot fail on an unlimited stream: a seek to the start, a write, a
    gap fill + seek to a non-negative position -/
def Safe : StreamOp → Prop
  | .seekp p => p = 0
  | .write _ => True
  | .adjust off => 0 ≤ off

/-- unlimited, not failed, well-formed -/
structure Good (u : OStream) : Prop where
  unlimited : u.budget = none
  notFailed : u.fail = false
  wf : WF u

theorem good_write {u : OStream} (g : Good u) (bs : Bytes) : Good (u.write bs) := by
  refine ⟨by simpa using g.unlimited, ?_, write_wf g.wf bs⟩
  rw [write_eq g.notFailed]
  have : room u bs = bs.length := by unfold room; rw [g.unlimited]
  simp [this]

theorem good_seekp {u : OStream} (g : Good u) (p : Int) (h0 : 0 ≤ p) (h1 : p.toNat ≤ u.content.length) :
    Good (u.seekp p) := by
  refine ⟨by simpa using g.unlimited, ?_, seekp_wf g.wf p⟩
  unfold seekp
  rw [if_neg (by simp [g.notFailed]), if_neg (by omega)]
  exact g.notFailed

theorem good_seekEnd {u : OStream} (g : Good u) : Good u.seekEnd := by
  refine ⟨by simpa using g.unlimited, ?_, seekEnd_wf g.wf⟩
  unfold seekEnd
  rw [if_neg (by simp [g.notFailed])]
  exact g.notFailed

theorem good_adjust {u : OStream} (g : Good u) (off : Int) (h0 : 0 ≤ off) : Good (u.adjust off) := by
  have ge := good_seekEnd g
  have hpos : u.seekEnd.pos = u.content.length := by
    unfold seekEnd; rw [if_neg (by simp [g.notFailed])]
  have htell : u.seekEnd.tellp = Int.ofNat u.content.length := by
    unfold tellp; rw [if_neg (by simp [ge.notFailed]), hpos]
  rw [adjust_eq, htell]
  split
  · rename_i hlt
    have gw := good_write ge (List.replicate (off - Int.ofNat u.content.length).toNat 0)
    refine good_seekp gw off h0 ?_
    rw [write_content_length ge.notFailed ge.wf.pos_le]
    have hr : room u.seekEnd (List.replicate (off - Int.ofNat u.content.length).toNat 0)
        = (off - Int.ofNat u.content.length).toNat := by
      unfold room; rw [ge.unlimited]; simp
    rw [hr, hpos, seekEnd_content]
    simp only [Int.ofNat_eq_natCast] at hlt ⊢
    omega
  · rename_i hge
    refine good_seekp ge off h0 ?_
    rw [seekEnd_content]
    simp only [Int.ofNat_eq_natCast] at hge
    omega

theorem good_run {u : OStream} (g : Good u) (op : StreamOp) (h : Safe op) : Good (op.run u) := by
  cases op with
  | seekp p =>
    have : p = 0 := h
    subst this
    exact good_seekp g 0 (Int.le_refl _) (Nat.zero_le _)
  | write bs => exact good_write g bs
  | adjust off => exact good_adjust g off h

theorem good_runStreamOps {u : OStream} (g : Good u) (ops : List StreamOp) (h : ∀ op ∈ ops, Safe op) :
    Good (runStreamOps ops u) := by
  induction ops generalizing u with
  | nil => exact g
  | cons op ops ih =>
    exact ih (good_run g op (h op (List.mem_cons_self))) (fun x hx => h x (List.mem_cons_of_mem _ hx))

/-- the positions `save` seeks to are sane: the translated header position is the start of the
    stream and no table or section position is negative as a (signed 64-bit) stream offset -/
structure SafePositions (o : Obj) (h : Bytes) (secs : List SecBuf) : Prop where
  hdr0 : trApply o.trans 0 = 0
  shoff : 0 ≤ (Hdr.e_shoff o.cls o.enc h).toInt
  phoff : 0 ≤ (Hdr.e_phoff o.cls o.enc h).toInt
  offs : ∀ b ∈ residentSecs o secs, 0 ≤ b.offset.toInt

theorem saveOps_safe {o : Obj} {h : Bytes} {secs : List SecBuf} (segs : List Seg)
    (sp : SafePositions o h secs) : ∀ op ∈ saveOps o h secs segs, Safe op := by
  intro op hop
  unfold saveOps hdrOps bodyOps at hop
  simp only [List.mem_append, List.mem_cons, List.mem_flatMap, List.not_mem_nil, or_false] at hop
  rcases hop with (rfl | rfl) | ⟨b, hb, hop⟩ | ⟨g, _, hop⟩
  · exact sp.hdr0
  · trivial
  · unfold secOps at hop
    simp only [List.mem_append, List.mem_cons, List.not_mem_nil, or_false] at hop
    rcases hop with (rfl | rfl) | hop
    · show 0 ≤ _ + _
      have := sp.shoff
      have h2 : (0 : Int) ≤ Int.ofNat (Hdr.e_shentsize o.cls o.enc h).toNat * Int.ofNat b.index :=
        Int.mul_nonneg (Int.natCast_nonneg _) (Int.natCast_nonneg _)
      omega
    · trivial
    · split at hop
      · simp only [List.mem_cons, List.not_mem_nil, or_false] at hop
        rcases hop with rfl | rfl
        · exact sp.offs b hb
        · trivial
      · cases hop
  · unfold segOps at hop
    simp only [List.mem_cons, List.not_mem_nil, or_false] at hop
    rcases hop with rfl | rfl
    · show 0 ≤ _ + _
      have := sp.phoff
      have h2 : (0 : Int) ≤ Int.ofNat (Hdr.e_phentsize o.cls o.enc h).toNat * Int.ofNat g.index :=
        Int.mul_nonneg (Int.natCast_nonneg _) (Int.natCast_nonneg _)
      omega
    · trivial

/-- **an unlimited stream takes everything**: on an unlimited, well-formed stream that has not failed,
    `save` either refuses the object before writing anything (no header or the layout aborts —
    not a stream matter) or runs the write phase, and the write phase returns true whenever the
    positions it seeks to are sane. -/
theorem save_unlimited_true (o : Obj) (u : OStream) (ru : SaveRes)
    (hub : u.budget = none) (hw : WF u) (hfu : u.fail = false) (hu : save o u = .ok ru) :
    (ru.os = u ∧ ru.ok = false) ∨
    ∃ o' h secs segs pos, ru = saveWrite o' h secs segs pos u ∧ (SafePositions o' h secs → ru.ok = true) := by
  rcases save_pair o u u hfu hfu with ⟨f, _, h2⟩ | ⟨o', _, h2⟩ | ⟨o1, h, secs, segs, pos, _, h2⟩
  · rw [hu] at h2; cases h2
  · rw [hu] at h2; cases h2; left; exact ⟨rfl, rfl⟩
  · rw [hu] at h2; cases h2
    right
    refine ⟨o1, h, secs, segs, pos, rfl, fun sp => ?_⟩
    rw [saveWrite_eq_ops]
    have := (good_runStreamOps ⟨hub, hfu, hw⟩ _ (saveOps_safe segs sp)).notFailed
    simp [this]

/-! ### before the repair (documentation of finding F1; nothing else depends on this section) -/

/-- The write phase with the return expression `save` had before commit 6e814a7
    (`return is_still_good;`): `is_still_good` was the result of `header->save(stream)` and of
    `save_sections`/`save_segments`, which return `true` unconditionally — so only a failure of the
    ELF header write was ever reported.  Same stream effects as `saveWrite`. -/
def saveWriteOld (o : Obj) (h : Bytes) (secs : List SecBuf) (segs : List Seg) (pos : BitVec 64) (os : OStream) : SaveRes :=
  { saveWrite o h secs segs pos os with ok := !((os.seekp (trApply o.trans 0)).write h).fail }

/-- `save` as it was before the repair: a copy of `save` (Model/Writer.lean) ending in `saveWriteOld`. -/
def saveOld (o : Obj) (os : OStream) : M SaveRes := do
  match o.hdr with
  | none => pure { obj := o, os := os, ok := false }
  | some h =>
  if os.fail then pure { obj := o, os := os, ok := false } else
  let c := o.cls; let e := o.enc
  -- `for (sec : sections_) sec->get_data();` : lazily loaded data is read before the layout
  let (secs0, ls0) := allResident c o.trans o.secs { st := o.stream } []
  let o := { o with secs := secs0, stream := ls0.st }
  let nseg := o.segs.length % 65536
  let nsec := o.secs.length % 65536
  let h := Hdr.set_phnum c e h nseg
  let h := Hdr.set_phoff c e h (if nseg > 0 then (Hdr.e_ehsize c e h).toNat else 0)
  let h := Hdr.set_shnum c e h nsec
  let h := Hdr.set_shoff c e h 0
  let pos0 := save_cursor0 (Hdr.e_ehsize c e h) (Hdr.e_phentsize c e h) (Hdr.e_phnum c e h)
  -- calc_segment_alignment
  let segs ← o.segs.mapM (calcSegAlign o.secs)
  -- layout_segments_and_their_sections
  let ordered ← orderedSegments segs
  let lay0 : Layout := { secs := o.secs, pos := pos0, gen := List.replicate nsec false }
  let step (acc : Option (Layout × List Seg)) (g : Seg) : M (Option (Layout × List Seg)) :=
    match acc with
    | none => pure none
    | some (lay, done) => do
      match ← layoutSegment c (Hdr.e_phoff c e h) (Hdr.e_phentsize c e h) (Hdr.e_phnum c e h) lay g with
      | none => pure none
      | some (lay, g) => pure (some (lay, done ++ [g]))
  match ← ordered.foldlM step (some (lay0, [])) with
  | none =>
    -- layout aborted: the object keeps whatever was laid out so far (not observable through save's result)
    pure { obj := { o with hdr := some h, segs := segs, curPos := pos0 }, os := os, ok := false }
  | some (lay, done) =>
    -- put the updated segments back at their indices
    let segs := segs.map fun g => (done.find? (fun d => d.index == g.index)).getD g
    let (secs, pos) := layoutLoose c segs lay.secs 0 lay.pos []
    -- layout_section_table
    let pos := lst_cursor pos (lst_error pos)
    let h := Hdr.set_shoff c e h pos.toNat
    -- save_header, save_sections, save_segments, flush, result
    pure (saveWriteOld o h secs segs pos os)

/-- the copy really is `save` up to the result flag -/
theorem saveOld_same_effects (o : Obj) (os : OStream) :
    (saveOld o os).map (fun r => (r.obj, r.os)) = (save o os).map (fun r => (r.obj, r.os)) := by
  cases hh : o.hdr with
  | none => simp only [save, saveOld, hh, save_entry_refused_none, ↓reduceIte]
  | some h =>
    cases hf : os.fail with
    | true => simp only [save, saveOld, hh, save_entry_refused_some, hf, ↓reduceIte]
    | false =>
      simp only [save, saveOld, hh, save_entry_refused_some, hf, Bool.false_eq_true, ↓reduceIte, save_phoff_toNat,
        save_shoff0_toNat]
      generalize hq0 : allResident _ _ _ _ _ = q0
      obtain ⟨secs0, ls0⟩ := q0
      simp only []
      generalize hm : List.mapM (m := M) (calcSegAlign _) _ = rm
      cases rm with
      | error f => rfl
      | ok segs =>
        simp only [bind, Except.bind]
        cases ho : orderedSegments segs with
        | error f => rfl
        | ok ordered =>
          simp only []
          generalize hl : List.foldlM (m := M) _ (some _) ordered = r
          clear hl
          cases r with
          | error f => rfl
          | ok v =>
            cases v with
            | none => rfl
            | some p => rfl

/-- a small object: the header as the constructor leaves it, the null section and one `SHT_PROGBITS`
    section of 5 bytes with alignment 4 (file: 52 header + 5 data, section header table at 64, 144 bytes) -/
def witnessObj : Obj :=
  { cls := .c32, enc := .lsb, hdr := some (Hdr.create .c32 .lsb 1),
    secs := [SecBuf.fresh .c32 0,
             { SecBuf.fresh .c32 1 with index := 1, data := some [1, 2, 3, 4, 5], size := 5, dataSize := 5,
                                        addrAlign := 4 }] }

/-- result flag and number of accepted bytes -/
def summary (r : M SaveRes) : Option (Bool × Nat) :=
  match r with | .ok r => some (r.ok, r.os.content.length) | .error _ => none

set_option maxRecDepth 100000 in
/-- **Finding F1, machine-checked**: the complete file of `witnessObj` has 144 bytes; a stream that
    accepts 100 of them makes the old `save` answer `true`, the repaired one `false`. -/
theorem save_budget_witness :
    summary (save witnessObj {}) = some (true, 144) ∧
    summary (saveOld witnessObj { budget := some 100 }) = some (true, 100) ∧
    summary (save witnessObj { budget := some 100 }) = some (false, 100) := by decide

/-! ### non-vacuity of the hypotheses of `save_fail` / `save_ok` on the witness object -/

set_option maxRecDepth 100000 in
example : ∃ ru, save witnessObj {} = .ok ru ∧ 100 < ru.os.content.length := by
  cases h : save witnessObj {} with
  | error f => have : summary (save witnessObj {}) = some (true, 144) := by decide
               rw [h] at this; cases this
  | ok ru => have : summary (save witnessObj {}) = some (true, 144) := by decide
             rw [h] at this
             simp only [summary, Option.some.injEq, Prod.mk.injEq] at this
             exact ⟨ru, rfl, by omega⟩

end C16
end ElfioVerif
