/-
C09 — symbol tables round-trip; lookup by name or value agrees with a linear scan; the hash
functions equal their ABI definitions.

Everything here is about `Model/Symbols.lean` (whose guards, offsets, truncations, `ELF_ST_*`
uses and hash-walk index computations are generated from the C++, Gen/SitesC09.lean; record
members via the generated layout) and `Spec/Symbols.lean` (gABI record tables, ABI hash
pseudo-code, linear-scan lookup).  Statements are for all inputs / all sequences of adds;
size bounds are the explicit, decidable `Fits`.

  elf_hash_eq, gnu_hash_eq      the generated hash functions = the ABI definitions, all byte strings
  sysvStep_nat, gnuHash_nat     the ABI rounds in plain arithmetic (independent reading of the spec)
  st_info_spec                  ELF_ST_INFO / ELF_ST_BIND / ELF_ST_TYPE uses = gABI macros; unpack∘pack
  sym_bytes                     section contents after any sequence of adds = gABI encoding
  sym_roundtrip                 read-out by index after any sequence of adds
  getSymbol_decoded             (Lemmas/Symbols.lean) read-out = gABI decoding on any well-formed table
  readout_content_only          read-outs depend on section contents + header fields only
  lookup_value                  by-value lookup = first index with that value
  lookup_name                   by-name lookup succeeds iff present, = linear scan for unique names,
                                for any hash section whose walk does not fault

Not proved here (stated in families/c09.py): save/load preserving the contents (C03/C05),
completeness and non-faulting of the hash walks on ABI-built tables.
-/
import ElfioVerif.Lemmas.Symbols
namespace ElfioVerif
open Gen

namespace C09

theorem elf_hash_fold (name : List (BitVec 8)) (h g : BitVec 32) :
    (List.foldl (fun ((h, g) : BitVec 32 × BitVec 32) (c__ : BitVec 8) =>
      let h : BitVec 32 := ((h <<< 4) + (BitVec.setWidth 32 c__))
      let g : BitVec 32 := (h &&& 4026531840#32)
      let h := if (g != 0#32) then (let h : BitVec 32 := (h ^^^ (g >>> 24))
      h) else h
      let h : BitVec 32 := (h &&& (~~~g))
      (h, g)) (h, g) name).1 = name.foldl Spec.sysvStep h := by
  induction name generalizing h g with
  | nil => rfl
  | cons c cs ih =>
    simp only [List.foldl_cons]
    rw [ih]
    congr 1
    exact elf_hash_step h c

theorem elf_hash_eq (name : List (BitVec 8)) : elf_hash name = Spec.sysvHash name := by
  unfold elf_hash Spec.sysvHash
  exact elf_hash_fold name 0 0

theorem gnu_hash_fold (name : List (BitVec 8)) (h0 : BitVec 32) :
    List.foldl (fun (h : BitVec 32) (c : BitVec 8) =>
      let h : BitVec 32 := (((h <<< 5) + h) + (BitVec.setWidth 32 c))
      h) h0 name = name.foldl Spec.gnuStep h0 := by
  induction name generalizing h0 with
  | nil => rfl
  | cons c cs ih =>
    simp only [List.foldl_cons]
    rw [gnu_hash_step]
    exact ih _

theorem gnu_hash_eq (name : List (BitVec 8)) : elf_gnu_hash name = Spec.gnuHash name := by
  unfold elf_gnu_hash Spec.gnuHash
  exact gnu_hash_fold name _

theorem sysvStep_nat (h : BitVec 32) (c : BitVec 8) :
    (Spec.sysvStep h c).toNat = Spec.sysvStepNat h.toNat c.toNat := by
  rw [sysvStep_arith]
  have hh := h.isLt; have hc := c.isLt
  have h16 : (16#32).toNat = 16 := rfl
  have e1 : (h * 16#32 + BitVec.setWidth 32 c).toNat = (h.toNat * 16 + c.toNat) % 4294967296 := by
    simp only [BitVec.toNat_add, BitVec.toNat_mul, BitVec.toNat_setWidth, h16, Nat.reducePow] at *
    omega
  have e2 : ((h * 16#32 + BitVec.setWidth 32 c) >>> 28 * 16#32).toNat
      = (h.toNat * 16 + c.toNat) % 4294967296 / 268435456 * 16 := by
    rw [BitVec.toNat_mul, BitVec.toNat_ushiftRight, e1, h16, Nat.shiftRight_eq_div_pow]
    simp only [Nat.reducePow]
    omega
  simp only [Spec.sysvStepNat, BitVec.toNat_and, BitVec.toNat_xor, e1, e2]
  have hm : (268435455#32).toNat = 2 ^ 28 - 1 := rfl
  rw [hm, Nat.and_two_pow_sub_one_eq_mod]

theorem gnuHash_nat (name : List (BitVec 8)) :
    (Spec.gnuHash name).toNat = Spec.gnuHashNat (name.map (·.toNat)) := by
  unfold Spec.gnuHash Spec.gnuHashNat
  have key : ∀ (l : List (BitVec 8)) (h : BitVec 32),
      (l.foldl Spec.gnuStep h).toNat = (l.map (·.toNat)).foldl (fun h c => (h * 33 + c) % 4294967296) h.toNat := by
    intro l
    induction l with
    | nil => intro h; rfl
    | cons c cs ih =>
      intro h
      simp only [List.foldl_cons, List.map_cons]
      rw [ih]
      congr 1
      have h33 : (33 : BitVec 32).toNat = 33 := rfl
      have hc := c.isLt
      simp only [Spec.gnuStep, BitVec.toNat_add, BitVec.toNat_mul, BitVec.toNat_setWidth, h33, Nat.reducePow] at *
      omega
  exact key name 5381

end C09

namespace SymTab

/-- the arguments of one `add_symbol(pStrWriter, str, value, size, bind, type, other, shndx)` -/
structure AddArgs where
  name : Bytes
  value : BitVec 64
  size : BitVec 64
  bind : BitVec 8
  typ : BitVec 8
  other : BitVec 8
  shndx : BitVec 16
  deriving Repr

/-- the record the gABI prescribes for such a symbol whose name sits at string-table offset `off` -/
def recOf (a : AddArgs) (off : Nat) : Spec.SymRec :=
  ⟨off, a.value.toNat, a.size.toNat, (Spec.stInfo a.bind a.typ).toNat, a.other.toNat, a.shndx.toNat⟩

def namesOf (as : List AddArgs) : List Bytes := as.map (·.name)

/-- records of a whole sequence: names are laid out one after the other behind the leading NUL -/
def recsOf (as : List AddArgs) : List Spec.SymRec :=
  List.zipWith recOf as (Spec.strtabOffsets 1 (namesOf as))

def addOne (t : SymTab) (a : AddArgs) : M (SymTab × BitVec 32) :=
  t.addSymbolStr a.name a.value a.size a.bind a.typ a.other a.shndx

/-- any sequence of adds; returns the final table and the indices `add_symbol` returned -/
def addAll (t : SymTab) : List AddArgs → M (SymTab × List (BitVec 32))
  | [] => pure (t, [])
  | a :: as => (addOne t a) >>= fun r => (addAll r.1 as) >>= fun r' => pure (r'.1, r.2 :: r'.2)

/-- explicit size bounds: the symbol section and the string section stay below 4 GiB
    (`Elf_Word` string offsets; the ELF32 `sh_size`) -/
def Fits (as : List AddArgs) : Prop :=
  24 * (as.length + 2) < 4294967296 ∧ Spec.strTotal (namesOf as) + 3 < 4294967296

/-- invariant of a table built by `done` -/
structure Built (cfg : Cfg) (t : SymTab) (done : List AddArgs) : Prop where
  cfgEq : t.cfg = cfg
  sym : Grown t.sym (tableBytes cfg (recsOf done))
  symCls : t.sym.cls = cfg.cls
  ent : t.sym.entSize = BitVec.ofNat 64 (symSizeOf cfg.cls)
  str : ∃ s, t.str = some s ∧ Grown s (Spec.strtabBytes (namesOf done))
  hash : t.hash = none

theorem recsOf_length (as : List AddArgs) : (recsOf as).length = as.length := by
  simp [recsOf, namesOf, Spec.strtabOffsets_length]

theorem recsOf_snoc (done : List AddArgs) (a : AddArgs) :
    recsOf (done ++ [a]) = recsOf done ++ [recOf a (Spec.nextOff (namesOf done))] := by
  unfold recsOf namesOf
  rw [List.map_append, List.map_cons, List.map_nil, Spec.strtabOffsets_snoc]
  rw [List.zipWith_append (by simp [Spec.strtabOffsets_length])]
  simp [Spec.nextOff]

theorem built_fresh (cfg : Cfg) : Built cfg (fresh cfg) [] := by
  have hs : SecBuf.Inv { SecBuf.fresh cfg.cls (BitVec.ofNat 32 SHT_SYMTAB) with
      entSize := BitVec.ofNat 64 (symSizeOf cfg.cls) } :=
    Or.inl ⟨by simp [SecBuf.fresh, SHT_SYMTAB, SHT_NOBITS], by simp [SecBuf.fresh], Or.inl ⟨rfl, rfl, rfl⟩, by simp [SecBuf.fresh]⟩
  refine ⟨rfl, ⟨hs, ?_, rfl, rfl⟩, rfl, rfl, ⟨_, rfl, grown_fresh cfg.cls _ (by simp [SHT_STRTAB, SHT_NOBITS])⟩, rfl⟩
  rw [C07.content_resident (by rcases hs with h | ⟨d, h⟩; exact h; exact absurd h.isLazy (by simp [SecBuf.fresh]))]
  simp [SecBuf.view, SecBuf.fresh, SymTab.fresh, recsOf, namesOf, tableBytes, Spec.strtabOffsets]

theorem fits_prefix {done : List AddArgs} {a : AddArgs} {rest : List AddArgs} (h : Fits (done ++ a :: rest)) :
    24 * (done.length + 2) < 4294967296 ∧ Spec.strTotal (namesOf done) + a.name.length + 3 < 4294967296 := by
  obtain ⟨h1, h2⟩ := h
  unfold namesOf at *
  simp only [List.map_append, List.map_cons, Spec.strTotal_append, Spec.strTotal, List.length_append,
    List.length_cons] at h1 h2
  omega

/-- one add on a built table -/
theorem addOne_built {cfg : Cfg} {t : SymTab} {done : List AddArgs} (hb : Built cfg t done) (a : AddArgs)
    (h1 : 24 * (done.length + 2) < 4294967296)
    (h2 : Spec.strTotal (namesOf done) + a.name.length + 3 < 4294967296) :
    ∃ t', addOne t a = .ok (t', BitVec.ofNat 32 (done.length + 1)) ∧ Built cfg t' (done ++ [a]) := by
  obtain ⟨s, hs, gs⟩ := hb.str
  obtain ⟨s', es, gs', _⟩ := addString_step gs a.name h2
  have hsym : Grown t.sym (tableBytes t.cfg (recsOf done)) := by rw [hb.cfgEq]; exact hb.sym
  obtain ⟨y, ey, gy, cy, ny⟩ := addSymbol_step (t := { t with str := some s' }) hsym (by rw [hb.symCls, hb.cfgEq])
    (by rw [recsOf_length]; exact h1) (BitVec.ofNat 32 (Spec.nextOff (namesOf done))) a.value a.size
    (sym_st_info_str a.bind a.typ) a.other a.shndx
  have hoff : (BitVec.ofNat 32 (Spec.nextOff (namesOf done))).toNat = Spec.nextOff (namesOf done) := by
    simp only [BitVec.toNat_ofNat, Nat.reducePow, Spec.nextOff]; omega
  refine ⟨{ t with str := some s', sym := y }, ?_, ⟨hb.cfgEq, ?_, by rw [cy]; exact hb.symCls, by rw [ny]; exact hb.ent,
    ⟨s', rfl, by simpa [namesOf] using gs'⟩, hb.hash⟩⟩
  · unfold addOne addSymbolStr
    simp only [hs, es, bind, Except.bind]
    rw [ey, recsOf_length]
  · rw [recsOf_snoc]
    rw [hoff, st_info_str_gen, hb.cfgEq] at gy
    exact gy

theorem addAll_built {cfg : Cfg} (as : List AddArgs) : ∀ {t : SymTab} {done : List AddArgs},
    Built cfg t done → Fits (done ++ as) →
    ∃ t', addAll t as = .ok (t', (List.range as.length).map (fun k => BitVec.ofNat 32 (done.length + k + 1))) ∧
      Built cfg t' (done ++ as) := by
  induction as with
  | nil => intro t done hb _; exact ⟨t, rfl, by simpa using hb⟩
  | cons a rest ih =>
    intro t done hb hf
    obtain ⟨f1, f2⟩ := fits_prefix hf
    obtain ⟨t1, e1, b1⟩ := addOne_built hb a f1 f2
    obtain ⟨t2, e2, b2⟩ := ih b1 (by simpa using hf)
    refine ⟨t2, ?_, by simpa using b2⟩
    simp only [addAll, e1, e2, bind, Except.bind, pure, Except.pure]
    congr 2
    simp only [List.length_cons, List.range_succ_eq_map, List.map_cons, List.map_map, List.length_append,
      List.length_nil, Nat.add_zero]
    congr 1
    apply List.map_congr_left
    intro k _
    simp only [Function.comp]
    congr 1
    omega


theorem wf_of_built {cfg : Cfg} {t : SymTab} {done : List AddArgs} (hb : Built cfg t done) :
    Wf t (tableBytes cfg (recsOf done)) (Spec.strtabBytes (namesOf done)) := by
  obtain ⟨s, hs, gs⟩ := hb.str
  refine ⟨by rw [hb.ent, hb.cfgEq], by rw [hb.sym.ss]; exact Nat.le_refl _, ?_, ?_⟩
  · have := readsAs_of_inv hb.sym.inv; rw [hb.sym.content] at this; exact this
  · rw [hs]; have := readsAs_of_inv gs.inv; rw [gs.content] at this; exact this

/-- value / size as stored in the member width of the class -/
def truncAddr (c : Cls) (v : BitVec 64) : BitVec 64 :=
  match c with
  | .c32 => (v.setWidth 32).setWidth 64
  | .c64 => v

/-- what `get_symbol` must report for a symbol added with `a` -/
def expected (c : Cls) (a : AddArgs) : Attrs :=
  { value := truncAddr c a.value, size := truncAddr c a.size, bind := a.bind &&& 0xf, typ := a.typ &&& 0xf,
    shndx := a.shndx, other := a.other }

theorem ofNat_toNat_mod8 (x : BitVec 8) : BitVec.ofNat 8 (x.toNat % 2 ^ 8) = x := by
  apply BitVec.eq_of_toNat_eq; have := x.isLt; simp only [BitVec.toNat_ofNat, Nat.reducePow] at *; omega
theorem ofNat_toNat_mod16 (x : BitVec 16) : BitVec.ofNat 16 (x.toNat % 2 ^ 16) = x := by
  apply BitVec.eq_of_toNat_eq; have := x.isLt; simp only [BitVec.toNat_ofNat, Nat.reducePow] at *; omega

theorem truncAddr_eq (c : Cls) (v : BitVec 64) :
    BitVec.ofNat 64 (v.toNat % 2 ^ (8 * Spec.addrBytes c)) = truncAddr c v := by
  apply BitVec.eq_of_toNat_eq
  have := v.isLt
  cases c <;> simp only [Spec.addrBytes, truncAddr, BitVec.toNat_ofNat, BitVec.toNat_setWidth, Nat.reducePow,
    Nat.reduceMul] at * <;> omega

theorem attrs_trunc (c : Cls) (a : AddArgs) (off : Nat) :
    attrsOfRec (Spec.truncSym c (recOf a off)) = expected c a := by
  simp only [attrsOfRec, Spec.truncSym, recOf, expected, truncAddr_eq, ofNat_toNat_mod8, ofNat_toNat_mod16,
    st_bind_info, st_type_info]

theorem offsets_le (start : Nat) (ns : List Bytes) (k off : Nat)
    (h : (Spec.strtabOffsets start ns)[k]? = some off) : off ≤ start + Spec.strTotal ns := by
  induction ns generalizing start k with
  | nil => simp [Spec.strtabOffsets] at h
  | cons x xs ih =>
    cases k with
    | zero => simp [Spec.strtabOffsets] at h; subst h; simp [Spec.strTotal]
    | succ j =>
      simp only [Spec.strtabOffsets, List.getElem?_cons_succ] at h
      have := ih _ _ h
      simp only [Spec.strTotal]; omega

theorem recsOf_get (as : List AddArgs) (k : Nat) (a : AddArgs) (h : as[k]? = some a) :
    ∃ off, (Spec.strtabOffsets 1 (namesOf as))[k]? = some off ∧ (recsOf as)[k]? = some (recOf a off) := by
  have hk : k < as.length := by
    rcases Nat.lt_or_ge k as.length with h' | h'
    · exact h'
    · rw [List.getElem?_eq_none (by omega)] at h; cases h
  have hl : k < (Spec.strtabOffsets 1 (namesOf as)).length := by
    rw [Spec.strtabOffsets_length]; simpa [namesOf] using hk
  refine ⟨(Spec.strtabOffsets 1 (namesOf as))[k], List.getElem?_eq_getElem hl, ?_⟩
  simp only [recsOf, List.getElem?_zipWith, h, List.getElem?_eq_getElem hl]

end SymTab

namespace C09
open SymTab

/-- **sym_bytes** : after any sequence of named adds on a new table, every add returned the next
    index, the symbol section is byte for byte the gABI encoding of the null symbol followed by the
    records (layout, byte order and `ELF_ST_INFO` packing per class/encoding), the string section
    is the NUL-led sequence of names, and the table is well-formed for the readers. -/
theorem sym_bytes (cfg : Cfg) (as : List AddArgs) (hf : Fits as) :
    ∃ t s, addAll (SymTab.fresh cfg) as = .ok (t, (List.range as.length).map (fun k => BitVec.ofNat 32 (k + 1))) ∧
      t.sym.content = (if as = [] then [] else Spec.encodeTable cfg (Spec.nullSym :: recsOf as)) ∧
      t.str = some s ∧ s.content = Spec.strtabBytes (namesOf as) ∧
      Wf t (tableBytes cfg (recsOf as)) (Spec.strtabBytes (namesOf as)) := by
  obtain ⟨t, e, b⟩ := addAll_built (cfg := cfg) as (built_fresh cfg) (by simpa using hf)
  obtain ⟨s, hs, gs⟩ := b.str
  simp only [List.nil_append, List.length_nil, Nat.zero_add] at e b hs gs
  refine ⟨t, s, e, ?_, hs, gs.content, wf_of_built b⟩
  rw [b.sym.content, tableBytes]
  have : (recsOf as = []) ↔ (as = []) := by
    rw [← List.length_eq_zero_iff, ← List.length_eq_zero_iff, recsOf_length]
  simp only [this]


theorem count_built (cfg : Cfg) (as : List AddArgs) :
    countOf cfg.cls (tableBytes cfg (recsOf as)) = if as = [] then 0 else as.length + 1 := by
  have hiff : (recsOf as = []) ↔ (as = []) := by
    rw [← List.length_eq_zero_iff, ← List.length_eq_zero_iff, recsOf_length]
  by_cases h : as = []
  · subst h; simp [countOf, tableBytes, recsOf, namesOf, Spec.strtabOffsets]
  · have hr : recsOf as ≠ [] := fun e => h (hiff.mp e)
    have hpos : 0 < Spec.symSize cfg.cls := by cases cfg.cls <;> simp [Spec.symSize]
    simp only [h, if_false, countOf, tableBytes_length cfg _ hr, recsOf_length]
    exact Nat.mul_div_cancel _ hpos

/-- **sym_roundtrip** : on the table built by any sequence of adds (explicit size bounds, names
    without NUL), `get_symbols_num` is the number of adds + 1, index 0 is the null symbol, index
    `k+1` returns the `k`-th symbol's name and attributes (value and size truncated to the class
    width, binding/type to their four bits), and every larger index is refused leaving the
    out-parameters untouched. -/
theorem sym_roundtrip (cfg : Cfg) (as : List AddArgs) (hf : Fits as) (hnul : ∀ a ∈ as, (0 : UInt8) ∉ a.name) :
    ∃ t, (∃ idx, addAll (SymTab.fresh cfg) as = .ok (t, idx)) ∧
      t.symbolsNum = .ok (BitVec.ofNat 64 (if as = [] then 0 else as.length + 1)) ∧
      (∀ k a, as[k]? = some a → ∀ str at0,
        t.getSymbol (BitVec.ofNat 64 (k + 1)) str at0 = .ok (true, a.name, expected cfg.cls a)) ∧
      (as ≠ [] → ∀ str at0, t.getSymbol 0 str at0 = .ok (true, [], {})) ∧
      (∀ (i : BitVec 64) str at0, (if as = [] then 0 else as.length + 1) ≤ i.toNat →
        t.getSymbol i str at0 = .ok (false, str, at0)) := by
  obtain ⟨t, s, e, _, _, _, wf⟩ := sym_bytes cfg as hf
  have hcfg : t.cfg = cfg := by
    obtain ⟨t', e', b⟩ := addAll_built (cfg := cfg) as (built_fresh cfg) (by simpa using hf)
    simp only [List.nil_append, List.length_nil, Nat.zero_add] at e'
    rw [e] at e'; cases e'; exact b.cfgEq
  have hcount := count_built cfg as
  have hlen : as.length + 2 < 4294967296 := by have := hf.1; omega
  refine ⟨t, ⟨_, e⟩, ?_, ?_, ?_, ?_⟩
  · rw [symbolsNum_eq wf, hcfg, hcount]
  · intro k a hk str at0
    have hkl : k < as.length := by
      rcases Nat.lt_or_ge k as.length with h' | h'
      · exact h'
      · rw [List.getElem?_eq_none (by omega)] at hk; cases hk
    have hne : as ≠ [] := by intro e0; subst e0; simp at hkl
    have hi : (BitVec.ofNat 64 (k + 1)).toNat = k + 1 := by
      simp only [BitVec.toNat_ofNat, Nat.reducePow]; omega
    obtain ⟨off, ho, hr⟩ := recsOf_get as k a hk
    have hrne : recsOf as ≠ [] := by intro e0; rw [e0] at hr; simp at hr
    have hrec : recAt cfg (tableBytes cfg (recsOf as)) (k + 1) = Spec.truncSym cfg.cls (recOf a off) := by
      unfold recAt
      simp only [tableBytes, hrne, if_false, Spec.encodeTable]
      rw [slice_flatten_block (Spec.encodeSym cfg) (Spec.symSize cfg.cls) (Spec.nullSym :: recsOf as)
        (fun x _ => Spec.encodeSym_length cfg x) (k + 1) (recOf a off) (by simpa using hr)]
      exact Spec.decode_encodeSym cfg _
    have hoff : off ≤ 1 + Spec.strTotal (namesOf as) := offsets_le _ _ _ _ ho
    have hname : nameAt cfg (tableBytes cfg (recsOf as)) (Spec.strtabBytes (namesOf as)) (k + 1) = some a.name := by
      unfold nameAt
      rw [hrec]
      have hnn : namesOf as ≠ [] := by simpa [namesOf] using hne
      have hmod : (Spec.truncSym cfg.cls (recOf a off)).name = off := by
        simp only [Spec.truncSym, recOf, Nat.reducePow]
        have := hf.2
        omega
      rw [hmod]
      have htab : Spec.strtabBytes (namesOf as) = [0] ++ ((namesOf as).map (· ++ [0])).flatten := by
        cases hq : namesOf as with
        | nil => exact absurd hq hnn
        | cons x xs => rfl
      rw [htab]
      apply strAt_table [0] (namesOf as) _ k off a.name (by simpa using ho) (by simp [namesOf, hk])
      intro n hn
      simp only [namesOf, List.mem_map] at hn
      obtain ⟨a', ha', rfl⟩ := hn
      exact hnul a' ha'
    rw [getSymbol_decoded wf, hi, hcfg, hcount]
    simp only [hne, if_false, show k + 1 < as.length + 1 by omega, if_true, hname, hrec, attrs_trunc, Option.getD_some]
  · intro hne str at0
    have hrne : recsOf as ≠ [] := by
      intro e0; have := recsOf_length as; rw [e0] at this; simp at this; exact hne (List.length_eq_zero_iff.mp this.symm)
    have hrec : recAt cfg (tableBytes cfg (recsOf as)) 0 = Spec.nullSym := by
      unfold recAt
      simp only [tableBytes, hrne, if_false, Spec.encodeTable]
      have := slice_flatten_block (Spec.encodeSym cfg) (Spec.symSize cfg.cls) (Spec.nullSym :: recsOf as)
        (fun x _ => Spec.encodeSym_length cfg x) 0 Spec.nullSym (by simp)
      simp only [Nat.zero_mul] at this ⊢
      rw [this, Spec.decode_encodeSym]
      simp [Spec.truncSym, Spec.nullSym]
    have hname : nameAt cfg (tableBytes cfg (recsOf as)) (Spec.strtabBytes (namesOf as)) 0 = some [] := by
      unfold nameAt
      rw [hrec]
      have hnn : namesOf as ≠ [] := by simpa [namesOf] using hne
      cases hq : namesOf as with
      | nil => exact absurd hq hnn
      | cons x xs => simp [Spec.strtabBytes, Spec.strAt, Spec.nullSym]
    have h0 : (0 : BitVec 64).toNat = 0 := rfl
    have hnull : attrsOfRec Spec.nullSym = {} := by
      simp only [attrsOfRec, Spec.nullSym, Spec.stBind, Spec.stType]; rfl
    rw [getSymbol_decoded wf, hcfg, hcount, h0]
    simp only [hne, if_false, Nat.zero_lt_succ, if_true, hname, hrec, Option.getD_some, hnull]
  · intro i str at0 hi
    rw [getSymbol_decoded wf, hcfg, hcount]
    simp only [Nat.not_lt.mpr hi, if_false]


/-- **lookup_value** : `get_symbol(value, …)` on any well-formed table returns the name and
    attributes of the *first* entry whose `st_value` (in the class width) equals `value`, and fails
    (out-parameters untouched) when there is none.  Independent of any hash section. -/
theorem lookup_value {t : SymTab} {symB strB : Bytes} (h : Wf t symB strB) (value : BitVec 64) (str : Bytes)
    (a : Attrs) :
    t.getByValue value str a = .ok (match Spec.lookupValue (valuesOf t.cfg symB) value.toNat with
      | none => (false, str, a)
      | some j => (true, (nameAt t.cfg symB strB j).getD str,
                   { attrsOfRec (recAt t.cfg symB j) with value := a.value })) := by
  have hcnt : countOf t.cfg.cls symB ≤ symB.length := Nat.div_le_self _ _
  have hlt := t.sym.size.isLt
  have hsz := h.sym.size
  have hcN : (BitVec.ofNat 64 (countOf t.cfg.cls symB)).toNat = countOf t.cfg.cls symB := by
    simp only [BitVec.toNat_ofNat, Nat.reducePow] at *; omega
  obtain ⟨r, e, p⟩ := searchGo_spec h value (countOf t.cfg.cls symB) 0 (by omega)
  unfold getByValue
  rw [symbolsNum_eq h]
  simp only [bind, Except.bind, hcN]
  have e' : t.searchGo value (countOf t.cfg.cls symB) 0 = .ok r := e
  rw [e']
  cases r with
  | none =>
    have : Spec.lookupValue (valuesOf t.cfg symB) value.toNat = none := by
      apply Spec.firstIdx_eq_none
      intro j b hb
      rw [valuesOf_get] at hb
      split at hb
      · rename_i hj; cases hb
        simpa using p j (Nat.zero_le _) hj
      · cases hb
    simp only [this, pure, Except.pure]
  | some idx =>
    obtain ⟨j, e1, _, e3, e4, e5⟩ := p
    have : Spec.lookupValue (valuesOf t.cfg symB) value.toNat = some j := by
      apply Spec.firstIdx_eq_some (a := (recAt t.cfg symB j).value)
      · rw [valuesOf_get]; simp [e3]
      · simpa using e4
      · intro j' h1 b hb
        rw [valuesOf_get] at hb
        have : j' < countOf t.cfg.cls symB := by omega
        simp only [this, if_true, Option.some.injEq] at hb
        subst hb
        simpa using e5 j' (Nat.zero_le _) h1
    have hjN : (BitVec.ofNat 64 j).toNat = j := by
      simp only [BitVec.toNat_ofNat, Nat.reducePow] at *; omega
    simp only [this, e1, getSymbol_decoded h, hjN, e3, if_true, pure, Except.pure]


/-- **lookup_name** : on any well-formed table with valid name offsets, accompanied by *any* hash
    section (or none): if `get_symbol(name, …)` returns at all (i.e. the hash walk did not fault),
    then it succeeds exactly when some entry carries the name, on success the attributes are those
    of an entry with that name, and when the name is unique they are the linear scan's answer.
    Uses only soundness of the two walks and the unconditional fallback. -/
theorem lookup_name {t : SymTab} {symB strB : Bytes} (h : Wf t symB strB) (hv : ValidNames t.cfg symB strB)
    (name : Bytes) (a : Attrs) (r : Bool) (a' : Attrs) (e : t.getByName name a = .ok (r, a')) :
    (r = true ↔ (Spec.lookupName (namesOfTable t.cfg symB strB) name).isSome = true) ∧
    (r = true → SymAt t.cfg symB strB name a') ∧
    ((∀ j j', j < countOf t.cfg.cls symB → j' < countOf t.cfg.cls symB →
        nameAt t.cfg symB strB j = some name → nameAt t.cfg symB strB j' = some name → j = j') →
      r = true → ∃ j0, Spec.lookupName (namesOfTable t.cfg symB strB) name = some j0 ∧
        a' = attrsOfRec (recAt t.cfg symB j0)) := by
  have hcnt : countOf t.cfg.cls symB ≤ symB.length := Nat.div_le_self _ _
  have hlt := t.sym.size.isLt
  have hsz := h.sym.size
  -- an entry carrying the name makes the reference scan succeed, at an entry carrying the name
  have hpresent : ∀ j, j < countOf t.cfg.cls symB → nameAt t.cfg symB strB j = some name →
      ∃ j0, Spec.lookupName (namesOfTable t.cfg symB strB) name = some j0 ∧ j0 < countOf t.cfg.cls symB ∧
        nameAt t.cfg symB strB j0 = some name := by
    intro j hj hn
    cases hl : Spec.lookupName (namesOfTable t.cfg symB strB) name with
    | none =>
      have := Spec.firstIdx_none hl name (by
        rw [List.mem_iff_getElem?]; exact ⟨j, by rw [namesOfTable_get]; simp [hj, hn]⟩)
      simp at this
    | some j0 =>
      obtain ⟨x, hx, hp, _⟩ := Spec.firstIdx_some hl
      rw [namesOfTable_get] at hx
      split at hx
      · rename_i hj0
        obtain ⟨n, hn0⟩ := Option.isSome_iff_exists.mp (hv _ hj0)
        simp only [hn0, Option.getD_some, Option.some.injEq] at hx
        subst hx
        exact ⟨j0, rfl, hj0, by rw [hn0]; simpa using hp⟩
      · cases hx
  unfold getByName at e
  obtain ⟨r1, e1, e⟩ := bind_ok' e
  by_cases hr1 : r1.1 = true
  · -- found by a hash walk
    rw [if_pos hr1] at e
    simp only [pure, Except.pure, Except.ok.injEq] at e
    have e1' : t.hashPhase name a = .ok (true, a') := by rw [e1, e]; rw [e] at hr1; simp at hr1; rw [hr1]
    have hr : r = true := by rw [e] at hr1; exact hr1
    obtain ⟨j, hj, hn, ha⟩ := hashPhase_sound h hv name a a' e1'
    obtain ⟨j0, hl, hj0, hn0⟩ := hpresent j hj hn
    refine ⟨⟨fun _ => by rw [hl]; rfl, fun _ => hr⟩, fun _ => ⟨j, hj, hn, ha⟩, fun hu _ => ⟨j0, hl, ?_⟩⟩
    rw [hu j0 j hj0 hj hn0 hn]; exact ha
  · -- fallback
    rw [if_neg hr1] at e
    obtain ⟨n, en, e⟩ := bind_ok' e
    rw [symbolsNum_eq h] at en
    cases en
    have hcN : (BitVec.ofNat 64 (countOf t.cfg.cls symB)).toNat = countOf t.cfg.cls symB := by
      simp only [BitVec.toNat_ofNat, Nat.reducePow] at *; omega
    rw [hcN] at e
    obtain ⟨r', a'', e', p1, p2⟩ := linearGo_spec h hv name (countOf t.cfg.cls symB) 0 r1.2 (by omega)
    have e'' : t.linearGo name (countOf t.cfg.cls symB) 0 r1.2 = .ok (r', a'') := e'
    rw [e''] at e
    simp only [Except.ok.injEq, Prod.mk.injEq] at e
    obtain ⟨rfl, rfl⟩ := e
    cases hr : r' with
    | false =>
      have hnone : Spec.lookupName (namesOfTable t.cfg symB strB) name = none := by
        apply Spec.firstIdx_eq_none
        intro j b hb
        rw [namesOfTable_get] at hb
        split at hb
        · rename_i hj
          obtain ⟨n, hn0⟩ := Option.isSome_iff_exists.mp (hv _ hj)
          simp only [hn0, Option.getD_some, Option.some.injEq] at hb
          subst hb
          have := p1 hr j (Nat.zero_le _) hj
          rw [hn0] at this
          simpa using this
        · cases hb
      refine ⟨⟨fun c => (by cases c), fun c => (by rw [hnone] at c; simp at c)⟩, fun c => (by cases c), fun _ c => by cases c⟩
    | true =>
      obtain ⟨j, _, hj, hn, ha, hmin⟩ := p2 hr
      have hl : Spec.lookupName (namesOfTable t.cfg symB strB) name = some j := by
        apply Spec.firstIdx_eq_some (a := name)
        · rw [namesOfTable_get]; simp [hj, hn]
        · simp
        · intro j' h1 b hb
          rw [namesOfTable_get] at hb
          have hj' : j' < countOf t.cfg.cls symB := by omega
          obtain ⟨n, hn0⟩ := Option.isSome_iff_exists.mp (hv _ hj')
          simp only [hj', if_true, hn0, Option.getD_some, Option.some.injEq] at hb
          subst hb
          have := hmin j' (Nat.zero_le _) h1
          rw [hn0] at this
          simpa using this
      exact ⟨⟨fun _ => by rw [hl]; rfl, fun _ => rfl⟩, fun _ => ⟨j, hj, hn, ha⟩, fun _ _ => ⟨j, hl, ha⟩⟩



/-- the `ELF_ST_INFO` / `ELF_ST_BIND` / `ELF_ST_TYPE` uses in the accessor are the gABI macros, and
    unpacking a packed pair gives back the low four bits of each -/
theorem st_info_spec (b ty i : BitVec 8) :
    sym_st_info b ty = Spec.stInfo b ty ∧ sym_st_info_str b ty = Spec.stInfo b ty ∧
    sym32_get_bind i = Spec.stBind i ∧ sym64_get_bind i = Spec.stBind i ∧
    sym32_get_type i = Spec.stType i ∧ sym64_get_type i = Spec.stType i ∧
    Spec.stBind (Spec.stInfo b ty) = b &&& 0xf ∧ Spec.stType (Spec.stInfo b ty) = ty &&& 0xf :=
  ⟨st_info_gen b ty, st_info_str_gen b ty, st_bind_gen32 i, st_bind_gen64 i, st_type_gen32 i, st_type_gen64 i,
   st_bind_info b ty, st_type_info b ty⟩

/-- **read-outs are functions of the section contents and header fields only** : two tables of the
    same class/encoding whose symbol and string sections expose the same bytes (e.g. the table that
    was built and the table obtained by saving and reloading it) answer every by-index, by-value
    and count query identically, and every by-name query when neither has a hash section. -/
theorem readout_content_only {t t' : SymTab} {symB strB : Bytes} (h : Wf t symB strB) (h' : Wf t' symB strB)
    (hc : t.cfg = t'.cfg) :
    t.symbolsNum = t'.symbolsNum ∧
    (∀ i str a, t.getSymbol i str a = t'.getSymbol i str a) ∧
    (∀ v str a, t.getByValue v str a = t'.getByValue v str a) ∧
    (t.hash = none → t'.hash = none → ∀ name a, t.getByName name a = t'.getByName name a) := by
  have hn : t.symbolsNum = t'.symbolsNum := by rw [symbolsNum_eq h, symbolsNum_eq h', hc]
  have hg : ∀ i str a, t.getSymbol i str a = t'.getSymbol i str a := by
    intro i str a; rw [getSymbol_decoded h, getSymbol_decoded h', hc]
  refine ⟨hn, hg, ?_, ?_⟩
  · intro v str a; rw [lookup_value h, lookup_value h', hc]
  · intro e e' name a
    unfold getByName hashPhase
    rw [e, e', hn]
    simp only [bind, Except.bind, pure, Except.pure, Bool.false_eq_true, if_false]
    cases t'.symbolsNum with
    | error x => rfl
    | ok n => exact linearGo_congr hg name _ _ _

/-- the table an eager or lazy load produces from sections holding `symB` / `strB`
    (loader abstraction of C07: `SecBuf.loadedEager` / `loadedLazy`; standard entry size; the
    stream is at least as long as the section) -/
def loadedTab (cfg : Cfg) (lz : Bool) (symB strB : Bytes) (ss : BitVec 64) : SymTab :=
  let mk (ty : Nat) (d : Bytes) : SecBuf :=
    if lz then SecBuf.loadedLazy cfg.cls (BitVec.ofNat 32 ty) d ss else SecBuf.loadedEager cfg.cls (BitVec.ofNat 32 ty) d ss
  { cfg, sym := { mk SHT_SYMTAB symB with entSize := BitVec.ofNat 64 (symSizeOf cfg.cls) },
    str := some (mk SHT_STRTAB strB), hash := none }

theorem inv_entSize {b : SecBuf} (e : BitVec 64) (h : b.Inv) :
    SecBuf.Inv { b with entSize := e } ∧ SecBuf.content { b with entSize := e } = b.content := by
  rcases h with h | ⟨d, h⟩
  · exact ⟨Or.inl ⟨h.notNobits, h.pend, h.buf, h.cap⟩, rfl⟩
  · exact ⟨Or.inr ⟨d, ⟨h.isLazy, h.notLoaded, h.canLoad, h.noData, h.fileData, h.len, h.typeOk⟩⟩, rfl⟩

/-- a loaded table is well-formed for the readers, with exactly the file's bytes -/
theorem wf_loaded (cfg : Cfg) (lz : Bool) (symB strB : Bytes) (ss : BitVec 64)
    (h1 : symB.length ≤ ss.toNat) (h2 : strB.length < 18446744073709551616) :
    Wf (loadedTab cfg lz symB strB ss) symB strB := by
  have hs := ss.isLt
  have hl : symB.length < 18446744073709551616 := by omega
  have hn : (BitVec.ofNat 64 symB.length).toNat = symB.length := by
    simp only [BitVec.toNat_ofNat, Nat.reducePow]; omega
  cases lz
  · obtain ⟨i1, c1⟩ := C07.loaded_inv cfg.cls (BitVec.ofNat 32 SHT_SYMTAB) symB ss (by simp [SHT_SYMTAB, SHT_NOBITS]) hl
    obtain ⟨i2, c2⟩ := C07.loaded_inv cfg.cls (BitVec.ofNat 32 SHT_STRTAB) strB ss (by simp [SHT_STRTAB, SHT_NOBITS]) h2
    obtain ⟨j1, d1⟩ := inv_entSize (BitVec.ofNat 64 (symSizeOf cfg.cls)) i1
    refine ⟨rfl, ?_, ?_, ?_⟩
    · show (SecBuf.loadedEager cfg.cls (BitVec.ofNat 32 SHT_SYMTAB) symB ss).size.toNat ≤ ss.toNat
      simp only [SecBuf.loadedEager, hn]; exact h1
    · have := readsAs_of_inv j1; rw [d1, c1] at this; exact this
    · have := readsAs_of_inv i2; rw [c2] at this; exact this
  · obtain ⟨i1, c1⟩ := C07.lazy_inv cfg.cls (BitVec.ofNat 32 SHT_SYMTAB) symB ss (by simp [SHT_SYMTAB, SHT_NOBITS])
      (by simp [SHT_SYMTAB, SHT_NULL]) hl
    obtain ⟨i2, c2⟩ := C07.lazy_inv cfg.cls (BitVec.ofNat 32 SHT_STRTAB) strB ss (by simp [SHT_STRTAB, SHT_NOBITS])
      (by simp [SHT_STRTAB, SHT_NULL]) h2
    obtain ⟨j1, d1⟩ := inv_entSize (BitVec.ofNat 64 (symSizeOf cfg.cls)) i1
    refine ⟨rfl, ?_, ?_, ?_⟩
    · show (SecBuf.loadedLazy cfg.cls (BitVec.ofNat 32 SHT_SYMTAB) symB ss).size.toNat ≤ ss.toNat
      simp only [SecBuf.loadedLazy, hn]; exact h1
    · have := readsAs_of_inv j1; rw [d1, c1] at this; exact this
    · have := readsAs_of_inv i2; rw [c2] at this; exact this

/-- **round trip through save + reload, given that the file holds the section contents** :
    the reloaded table answers by index exactly like the table that was built -/
theorem sym_roundtrip_reloaded (cfg : Cfg) (as : List AddArgs) (hf : Fits as) (lz : Bool) (ss : BitVec 64)
    (hss : (tableBytes cfg (recsOf as)).length ≤ ss.toNat) :
    ∃ t, (∃ idx, addAll (SymTab.fresh cfg) as = .ok (t, idx)) ∧
      let t' := loadedTab cfg lz (tableBytes cfg (recsOf as)) (Spec.strtabBytes (namesOf as)) ss
      t'.symbolsNum = t.symbolsNum ∧ (∀ i str a, t'.getSymbol i str a = t.getSymbol i str a) ∧
      (∀ v str a, t'.getByValue v str a = t.getByValue v str a) ∧
      (∀ name a, t'.getByName name a = t.getByName name a) := by
  obtain ⟨t, s, e, _, _, _, wf⟩ := sym_bytes cfg as hf
  obtain ⟨t0, e0, b⟩ := addAll_built (cfg := cfg) as (built_fresh cfg) (by simpa using hf)
  simp only [List.nil_append, List.length_nil, Nat.zero_add] at e0
  rw [e] at e0; cases e0
  have hstr : (Spec.strtabBytes (namesOf as)).length < 18446744073709551616 := by
    have := hf.2
    by_cases hn : namesOf as = []
    · rw [hn]; simp [Spec.strtabBytes]
    · rw [Spec.strtabBytes_length _ hn]; omega
  have wf' := wf_loaded cfg lz _ _ ss hss hstr
  obtain ⟨r1, r2, r3, r4⟩ := readout_content_only wf' wf (by rw [b.cfgEq]; rfl)
  exact ⟨t, ⟨_, e⟩, r1, r2, r3, r4 rfl b.hash⟩

/-! ### non-vacuity: concrete inputs meet the hypotheses -/

def exA : AddArgs := ⟨[0x66, 0x6f, 0x6f], 0x1122334455667788#64, 7#64, 1#8, 2#8, 3#8, 0xfff1#16⟩
def exB : AddArgs := ⟨[0x62], 5#64, 6#64, 0#8, 1#8, 0#8, 2#16⟩

example : Fits [exA, exB] := by simp [Fits, namesOf, Spec.strTotal, exA, exB]
example : ∀ a ∈ [exA, exB], (0 : UInt8) ∉ a.name := by decide
example : expected .c32 exA = { value := 0x55667788#64, size := 7#64, bind := 1#8, typ := 2#8, shndx := 0xfff1#16, other := 3#8 } := by
  decide
/-- the record bytes the specification prescribes for `exA` in ELF32 / MSB at name offset 1 -/
example : Spec.encodeSym ⟨.c32, .msb⟩ (recOf exA 1) =
    [0, 0, 0, 1, 0x55, 0x66, 0x77, 0x88, 0, 0, 0, 7, 0x12, 3, 0xff, 0xf1] := by decide
example : Spec.sysvHash [0x66, 0x6f, 0x6f] = 27999#32 := by decide
example : Spec.gnuHash [0x66, 0x6f, 0x6f] = 193491849#32 := by decide


/-- a two-entry ELF32/LSB table (null symbol, one symbol named "b" with value 5) and its strings -/
def exSym : Bytes := [0,0,0,0, 0,0,0,0, 0,0,0,0, 0,0,0,0,  1,0,0,0, 5,0,0,0, 6,0,0,0, 0x12,0,2,0]
def exStr : Bytes := [0, 0x62, 0]
example : Wf (loadedTab ⟨.c32, .lsb⟩ false exSym exStr 1000#64) exSym exStr :=
  wf_loaded _ _ _ _ _ (by decide) (by decide)
example : countOf .c32 exSym = 2 := by decide
example : ValidNames ⟨.c32, .lsb⟩ exSym exStr := by
  intro j hj
  have : j = 0 ∨ j = 1 := by have : countOf .c32 exSym = 2 := by decide
                             simp only [this] at hj; omega
  rcases this with rfl | rfl <;> decide
example : Spec.lookupName (namesOfTable ⟨.c32, .lsb⟩ exSym exStr) [0x62] = some 1 := by decide
example : Spec.lookupValue (valuesOf ⟨.c32, .lsb⟩ exSym) 5 = some 1 := by decide

/-- fix 09-hash-lookup-empty-name, on the model: an empty symbol table accompanied by a well-formed
    SysV hash table (1 bucket, 0 chain entries) does not "find" the empty name -/
def exEmptySysv : SymTab :=
  { loadedTab ⟨.c64, .lsb⟩ false [] [] 1000#64 with
    hash := some (SecBuf.loadedEager .c64 (BitVec.ofNat 32 SHT_HASH) [1,0,0,0, 0,0,0,0, 0,0,0,0] 1000#64) }
example : (exEmptySysv.getByName [] {}).toOption = some (false, {}) := by rfl



/-- **lookup by name with no or a well-formed hash table** : on a well-formed table with valid
    name offsets, accompanied by no hash section, a well-formed SysV table or a well-formed GNU
    table, `get_symbol(name, …)` returns (no fault, the walks terminate), succeeds exactly when the
    name is present, with the attributes of an entry of that name - the linear scan's when the
    name is unique. -/
theorem lookup_name_wellformed {t : SymTab} {symB strB : Bytes} (h : Wf t symB strB)
    (hv : ValidNames t.cfg symB strB) (hk : HashOk t) (name : Bytes) (a : Attrs) :
    ∃ r a', t.getByName name a = .ok (r, a') ∧
      (r = true ↔ (Spec.lookupName (namesOfTable t.cfg symB strB) name).isSome = true) ∧
      (r = true → SymAt t.cfg symB strB name a') ∧
      ((∀ j j', j < countOf t.cfg.cls symB → j' < countOf t.cfg.cls symB →
          nameAt t.cfg symB strB j = some name → nameAt t.cfg symB strB j' = some name → j = j') →
        r = true → ∃ j0, Spec.lookupName (namesOfTable t.cfg symB strB) name = some j0 ∧
          a' = attrsOfRec (recAt t.cfg symB j0)) := by
  obtain ⟨⟨r, a'⟩, e⟩ := getByName_total h name a (hashPhase_total h hk name a)
  exact ⟨r, a', e, lookup_name h hv name a r a' e⟩



/-- the SysV table the ABI construction gives for the names "", "a", "b", "ab" with 3 buckets (LSB) -/
def exSysv : Bytes := [3,0,0,0, 4,0,0,0, 3,0,0,0, 1,0,0,0, 2,0,0,0, 0,0,0,0, 0,0,0,0, 0,0,0,0, 0,0,0,0]
example : SysvWf .lsb exSysv := by
  refine ⟨by decide, by decide, by decide, ?_⟩
  have h : ∀ y, y < 4 → 1 ≤ y → wordAt .lsb exSysv (2 + 3 + y) < y := by decide
  intro y h1 h2
  have e0 : wordAt .lsb exSysv 0 = 3 := by decide
  have e1 : wordAt .lsb exSysv 1 = 4 := by decide
  rw [e0]; rw [e1] at h2
  exact h y h2 h1

/-- the GNU table (ELF64, MSB) for "", "a", "b", "ab": 3 buckets, symoffset 1, 2 bloom words, shift 5 -/
def exGnu : Bytes := [0,0,0,3, 0,0,0,1, 0,0,0,2, 0,0,0,5, 2,1,1,0,0,0,0,192, 0,0,0,0,0,0,0,0,
  0,0,0,0, 0,0,0,1, 0,0,0,2, 0,2,182,7, 0,2,182,6, 0,89,119,41]
example : GnuWf .msb .c64 exGnu 3 := by
  refine ⟨by decide, by decide, by decide, by decide, ?_, by decide⟩
  have e0 : hw32 .msb exGnu 0 = 3 := by decide
  have e8 : hw32 .msb exGnu 8 = 2 := by decide
  have h : ∀ b, b < 3 → hw32 .msb exGnu 4 ≤ hw32 .msb exGnu (16 + 2 * bloomW .c64 + 4 * b) →
      hw32 .msb exGnu (16 + 2 * bloomW .c64 + 4 * b) - hw32 .msb exGnu 4 < 3 := by decide
  intro b hb
  rw [e0] at hb; rw [e8]
  exact h b hb


end C09
end ElfioVerif
