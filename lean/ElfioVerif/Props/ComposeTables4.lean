/-
Truncated files (C17), the remaining accessor read-outs on an object loaded from a prefix (continues §5 of
Props/ComposeTables2.lean and §2 of Props/ComposeTables3.lean; same style).

  §1  PrefixLoadedS, prefixLoadedS_of_load, prefix_segResident, prefix_segment_notes_sound:
      the PT_NOTE *segment* note accessor (`note_segment_accessor`) on a prefix that loads
-/
import ElfioVerif.Props.ComposeTables3

set_option autoImplicit false
namespace ElfioVerif.ComposeTables
open Gen C02 Inspect LoadedTables

/-! ### 1. the PT_NOTE segment accessor on a truncated file

State: `PrefixLoadedS img k o` = `PrefixLoadedC img k o` plus the segment side: one segment per program header of the
COMPLETE image, each showing the complete image's type, file offset and file size (`C17.prefix_sound_segment`: the
segments of a prefix that loads are those of the complete load; `LoadedTables.segs_of_load`: those show the
specification's values).  `prefix_segResident`: `segments[j]->get_data()` keeps the state and hands out a segment
WITHOUT data, or one whose data is exactly the complete image's bytes of the segment's file range (all of them inside
the prefix). -/

/-- a loaded prefix whose segments carry the complete image's program header values -/
structure PrefixLoadedS (img : Bytes) (k : Nat) (o : Obj) : Prop where
  base : PrefixLoadedC img k o
  nsegs : o.segs.length = eh img "e_phnum"
  segs : ∀ j (hj : j < o.segs.length), o.segs[j].stype.toNat = ph img j "p_type" ∧
    o.segs[j].offset.toNat = ph img j "p_offset" ∧ o.segs[j].filesz.toNat = ph img j "p_filesz"

/-- **a prefix of a well-formed image that loads** is `PrefixLoadedS` -/
theorem prefixLoadedS_of_load (img : Bytes) (hwf : WellFormedImage img) (o : Obj) (htr : o.trans = []) (k : Nat)
    (kind : StreamKind) (isLazy : Bool) (rp : LoadRes)
    (hp : load o { data := img.take k, kind := kind } isLazy = .ok rp) (hok : rp.ok = true) :
    PrefixLoadedS img k rp.obj := by
  obtain ⟨rf, hf, hspec, hL⟩ := of_load img o kind isLazy htr hwf
  have hS := segs_of_load img o kind isLazy htr rf hf hspec
  have hlen : img.length < 9223372036854775808 := hwf.2.2.2.2.1
  obtain ⟨_, _, hl, hseg⟩ := C17.prefix_sound_segment o htr img k kind isLazy hlen rp rf hp hf hok
  refine ⟨prefixLoadedC_of_load img hwf o htr k kind isLazy rp hp hok, hl.trans hS.nsegs, ?_⟩
  intro j hj
  obtain ⟨gf, hgf, hr⟩ := hseg j _ (List.getElem?_eq_getElem hj)
  have hj' : j < rf.obj.segs.length := by rw [← hl]; exact hj
  have hgf' : gf = rf.obj.segs[j] := by
    rw [List.getElem?_eq_getElem hj'] at hgf; exact (Option.some.inj hgf).symm
  obtain ⟨⟨_, f1, _, f3, _, _, f6, _⟩, _⟩ := hS.segs j hj'
  rw [← hgf'] at f1 f3 f6
  exact ⟨by rw [hr.fields.stype]; exact f1, by rw [hr.fields.offset]; exact f3, by rw [hr.fields.filesz]; exact f6⟩

/-- a section data request keeps the segment side -/
theorem PrefixLoadedS.of_segs_eq {img : Bytes} {k : Nat} {o o1 : Obj} (h : PrefixLoadedS img k o)
    (hC : PrefixLoadedC img k o1) (e : o1.segs = o.segs) : PrefixLoadedS img k o1 := by
  refine ⟨hC, by rw [e]; exact h.nsegs, ?_⟩
  intro j hj
  have hj' : j < o.segs.length := by rw [← e]; exact hj
  have : o1.segs[j] = o.segs[j] := by simp only [e]
  rw [this]; exact h.segs j hj'

/-- `segments[j]->get_data()` on a loaded prefix: the state is kept; the segment handed to the accessor shows the
    complete image's type and file size, and its data is absent or EXACTLY the complete image's bytes
    `[p_offset, p_offset + p_filesz)` (plus the terminator ELFIO appends), a range that lies inside the prefix -/
theorem prefix_segResident (img : Bytes) (k : Nat) (o : Obj) (hP : PrefixLoadedS img k o) (j : Nat)
    (hj : j < eh img "e_phnum") :
    ∃ o1 g1, segResident o j = some (o1, g1) ∧ PrefixLoadedS img k o1 ∧ o1.secs = o.secs ∧
      g1.stype.toNat = ph img j "p_type" ∧ g1.filesz.toNat = ph img j "p_filesz" ∧
      (g1.data = none ∨
        (g1.data = some (slice img (ph img j "p_offset") (ph img j "p_filesz") ++ [0]) ∧
         (slice img (ph img j "p_offset") (ph img j "p_filesz")).length = ph img j "p_filesz" ∧
         (ph img j "p_filesz" ≠ 0 → ph img j "p_offset" + ph img j "p_filesz" ≤ k))) := by
  have hj' : j < o.segs.length := by rw [hP.nsegs]; exact hj
  have hB := hP.base.base
  have hs0 : StOk o.trans (img.take k) o.stream.kind { st := o.stream } :=
    ⟨hB.inv.sdata, rfl, fun a ha => by cases ha⟩
  have hg0 := hB.inv.segs o.segs[j] (List.getElem_mem hj')
  obtain ⟨h1, h2, h3⟩ := segGetData_spec o.cls o.trans _ o.segs[j] (img.take k) _ hs0 hg0
  obtain ⟨f1, f3, f6⟩ := hP.segs j hj'
  have e1 : (segGetData o.cls o.trans { st := o.stream } o.segs[j]).2.stype.toNat = ph img j "p_type" := by
    rw [h3.stype]; exact f1
  have e3 : (segGetData o.cls o.trans { st := o.stream } o.segs[j]).2.offset.toNat = ph img j "p_offset" := by
    rw [h3.offset]; exact f3
  have e6 : (segGetData o.cls o.trans { st := o.stream } o.segs[j]).2.filesz.toNat = ph img j "p_filesz" := by
    rw [h3.filesz]; exact f6
  unfold segResident
  rw [List.getElem?_eq_getElem hj']
  refine ⟨_, _, rfl,
    ⟨⟨⟨hB.cls, hB.enc, hB.trans, hB.len, ⟨h1.data, hB.inv.secs, ?_⟩, hB.nsecs, hB.secs⟩, hP.base.secCls⟩,
      by simp [hP.nsegs], ?_⟩, rfl, e1, e6, ?_⟩
  · intro g' hg'
    rcases List.mem_or_eq_of_mem_set hg' with hg' | rfl
    · exact hB.inv.segs g' hg'
    · exact h2
  · intro j' hj2
    simp only [List.length_set] at hj2
    by_cases hjj : j = j'
    · subst hjj
      simp only [List.getElem_set_self]
      exact ⟨e1, e3, e6⟩
    · simp only [List.getElem_set_ne hjj]
      exact hP.segs j' hj2
  · cases hd : (segGetData o.cls o.trans { st := o.stream } o.segs[j]).2.data with
    | none => exact Or.inl rfl
    | some d =>
      right
      have h2' : LoadedSeg [] (segGetData o.cls o.trans { st := o.stream } o.segs[j]).2 (img.take k) := by
        rw [← hB.trans]; exact h2
      obtain ⟨x1, x2, x3⟩ := C17.LoadedSeg.prefix_exact h2' hd
      rw [e3, e6] at x1 x2 x3
      refine ⟨by rw [x1], x2, ?_⟩
      intro hne
      apply x3
      intro hz
      rw [hz] at e6
      exact hne e6.symm

/-- the file bytes of a non-PT_NULL segment are the slice of its file range -/
theorem segFileBytes_of_type (img : Bytes) (j : Nat) (hty : ph img j "p_type" ≠ Spec.PT_NULL)
    (hl : (slice img (ph img j "p_offset") (ph img j "p_filesz")).length = ph img j "p_filesz") :
    segFileBytes img j = slice img (ph img j "p_offset") (ph img j "p_filesz") := by
  unfold segFileBytes segHasData
  by_cases hz : ph img j "p_filesz" = 0
  · have hnil : slice img (ph img j "p_offset") (ph img j "p_filesz") = [] :=
      List.eq_nil_of_length_eq_zero (hl.trans hz)
    rw [hnil]
    simp
  · simp [hty, hz]

/-- **prefix_segment_notes_sound** (C17 for `note_segment_accessor`): on a prefix of a well-formed image that loads,
    for a (non-PT_NULL) segment `j` whose file bytes in the COMPLETE file are the gABI encoding of the notes `ns` (as
    in `segment_notes_reports_spec`, which says what the accessor reports on the complete file's load), the accessor
    reports either no note at all — `get_notes_num() = 0` and every `get_note(k)` refused (the segment's data is not in
    the prefix) — or exactly the complete file's notes: `get_notes_num() = |ns|` and `get_note(k)` = the `k`-th note
    for EVERY 32-bit `k`.  Never a partial or different list. -/
theorem prefix_segment_notes_sound (img : Bytes) (k : Nat) (o : Obj) (hP : PrefixLoadedS img k o) (j : Nat)
    (hj : j < eh img "e_phnum") (hty : ph img j "p_type" ≠ Spec.PT_NULL) (ns : List Spec.Note)
    (hf : ∀ n ∈ ns, n.Fits)
    (hbytes : segFileBytes img j = Spec.encodeNotes (encOf img) ns) (hsz : ph img j "p_filesz" ≤ 4294967293)
    (idx : BitVec 32) :
    ∃ o1 n out, inspect o (.segNoteNum j) = .ok (o1, .num n) ∧ inspect o (.segNote j idx) = .ok (o1, .note out) ∧
      PrefixLoadedS img k o1 ∧
      ((n = 0 ∧ out = none) ∨ (n = ns.length ∧ out = specNote ns idx.toNat)) := by
  obtain ⟨o1, g1, h1, hP1, _, _, hfs, hdata⟩ := prefix_segResident img k o hP j hj
  have henc : o1.enc = encOf img := hP1.base.base.enc
  rcases hdata with hd | ⟨hd, hl, _⟩
  · obtain ⟨p1, p2⟩ := note_nodata (encOf img) (segNoteSrc g1) (by simp only [segNoteSrc]; exact hd)
    refine ⟨o1, 0, none, ?_, ?_, hP1, Or.inl ⟨rfl, rfl⟩⟩
    · simp only [inspect, h1, henc, p1]; rfl
    · simp only [inspect, h1, henc, p1, p2 idx]; rfl
  · have hok : C13.SrcOk (segNoteSrc g1) := by
      intro a ha
      have ha' : g1.data = some a := ha
      rw [hd] at ha'
      cases ha'
      simp only [segNoteSrc, List.length_append, List.length_cons, List.length_nil]
      rw [hl, hfs]
      omega
    have hv : C13.NoteSrc.view (segNoteSrc g1) = Spec.encodeNotes (encOf img) ns := by
      rw [← hbytes, segFileBytes_of_type img j hty hl]
      simp only [C13.NoteSrc.view, segNoteSrc, hd, Option.getD_some, hfs]
      exact List.take_left' hl
    obtain ⟨pos, hp, hn, hg⟩ := note_source_reports (encOf img) (segNoteSrc g1) hok
      (by simp only [segNoteSrc]; rw [hfs]; exact hsz) ns hf hv
    refine ⟨o1, ns.length, specNote ns idx.toNat, ?_, ?_, hP1, Or.inr ⟨rfl, rfl⟩⟩
    · simp only [inspect, h1, henc, hp, hn]; rfl
    · simp only [inspect, h1, henc, hp, hg idx]; rfl

example (k : Nat) (kind : StreamKind) (isLazy : Bool) (rp : LoadRes)
    (hp : load {} { data := exImg.take k, kind := kind } isLazy = .ok rp) (hok : rp.ok = true) (idx : BitVec 32) :
    ∃ o1 n out, inspect rp.obj (.segNoteNum 0) = .ok (o1, .num n) ∧
      inspect rp.obj (.segNote 0 idx) = .ok (o1, .note out) ∧
      ((n = 0 ∧ out = none) ∨ (n = 2 ∧ out = specNote exNotes idx.toNat)) := by
  obtain ⟨o1, n, out, g1, g2, _, g3⟩ := prefix_segment_notes_sound exImg k rp.obj
    (prefixLoadedS_of_load exImg exImg_wf {} rfl k kind isLazy rp hp hok) 0 (by decide +kernel) (by decide +kernel)
    exNotes (by decide) (by decide +kernel) (by decide +kernel) idx
  exact ⟨o1, n, out, g1, g2, g3⟩

end ElfioVerif.ComposeTables
