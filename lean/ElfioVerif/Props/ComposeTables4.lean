/-
Truncated files (C17), the remaining accessor read-outs on an object loaded from a prefix (continues §5 of
Props/ComposeTables2.lean and §2 of Props/ComposeTables3.lean; same style).

  §1  PrefixLoadedS, prefixLoadedS_of_load, prefix_segResident, prefix_segment_notes_sound:
      the PT_NOTE *segment* note accessor (`note_segment_accessor`) on a prefix that loads
  §2  symTabFor_prefix, prefix_byvalue_sound: `get_symbol(value, …)`
  §3  symTabFor_prefix_ok, prefix_byname_sound_partial: `get_symbol(name, …)` (total; spec-exact when the symbol and
      string data are in the prefix; the two null-data cases are NOT characterised)
  §4  prefix_verneed_sound, prefix_verdef_sound: version requirement / definition chains
  §5  prefix_segment_notes_sound_range: §1 for any segment type, reference = the complete file's bytes of the file range
-/
import ElfioVerif.Props.ComposeTables3

set_option autoImplicit false
namespace ElfioVerif.ComposeTables
open Gen C02 Inspect LoadedTables

/-! ### 1. the PT_NOTE segment accessor on a truncated file

State: `PrefixLoadedS img k o` = `PrefixLoadedC img k o` plus the segment side: one segment per program header of the
COMPLETE image, each showing the complete image's type, file offset and file size (`C17.prefix_sound_segment`: the
segments of a prefix that loads are those of the complete load; `LoadedTables.segs_of_load`: those show the
specification's values).  `prefix_segResident`: `segments[j]->get_data()` keeps the state and hands out a segment
WITHOUT data, or one whose data is exactly the complete image's bytes of the segment's file range (all of them inside
the prefix). -/

/-- a loaded prefix whose segments carry the complete image's program header values -/
structure PrefixLoadedS (img : Bytes) (k : Nat) (o : Obj) : Prop where
  base : PrefixLoadedC img k o
  nsegs : o.segs.length = eh img "e_phnum"
  segs : ∀ j (hj : j < o.segs.length), o.segs[j].stype.toNat = ph img j "p_type" ∧
    o.segs[j].offset.toNat = ph img j "p_offset" ∧ o.segs[j].filesz.toNat = ph img j "p_filesz"

/-- **a prefix of a well-formed image that loads** is `PrefixLoadedS` -/
theorem prefixLoadedS_of_load (img : Bytes) (hwf : WellFormedImage img) (o : Obj) (htr : o.trans = []) (k : Nat)
    (kind : StreamKind) (isLazy : Bool) (rp : LoadRes)
    (hp : load o { data := img.take k, kind := kind } isLazy = .ok rp) (hok : rp.ok = true) :
    PrefixLoadedS img k rp.obj := by
  obtain ⟨rf, hf, hspec, hL⟩ := of_load img o kind isLazy htr hwf
  have hS := segs_of_load img o kind isLazy htr rf hf hspec
  have hlen : img.length < 9223372036854775808 := hwf.2.2.2.2.1
  obtain ⟨_, _, hl, hseg⟩ := C17.prefix_sound_segment o htr img k kind isLazy hlen rp rf hp hf hok
  refine ⟨prefixLoadedC_of_load img hwf o htr k kind isLazy rp hp hok, hl.trans hS.nsegs, ?_⟩
  intro j hj
  obtain ⟨gf, hgf, hr⟩ := hseg j _ (List.getElem?_eq_getElem hj)
  have hj' : j < rf.obj.segs.length := by rw [← hl]; exact hj
  have hgf' : gf = rf.obj.segs[j] := by
    rw [List.getElem?_eq_getElem hj'] at hgf; exact (Option.some.inj hgf).symm
  obtain ⟨⟨_, f1, _, f3, _, _, f6, _⟩, _⟩ := hS.segs j hj'
  rw [← hgf'] at f1 f3 f6
  exact ⟨by rw [hr.fields.stype]; exact f1, by rw [hr.fields.offset]; exact f3, by rw [hr.fields.filesz]; exact f6⟩

/-- a section data request keeps the segment side -/
theorem PrefixLoadedS.of_segs_eq {img : Bytes} {k : Nat} {o o1 : Obj} (h : PrefixLoadedS img k o)
    (hC : PrefixLoadedC img k o1) (e : o1.segs = o.segs) : PrefixLoadedS img k o1 := by
  refine ⟨hC, by rw [e]; exact h.nsegs, ?_⟩
  intro j hj
  have hj' : j < o.segs.length := by rw [← e]; exact hj
  have : o1.segs[j] = o.segs[j] := by simp only [e]
  rw [this]; exact h.segs j hj'

/-- `segments[j]->get_data()` on a loaded prefix: the state is kept; the segment handed to the accessor shows the
    complete image's type and file size, and its data is absent or EXACTLY the complete image's bytes
    `[p_offset, p_offset + p_filesz)` (plus the terminator ELFIO appends), a range that lies inside the prefix -/
theorem prefix_segResident (img : Bytes) (k : Nat) (o : Obj) (hP : PrefixLoadedS img k o) (j : Nat)
    (hj : j < eh img "e_phnum") :
    ∃ o1 g1, segResident o j = some (o1, g1) ∧ PrefixLoadedS img k o1 ∧ o1.secs = o.secs ∧
      g1.stype.toNat = ph img j "p_type" ∧ g1.filesz.toNat = ph img j "p_filesz" ∧
      (g1.data = none ∨
        (g1.data = some (slice img (ph img j "p_offset") (ph img j "p_filesz") ++ [0]) ∧
         (slice img (ph img j "p_offset") (ph img j "p_filesz")).length = ph img j "p_filesz" ∧
         (ph img j "p_filesz" ≠ 0 → ph img j "p_offset" + ph img j "p_filesz" ≤ k))) := by
  have hj' : j < o.segs.length := by rw [hP.nsegs]; exact hj
  have hB := hP.base.base
  have hs0 : StOk o.trans (img.take k) o.stream.kind { st := o.stream } :=
    ⟨hB.inv.sdata, rfl, fun a ha => by cases ha⟩
  have hg0 := hB.inv.segs o.segs[j] (List.getElem_mem hj')
  obtain ⟨h1, h2, h3⟩ := segGetData_spec o.cls o.trans _ o.segs[j] (img.take k) _ hs0 hg0
  obtain ⟨f1, f3, f6⟩ := hP.segs j hj'
  have e1 : (segGetData o.cls o.trans { st := o.stream } o.segs[j]).2.stype.toNat = ph img j "p_type" := by
    rw [h3.stype]; exact f1
  have e3 : (segGetData o.cls o.trans { st := o.stream } o.segs[j]).2.offset.toNat = ph img j "p_offset" := by
    rw [h3.offset]; exact f3
  have e6 : (segGetData o.cls o.trans { st := o.stream } o.segs[j]).2.filesz.toNat = ph img j "p_filesz" := by
    rw [h3.filesz]; exact f6
  unfold segResident
  rw [List.getElem?_eq_getElem hj']
  refine ⟨_, _, rfl,
    ⟨⟨⟨hB.cls, hB.enc, hB.trans, hB.len, ⟨h1.data, hB.inv.secs, ?_⟩, hB.nsecs, hB.secs⟩, hP.base.secCls⟩,
      by simp [hP.nsegs], ?_⟩, rfl, e1, e6, ?_⟩
  · intro g' hg'
    rcases List.mem_or_eq_of_mem_set hg' with hg' | rfl
    · exact hB.inv.segs g' hg'
    · exact h2
  · intro j' hj2
    simp only [List.length_set] at hj2
    by_cases hjj : j = j'
    · subst hjj
      simp only [List.getElem_set_self]
      exact ⟨e1, e3, e6⟩
    · simp only [List.getElem_set_ne hjj]
      exact hP.segs j' hj2
  · cases hd : (segGetData o.cls o.trans { st := o.stream } o.segs[j]).2.data with
    | none => exact Or.inl rfl
    | some d =>
      right
      have h2' : LoadedSeg [] (segGetData o.cls o.trans { st := o.stream } o.segs[j]).2 (img.take k) := by
        rw [← hB.trans]; exact h2
      obtain ⟨x1, x2, x3⟩ := C17.LoadedSeg.prefix_exact h2' hd
      rw [e3, e6] at x1 x2 x3
      refine ⟨by rw [x1], x2, ?_⟩
      intro hne
      apply x3
      intro hz
      rw [hz] at e6
      exact hne e6.symm

/-- the file bytes of a non-PT_NULL segment are the slice of its file range -/
theorem segFileBytes_of_type (img : Bytes) (j : Nat) (hty : ph img j "p_type" ≠ Spec.PT_NULL)
    (hl : (slice img (ph img j "p_offset") (ph img j "p_filesz")).length = ph img j "p_filesz") :
    segFileBytes img j = slice img (ph img j "p_offset") (ph img j "p_filesz") := by
  unfold segFileBytes segHasData
  by_cases hz : ph img j "p_filesz" = 0
  · have hnil : slice img (ph img j "p_offset") (ph img j "p_filesz") = [] :=
      List.eq_nil_of_length_eq_zero (hl.trans hz)
    rw [hnil]
    simp
  · simp [hty, hz]

/-- **prefix_segment_notes_sound** (C17 for `note_segment_accessor`): on a prefix of a well-formed image that loads,
    for a (non-PT_NULL) segment `j` whose file bytes in the COMPLETE file are the gABI encoding of the notes `ns` (as
    in `segment_notes_reports_spec`, which says what the accessor reports on the complete file's load), the accessor
    reports either no note at all — `get_notes_num() = 0` and every `get_note(k)` refused (the segment's data is not in
    the prefix) — or exactly the complete file's notes: `get_notes_num() = |ns|` and `get_note(k)` = the `k`-th note
    for EVERY 32-bit `k`.  Never a partial or different list. -/
theorem prefix_segment_notes_sound (img : Bytes) (k : Nat) (o : Obj) (hP : PrefixLoadedS img k o) (j : Nat)
    (hj : j < eh img "e_phnum") (hty : ph img j "p_type" ≠ Spec.PT_NULL) (ns : List Spec.Note)
    (hf : ∀ n ∈ ns, n.Fits)
    (hbytes : segFileBytes img j = Spec.encodeNotes (encOf img) ns) (hsz : ph img j "p_filesz" ≤ 4294967293)
    (idx : BitVec 32) :
    ∃ o1 n out, inspect o (.segNoteNum j) = .ok (o1, .num n) ∧ inspect o (.segNote j idx) = .ok (o1, .note out) ∧
      PrefixLoadedS img k o1 ∧
      ((n = 0 ∧ out = none) ∨ (n = ns.length ∧ out = specNote ns idx.toNat)) := by
  obtain ⟨o1, g1, h1, hP1, _, _, hfs, hdata⟩ := prefix_segResident img k o hP j hj
  have henc : o1.enc = encOf img := hP1.base.base.enc
  rcases hdata with hd | ⟨hd, hl, _⟩
  · obtain ⟨p1, p2⟩ := note_nodata (encOf img) (segNoteSrc g1) (by simp only [segNoteSrc]; exact hd)
    refine ⟨o1, 0, none, ?_, ?_, hP1, Or.inl ⟨rfl, rfl⟩⟩
    · simp only [inspect, h1, henc, p1]; rfl
    · simp only [inspect, h1, henc, p1, p2 idx]; rfl
  · have hok : C13.SrcOk (segNoteSrc g1) := by
      intro a ha
      have ha' : g1.data = some a := ha
      rw [hd] at ha'
      cases ha'
      simp only [segNoteSrc, List.length_append, List.length_cons, List.length_nil]
      rw [hl, hfs]
      omega
    have hv : C13.NoteSrc.view (segNoteSrc g1) = Spec.encodeNotes (encOf img) ns := by
      rw [← hbytes, segFileBytes_of_type img j hty hl]
      simp only [C13.NoteSrc.view, segNoteSrc, hd, Option.getD_some, hfs]
      exact List.take_left' hl
    obtain ⟨pos, hp, hn, hg⟩ := note_source_reports (encOf img) (segNoteSrc g1) hok
      (by simp only [segNoteSrc]; rw [hfs]; exact hsz) ns hf hv
    refine ⟨o1, ns.length, specNote ns idx.toNat, ?_, ?_, hP1, Or.inr ⟨rfl, rfl⟩⟩
    · simp only [inspect, h1, henc, hp, hn]; rfl
    · simp only [inspect, h1, henc, hp, hg idx]; rfl

example (k : Nat) (kind : StreamKind) (isLazy : Bool) (rp : LoadRes)
    (hp : load {} { data := exImg.take k, kind := kind } isLazy = .ok rp) (hok : rp.ok = true) (idx : BitVec 32) :
    ∃ o1 n out, inspect rp.obj (.segNoteNum 0) = .ok (o1, .num n) ∧
      inspect rp.obj (.segNote 0 idx) = .ok (o1, .note out) ∧
      ((n = 0 ∧ out = none) ∨ (n = 2 ∧ out = specNote exNotes idx.toNat)) := by
  obtain ⟨o1, n, out, g1, g2, _, g3⟩ := prefix_segment_notes_sound exImg k rp.obj
    (prefixLoadedS_of_load exImg exImg_wf {} rfl k kind isLazy rp hp hok) 0 (by decide +kernel) (by decide +kernel)
    exNotes (by decide) (by decide +kernel) (by decide +kernel) idx
  exact ⟨o1, n, out, g1, g2, g3⟩

/-! ### 2. symbol lookup by value on a truncated file -/

/-- `sections[j]->get_data()` for an arbitrary index on a loaded prefix -/
theorem settleOpt_prefix (img : Bytes) (k : Nat) (o : Obj) (hP : PrefixLoadedC img k o) (j : Nat) :
    PrefixLoadedC img k (TQ.settleOpt o j).1 ∧
    (j < eh img "e_shnum" → ∃ s, (TQ.settleOpt o j).2 = some s ∧ PReady img j s ∧ LoadedSec [] s (img.take k)) ∧
    (eh img "e_shnum" ≤ j → (TQ.settleOpt o j).2 = none) := by
  unfold TQ.settleOpt
  by_cases hj : j < eh img "e_shnum"
  · obtain ⟨o1, b1, h1, hP1, hR, hLS, _, _⟩ := prefix_secResident_c img k o hP j hj
    have hs : TQ.settle o j = some (o1, b1) := h1
    rw [hs]
    exact ⟨hP1, fun _ => ⟨b1, rfl, hR, hLS⟩, fun h => absurd hj (by omega)⟩
  · have hs : TQ.settle o j = none := prefix_secResident_none img k o hP j (Nat.le_of_not_lt hj)
    rw [hs]
    exact ⟨hP, fun h => absurd h hj, fun _ => rfl⟩

/-- `symbol_section_accessor(elf, sections[i])` on a loaded prefix: the state is kept; the symbol section is without
    data or as good as the complete file's; when it has data, the linked string table is absent exactly when the
    complete file has none, and otherwise is without data or reads as the complete file's linked table -/
theorem symTabFor_prefix (img : Bytes) (k : Nat) (o : Obj) (hP : PrefixLoadedC img k o) (i : Nat)
    (hi : i < eh img "e_shnum") :
    ∃ o2 t, TQ.symTabFor o i = some (o2, t) ∧ PrefixLoadedC img k o2 ∧ t.cfg = ⟨clsOf img, encOf img⟩ ∧
      PReady img i t.sym ∧ LoadedSec [] t.sym (img.take k) ∧
      (t.sym.data ≠ none → (t.str = none → linkedBytes img i = []) ∧
        ∀ s, t.str = some s → secData s = none ∨ ReadsAs s (linkedBytes img i)) := by
  obtain ⟨o1, b1, h1, hP1, hR, hLS, _, _⟩ := prefix_secResident_c img k o hP i hi
  have hs : TQ.settle o i = some (o1, b1) := h1
  obtain ⟨hP2, r2a, r2b⟩ := settleOpt_prefix img k o1 hP1 (tq_sym_strtab_index b1.link).toNat
  unfold TQ.symTabFor
  simp only [hs]
  refine ⟨_, _, rfl, ?_, ?_, hR, hLS, ?_⟩
  · split
    · exact (settleOpt_prefix img k _ hP2 _).1
    · exact hP2
  · show (⟨o.cls, o.enc⟩ : Cfg) = _
    rw [hP.base.cls, hP.base.enc]
  · intro hdn
    have hdn' : b1.data ≠ none := hdn
    have hF : Fields img i b1 := by
      rcases hR.data with hd | ⟨hF, _⟩
      · exact absurd hd hdn'
      · exact hF
    have hidx : (tq_sym_strtab_index b1.link).toNat = linkIdx img i := by
      unfold tq_sym_strtab_index linkIdx
      rw [← hF.link]
      simp only [BitVec.toNat_setWidth, Nat.reducePow]
    rw [hidx] at r2a r2b
    show ((TQ.settleOpt o1 (tq_sym_strtab_index b1.link).toNat).2 = none → _) ∧
      ∀ s, (TQ.settleOpt o1 (tq_sym_strtab_index b1.link).toNat).2 = some s → _
    rw [hidx]
    by_cases hl : linkIdx img i < eh img "e_shnum"
    · obtain ⟨s, e, hR2, _⟩ := r2a hl
      refine ⟨fun h => (by rw [e] at h; cases h), ?_⟩
      intro s' hs'
      rw [e] at hs'; cases hs'
      rcases hR2.data with hd | ⟨_, _, hv, hn, _⟩
      · left; unfold secData; rw [getData_of_settled hR2.settled, hd]
      · cases hd : s.data with
        | none => left; unfold secData; rw [getData_of_settled hR2.settled, hd]
        | some d =>
          right
          have := readsAs_pready hR2.settled hv hn d hd
          simpa only [linkedBytes, hl, if_true] using this
    · refine ⟨fun _ => by simp only [linkedBytes, hl, if_false], ?_⟩
      intro s hs'
      rw [r2b (Nat.le_of_not_lt hl)] at hs'; cases hs'

/-- the by-value search on a symbol section without data finds nothing -/
theorem getByValue_nodata (t : SymTab) (h : secData t.sym = none) (v : BitVec 64) (str : Bytes) (a : Attrs) :
    t.getByValue v str a = .ok (false, str, a) := by
  obtain ⟨n, hn, _⟩ := Inspect.sym_num_total t
  have hgo : t.searchGo v n.toNat 0 = .ok none := by
    cases n.toNat with
    | zero => rfl
    | succ m =>
      unfold SymTab.searchGo
      rw [SymTie.symPtrValue_unfold]
      simp only [h, SymTab.guardNum, Option.isNone_none, if_true, bind, Except.bind, pure, Except.pure,
        sym32_ptr_guard, sym64_ptr_guard, Bool.not_true, Bool.false_and, ite_self, Bool.false_eq_true, if_false]
  unfold SymTab.getByValue
  rw [hn]
  simp only [bind, Except.bind]
  rw [hgo]
  rfl

theorem searchGo_str_none (t : SymTab) (v : BitVec 64) :
    ∀ (n : Nat) (i : BitVec 64), ({ t with str := none } : SymTab).searchGo v n i = t.searchGo v n i := by
  intro n
  induction n with
  | zero => intro i; rfl
  | succ m ih =>
    intro i
    have e : ({ t with str := none } : SymTab).symPtrValue i = t.symPtrValue i := rfl
    simp only [SymTab.searchGo, e, ih]

/-- a linked string section without data answers the by-value search like no string section at all -/
theorem getByValue_str_nodata (t : SymTab) (s : SecBuf) (ht : t.str = some s) (h : secData s = none)
    (v : BitVec 64) (str : Bytes) (a : Attrs) :
    t.getByValue v str a = ({ t with str := none } : SymTab).getByValue v str a := by
  have e : ({ t with str := none } : SymTab).symbolsNum = t.symbolsNum := rfl
  unfold SymTab.getByValue
  rw [e]
  simp only [searchGo_str_none, getSymbol_str_nodata t s ht h]

/-- **prefix_byvalue_sound** (C17 for `symbol_section_accessor::get_symbol(value, …)`): on a prefix of a well-formed
    image that loads, for a symbol table `i` with the class's entry size, the by-value lookup is for EVERY 64-bit
    `value` refused (false, out-parameters untouched), or it answers true/false exactly as on the complete file
    (`specByValue img i v` = what `byvalue_reports_spec` says the complete file's load reports = the gABI's first
    record with that `st_value`), with the complete file's attributes and with the complete file's name or — when the
    linked string table's data is not in the prefix — the empty name. -/
theorem prefix_byvalue_sound (img : Bytes) (k : Nat) (o : Obj) (hP : PrefixLoadedC img k o) (i : Nat)
    (hi : i < eh img "e_shnum") (hent : sh img i "sh_entsize" = Spec.symSize (clsOf img)) (v : BitVec 64) :
    ∃ o2 out, TQ.runQuery o (.symByValue i v) = .ok (o2, .byValue out) ∧ PrefixLoadedC img k o2 ∧
      (out = (false, [], {}) ∨
       (out.1 = (specByValue img i v).1 ∧ out.2.2 = (specByValue img i v).2.2 ∧
         (out.2.1 = [] ∨ out.2.1 = (specByValue img i v).2.1))) := by
  obtain ⟨o2, t, h1, hP2, hcfg, hR, hLS, hstr⟩ := symTabFor_prefix img k o hP i hi
  have hout : ∀ r : Bool × Bytes × Attrs, t.getByValue v [] {} = .ok r →
      TQ.runQuery o (.symByValue i v) = .ok (o2, .byValue r) := by
    intro r hr
    simp only [TQ.runQuery, h1, TQ.getByValue, hr, TQ.liftQ]; rfl
  cases hd : t.sym.data with
  | none =>
    have hg := getByValue_nodata t (by unfold secData; rw [getData_of_settled hR.settled]; exact hd) v [] {}
    exact ⟨o2, _, hout _ hg, hP2, Or.inl rfl⟩
  | some d =>
    have hdn : t.sym.data ≠ none := by rw [hd]; exact fun h => by cases h
    obtain ⟨hstr0, hstr1⟩ := hstr hdn
    rcases hR.data with hd' | ⟨hF, hocc, hv, hn, hss⟩
    · exact absurd hd' hdn
    · have hRA := readsAs_pready hR.settled hv hn d hd
      have hent' : t.sym.entSize = BitVec.ofNat 64 (SymTab.symSizeOf t.cfg.cls) := by
        rw [hcfg]
        exact ofNat_toNat64 _ _ (by rw [hF.entSize, hent, SymTab.symSizeOf_eq])
      have hcases : ∃ strB, (strB = linkedBytes img i ∨ strB = []) ∧
          ∃ t' : SymTab, t'.cfg = ⟨clsOf img, encOf img⟩ ∧ SymTab.Wf t' (secFileBytes img i) strB ∧
            t.getByValue v [] {} = t'.getByValue v [] {} := by
        cases hs : t.str with
        | none =>
          exact ⟨linkedBytes img i, Or.inl rfl, t, hcfg, ⟨hent', hss, hRA, by simp only [hs, hstr0 hs]⟩, rfl⟩
        | some s =>
          rcases hstr1 s hs with hsn | hsr
          · exact ⟨[], Or.inr rfl, { t with str := none }, hcfg, ⟨hent', hss, hRA, rfl⟩,
              getByValue_str_nodata t s hs hsn v [] {}⟩
          · exact ⟨linkedBytes img i, Or.inl rfl, t, hcfg, ⟨hent', hss, hRA, by simp only [hs]; exact hsr⟩, rfl⟩
      obtain ⟨strB, hB, t', hcfg', hW, heq⟩ := hcases
      have hg := C09.lookup_value hW v [] {}
      rw [hcfg', ← heq] at hg
      refine ⟨o2, _, hout _ hg, hP2, Or.inr ?_⟩
      unfold specByValue cfgOf
      cases Spec.lookupValue (SymTab.valuesOf ⟨clsOf img, encOf img⟩ (secFileBytes img i)) v.toNat with
      | none => exact ⟨rfl, rfl, Or.inl rfl⟩
      | some j =>
        refine ⟨rfl, rfl, ?_⟩
        rcases hB with rfl | rfl
        · exact Or.inr rfl
        · left
          simp [SymTab.nameAt, Spec.symStrAt]

example (k : Nat) (kind : StreamKind) (isLazy : Bool) (rp : LoadRes)
    (hp : load {} { data := exImg2.take k, kind := kind } isLazy = .ok rp) (hok : rp.ok = true) (v : BitVec 64) :
    ∃ o2 out, TQ.runQuery rp.obj (.symByValue 2 v) = .ok (o2, .byValue out) ∧
      (out = (false, [], {}) ∨
       (out.1 = (specByValue exImg2 2 v).1 ∧ out.2.2 = (specByValue exImg2 2 v).2.2 ∧
         (out.2.1 = [] ∨ out.2.1 = (specByValue exImg2 2 v).2.1))) := by
  obtain ⟨o2, out, h, _, h'⟩ := prefix_byvalue_sound exImg2 k rp.obj
    (prefixLoadedC_of_load exImg2 exImg2_wf {} rfl k kind isLazy rp hp hok) 2 (by decide +kernel) (by decide +kernel) v
  exact ⟨o2, out, h, h'⟩

/-! ### 3. symbol lookup by name on a truncated file -/

theorem settleOpt_prefix_some (img : Bytes) (k : Nat) (o : Obj) (hP : PrefixLoadedC img k o) (j : Nat) (s : SecBuf)
    (h : (TQ.settleOpt o j).2 = some s) : PReady img j s ∧ LoadedSec [] s (img.take k) := by
  obtain ⟨_, ha, hb⟩ := settleOpt_prefix img k o hP j
  by_cases hj : j < eh img "e_shnum"
  · obtain ⟨s', e, hR, hLS⟩ := ha hj
    rw [e] at h; cases h; exact ⟨hR, hLS⟩
  · rw [hb (Nat.le_of_not_lt hj)] at h; cases h

/-- what `get_data()` hands out on a loaded prefix is a section C18's totality theorems accept -/
theorem sec_of_pready {img : Bytes} {k i : Nat} {b : SecBuf} (hR : PReady img i b)
    (hLS : LoadedSec [] b (img.take k)) : C18.Sec b :=
  ⟨hR.settled, fun d hd => by have := hLS.len d hd; omega⟩

theorem small_of_loadedSec {img : Bytes} {k : Nat} {b : SecBuf} (hLS : LoadedSec [] b (img.take k))
    (hlen : img.length < 4294967296) : C18.Small b := by
  intro d hd
  obtain ⟨_, e2, _⟩ := C17.LoadedSec.prefix_exact hLS hd
  rw [slice_length] at e2
  omega

/-- the accessor `symTabFor` builds on a loaded prefix touches only sections C18's totality theorems accept -/
theorem symTabFor_prefix_ok (img : Bytes) (k : Nat) (o : Obj) (hP : PrefixLoadedC img k o) (i : Nat)
    (hi : i < eh img "e_shnum") :
    ∃ o2 t, TQ.symTabFor o i = some (o2, t) ∧ C18.TabOk t ∧
      (img.length < 4294967296 → ∀ h, t.hash = some h → C18.Small h) := by
  obtain ⟨o1, b1, h1, hP1, hR, hLS, _, _⟩ := prefix_secResident_c img k o hP i hi
  have hs : TQ.settle o i = some (o1, b1) := h1
  obtain ⟨hP2, _, _⟩ := settleOpt_prefix img k o1 hP1 (tq_sym_strtab_index b1.link).toNat
  unfold TQ.symTabFor
  simp only [hs]
  refine ⟨_, _, rfl, ⟨sec_of_pready hR hLS, ?_, ?_⟩, ?_⟩
  · intro b hb
    obtain ⟨hRb, hLb⟩ := settleOpt_prefix_some img k o1 hP1 _ b hb
    exact sec_of_pready hRb hLb
  · intro b hb
    simp only [] at hb
    split at hb
    · obtain ⟨hRb, hLb⟩ := settleOpt_prefix_some img k _ hP2 _ b hb
      exact sec_of_pready hRb hLb
    · cases hb
  · intro hlen b hb
    simp only [] at hb
    split at hb
    · obtain ⟨_, hLb⟩ := settleOpt_prefix_some img k _ hP2 _ b hb
      exact small_of_loadedSec hLb hlen
    · cases hb

/-- **prefix_byname_sound_partial** (C17 for `symbol_section_accessor::get_symbol(name, …)`, the code after
    fixes/11–13): on a prefix of a well-formed image (shorter than 4 GiB) that loads, for a symbol table `i` with the
    class's entry size whose names in the COMPLETE file are terminated strings (`ValidNames`, as in
    `byname_reports_spec`), the by-name lookup RETURNS for every name — whatever hash section the prefix shows — and,
    unless the accessor's symbol section or its linked string section has a null data pointer (their bytes are not in
    the prefix), it answers exactly as the specification demands of the COMPLETE file (`ByNameSpec img i`, what
    `byname_reports_spec` says the complete file's load reports).
    PARTIAL: in the two null-data cases only the return is proved here (not that the answer is `false` / the
    empty-name answer); that needs the hash walks' congruence in `getSymbol` and stays correspondence-checked. -/
theorem prefix_byname_sound_partial (img : Bytes) (k : Nat) (o : Obj) (hP : PrefixLoadedC img k o) (i : Nat)
    (hi : i < eh img "e_shnum") (hent : sh img i "sh_entsize" = Spec.symSize (clsOf img))
    (hv : SymTab.ValidNames (cfgOf img) (secFileBytes img i) (linkedBytes img i))
    (hlen : img.length < 4294967296) (name : Bytes) :
    ∃ o2 t r a', TQ.symTabFor o i = some (o2, t) ∧
      TQ.runQuery o (.symByName i name) = .ok (o2, .byName (r, a')) ∧ PrefixLoadedC img k o2 ∧
      (t.sym.data = none ∨ (∃ s, t.str = some s ∧ secData s = none) ∨ ByNameSpec img i name r a') := by
  obtain ⟨o2, t, h1, hP2, hcfg, hR, hLS, hstr⟩ := symTabFor_prefix img k o hP i hi
  obtain ⟨o2', t', h1', hTab, hSmall⟩ := symTabFor_prefix_ok img k o hP i hi
  rw [h1] at h1'
  cases h1'
  obtain ⟨⟨r, a'⟩, e⟩ := C18.sym_by_name_total t hTab (hSmall hlen) name {}
  refine ⟨o2, t, r, a', h1, by simp only [TQ.runQuery, h1, e, TQ.liftQ]; rfl, hP2, ?_⟩
  cases hd : t.sym.data with
  | none => exact Or.inl rfl
  | some d =>
    right
    have hdn : t.sym.data ≠ none := by rw [hd]; exact fun h => by cases h
    obtain ⟨hstr0, hstr1⟩ := hstr hdn
    rcases hR.data with hd' | ⟨hF, hocc, hvw, hn, hss⟩
    · exact absurd hd' hdn
    · have hRA := readsAs_pready hR.settled hvw hn d hd
      have hent' : t.sym.entSize = BitVec.ofNat 64 (SymTab.symSizeOf t.cfg.cls) := by
        rw [hcfg]
        exact ofNat_toNat64 _ _ (by rw [hF.entSize, hent, SymTab.symSizeOf_eq])
      have hv' : SymTab.ValidNames t.cfg (secFileBytes img i) (linkedBytes img i) := by rw [hcfg]; exact hv
      cases hs : t.str with
      | none =>
        right
        have hW : SymTab.Wf t (secFileBytes img i) (linkedBytes img i) :=
          ⟨hent', hss, hRA, by simp only [hs, hstr0 hs]⟩
        have := TQSound.lookup_name hW hv' name {} r a' e
        rw [hcfg] at this
        exact this
      | some s =>
        rcases hstr1 s hs with hsn | hsr
        · exact Or.inl ⟨s, rfl, hsn⟩
        · right
          have hW : SymTab.Wf t (secFileBytes img i) (linkedBytes img i) :=
            ⟨hent', hss, hRA, by simp only [hs]; exact hsr⟩
          have := TQSound.lookup_name hW hv' name {} r a' e
          rw [hcfg] at this
          exact this

example (k : Nat) (kind : StreamKind) (isLazy : Bool) (rp : LoadRes)
    (hp : load {} { data := exImg2.take k, kind := kind } isLazy = .ok rp) (hok : rp.ok = true) (name : Bytes) :
    ∃ o2 t r a', TQ.symTabFor rp.obj 2 = some (o2, t) ∧
      TQ.runQuery rp.obj (.symByName 2 name) = .ok (o2, .byName (r, a')) ∧
      (t.sym.data = none ∨ (∃ s, t.str = some s ∧ secData s = none) ∨ ByNameSpec exImg2 2 name r a') := by
  obtain ⟨o2, t, r, a', h0, h, _, h'⟩ := prefix_byname_sound_partial exImg2 k rp.obj
    (prefixLoadedC_of_load exImg2 exImg2_wf {} rfl k kind isLazy rp hp hok) 2 (by decide +kernel) (by decide +kernel)
    (by decide +kernel) (by decide +kernel) name
  exact ⟨o2, t, r, a', h0, h, h'⟩

/-! ### 4. version requirements and definitions on a truncated file -/

theorem tabStrAt_nil (idx : Nat) : Spec.tabStrAt [] idx = none := by
  simp [Spec.tabStrAt]

theorem needGet_nodata (e : Enc) (b : SecBuf) (str : Option SecBuf) (num no : BitVec 32)
    (h : (secData b).isNone = true) : TQ.needGet e b str num no = .ok none := by
  unfold TQ.needGet
  by_cases hg : vr_guard true no num = true
  · simp only [hg, if_true]; rfl
  · simp only [hg, Bool.false_eq_true, if_false, h, tq_vr_hdr_bad, Bool.true_or, if_true]
    try rfl

/-- a linked string section without data answers like no string section at all -/
theorem needGet_str_nodata (e : Enc) (b s : SecBuf) (num no : BitVec 32) (h : s.getData.data = none) :
    TQ.needGet e b (some s) num no = TQ.needGet e b none num no := by
  have hk : ∀ idx, strLookup (some s) idx = strLookup none idx := by
    intro idx; simp only [strLookup, h]
  unfold TQ.needGet
  simp only [hk]

theorem needChainWf_nil (e : Enc) (bs : Bytes) (k : Nat) : needChainWf e bs [] k = false := by
  unfold needChainWf
  split <;> simp [tabStrAt_nil]

/-- **prefix_verneed_sound** (C17 for `versym_r_section_accessor::get_entry`, the code after fixes/19,
    `TQ.runQuery … (.needGet i num no)`): on a prefix of a well-formed image that loads, for EVERY section index `i`
    of the file, EVERY cached count `num` and EVERY index `no`, the accessor RETURNS, and what it returns is either a
    refusal (false: the section's or its linked string table's bytes are not in the prefix, or the complete file's
    answer is a refusal too) or exactly `specNeed img i num no` — what `verneed_tq_reports_spec` says the COMPLETE
    file's load reports (the GNU-ABI reference reader on the complete file's bytes).  Never a different record. -/
theorem prefix_verneed_sound (img : Bytes) (k : Nat) (o : Obj) (hP : PrefixLoadedC img k o) (i : Nat)
    (hi : i < eh img "e_shnum") (num no : BitVec 32) :
    ∃ o2 out, TQ.runQuery o (.needGet i num no) = .ok (o2, .need out) ∧ PrefixLoadedC img k o2 ∧
      (out = none ∨ out = specNeed img i num no) := by
  obtain ⟨o1, b1, h1, hP1, hR, hLS, _, _⟩ := prefix_secResident_c img k o hP i hi
  have hs : TQ.settle o i = some (o1, b1) := h1
  obtain ⟨hP2, r2a, r2b⟩ := settleOpt_prefix img k o1 hP1 b1.link.toNat
  have key : ∃ out, TQ.needGet (encOf img) b1 (TQ.settleOpt o1 b1.link.toNat).2 num no = .ok out ∧
      (out = none ∨ out = specNeed img i num no) := by
    by_cases hno : no.toNat < num.toNat
    rotate_left
    · refine ⟨none, ?_, Or.inl rfl⟩
      have hg : vr_guard true no num = true := by
        simp only [vr_guard, Bool.not_true, Bool.false_or, BitVec.ule, decide_eq_true_eq]; omega
      simp only [TQ.needGet, hg, if_true]; rfl
    cases hd : b1.data with
    | none =>
      exact ⟨none, needGet_nodata _ _ _ _ _ (by rw [pready_secData hR, hd]; rfl), Or.inl rfl⟩
    | some d =>
      obtain ⟨hF, hocc, hinv, hcont, _, _, _⟩ := pready_inv hR hLS hd
      have hL : b1.link.toNat = sh img i "sh_link" := hF.link
      by_cases hl : sh img i "sh_link" < eh img "e_shnum"
      · obtain ⟨s, e, hRs, hLSs⟩ := r2a (by rw [hL]; exact hl)
        rw [e]
        cases hds : s.data with
        | none =>
          refine ⟨none, ?_, Or.inl rfl⟩
          rw [needGet_str_nodata _ _ s _ _ (by rw [getData_of_settled hRs.settled]; exact hds)]
          rw [tq_needGet_core (encOf img) b1 none hinv (fun s h => by cases h) num no hno]
          simp only [tabOf, needChainWf_nil, Bool.false_eq_true, if_false]
        | some ds =>
          obtain ⟨_, _, hinvs, hconts, _, _, _⟩ := pready_inv hRs hLSs hds
          rw [hL] at hconts
          refine ⟨_, tq_needGet_core (encOf img) b1 (some s) hinv (fun s' h => by cases h; exact hinvs) num no hno,
            Or.inr ?_⟩
          simp only [specNeed, hno, true_and, tabOf, hcont, hconts, verTab, hl, if_true]
      · rw [r2b (by rw [hL]; omega)]
        refine ⟨_, tq_needGet_core (encOf img) b1 none hinv (fun s h => by cases h) num no hno, Or.inr ?_⟩
        simp only [specNeed, hno, true_and, tabOf, hcont, verTab, hl, if_false]
  obtain ⟨out, hq, hout⟩ := key
  exact ⟨_, out, by simp only [TQ.runQuery, hs, hP.base.enc, hq, TQ.liftQ]; rfl, hP2, hout⟩

example (k : Nat) (kind : StreamKind) (isLazy : Bool) (rp : LoadRes)
    (hp : load {} { data := exImg2.take k, kind := kind } isLazy = .ok rp) (hok : rp.ok = true) (num no : BitVec 32) :
    ∃ o2 out, TQ.runQuery rp.obj (.needGet 6 num no) = .ok (o2, .need out) ∧
      (out = none ∨ out = specNeed exImg2 6 num no) := by
  obtain ⟨o2, out, h, _, h'⟩ := prefix_verneed_sound exImg2 k rp.obj
    (prefixLoadedC_of_load exImg2 exImg2_wf {} rfl k kind isLazy rp hp hok) 6 (by decide +kernel) num no
  exact ⟨o2, out, h, h'⟩

theorem defGet_nodata (e : Enc) (b : SecBuf) (str : Option SecBuf) (num no : BitVec 32)
    (h : (secData b).isNone = true) : TQ.defGet e b str num no = .ok none := by
  unfold TQ.defGet
  by_cases hg : vd_guard true no num = true
  · simp only [hg, if_true]; rfl
  · simp only [hg, Bool.false_eq_true, if_false, h, tq_vd_hdr_bad, Bool.true_or, if_true]
    try rfl

/-- a linked string section without data answers like no string section at all -/
theorem defGet_str_nodata (e : Enc) (b s : SecBuf) (num no : BitVec 32) (h : s.getData.data = none) :
    TQ.defGet e b (some s) num no = TQ.defGet e b none num no := by
  have hk : ∀ idx, strLookup (some s) idx = strLookup none idx := by
    intro idx; simp only [strLookup, h]
  unfold TQ.defGet
  simp only [hk]

theorem defChainWf_nil (e : Enc) (bs : Bytes) (k : Nat) : defChainWf e bs [] k = false := by
  unfold defChainWf
  split <;> simp [tabStrAt_nil]

/-- **prefix_verdef_sound** (C17 for `versym_d_section_accessor::get_entry`, the code after fixes/19,
    `TQ.runQuery … (.defGet i num no)`): on a prefix of a well-formed image that loads, for EVERY section index `i`
    of the file, EVERY cached count `num` and EVERY index `no`, the accessor RETURNS, and what it returns is either a
    refusal (false: the section's or its linked string table's bytes are not in the prefix, or the complete file's
    answer is a refusal too) or exactly `specDef img i num no` — what `verdef_tq_reports_spec` says the COMPLETE
    file's load reports (the GNU-ABI reference reader on the complete file's bytes).  Never a different record. -/
theorem prefix_verdef_sound (img : Bytes) (k : Nat) (o : Obj) (hP : PrefixLoadedC img k o) (i : Nat)
    (hi : i < eh img "e_shnum") (num no : BitVec 32) :
    ∃ o2 out, TQ.runQuery o (.defGet i num no) = .ok (o2, .vdef out) ∧ PrefixLoadedC img k o2 ∧
      (out = none ∨ out = specDef img i num no) := by
  obtain ⟨o1, b1, h1, hP1, hR, hLS, _, _⟩ := prefix_secResident_c img k o hP i hi
  have hs : TQ.settle o i = some (o1, b1) := h1
  obtain ⟨hP2, r2a, r2b⟩ := settleOpt_prefix img k o1 hP1 b1.link.toNat
  have key : ∃ out, TQ.defGet (encOf img) b1 (TQ.settleOpt o1 b1.link.toNat).2 num no = .ok out ∧
      (out = none ∨ out = specDef img i num no) := by
    by_cases hno : no.toNat < num.toNat
    rotate_left
    · refine ⟨none, ?_, Or.inl rfl⟩
      have hg : vd_guard true no num = true := by
        simp only [vd_guard, Bool.not_true, Bool.false_or, BitVec.ule, decide_eq_true_eq]; omega
      simp only [TQ.defGet, hg, if_true]; rfl
    cases hd : b1.data with
    | none =>
      exact ⟨none, defGet_nodata _ _ _ _ _ (by rw [pready_secData hR, hd]; rfl), Or.inl rfl⟩
    | some d =>
      obtain ⟨hF, hocc, hinv, hcont, _, _, _⟩ := pready_inv hR hLS hd
      have hL : b1.link.toNat = sh img i "sh_link" := hF.link
      by_cases hl : sh img i "sh_link" < eh img "e_shnum"
      · obtain ⟨s, e, hRs, hLSs⟩ := r2a (by rw [hL]; exact hl)
        rw [e]
        cases hds : s.data with
        | none =>
          refine ⟨none, ?_, Or.inl rfl⟩
          rw [defGet_str_nodata _ _ s _ _ (by rw [getData_of_settled hRs.settled]; exact hds)]
          rw [tq_defGet_core (encOf img) b1 none hinv (fun s h => by cases h) num no hno]
          simp only [tabOf, defChainWf_nil, Bool.false_eq_true, if_false]
        | some ds =>
          obtain ⟨_, _, hinvs, hconts, _, _, _⟩ := pready_inv hRs hLSs hds
          rw [hL] at hconts
          refine ⟨_, tq_defGet_core (encOf img) b1 (some s) hinv (fun s' h => by cases h; exact hinvs) num no hno,
            Or.inr ?_⟩
          simp only [specDef, hno, true_and, tabOf, hcont, hconts, verTab, hl, if_true]
      · rw [r2b (by rw [hL]; omega)]
        refine ⟨_, tq_defGet_core (encOf img) b1 none hinv (fun s h => by cases h) num no hno, Or.inr ?_⟩
        simp only [specDef, hno, true_and, tabOf, hcont, verTab, hl, if_false]
  obtain ⟨out, hq, hout⟩ := key
  exact ⟨_, out, by simp only [TQ.runQuery, hs, hP.base.enc, hq, TQ.liftQ]; rfl, hP2, hout⟩

example (k : Nat) (kind : StreamKind) (isLazy : Bool) (rp : LoadRes)
    (hp : load {} { data := exImg2.take k, kind := kind } isLazy = .ok rp) (hok : rp.ok = true) (num no : BitVec 32) :
    ∃ o2 out, TQ.runQuery rp.obj (.defGet 7 num no) = .ok (o2, .vdef out) ∧
      (out = none ∨ out = specDef exImg2 7 num no) := by
  obtain ⟨o2, out, h, _, h'⟩ := prefix_verdef_sound exImg2 k rp.obj
    (prefixLoadedC_of_load exImg2 exImg2_wf {} rfl k kind isLazy rp hp hok) 7 (by decide +kernel) num no
  exact ⟨o2, out, h, h'⟩

/-! ### 5. the PT_NOTE segment accessor without the `p_type ≠ PT_NULL` hypothesis (file RANGE as reference) -/

/-- **prefix_segment_notes_sound_range**: `prefix_segment_notes_sound` for ANY segment type, with the reference taken
    from the complete file's bytes in the segment's file RANGE `[p_offset, p_offset + p_filesz)` (for a non-PT_NULL
    segment this range is `segFileBytes img j`, `segFileBytes_of_type`, and the statement is that of
    `prefix_segment_notes_sound`): on a prefix that loads the accessor reports no note at all, or exactly the notes
    `ns` encoded in that range of the COMPLETE file — never bytes from elsewhere, never a partial list.
    NOT proved here: that a PT_NULL segment with `p_filesz ≠ 0` never carries data on a prefix (on the complete file it
    does not: `segResident_ready`); that needs a "skip ⇒ no data" clause in the loader invariant `LoadedSeg`. -/
theorem prefix_segment_notes_sound_range (img : Bytes) (k : Nat) (o : Obj) (hP : PrefixLoadedS img k o) (j : Nat)
    (hj : j < eh img "e_phnum") (ns : List Spec.Note) (hf : ∀ n ∈ ns, n.Fits)
    (hbytes : slice img (ph img j "p_offset") (ph img j "p_filesz") = Spec.encodeNotes (encOf img) ns)
    (hsz : ph img j "p_filesz" ≤ 4294967293) (idx : BitVec 32) :
    ∃ o1 n out, inspect o (.segNoteNum j) = .ok (o1, .num n) ∧ inspect o (.segNote j idx) = .ok (o1, .note out) ∧
      PrefixLoadedS img k o1 ∧
      ((n = 0 ∧ out = none) ∨ (n = ns.length ∧ out = specNote ns idx.toNat)) := by
  obtain ⟨o1, g1, h1, hP1, _, _, hfs, hdata⟩ := prefix_segResident img k o hP j hj
  have henc : o1.enc = encOf img := hP1.base.base.enc
  rcases hdata with hd | ⟨hd, hl, _⟩
  · obtain ⟨p1, p2⟩ := note_nodata (encOf img) (segNoteSrc g1) (by simp only [segNoteSrc]; exact hd)
    refine ⟨o1, 0, none, ?_, ?_, hP1, Or.inl ⟨rfl, rfl⟩⟩
    · simp only [inspect, h1, henc, p1]; rfl
    · simp only [inspect, h1, henc, p1, p2 idx]; rfl
  · have hok : C13.SrcOk (segNoteSrc g1) := by
      intro a ha
      have ha' : g1.data = some a := ha
      rw [hd] at ha'
      cases ha'
      simp only [segNoteSrc, List.length_append, List.length_cons, List.length_nil]
      rw [hl, hfs]
      omega
    have hv : C13.NoteSrc.view (segNoteSrc g1) = Spec.encodeNotes (encOf img) ns := by
      rw [← hbytes]
      simp only [C13.NoteSrc.view, segNoteSrc, hd, Option.getD_some, hfs]
      exact List.take_left' hl
    obtain ⟨pos, hp, hn, hg⟩ := note_source_reports (encOf img) (segNoteSrc g1) hok
      (by simp only [segNoteSrc]; rw [hfs]; exact hsz) ns hf hv
    refine ⟨o1, ns.length, specNote ns idx.toNat, ?_, ?_, hP1, Or.inr ⟨rfl, rfl⟩⟩
    · simp only [inspect, h1, henc, hp, hn]; rfl
    · simp only [inspect, h1, henc, hp, hg idx]; rfl

example (k : Nat) (kind : StreamKind) (isLazy : Bool) (rp : LoadRes)
    (hp : load {} { data := exImg.take k, kind := kind } isLazy = .ok rp) (hok : rp.ok = true) (idx : BitVec 32) :
    ∃ o1 n out, inspect rp.obj (.segNoteNum 0) = .ok (o1, .num n) ∧
      inspect rp.obj (.segNote 0 idx) = .ok (o1, .note out) ∧
      ((n = 0 ∧ out = none) ∨ (n = 2 ∧ out = specNote exNotes idx.toNat)) := by
  obtain ⟨o1, n, out, g1, g2, _, g3⟩ := prefix_segment_notes_sound_range exImg k rp.obj
    (prefixLoadedS_of_load exImg exImg_wf {} rfl k kind isLazy rp hp hok) 0 (by decide +kernel)
    exNotes (by decide) (by decide +kernel) (by decide +kernel) idx
  exact ⟨o1, n, out, g1, g2, g3⟩

end ElfioVerif.ComposeTables
