/-
C05 — load, edit, save, load preserves what the user did not touch.
-/
import ElfioVerif.Lemmas.Save
import ElfioVerif.Props.C03
namespace ElfioVerif.C05
open Gen

/-! ### 1. what `save` changes of the object -/

/-- `b` is section `a` after a `save()`: apart from the placement (`offset`; `addr`/`addrSet` for a
    section that had no address) and the residency of lazily loaded data, nothing changes — in
    particular not name, name offset, type, flags, size, link, info, alignment, entry size. -/
structure SecSaved (a b : SecBuf) : Prop where
  rest : b = { a with offset := b.offset, addr := b.addr, addrSet := b.addrSet, data := b.data,
                      dataSize := b.dataSize, isLoaded := b.isLoaded, canLoad := b.canLoad }
  /-- an address that was set (explicitly, or by loading) is kept -/
  addrKept : a.addrSet = true → b.addr = a.addr ∧ b.addrSet = true
  /-- a data buffer that exists is kept (every section of a created object that has data; every
      resident section of a loaded one) -/
  dataSome : a.data.isSome = true → b.data = a.data ∧ b.dataSize = a.dataSize
  /-- a resident section (or one that can no longer be loaded) keeps all of its data state -/
  dataKept : (a.isLoaded = true ∨ a.canLoad = false) →
    b.data = a.data ∧ b.dataSize = a.dataSize ∧ b.isLoaded = a.isLoaded ∧ b.canLoad = a.canLoad

theorem secSaved_of {a a0 m b : SecBuf} (h0 : ResFrame a a0) (h1 : SecFrame a0 m) (h2 : ResFrame m b) :
    SecSaved a b := by
  have e0 := h0.rest; have e1 := h1.rest; have e2 := h2.rest
  refine ⟨?_, fun h => ?_, fun h => ?_, fun h => ?_⟩
  · rw [e0] at e1
    rw [e1] at e2
    rw [e2]
  · have ha0 : a0.addrSet = true := by rw [e0]; exact h
    obtain ⟨p, q⟩ := h1.addrKept ha0
    have : a0.addr = a.addr := by rw [e0]
    rw [e2]; exact ⟨p.trans this, q⟩
  · obtain ⟨p0, q0⟩ := h0.dataSome h
    have hm : m.data.isSome = true := by rw [e1]; show a0.data.isSome = true; rw [p0]; exact h
    obtain ⟨p2, q2⟩ := h2.dataSome hm
    have pm : m.data = a0.data := by rw [e1]
    have qm : m.dataSize = a0.dataSize := by rw [e1]
    exact ⟨p2.trans (pm.trans p0), q2.trans (qm.trans q0)⟩
  · have ea : a0 = a := h0.resident h
    subst ea
    have hm : m.isLoaded = true ∨ m.canLoad = false := by rw [e1]; exact h
    have := h2.resident hm
    rw [this, e1]; exact ⟨rfl, rfl, rfl, rfl⟩

/-- the header fields of a section that `save` leaves alone, spelled out -/
theorem SecSaved.fields {a b : SecBuf} (h : SecSaved a b) :
    b.name = a.name ∧ b.nameOff = a.nameOff ∧ b.stype = a.stype ∧ b.flags = a.flags ∧ b.size = a.size ∧
    b.link = a.link ∧ b.info = a.info ∧ b.addrAlign = a.addrAlign ∧ b.entSize = a.entSize ∧
    b.index = a.index ∧ b.cls = a.cls := by
  rw [h.rest]; exact ⟨rfl, rfl, rfl, rfl, rfl, rfl, rfl, rfl, rfl, rfl, rfl⟩

theorem SegSaved.fields {c : Cls} {g g' : Seg} (h : SegSaved c g g') :
    g'.stype = g.stype ∧ g'.flags = g.flags ∧ g'.vaddr = g.vaddr ∧ g'.paddr = g.paddr ∧
    g'.secs = g.secs ∧ g'.index = g.index ∧ g.align.toNat ≤ g'.align.toNat ∧
    (c = .c64 → g.memsz.toNat ≤ g'.memsz.toNat) := by
  refine ⟨?_, ?_, ?_, ?_, ?_, ?_, h.frame.alignGrows, h.frame.memGrows⟩ <;> rw [h.frame.rest]

/-- **save_writes_fields** : a successful `save` keeps the number and order of sections and
    segments; of a section it changes only the placement (`SecSaved`), of a segment only `offset`,
    `filesz`, `memsz` (grows), `align` (grows), `offsetSet` (`SegSaved`); class, byte order and address
    translation of the object are untouched.  Frame theorem over `calc_segment_alignment`, the
    segment loop (`write_segment_data` by induction over the member lists), the loose sections and
    the residency pass (`save_frames`).  Hypothesis `SegIdxOk`: segments carry their position as
    index (the "put back by index" step of the model relies on it; true below 65536 segments). -/
theorem save_writes_fields {o : Obj} {os : OStream} {r : SaveRes} (h : save o os = .ok r) (hok : r.ok = true)
    (hidx : SegIdxOk o.segs) :
    FrameL SecSaved o.secs r.obj.secs ∧ FrameL (SegSaved o.cls) o.segs r.obj.segs ∧
    r.obj.cls = o.cls ∧ r.obj.enc = o.enc ∧ r.obj.trans = o.trans := by
  obtain ⟨⟨l0, l1, f0, f1, f2⟩, fs, e1, e2, e3⟩ := save_frames h hok hidx
  have f01 : FrameL (fun a m => ∃ a0, ResFrame a a0 ∧ SecFrame a0 m) o.secs l1 :=
    FrameL.comp (R := ResFrame) (S := Placed o.cls) (fun a a0 m h0 h1 => ⟨a0, h0, Placed.frame h1⟩) f0 f1
  exact ⟨FrameL.comp (S := ResFrame) (T := SecSaved)
    (fun a m b h1 h2 => by obtain ⟨a0, h0, h1'⟩ := h1; exact secSaved_of h0 h1' h2) f01 f2, fs, e1, e2, e3⟩

end ElfioVerif.C05
