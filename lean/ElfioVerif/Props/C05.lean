/-
C05 — load, edit, save, load preserves what the user did not touch.
-/
import ElfioVerif.Lemmas.Save
import ElfioVerif.Props.C03
namespace ElfioVerif.C05
open Gen

/-! ### 1. what `save` changes of the object -/

/-- `b` is section `a` after a `save()`: apart from the placement (`offset`; `addr`/`addrSet` for a
    section that had no address) and the residency of lazily loaded data, nothing changes — in
    particular not name, name offset, type, flags, size, link, info, alignment, entry size. -/
structure SecSaved (a b : SecBuf) : Prop where
  rest : b = { a with offset := b.offset, addr := b.addr, addrSet := b.addrSet, data := b.data,
                      dataSize := b.dataSize, isLoaded := b.isLoaded, canLoad := b.canLoad }
  /-- an address that was set (explicitly, or by loading) is kept -/
  addrKept : a.addrSet = true → b.addr = a.addr ∧ b.addrSet = true
  /-- resident data (every section of a created or eagerly loaded object) is kept -/
  dataKept : (a.isLoaded = true ∨ a.canLoad = false) →
    b.data = a.data ∧ b.dataSize = a.dataSize ∧ b.isLoaded = a.isLoaded ∧ b.canLoad = a.canLoad

theorem secSaved_of {a m b : SecBuf} (h1 : SecFrame a m) (h2 : ResFrame m b) : SecSaved a b := by
  have e1 := h1.rest; have e2 := h2.rest
  refine ⟨?_, fun h => ?_, fun h => ?_⟩
  · rw [e1] at e2
    rw [e2]
  · obtain ⟨p, q⟩ := h1.addrKept h
    rw [e2]; exact ⟨p, q⟩
  · have hm : m.isLoaded = true ∨ m.canLoad = false := by rw [e1]; exact h
    have := h2.resident hm
    rw [this, e1]; exact ⟨rfl, rfl, rfl, rfl⟩

/-- the header fields of a section that `save` leaves alone, spelled out -/
theorem SecSaved.fields {a b : SecBuf} (h : SecSaved a b) :
    b.name = a.name ∧ b.nameOff = a.nameOff ∧ b.stype = a.stype ∧ b.flags = a.flags ∧ b.size = a.size ∧
    b.link = a.link ∧ b.info = a.info ∧ b.addrAlign = a.addrAlign ∧ b.entSize = a.entSize ∧
    b.index = a.index ∧ b.cls = a.cls := by
  rw [h.rest]; exact ⟨rfl, rfl, rfl, rfl, rfl, rfl, rfl, rfl, rfl, rfl, rfl⟩

theorem SegSaved.fields {c : Cls} {g g' : Seg} (h : SegSaved c g g') :
    g'.stype = g.stype ∧ g'.flags = g.flags ∧ g'.vaddr = g.vaddr ∧ g'.paddr = g.paddr ∧
    g'.secs = g.secs ∧ g'.index = g.index ∧ g.align.toNat ≤ g'.align.toNat ∧
    (c = .c64 → g.memsz.toNat ≤ g'.memsz.toNat) := by
  refine ⟨?_, ?_, ?_, ?_, ?_, ?_, h.frame.alignGrows, h.frame.memGrows⟩ <;> rw [h.frame.rest]

/-- **save_writes_fields** : a successful `save` keeps the number and order of sections and
    segments; of a section it changes only the placement (`SecSaved`), of a segment only `offset`,
    `filesz`, `memsz` (grows), `align` (grows), `offsetSet` (`SegSaved`); class, byte order and address
    translation of the object are untouched.  Frame theorem over `calc_segment_alignment`, the
    segment loop (`write_segment_data` by induction over the member lists), the loose sections and
    the residency pass (`save_frames`).  Hypothesis `SegIdxOk`: segments carry their position as
    index (the "put back by index" step of the model relies on it; true below 65536 segments). -/
theorem save_writes_fields {o : Obj} {os : OStream} {r : SaveRes} (h : save o os = .ok r) (hok : r.ok = true)
    (hidx : SegIdxOk o.segs) :
    FrameL SecSaved o.secs r.obj.secs ∧ FrameL (SegSaved o.cls) o.segs r.obj.segs ∧
    r.obj.cls = o.cls ∧ r.obj.enc = o.enc ∧ r.obj.trans = o.trans := by
  obtain ⟨⟨l1, f1, f2⟩, fs, e1, e2, e3⟩ := save_frames h hok hidx
  exact ⟨FrameL.comp (R := Placed o.cls) (S := ResFrame) (T := SecSaved)
    (fun a m b h1 h2 => secSaved_of (Placed.frame h1) h2) f1 f2, fs, e1, e2, e3⟩

end ElfioVerif.C05
