import ElfioVerif.Model.Writer
namespace ElfioVerif.C05
end ElfioVerif.C05
