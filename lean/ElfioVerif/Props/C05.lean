/-
C05 — load, edit, save, load preserves what the user did not touch.
-/
import ElfioVerif.Lemmas.Save
import ElfioVerif.Props.C03
namespace ElfioVerif.C05
open Gen

/-! ### 1. what `save` changes of the object -/

/-- `b` is section `a` after a `save()`: apart from the placement (`offset`; `addr`/`addrSet` for a
    section that had no address) and the residency of lazily loaded data, nothing changes — in
    particular not name, name offset, type, flags, size, link, info, alignment, entry size. -/
structure SecSaved (a b : SecBuf) : Prop where
  rest : b = { a with offset := b.offset, addr := b.addr, addrSet := b.addrSet, data := b.data,
                      dataSize := b.dataSize, isLoaded := b.isLoaded, canLoad := b.canLoad }
  /-- an address that was set (explicitly, or by loading) is kept -/
  addrKept : a.addrSet = true → b.addr = a.addr ∧ b.addrSet = true
  /-- resident data (every section of a created or eagerly loaded object) is kept -/
  dataKept : (a.isLoaded = true ∨ a.canLoad = false) →
    b.data = a.data ∧ b.dataSize = a.dataSize ∧ b.isLoaded = a.isLoaded ∧ b.canLoad = a.canLoad

theorem secSaved_of {a m b : SecBuf} (h1 : SecFrame a m) (h2 : ResFrame m b) : SecSaved a b := by
  have e1 := h1.rest; have e2 := h2.rest
  refine ⟨?_, fun h => ?_, fun h => ?_⟩
  · rw [e1] at e2
    rw [e2]
  · obtain ⟨p, q⟩ := h1.addrKept h
    rw [e2]; exact ⟨p, q⟩
  · have hm : m.isLoaded = true ∨ m.canLoad = false := by rw [e1]; exact h
    have := h2.resident hm
    rw [this, e1]; exact ⟨rfl, rfl, rfl, rfl⟩

/-- the header fields of a section that `save` leaves alone, spelled out -/
theorem SecSaved.fields {a b : SecBuf} (h : SecSaved a b) :
    b.name = a.name ∧ b.nameOff = a.nameOff ∧ b.stype = a.stype ∧ b.flags = a.flags ∧ b.size = a.size ∧
    b.link = a.link ∧ b.info = a.info ∧ b.addrAlign = a.addrAlign ∧ b.entSize = a.entSize ∧
    b.index = a.index ∧ b.cls = a.cls := by
  rw [h.rest]; exact ⟨rfl, rfl, rfl, rfl, rfl, rfl, rfl, rfl, rfl, rfl, rfl⟩

/-- segment `g'` is `g` after a `save()` -/
structure SegSaved (c : Cls) (g g' : Seg) : Prop where
  frame : SegFrame c g g'
  /-- either the segment was not laid out at all, or its offset is now initialised -/
  placed : (g'.offset = g.offset ∧ g'.filesz = g.filesz ∧ g'.memsz = g.memsz ∧ g'.offsetSet = g.offsetSet) ∨
    g'.offsetSet = true

theorem SegSaved.fields {c : Cls} {g g' : Seg} (h : SegSaved c g g') :
    g'.stype = g.stype ∧ g'.flags = g.flags ∧ g'.vaddr = g.vaddr ∧ g'.paddr = g.paddr ∧
    g'.secs = g.secs ∧ g'.index = g.index ∧ g.align.toNat ≤ g'.align.toNat ∧
    (c = .c64 → g.memsz.toNat ≤ g'.memsz.toNat) := by
  refine ⟨?_, ?_, ?_, ?_, ?_, ?_, h.frame.alignGrows, h.frame.memGrows⟩ <;> rw [h.frame.rest]

/-- **save_writes_fields** : a successful `save` keeps the number and order of sections and
    segments; of a section it changes only the placement (`SecSaved`), of a segment only `offset`,
    `filesz`, `memsz` (grows), `align` (grows), `offsetSet` (`SegSaved`); class, byte order and address
    translation of the object are untouched.  Frame theorem over `calc_segment_alignment`, the
    segment loop (`write_segment_data` by induction over the member lists), the loose sections and
    the residency pass.  Hypothesis `SegIdxOk`: segments carry their position as index (the
    "put back by index" step of the model relies on it; true below 65536 segments). -/
theorem save_writes_fields {o : Obj} {os : OStream} {r : SaveRes} (h : save o os = .ok r) (hok : r.ok = true)
    (hidx : SegIdxOk o.segs) :
    FrameL SecSaved o.secs r.obj.secs ∧ FrameL (SegSaved o.cls) o.segs r.obj.segs ∧
    r.obj.cls = o.cls ∧ r.obj.enc = o.enc ∧ r.obj.trans = o.trans := by
  obtain ⟨hd, segs1, ordered, lay, done, hh, hf, h1, h2, h3, rfl⟩ := save_ok_unfold h hok
  obtain ⟨_, eobj, _, _⟩ := saveTail_ok hok
  rw [eobj]
  simp only
  -- segments
  have fa := mapM_ok_frame h1
  have hidx1 : SegIdxOk segs1 := by
    intro k g hg
    have hk : k < o.segs.length := by
      rw [← fa.1]
      rcases Nat.lt_or_ge k segs1.length with hlt | hge
      · exact hlt
      · rw [List.getElem?_eq_none hge] at hg; cases hg
    have := fa.2 k o.segs[k] g (List.getElem?_eq_getElem hk) hg
    rw [(calcSegAlign_frame (c := o.cls) this).1.index]
    exact hidx k _ (List.getElem?_eq_getElem hk)
  obtain ⟨ds, ed, run⟩ := saveFold_run ordered h3
  simp only [List.nil_append] at ed
  subst ed
  obtain ⟨fsec, _, fseg⟩ := run.frame
  have hsub := orderedSegments_sub h2
  have pb := putBack_frame (c := o.cls) hidx1 (fun d hd' => by
    obtain ⟨g, hg, fr⟩ := forall₂_mem_right fseg hd'
    exact ⟨g, hsub g hg, fr⟩)
  refine ⟨?_, ?_, by first | rfl | trivial, by first | rfl | trivial, by first | rfl | trivial⟩
  · -- sections: segment loop, loose sections, residency
    obtain ⟨l1, e1, f1⟩ := layoutLoose_frame o.cls (putBack segs1 done) lay.secs 0 lay.pos []
    obtain ⟨l2, e2, f2⟩ := residentForSave_frame o.cls o.trans l1 { st := o.stream } []
    simp only [List.reverse_nil, List.nil_append] at e1 e2
    have fs : FrameL SecFrame o.secs l1 :=
      FrameL.trans (R := SecFrame) (fun _ _ _ => SecFrame.trans) fsec f1
    have e : tailSecs o segs1 lay done = l2 := by
      unfold tailSecs tailLoose; rw [e1, e2]
    rw [e]
    refine ⟨f2.1.trans fs.1, fun i a b ha hb => ?_⟩
    have hi : i < l1.length := by
      rw [fs.1]
      rcases Nat.lt_or_ge i o.secs.length with hlt | hge
      · exact hlt
      · rw [List.getElem?_eq_none hge] at ha; cases ha
    exact secSaved_of (fs.2 i a l1[i] ha (List.getElem?_eq_getElem hi))
      (f2.2 i l1[i] b (List.getElem?_eq_getElem hi) hb)
  · -- segments: alignment pass, then put back
    refine ⟨pb.1.trans fa.1, fun i a b ha hb => ?_⟩
    have hi : i < segs1.length := by
      rw [fa.1]
      rcases Nat.lt_or_ge i o.segs.length with hlt | hge
      · exact hlt
      · rw [List.getElem?_eq_none hge] at ha; cases ha
    have c1 := calcSegAlign_frame (c := o.cls) (fa.2 i a segs1[i] ha (List.getElem?_eq_getElem hi))
    have c2 := pb.2 i segs1[i] b (List.getElem?_eq_getElem hi) hb
    refine ⟨SegFrame.trans c1.1 c2.1, ?_⟩
    rcases c2.2 with e | e
    · left; rw [e]; exact c1.2
    · exact Or.inr e

end ElfioVerif.C05
